#!/usr/bin/env python3
"""Compile-time tables produced by the compilers from the REAL header (T-tie, table part):
   layout (sizeof / alignof / default_buffer_size over a grid of element and allocator shapes) for C19,
   noexcept(...) of the public special members over the trait grid for C18."""
import concurrent.futures as cf
import json, os, re, sys

import vlib

TAB = os.path.join(vlib.CACHE, 'tables')

LAYOUT_HDR = r'''
#include <gch/small_vector.hpp>
#include <cstdio>
#include <cstdint>
#include <cstddef>
template <std::size_t S, std::size_t A> struct alignas (A) El { unsigned char b[S]; };
template <typename T, typename SizeT, std::size_t K, std::size_t KA> struct LAState { alignas (KA) unsigned char st[K]; };
template <typename T, typename SizeT, std::size_t KA> struct LAState<T, SizeT, 0, KA> { };
template <typename T, typename SizeT, std::size_t K, std::size_t KA>
struct LA : LAState<T, SizeT, K, KA>
{
  typedef T value_type; typedef SizeT size_type; typedef typename std::make_signed<SizeT>::type difference_type;
  template <typename U> struct rebind { typedef LA<U, SizeT, K, KA> other; };
  LA () noexcept { }
  template <typename U> LA (const LA<U, SizeT, K, KA>&) noexcept { }
  T *allocate (size_type n) { return static_cast<T *> (::operator new (static_cast<std::size_t> (n) * sizeof (T))); }
  void deallocate (T *p, size_type) noexcept { ::operator delete (p); }
};
template <typename T, typename U, typename SizeT, std::size_t K, std::size_t KA>
bool operator== (const LA<T, SizeT, K, KA>&, const LA<U, SizeT, K, KA>&) noexcept { return true; }
template <typename T, typename U, typename SizeT, std::size_t K, std::size_t KA>
bool operator!= (const LA<T, SizeT, K, KA>&, const LA<U, SizeT, K, KA>&) noexcept { return false; }

template <std::size_t S, std::size_t A, typename SizeT, std::size_t K, std::size_t KA>
static void row (void)
{
  typedef El<S, A> T;
  typedef LA<T, SizeT, K, KA> AL;
  constexpr unsigned D = gch::default_buffer_size<AL>::value;
  typedef gch::small_vector<T, 0, AL> V0;
  typedef gch::small_vector<T, D, AL> VD;
  typedef gch::small_vector<T, D + 1, AL> VD1;
  typedef gch::small_vector<T, 1, AL> V1;
  typedef gch::small_vector<T> VDEF_STD;   // default argument with std::allocator
  VD v;
  unsigned long aligned = (reinterpret_cast<std::uintptr_t> (v.data ()) % A == 0) ? 1 : 0;
  unsigned long icap = (VD::inline_capacity () == D && VD1::inline_capacity () == D + 1 && V0::inline_capacity () == 0) ? 1 : 0;
  std::printf ("%zu %zu %zu %zu %zu %zu %u %zu %zu %zu %zu %lu %lu %zu\n", S, A, sizeof (SizeT), K, (K ? KA : (std::size_t) 1),
               sizeof (V0), D, sizeof (VD), sizeof (VD1), sizeof (V1), alignof (VD), aligned, icap, sizeof (VDEF_STD));
}
int main ()
{
'''


def layout_grid(tier):
    rows = []
    if tier == 'quick':
        sizes = [1, 2, 3, 4, 6, 8, 12, 16, 20, 24, 32, 40, 41, 48, 64, 72]
        states = [(0, 1), (1, 1), (8, 8), (16, 8)]
    else:
        sizes = list(range(1, 73))
        states = [(0, 1), (1, 1), (4, 4), (8, 8), (12, 4), (16, 8), (24, 8)]
    for s in sizes:
        for a in (1, 2, 4, 8, 16, 32, 64):
            if s % a:
                continue
            if tier == 'quick' and a > 16:
                continue
            for w in ('std::uint8_t', 'std::uint16_t', 'std::uint32_t', 'std::uint64_t'):
                for (k, ka) in states:
                    rows.append((s, a, w, k, ka))
    return rows


def build_table(name, hdr, calls, cxx, std='c++17', shards=16):
    """compile `shards` programs each running a slice of `calls`; returns the printed lines or an error"""
    os.makedirs(TAB, exist_ok=True)
    key = vlib.sha(vlib.repo_fingerprint(), name, hdr, cxx, std, *calls)[:20]
    out_path = os.path.join(TAB, '%s_%s.txt' % (name, key))
    if os.path.exists(out_path):
        return open(out_path).read().split('\n')[:-1], None
    per = (len(calls) + shards - 1) // shards

    def one(i):
        part = calls[i * per:(i + 1) * per]
        if not part:
            return [], None
        src = os.path.join(TAB, '%s_%s_%d.cpp' % (name, key, i))
        exe = src[:-4]
        with open(src, 'w') as f:
            f.write(hdr + ''.join('  ' + c + '\n' for c in part) + '  return 0;\n}\n')
        rc, out = vlib.run([cxx, '-std=' + std, '-O0', '-I' + os.path.join(vlib.REPO, 'source/include'), src, '-o', exe], timeout=1800)
        if rc != 0:
            return None, out[-3000:]
        rc, out = vlib.run([exe], timeout=300)
        for p in (src, exe):
            try:
                os.remove(p)
            except OSError:
                pass
        if rc != 0:
            return None, 'table program failed: ' + out[-1000:]
        return [l for l in out.split('\n') if l], None

    lines = []
    with cf.ThreadPoolExecutor(max_workers=vlib.NCPU) as ex:
        for res, err in ex.map(one, range(shards)):
            if err:
                return None, err
            lines += res
    with open(out_path, 'w') as f:
        f.write('\n'.join(lines) + '\n')
    return lines, None


def layout_table(tier, cxx='clang++'):
    grid = layout_grid(tier)
    calls = ['row<%d, %d, %s, %d, %d> ();' % (s, a, w, k, ka) for (s, a, w, k, ka) in grid]
    lines, err = build_table('layout_' + tier, LAYOUT_HDR, calls, cxx)
    if err:
        return None, err
    rows = [tuple(int(x) for x in l.split()) for l in lines]
    return rows, None


def write_layout_lean(rows, chunk=150):
    """Gen/LayoutTable.lean: the compiler-produced table as Lean data (chunks keep the literals shallow)"""
    out = ['-- GENERATED by tools/tables.py from sizeof/alignof of instantiations of the real header — do not edit',
           'namespace SvModel.Gen\n',
           '/-- element size s, alignment a, sizeof(size_type) w, allocator state bytes k, its alignment ka;',
           '    measured: sizeof(small_vector<T,0,A>), default_buffer_size<A>::value, sizeof with N = default, default+1, 1; alignof -/',
           'structure LayoutRow where',
           '  s : Nat\n  a : Nat\n  w : Nat\n  k : Nat\n  ka : Nat\n  size0 : Nat\n  defN : Nat\n  sizeD : Nat\n  sizeD1 : Nat\n  size1 : Nat\n  alignD : Nat',
           '  deriving DecidableEq, Repr\n']
    chunks = [rows[i:i + chunk] for i in range(0, len(rows), chunk)]
    for ci, ch in enumerate(chunks):
        out.append('def layoutChunk%d : List LayoutRow := [' % ci)
        out.append(',\n'.join('  ⟨%d, %d, %d, %d, %d, %d, %d, %d, %d, %d, %d⟩' % r[:11] for r in ch))
        out.append(']\n')
    out.append('def layoutChunks : List (List LayoutRow) := [' + ', '.join('layoutChunk%d' % i for i in range(len(chunks))) + ']')
    out.append('\nend SvModel.Gen\n')
    path = os.path.join(vlib.LEAN, 'SvModel', 'Gen', 'LayoutTable.lean')
    text = '\n'.join(out)
    if not os.path.exists(path) or open(path).read() != text:
        with open(path, 'w') as f:
            f.write(text)
    return len(chunks)


if __name__ == '__main__':
    tier = sys.argv[1] if len(sys.argv) > 1 else 'quick'
    rows, err = layout_table(tier)
    if err:
        print(err)
        sys.exit(1)
    print(len(rows), 'rows; chunks:', write_layout_lean(rows))
    print(rows[:3])
