#!/usr/bin/env python3
"""Compile-time tables produced by the compilers from the REAL header (T-tie, table part):
   layout (sizeof / alignof / default_buffer_size over a grid of element and allocator shapes) for C19,
   noexcept(...) of the public special members over the trait grid for C18."""
import concurrent.futures as cf
import json, os, re, sys

import vlib

TAB = os.path.join(vlib.CACHE, 'tables')

LAYOUT_HDR = r'''
#include <gch/small_vector.hpp>
#include <cstdio>
#include <cstdint>
#include <cstddef>
template <std::size_t S, std::size_t A> struct alignas (A) El { unsigned char b[S]; };
template <typename T, typename SizeT, std::size_t K, std::size_t KA> struct LAState { alignas (KA) unsigned char st[K]; };
template <typename T, typename SizeT, std::size_t KA> struct LAState<T, SizeT, 0, KA> { };
template <typename T, typename SizeT, std::size_t K, std::size_t KA>
struct LA : LAState<T, SizeT, K, KA>
{
  typedef T value_type; typedef SizeT size_type; typedef typename std::make_signed<SizeT>::type difference_type;
  template <typename U> struct rebind { typedef LA<U, SizeT, K, KA> other; };
  LA () noexcept { }
  template <typename U> LA (const LA<U, SizeT, K, KA>&) noexcept { }
  T *allocate (size_type n) { return static_cast<T *> (::operator new (static_cast<std::size_t> (n) * sizeof (T))); }
  void deallocate (T *p, size_type) noexcept { ::operator delete (p); }
};
template <typename T, typename U, typename SizeT, std::size_t K, std::size_t KA>
bool operator== (const LA<T, SizeT, K, KA>&, const LA<U, SizeT, K, KA>&) noexcept { return true; }
template <typename T, typename U, typename SizeT, std::size_t K, std::size_t KA>
bool operator!= (const LA<T, SizeT, K, KA>&, const LA<U, SizeT, K, KA>&) noexcept { return false; }

template <std::size_t S, std::size_t A, typename SizeT, std::size_t K, std::size_t KA>
static void row (void)
{
  typedef El<S, A> T;
  typedef LA<T, SizeT, K, KA> AL;
  constexpr unsigned D = gch::default_buffer_size<AL>::value;
  typedef gch::small_vector<T, 0, AL> V0;
  typedef gch::small_vector<T, D, AL> VD;
  typedef gch::small_vector<T, D + 1, AL> VD1;
  typedef gch::small_vector<T, 1, AL> V1;
  typedef gch::small_vector<T> VDEF_STD;   // default argument with std::allocator
  VD v;
  struct Holder { char c; VD v; } h;   // a member after a char: its address is only as aligned as alignof (VD) demands
  unsigned long aligned = (reinterpret_cast<std::uintptr_t> (v.data ()) % A == 0 && reinterpret_cast<std::uintptr_t> (h.v.data ()) % A == 0 && alignof (VD) % A == 0) ? 1 : 0;
  unsigned long icap = (VD::inline_capacity () == D && VD1::inline_capacity () == D + 1 && V0::inline_capacity () == 0) ? 1 : 0;
  std::printf ("%zu %zu %zu %zu %zu %zu %u %zu %zu %zu %zu %lu %lu %zu\n", S, A, sizeof (SizeT), K, (K ? KA : (std::size_t) 1),
               sizeof (V0), D, sizeof (VD), sizeof (VD1), sizeof (V1), alignof (VD), aligned, icap, sizeof (VDEF_STD));
}
int main ()
{
'''


def layout_grid(tier):
    rows = []
    if tier == 'quick':
        sizes = [1, 2, 3, 4, 6, 8, 12, 16, 20, 24, 32, 40, 41, 48, 64, 72]
        states = [(0, 1), (1, 1), (8, 8), (16, 8)]
    else:
        sizes = list(range(1, 73))
        states = [(0, 1), (1, 1), (4, 4), (8, 8), (12, 4), (16, 8), (24, 8)]
    for s in sizes:
        for a in (1, 2, 4, 8, 16, 32, 64):
            if s % a:
                continue
            for w in ('std::uint8_t', 'std::uint16_t', 'std::uint32_t', 'std::uint64_t'):
                for (k, ka) in states:
                    if tier == 'quick' and a > 16 and (w != 'std::uint64_t' or k not in (0, 8)):
                        continue     # over-aligned element types (extended alignment): a few rows in the quick tier, all in the thorough one
                    rows.append((s, a, w, k, ka))
    return rows


def build_table(name, hdr, calls, cxx, std='c++17', shards=16):
    """compile `shards` programs each running a slice of `calls`; returns the printed lines or an error"""
    os.makedirs(TAB, exist_ok=True)
    key = vlib.sha(vlib.repo_fingerprint(), name, hdr, cxx, std, *calls)[:20]
    out_path = os.path.join(TAB, '%s_%s.txt' % (name, key))
    if os.path.exists(out_path):
        return open(out_path).read().split('\n')[:-1], None
    per = (len(calls) + shards - 1) // shards

    def one(i):
        part = calls[i * per:(i + 1) * per]
        if not part:
            return [], None
        src = os.path.join(TAB, '%s_%s_%d.cpp' % (name, key, i))
        exe = src[:-4]
        with open(src, 'w') as f:
            f.write(hdr + ''.join('  ' + c + '\n' for c in part) + '  return 0;\n}\n')
        rc, out = vlib.run([cxx, '-std=' + std, '-O0', '-I' + os.path.join(vlib.REPO, 'source/include'), src, '-o', exe], timeout=1800)
        if rc != 0:
            return None, out[-3000:]
        rc, out = vlib.run([exe], timeout=300)
        for p in (src, exe):
            try:
                os.remove(p)
            except OSError:
                pass
        if rc != 0:
            return None, 'table program failed: ' + out[-1000:]
        return [l for l in out.split('\n') if l], None

    lines = []
    with cf.ThreadPoolExecutor(max_workers=vlib.NCPU) as ex:
        for res, err in ex.map(one, range(shards)):
            if err:
                return None, err
            lines += res
    with open(out_path, 'w') as f:
        f.write('\n'.join(lines) + '\n')
    return lines, None


def layout_table(tier, cxx='clang++'):
    grid = layout_grid(tier)
    calls = ['row<%d, %d, %s, %d, %d> ();' % (s, a, w, k, ka) for (s, a, w, k, ka) in grid]
    lines, err = build_table('layout_' + tier, LAYOUT_HDR, calls, cxx)
    if err:
        return None, err
    rows = [tuple(int(x) for x in l.split()) for l in lines]
    return rows, None


def write_layout_lean(rows, chunk=150):
    """Gen/LayoutTable.lean: the compiler-produced table as Lean data (chunks keep the literals shallow)"""
    out = ['-- GENERATED by tools/tables.py from sizeof/alignof of instantiations of the real header — do not edit',
           'namespace SvModel.Gen\n',
           '/-- element size s, alignment a, sizeof(size_type) w, allocator state bytes k, its alignment ka;',
           '    measured: sizeof(small_vector<T,0,A>), default_buffer_size<A>::value, sizeof with N = default, default+1, 1; alignof -/',
           'structure LayoutRow where',
           '  s : Nat\n  a : Nat\n  w : Nat\n  k : Nat\n  ka : Nat\n  size0 : Nat\n  defN : Nat\n  sizeD : Nat\n  sizeD1 : Nat\n  size1 : Nat\n  alignD : Nat',
           '  deriving DecidableEq, Repr\n']
    chunks = [rows[i:i + chunk] for i in range(0, len(rows), chunk)]
    for ci, ch in enumerate(chunks):
        out.append('def layoutChunk%d : List LayoutRow := [' % ci)
        out.append(',\n'.join('  ⟨%d, %d, %d, %d, %d, %d, %d, %d, %d, %d, %d⟩' % r[:11] for r in ch))
        out.append(']\n')
    out.append('def layoutChunks : List (List LayoutRow) := [' + ', '.join('layoutChunk%d' % i for i in range(len(chunks))) + ']')
    out.append('\nend SvModel.Gen\n')
    path = os.path.join(vlib.LEAN, 'SvModel', 'Gen', 'LayoutTable.lean')
    text = '\n'.join(out)
    if not os.path.exists(path) or open(path).read() != text:
        with open(path, 'w') as f:
            f.write(text)
    return len(chunks)


if __name__ == '__main__':
    tier = sys.argv[1] if len(sys.argv) > 1 else 'quick'
    rows, err = layout_table(tier)
    if err:
        print(err)
        sys.exit(1)
    print(len(rows), 'rows; chunks:', write_layout_lean(rows))
    print(rows[:3])


# --------------------------------------------------------------------------------------------------------------
# C18: noexcept table
# --------------------------------------------------------------------------------------------------------------
NOEXCEPT_HDR = r'''
#include <gch/small_vector.hpp>
#include <cstdio>
#include <iterator>
#include <memory>
#include <type_traits>
#include <utility>
template <bool MC, bool MA, bool SW>
struct T3
{
  int v;
  T3 () { }
  T3 (const T3&) { }
  T3& operator= (const T3&) { return *this; }
  T3 (T3&&) noexcept (MC) { }
  T3& operator= (T3&&) noexcept (MA) { return *this; }
  friend void swap (T3&, T3&) noexcept (SW) { }
};
template <typename T, bool POCMA, bool POCS, bool AE, bool DN>
struct NA
{
  typedef T value_type;
  typedef std::integral_constant<bool, POCMA> propagate_on_container_move_assignment;
  typedef std::integral_constant<bool, POCS> propagate_on_container_swap;
  typedef std::integral_constant<bool, AE> is_always_equal;
  template <typename U> struct rebind { typedef NA<U, POCMA, POCS, AE, DN> other; };
  int id;
  NA () noexcept (DN) : id (0) { }
  NA (const NA& o) noexcept : id (o.id) { }
  NA& operator= (const NA& o) noexcept { id = o.id; return *this; }
  template <typename U> NA (const NA<U, POCMA, POCS, AE, DN>& o) noexcept : id (o.id) { }
  T *allocate (std::size_t n) { return static_cast<T *> (::operator new (n * sizeof (T))); }
  void deallocate (T *p, std::size_t) noexcept { ::operator delete (p); }
};
template <typename T, typename U, bool POCMA, bool POCS, bool AE, bool DN>
bool operator== (const NA<T, POCMA, POCS, AE, DN>& a, const NA<U, POCMA, POCS, AE, DN>& b) noexcept { return AE || a.id == b.id; }
template <typename T, typename U, bool POCMA, bool POCS, bool AE, bool DN>
bool operator!= (const NA<T, POCMA, POCS, AE, DN>& a, const NA<U, POCMA, POCS, AE, DN>& b) noexcept { return ! (a == b); }

template <typename V> static bool observers_noexcept (void)
{
  return noexcept (std::declval<const V&> ().size ()) && noexcept (std::declval<const V&> ().capacity ())
      && noexcept (std::declval<const V&> ().max_size ()) && noexcept (std::declval<const V&> ().empty ())
      && noexcept (std::declval<const V&> ().data ()) && noexcept (std::declval<V&> ().data ())
      && noexcept (std::declval<const V&> ().get_allocator ())
      && noexcept (std::declval<V&> ().begin ()) && noexcept (std::declval<const V&> ().begin ()) && noexcept (std::declval<const V&> ().cbegin ())
      && noexcept (std::declval<V&> ().end ()) && noexcept (std::declval<const V&> ().end ()) && noexcept (std::declval<const V&> ().cend ())
      && noexcept (std::declval<V&> ().rbegin ()) && noexcept (std::declval<const V&> ().crbegin ())
      && noexcept (std::declval<V&> ().rend ()) && noexcept (std::declval<const V&> ().crend ())
      && noexcept (std::declval<const V&> ().inlined ()) && noexcept (std::declval<const V&> ().inlinable ()) && noexcept (V::inline_capacity ());
}
template <typename V> static bool traits_ok (void)
{
  typedef typename V::iterator It; typedef typename V::const_iterator CIt;
  bool ok = std::is_trivially_copyable<It>::value && std::is_trivially_copyable<CIt>::value
    && std::is_same<typename std::iterator_traits<It>::iterator_category, std::random_access_iterator_tag>::value
    && std::is_same<typename std::iterator_traits<CIt>::iterator_category, std::random_access_iterator_tag>::value
    && std::is_same<typename V::value_type, typename std::iterator_traits<It>::value_type>::value
    && std::is_same<typename V::reference, typename V::value_type&>::value
    && std::is_same<typename V::const_reference, const typename V::value_type&>::value
    && std::is_same<typename V::pointer, typename std::allocator_traits<typename V::allocator_type>::pointer>::value
    && std::is_same<typename V::const_pointer, typename std::allocator_traits<typename V::allocator_type>::const_pointer>::value
    && std::is_same<typename V::size_type, typename std::allocator_traits<typename V::allocator_type>::size_type>::value
    && std::is_same<typename V::difference_type, typename std::allocator_traits<typename V::allocator_type>::difference_type>::value
    && std::is_same<typename V::reverse_iterator, std::reverse_iterator<It>>::value
    && std::is_same<typename V::const_reverse_iterator, std::reverse_iterator<CIt>>::value;
#if defined (__cpp_lib_concepts) && __cplusplus >= 202002L
  ok = ok && std::contiguous_iterator<It> && std::contiguous_iterator<CIt>;
#endif
  return ok;
}

// one row per (element traits, N, allocator kind): the values of the noexcept expressions in a fixed order
template <typename T, unsigned N, typename A, unsigned LESS, unsigned GREATER>
struct Exprs
{
  typedef gch::small_vector<T, N, A> V;
  typedef gch::small_vector<T, GREATER, A> VG;
  static void print (int mc, int ma, int sw, int isstd, int pocma, int pocs, int ae, int dn)
  {
    std::printf ("%d %d %d %u %d %d %d %d %d :", mc, ma, sw, N, isstd, pocma, pocs, ae, dn);
    std::printf (" %d", (int) noexcept (V ()));
    std::printf (" %d", (int) noexcept (V (std::declval<V&&> ())));
    std::printf (" %d", (int) noexcept (V (std::declval<const A&> ())));
    std::printf (" %d", (int) noexcept (std::declval<V&> () = std::declval<V&&> ()));
    std::printf (" %d", (int) noexcept (std::declval<V&> ().assign (std::declval<V&&> ())));
    std::printf (" %d", (int) noexcept (std::declval<V&> ().swap (std::declval<V&> ())));
    std::printf (" %d", (int) noexcept (swap (std::declval<V&> (), std::declval<V&> ())));
    std::printf (" %d", (int) noexcept (std::declval<V&> ().clear ()));
    std::printf (" %d", (int) observers_noexcept<V> ());
    std::printf (" %d", (int) noexcept (V (std::declval<VG&&> ())));
    std::printf (" %d", (int) noexcept (std::declval<V&> ().assign (std::declval<VG&&> ())));
    std::printf (" %d", (int) noexcept (V (std::declval<const V&> ())));
    less (std::integral_constant<bool, (N > 0)> ());
    std::printf (" %d\n", (int) traits_ok<V> ());
  }
  static void less (std::true_type)
  {
    typedef gch::small_vector<T, LESS, A> VL;
    std::printf (" %d", (int) noexcept (V (std::declval<VL&&> ())));
    std::printf (" %d", (int) noexcept (std::declval<V&> ().assign (std::declval<VL&&> ())));
  }
  static void less (std::false_type) { std::printf (" 2 2"); }
};
template <bool MC, bool MA, bool SW, unsigned N>
static void rows (void)
{
  typedef T3<MC, MA, SW> T;
  Exprs<T, N, std::allocator<T>, (N > 0 ? N - 1 : 0), N + 3>::print (MC, MA, SW, 1, 1, 0, 1, 1);
  Exprs<T, N, NA<T, false, false, false, true>, (N > 0 ? N - 1 : 0), N + 3>::print (MC, MA, SW, 0, 0, 0, 0, 1);
  Exprs<T, N, NA<T, true, false, false, true>, (N > 0 ? N - 1 : 0), N + 3>::print (MC, MA, SW, 0, 1, 0, 0, 1);
  Exprs<T, N, NA<T, false, true, false, true>, (N > 0 ? N - 1 : 0), N + 3>::print (MC, MA, SW, 0, 0, 1, 0, 1);
  Exprs<T, N, NA<T, false, false, true, true>, (N > 0 ? N - 1 : 0), N + 3>::print (MC, MA, SW, 0, 0, 0, 1, 1);
  Exprs<T, N, NA<T, true, true, false, false>, (N > 0 ? N - 1 : 0), N + 3>::print (MC, MA, SW, 0, 1, 1, 0, 0);
}
int main ()
{
'''

NOEXCEPT_EXPRS = ['default_ctor', 'move_ctor', 'alloc_ctor', 'move_assign_op', 'assign_rv', 'swap_member', 'swap_nonmember', 'clear',
                  'observers', 'ctor_from_greater_rv', 'assign_greater_rv', 'copy_ctor', 'ctor_from_less_rv', 'assign_less_rv', 'traits_ok']


def noexcept_table(std='c++17', cxx='g++'):
    calls = []
    for mc in ('false', 'true'):
        for ma in ('false', 'true'):
            for sw in ('false', 'true'):
                for n in (0, 2):
                    calls.append('rows<%s, %s, %s, %d> ();' % (mc, ma, sw, n))
    lines, err = build_table('noexcept_' + std.replace('+', 'p'), NOEXCEPT_HDR, calls, cxx, std=std, shards=4)
    if err:
        return None, err
    rows = []
    for l in lines:
        a, b = l.split(':')
        rows.append(tuple(int(x) for x in a.split()) + tuple(int(x) for x in b.split()))
    return rows, None


def write_noexcept_lean(rows):
    out = ['-- GENERATED by tools/tables.py from noexcept(...) expressions evaluated by the compiler on the real header — do not edit',
           'namespace SvModel.Gen\n',
           '/-- element traits (nothrow move ctor / move assign / swap), inline capacity, allocator traits, then the measured values',
           '    of the noexcept expressions (2 = not applicable: no smaller inline capacity exists for N = 0) -/',
           'structure NxRow where',
           '  mc : Bool\n  ma : Bool\n  sw : Bool\n  N : Nat\n  isStd : Bool\n  pocma : Bool\n  pocs : Bool\n  ae : Bool\n  dn : Bool',
           '  vals : List Nat',
           '  deriving DecidableEq, Repr\n',
           'def nxExprs : List String := [' + ', '.join('"%s"' % e for e in NOEXCEPT_EXPRS) + ']\n',
           'def nxTable : List NxRow := [']
    b = lambda x: 'true' if x else 'false'
    out.append(',\n'.join('  ⟨%s, %s, %s, %d, %s, %s, %s, %s, %s, [%s]⟩' % (b(r[0]), b(r[1]), b(r[2]), r[3], b(r[4]), b(r[5]), b(r[6]), b(r[7]), b(r[8]),
                                                                       ', '.join(str(x) for x in r[9:])) for r in rows))
    out.append(']\n\nend SvModel.Gen\n')
    path = os.path.join(vlib.LEAN, 'SvModel', 'Gen', 'NoexceptTable.lean')
    text = '\n'.join(out)
    if not os.path.exists(path) or open(path).read() != text:
        with open(path, 'w') as f:
            f.write(text)


# --------------------------------------------------------------------------------------------------------------
# C20: class shape as the debugger sees it + the member paths used by the shipped visualisers
# --------------------------------------------------------------------------------------------------------------
def gdb_run(std='c++17', cxx='g++'):
    d = os.path.join(vlib.CACHE, 'c20', vlib.sha(vlib.repo_fingerprint(), open(os.path.join(vlib.VERIF, 'harness', 'gdb_states.cpp')).read(), std, cxx)[:16])
    os.makedirs(d, exist_ok=True)
    exe = os.path.join(d, 'gdb_states')
    if not os.path.exists(exe):
        rc, out = vlib.run([cxx, '-std=' + std, '-O0', '-g', '-I' + os.path.join(vlib.REPO, 'source/include'), os.path.join(vlib.VERIF, 'harness', 'gdb_states.cpp'), '-o', exe], timeout=600)
        if rc != 0:
            return None, 'gdb_states.cpp does not compile: ' + out[-1500:]
    rc, out = vlib.run(['gdb', '-batch', '-x', os.path.join(vlib.VERIF, 'tools', 'gdb_c20.py'), exe], timeout=300, env=dict(os.environ, VERIF_REPO=vlib.REPO))
    expect, got, shapes = {}, {}, {}
    for l in out.split('\n'):
        if l.startswith('EXPECT '):
            n, rest = l[7:].split(' ', 1)
            expect[n] = rest
        elif l.startswith('GDB '):
            n, rest = l[4:].split(' ', 1)
            got[n] = rest
        elif l.startswith('SHAPE '):
            n, rest = l[6:].split(' ', 1)
            shapes[n] = json.loads(rest)
    return dict(expect=expect, got=got, shapes=shapes, raw=out[-2000:]), None


def printer_paths():
    """member names / positions the shipped visualisers use, read from their sources"""
    py = open(os.path.join(vlib.REPO, 'source/support/python/gch/gdb/prettyprinters/small_vector/prettyprinter.py')).read()
    nat = open(os.path.join(vlib.REPO, 'source/support/visualstudio/small_vector.natvis')).read()
    m = re.search(r"self\.base\s*=\s*val\['(\w+)'\]", py)
    root = m.group(1) if m else None
    m = re.search(r"self\.data_base\s*=\s*self\.base\.cast\(self\.base\.type\.fields\(\)\[(\d+)\]\.type\)", py)
    idx = int(m.group(1)) if m else None
    members = sorted(set(re.findall(r"self\.data_base\['(\w+)'\]", py)))
    it_members = sorted(set(re.findall(r"self\.val\['(\w+)'\]", py)))
    # natvis: dotted paths inside expressions
    exprs = re.findall(r'>([^<>]*)<', nat) + re.findall(r'Condition="([^"]*)"', nat) + re.findall(r'\{([^{}]*)\}', nat)
    paths = set()
    for e in exprs:
        e = e.replace('&amp;', ' ').replace('&', ' ')
        for tok in re.findall(r'[A-Za-z_]\w*(?:\.[A-Za-z_]\w*)*', e):
            if tok in ('size', 'inlined', 'allocated', 'simple', 'capacity', 'allocator', 'ptr'):
                continue
            paths.add(tok)
    # static data members of class small_vector, from the header text (g++ omits unused static constexpr members from the debug info)
    hpp = open(os.path.join(vlib.REPO, 'source/include/gch/small_vector.hpp')).read()
    m2 = re.search(r'\n  class small_vector\s*\n\s*: private', hpp)
    statics = []
    if m2:
        body = hpp[m2.start():]
        statics = sorted(set(re.findall(r'static\s+constexpr\s+(?:[\w:<>]+\s+)+?(\w+)\s*=', body[:body.find('\n  };')])))
    return dict(py_root=root, py_first_field_index=idx, py_members=members, py_iterator_members=it_members, natvis_paths=sorted(paths), statics=statics)


def write_shape_lean(shapes, paths):
    """flatten the class graphs into a table: class name -> fields (name, isBase, isStatic, class name of the field's type or "")"""
    classes = {}

    def walk(sh):
        if sh is None:
            return ''
        name = sh['name']
        if name not in classes:
            classes[name] = None
            classes[name] = [(f['name'], f['base'], f['static'], walk(f['type'])) for f in sh['fields']]
        return name
    roots = {n: walk(shapes[n]) for n in sorted(shapes)}
    b = lambda x: 'true' if x else 'false'
    q = lambda x: '"' + x.replace('"', "'") + '"'
    out = ['-- GENERATED by tools/tables.py from the debug information of instantiations of the real header (as gdb sees them) and from the',
           '-- sources of the shipped visualisers — do not edit', 'namespace SvModel.Gen\n',
           '/-- a field: name, is it a base-class subobject, is it a static member, class of its type ("" when not a class) -/',
           'structure Fld where', '  name : String', '  isBase : Bool', '  isStatic : Bool', '  cls : String', '  deriving DecidableEq, Repr\n',
           'def classTable : List (String × List Fld) := [']
    out.append(',\n'.join('  (%s, [%s])' % (q(n), ', '.join('⟨%s, %s, %s, %s⟩' % (q(f[0]), b(f[1]), b(f[2]), q(f[3])) for f in fs)) for n, fs in classes.items()))
    out.append(']\n')
    out.append('def containerRoots : List String := [' + ', '.join(q(roots[n]) for n in sorted(roots) if not n.startswith('it_')) + ']')
    out.append('def iteratorRoots : List String := [' + ', '.join(q(roots[n]) for n in sorted(roots) if n.startswith('it_')) + ']')
    out.append('def nonEboRoots : List String := [' + ', '.join(q(roots[n]) for n in sorted(roots) if n.startswith('a_')) + ']\n')
    out.append('def pyRoot : String := %s' % q(paths['py_root'] or ''))
    out.append('def pyFirstFieldIndex : Nat := %s' % (paths['py_first_field_index'] if paths['py_first_field_index'] is not None else 999))
    out.append('def pyMembers : List String := [' + ', '.join(q(m) for m in paths['py_members']) + ']')
    out.append('def pyIteratorMembers : List String := [' + ', '.join(q(m) for m in paths['py_iterator_members']) + ']')
    out.append('def staticMembers : List String := [' + ', '.join(q(m) for m in paths.get('statics', [])) + ']')
    out.append('def natvisPaths : List (List String) := [' + ', '.join('[' + ', '.join(q(x) for x in p.split('.')) + ']' for p in paths['natvis_paths']) + ']')
    out.append('\nend SvModel.Gen\n')
    path = os.path.join(vlib.LEAN, 'SvModel', 'Gen', 'ClassShape.lean')
    text = '\n'.join(out)
    if not os.path.exists(path) or open(path).read() != text:
        with open(path, 'w') as f:
            f.write(text)


# --------------------------------------------------------------------------------------------------------------
# C13: memcpy-eligibility table (is_memcpyable / is_uninitialized_memcpyable / is_contiguous_iterator of the real
# header over a grid of source/destination types) + what the compiler's static_cast does to object representations
# --------------------------------------------------------------------------------------------------------------
MEMCPY_HDR = r'''
#include <gch/small_vector.hpp>
#include <cstdio>
#include <cstring>
#include <cstdint>
#include <deque>
#include <list>
#include <vector>
#include <array>
#include <iterator>
#include <type_traits>
struct B1 { int a; };
struct B2 { int b; };
struct D : B1, B2 { int c; };
struct S1 : B1 { int d; };             // single inheritance: base at offset 0
enum E8 : unsigned char { e8a = 0, e8b = 200 };
enum class ES16 : short { a = 0, b = -5 };
enum class EI : int { a = 0, b = 7 };
enum EB : bool { ebf = false, ebt = true };
template <typename T> struct AI : gch::detail::allocator_interface<std::allocator<T>> { };

// descriptor of a type as the model sees it:  kind size signed isbool   (kind: 0 integral, 1 enum, 2 floating, 3 pointer)
template <typename T, bool E = std::is_enum<T>::value> struct Under { typedef T type; };
template <typename T> struct Under<T, true> { typedef typename std::underlying_type<T>::type type; };
template <typename T> static void desc (void)
{
  typedef typename Under<T>::type U;
  int kind = std::is_enum<T>::value ? 1 : std::is_floating_point<T>::value ? 2 : std::is_pointer<T>::value ? 3 : 0;
  std::printf ("%d %zu %d %d", kind, sizeof (T), (int) std::is_signed<U>::value, (int) std::is_same<U, bool>::value);
}
// does static_cast<To>(x) keep the object representation, for every sample bit pattern of From?  (the ground truth)
template <typename From, typename To, bool Conv = std::is_convertible<From, To>::value || (std::is_enum<From>::value || std::is_enum<To>::value)>
struct Ident
{
  static int run (void)
  {
    if (sizeof (From) != sizeof (To)) return 0;
    typedef typename Under<From>::type UF;
    static const unsigned long long pats[] = { 0ull, 1ull, 2ull, 0x7full, 0x80ull, 0xffull, 0x100ull, 0x7fffull, 0x8000ull, 0xffffull, 0x7fffffffull, 0x80000000ull,
                                                0xffffffffull, 0x7fffffffffffffffull, 0x8000000000000000ull, 0xffffffffffffffffull, 0x4048f5c3ull, 0x400921fb54442d18ull };
    for (unsigned i = 0; i < sizeof (pats) / sizeof (pats[0]); ++i)
    {
      unsigned long long p = pats[i];
      if (std::is_same<UF, bool>::value && p > 1) continue;       // not a valid bool
      From f; std::memcpy (&f, &p, sizeof (From));
      To t = static_cast<To> (f);
      if (std::memcmp (&t, &f, sizeof (To)) != 0) return 0;
    }
    return 1;
  }
};
template <typename From, typename To> struct Ident<From, To, false> { static int run (void) { return 0; } };
template <typename From, typename To, bool Conv = std::is_convertible<From *, To *>::value>
struct PtrOff { static long run (void) { static typename std::remove_cv<From>::type obj; From *p = &obj; To *q = p; return (long) ((const char *) (const void *) q - (const char *) (const void *) p); } };
template <typename From, typename To> struct PtrOff<From, To, false> { static long run (void) { return -1; } };

template <typename From, typename To> static void row (const char *fn, const char *tn)
{
  std::printf ("V %s %s : ", fn, tn); desc<From> (); std::printf (" : "); desc<To> ();
  std::printf (" : %d %d %d %d %d %d : %d\n",
    (int) AI<To>::template is_memcpyable<From>::value, (int) AI<To>::template is_memcpyable<From&>::value, (int) AI<To>::template is_memcpyable<const From&>::value,
    (int) AI<To>::template is_uninitialized_memcpyable<To, From>::value, (int) AI<To>::template is_uninitialized_memcpyable<To, From&>::value,
    (int) AI<To>::template is_uninitialized_memcpyable<To, const From&>::value,
    Ident<From, To>::run ());
}
template <typename From, typename To> static void prow (const char *fn, const char *tn)
{
  typedef From *FP; typedef To *TP;
  std::printf ("P %s %s : %d %ld : %d %d %d %d\n", fn, tn, (int) std::is_convertible<FP, TP>::value,
    PtrOff<From, typename std::conditional<std::is_void<typename std::remove_cv<To>::type>::value, From, To>::type>::run (),
    (int) AI<TP>::template is_memcpyable<FP>::value, (int) AI<TP>::template is_memcpyable<FP const&>::value,
    (int) AI<TP>::template is_uninitialized_memcpyable<TP, FP>::value, (int) AI<TP>::template is_uninitialized_memcpyable<TP, FP const&>::value);
}
template <typename T, typename It> static void irow (const char *tn, const char *in, int truly)
{
  std::printf ("I %s %s : %d %d\n", tn, in, (int) AI<T>::template is_contiguous_iterator<It>::value, truly);
}
// class types: the verdicts for construction / assignment from a prvalue, a non-const lvalue and a const lvalue, and whether
// really running the selected constructor / assignment operator leaves exactly the source's bytes (ground truth by execution)
struct Pod2 { int a; int b; };
struct Fwd      // trivially copyable, but construction from a NON-CONST LVALUE selects the template (which is not a copy constructor)
{
  int value; int hops;
  Fwd () = default; Fwd (const Fwd&) = default; Fwd (Fwd&&) = default; Fwd& operator= (const Fwd&) = default; Fwd& operator= (Fwd&&) = default;
  template <typename U, typename std::enable_if<std::is_same<typename std::decay<U>::type, Fwd>::value>::type * = nullptr>
  Fwd (U&& u) : value (u.value), hops (u.hops + 1) { }
};
struct FwdAsg   // the same for assignment
{
  int value; int hops;
  FwdAsg () = default; FwdAsg (const FwdAsg&) = default; FwdAsg (FwdAsg&&) = default; FwdAsg& operator= (const FwdAsg&) = default; FwdAsg& operator= (FwdAsg&&) = default;
  template <typename U, typename std::enable_if<std::is_same<typename std::decay<U>::type, FwdAsg>::value>::type * = nullptr>
  FwdAsg& operator= (U&& u) { value = u.value; hops = u.hops + 1; return *this; }
};
struct NonTriv { int v; NonTriv () : v (0) { } NonTriv (const NonTriv& o) : v (o.v + 1) { } NonTriv& operator= (const NonTriv& o) { v = o.v + 1; return *this; } };
template <typename T> static T ksample (int k) { T t = T (); unsigned char *p = reinterpret_cast<unsigned char *> (&t); for (std::size_t i = 0; i < sizeof (T); ++i) p[i] = static_cast<unsigned char> ((k + 1) * 17 + i * 3) & 0x3f; return t; }
template <typename From, typename To, typename Arg> static int kctor (void)
{
  if (sizeof (From) != sizeof (To)) return 0;
  From f = ksample<From> (1); unsigned char before[sizeof (From)]; std::memcpy (before, &f, sizeof (From));
  alignas (To) unsigned char buf[sizeof (To)];
  To *t = new (buf) To (static_cast<Arg> (f));
  int same = std::memcmp (t, before, sizeof (To)) == 0;
  t->~To ();
  return same;
}
template <typename From, typename To, typename Arg> static int kasg (void)
{
  if (sizeof (From) != sizeof (To)) return 0;
  From f = ksample<From> (1); unsigned char before[sizeof (From)]; std::memcpy (before, &f, sizeof (From));
  To t = ksample<To> (2);
  t = static_cast<Arg> (f);
  return std::memcmp (&t, before, sizeof (To)) == 0;
}
template <typename From, typename To> static void krow (const char *fn, const char *tn)
{
  std::printf ("K %s %s : %d %d %d %d %d %d : %d %d %d %d %d %d\n", fn, tn,
    (int) AI<To>::template is_uninitialized_memcpyable<To, From>::value, (int) AI<To>::template is_uninitialized_memcpyable<To, From&>::value,
    (int) AI<To>::template is_uninitialized_memcpyable<To, const From&>::value,
    (int) AI<To>::template is_memcpyable<From>::value, (int) AI<To>::template is_memcpyable<From&>::value, (int) AI<To>::template is_memcpyable<const From&>::value,
    kctor<From, To, From&&> (), kctor<From, To, From&> (), kctor<From, To, const From&> (),
    kasg<From, To, From&&> (), kasg<From, To, From&> (), kasg<From, To, const From&> ());
}
#define ROW(F, T) row<F, T> (#F, #T)
#define PROW(F, T) prow<F, T> (#F, #T)
int main ()
{
'''

MEMCPY_VALUE_TYPES = ['bool', 'char', 'signed_char', 'unsigned_char', 'short', 'unsigned_short', 'int', 'unsigned', 'long', 'unsigned_long',
                      'long_long', 'wchar_t', 'char16_t', 'char32_t', 'E8', 'ES16', 'EI', 'EB', 'float', 'double']
MEMCPY_PTR_PAIRS = [('D', 'B1'), ('D', 'B2'), ('D', 'const D'), ('D', 'void'), ('D', 'const void'), ('const D', 'const void'), ('const D', 'D'),
                    ('B2', 'const B2'), ('S1', 'B1'), ('S1', 'const B1'), ('B1', 'D'), ('int', 'void'), ('int', 'const int'), ('int', 'unsigned'), ('D', 'D'), ('B2', 'B2')]


def memcpy_table(std='c++17', cxx='g++'):
    cname = lambda t: t.replace('_', ' ')
    calls = ['typedef signed char signed_char; typedef unsigned char unsigned_char; typedef unsigned short unsigned_short; '
             'typedef unsigned long unsigned_long; typedef long long long_long;']
    for f in MEMCPY_VALUE_TYPES:
        for t in MEMCPY_VALUE_TYPES:
            calls.append('ROW(%s, %s);' % (f, t))
    for f, t in MEMCPY_PTR_PAIRS:
        calls.append('prow<%s, %s> ("%s", "%s");' % (f, t, f.replace(' ', '_'), t.replace(' ', '_')))
    its = [('int', 'int *', 1), ('int', 'const int *', 1), ('int', 'gch::small_vector<int, 3>::iterator', 1), ('int', 'gch::small_vector<int, 0>::const_iterator', 1),
           ('int', 'std::list<int>::iterator', 0), ('int', 'std::deque<int>::iterator', 0), ('int', 'std::reverse_iterator<int *>', 0),
           ('int', 'std::reverse_iterator<gch::small_vector<int, 3>::iterator>', 0), ('int', 'std::istream_iterator<int>', 0),
           ('bool', 'std::vector<bool>::iterator', 0), ('bool', 'bool *', 1), ('long', 'gch::small_vector<int, 3>::iterator', 1)]
    for t, it, truly in its:
        calls.append('irow<%s, %s> ("%s", "%s", %d);' % (t, it, t, re.sub(r'\W+', '_', it).strip('_'), truly))
    for t in ('Pod2', 'Fwd', 'FwdAsg', 'NonTriv', 'int', 'EI'):
        calls.append('krow<%s, %s> ("%s", "%s");' % (t, t, t, t))
    hdr = MEMCPY_HDR.replace('#include <iterator>', '#include <iterator>\n#include <istream>')
    # the typedef line must precede main's body statements: build_table indents each call inside main
    lines, err = build_table('memcpy_' + std.replace('+', 'p') + '_' + cxx.replace('+', 'p'), hdr, calls, cxx, std=std, shards=1)
    if err:
        return None, err
    rows = dict(V=[], P=[], I=[], K=[])
    for l in lines:
        tag, rest = l.split(' ', 1)
        names, *parts = [x.strip() for x in rest.split(':')]
        rows[tag].append((names.split(), [[int(x) for x in p.split()] for p in parts]))
    return rows, None


def write_memcpy_lean(rows, std):
    b = lambda x: 'true' if x else 'false'
    out = ['-- GENERATED by tools/tables.py: memcpy-eligibility traits of the real header evaluated by the compiler (%s) — do not edit' % std,
           'namespace SvModel.Gen\n',
           '/-- a value type as the conversion model sees it: kind (0 integral, 1 enum, 2 floating), size in bytes,',
           '    signedness and bool-ness of the (underlying) integral type -/',
           'structure TyDesc where\n  kind : Nat\n  size : Nat\n  signed : Bool\n  isBool : Bool\n  deriving DecidableEq, Repr\n',
           '/-- one (From, To) pair: the header\'s verdicts for assignment (from a prvalue / lvalue / const lvalue) and for construction,',
           '    and whether the COMPILER\'s static_cast kept every sample object representation (ground truth) -/',
           'structure McRow where\n  fromName : String\n  toName : String\n  from_ : TyDesc\n  to : TyDesc\n  asg : Bool\n  ctor : Bool\n  identBySamples : Bool\n  deriving Repr\n',
           '/-- pointer pair From* → To*: implicit convertibility, the address adjustment the compiler applies (−1: not convertible),',
           '    and the header\'s verdicts -/',
           'structure McPtrRow where\n  fromName : String\n  toName : String\n  convertible : Bool\n  offset : Int\n  asg : Bool\n  ctor : Bool\n  deriving Repr\n',
           '/-- iterator classification: what the header says, and whether the iterator really addresses contiguous storage -/',
           'structure McItRow where\n  elem : String\n  iter : String\n  deemed : Bool\n  truly : Bool\n  deriving Repr\n',
           '/-- a class (or scalar) type T → T: the header\'s verdicts for construction / assignment from a prvalue, a non-const lvalue and',
           '    a const lvalue, and whether RUNNING the constructor / assignment the language selects leaves exactly the source\'s bytes -/',
           'structure McClassRow where\n  name : String\n  ctorR : Bool\n  ctorL : Bool\n  ctorC : Bool\n  asgR : Bool\n  asgL : Bool\n  asgC : Bool',
           '  truthCtorR : Bool\n  truthCtorL : Bool\n  truthCtorC : Bool\n  truthAsgR : Bool\n  truthAsgL : Bool\n  truthAsgC : Bool\n  deriving Repr\n',
           'def mcTable : List McRow := [']
    vr = []
    for names, parts in rows['V']:
        f, t, flags, ident = parts[0], parts[1], parts[2], parts[3]
        vr.append('  ⟨"%s", "%s", ⟨%d, %d, %s, %s⟩, ⟨%d, %d, %s, %s⟩, %s, %s, %s⟩' % (
            names[0], names[1], f[0], f[1], b(f[2]), b(f[3]), t[0], t[1], b(t[2]), b(t[3]),
            b(flags[0] or flags[1] or flags[2]), b(flags[3] or flags[4] or flags[5]), b(ident[0])))
    out.append(',\n'.join(vr))
    out.append(']\n\ndef mcPtrTable : List McPtrRow := [')
    out.append(',\n'.join('  ⟨"%s", "%s", %s, %d, %s, %s⟩' % (n[0], n[1], b(p[0][0]), p[0][1], b(p[1][0] or p[1][1]), b(p[1][2] or p[1][3])) for n, p in rows['P']))
    out.append(']\n\ndef mcItTable : List McItRow := [')
    out.append(',\n'.join('  ⟨"%s", "%s", %s, %s⟩' % (n[0], n[1], b(p[0][0]), b(p[0][1])) for n, p in rows['I']))
    out.append(']\n\ndef mcClassTable : List McClassRow := [')
    out.append(',\n'.join('  ⟨"%s", %s⟩' % (n[0], ', '.join(b(x) for x in p[0] + p[1])) for n, p in rows['K']))
    out.append(']\n\nend SvModel.Gen\n')
    path = os.path.join(vlib.LEAN, 'SvModel', 'Gen', 'MemcpyTable.lean')
    text = '\n'.join(out)
    if not os.path.exists(path) or open(path).read() != text:
        with open(path, 'w') as f:
            f.write(text)
    return len(vr)
