#!/usr/bin/env python3
"""T-tie: regenerate lean/SvModel/Gen/*.lean from /repo's current header text.

Works on the header *text*: comments and string literals are blanked (offsets kept),
definitions are located by balanced parentheses / braces, preprocessor conditionals inside a
function are resolved against a fixed macro environment (the "model standard": C++17 run time
plus the is_constant_evaluated branches, which become `e.constEval`), conditions and pure bodies
are parsed by a small recursive-descent parser and re-emitted as Lean.

Anything outside the accepted subset raises Untranslatable; the item is then emitted as a Lean
comment and recorded under "untranslatable" in Gen/translate_report.json — the checks treat a
missing item as a broken tie (the dependent theorem no longer elaborates).  Never guesses.
"""
import hashlib, json, os, re, sys

HERE = os.path.dirname(os.path.abspath(__file__))
VERIF = os.path.dirname(HERE)
REPO = os.environ.get("VERIF_REPO", "/repo")
HPP = os.path.join(REPO, "source/include/gch/small_vector.hpp")
GEN = os.environ.get("VERIF_GEN_DIR") or os.path.join(VERIF, "lean", "SvModel", "Gen")


class Untranslatable(Exception):
    pass


# ----------------------------------------------------------------------------------------------
# text utilities
# ----------------------------------------------------------------------------------------------
def strip_comments(s):
    out = []
    i = 0
    n = len(s)
    while i < n:
        if s.startswith('//', i):
            j = s.find('\n', i)
            j = n if j < 0 else j
            out.append(' ' * (j - i))
            i = j
        elif s.startswith('/*', i):
            j = s.find('*/', i) + 2
            out.append(re.sub(r'[^\n]', ' ', s[i:j]))
            i = j
        elif s[i] == '"':
            j = i + 1
            while s[j] != '"' or s[j - 1] == '\\':
                j += 1
            out.append('"' + ' ' * (j - i - 1) + '"')
            i = j + 1
        elif s[i] == "'" and i + 2 < n and (s[i + 2] == "'" or (s[i + 1] == '\\' and s[i + 3] == "'")):
            j = s.find("'", i + 2 if s[i + 1] != '\\' else i + 3)
            out.append("'" + ' ' * (j - i - 1) + "'")
            i = j + 1
        else:
            out.append(s[i])
            i += 1
    return ''.join(out)


def match_close(s, i, o='(', c=')'):
    d = 0
    n = len(s)
    while i < n:
        if s[i] == o:
            d += 1
        elif s[i] == c:
            d -= 1
            if d == 0:
                return i
        i += 1
    raise Untranslatable('unbalanced ' + o)


# macros considered defined when resolving #if inside function bodies (the model standard)
MODEL_MACROS = {
    'GCH_LIB_IS_CONSTANT_EVALUATED', 'GCH_EXCEPTIONS', 'GCH_LIB_IS_ALWAYS_EQUAL', '__GLIBCXX__',
    'GCH_LIB_CONSTEXPR_MEMORY', 'GCH_LIB_IS_SWAPPABLE',
}


def eval_pp_cond(kind, rest, macros):
    rest = rest.strip()
    if kind == 'ifdef':
        return rest.split()[0] in macros
    if kind == 'ifndef':
        return rest.split()[0] not in macros
    # #if defined (X) && defined (Y) ...
    expr = re.sub(r'defined\s*\(\s*(\w+)\s*\)', lambda m: ' True ' if m.group(1) in macros else ' False ', rest)
    expr = re.sub(r'defined\s+(\w+)', lambda m: ' True ' if m.group(1) in macros else ' False ', expr)
    expr = expr.replace('&&', ' and ').replace('||', ' or ').replace('!', ' not ')
    if not re.fullmatch(r'[\s()A-Za-z]*', expr) or re.search(r'\b(?!True\b|False\b|and\b|or\b|not\b)[A-Za-z_]\w*', expr):
        raise Untranslatable('preprocessor condition: ' + rest)
    return bool(eval(expr))


def resolve_pp(text, macros=MODEL_MACROS):
    """blank out inactive preprocessor regions (and the directive lines themselves)"""
    out = []
    stack = []  # (parent_active, this_branch_taken_already, currently_active)
    active = True
    for line in text.split('\n'):
        m = re.match(r'\s*#\s*(ifdef|ifndef|if|elif|else|endif)\b(.*)', line)
        if m:
            kind, rest = m.group(1), m.group(2)
            if kind in ('ifdef', 'ifndef', 'if'):
                c = eval_pp_cond(kind, rest, macros) if active else False
                stack.append((active, c))
                active = active and c
            elif kind == 'elif':
                par, taken = stack[-1]
                c = (not taken) and par and eval_pp_cond('if', rest, macros)
                stack[-1] = (par, taken or c)
                active = par and c
            elif kind == 'else':
                par, taken = stack[-1]
                active = par and not taken
                stack[-1] = (par, True)
            else:
                par, _ = stack.pop()
                active = par
            out.append(' ' * len(line))
        elif re.match(r'\s*#', line):
            out.append(' ' * len(line))
        else:
            out.append(line if active else ' ' * len(line))
    return '\n'.join(out)


class Header:
    def __init__(self, path=HPP):
        self.path = path
        self.src = open(path).read()
        self.code = strip_comments(self.src)

    def line_of(self, off):
        return self.code.count('\n', 0, off) + 1

    def find_functions(self, name, scope=None):
        """yield dict(line, quals, body, params) for each definition `name (...) quals {`"""
        code = self.code
        lo, hi = scope if scope else (0, len(code))
        for m in re.finditer(r'(?<![\w:.>])' + re.escape(name) + r'\s*\(', code[lo:hi]):
            start = lo + m.start()
            popen = lo + m.end() - 1
            try:
                p = match_close(code, popen)
            except Untranslatable:
                continue
            j = p + 1
            hdr_end = None
            while j < len(code):
                ch = code[j]
                if ch == '(':
                    j = match_close(code, j) + 1
                    continue
                if ch == '{':
                    hdr_end = j
                    break
                if ch in ';=,)}':
                    break
                if ch == ':' and code[j:j + 2] != '::':
                    # constructor init list: skip to the body brace
                    k = j + 1
                    while k < len(code) and code[k] != '{':
                        if code[k] == '(':
                            k = match_close(code, k)
                        k += 1
                    # may be `member {}` brace-init; accept the first '{' preceded by ')' or identifier end followed by newline
                    hdr_end = k
                    break
                if ch == ':':
                    j += 2
                    continue
                j += 1
            if hdr_end is None:
                continue
            # must look like a definition: previous non-space token is a type/identifier/newline, not an operator or '.'
            k = start - 1
            while k >= 0 and code[k] in ' \t\n':
                k -= 1
            if k >= 0 and code[k] in '.(,=!|<+-/?:' and code[k - 1:k + 1] != '::':
                continue
            try:
                q = match_close(code, hdr_end, '{', '}')
            except Untranslatable:
                continue
            yield dict(line=self.line_of(start), quals=code[p + 1:hdr_end], body=code[hdr_end:q + 1],
                       params=code[popen + 1:p], start=start, end=q + 1)

    def class_scope(self, classname):
        m = re.search(r'\bclass\s+(?:GCH_EMPTY_BASE\s+)?' + re.escape(classname) + r'\b[^;{]*\{', self.code)
        if not m:
            raise Untranslatable('class ' + classname + ' not found')
        q = match_close(self.code, m.end() - 1, '{', '}')
        return (m.end() - 1, q)

    def struct_scope(self, name):
        m = re.search(r'\bstruct\s+' + re.escape(name) + r'\b[^;{]*\{', self.code)
        if not m:
            raise Untranslatable('struct ' + name + ' not found')
        q = match_close(self.code, m.end() - 1, '{', '}')
        return (m.start(), q)


# ----------------------------------------------------------------------------------------------
# expression parser (C++ subset) -> Lean
# ----------------------------------------------------------------------------------------------
TOK = re.compile(r'\s*(?:(\d+)[uUlL]*|([A-Za-z_]\w*(?:\s*::\s*[A-Za-z_]\w*)*)|(<=>|<=|>=|==|!=|&&|\|\||->|[-+*/%<>!().,?:{}]))')


def tokenize(x):
    out = []
    i = 0
    while i < len(x):
        m = TOK.match(x, i)
        if not m:
            if x[i:].strip() == '':
                break
            raise Untranslatable('cannot tokenise: ' + x[i:i + 40].strip())
        out.append(re.sub(r'\s+', '', m.group(1) or m.group(2) or m.group(3)))
        i = m.end()
    return out


class Expr:
    """recursive descent over tokens; `atoms` maps C++ atoms (nullary calls / identifiers, possibly
    with `other.`/`lhs.` prefixes) to (lean_text, type) with type in {'nat','bool'}"""

    def __init__(self, toks, atoms, calls=None):
        self.t = toks
        self.i = 0
        self.atoms = atoms
        self.calls = calls or {}

    def peek(self):
        return self.t[self.i] if self.i < len(self.t) else None

    def eat(self, x=None):
        if self.i >= len(self.t):
            raise Untranslatable('unexpected end of expression')
        tok = self.t[self.i]
        if x is not None and tok != x:
            raise Untranslatable('expected %s got %s' % (x, tok))
        self.i += 1
        return tok

    def parse(self):
        e = self.tern()
        if self.peek() is not None:
            raise Untranslatable('trailing tokens: ' + ' '.join(self.t[self.i:]))
        return e

    def tern(self):
        c = self.orx()
        if self.peek() == '?':
            self.eat()
            a = self.tern()
            self.eat(':')
            b = self.tern()
            self.need(c, 'bool')
            if a[1] != b[1]:
                raise Untranslatable('ternary branches of different type')
            return ('(if %s then %s else %s)' % (c[0], a[0], b[0]), a[1])
        return c

    def need(self, e, ty):
        if e[1] != ty:
            raise Untranslatable('type mismatch: %s is %s, need %s' % (e[0], e[1], ty))

    def orx(self):
        l = self.andx()
        while self.peek() == '||':
            self.eat()
            r = self.andx()
            self.need(l, 'bool'); self.need(r, 'bool')
            l = ('(%s || %s)' % (l[0], r[0]), 'bool')
        return l

    def andx(self):
        l = self.cmp()
        while self.peek() == '&&':
            self.eat()
            r = self.cmp()
            self.need(l, 'bool'); self.need(r, 'bool')
            l = ('(%s && %s)' % (l[0], r[0]), 'bool')
        return l

    def cmp(self):
        l = self.add()
        if self.peek() in ('<', '<=', '>', '>=', '==', '!='):
            op = self.eat()
            r = self.add()
            if l[1] != r[1]:
                raise Untranslatable('comparison of different types')
            if l[1] == 'nat':
                lop = {'<': '<', '<=': '≤', '>': '>', '>=': '≥', '==': '=', '!=': '≠'}[op]
                return ('decide (%s %s %s)' % (l[0], lop, r[0]), 'bool')
            if l[1] == 'bool' and op in ('==', '!='):
                return ('(%s %s %s)' % (l[0], op, r[0]), 'bool')
            if l[1] == 'alloc' and op in ('==', '!='):
                return ('(%s %s %s)' % (l[0], op, r[0]), 'bool')
            if l[1] == 'list':
                f = self.calls.get('list' + op)
                if not f:
                    raise Untranslatable('list comparison ' + op)
                return ('(%s %s %s)' % (f, l[0], r[0]), 'bool')
            raise Untranslatable('comparison on ' + l[1])
        return l

    def add(self):
        l = self.mul()
        while self.peek() in ('+', '-'):
            op = self.eat()
            r = self.mul()
            self.need(l, 'nat'); self.need(r, 'nat')
            l = ('(%s %s %s)' % (l[0], op, r[0]), 'nat')
        return l

    def mul(self):
        l = self.un()
        while self.peek() in ('*', '/'):
            op = self.eat()
            r = self.un()
            self.need(l, 'nat'); self.need(r, 'nat')
            l = ('(%s %s %s)' % (l[0], op, r[0]), 'nat')
        return l

    def un(self):
        if self.peek() == '!':
            self.eat()
            e = self.un()
            self.need(e, 'bool')
            return ('(!%s)' % e[0], 'bool')
        return self.postfix()

    def postfix(self):
        if self.peek() == '(':
            self.eat()
            e = self.tern()
            self.eat(')')
            return e
        tok = self.eat()
        if tok.isdigit():
            return (tok, 'nat')
        name = tok
        # member chains  a.b  /  a.b ()
        while self.peek() == '.':
            self.eat()
            name += '.' + self.eat()
        args = None
        if self.peek() == '(':
            self.eat()
            args = []
            if self.peek() != ')':
                args.append(self.tern())
                while self.peek() == ',':
                    self.eat()
                    args.append(self.tern())
            self.eat(')')
        if name in ('static_cast',):
            raise Untranslatable('static_cast in expression')
        if args:
            f = self.calls.get(name)
            if f is None:
                raise Untranslatable('call to ' + name)
            return f(args)
        if name not in self.atoms:
            raise Untranslatable('unknown atom ' + name + (' ()' if args is not None else ''))
        return self.atoms[name]


def norm(s):
    return re.sub(r'\s+', ' ', s).strip()


# ----------------------------------------------------------------------------------------------
# guard environment
# ----------------------------------------------------------------------------------------------
GUARD_ATOMS = {
    'get_size': ('e.size', 'nat'), 'get_capacity': ('e.cap', 'nat'), 'get_max_size': ('e.maxSize', 'nat'),
    'num_uninitialized': ('(e.cap - e.size)', 'nat'), 'InlineCapacity': ('e.N', 'nat'),
    'has_allocation': ('(hasAllocation e.constEval e.N e.cap)', 'bool'),
    'other.get_size': ('e.oSize', 'nat'), 'other.get_capacity': ('e.oCap', 'nat'),
    'other.has_allocation': ('(hasAllocation e.constEval e.oN e.oCap)', 'bool'),
    'count': ('e.count', 'nat'), 'new_size': ('e.newSize', 'nat'), 'request': ('e.request', 'nat'),
    'num_insert': ('e.numInsert', 'nat'), 'tail_size': ('e.tailSize', 'nat'), 'offset': ('e.offset', 'nat'),
    'minimum_required_capacity': ('e.request', 'nat'), 'n': ('e.request', 'nat'), 'new_capacity': ('e.newCap', 'nat'),
    'std::is_constant_evaluated': ('e.constEval', 'bool'),
    'allocator_ref': ('e.alloc', 'alloc'), 'other.allocator_ref': ('e.oAlloc', 'alloc'), 'alloc': ('e.argAlloc', 'alloc'),
}
# whole conditions about pointers, mapped as text (normalised); a change of the text breaks the tie
GUARD_POINTER_CONDS = {
    'end_ptr () == pos': 'decide (e.pos = e.size)',
    'pos == end_ptr ()': 'decide (e.pos = e.size)',
    '! (end_ptr () == pos)': '(!decide (e.pos = e.size))',
    'unchecked_next (first) == last': 'decide (e.numInsert = 1)',
    '! (first == last)': 'decide (e.numInsert ≠ 0)',
    'first == last': 'decide (e.numInsert = 0)',
    '0 == count': 'decide (0 = e.count)',
    '1 == count': 'decide (1 = e.count)',
    'size_ty change = internal_range_length (pos, end_ptr ())': 'decide (e.size - e.pos ≠ 0)',
    '! has_allocation () || get_size () == get_capacity ()': None,  # parsed normally
    '&other != this': '(!e.sameObject)',
    'curr == last': None, 'first == last || curr == last': None,
}

# functions whose `if` conditions are extracted, in source order of their definitions
GUARD_FUNCTIONS = [
    'copy_assign_default', 'copy_assign', 'move_assign_default', 'move_assign_unequal_no_propagate', 'move_assign',
    'move_initialize', 'assign_with_copies', 'assign_with_range', 'append_element', 'append_copies', 'append_range',
    'emplace_at', 'insert_copies', 'insert_range_helper', 'insert_range', 'emplace_into_current',
    'emplace_into_reallocation_end', 'emplace_into_reallocation', 'shrink_to_size', 'resize_with', 'request_capacity',
    'erase_range', 'erase_to_end', 'swap_default', 'swap_unequal_no_propagate', 'swap', 'checked_allocate',
    'checked_calculate_new_capacity', 'wipe',
    'at',                      # the two public overloads (class small_vector): the out_of_range test of C01
]
# decision points that live in the public class rather than in small_vector_base
PUBLIC_GUARD_FUNCTIONS = {'at'}


def extract_conditions(body):
    """ordered list of (`if`-condition text, offset) in a pp-resolved body; `if constexpr` macros skipped"""
    res = []
    for m in re.finditer(r'\bif\s*(GCH_IF_CONSTEXPR\s*)?\(', body):
        p = match_close(body, m.end() - 1)
        res.append((norm(body[m.end():p]), bool(m.group(1))))
    return res


# in the public class `pos` is an index (size_type), not a pointer, and the size is read through `size ()`
PUBLIC_GUARD_ATOMS = dict(GUARD_ATOMS, pos=('e.pos', 'nat'), size=('e.size', 'nat'), capacity=('e.cap', 'nat'), max_size=('e.maxSize', 'nat'))


def translate_guard(cond, public=False):
    if public:
        e = Expr(tokenize(cond), PUBLIC_GUARD_ATOMS).parse()
        if e[1] != 'bool':
            raise Untranslatable('guard is not Boolean: ' + cond)
        return e[0]
    if cond in GUARD_POINTER_CONDS and GUARD_POINTER_CONDS[cond] is not None:
        return GUARD_POINTER_CONDS[cond]
    e = Expr(tokenize(cond), GUARD_ATOMS).parse()
    if e[1] != 'bool':
        raise Untranslatable('guard is not Boolean: ' + cond)
    return e[0]


def noexcept_of(quals):
    m = re.search(r'\bnoexcept\b\s*(\()?', quals)
    if not m:
        return 'none', None
    if not m.group(1):
        return 'always', None
    p = match_close(quals, m.end() - 1)
    return 'conditional', norm(quals[m.end():p])


# ----------------------------------------------------------------------------------------------
# generators
# ----------------------------------------------------------------------------------------------
PRELUDE = "-- GENERATED by tools/translate.py from %s — do not edit\n"


def write_if_changed(path, text):
    os.makedirs(os.path.dirname(path), exist_ok=True)
    if os.path.exists(path) and open(path).read() == text:
        return False
    with open(path, 'w') as f:
        f.write(text)
    return True


def gen_growth(h, report):
    """unchecked_calculate_new_capacity, checked_calculate_new_capacity, get_max_size"""
    scope = h.class_scope('small_vector_base')
    out = [PRELUDE % 'hpp: unchecked_calculate_new_capacity / checked_calculate_new_capacity / get_max_size / has_allocation',
           'namespace SvModel.Gen\n']
    # --- has_allocation
    fs = list(h.find_functions('has_allocation', scope))
    if len(fs) != 1:
        raise Untranslatable('has_allocation: %d definitions' % len(fs))
    body = resolve_pp(fs[0]['body'])
    stm = statements(body)
    atoms = {'std::is_constant_evaluated': ('constEval', 'bool'), 'InlineCapacity': ('N', 'nat'), 'get_capacity': ('cap', 'nat'),
             'true': ('true', 'bool'), 'false': ('false', 'bool')}
    out.append('/-- has_allocation (hpp:%d) -/' % fs[0]['line'])
    out.append('def hasAllocation (constEval : Bool) (N cap : Nat) : Bool :=\n  ' + emit_stmts(stm, atoms, 'bool'))
    out.append('')
    # --- unchecked_calculate_new_capacity
    fs = list(h.find_functions('unchecked_calculate_new_capacity', scope))
    if len(fs) != 1:
        raise Untranslatable('unchecked_calculate_new_capacity: %d definitions' % len(fs))
    f = fs[0]
    body = resolve_pp(f['body'])
    pm = re.search(r'(\w+)\s*$', f['params'].strip())
    atoms = {'get_capacity': ('cap', 'nat'), 'get_max_size': ('maxSize', 'nat'), pm.group(1): ('req', 'nat')}
    out.append('/-- unchecked_calculate_new_capacity (hpp:%d); size_ty arithmetic as Nat (no wrap: see Properties/C12) -/' % f['line'])
    out.append('def newCapacity (maxSize cap req : Nat) : Nat :=\n  ' + emit_stmts(statements(body), atoms, 'nat'))
    out.append('')
    report['functions']['unchecked_calculate_new_capacity'] = dict(line=f['line'], noexcept=noexcept_of(f['quals'])[0])
    # --- checked_calculate_new_capacity: guard + call
    fs = list(h.find_functions('checked_calculate_new_capacity', scope))
    if len(fs) != 1:
        raise Untranslatable('checked_calculate_new_capacity: %d definitions' % len(fs))
    f = fs[0]
    body = resolve_pp(f['body'])
    st = statements(body)
    pm = re.search(r'(\w+)\s*$', f['params'].strip())
    atoms = {'get_max_size': ('maxSize', 'nat'), pm.group(1): ('req', 'nat')}
    if not (len(st) == 2 and st[0][0] == 'ifthrow' and st[1][0] == 'return' and
            norm(st[1][1]) == 'unchecked_calculate_new_capacity (%s)' % pm.group(1)):
        raise Untranslatable('checked_calculate_new_capacity: unexpected shape')
    c = Expr(tokenize(st[0][1]), atoms).parse()
    out.append('/-- checked_calculate_new_capacity (hpp:%d): `none` = length_error -/' % f['line'])
    out.append('def checkedNewCapacity (maxSize cap req : Nat) : Option Nat :=\n  if %s then none else some (newCapacity maxSize cap req)' % c[0])
    out.append('')
    # --- get_max_size (allocator_interface)
    ai = h.class_scope('allocator_interface')
    fs = list(h.find_functions('get_max_size', ai))
    if len(fs) != 1:
        raise Untranslatable('get_max_size: %d definitions' % len(fs))
    f = fs[0]
    body = norm(resolve_pp(f['body']))
    want = '{ return (std::min) (static_cast<size_ty> (alloc_traits::max_size (allocator_ref ())), static_cast<size_ty> (numeric_max<difference_type> ())); }'
    if body != want:
        raise Untranslatable('get_max_size: body changed: ' + body)
    out.append('/-- get_max_size (hpp:%d): min (allocator max_size, max of difference_type) -/' % f['line'])
    out.append('def maxSize (allocMax diffMax : Nat) : Nat := min allocMax diffMax')
    out.append('\nend SvModel.Gen\n')
    return '\n'.join(out)


def statements(body):
    """parse a pure body `{ ... }` into [('let', name, expr) | ('if', cond, stmts) | ('ifthrow', cond) | ('return', expr) | ('assert',)]"""
    s = body.strip()
    if not (s.startswith('{') and s.endswith('}')):
        raise Untranslatable('body braces')
    s = s[1:-1]
    res = []
    i = 0
    while i < len(s):
        if s[i] in ' \t\n':
            i += 1
            continue
        m = re.match(r'assert\s*\(', s[i:])
        if m:
            p = match_close(s, i + m.end() - 1)
            j = s.index(';', p)
            i = j + 1
            continue
        m = re.match(r'(?:const\s+)?(?:size_ty|auto|bool|unsigned)\s+(\w+)\s*=', s[i:])
        if m:
            j = s.index(';', i)
            res.append(('let', m.group(1), s[i + m.end():j]))
            i = j + 1
            continue
        m = re.match(r'if\s*\(', s[i:])
        if m:
            p = match_close(s, i + m.end() - 1)
            cond = s[i + m.end():p]
            j = p + 1
            while s[j] in ' \t\n':
                j += 1
            if s[j] == '{':
                q = match_close(s, j, '{', '}')
                inner = statements(s[j:q + 1])
                i = q + 1
            else:
                q = s.index(';', j)
                inner = statements('{' + s[j:q + 1] + '}')
                i = q + 1
            if len(inner) == 1 and inner[0][0] == 'throw':
                res.append(('ifthrow', cond))
            else:
                res.append(('if', cond, inner))
            continue
        m = re.match(r'return\b', s[i:])
        if m:
            j = s.index(';', i)
            res.append(('return', s[i + m.end():j]))
            i = j + 1
            continue
        m = re.match(r'(throw_\w+)\s*\(\s*\)\s*;', s[i:])
        if m:
            res.append(('throw', m.group(1)))
            i += m.end()
            continue
        raise Untranslatable('statement: ' + norm(s[i:i + 60]))
    return res


def emit_stmts(st, atoms, ty, indent='  '):
    atoms = dict(atoms)
    if not st:
        raise Untranslatable('body falls off the end')
    head = st[0]
    if head[0] == 'let':
        e = Expr(tokenize(head[2]), atoms).parse()
        atoms[head[1]] = (head[1], e[1])
        return 'let %s := %s\n%s%s' % (head[1], e[0], indent, emit_stmts(st[1:], atoms, ty, indent))
    if head[0] == 'return':
        e = Expr(tokenize(head[1]), atoms).parse()
        if e[1] != ty:
            raise Untranslatable('return type')
        return e[0]
    if head[0] == 'if':
        c = Expr(tokenize(head[1]), atoms).parse()
        if c[1] != 'bool':
            raise Untranslatable('if condition type')
        a = emit_stmts(head[2], atoms, ty, indent + '  ')
        b = emit_stmts(st[1:], atoms, ty, indent)
        return 'if %s then %s\n%selse %s' % (c[0], a, indent, b)
    raise Untranslatable('statement kind ' + head[0])


BASELINE_DIR = os.path.join(os.path.dirname(os.path.abspath(__file__)), 'gen_baseline')


def load_guard_baseline():
    p = os.path.join(BASELINE_DIR, 'guards.json')
    if os.environ.get('VERIF_NO_BASELINE') or not os.path.exists(p):
        return {}
    return json.load(open(p))


def gen_guards(h, report):
    scope = h.class_scope('small_vector_base')
    out = [PRELUDE % 'the `if (...)` conditions of the decision points of small_vector_base',
           'import SvModel.Gen.Growth\nnamespace SvModel.Gen\n',
           '/-- what a guard may read (sizes as Nat; allocator ids; `pos`/`offset` as indices) -/',
           'structure GuardEnv where',
           '  size : Nat := 0\n  cap : Nat := 0\n  N : Nat := 0\n  maxSize : Nat := 0',
           '  oSize : Nat := 0\n  oCap : Nat := 0\n  oN : Nat := 0',
           '  count : Nat := 0\n  newSize : Nat := 0\n  request : Nat := 0\n  numInsert : Nat := 0\n  tailSize : Nat := 0',
           '  offset : Nat := 0\n  pos : Nat := 0\n  newCap : Nat := 0',
           '  alloc : Nat := 0\n  oAlloc : Nat := 0\n  argAlloc : Nat := 0',
           '  constEval : Bool := false\n  sameObject : Bool := false\n']
    names = []
    base = load_guard_baseline()
    current = {}          # key -> [(cond, lean | None, why)]
    seen_keys = set()
    scope_pub = h.class_scope('small_vector')
    for fn in GUARD_FUNCTIONS:
        fs = list(h.find_functions(fn, scope_pub if fn in PUBLIC_GUARD_FUNCTIONS else scope))
        if not fs:
            report['untranslatable'].append(dict(item='guards of ' + fn, why='definition not found',
                                                 names=[g['name'] for k, gs in base.items() if k == fn or re.match(re.escape(fn) + r'_\d+$', k) for g in gs]))
            continue
        for k, f in enumerate(fs):
            body = resolve_pp(f['body'])
            nx, nxe = noexcept_of(f['quals'])
            key = fn if len(fs) == 1 else '%s_%d' % (fn, k)
            seen_keys.add(key)
            report['functions'][key] = dict(line=f['line'], noexcept=nx, noexcept_expr=nxe,
                                            fingerprint=hashlib.sha256(norm(f['body']).encode()).hexdigest()[:16])
            try:
                conds = extract_conditions(body)
            except Untranslatable as ex:
                report['untranslatable'].append(dict(item='guards of ' + key, why=str(ex), names=[g['name'] for g in base.get(key, [])]))
                continue
            conds = [c for c, is_constexpr in conds if not is_constexpr and c != 'std::is_constant_evaluated ()']
            cur = []
            for cond in conds:
                try:
                    cur.append((cond, translate_guard(cond, public=fn in PUBLIC_GUARD_FUNCTIONS), None))
                except Untranslatable as ex:
                    cur.append((cond, None, str(ex)))
            current[key] = (f['line'], cur)
    # name the guards.  Without a baseline (or when a function has as many decision points as in the baseline) names are
    # positional.  When the number differs, the conditions are aligned with the baseline's by their text: a decision
    # point that is gone keeps its baseline definition (marked STALE, reported, so that only the theorems that mention it
    # lose their tie and everything else still builds), a new one is emitted under a fresh name and reported.
    record = {}
    for key in list(current) + [k for k in base if k not in current]:
        line, cur = current.get(key, (0, []))
        bl = base.get(key)
        slots = []     # (lean name, cond, lean, status, why)
        if key not in current:
            for g in bl:
                slots.append((g['name'], g['cond'], g['lean'], 'stale', 'the function (or this overload) is no longer found in the header'))
        elif bl is None or len(bl) == len(cur):
            for gi, (cond, lean, why) in enumerate(cur):
                nm = 'guard_%s_%d' % (camel(key), gi)
                if lean is None and bl is not None:
                    slots.append((nm, cond, bl[gi]['lean'], 'stale', 'condition outside the translator subset (%s); baseline definition substituted' % why))
                else:
                    slots.append((nm, cond, lean, 'ok' if lean is not None else 'untranslatable', why))
        else:
            import difflib
            sm = difflib.SequenceMatcher(a=[g['cond'] for g in bl], b=[c[0] for c in cur], autojunk=False)
            matched_b = {}
            for a0, b0, n in sm.get_matching_blocks():
                for d in range(n):
                    matched_b[b0 + d] = a0 + d
            used_a = set(matched_b.values())
            newi = 0
            for bi, (cond, lean, why) in enumerate(cur):
                if bi in matched_b:
                    g = bl[matched_b[bi]]
                    slots.append((g['name'], cond, lean if lean is not None else g['lean'], 'ok' if lean is not None else 'stale', why))
                else:
                    slots.append(('guard_%s_new%d' % (camel(key), newi), cond, lean, 'new' if lean is not None else 'untranslatable', why or 'decision point not present in the baseline model'))
                    newi += 1
            for ai, g in enumerate(bl):
                if ai not in used_a:
                    slots.append((g['name'], g['cond'], g['lean'], 'stale', 'this decision point is no longer in the function (the function now has %d conditions, the model was written for %d)' % (len(cur), len(bl))))
        record[key] = []
        for nm, cond, lean, status, why in slots:
            if status == 'untranslatable':
                out.append('-- UNTRANSLATABLE %s  `%s` : %s\n' % (nm, cond, why))
                report['untranslatable'].append(dict(item=nm, name=nm, cond=cond, why=why))
                continue
            tag = '' if status == 'ok' else ('  [STALE: baseline definition, not the current header]' if status == 'stale' else '  [NEW: not used by the model]')
            out.append('/-- hpp:%d  `%s`%s -/' % (line, cond, tag))
            out.append('def %s (e : GuardEnv) : Bool := %s\n' % (nm, lean))
            names.append(nm)
            if status == 'ok':
                record[key].append(dict(name=nm, cond=cond, lean=lean))
            else:
                report['untranslatable'].append(dict(item=nm, name=nm, cond=cond, why=why, status=status))
    report['guard_record'] = record
    out.append('end SvModel.Gen\n')
    report['guards'] = names
    return '\n'.join(out)


def camel(s):
    parts = s.split('_')
    return parts[0] + ''.join(p[:1].upper() + p[1:] for p in parts[1:])


TRAIT_ATOMS = [
    (r'std::is_same<std::allocator<value_ty>,\s*A>::value', 'p.isStdAlloc'),
    (r'(?:std::allocator_traits<A>|AT)::propagate_on_container_copy_assignment::value', 'p.pocca'),
    (r'(?:std::allocator_traits<A>|AT)::propagate_on_container_move_assignment::value', 'p.pocma'),
    (r'(?:std::allocator_traits<A>|AT)::propagate_on_container_swap::value', 'p.pocs'),
    (r'(?:std::allocator_traits<A>|AT)::is_always_equal::value', 'p.alwaysEq'),
    (r'allocations_are_movable<A>::value', '(allocationsAreMovable p)'),
    (r'allocations_are_swappable<A>::value', '(allocationsAreSwappable p)'),
]


def trait_expr(text, what):
    """a compile-time Boolean over allocator traits (||, &&, !, parentheses, `#ifdef GCH_LIB_IS_ALWAYS_EQUAL` clauses) as a Lean
    Bool over PolicyEnv `p`; anything else is refused"""
    t = norm(text)
    for pat, rep in TRAIT_ATOMS:
        t = re.sub(pat, rep, t)

    def guarded(m):
        op, clause = m.group(1), m.group(2).strip()
        if op == '||':
            return ' || (p.libAlwaysEq && %s)' % clause
        if clause.startswith('!'):
            return ' && !(p.libAlwaysEq && %s)' % clause[1:].strip()
        return ' && (!p.libAlwaysEq || %s)' % clause
    t = re.sub(r'#ifdef GCH_LIB_IS_ALWAYS_EQUAL\s*(\|\||&&)\s*(.*?)\s*#endif', guarded, t)
    t = re.sub(r'\s+', ' ', t).strip()
    t = re.sub(r'&&\s*!', '&& !', t)
    left = re.sub(r'p\.\w+|\(allocationsAre\w+ p\)|\|\||&&|!|\(|\)|\s', '', t)
    if left:
        raise Untranslatable('%s: outside the translator subset: %r in %s' % (what, left, t))
    return t


def gen_policy(h, report):
    scope = h.class_scope('small_vector_base')
    out = [PRELUDE % 'relocate_with_move, allocations_are_movable, allocations_are_swappable, copy_assign enable_if',
           'namespace SvModel.Gen\n',
           'structure PolicyEnv where',
           '  nothrowMove : Bool\n  copyInsertable : Bool\n  strongOptOut : Bool',
           '  isStdAlloc : Bool\n  pocca : Bool\n  pocma : Bool\n  pocs : Bool\n  alwaysEq : Bool',
           '  libAlwaysEq : Bool   -- GCH_LIB_IS_ALWAYS_EQUAL (C++17 and later)\n']
    code = h.code
    lo, hi = scope

    def struct_text(name):
        m = re.search(r'\bstruct\s+' + name + r'\b', code[lo:hi])
        if not m:
            raise Untranslatable('struct ' + name)
        a = lo + m.start()
        b = code.index('{', a)
        return code[a:b], h.line_of(a)

    # relocate_with_move
    t, ln = struct_text('relocate_with_move')
    t0 = norm(t)
    want = norm('''struct relocate_with_move
#ifdef GCH_NO_STRONG_EXCEPTION_GUARANTEES
        : std::true_type
#else
        : bool_constant<std::is_nothrow_move_constructible<V>::value
                    ||! is_explicitly_copy_insertable<V>::value>
#endif''')
    if t0 != want:
        raise Untranslatable('relocate_with_move changed: ' + t0)
    out.append('/-- relocate_with_move (hpp:%d) -/' % ln)
    out.append('def relocateWithMove (p : PolicyEnv) : Bool :=\n  if p.strongOptOut then true else (p.nothrowMove || !p.copyInsertable)\n')

    def alloc_pred(name, trait, lean_field):
        t, ln = struct_text(name)
        m = re.match(r'struct %s : bool_constant<(.*)>$' % name, norm(t))
        if not m:
            raise Untranslatable(name + ' changed: ' + norm(t))
        e = trait_expr(m.group(1), name)
        out.append('/-- %s (hpp:%d) -/' % (name, ln))
        out.append('def %s (p : PolicyEnv) : Bool :=\n  %s\n' % (camel(name), e))
        report.setdefault('policy', {})[name] = e

    alloc_pred('allocations_are_movable', 'propagate_on_container_move_assignment', 'pocma')
    alloc_pred('allocations_are_swappable', 'propagate_on_container_swap', 'pocs')
    # copy_assign overload selection: first overload is the propagating one
    fs = list(h.find_functions('copy_assign', scope))
    if len(fs) != 2:
        raise Untranslatable('copy_assign: %d overloads' % len(fs))
    pre = norm(code[code.rfind('template', 0, fs[0]['start']):fs[0]['start']])
    m = re.match(r'template <unsigned I, typename AT = alloc_traits, typename std::enable_if<(.*)>::type \* = nullptr> GCH_CPP20_CONSTEXPR small_vector_base&$', pre)
    if not m:
        raise Untranslatable('copy_assign enable_if changed: ' + pre)
    e = trait_expr(m.group(1), 'copy_assign enable_if')
    out.append('/-- enable_if of the propagating copy_assign overload (hpp:%d) -/' % fs[0]['line'])
    out.append('def copyAssignPropagating (p : PolicyEnv) : Bool :=\n  %s\n' % e)
    report.setdefault('policy', {})['copy_assign'] = e
    # allocator-extended move constructor: the overload that ignores the allocator argument and delegates to the plain one
    ctors = [f for f in h.find_functions('small_vector_base', scope)
             if re.match(r'bypass_tag\s*,\s*small_vector_base<Allocator,\s*I>\s*&&\s*\w*\s*,\s*const alloc_ty\s*&', norm(f['params']))]
    if len(ctors) != 2:
        raise Untranslatable('allocator-extended move constructor: %d overloads' % len(ctors))
    pres = [norm(code[code.rfind('template', 0, f['start']):f['start']]) for f in ctors]
    ms = [re.match(r'template <unsigned I, typename A = alloc_ty, typename std::enable_if<(.*)>::type \* = nullptr> GCH_CPP20_CONSTEXPR$', q) for q in pres]
    if not all(ms):
        raise Untranslatable('allocator-extended move constructor enable_if changed: ' + ' | '.join(pres))
    e1, e2 = trait_expr(ms[0].group(1), 'alloc-extended move ctor (delegating)'), trait_expr(ms[1].group(1), 'alloc-extended move ctor (general)')
    if not re.search(r'small_vector_base \(bypass, std::move \(other\)\)', norm(code[ctors[0]['start']:ctors[0]['end']])):
        raise Untranslatable('the first allocator-extended move constructor no longer delegates to the plain move constructor')
    out.append('/-- enable_if of the allocator-extended move constructor that delegates to the plain one (hpp:%d) … -/' % ctors[0]['line'])
    out.append('def ctorMoveAllocDelegates (p : PolicyEnv) : Bool :=\n  %s\n' % e1)
    out.append('/-- … and of the general one (hpp:%d) -/' % ctors[1]['line'])
    out.append('def ctorMoveAllocGeneral (p : PolicyEnv) : Bool :=\n  %s\n' % e2)
    report.setdefault('policy', {})['ctor_move_alloc'] = [e1, e2]
    # maybe_copy/move/swap bodies (allocator_interface)
    ai = h.class_scope('allocator_interface')
    for name, asg in (('maybe_copy', 'alloc_base::operator= (other);'), ('maybe_move', 'alloc_base::operator= (std::move (other));'),
                      ('maybe_swap', 'alloc_base::swap (other);')):
        fs = list(h.find_functions(name, ai))
        bodies = [norm(f['body']) for f in fs]
        if bodies != ['{ }', '{ ' + asg + ' }']:
            raise Untranslatable(name + ' bodies changed: ' + repr(bodies))
    out.append('/-- maybe_copy / maybe_move / maybe_swap (hpp: allocator_interface): assign/exchange iff the trait is true -/')
    out.append('def maybeCopy (p : PolicyEnv) (mine other : Nat) : Nat := if p.pocca then other else mine')
    out.append('def maybeMove (p : PolicyEnv) (mine other : Nat) : Nat := if p.pocma then other else mine')
    out.append('def maybeSwap (p : PolicyEnv) (mine other : Nat) : Nat × Nat := if p.pocs then (other, mine) else (mine, other)')
    out.append('\nend SvModel.Gen\n')
    return '\n'.join(out)


def gen_compare(h, report):
    """non-member comparison operators, erase, erase_if -> expressions over listEq / lexLt / filter"""
    code = h.code
    # operate on original offsets: comments are blanked in code, so search src for the marker
    start = h.src.index('} // namespace gch::detail')
    scope = (start, len(code))
    out = [PRELUDE % 'non-member operator==, !=, <, <=, >, >=, <=>, erase, erase_if',
           'namespace SvModel.Gen\n',
           '/-- std::equal over [begin, end) against rhs.begin (): element-wise over the common prefix of length |l| -/',
           'def stdEqual {α} [BEq α] : List α → List α → Bool',
           '  | [], _ => true',
           '  | _ :: _, [] => true   -- precondition violated (rhs shorter); guarded by the size test in operator==',
           '  | a :: l, b :: r => a == b && stdEqual l r',
           '/-- std::lexicographical_compare with operator< -/',
           'def stdLexLt {α} (lt : α → α → Bool) : List α → List α → Bool',
           '  | _, [] => false',
           '  | [], _ :: _ => true',
           '  | a :: l, b :: r => if lt a b then true else if lt b a then false else stdLexLt lt l r',
           'inductive Ord3 | less | equiv | greater deriving DecidableEq, Repr',
           '/-- std::lexicographical_compare_three_way with a comparison object -/',
           'def stdLex3 {α} (cmp : α → α → Ord3) : List α → List α → Ord3',
           '  | [], [] => .equiv',
           '  | [], _ :: _ => .less',
           '  | _ :: _, [] => .greater',
           '  | a :: l, b :: r => match cmp a b with | .equiv => stdLex3 cmp l r | o => o',
           '']
    ops = {'==': 'opEq', '!=': 'opNe', '<': 'opLt', '<=': 'opLe', '>': 'opGt', '>=': 'opGe'}
    # every legacy operator has two overloads: operands of different inline capacity (`opX`) and of the same inline capacity
    # (`opXSame`, the more specialised one, chosen when N = M).  Both are translated; inside an overload the operators it
    # calls resolve to the overload of the same kind.
    legacy = {}
    for sym, lname in ops.items():
        fs = [f for f in h.find_functions('operator' + sym, scope)]
        # tolerate `operator<` also matching `operator<=`/`operator<=>`: filter by exact symbol
        fs = [f for f in fs if re.match(r'operator' + re.escape(sym) + r'\s*\(', code[f['start']:f['start'] + 16])]
        if len(fs) != 2:
            raise Untranslatable('operator%s: %d definitions (expected mixed- and same-capacity)' % (sym, len(fs)))
        mixed = [f for f in fs if 'InlineCapacityLHS' in f['params']]
        same = [f for f in fs if 'InlineCapacityLHS' not in f['params']]
        if len(mixed) != 1 or len(same) != 1:
            raise Untranslatable('operator%s: cannot tell the mixed- from the same-capacity overload' % sym)
        legacy[sym] = dict(mixed=(norm(mixed[0]['body']), mixed[0]['line']), same=(norm(same[0]['body']), same[0]['line']))
    atoms = {'lhs': ('l', 'list'), 'rhs': ('r', 'list'), 'lhs.size': ('l.length', 'nat'), 'rhs.size': ('r.length', 'nat')}

    for kind, suffix in (('mixed', ''), ('same', 'Same')):
        for sym in ['==', '!=', '<', '>=', '>', '<=']:
            body, ln = legacy[sym][kind]
            m = re.fullmatch(r'\{ return (.*); \}', body)
            if not m:
                raise Untranslatable('operator%s body: %s' % (sym, body))
            ex = m.group(1)
            ex = ex.replace('std::equal (lhs.begin (), lhs.end (), rhs.begin ())', 'STD_EQUAL_LR')
            ex = ex.replace('std::lexicographical_compare (lhs.begin (), lhs.end (), rhs.begin (), rhs.end ())', 'STD_LEX_LR')
            a = dict(atoms)
            a['STD_EQUAL_LR'] = ('(stdEqual l r)', 'bool')
            a['STD_LEX_LR'] = ('(stdLexLt lt l r)', 'bool')
            calls = {'list==': 'opEq' + suffix, 'list!=': 'opNe' + suffix, 'list<': 'opLt%s lt' % suffix, 'list<=': 'opLe%s lt' % suffix,
                     'list>': 'opGt%s lt' % suffix, 'list>=': 'opGe%s lt' % suffix}
            e = Expr(tokenize(ex), a, calls).parse()
            if e[1] != 'bool':
                raise Untranslatable('operator%s: not Boolean' % sym)
            out.append('/-- operator%s, %s inline capacities (hpp:%d)  `%s` -/' % (sym, 'different' if kind == 'mixed' else 'equal', ln, m.group(1)))
            if sym in ('==', '!='):
                out.append('def %s%s {α} [BEq α] (l r : List α) : Bool := %s\n' % (ops[sym], suffix, e[0]))
            else:
                out.append('def %s%s {α} (lt : α → α → Bool) (l r : List α) : Bool := %s\n' % (ops[sym], suffix, e[0]))
    # <=>
    fs = [f for f in h.find_functions('operator<=>', scope)]
    if len(fs) != 4:
        raise Untranslatable('operator<=>: %d definitions' % len(fs))
    b3 = [norm(f['body']) for f in fs]
    want_a = norm('{ return std::lexicographical_compare_three_way ( lhs.begin (), lhs.end (), rhs.begin (), rhs.end (), std::compare_three_way { }); }')
    want_b = norm('''{ constexpr auto comparison = [](const T& l, const T& r) { return (l < r) ? std::weak_ordering::less : (r < l) ? std::weak_ordering::greater : std::weak_ordering::equivalent; };
      return std::lexicographical_compare_three_way ( lhs.begin (), lhs.end (), rhs.begin (), rhs.end (), comparison); }''')
    if not (b3[0] == want_a and b3[1] == want_a and b3[2] == want_b and b3[3] == want_b):
        raise Untranslatable('operator<=> bodies changed: ' + repr(b3))
    out.append('/-- operator<=> for three_way_comparable T (hpp:%d) -/' % fs[0]['line'])
    out.append('def opCmp3 {α} (cmp : α → α → Ord3) (l r : List α) : Ord3 := stdLex3 cmp l r\n')
    out.append('/-- operator<=> weak-order fallback (hpp:%d): comparison synthesised from operator< -/' % fs[2]['line'])
    out.append('def weakFromLt {α} (lt : α → α → Bool) (a b : α) : Ord3 := if lt a b then .less else if lt b a then .greater else .equiv')
    out.append('def opCmp3Fallback {α} (lt : α → α → Bool) (l r : List α) : Ord3 := stdLex3 (weakFromLt lt) l r\n')
    # erase / erase_if
    for name, rem, lean in (('erase', 'std::remove (v.begin (), v.end (), value)', 'l.filter (fun x => !(x == value))'),
                            ('erase_if', 'std::remove_if (v.begin (), v.end (), pred)', 'l.filter (fun x => !(pred x))')):
        fs = [f for f in h.find_functions(name, scope) if 'small_vector<T, InlineCapacity, Allocator>& v' in norm(f['params'])]
        if len(fs) != 1:
            raise Untranslatable('non-member %s: %d definitions' % (name, len(fs)))
        want = norm('{ const auto original_size = v.size (); v.erase (%s, v.end ()); return original_size - v.size (); }' % rem)
        if norm(fs[0]['body']) != want:
            raise Untranslatable('non-member %s body changed: %s' % (name, norm(fs[0]['body'])))
        if name == 'erase':
            out.append('/-- non-member erase (hpp:%d): std::remove + member erase of the tail; returns old size − new size -/' % fs[0]['line'])
            out.append('def nmErase {α} [BEq α] (l : List α) (value : α) : List α × Nat :=\n  let l\' := %s\n  (l\', l.length - l\'.length)\n' % lean)
        else:
            out.append('/-- non-member erase_if (hpp:%d) -/' % fs[0]['line'])
            out.append('def nmEraseIf {α} (l : List α) (pred : α → Bool) : List α × Nat :=\n  let l\' := %s\n  (l\', l.length - l\'.length)\n' % lean)
    out.append('end SvModel.Gen\n')
    return '\n'.join(out)


def gen_layout(h, report):
    a, b = h.struct_scope('default_buffer_size')
    txt = resolve_pp(h.code[a:b + 1], MODEL_MACROS)
    m = re.search(r'#\s*ifndef\s+GCH_SMALL_VECTOR_DEFAULT_SIZE\s*\n\s*#\s*define\s+GCH_SMALL_VECTOR_DEFAULT_SIZE\s+(\d+)', h.code)
    if not m:
        raise Untranslatable('GCH_SMALL_VECTOR_DEFAULT_SIZE default not found')
    total = int(m.group(1))

    def const(name):
        mm = re.search(r'\b' + name + r'\s*=\s*([^;]+);', txt)
        if not mm:
            raise Untranslatable('default_buffer_size::' + name)
        return norm(mm.group(1))

    atoms = {'ideal_total': ('idealTotal', 'nat'), 'GCH_SMALL_VECTOR_DEFAULT_SIZE': (str(total), 'nat'),
             'SIZEOF_EMPTY': ('sizeofEmpty', 'nat'), 'SIZEOF_VALUE': ('sizeofValue', 'nat'), 'ideal_buffer': ('idealBuffer', 'nat')}

    def tr(ex):
        ex = ex.replace('sizeof (empty_small_vector)', 'SIZEOF_EMPTY').replace('sizeof (value_type)', 'SIZEOF_VALUE')
        e = Expr(tokenize(ex), atoms).parse()
        if e[1] != 'nat':
            raise Untranslatable('layout constant type')
        return e[0]

    out = [PRELUDE % 'default_buffer_size (ideal_total, ideal_buffer, value)', 'namespace SvModel.Gen\n',
           '/-- GCH_SMALL_VECTOR_DEFAULT_SIZE / default_buffer_size::ideal_total -/',
           'def idealTotal : Nat := %s' % tr(const('ideal_total')),
           '/-- default_buffer_size::ideal_buffer (unsigned arithmetic; the static_assert `ideal_buffer < ideal_total` excludes wrap) -/',
           'def idealBuffer (sizeofEmpty : Nat) : Nat := %s' % tr(const('ideal_buffer')),
           '/-- default_buffer_size::value -/',
           'def defaultBufferSize (sizeofValue sizeofEmpty : Nat) : Nat :=\n  let idealBuffer := idealBuffer sizeofEmpty\n  %s' % tr(const('value')),
           '\nend SvModel.Gen\n']
    return '\n'.join(out)


def gen_noexcept_flags(h, report):
    """noexcept qualifiers of internal functions, as data"""
    scope_b = h.class_scope('small_vector_base')
    scope_a = h.class_scope('allocator_interface')
    want = ['external_range_length', 'external_range_length_impl', 'destroy', 'destroy_range', 'uninitialized_copy', 'default_uninitialized_copy',
            'uninitialized_value_construct', 'uninitialized_fill', 'allocate', 'deallocate', 'construct', 'get_max_size']
    rows = []
    for fn in want:
        for k, f in enumerate(h.find_functions(fn, scope_a)):
            nx, e = noexcept_of(f['quals'])
            rows.append((fn, k, f['line'], nx, e))
    for fn in ['uninitialized_move', 'shift_into_uninitialized', 'move_allocation_pointer', 'move_assign_default', 'move_assign_unequal_no_propagate',
               'move_assign', 'move_initialize', 'swap_elements', 'swap_default', 'swap_unequal_no_propagate', 'swap', 'wipe', 'reset_data',
               'request_capacity', 'shrink_to_size', 'resize_with', 'append_element', 'append_copies', 'append_range', 'emplace_at',
               'insert_copies', 'insert_range_helper', 'insert_range', 'erase_at', 'erase_last', 'erase_range', 'erase_to_end', 'erase_all',
               'copy_range', 'copy_n_return_in', 'move_left', 'move_right', 'set_default', 'set_to_inline_storage', 'assign_with_copies',
               'assign_with_range', 'copy_assign', 'copy_assign_default', 'checked_allocate', 'unchecked_allocate']:
        for k, f in enumerate(h.find_functions(fn, scope_b)):
            nx, e = noexcept_of(f['quals'])
            rows.append((fn, k, f['line'], nx, e))
    out = [PRELUDE % 'noexcept qualifiers of internal functions', 'namespace SvModel.Gen\n',
           'inductive Nx | none | always | conditional deriving DecidableEq, Repr\n',
           '/-- (function, overload index in source order, noexcept kind) -/',
           'def noexceptFlags : List (String × Nat × Nx) := [']
    out.append(',\n'.join('  ("%s", %d, .%s)' % (fn, k, nx) for fn, k, ln, nx, e in rows))
    out.append(']\n')
    out.append('def nxOf (fn : String) (k : Nat) : Option Nx := (noexceptFlags.find? (fun r => r.1 == fn && r.2.1 == k)).map (·.2.2)')
    out.append('\nend SvModel.Gen\n')
    report['noexcept_flags'] = [dict(fn=fn, k=k, line=ln, noexcept=nx, expr=e) for fn, k, ln, nx, e in rows]
    return '\n'.join(out)


def gen_calls(h, report):
    """which allocation primitive the constructors call, and whether the range-length check survives NDEBUG"""
    scope_b = h.class_scope('small_vector_base')
    scope_a = h.class_scope('allocator_interface')
    ctors = list(h.find_functions('small_vector_base', scope_b))
    rows = {}

    def classify(f):
        ps = norm(f['params'])
        if 'std::forward_iterator_tag' in ps:
            return 'ctorForwardRange'
        if 'std::input_iterator_tag' in ps:
            return 'ctorInputRange'
        if re.match(r'size_ty count\s*,\s*const alloc_ty&', ps):
            return 'ctorCount'
        if re.match(r'size_ty count\s*,\s*const value_ty&', ps):
            return 'ctorCountValue'
        if re.match(r'size_ty count\s*,\s*Generator', ps):
            return 'ctorGenerator'
        if re.match(r'bypass_tag\s*,\s*const small_vector_base<[^>]*>\s*&\s*\w*\s*,\s*const A\s*&', ps):
            return 'ctorCopy'
        return None

    for f in ctors:
        k = classify(f)
        if not k:
            continue
        body = resolve_pp(f['body'])
        calls = sorted(set(re.findall(r'\b(checked_allocate|unchecked_allocate)\s*\(', body)))
        if k in rows:
            raise Untranslatable('two constructors classified as ' + k)
        rows[k] = (f['line'], calls)
    need = ['ctorCount', 'ctorCountValue', 'ctorGenerator', 'ctorForwardRange', 'ctorCopy']
    for k in need:
        if k not in rows:
            raise Untranslatable('constructor %s not found' % k)
        if len(rows[k][1]) != 1:
            raise Untranslatable('constructor %s calls %s' % (k, rows[k][1]))
    out = [PRELUDE % 'allocation primitive per constructor; range-length check under NDEBUG', 'namespace SvModel.Gen\n']
    for k in need:
        out.append('/-- hpp:%d calls `%s` -/' % (rows[k][0], rows[k][1][0]))
        out.append('def %sChecked : Bool := %s\n' % (k, 'true' if rows[k][1][0] == 'checked_allocate' else 'false'))
    # external_range_length_impl: the `numeric_max<size_ty> () < len` test, with NDEBUG defined
    impls = list(h.find_functions('external_range_length_impl', scope_a))
    if len(impls) != 2:
        raise Untranslatable('external_range_length_impl: expected 2 overloads, found %d' % len(impls))
    flags = []
    for f in impls:
        body = norm(resolve_pp(f['body'], MODEL_MACROS | {'NDEBUG'}))
        # the non-constant-evaluated tail
        tail = body[body.rfind('const auto len'):]
        flags.append(bool(re.search(r'if \(numeric_max<size_ty> \(\) < len\) throw_range_length_error \(\)', tail)))
    thrower = list(h.find_functions('throw_range_length_error', scope_a))
    thr = False
    if thrower:
        a = thrower[0]['start'] - scope_a[0]
        region = resolve_pp(h.code[scope_a[0]:thrower[0]['end']], MODEL_MACROS | {'NDEBUG'})
        thr = 'std::length_error' in region[a:]
    out.append('/-- `external_range_length` throws length_error for a range longer than size_type can hold when NDEBUG is defined (random access, forward) -/')
    out.append('def rangeLengthCheckedNdebug : Bool := %s\n' % ('true' if all(flags) and thr else 'false'))
    # growing paths that rely on a CHECKED primitive (rather than on an explicit max_size guard) for the length_error of C12:
    # which capacity computation and which allocation primitive each one calls
    grow = {}
    for fn, pick, lean in (('assign_with_copies', 0, 'assignWithCopies'), ('assign_with_range', 'forward', 'assignWithRange'), ('request_capacity', 0, 'requestCapacity')):
        fs = list(h.find_functions(fn, scope_b))
        if pick == 'forward':
            fs = [f for f in fs if 'forward_iterator_tag' in norm(f['params'])]
        if not fs:
            raise Untranslatable('%s not found' % fn)
        body = resolve_pp(fs[0]['body'])
        calcs = re.findall(r'\b(checked|unchecked)_calculate_new_capacity\s*\(', body)
        allocs = re.findall(r'\b(checked|unchecked)_allocate\s*\(', body)
        if len(calcs) != 1 or len(allocs) != 1:
            raise Untranslatable('%s: expected one capacity computation and one allocation, found %s / %s' % (fn, calcs, allocs))
        grow[lean] = (fs[0]['line'], calcs[0], allocs[0])
        out.append('/-- %s (hpp:%d) computes the new capacity with `%s_calculate_new_capacity` … -/' % (fn, fs[0]['line'], calcs[0]))
        out.append('def %sCalcChecked : Bool := %s\n' % (lean, 'true' if calcs[0] == 'checked' else 'false'))
        out.append('/-- … and allocates with `%s_allocate` -/' % allocs[0])
        out.append('def %sAllocChecked : Bool := %s\n' % (lean, 'true' if allocs[0] == 'checked' else 'false'))
    report['grow_calls'] = {k: dict(line=v[0], calc=v[1], alloc=v[2]) for k, v in grow.items()}
    out.append('end SvModel.Gen\n')
    report['calls'] = dict(ctors={k: dict(line=v[0], calls=v[1]) for k, v in rows.items()}, range_length_checked_ndebug=flags, thrower_present_ndebug=thr)
    return '\n'.join(out)


GENERATORS = [('Growth', gen_growth), ('Guards', gen_guards), ('Policy', gen_policy), ('Compare', gen_compare),
              ('Layout', gen_layout), ('NoexceptFlags', gen_noexcept_flags), ('Calls', gen_calls)]


TOP = re.compile(r'^(?:@\[[^\]]*\]\s*)?(def|abbrev|theorem|structure|inductive|instance)\s+([^\s:({\[]+)')


def lean_blocks(text):
    """split a generated file into its top-level items: [(name | None, text)], doc comments attached to their item"""
    lines = text.split('\n')
    blocks, cur, name = [], [], None
    pending_doc = []
    in_doc = False
    for ln in lines:
        starts_item = bool(TOP.match(ln))
        starts_doc = ln.startswith('/--')
        boundary = starts_item or starts_doc or ln.startswith(('namespace ', 'end ', 'import ', '-- ', 'open '))
        if in_doc:
            pending_doc.append(ln)
            if '-/' in ln:
                in_doc = False
            continue
        if boundary:
            if starts_doc:
                if cur:
                    blocks.append((name, '\n'.join(cur)))
                    cur, name = [], None
                pending_doc = [ln]
                in_doc = '-/' not in ln
                continue
            if cur:
                blocks.append((name, '\n'.join(cur)))
                cur, name = [], None
            if starts_item:
                name = TOP.match(ln).group(2)
                cur = pending_doc + [ln]
                pending_doc = []
            else:
                if pending_doc:
                    blocks.append((None, '\n'.join(pending_doc)))
                    pending_doc = []
                blocks.append((None, ln))
            continue
        if cur:
            cur.append(ln)
        else:
            blocks.append((None, ln))
    if cur:
        blocks.append((name, '\n'.join(cur)))
    return blocks


def block_code(text):
    """the item without comments (doc comments carry line numbers of the header, which move with every edit)"""
    t = re.sub(r'/-.*?-/', '', text, flags=re.S)
    t = '\n'.join(l.split('--')[0].rstrip() for l in t.split('\n'))
    return re.sub(r'\s+', ' ', t).strip()


def changed_defs(current_text, baseline_text):
    cur = {n: block_code(t) for n, t in lean_blocks(current_text) if n}
    base = {n: block_code(t) for n, t in lean_blocks(baseline_text) if n}
    return sorted(n for n in set(cur) | set(base) if cur.get(n) != base.get(n))


def neutralise(current_text, baseline_text, names):
    """replace the items `names` of the current file by their baseline text (items missing now are appended before the
    closing `end`): the result differs from the baseline only in items NOT in `names`"""
    base = {n: t for n, t in lean_blocks(baseline_text) if n}
    out, seen = [], set()
    blocks = lean_blocks(current_text)
    for n, t in blocks:
        if n and n in names and n in base:
            out.append(base[n] + '\n')
            seen.add(n)
        elif n and n in names and n not in base:
            continue          # an item the baseline does not have
        else:
            out.append(t)
    missing = [n for n in names if n in base and n not in seen]
    if missing:
        # insert before the last `end` line
        idx = max(i for i, x in enumerate(out) if x.startswith('end '))
        out[idx:idx] = [base[n] + '\n' for n in missing]
    return '\n'.join(out)


SKELETON_TOKENS = (
    r'\b(uninitialized_move|uninitialized_copy|default_uninitialized_copy|uninitialized_fill|uninitialized_value_construct|uninitialized_default_construct|'
    r'destroy_range|destroy|construct|deallocate|unchecked_allocate|checked_allocate|allocate|'
    r'set_size|set_data_ptr|set_capacity|set_data|reset_data|wipe|swap_size|swap_allocation|set_default|set_to_inline_storage|increase_size|decrease_size|'
    r'std::move_backward|std::move|std::copy_n|std::copy|std::fill_n|std::fill|std::swap_ranges|std::swap|copy_range|copy_n_return_in|move_left|move_right|'
    r'shift_into_uninitialized|erase_range|erase_to_end|erase_at|erase_last|erase_all|'
    r'GCH_TRY|GCH_CATCH|GCH_THROW|throw_allocation_size_error|throw_index_error|throw_range_length_error|'
    r'unchecked_calculate_new_capacity|checked_calculate_new_capacity|external_range_length|'
    r'emplace_into_current_end|emplace_into_current|emplace_into_reallocation_end|emplace_into_reallocation|emplace_at|'
    r'append_element|append_copies|append_range|insert_range_helper|insert_range|insert_copies|assign_with_copies|assign_with_range|resize_with|'
    r'move_allocation_pointer|move_assign_default|move_assign_unequal_no_propagate|move_assign|move_initialize|'
    r'copy_assign_default|copy_assign|swap_default|swap_unequal_no_propagate|swap_elements|swap|'
    r'maybe_copy|maybe_move|maybe_swap|request_capacity|shrink_to_size|stack_temporary|heap_temporary|unchecked_next|unchecked_prev|unchecked_advance|'
    r'emplace_back|emplace|push_back|pop_back|append|assign|insert|erase|clear|resize|reserve|shrink_to_fit|move_iter_type|make_move_iterator|'
    r'return|if|else|for|while|do)\b')


def skeletons(h):
    """the ordered sequence of helper calls, control keywords and try/catch markers of every function body of the three
    classes: what the hand-written L2 bodies (Prim.lean / Ops.lean) were transliterated from.  Names of locals, comments,
    layout and the conditions themselves (translated separately as guards) do not enter."""
    out = {}
    for cls in ('allocator_interface', 'small_vector_base', 'small_vector'):
        try:
            scope = h.class_scope(cls)
        except Exception:
            continue
        names = sorted(set(m.group(1) for m in re.finditer(r'\b([a-z_][a-z_0-9]*)\s*\(', h.code[scope[0]:scope[1]])))
        seen = {}
        for fn in names:
            try:
                fs = list(h.find_functions(fn, scope))
            except Exception:
                continue
            for f in fs:
                if not f.get('body'):
                    continue
                k = seen.get(fn, 0)
                seen[fn] = k + 1
                body = resolve_pp(f['body'])
                toks = [m.group(1) for m in re.finditer(SKELETON_TOKENS, body)]
                out['%s::%s#%d' % (cls, fn, k)] = dict(line=f['line'], skeleton=' '.join(toks))
    return out


def main():
    only = [a for a in sys.argv[1:] if not a.startswith('--')]
    save_baseline = '--save-baseline' in sys.argv
    if save_baseline:
        os.environ['VERIF_NO_BASELINE'] = '1'
    h = Header()
    report = dict(header=HPP, header_sha256=hashlib.sha256(h.src.encode()).hexdigest(), functions={}, untranslatable=[], files={})
    for name, gen in GENERATORS:
        if only and name not in only:
            continue
        path = os.path.join(GEN, name + '.lean')
        try:
            text = gen(h, report)
            changed = write_if_changed(path, text)
            report['files'][name] = dict(ok=True, changed=changed)
        except Untranslatable as ex:
            # the whole file could not be produced from the current header.  Keep the library (and the driver) building:
            # fall back to the baseline text, marked STALE; the properties that read this file get a broken tie, the
            # differential run shows where the stale part of the model and the code now differ.
            base = os.path.join(BASELINE_DIR, name + '.lean')
            if os.path.exists(base) and not os.environ.get('VERIF_NO_BASELINE'):
                text = '-- STALE (baseline text; the current header could not be translated: %s)\n' % str(ex).replace('\n', ' ') + open(base).read()
            else:
                text = PRELUDE % 'FAILED' + 'namespace SvModel.Gen\n-- UNTRANSLATABLE: %s\nend SvModel.Gen\n' % str(ex).replace('\n', ' ')
            changed = write_if_changed(path, text)
            report['files'][name] = dict(ok=False, changed=changed, why=str(ex))
            report['untranslatable'].append(dict(item='file ' + name, why=str(ex)))
    if save_baseline:
        if report['untranslatable']:
            print('refusing to save a baseline from a header with untranslatable items')
            return 1
        os.makedirs(BASELINE_DIR, exist_ok=True)
        with open(os.path.join(BASELINE_DIR, 'guards.json'), 'w') as f:
            json.dump(report['guard_record'], f, indent=1, sort_keys=True)
        for name, _ in GENERATORS:
            src = os.path.join(GEN, name + '.lean')
            if os.path.exists(src):
                with open(os.path.join(BASELINE_DIR, name + '.lean'), 'w') as f:
                    f.write(open(src).read())
    # which generated definitions differ from the baseline (the clean tree the proofs were written against)
    changed = {}
    for name, _ in GENERATORS:
        cur, base = os.path.join(GEN, name + '.lean'), os.path.join(BASELINE_DIR, name + '.lean')
        if os.path.exists(cur) and os.path.exists(base):
            ch = changed_defs(open(cur).read(), open(base).read())
            if ch:
                changed[name] = ch
    report['changed_vs_baseline'] = changed
    # the call skeleton of every function body against the one the hand-written model bodies were written from
    sk = skeletons(h)
    skp = os.path.join(BASELINE_DIR, 'skeletons.json')
    if save_baseline:
        with open(skp, 'w') as f:
            json.dump(sk, f, indent=1, sort_keys=True)
    sk_changes = []
    if os.path.exists(skp):
        base = json.load(open(skp))
        for key in sorted(set(base) | set(sk)):
            b, c = base.get(key), sk.get(key)
            if b is None or c is None or b['skeleton'] != c['skeleton']:
                sk_changes.append(dict(function=key, line=(c or b)['line'], before=(b or {}).get('skeleton'), after=(c or {}).get('skeleton')))
    report['skeleton_changes'] = sk_changes
    report['skeleton_functions'] = len(sk)
    neut = os.environ.get('VERIF_NEUTRALISE')
    if neut:
        # neutralised build: the changed items are given their baseline definitions again, so that theorems which do not
        # depend on them can be re-checked by the kernel in an otherwise current environment
        for name, names in changed.items():
            cur, base = os.path.join(GEN, name + '.lean'), os.path.join(BASELINE_DIR, name + '.lean')
            text = neutralise(open(cur).read(), open(base).read(), names)
            write_if_changed(cur, text)
        report['neutralised'] = changed
    report.pop('guard_record', None)
    with open(os.path.join(GEN, 'translate_report.json'), 'w') as f:
        json.dump(report, f, indent=1)
    bad = [k for k, v in report['files'].items() if not v['ok']]
    print(json.dumps(dict(files=report['files'], untranslatable=len(report['untranslatable'])), indent=1))
    return 1 if bad else 0


if __name__ == '__main__':
    sys.exit(main())
