#!/usr/bin/env python3
"""Which lines / function bodies of small_vector.hpp does the differential correspondence (D-tie) actually execute?

Builds the line-protocol harness (several configurations) and the wrappers monitor with `--coverage`, feeds them the
generated cases of the quick tier (every k-th case, to keep it short), merges gcov's per-line counts over all runs and maps
them onto the function bodies the translator knows (tools/gen_baseline/skeletons.json: the 317 bodies of allocator_interface,
small_vector_base and small_vector).  A body is

  executed        at least one of its lines ran in some configuration,
  instantiated    the compiler emitted it for some configuration but no line ran,
  absent          no configuration even instantiates it (a template member nobody calls) — the D-tie says nothing about it.

Writes out/header_coverage.json (or the path given with --out) and prints a summary.  Scratch files live in a fresh
directory under /tmp that is removed at the end.  This is measurement of the TIE (what the correspondence exercises),
not verification of anything.
"""
import concurrent.futures as cf
import json
import os
import shutil
import subprocess
import sys
import tempfile

sys.path.insert(0, os.path.dirname(os.path.abspath(__file__)))
import vlib  # noqa: E402

HPP = os.path.join(vlib.REPO, 'source/include/gch/small_vector.hpp')

CONFIGS = [
    vlib.Config('Et', 2, 3, '00000'),
    vlib.Config('Tr', 2, 3, '00000'),
    vlib.Config('En', 0, 3, '11100'),
    vlib.Config('Et', 3, 1, '00010'),
    vlib.Config('Et', 1, 3, '11101'),
    vlib.Config('Et', 2, 3, '00000', st='std::uint8_t'),
    vlib.Config('Et', 2, 3, '00000', std='c++20'),
    vlib.Config('Enn', 3, 1, '00000', std='c++20'),    # the C16 program (comparison operators, non-member functions)
    vlib.Config('Enn', 0, 3, '00000', std='c++17'),
]


def cov_flags(cfg):
    f = [x for x in cfg.flags() if not x.startswith(('-fsanitize', '-fno-sanitize', '-O', '-g'))]
    return f + ['-O0', '--coverage']


def one(job):
    kind, cfg, d, every = job
    os.makedirs(d, exist_ok=True)
    src = 'harness.cpp' if kind == 'harness' else 'wrappers.cpp'
    exe = os.path.join(d, 'prog')
    flags = cov_flags(cfg) if kind == 'harness' else ['-std=' + cfg.std, '-O0', '--coverage', '-I' + os.path.join(vlib.REPO, 'source/include')]
    r = subprocess.run([cfg.cxx] + flags + [os.path.join(vlib.VERIF, 'harness', src), '-o', exe], cwd=d, capture_output=True, text=True)
    if r.returncode != 0:
        return dict(job=kind + ':' + cfg.key(), error=r.stderr[-2000:])
    nlines = 0
    if kind == 'harness':
        seed = 1
        lines = []
        if cfg.fl == 'Enn':
            import props_extra
            lines = props_extra.c16_lines('quick', seed)
        else:
            import gen_cases
            if cfg.st != 'std::size_t':     # the narrow-size_type cases of C12 / C14
                gens = [gen_cases.narrow_cases(cfg.N, cfg.M, cfg.max_size(), 'quick')]
            else:
                gens = [(c for i, c in enumerate(vlib.cases_for(cfg, 'quick', seed)) if i % every == 0),
                        gen_cases.iter_fault_cases(cfg.N, cfg.M, 'quick')]
            for g in gens:
                for c in g:
                    lines.append('reset')
                    lines += c['lines']
        nlines = len(lines)
        r = subprocess.run([exe], input='\n'.join(lines) + '\n', cwd=d, capture_output=True, text=True, timeout=3000)
    else:
        r = subprocess.run([exe], cwd=d, capture_output=True, text=True, timeout=3000)
    gcda = [x for x in os.listdir(d) if x.endswith('.gcda')]
    if not gcda:
        return dict(job=kind + ':' + cfg.key(), error='no .gcda written (rc=%d) %s' % (r.returncode, r.stderr[-500:]))
    g = subprocess.run(['gcov', '-j', '-t', '-o', d, os.path.join(d, gcda[0])], cwd=d, capture_output=True, text=True)
    try:
        data = json.loads(g.stdout)
    except Exception as e:
        return dict(job=kind + ':' + cfg.key(), error='gcov: %s' % e)
    lines_cnt, fns = {}, {}
    for f in data['files']:
        if not f['file'].endswith('gch/small_vector.hpp'):
            continue
        for l in f['lines']:
            lines_cnt[l['line_number']] = lines_cnt.get(l['line_number'], 0) + l['count']
        for fn in f['functions']:
            k = (fn['start_line'], fn['end_line'])
            fns[k] = fns.get(k, 0) + fn['execution_count']
    return dict(job=kind + ':' + cfg.key(), rc=r.returncode, protocol_lines=nlines, lines=lines_cnt, fns={'%d-%d' % k: v for k, v in fns.items()})


def consteval_job(d):
    """which of the `is_constant_evaluated ()` branches do the generated constexpr programs of C08 reach?  gcov cannot see a
    constant evaluation, so the same programs are RUN against a copy of the header in which `std::is_constant_evaluated ()`
    reads `true` (same line numbers): the branches they execute there are the ones the compilers' evaluators execute for them."""
    import random
    import c08
    os.makedirs(os.path.join(d, 'inc', 'gch'), exist_ok=True)
    src = open(HPP).read()
    forced = src.replace('std::is_constant_evaluated ()', 'true')
    open(os.path.join(d, 'inc', 'gch', 'small_vector.hpp'), 'w').write(forced)
    lines_cnt = {}
    nprog = 0
    for (N, M) in ((2, 3), (0, 4)):
        rng = random.Random(1000003 + 8)
        progs = [c08.gen_program(rng, N, M, 12) for _ in range(12)] + c08.directed_programs(N, M)
        nprog += len(progs)
        sub = os.path.join(d, 'p%d_%d' % (N, M))
        os.makedirs(sub, exist_ok=True)
        body = [c08.PRELUDE] + [c08.cpp_of(ops, N, M, i) for i, ops in enumerate(progs)] + ['int main () { unsigned long long s = 0;']
        body += ['  s += prog%d<int> () + prog%d<Lit> ();' % (i, i) for i in range(len(progs))]
        body += ['  std::printf ("%llu\\n", s); return 0; }']
        open(os.path.join(sub, 'ce.cpp'), 'w').write('\n'.join(body))
        r = subprocess.run(['g++', '-std=c++20', '-O0', '--coverage', '-I' + os.path.join(d, 'inc'), 'ce.cpp', '-o', 'prog'], cwd=sub, capture_output=True, text=True)
        if r.returncode != 0:
            return dict(job='consteval-forced', error=r.stderr[-1500:])
        r = subprocess.run([os.path.join(sub, 'prog')], cwd=sub, capture_output=True, text=True, timeout=600)
        gcda = [x for x in os.listdir(sub) if x.endswith('.gcda')]
        if not gcda:
            return dict(job='consteval-forced', error='no .gcda (rc=%d) %s' % (r.returncode, r.stderr[-300:]))
        g = subprocess.run(['gcov', '-j', '-t', '-o', sub, os.path.join(sub, gcda[0])], cwd=sub, capture_output=True, text=True)
        for f in json.loads(g.stdout)['files']:
            if f['file'].endswith('gch/small_vector.hpp'):
                for l in f['lines']:
                    lines_cnt[l['line_number']] = lines_cnt.get(l['line_number'], 0) + l['count']
    return dict(job='consteval-forced', programs=nprog, lines=lines_cnt)


def main():
    out = os.path.join(vlib.VERIF, 'out', 'header_coverage.json')
    every = 7
    a = sys.argv[1:]
    if '--out' in a:
        out = a[a.index('--out') + 1]
    if '--every' in a:
        every = int(a[a.index('--every') + 1])
    scratch = tempfile.mkdtemp(prefix='verif-cov-')
    try:
        jobs = [('harness', c, os.path.join(scratch, 'h%d' % i), every) for i, c in enumerate(CONFIGS)]
        jobs += [('wrappers', vlib.Config(std=s), os.path.join(scratch, 'w' + s.replace('+', 'p')), every) for s in ('c++17', 'c++20')]
        with cf.ProcessPoolExecutor(max_workers=min(len(jobs), vlib.NCPU)) as ex:
            fce = ex.submit(consteval_job, os.path.join(scratch, 'ce'))
            res = list(ex.map(one, jobs))
            ce = fce.result()
    finally:
        shutil.rmtree(scratch, ignore_errors=True)
    errors = [r for r in res if 'error' in r]
    merged, inst = {}, {}
    for r in res:
        if 'error' in r:
            continue
        for ln, c in r['lines'].items():
            merged[int(ln)] = merged.get(int(ln), 0) + c
        for k, c in r['fns'].items():
            inst[k] = inst.get(k, 0) + c
    sk = json.load(open(os.path.join(vlib.VERIF, 'tools', 'gen_baseline', 'skeletons.json')))
    src = open(HPP).read().split('\n')
    # extent of each known body: from its first line to the next known body's first line (bodies are listed by their start)
    starts = sorted((v['line'], k) for k, v in sk.items())
    bodies = {}
    for i, (ln, k) in enumerate(starts):
        end = starts[i + 1][0] - 1 if i + 1 < len(starts) else len(src)
        # only lines that gcov knows as code in SOME configuration count
        code = [x for x in range(ln, end + 1) if x in merged]
        ran = [x for x in code if merged[x] > 0]
        st = 'executed' if ran else ('instantiated' if code else 'absent')
        bodies[k] = dict(line=ln, status=st, code_lines=len(code), executed_lines=len(ran))
    tot = len(merged)
    ex = sum(1 for v in merged.values() if v > 0)
    unexec = sorted(k for k, v in merged.items() if v == 0)
    ce_lines = ce.get('lines', {}) if isinstance(ce, dict) else {}
    ce_reached = sorted(l for l in unexec if ce_lines.get(l, 0) > 0)
    summary = dict(
        consteval_only_lines=len(unexec), consteval_only_lines_reached_by_c08_programs=len(ce_reached),
        consteval_only_lines_not_reached=[l for l in unexec if l not in ce_reached], consteval_programs=ce.get('programs'), consteval_error=ce.get('error'),
        header=HPP, header_sha256=vlib.file_sha([HPP]) if hasattr(vlib, 'file_sha') else None,
        runs=[dict(job=r['job'], protocol_lines=r.get('protocol_lines'), rc=r.get('rc'), error=r.get('error')) for r in res],
        every_kth_case=every,
        instantiated_code_lines=tot, executed_code_lines=ex,
        unexecuted_lines=sorted(k for k, v in merged.items() if v == 0),
        bodies_total=len(bodies),
        bodies_executed=sum(1 for b in bodies.values() if b['status'] == 'executed'),
        bodies_instantiated_only=sorted(k for k, b in bodies.items() if b['status'] == 'instantiated'),
        bodies_absent=sorted(k for k, b in bodies.items() if b['status'] == 'absent'),
        bodies=bodies)
    os.makedirs(os.path.dirname(out), exist_ok=True)
    json.dump(summary, open(out, 'w'), indent=1)
    print('code lines instantiated by the D-tie programs: %d, executed: %d (%.1f%%)' % (tot, ex, 100.0 * ex / max(tot, 1)))
    print('function bodies (of %d the translator knows): executed %d, instantiated only %d, absent %d' % (
        len(bodies), summary['bodies_executed'], len(summary['bodies_instantiated_only']), len(summary['bodies_absent'])))
    print('lines no run-time tie program executes: %d; of these reached by the C08 programs (is_constant_evaluated forced true): %d%s' % (
        len(unexec), len(ce_reached), (' — ERROR ' + str(ce.get('error'))[:300]) if ce.get('error') else ''))
    for e in errors:
        print('ERROR', e['job'], e['error'][:300])
    return 1 if errors else 0


if __name__ == '__main__':
    sys.exit(main())
