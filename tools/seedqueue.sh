#!/bin/bash
# usage: seedqueue3.sh <worktree-name> <seed-name> <props>
cd /verif

# one at a time
exec 9>/tmp/seedqueue3.lock
flock 9
python3 tools/seedconfirm.py /tmp/seedwt/$1 $2 > /tmp/confirm_$2.log 2>&1
if grep -q '"confirmed": true' /tmp/confirm_$2.log; then
  python3 tools/seedtest.py $2 --props $3 > /tmp/seed_$2.log 2>&1
fi
