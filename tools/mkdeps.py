#!/usr/bin/env python3
"""tools/mkdeps.py — compute, with Lean itself, which generated definitions (namespace SvModel.Gen) each property's
theorems depend on (transitively, through every SvModel constant their proofs and statements mention), and which
hand-written model functions (SvModel.* outside Gen/Proofs) they are about.  Written to properties.deps.json.

Used by the checks to decide which properties a change of ONE generated definition (a guard that disappeared, a policy
that no longer translates) concerns: a property whose theorems do not mention it keeps its proof.  Re-run on the clean
tree whenever theorems are added (the check refuses a deps file that does not list one of the property's theorems)."""
import json, os, re, subprocess, sys

HERE = os.path.dirname(os.path.abspath(__file__))
VERIF = os.path.dirname(HERE)
LEAN = os.path.join(VERIF, 'lean')

TEMPLATE = r'''
open Lean in
partial def svCollect (env : Environment) (root : Name) : NameSet := Id.run do
  let mut seen : NameSet := {}
  let mut stack : List Name := [root]
  while true do
    match stack with
    | [] => break
    | n :: rest =>
      stack := rest
      if seen.contains n then continue
      seen := seen.insert n
      match env.find? n with
      | none => pure ()
      | some ci =>
        let used := ci.type.getUsedConstants ++ (match ci.value? (allowOpaque := true) with | some v => v.getUsedConstants | none => #[])
        for u in used do
          if (`SvModel).isPrefixOf u && !seen.contains u then stack := u :: stack
  return seen

open Lean Elab Command in
elab "#svdeps " ids:ident* : command => do
  let env ← getEnv
  for i in ids do
    let n := i.getId
    if (env.find? n).isNone then
      logInfo m!"SVDEPS {n} MISSING"
    else
      let s := svCollect env n
      let gen := s.toList.filter fun x => (`SvModel.Gen).isPrefixOf x
      let gen := gen.filter fun x => !(x.toString.splitOn "match_").length > 1 && !(x.toString.splitOn "._").length > 1
      logInfo m!"SVDEPS {n} := {gen}"
      -- the hand-written model functions (Prim / Ops / Api: SvModel.<name> with a lower-case first letter) the theorem is about
      let ops := s.toList.filter fun x =>
        match x with
        | .str (.str .anonymous "SvModel") nm => nm.front.isLower
        | _ => false
      logInfo m!"SVOPS {n} := {ops}"
'''


def main():
    M = json.load(open(os.path.join(VERIF, 'properties.map.json')))
    mods = sorted(set(m for p in M.values() for m in p['modules']))
    thms = sorted(set(t for p in M.values() for t in p['theorems']))
    path = os.path.join(VERIF, '.cache', 'Deps.lean')
    os.makedirs(os.path.dirname(path), exist_ok=True)
    with open(path, 'w') as f:
        f.write('import Lean\n' + ''.join('import %s\n' % m for m in mods) + TEMPLATE)
        for i in range(0, len(thms), 20):
            f.write('#svdeps ' + ' '.join(thms[i:i + 20]) + '\n')
    p = subprocess.run(['lake', 'env', 'lean', path], cwd=LEAN, stdout=subprocess.PIPE, stderr=subprocess.STDOUT, text=True)
    out = re.sub(r'\n\s+', ' ', p.stdout)
    deps = {}
    for m in re.finditer(r'SVDEPS (\S+) := \[([^\]]*)\]', out):
        deps[m.group(1)] = sorted(x.strip().replace('SvModel.Gen.', '') for x in m.group(2).split(',') if x.strip())
    ops = {}
    for m in re.finditer(r'SVOPS (\S+) := \[([^\]]*)\]', out):
        ops[m.group(1)] = sorted(x.strip().replace('SvModel.', '') for x in m.group(2).split(',') if x.strip())
    missing = re.findall(r'SVDEPS (\S+) MISSING', out)
    if missing or p.returncode != 0 or len(deps) != len(thms):
        print(p.stdout[-3000:])
        print('missing:', missing, 'got', len(deps), 'of', len(thms))
        return 1
    res = {}
    for pid, P in M.items():
        per = {t: deps[t] for t in P['theorems']}
        res[pid] = dict(gen=sorted(set(g for t in P['theorems'] for g in deps[t])), per_theorem=per,
                        ops=sorted(set(o for t in P['theorems'] for o in ops.get(t, []))),
                        ops_per_theorem={t: ops.get(t, []) for t in P['theorems']})
    json.dump(res, open(os.path.join(VERIF, 'properties.deps.json'), 'w'), indent=1, sort_keys=True)
    for pid in sorted(res):
        print(pid, len(res[pid]['gen']), 'generated definitions')
    return 0


if __name__ == '__main__':
    sys.exit(main())
