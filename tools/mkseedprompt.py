#!/usr/bin/env python3
"""tools/mkseedprompt.py <property-id> <tag>  — create a scratch git worktree of /repo under /tmp/seedwt/<id>-<tag> and print the
prompt given to an independent sub-agent (only the property text and the worktree; nothing from /verif)."""
import json, os, subprocess, sys

HERE = os.path.dirname(os.path.abspath(__file__))
VERIF = os.path.dirname(HERE)


def main():
    pid, tag = sys.argv[1], sys.argv[2]
    extra = sys.argv[3] if len(sys.argv) > 3 else ''
    props = {json.loads(l)['id']: json.loads(l) for l in open(os.path.join(VERIF, 'properties.jsonl'))}
    p = props[pid]
    wt = '/tmp/seedwt/%s-%s' % (pid, tag)
    if not os.path.exists(wt):
        os.makedirs('/tmp/seedwt', exist_ok=True)
        subprocess.run(['git', '-C', '/repo', 'worktree', 'add', '--detach', wt, 'HEAD'], check=True, stdout=subprocess.DEVNULL, stderr=subprocess.DEVNULL)
    anchors = '\n'.join('  - %s (%s)' % (m['name'], m['where']) for m in p['anchors'].get('mechanism', []))
    print(f"""You are helping to evaluate a verification framework for the C++ library gharveymn/small_vector (a single-header
small_vector container: source/include/gch/small_vector.hpp). Your job is to play the role of a developer who
introduces a realistic, subtle regression.

Work ONLY inside this scratch git worktree of the library: {wt}
Do not read, list or modify /verif or /repo (the worktree has everything you need), and do not use the network.

The property that your change must break:

  [{pid}] {p['title']}
  Statement: {p['statement']}
  Quantified: {p['quantifier']['text']}
  Why the existing tests cannot see violations: {p['why_tests_cant']}
  Code locations related to it:
{anchors}

Task. Make ONE small change to the library sources in the worktree (normally source/include/gch/small_vector.hpp; for a
property about shipped support files, those files) such that:
  1. the library still compiles and the repository's own test suite still passes completely (575 tests). Build and run it in
     the worktree with:
        cmake -G Ninja -S {wt} -B {wt}/_build -DCMAKE_BUILD_TYPE=RelWithDebInfo -DGCH_SMALL_VECTOR_ENABLE_TESTS=ON -DGCH_SMALL_VECTOR_ENABLE_BENCHMARKS=OFF
        cmake --build {wt}/_build -j8
        ctest --test-dir {wt}/_build -j8 --timeout 900
     (the build takes several minutes; run the suite on your final change and quote its last summary lines);
  2. the property above is violated by the changed code;
  3. the violation needs something SPECIFIC to manifest — a particular multi-step sequence of operations, a fault/exception at a
     particular point, an unusual input or configuration (element type traits, allocator traits, inline capacities, a
     particular size/capacity relation, a particular language standard or compiler), or two cooperating sites that each look
     fine alone. Ordinary everyday use (e.g. a few push_backs on small_vector<int>) must NOT expose it at once. Prefer a change
     that looks like a plausible refactoring slip, optimisation or "simplification" rather than an obviously hostile edit.
     {extra}
  4. write a demonstration program {wt}/out/demo.cpp (self-contained, includes <gch/small_vector.hpp>, C++17 unless the property
     needs another standard) that exits 0 and prints "property holds" with the ORIGINAL header, and exits non-zero printing
     what is violated with your CHANGED header. Verify both (use `git stash` or a pristine copy of the header for the original).

Deliver, inside {wt}/out/ :
  - patch.diff   : output of `git -C {wt} diff` (only the library change; not the demo, not build output)
  - demo.cpp     : the demonstration
  - meta.json    : {{"property": "{pid}", "summary": "<what was changed>", "trigger": "<exactly what is needed for the violation to manifest>",
                    "demo_build": "<the g++/clang++ command line you used>", "demo_expected_original": "...", "demo_expected_patched": "...",
                    "tests": "<last lines of the ctest summary with the change applied>"}}
Leave the change applied in the worktree. Do not commit anything. Keep build output inside {wt}/_build only.
In your final message report: the change, the trigger, the demo result with and without the change, and the ctest summary.""")


if __name__ == '__main__':
    main()
