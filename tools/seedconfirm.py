#!/usr/bin/env python3
"""tools/seedconfirm.py <worktree> <seed-name>  — confirm a sub-agent's seeded change independently and store it.

Checks, in the agent's scratch worktree (never in /repo):
  * out/patch.diff equals `git diff` of the library sources in the worktree and applies to a pristine checkout;
  * the demonstration exits 0 against the pristine header and non-zero against the changed one;
  * the repository's own suite, rebuilt in the worktree with the change, passes completely (ctest; 575 tests).
Then copies patch.diff, demo.cpp, meta.json (with a `confirmed` section: what was run) to /verif/seeded/<seed-name>/."""
import json, os, re, shutil, subprocess, sys, time

VERIF = os.path.dirname(os.path.dirname(os.path.abspath(__file__)))


def sh(cmd, cwd=None, timeout=7200):
    p = subprocess.run(cmd, shell=True, cwd=cwd, stdout=subprocess.PIPE, stderr=subprocess.STDOUT, text=True, timeout=timeout)
    return p.returncode, p.stdout


def main():
    wt, name = sys.argv[1], sys.argv[2]
    skip_tests = '--skip-tests' in sys.argv
    out = os.path.join(wt, 'out')
    meta = json.load(open(os.path.join(out, 'meta.json')))
    conf = dict(when=time.strftime('%Y-%m-%dT%H:%M:%SZ', time.gmtime()))
    rc, diff = sh('git -C %s diff -- source' % wt)
    patch = open(os.path.join(out, 'patch.diff')).read()
    conf['patch_matches_worktree'] = (diff.strip() == patch.strip())
    if not conf['patch_matches_worktree']:
        # store what the worktree really contains
        patch = diff
    pristine = '/tmp/seedwt/_pristine_' + name
    shutil.rmtree(pristine, ignore_errors=True)
    os.makedirs(pristine)
    sh('git -C %s archive HEAD source | tar -x -C %s' % (wt, pristine))
    rc, o = sh('git apply --check --directory=%s %s' % (pristine, os.path.join(out, 'patch.diff')), cwd=pristine)
    cmd = meta.get('demo_build', '')
    std = re.search(r'-std=\S+', cmd)
    cxx = 'clang++' if 'clang++' in cmd.split()[0:1] else 'g++'
    toks = []
    for t in cmd.split():
        t = t.rstrip(').,;')
        if (t.startswith(('-D', '-O', '-f', '-W', '-g')) and 'sanitize' not in t or t.startswith('-fsanitize')) and re.fullmatch(r'-[A-Za-z][\w=,+-]*', t) and t not in toks:
            toks.append(t)
    # only the first optimisation level counts (later ones come from prose in the agent's description)
    opt = [t for t in toks if re.fullmatch(r'-O\w?', t)]
    toks = [t for t in toks if t not in opt[1:]]
    flags = ' '.join([std.group(0).rstrip(').,;') if std else '-std=c++17'] + toks)
    res = {}
    for tag, inc in (('original', os.path.join(pristine, 'source/include')), ('patched', os.path.join(wt, 'source/include'))):
        exe = '/tmp/seedwt/_demo_%s_%s' % (name, tag)
        rc, o = sh('%s %s -I %s %s -o %s' % (cxx, flags, inc, os.path.join(out, 'demo.cpp'), exe), timeout=900)
        if rc != 0:
            res[tag] = dict(build_rc=rc, out=o[-1500:])
            continue
        rc, o = sh(exe, timeout=900)
        res[tag] = dict(rc=rc, out=o[-600:])
        os.remove(exe)
    conf['demo'] = res
    conf['demo_cmd'] = '%s %s -I <include> demo.cpp' % (cxx, flags)
    ok_demo = res.get('original', {}).get('rc') == 0 and res.get('patched', {}).get('rc', 0) not in (0, None)
    if not skip_tests:
        b = os.path.join(wt, '_build')
        if not os.path.exists(os.path.join(b, 'build.ninja')):
            sh('cmake -G Ninja -S %s -B %s -DCMAKE_BUILD_TYPE=RelWithDebInfo -DGCH_SMALL_VECTOR_ENABLE_TESTS=ON -DGCH_SMALL_VECTOR_ENABLE_BENCHMARKS=OFF' % (wt, b))
        rc, o = sh('cmake --build %s -j12' % b, timeout=7200)
        conf['build_rc'] = rc
        rc, o = sh('ctest --test-dir %s -j12 --timeout 900' % b, timeout=7200)
        tail = [l for l in o.split('\n') if 'tests passed' in l or 'tests failed' in l]
        conf['ctest_rc'] = rc
        conf['ctest_summary'] = tail[-1] if tail else o[-300:]
    ok_tests = skip_tests or (conf.get('ctest_rc') == 0 and '100% tests passed' in conf.get('ctest_summary', '') and 'out of 575' in conf.get('ctest_summary', ''))
    conf['confirmed'] = bool(ok_demo and ok_tests)
    shutil.rmtree(pristine, ignore_errors=True)
    print(json.dumps(conf, indent=1))
    if conf['confirmed']:
        d = os.path.join(VERIF, 'seeded', name)
        os.makedirs(d, exist_ok=True)
        open(os.path.join(d, 'patch.diff'), 'w').write(patch if patch.endswith('\n') else patch + '\n')
        shutil.copy(os.path.join(out, 'demo.cpp'), os.path.join(d, 'demo.cpp'))
        meta['confirmed'] = conf
        json.dump(meta, open(os.path.join(d, 'meta.json'), 'w'), indent=1)
        print('stored in', d)
        return 0
    print('NOT confirmed')
    return 1


if __name__ == '__main__':
    sys.exit(main())
