#!/usr/bin/env python3
"""Shared machinery of the checks: translator + lake build + axiom audit (T-tie and proofs), harness build and the
differential run against the Lean driver (D-tie), monitor collection (W), evidence, replay files, known findings."""
import concurrent.futures as cf
import fcntl, glob, hashlib, json, os, re, shutil, subprocess, sys, time, zlib

HERE = os.path.dirname(os.path.abspath(__file__))
VERIF = os.path.dirname(HERE)
REPO = os.environ.get('VERIF_REPO', '/repo')
HPP = os.path.join(REPO, 'source/include/gch/small_vector.hpp')
LEAN = os.path.join(VERIF, 'lean')
CACHE = os.path.join(VERIF, '.cache')
OUT = os.path.join(VERIF, 'out')
DRIVER = os.path.join(LEAN, '.lake', 'build', 'bin', 'svdriver')
NCPU = os.cpu_count() or 4
ALLOWED_AXIOMS = {'propext', 'Classical.choice', 'Quot.sound'}
FORBIDDEN = re.compile(r'\b(sorry|admit|native_decide|bv_decide|implemented_by|unsafe)\b|^\s*axiom\s|maxHeartbeats\s+0')

sys.path.insert(0, HERE)
import gen_cases  # noqa: E402


def sha(*parts):
    h = hashlib.sha256()
    for p in parts:
        h.update(p if isinstance(p, bytes) else str(p).encode())
        h.update(b'\0')
    return h.hexdigest()


def file_sha(paths):
    h = hashlib.sha256()
    for p in sorted(paths):
        h.update(p.encode())
        try:
            h.update(open(p, 'rb').read())
        except OSError:
            h.update(b'<missing>')
    return h.hexdigest()


def repo_fingerprint():
    files = [HPP] + glob.glob(os.path.join(REPO, 'source/support/**/*'), recursive=True)
    return file_sha([f for f in files if os.path.isfile(f)])


def verif_fingerprint():
    files = glob.glob(os.path.join(VERIF, 'tools', '*.py')) + glob.glob(os.path.join(VERIF, 'harness', '*')) + \
        glob.glob(os.path.join(LEAN, 'SvModel', '**', '*.lean'), recursive=True) + [os.path.join(LEAN, 'Main.lean'), os.path.join(VERIF, 'check')]
    files = [f for f in files if '/Gen/' not in f]
    return file_sha(files)


class Lock:
    def __init__(self, name):
        os.makedirs(CACHE, exist_ok=True)
        self.path = os.path.join(CACHE, name + '.lock')

    def __enter__(self):
        self.f = open(self.path, 'w')
        fcntl.flock(self.f, fcntl.LOCK_EX)
        return self

    def __exit__(self, *a):
        fcntl.flock(self.f, fcntl.LOCK_UN)
        self.f.close()


def run(cmd, cwd=None, timeout=None, inp=None, env=None):
    try:
        p = subprocess.run(cmd, cwd=cwd, input=inp, stdout=subprocess.PIPE, stderr=subprocess.STDOUT, timeout=timeout, env=env,
                           text=True, errors='replace')
    except subprocess.TimeoutExpired as ex:
        # a tool that hangs is reported like one that fails (the callers treat rc != 0 as a crash of that tool), never as a
        # Python traceback of the check itself
        out = ex.stdout if isinstance(ex.stdout, str) else (ex.stdout or b'').decode('utf-8', 'replace')
        return 124, (out or '') + '\n[timeout after %ss: %s]' % (timeout, ' '.join(str(c) for c in cmd[:3]))
    return p.returncode, p.stdout


# --------------------------------------------------------------------------------------------------
# Lean side
# --------------------------------------------------------------------------------------------------
def translate(lean_dir=None, neutralise=False):
    """regenerate Gen/*.lean from the header; returns the translator's report"""
    lean_dir = lean_dir or LEAN
    env = dict(os.environ, VERIF_GEN_DIR=os.path.join(lean_dir, 'SvModel', 'Gen'))
    if neutralise:
        env['VERIF_NEUTRALISE'] = '1'
    rc, out = run([sys.executable, os.path.join(HERE, 'translate.py')], env=env)
    rep_path = os.path.join(lean_dir, 'SvModel', 'Gen', 'translate_report.json')
    rep = json.load(open(rep_path)) if os.path.exists(rep_path) else {}
    rep['rc'] = rc
    rep['stdout'] = out[-2000:]
    return rep


def lake_build(targets, timeout=3000, lean_dir=None):
    rc, out = run(['lake', 'build'] + list(targets), cwd=lean_dir or LEAN, timeout=timeout)
    return rc, out


def module_errors(out):
    """map module -> error text from lake output"""
    errs = {}
    cur = None
    for line in out.split('\n'):
        m = re.match(r'✖ \[\d+/\d+\] (?:Building|Built) (\S+)', line)
        if m:
            cur = m.group(1)
            errs.setdefault(cur, [])
            continue
        if re.match(r'[✔⚠ℹ] \[\d+/\d+\]', line):
            cur = None
            continue
        if cur and line.startswith('error:'):
            errs[cur].append(line)
        elif cur and errs[cur] and len(errs[cur]) < 30:
            errs[cur].append(line)
    return errs


def audit(theorems, modules, lean_dir=None):
    """#print axioms for every named theorem; returns {name: [axioms] | 'missing'}"""
    if not theorems:
        return {}
    os.makedirs(os.path.join(CACHE, 'audit'), exist_ok=True)
    path = os.path.join(CACHE, 'audit', 'Audit_%s%s.lean' % (sha(*theorems)[:12], '_n' if lean_dir else ''))
    with open(path, 'w') as f:
        for m in modules:
            f.write('import %s\n' % m)
        for t in theorems:
            f.write('#print axioms %s\n' % t)
    rc, out = run(['lake', 'env', 'lean', path], cwd=lean_dir or LEAN, timeout=900)
    res = {}
    for t in theorems:
        res[t] = 'missing'
    flat = re.sub(r'\n\s+', ' ', out)
    for m in re.finditer(r"'([^']+)' depends on axioms: \[([^\]]*)\]", flat):
        res[m.group(1)] = [a.strip() for a in m.group(2).split(',') if a.strip()]
    for m in re.finditer(r"'([^']+)' does not depend on any axioms", flat):
        res[m.group(1)] = []
    return res


def grep_forbidden():
    hits = []
    for p in glob.glob(os.path.join(LEAN, '**', '*.lean'), recursive=True):
        if '/.lake/' in p:
            continue
        src = open(p).read()
        # strip comments
        src2 = re.sub(r'/-.*?-/', lambda m: re.sub(r'[^\n]', ' ', m.group(0)), src, flags=re.S)
        for i, line in enumerate(src2.split('\n')):
            line = line.split('--')[0]
            if FORBIDDEN.search(line):
                hits.append('%s:%d: %s' % (os.path.relpath(p, VERIF), i + 1, line.strip()[:120]))
    return hits


def import_closure(modules):
    """the SvModel modules a set of modules imports, transitively (from the `import` lines of the sources)"""
    seen, todo = set(), list(modules)
    while todo:
        m = todo.pop()
        if m in seen:
            continue
        seen.add(m)
        p = os.path.join(LEAN, *m.split('.')) + '.lean'
        if not os.path.exists(p):
            continue
        for line in open(p):
            mm = re.match(r'import\s+(SvModel\S*|Main)', line)
            if mm:
                todo.append(mm.group(1))
    return seen


def theorem_gen_deps():
    """theorem -> generated definitions its proof depends on (tools/mkdeps.py, computed by Lean on the clean tree)"""
    p = os.path.join(VERIF, 'properties.deps.json')
    out = {}
    if os.path.exists(p):
        for pid, d in json.load(open(p)).items():
            out.update(d.get('per_theorem', {}))
    return out


NEUTRAL = os.path.join(CACHE, 'lean_neutral')


def neutral_stage(modules, theorems):
    """re-check `theorems` with every generated definition that differs from the baseline put back to its baseline text.
    Sound for theorems that do not depend on those definitions: the kernel checks them in an environment that differs
    from the current one only in constants they never mention."""
    os.makedirs(NEUTRAL, exist_ok=True)
    run(['rsync', '-a', '--delete', LEAN + '/', NEUTRAL + '/'])
    rep = translate(lean_dir=NEUTRAL, neutralise=True)
    # modules whose sources import only what is needed; the driver is not built here
    rc, out = lake_build(modules, lean_dir=NEUTRAL)
    ax = audit(theorems, modules, lean_dir=NEUTRAL)
    return ax, rep, rc


def lean_stage(modules, theorems, need_driver=True):
    """translate + build + audit, serialised across concurrent checks. Returns a dict describing what holds."""
    t0 = time.time()
    carried = {}
    with Lock('lean'):
        rep = translate()
        targets = list(modules) + (['svdriver'] if need_driver else [])
        rc, out = lake_build(targets)
        errs = module_errors(out) if rc != 0 else {}
        ax = audit(theorems, modules) if theorems else {}
        changed = set(n for names in rep.get('changed_vs_baseline', {}).values() for n in names)
        missing = [t for t, a in ax.items() if a == 'missing']
        if missing and changed:
            deps = theorem_gen_deps()
            unaffected = [t for t in missing if t in deps and not (set(deps[t]) & changed)]
            if unaffected:
                nax, nrep, nrc = neutral_stage(modules, unaffected)
                for t in unaffected:
                    a = nax.get(t, 'missing')
                    if a != 'missing':
                        ax[t] = a
                        carried[t] = 'checked with the changed generated definitions (%s) put back to their baseline text: its proof depends on none of them' % ', '.join(sorted(changed))
    forbidden = grep_forbidden()
    broken = []
    for t, a in ax.items():
        if a == 'missing':
            broken.append(dict(theorem=t, why='does not check (missing from the environment; see build errors)'))
        else:
            extra = [x for x in a if x not in ALLOWED_AXIOMS]
            if extra:
                broken.append(dict(theorem=t, why='depends on non-permitted axioms: ' + ', '.join(extra)))
    return dict(translate=rep, build_rc=rc, build_errors=errs, build_tail=out[-3000:] if rc != 0 else '', axioms=ax, forbidden=forbidden,
                broken=broken, untranslatable=rep.get('untranslatable', []), wall_s=time.time() - t0, carried=carried,
                changed_generated=sorted(changed),
                driver_ok=os.path.exists(DRIVER) and not any(m in errs for m in ('SvModel.Api', 'SvModel.Ops', 'SvModel.Prim', 'SvModel.Basic', 'Main')))


# --------------------------------------------------------------------------------------------------
# harness
# --------------------------------------------------------------------------------------------------
FLAVOURS = {'En': 0, 'Et': 1, 'Enn': 2, 'Ec': 3, 'Tr': 4}


class Config:
    def __init__(self, fl='Et', N=2, M=3, abits='00000', std='c++17', cxx='g++', ndebug=True, st='std::size_t', extra=()):
        self.fl, self.N, self.M, self.abits, self.std, self.cxx, self.ndebug, self.st, self.extra = fl, N, M, abits, std, cxx, ndebug, st, tuple(extra)

    def key(self):
        return '%s_N%d_M%d_A%s_%s_%s_%s_%s%s' % (self.fl, self.N, self.M, self.abits, self.std.replace('+', 'p'), self.cxx.replace('+', 'p'),
                                                 'nd' if self.ndebug else 'dbg', re.sub(r'\W', '', self.st), ''.join('_' + re.sub(r'\W', '', e) for e in self.extra))

    @staticmethod
    def from_key(k):
        m = re.match(r'^([A-Za-z]+)_N(\d+)_M(\d+)_A([01]{5})_(cpp\w+?|gnupp\w+?)_(gpp|clangpp)_(nd|dbg)_std(size_t|uint8_t|uint16_t|uint32_t)((?:_\w+)*)$', k)
        if not m or m.group(9):
            return None
        return Config(m.group(1), int(m.group(2)), int(m.group(3)), m.group(4), m.group(5).replace('p', '+'), m.group(6).replace('p', '+').replace('g++', 'g++'),
                      m.group(7) == 'nd', 'std::' + m.group(8))

    def flags(self):
        f = ['-std=' + self.std, '-O1', '-g', '-fsanitize=address,undefined', '-fno-sanitize-recover=all', '-I' + os.path.join(REPO, 'source/include'),
             '-DCFG_E=%d' % FLAVOURS[self.fl], '-DCFG_N=%d' % self.N, '-DCFG_M=%d' % self.M, '-DCFG_A=0b' + self.abits, '-DCFG_ST=' + self.st,
             '-DGCH_SMALL_VECTOR_VERIF']
        if self.ndebug:
            f.append('-DNDEBUG')
        return f + list(self.extra)

    def sizeof_st(self):
        return {'std::size_t': 8, 'std::uint8_t': 1, 'std::uint16_t': 2, 'std::uint32_t': 4}[self.st]

    def max_size(self):
        bits = 8 * self.sizeof_st()
        return min((2 ** bits - 1) // 4, 2 ** (bits - 1) - 1)

    def driver_args(self):
        return [self.fl, str(self.N), str(self.M), 'ta' + self.abits, str(self.max_size())] + (['optout'] if '-DGCH_NO_STRONG_EXCEPTION_GUARANTEES' in self.extra else [])

    def describe(self):
        return dict(flavour=self.fl, N=self.N, M=self.M, alloc_bits_pocca_pocma_pocs_ae_soccc=self.abits, std=self.std, cxx=self.cxx, ndebug=self.ndebug, size_type=self.st)


def harness_dir():
    d = os.path.join(CACHE, 'harness', sha(repo_fingerprint(), file_sha(glob.glob(os.path.join(VERIF, 'harness', '*'))))[:20])
    os.makedirs(d, exist_ok=True)
    return d


def build_harness(cfg, src='harness.cpp'):
    d = harness_dir()
    exe = os.path.join(d, cfg.key() + ('' if src == 'harness.cpp' else '_' + src.replace('.cpp', '')))
    if os.path.exists(exe):
        return exe, None
    tmp = exe + '.tmp%d' % os.getpid()
    rc, out = run([cfg.cxx] + cfg.flags() + [os.path.join(VERIF, 'harness', src), '-o', tmp], timeout=900)
    if rc != 0:
        return None, out[-4000:]
    os.replace(tmp, exe)
    return exe, None


def build_harnesses(cfgs):
    """parallel build; returns {key: exe} and {key: error}"""
    exes, errs = {}, {}
    with cf.ThreadPoolExecutor(max_workers=NCPU) as ex:
        futs = {ex.submit(build_harness, c): c for c in cfgs}
        for f in cf.as_completed(futs):
            c = futs[f]
            exe, err = f.result()
            if exe:
                exes[c.key()] = exe
            else:
                errs[c.key()] = err
    # prune old harness caches (keep the 3 most recent)
    root = os.path.join(CACHE, 'harness')
    ds = sorted((os.path.getmtime(os.path.join(root, x)), x) for x in os.listdir(root))
    for _, x in ds[:-3]:
        shutil.rmtree(os.path.join(root, x), ignore_errors=True)
    return exes, errs


ASAN_ENV = dict(os.environ, ASAN_OPTIONS='detect_leaks=0:abort_on_error=0:exitcode=66', UBSAN_OPTIONS='print_stacktrace=0:halt_on_error=1')


def run_harness(exe, lines, extra_args=()):
    """returns (obs_lines, wmsgs_per_line, status) where status is None or a crash description"""
    rc, out = run([exe] + list(extra_args), inp='\n'.join(lines) + '\n', timeout=1200, env=ASAN_ENV)
    obs, wm = [], []
    tail = []
    for l in out.split('\n'):
        if l.startswith('W! '):
            if wm:
                wm[-1].append(l)
        elif ' | ' in l or l in ('reset', 'invalid', 'bad-op'):
            obs.append(l)
            wm.append([])
        elif l == 'TERMINATE':
            tail.append(l)
        elif l.strip():
            tail.append(l)
    status = None
    if rc != 0 or len(obs) != len(lines):
        kind = 'terminate' if 'TERMINATE' in tail else ('sanitizer' if any('Sanitizer' in t or 'runtime error' in t for t in tail) else 'crash')
        # the informative part of a sanitizer report is its head (error kind, access, first frames), not the legend at the end
        head = next((i for i, t in enumerate(tail) if 'ERROR: AddressSanitizer' in t or 'runtime error' in t or 'ERROR: LeakSanitizer' in t), None)
        detail = '\n'.join(tail[head:head + 12]) if head is not None else '\n'.join(tail[-25:])
        status = dict(kind=kind, rc=rc, at_line=len(obs), detail=detail)
    return obs, wm, status


def run_driver(cfg, lines):
    rc, out = run([DRIVER] + cfg.driver_args(), inp='\n'.join(lines) + '\n', timeout=1200)
    res = out.split('\n')
    if res and res[-1] == '':
        res.pop()
    return res, (None if rc == 0 and len(res) == len(lines) else dict(kind='driver', rc=rc, at_line=len(res)))


# --------------------------------------------------------------------------------------------------
# channels
# --------------------------------------------------------------------------------------------------
ELEM_EV = re.compile(r'^(cc|mc|vc|ca|ma|d)[0-9T]')


def fields(line):
    f = line.split(' | ')
    if len(f) < 6:
        return None
    return f


def project(line, ch):
    f = fields(line)
    if f is None:
        return line
    out, st, vals, live, evs, exc = f[:6]
    ub = f[6] if len(f) > 6 else ''
    evl = evs.split()
    if ch == 'val':
        return (out, tuple(x.split('=')[0] + '=' + x.split('=')[1].split('/')[0] for x in st.split()), vals, exc)
    if ch == 'shape':
        return st
    if ch == 'alloc':
        return tuple(x.split('=')[0] + '=' + x.split('/')[-1] for x in st.split())
    if ch == 'life':
        return (live.split()[0], tuple(sorted(e for e in evl if ELEM_EV.match(e))), ub)
    if ch == 'ledger':
        return (live.split()[1] if len(live.split()) > 1 else '', tuple(e for e in evl if e[0] in 'AF'))
    if ch == 'iter':
        return tuple(e for e in evl if e[0] in '*+')
    if ch == 'trace':
        return evs
    if ch == 'exc':
        return exc
    if ch == 'all':
        return line
    raise KeyError(ch)


CHANNELS = ['val', 'shape', 'alloc', 'life', 'ledger', 'iter', 'trace', 'exc']


def bridged(line):
    """mirror of Bridge.toMOp (lean/SvModel/Properties/Bridge.lean): does the protocol line have a counterpart in the history
    language of Properties/System.lean?  (statistics only)"""
    t = line.split(' @')[0].split(' !')[0].split()
    if not t:
        return False
    o = t[0]
    if o in ('at', 'get', 'new', 'newv', 'newn', 'pbm', 'newg', 'newm', 'del', 'insm', 'era', 'erar', 'pop', 'clr', 'rsz', 'rsv', 'stf', 'asn', 'asc', 'asm', 'swp', 'appc', 'appm'):
        return True
    if o == 'newc':
        return True
    if o == 'newr':
        return len(t) > 2     # every iterator kind (single-pass: MOp.ctorInput)
    if o in ('pb', 'ins', 'insn'):
        return True
    if o == 'rszv':
        return True
    if o == 'insr':
        return len(t) > 4 and t[3] in ('fw', 'ra') and t[4] != '-'
    if o in ('asr', 'app'):
        return len(t) > 2     # every iterator kind (single-pass: SOp.assignInput / SOp.appendInput)
    return False              # (a single-pass insert at end () is bridged too, but that depends on the state: svcover counts it)


# --------------------------------------------------------------------------------------------------
# the differential run
# --------------------------------------------------------------------------------------------------
def cases_for(cfg, tier, seed):
    N, M = cfg.N, cfg.M
    yield from gen_cases.enum_single(N, M, tier)
    yield from gen_cases.ctor_cases(N, M, tier)
    ids = (0, 0)
    yield from gen_cases.pair_cases(N, M, tier, ids)
    if cfg.abits[3] == '0':   # not always-equal: also unequal allocator ids
        yield from gen_cases.pair_cases(N, M, tier, (1, 2))
    yield from gen_cases.double_fault_cases(N, M, tier)     # (both tiers: a second fault inside a roll-back handler, ~1 % of the quick lines)
    yield from gen_cases.random_histories(N, M, seed * 1000003 + zlib.crc32(repr((cfg.fl, N, M, cfg.abits)).encode()) % 1000, 60 if tier == 'quick' else 1500)


def chunked(cases, max_lines=15000):
    cur, n = [], 0
    for c in cases:
        cur.append(c)
        n += len(c['lines']) + 1
        if n >= max_lines:
            yield cur
            cur, n = [], 0
    if cur:
        yield cur


def run_chunk(cfg, exe, chunk):
    """run one chunk of cases through harness and driver; returns a partial result"""
    lines, owner = [], []
    for ci, c in enumerate(chunk):
        lines.append('reset')
        owner.append((ci, -1))
        for li, l in enumerate(c['lines']):
            lines.append(l)
            owner.append((ci, li))
    res = dict(lines=len(lines), cases=len(chunk), dis={}, discount={}, w={}, wcount={}, crashes=[], stats={}, distinct=set(), samples=[])
    mobs, mstatus = run_driver(cfg, lines)
    # harness, restarting after a crash
    hobs, hw = [], []
    start = 0
    guard = 0
    while start < len(lines) and guard < 50:
        guard += 1
        o, w, status = run_harness(exe, lines[start:])
        hobs += o
        hw += w
        if status is None:
            break
        at = start + status['at_line']
        ci, li = owner[min(at, len(owner) - 1)]
        res['crashes'].append(dict(config=cfg.key(), kind=status['kind'], detail=status['detail'], case=chunk[ci]['lines'], line=li, cls=chunk[ci]['cls'], state=chunk[ci]['state']))
        # skip to the next reset after the crashing line
        nxt = at + 1
        while nxt < len(lines) and lines[nxt] != 'reset':
            nxt += 1
        # pad the skipped lines
        while len(hobs) < nxt:
            hobs.append('<crashed>')
            hw.append([])
        start = nxt
    st = res['stats']
    diverged = set()     # cases whose implementation and model STATES already differ: later lines are not comparable
    for i, l in enumerate(lines):
        ci, li = owner[i]
        if li < 0:
            continue
        c = chunk[ci]
        h = hobs[i] if i < len(hobs) else '<missing>'
        m = mobs[i] if i < len(mobs) else '<missing>'
        opk = l.split()[0]
        st['op:' + opk] = st.get('op:' + opk, 0) + 1
        if h not in ('invalid', 'bad-op') and bridged(l):
            # the model program of this line is one the history theorems quantify over (Properties/Bridge.lean: toMOp)
            st['lines_bridged_to_history_theorems'] = st.get('lines_bridged_to_history_theorems', 0) + 1
        if h in ('invalid', 'bad-op'):
            st['invalid'] = st.get('invalid', 0) + 1
        if h == 'bad-op' or m == 'bad-op':
            # a generated line that the harness or the driver does not parse: a defect of the generators (the line tests nothing)
            st['bad_op'] = st.get('bad_op', 0) + 1
            smp = res.setdefault('bad_op_samples', [])
            if len(smp) < 3:
                smp.append(dict(config=cfg.key(), line=l, impl=h, model=m))
        f = fields(h)
        if f:
            if f[5] != '-':
                st['throws:' + f[5].split()[0]] = st.get('throws:' + f[5].split()[0], 0) + 1
            if ' A' in ' ' + f[4]:
                st['reallocating_lines'] = st.get('reallocating_lines', 0) + 1
            if c.get('test') == li:
                res['distinct'].add((c['cls'], c['state'], c.get('fault'), f[5], 'realloc' if ' A' in ' ' + f[4] else 'inplace'))
        if h == '<crashed>':
            continue
        if ci in diverged:
            # attributed to the first divergence of this history; the monitors (real code only) still run below
            st['lines_after_divergence_not_compared'] = st.get('lines_after_divergence_not_compared', 0) + 1
        elif h != m:
            fm = fields(m)
            if f is None or fm is None or f[1:4] != fm[1:4]:
                diverged.add(ci)
            for ch in CHANNELS:
                if project(h, ch) != project(m, ch):
                    k = ch + '|' + c['cls'] + ('|fault' if ' @' in l else '')
                    res['discount'][k] = res['discount'].get(k, 0) + 1
                    lst = res['dis'].setdefault(k, [])
                    if len(lst) < 3:
                        lst.append(dict(config=cfg.key(), cls=c['cls'], state=c['state'], case=c['lines'][:li + 1], line=li, op=l, impl=h, model=m))
        if i < len(hw):
            for wl in hw[i]:
                prop = wl.split()[1]
                res['wcount'][prop] = res['wcount'].get(prop, 0) + 1
                lst = res['w'].setdefault(prop, [])
                if len(lst) < 8:
                    lst.append(dict(config=cfg.key(), cls=c['cls'], state=c['state'], case=c['lines'][:li + 1], line=li, op=l, msg=wl[3:], impl=h))
        if len(res['samples']) < 2 and c.get('test') == li and f and ' @' in l:
            res['samples'].append(dict(config=cfg.key(), case=c['lines'][:li + 1], impl=h, model=m))
    if mstatus:
        res['crashes'].append(dict(config=cfg.key(), kind='driver', detail=str(mstatus), case=[], line=0, cls='-', state='-'))
    res['distinct'] = list(res['distinct'])
    return res


def merge(total, part):
    total['lines'] += part['lines']
    total['cases'] += part['cases']
    for ch, n in part['discount'].items():
        total['discount'][ch] = total['discount'].get(ch, 0) + n
        total['dis'].setdefault(ch, [])
        total['dis'][ch] = (total['dis'][ch] + part['dis'].get(ch, []))[:4]
    for p, n in part['wcount'].items():
        total['wcount'][p] = total['wcount'].get(p, 0) + n
        total['w'].setdefault(p, [])
        total['w'][p] = (total['w'][p] + part['w'].get(p, []))[:40]
    total['crashes'] = (total['crashes'] + part['crashes'])[:20]
    for k, v in part['stats'].items():
        total['stats'][k] = total['stats'].get(k, 0) + v
    total['distinct'] += len(part['distinct'])
    total['samples'] = (total['samples'] + part['samples'])[:6]
    total['bad_op_samples'] = (total.get('bad_op_samples', []) + part.get('bad_op_samples', []))[:5]


def core_configs(tier):
    cfgs = []
    pairs = [(0, 3), (3, 1), (1, 3)] if tier == 'quick' else [(0, 0), (0, 3), (3, 0), (1, 3), (3, 1), (3, 3), (2, 5)]
    fls = ['En', 'Et', 'Tr'] if tier == 'quick' else ['En', 'Et', 'Enn', 'Ec', 'Tr']
    allocs = ['00000'] if tier == 'quick' else ['00000', '11100', '01000', '00010', '10001']
    for fl in fls:
        for (N, M) in pairs:
            for ab in allocs:
                # thorough: every flavour x every capacity pair with the plain allocator; the allocator-trait variants on the
                # flavours / pairs where allocator behaviour can matter (throwing elements, all three capacity relations)
                if tier != 'quick' and ab != '00000' and not (fl in ('En', 'Et') and (N, M) in ((0, 3), (3, 1), (1, 3), (3, 3))):
                    continue
                cfgs.append(Config(fl, N, M, ab))
    # some configurations are built as C++20: the arms under `#ifdef GCH_LIB_IS_CONSTANT_EVALUATED` (and the concepts) are only
    # compiled there, and a run-time-live one (shrink_to_size's catch block) would otherwise be seen by C17's runs alone
    if tier == 'quick':
        cfgs += [Config('Et', 3, 1, '11100', std='c++20'), Config('En', 1, 3, '01000'), Config('En', 0, 3, '10001'), Config('Et', 1, 3, '00010')]
        cfgs += [Config('Et', 1, 3, '00000', extra=('-DGCH_NO_STRONG_EXCEPTION_GUARANTEES',))]
    else:
        cfgs += [Config('Et', 3, 1, '00000', std='c++20'), Config('En', 1, 3, '00000', std='c++20'), Config('Tr', 0, 3, '00000', std='c++20')]
        # the documented opt-out: relocation always moves, also for a copyable type whose move may throw (basic guarantee only)
        cfgs += [Config('Et', 1, 3, '00000', extra=('-DGCH_NO_STRONG_EXCEPTION_GUARANTEES',)), Config('Et', 3, 1, '00000', extra=('-DGCH_NO_STRONG_EXCEPTION_GUARANTEES',))]
    return cfgs


def differential(tier, seed, cfgs=None, case_fn=None, label='core'):
    """the shared D + W run; cached on (repo, verif, tier, seed)"""
    os.makedirs(os.path.join(CACHE, 'core'), exist_ok=True)
    cfgs = cfgs or core_configs(tier)
    key = sha(repo_fingerprint(), verif_fingerprint(), tier, seed, label, *[c.key() for c in cfgs])[:24]
    path = os.path.join(CACHE, 'core', key + '.json')
    with Lock('core_' + label):
        if os.path.exists(path):
            r = json.load(open(path))
            r['cached'] = True
            return r
        t0 = time.time()
        exes, errs = build_harnesses(cfgs)
        total = dict(lines=0, cases=0, dis={}, discount={}, w={}, wcount={}, crashes=[], stats={}, distinct=0, samples=[], build_errors=errs,
                     configs=[c.describe() for c in cfgs], tier=tier, seed=seed)
        # worker PROCESSES (the comparison of the two streams is Python code: threads would serialise on the GIL); chunks are
        # generated lazily and at most a bounded number is in flight, so memory stays flat however large the tier is
        def all_chunks():
            for c in cfgs:
                if c.key() not in exes:
                    continue
                gen = case_fn(c, tier, seed) if case_fn else cases_for(c, tier, seed)
                for chunk in chunked(gen):
                    yield c, chunk
        with cf.ProcessPoolExecutor(max_workers=NCPU) as ex:
            pending = set()
            for c, chunk in all_chunks():
                pending.add(ex.submit(run_chunk, c, exes[c.key()], chunk))
                if len(pending) >= 3 * NCPU:
                    done, pending = cf.wait(pending, return_when=cf.FIRST_COMPLETED)
                    for j in done:
                        merge(total, j.result())
            for j in cf.as_completed(pending):
                merge(total, j.result())
        total['wall_s'] = time.time() - t0
        total['cached'] = False
        tmp = path + '.tmp%d' % os.getpid()
        json.dump(total, open(tmp, 'w'))
        os.replace(tmp, path)
        # prune old results
        files = sorted(glob.glob(os.path.join(CACHE, 'core', '*.json')), key=os.path.getmtime)
        for f in files[:-12]:
            os.remove(f)
        return total


def monitor_only(cfgs, case_fn, label):
    """run cases through the harness only (no model): monitor messages and crashes of the real code"""
    os.makedirs(os.path.join(CACHE, 'core'), exist_ok=True)
    key = sha(repo_fingerprint(), verif_fingerprint(), label, *[c.key() for c in cfgs])[:24]
    path = os.path.join(CACHE, 'core', 'mon_' + key + '.json')
    with Lock('mon_' + label):
        if os.path.exists(path):
            return json.load(open(path))
        exes, errs = build_harnesses(cfgs)
        total = dict(lines=0, cases=0, w={}, wcount={}, crashes=[], build_errors=errs, samples=[], distinct=0)
        for c in cfgs:
            if c.key() not in exes:
                continue
            for chunk in chunked(case_fn(c)):
                lines, owner = [], []
                for ci, cs in enumerate(chunk):
                    lines.append('reset'); owner.append((ci, -1))
                    for li, l in enumerate(cs['lines']):
                        lines.append(l); owner.append((ci, li))
                start, guard = 0, 0
                seen = set()
                while start < len(lines) and guard < 200:
                    guard += 1
                    o, wm, status = run_harness(exes[c.key()], lines[start:])
                    for i, wl in enumerate(wm):
                        ci, li = owner[start + i]
                        if li >= 0 and chunk[ci].get('test') == li and i < len(o):
                            f = fields(o[i])
                            if f:
                                seen.add((chunk[ci]['cls'], chunk[ci]['state'], f[5]))
                                if len(total['samples']) < 2 and f[5] not in ('-',):
                                    total['samples'].append(dict(config=c.key(), case=chunk[ci]['lines'][:li + 1], impl=o[i]))
                        for w in wl:
                            prop = w.split()[1]
                            total['wcount'][prop] = total['wcount'].get(prop, 0) + 1
                            lst = total['w'].setdefault(prop, [])
                            if len(lst) < 10:
                                lst.append(dict(config=c.key(), cls=chunk[ci]['cls'], state=chunk[ci]['state'], case=chunk[ci]['lines'][:li + 1], line=li,
                                                op=lines[start + i], msg=w[3:], impl=o[i] if i < len(o) else ''))
                    if status is None:
                        break
                    at = start + status['at_line']
                    ci, li = owner[min(at, len(owner) - 1)]
                    if len(total['crashes']) < 20:
                        total['crashes'].append(dict(config=c.key(), kind=status['kind'], detail=status['detail'], case=chunk[ci]['lines'][:max(li, 0) + 1], line=li,
                                                     cls=chunk[ci]['cls'], state=chunk[ci]['state']))
                    nxt = at + 1
                    while nxt < len(lines) and lines[nxt] != 'reset':
                        nxt += 1
                    start = nxt
                total['lines'] += len(lines)
                total['cases'] += len(chunk)
                total['distinct'] += len(seen)
        tmp = path + '.tmp%d' % os.getpid()
        json.dump(total, open(tmp, 'w'))
        os.replace(tmp, path)
        return total


# --------------------------------------------------------------------------------------------------
# findings, replay, evidence
# --------------------------------------------------------------------------------------------------
def known_findings():
    p = os.path.join(VERIF, 'known_findings.json')
    return json.load(open(p)) if os.path.exists(p) else []


def match_known(prop, text):
    """a known finding matches when all of its `match_all` substrings occur in the description of the failure"""
    for k in known_findings():
        if k.get('status') == 'known' and k['property'] == prop and all(s in text for s in k.get('match_all', [])):
            if 'rows' in k:
                m = re.search(r'row=([0-9,]+)', text)
                if not m or m.group(1) not in k['rows']:
                    continue
            return k
    return None


def write_replay(prop, payload):
    os.makedirs(os.path.join(OUT, 'replays'), exist_ok=True)
    path = os.path.join(OUT, 'replays', '%s-%s.json' % (prop, sha(json.dumps(payload, sort_keys=True))[:10]))
    payload = dict(payload, property=prop)
    json.dump(payload, open(path, 'w'), indent=1)
    return path


def write_evidence(prop, tier, seed, coverage, wall, violations, assumptions):
    os.makedirs(os.path.join(VERIF, 'evidence'), exist_ok=True)
    ev = dict(property_id=prop, tier=tier, seed=seed, level='proof', coverage=coverage, assumptions=assumptions, wall_s=round(wall, 2), violations=violations)
    path = os.path.join(VERIF, 'evidence', prop + '.json')
    tmp = path + '.tmp%d' % os.getpid()
    json.dump(ev, open(tmp, 'w'), indent=1)
    os.replace(tmp, path)
    return path
