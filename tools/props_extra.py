#!/usr/bin/env python3
"""Property-specific ties beyond the shared differential run."""
import itertools, os, random, re

import vlib


def all_lists(alphabet, maxlen):
    out = []
    for n in range(maxlen + 1):
        out += list(itertools.product(alphabet, repeat=n))
    return out


def lst(t):
    return ','.join(str(x) for x in t) if t else '-'


# --------------------------------------------------------------------------------------------------------------
# C16: exhaustive pairs of contents through the real operators, std::vector and the generated Lean definitions
# --------------------------------------------------------------------------------------------------------------
def c16_lines(tier, seed):
    ls = all_lists((0, 1, 2), 3 if tier == 'quick' else 4)
    lines = []
    for a in ls:
        for b in ls:
            lines.append('cmp %s %s' % (lst(a), lst(b)))
            lines.append('cmpw %s %s' % (lst(a), lst(b)))
    rng = random.Random(seed)
    for a in ls:
        for k in (0, 1, 2):
            lines.append('ner %s %d' % (lst(a), k))
        lines.append('nerif %s %d' % (lst(a), rng.choice([1, 2, 3])))
    return lines


def c16_extra(tier, seed, lean):
    cfgs = [vlib.Config('Enn', 0, 3, '00000', std='c++17'), vlib.Config('Enn', 3, 1, '00000', std='c++20'), vlib.Config('Enn', 2, 2, '00000', std='c++11')]
    if tier == 'thorough':
        cfgs += [vlib.Config('Enn', 0, 0, '00000', std='c++20'), vlib.Config('Enn', 1, 5, '00000', std='c++14'), vlib.Config('Enn', 3, 1, '00000', std='c++20', cxx='clang++'),
                 vlib.Config('Enn', 0, 3, '00000', std='c++2b')]
    exes, errs = vlib.build_harnesses(cfgs)
    res = dict(corr=[], w=[], evaluations=0, cases=0, distinct=0, samples=[], info={})
    for k, e in errs.items():
        res['corr'].append(dict(why='harness does not compile for ' + k + ': ' + e[-500:], op='-', config=k, impl='', model='', case=[]))
    lines = c16_lines(tier, seed)
    if not lean['driver_ok']:
        res['corr'].append(dict(why='the Lean driver no longer builds', op='-', config='-', impl='', model='', case=[]))
        return res
    seen = set()
    for c in cfgs:
        if c.key() not in exes:
            continue
        rc, out = vlib.run([exes[c.key()]], inp='\n'.join(lines) + '\n', timeout=900, env=vlib.ASAN_ENV)
        hl = [l for l in out.split('\n') if l]
        ml, st = vlib.run_driver(c, lines)
        i = 0
        for j, line in enumerate(lines):
            if i >= len(hl):
                res['corr'].append(dict(why='harness output ended early (rc=%d)' % rc, op=line, config=c.key(), impl='', model='', case=[line]))
                break
            h = hl[i]
            i += 1
            ws = []
            while i < len(hl) and hl[i].startswith('W! '):
                ws.append(hl[i])
                i += 1
            m = ml[j] if j < len(ml) else '<missing>'
            hh, mm = h, m
            if ' c3=-' in h:
                hh = re.sub(r' c3=.*', '', h)
                mm = re.sub(r' c3=.*', '', m)
            res['evaluations'] += 1
            seen.add(hh)
            if hh != mm and len(res['corr']) < 10:
                res['corr'].append(dict(why='implementation and generated definition disagree', op=line, config=c.key(), impl=h, model=m, case=[line]))
            for w in ws:
                if len(res['w']) < 10:
                    res['w'].append(dict(msg=w[3:], op=line, config=c.key(), case=[line], impl=h))
            if len(res['samples']) < 2 and j in (7, len(lines) - 3):
                res['samples'].append(dict(config=c.key(), line=line, impl=h, model=m))
        res['cases'] += len(lines)
    res['distinct'] = len(seen)
    res['info'] = dict(c16_configs=[c.describe() for c in cfgs], c16_lines_per_config=len(lines), exhaustive_over='all pairs of sequences over {0,1,2} up to length %d' % (3 if tier == 'quick' else 4))
    return res


# --------------------------------------------------------------------------------------------------------------
# C19: layout table from the compilers
# --------------------------------------------------------------------------------------------------------------
import tables


def c19_pre(tier, seed):
    rows, err = tables.layout_table(tier)
    if err:
        return [dict(theorem='(table) layout', why='the layout table program does not compile against the header: ' + err[-800:])]
    tables.write_layout_lean(rows)
    return []


def c19_extra(tier, seed, lean):
    res = dict(corr=[], w=[], evaluations=0, cases=0, distinct=0, samples=[], info={})
    cxxs = ['clang++'] if tier == 'quick' else ['clang++', 'g++']
    first = None
    for cxx in cxxs:
        rows, err = tables.layout_table(tier, cxx)
        if err:
            res['corr'].append(dict(why='layout table (' + cxx + ') does not compile: ' + err[-500:], op='-', config=cxx, impl='', model='', case=[]))
            continue
        if first is None:
            first = rows
        elif rows != first:
            res['corr'].append(dict(why='g++ and clang++ disagree on the layout table', op='-', config=cxx, impl='', model='', case=[]))
        seen = set()
        for r in rows:
            s, a, w, k, ka, size0, d, sizeD, sizeD1, size1, alignD, aligned, icap, sdef = r
            res['evaluations'] += 1
            seen.add((w, k, a, sizeD, d))
            rowtxt = 'row=%d,%d,%d,%d,%d ' % (s, a, w, k, ka)
            opt = (sizeD <= 64 and sizeD1 > 64) or (d == 1 and size1 > 64)
            if not opt:
                cls = 'classA' if sizeD1 <= 64 else ('classB' if d > 1 and sizeD > 64 else 'unclassified')
                res['w'].append(dict(msg='C19 default inline capacity is not the largest that fits in 64 bytes [%s] %s: default %d -> sizeof %d, %d -> sizeof %d, 1 -> sizeof %d'
                                     % (cls, rowtxt, d, sizeD, d + 1, sizeD1, size1), op=rowtxt, config=cxx, case=[], impl=str(r)))
            if not aligned:
                res['w'].append(dict(msg='C19 inline buffer not aligned for the element type ' + rowtxt, op=rowtxt, config=cxx, case=[], impl=str(r)))
            if not icap:
                res['w'].append(dict(msg='C19 inline_capacity() does not report the template argument ' + rowtxt, op=rowtxt, config=cxx, case=[], impl=str(r)))
            if k == 0 and size0 != (8 + 2 * w + 7) // 8 * 8:
                res['w'].append(dict(msg='C19 empty container with a stateless allocator is not pointer + two size_types ' + rowtxt, op=rowtxt, config=cxx, case=[], impl=str(r)))
        res['cases'] += len(rows)
        res['distinct'] = max(res['distinct'], len(seen))
        if not res['samples']:
            res['samples'] = [dict(row=dict(s=r[0], a=r[1], w=r[2], k=r[3], ka=r[4], sizeof_empty=r[5], default_N=r[6], sizeof_default=r[7], sizeof_next=r[8])) for r in rows[5:7]]
    res['info'] = dict(c19_compilers=cxxs, c19_rows=res['cases'])
    return res


def register(EXTRA, EXTRA_SEARCH, PRE):
    EXTRA['C16'] = c16_extra
    EXTRA['C19'] = c19_extra
    PRE['C19'] = c19_pre
