#!/usr/bin/env python3
"""Property-specific ties beyond the shared differential run."""
import itertools, os, random, re, json

import vlib


def all_lists(alphabet, maxlen):
    out = []
    for n in range(maxlen + 1):
        out += list(itertools.product(alphabet, repeat=n))
    return out


def lst(t):
    return ','.join(str(x) for x in t) if t else '-'


# --------------------------------------------------------------------------------------------------------------
# C16: exhaustive pairs of contents through the real operators, std::vector and the generated Lean definitions
# --------------------------------------------------------------------------------------------------------------
def c16_lines(tier, seed):
    ls = all_lists((0, 1, 2), 3 if tier == 'quick' else 4)
    lines = []
    for a in ls:
        for b in ls:
            lines.append('cmp %s %s' % (lst(a), lst(b)))
            lines.append('cmpw %s %s' % (lst(a), lst(b)))
    rng = random.Random(seed)
    for a in ls:
        for k in (0, 1, 2):
            lines.append('ner %s %d' % (lst(a), k))
        lines.append('nerif %s %d' % (lst(a), rng.choice([1, 2, 3])))
    return lines


def c16_extra(tier, seed, lean):
    cfgs = [vlib.Config('Enn', 0, 3, '00000', std='c++17'), vlib.Config('Enn', 3, 1, '00000', std='c++20'), vlib.Config('Enn', 2, 2, '00000', std='c++11')]
    if tier == 'thorough':
        cfgs += [vlib.Config('Enn', 0, 0, '00000', std='c++20'), vlib.Config('Enn', 1, 5, '00000', std='c++14'), vlib.Config('Enn', 3, 1, '00000', std='c++20', cxx='clang++'),
                 vlib.Config('Enn', 0, 3, '00000', std='c++2b')]
    exes, errs = vlib.build_harnesses(cfgs)
    res = dict(corr=[], w=[], evaluations=0, cases=0, distinct=0, samples=[], info={})
    for k, e in errs.items():
        res['corr'].append(dict(why='harness does not compile for ' + k + ': ' + e[-500:], op='-', config=k, impl='', model='', case=[]))
    lines = c16_lines(tier, seed)
    if not lean['driver_ok']:
        res['corr'].append(dict(why='the Lean driver no longer builds', op='-', config='-', impl='', model='', case=[]))
        return res
    seen = set()
    for c in cfgs:
        if c.key() not in exes:
            continue
        rc, out = vlib.run([exes[c.key()]], inp='\n'.join(lines) + '\n', timeout=900, env=vlib.ASAN_ENV)
        hl = [l for l in out.split('\n') if l]
        ml, st = vlib.run_driver(c, lines)
        i = 0
        for j, line in enumerate(lines):
            if i >= len(hl):
                res['corr'].append(dict(why='harness output ended early (rc=%d)' % rc, op=line, config=c.key(), impl='', model='', case=[line]))
                break
            h = hl[i]
            i += 1
            ws = []
            while i < len(hl) and hl[i].startswith('W! '):
                ws.append(hl[i])
                i += 1
            m = ml[j] if j < len(ml) else '<missing>'
            hh, mm = h, m
            if ' c3=-' in h:
                hh = re.sub(r' c3=.*', '', h)
                mm = re.sub(r' c3=.*', '', m)
            res['evaluations'] += 1
            seen.add(hh)
            if hh != mm and len(res['corr']) < 10:
                res['corr'].append(dict(why='implementation and generated definition disagree', op=line, config=c.key(), impl=h, model=m, case=[line]))
            for w in ws:
                if len(res['w']) < 10:
                    res['w'].append(dict(msg=w[3:], op=line, config=c.key(), case=[line], impl=h))
            if len(res['samples']) < 2 and j in (7, len(lines) - 3):
                res['samples'].append(dict(config=c.key(), line=line, impl=h, model=m))
        res['cases'] += len(lines)
    res['distinct'] = len(seen)
    res['info'] = dict(c16_configs=[c.describe() for c in cfgs], c16_lines_per_config=len(lines), exhaustive_over='all pairs of sequences over {0,1,2} up to length %d' % (3 if tier == 'quick' else 4))
    return res


# --------------------------------------------------------------------------------------------------------------
# C19: layout table from the compilers
# --------------------------------------------------------------------------------------------------------------
import tables


def c19_pre(tier, seed):
    rows, err = tables.layout_table(tier)
    if err:
        return [dict(theorem='(table) layout', why='the layout table program does not compile against the header: ' + err[-800:])]
    tables.write_layout_lean(rows)
    return []


def c19_extra(tier, seed, lean):
    res = dict(corr=[], w=[], evaluations=0, cases=0, distinct=0, samples=[], info={})
    cxxs = ['clang++'] if tier == 'quick' else ['clang++', 'g++']
    first = None
    for cxx in cxxs:
        rows, err = tables.layout_table(tier, cxx)
        if err:
            res['corr'].append(dict(why='layout table (' + cxx + ') does not compile: ' + err[-500:], op='-', config=cxx, impl='', model='', case=[]))
            continue
        if first is None:
            first = rows
        elif rows != first:
            res['corr'].append(dict(why='g++ and clang++ disagree on the layout table', op='-', config=cxx, impl='', model='', case=[]))
        seen = set()
        for r in rows:
            s, a, w, k, ka, size0, d, sizeD, sizeD1, size1, alignD, aligned, icap, sdef = r
            res['evaluations'] += 1
            seen.add((w, k, a, sizeD, d))
            rowtxt = 'row=%d,%d,%d,%d,%d ' % (s, a, w, k, ka)
            opt = (sizeD <= 64 and sizeD1 > 64) or (d == 1 and size1 > 64)
            if not opt:
                cls = 'classA' if sizeD1 <= 64 else ('classB' if d > 1 and sizeD > 64 else 'unclassified')
                res['w'].append(dict(msg='C19 default inline capacity is not the largest that fits in 64 bytes [%s] %s: default %d -> sizeof %d, %d -> sizeof %d, 1 -> sizeof %d'
                                     % (cls, rowtxt, d, sizeD, d + 1, sizeD1, size1), op=rowtxt, config=cxx, case=[], impl=str(r)))
            if not aligned:
                res['w'].append(dict(msg='C19 inline buffer not aligned for the element type ' + rowtxt, op=rowtxt, config=cxx, case=[], impl=str(r)))
            if not icap:
                res['w'].append(dict(msg='C19 inline_capacity() does not report the template argument ' + rowtxt, op=rowtxt, config=cxx, case=[], impl=str(r)))
            if k == 0 and size0 != (8 + 2 * w + 7) // 8 * 8:
                res['w'].append(dict(msg='C19 empty container with a stateless allocator is not pointer + two size_types ' + rowtxt, op=rowtxt, config=cxx, case=[], impl=str(r)))
        res['cases'] += len(rows)
        res['distinct'] = max(res['distinct'], len(seen))
        if not res['samples']:
            res['samples'] = [dict(row=dict(s=r[0], a=r[1], w=r[2], k=r[3], ka=r[4], sizeof_empty=r[5], default_N=r[6], sizeof_default=r[7], sizeof_next=r[8])) for r in rows[5:7]]
    res['info'] = dict(c19_compilers=cxxs, c19_rows=res['cases'])
    return res


# --------------------------------------------------------------------------------------------------------------
# C18: noexcept table + exceptions from the caller's iterators must reach the caller (std::terminate trap)
# --------------------------------------------------------------------------------------------------------------
import gen_cases


def c18_pre(tier, seed):
    rows, err = tables.noexcept_table('c++17')
    if err:
        return [dict(theorem='(table) noexcept', why='the noexcept table program does not compile against the header: ' + err[-800:])]
    tables.write_noexcept_lean(rows)
    return []


def iterfault_run(tier):
    cfgs = [vlib.Config('Et', 3, 1, '00000'), vlib.Config('En', 0, 3, '00000')]
    if tier == 'thorough':
        cfgs += [vlib.Config('Enn', 1, 3, '00000'), vlib.Config('Tr', 3, 1, '00000'), vlib.Config('Ec', 2, 2, '00000')]
    return vlib.monitor_only(cfgs, lambda c: gen_cases.iter_fault_cases(c.N, c.M, tier), 'iterfault_' + tier)


def c18_extra(tier, seed, lean):
    res = dict(corr=[], w=[], evaluations=0, cases=0, distinct=0, samples=[], info={})
    stds = ['c++17'] if tier == 'quick' else ['c++17', 'c++20', 'c++2b']
    base = None
    for std in stds:
        for cxx in (['g++'] if tier == 'quick' else ['g++', 'clang++']):
            if cxx == 'clang++' and std == 'c++2b':
                continue
            rows, err = tables.noexcept_table(std, cxx)
            if err:
                res['corr'].append(dict(why='noexcept table (%s %s) does not compile: %s' % (cxx, std, err[-400:]), op='-', config=cxx + std, impl='', model='', case=[]))
                continue
            res['evaluations'] += len(rows) * 15
            res['cases'] += len(rows)
            if base is None:
                base = rows
            elif rows != base:
                res['w'].append(dict(msg='C18 noexcept values differ between builds (%s %s vs g++ c++17)' % (cxx, std), op='-', config=cxx + std, case=[], impl=''))
    if base:
        res['distinct'] = len(set(r[9:] for r in base))
        res['samples'] = [dict(row=dict(zip(['nothrow_move_ctor', 'nothrow_move_assign', 'nothrow_swap', 'N', 'std_allocator', 'pocma', 'pocs', 'always_equal', 'alloc_default_noexcept'], r[:9])),
                               values=dict(zip(tables.NOEXCEPT_EXPRS, r[9:]))) for r in base[7:8]]
    mon = iterfault_run(tier)
    res['evaluations'] += mon['lines']
    res['cases'] += mon['cases']
    res['distinct'] += mon['distinct']
    for c in mon['crashes']:
        if c['kind'] == 'terminate':
            res['w'].append(dict(msg='C18 std::terminate was called although the exception came from the caller\'s iterator in a non-noexcept operation',
                                 op=c['case'][-1] if c['case'] else '-', config=c['config'], case=c['case'], impl='TERMINATE'))
        else:
            res['w'].append(dict(msg='C18 the implementation crashed (%s) when the caller\'s iterator threw: %s' % (c['kind'], c['detail'][-300:]),
                                 op=c['case'][-1] if c['case'] else '-', config=c['config'], case=c['case'], impl=''))
    for k, e in mon['build_errors'].items():
        res['corr'].append(dict(why='harness does not compile for ' + k, op='-', config=k, impl='', model='', case=[]))
    res['samples'] += mon['samples'][:1]
    res['info'] = dict(noexcept_table_builds=stds, iterator_fault_cases=mon['cases'], iterator_fault_monitor_messages=mon['wcount'])
    return res


def c06_extra(tier, seed, lean):
    """basic guarantee when the caller's iterators throw (monitor only; the model has no iterator faults)"""
    res = dict(corr=[], w=[], evaluations=0, cases=0, distinct=0, samples=[], info={})
    mon = iterfault_run(tier)
    res['evaluations'] = mon['lines']; res['cases'] = mon['cases']; res['distinct'] = mon['distinct']
    for p in ('C06', 'C02', 'C03', 'C04'):
        for w in mon['w'].get(p, []):
            res['w'].append(dict(w, msg='C06 (iterator threw) ' + w['msg'][4:]))
    for c in mon['crashes']:
        res['w'].append(dict(msg='C06 the implementation %s when the caller\'s iterator threw' % ('called std::terminate' if c['kind'] == 'terminate' else 'crashed: ' + c['detail'][-300:]),
                             op=c['case'][-1] if c['case'] else '-', config=c['config'], case=c['case'], impl=''))
    res['info'] = dict(iterator_fault_cases=mon['cases'])
    return res


# --------------------------------------------------------------------------------------------------------------
# C17: the same histories under every standard / compiler / GCH_DISABLE_CONCEPTS against the one model
# --------------------------------------------------------------------------------------------------------------
SELFTEST = r'''
#include <type_traits>
#include <cstdio>
int main () {
#if defined(__cpp_lib_is_constant_evaluated)
  volatile int x = 1;
  if (std::is_constant_evaluated ()) { std::puts ("BROKEN: is_constant_evaluated() is true at run time"); return 1; }
  (void) x;
#endif
  std::puts ("ok"); return 0; }
'''


def toolchain_ok(cxx, std):
    d = os.path.join(vlib.CACHE, 'selftest')
    os.makedirs(d, exist_ok=True)
    src = os.path.join(d, 'st.cpp')
    exe = os.path.join(d, 'st_%s_%s' % (cxx.replace('+', 'p'), std.replace('+', 'p')))
    open(src, 'w').write(SELFTEST)
    rc, out = vlib.run([cxx, '-std=' + std, '-O1', src, '-o', exe], timeout=120)
    if rc != 0:
        return False, 'self-test does not compile: ' + out[-200:]
    rc, out = vlib.run([exe], timeout=20)
    return (rc == 0), out.strip()[-200:]


def c17_cases(c, tier, seed):
    import itertools
    yield from itertools.islice(gen_cases.enum_single(c.N, c.M, 'quick'), 0, None, 7 if tier == 'quick' else 2)
    yield from itertools.islice(gen_cases.pair_cases(c.N, c.M, 'quick', (0, 0)), 0, None, 5 if tier == 'quick' else 2)
    yield from gen_cases.ctor_cases(c.N, c.M, 'quick')
    yield from gen_cases.random_histories(c.N, c.M, seed * 7919 + 13, 40 if tier == 'quick' else 400)


def c17_extra(tier, seed, lean):
    res = dict(corr=[], w=[], evaluations=0, cases=0, distinct=0, samples=[], info={})
    builds = [('g++', 'c++11', ()), ('g++', 'c++14', ()), ('g++', 'c++20', ()), ('clang++', 'c++17', ()), ('g++', 'c++2b', ()), ('g++', 'c++20', ('-DGCH_DISABLE_CONCEPTS',))]
    if tier == 'thorough':
        builds += [('clang++', 'c++11', ()), ('clang++', 'c++14', ()), ('clang++', 'c++20', ()), ('clang++', 'c++2b', ()), ('clang++', 'c++20', ('-DGCH_DISABLE_CONCEPTS',))]
    shapes = [('Et', 3, 1, '00000'), ('En', 0, 3, '01010')] if tier == 'quick' else [('Et', 3, 1, '00000'), ('En', 0, 3, '01010'), ('Tr', 1, 3, '00000'), ('Enn', 3, 3, '10110')]
    cfgs, excluded = [], []
    for cxx, std, extra in builds:
        ok, why = toolchain_ok(cxx, std)
        if not ok:
            excluded.append(dict(compiler=cxx, std=std, reason='toolchain self-test failed (header-independent): ' + why))
            continue
        for fl, N, M, ab in shapes:
            cfgs.append(vlib.Config(fl, N, M, ab, std=std, cxx=cxx, extra=extra))
    if not lean['driver_ok']:
        res['corr'].append(dict(why='the Lean driver no longer builds', op='-', config='-', impl='', model='', case=[]))
        return res
    core = vlib.differential(tier, seed, cfgs=cfgs, case_fn=c17_cases, label='c17')
    for k, lst in core['dis'].items():
        ch = k.split('|')[0]
        if ch in ('val', 'shape', 'exc', 'ledger', 'life'):
            for d in lst:
                res['corr'].append(dict(d, channel=ch, why='a build under another standard/compiler disagrees with the model (and hence with the other builds) on channel ' + ch))
    for prop in ('C17',):
        res['w'] += core['w'].get(prop, [])
    for c in core['crashes']:
        res['w'].append(dict(msg='C17 the implementation %s in build %s' % ('called std::terminate' if c['kind'] == 'terminate' else 'crashed (' + c['kind'] + ')', c['config']),
                             op=c['case'][-1] if c['case'] else '-', config=c['config'], case=c['case'], impl=''))
    for k, e in core.get('build_errors', {}).items():
        res['corr'].append(dict(why='harness does not compile for ' + k + ': ' + e[-500:], op='-', config=k, impl='', model='', case=[]))
    res['evaluations'] = core['lines']; res['cases'] = core['cases']; res['distinct'] = core['distinct']; res['samples'] = core['samples'][:2]
    res['info'] = dict(c17_builds=[dict(compiler=a, std=b, extra=list(c)) for a, b, c in builds], c17_excluded_by_toolchain_gate=excluded,
                       c17_configs=len(cfgs), c17_disagreements=core['discount'])
    return res


def register(EXTRA, EXTRA_SEARCH, PRE):
    EXTRA['C17'] = c17_extra
    EXTRA['C18'] = c18_extra
    PRE['C18'] = c18_pre
    EXTRA['C06'] = c06_extra
    EXTRA['C16'] = c16_extra
    EXTRA['C19'] = c19_extra
    PRE['C19'] = c19_pre
