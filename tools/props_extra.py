#!/usr/bin/env python3
"""Property-specific ties beyond the shared differential run."""
import glob, itertools, os, random, re, json, sys

import vlib


def all_lists(alphabet, maxlen):
    out = []
    for n in range(maxlen + 1):
        out += list(itertools.product(alphabet, repeat=n))
    return out


def lst(t):
    return ','.join(str(x) for x in t) if t else '-'


# --------------------------------------------------------------------------------------------------------------
# C16: exhaustive pairs of contents through the real operators, std::vector and the generated Lean definitions
# --------------------------------------------------------------------------------------------------------------
def c16_lines(tier, seed):
    ls = all_lists((0, 1, 2), 3 if tier == 'quick' else 4)
    lines = []
    for a in ls:
        for b in ls:
            lines.append('cmp %s %s' % (lst(a), lst(b)))
            lines.append('cmpw %s %s' % (lst(a), lst(b)))
    rng = random.Random(seed)
    for a in ls:
        for k in (0, 1, 2):
            lines.append('ner %s %d' % (lst(a), k))
        lines.append('nerif %s %d' % (lst(a), rng.choice([1, 2, 3])))
    return lines


def c16_extra(tier, seed, lean):
    cfgs = [vlib.Config('Enn', 0, 3, '00000', std='c++17'), vlib.Config('Enn', 3, 1, '00000', std='c++20'), vlib.Config('Enn', 2, 2, '00000', std='c++11')]
    if tier == 'thorough':
        cfgs += [vlib.Config('Enn', 0, 0, '00000', std='c++20'), vlib.Config('Enn', 1, 5, '00000', std='c++14'), vlib.Config('Enn', 3, 1, '00000', std='c++20', cxx='clang++'),
                 vlib.Config('Enn', 0, 3, '00000', std='c++2b')]
    exes, errs = vlib.build_harnesses(cfgs)
    res = dict(corr=[], w=[], evaluations=0, cases=0, distinct=0, samples=[], info={})
    for k, e in errs.items():
        res['corr'].append(dict(why='harness does not compile for ' + k + ': ' + e[-500:], op='-', config=k, impl='', model='', case=[]))
    lines = c16_lines(tier, seed)
    if not lean['driver_ok']:
        res['corr'].append(dict(why='the Lean driver no longer builds', op='-', config='-', impl='', model='', case=[]))
        return res
    seen = set()
    for c in cfgs:
        if c.key() not in exes:
            continue
        rc, out = vlib.run([exes[c.key()]], inp='\n'.join(lines) + '\n', timeout=900, env=vlib.ASAN_ENV)
        hl = [l for l in out.split('\n') if l]
        ml, st = vlib.run_driver(c, lines)
        i = 0
        for j, line in enumerate(lines):
            if i >= len(hl):
                res['corr'].append(dict(why='harness output ended early (rc=%d)' % rc, op=line, config=c.key(), impl='', model='', case=[line]))
                break
            h = hl[i]
            i += 1
            ws = []
            while i < len(hl) and hl[i].startswith('W! '):
                ws.append(hl[i])
                i += 1
            m = ml[j] if j < len(ml) else '<missing>'
            hh, mm = h, m
            if ' c3=-' in h:
                hh = re.sub(r' c3=.*', '', h)
                mm = re.sub(r' c3=.*', '', m)
            res['evaluations'] += 1
            seen.add(hh)
            if hh != mm and len(res['corr']) < 10:
                res['corr'].append(dict(why='implementation and generated definition disagree', op=line, config=c.key(), impl=h, model=m, case=[line]))
            for w in ws:
                if len(res['w']) < 10:
                    res['w'].append(dict(msg=w[3:], op=line, config=c.key(), case=[line], impl=h))
            if len(res['samples']) < 2 and j in (7, len(lines) - 3):
                res['samples'].append(dict(config=c.key(), line=line, impl=h, model=m))
        res['cases'] += len(lines)
    res['distinct'] = len(seen)
    res['info'] = dict(c16_configs=[c.describe() for c in cfgs], c16_lines_per_config=len(lines), exhaustive_over='all pairs of sequences over {0,1,2} up to length %d' % (3 if tier == 'quick' else 4))
    return res


# --------------------------------------------------------------------------------------------------------------
# C19: layout table from the compilers
# --------------------------------------------------------------------------------------------------------------
import tables


def c19_pre(tier, seed):
    rows, err = tables.layout_table(tier)
    if err:
        return [dict(theorem='(table) layout', why='the layout table program does not compile against the header: ' + err[-800:])]
    tables.write_layout_lean(rows)
    return []


def c19_extra(tier, seed, lean):
    res = dict(corr=[], w=[], evaluations=0, cases=0, distinct=0, samples=[], info={})
    cxxs = ['clang++'] if tier == 'quick' else ['clang++', 'g++']
    first = None
    for cxx in cxxs:
        rows, err = tables.layout_table(tier, cxx)
        if err:
            res['corr'].append(dict(why='layout table (' + cxx + ') does not compile: ' + err[-500:], op='-', config=cxx, impl='', model='', case=[]))
            continue
        if first is None:
            first = rows
        elif rows != first:
            res['corr'].append(dict(why='g++ and clang++ disagree on the layout table', op='-', config=cxx, impl='', model='', case=[]))
        seen = set()
        for r in rows:
            s, a, w, k, ka, size0, d, sizeD, sizeD1, size1, alignD, aligned, icap, sdef = r
            res['evaluations'] += 1
            seen.add((w, k, a, sizeD, d))
            rowtxt = 'row=%d,%d,%d,%d,%d ' % (s, a, w, k, ka)
            opt = (sizeD <= 64 and sizeD1 > 64) or (d == 1 and size1 > 64)
            if not opt:
                cls = 'classA' if sizeD1 <= 64 else ('classB' if d > 1 and sizeD > 64 else 'unclassified')
                res['w'].append(dict(msg='C19 default inline capacity is not the largest that fits in 64 bytes [%s] %s: default %d -> sizeof %d, %d -> sizeof %d, 1 -> sizeof %d'
                                     % (cls, rowtxt, d, sizeD, d + 1, sizeD1, size1), op=rowtxt, config=cxx, case=[], impl=str(r)))
            if not aligned:
                res['w'].append(dict(msg='C19 inline buffer not aligned for the element type ' + rowtxt, op=rowtxt, config=cxx, case=[], impl=str(r)))
            if not icap:
                res['w'].append(dict(msg='C19 inline_capacity() does not report the template argument ' + rowtxt, op=rowtxt, config=cxx, case=[], impl=str(r)))
            if k == 0 and size0 != (8 + 2 * w + 7) // 8 * 8:
                res['w'].append(dict(msg='C19 empty container with a stateless allocator is not pointer + two size_types ' + rowtxt, op=rowtxt, config=cxx, case=[], impl=str(r)))
        res['cases'] += len(rows)
        res['distinct'] = max(res['distinct'], len(seen))
        if not res['samples']:
            res['samples'] = [dict(row=dict(s=r[0], a=r[1], w=r[2], k=r[3], ka=r[4], sizeof_empty=r[5], default_N=r[6], sizeof_default=r[7], sizeof_next=r[8])) for r in rows[5:7]]
    res['info'] = dict(c19_compilers=cxxs, c19_rows=res['cases'])
    return res


# --------------------------------------------------------------------------------------------------------------
# C18: noexcept table + exceptions from the caller's iterators must reach the caller (std::terminate trap)
# --------------------------------------------------------------------------------------------------------------
import gen_cases


def c18_pre(tier, seed):
    rows, err = tables.noexcept_table('c++17')
    if err:
        return [dict(theorem='(table) noexcept', why='the noexcept table program does not compile against the header: ' + err[-800:])]
    tables.write_noexcept_lean(rows)
    return []


def iterfault_run(tier):
    cfgs = [vlib.Config('Et', 3, 1, '00000'), vlib.Config('En', 0, 3, '00000')]
    if tier == 'thorough':
        cfgs += [vlib.Config('Enn', 1, 3, '00000'), vlib.Config('Tr', 3, 1, '00000'), vlib.Config('Ec', 2, 2, '00000')]
    return vlib.monitor_only(cfgs, lambda c: gen_cases.iter_fault_cases(c.N, c.M, tier), 'iterfault_' + tier)


def c18_extra(tier, seed, lean):
    res = dict(corr=[], w=[], evaluations=0, cases=0, distinct=0, samples=[], info={})
    stds = ['c++17', 'c++14'] if tier == 'quick' else ['c++11', 'c++14', 'c++17', 'c++20', 'c++2b']
    base = None
    for std in stds:
        for cxx in (['g++'] if tier == 'quick' else ['g++', 'clang++']):
            if cxx == 'clang++' and std == 'c++2b':
                continue
            rows, err = tables.noexcept_table(std, cxx)
            if err:
                res['corr'].append(dict(why='noexcept table (%s %s) does not compile: %s' % (cxx, std, err[-400:]), op='-', config=cxx + std, impl='', model='', case=[]))
                continue
            res['evaluations'] += len(rows) * 15
            res['cases'] += len(rows)
            if base is None:
                base = rows
            elif rows != base:
                res['w'].append(dict(msg='C18 noexcept values differ between builds (%s %s vs g++ c++17)' % (cxx, std), op='-', config=cxx + std, case=[], impl=''))
    if base:
        res['distinct'] = len(set(r[9:] for r in base))
        res['samples'] = [dict(row=dict(zip(['nothrow_move_ctor', 'nothrow_move_assign', 'nothrow_swap', 'N', 'std_allocator', 'pocma', 'pocs', 'always_equal', 'alloc_default_noexcept'], r[:9])),
                               values=dict(zip(tables.NOEXCEPT_EXPRS, r[9:]))) for r in base[7:8]]
    mon = iterfault_run(tier)
    res['evaluations'] += mon['lines']
    res['cases'] += mon['cases']
    res['distinct'] += mon['distinct']
    for c in mon['crashes']:
        if c['kind'] == 'terminate':
            res['w'].append(dict(msg='C18 std::terminate was called although the exception came from the caller\'s iterator in a non-noexcept operation',
                                 op=c['case'][-1] if c['case'] else '-', config=c['config'], case=c['case'], impl='TERMINATE'))
        else:
            res['w'].append(dict(msg='C18 the implementation crashed (%s) when the caller\'s iterator threw: %s' % (c['kind'], c['detail'][-300:]),
                                 op=c['case'][-1] if c['case'] else '-', config=c['config'], case=c['case'], impl=''))
    for k, e in mon['build_errors'].items():
        res['corr'].append(dict(why='harness does not compile for ' + k, op='-', config=k, impl='', model='', case=[]))
    res['samples'] += mon['samples'][:1]
    res['info'] = dict(noexcept_table_builds=stds, iterator_fault_cases=mon['cases'], iterator_fault_monitor_messages=mon['wcount'])
    return res


def c06_extra(tier, seed, lean):
    """basic guarantee when the caller's iterators throw (monitor only; the model has no iterator faults)"""
    res = dict(corr=[], w=[], evaluations=0, cases=0, distinct=0, samples=[], info={})
    mon = iterfault_run(tier)
    res['evaluations'] = mon['lines']; res['cases'] = mon['cases']; res['distinct'] = mon['distinct']
    for p in ('C06', 'C02', 'C03', 'C04'):
        for w in mon['w'].get(p, []):
            res['w'].append(dict(w, msg='C06 (iterator threw) ' + w['msg'][4:]))
    for c in mon['crashes']:
        res['w'].append(dict(msg='C06 the implementation %s when the caller\'s iterator threw' % ('called std::terminate' if c['kind'] == 'terminate' else 'crashed: ' + c['detail'][-300:]),
                             op=c['case'][-1] if c['case'] else '-', config=c['config'], case=c['case'], impl=''))
    res['info'] = dict(iterator_fault_cases=mon['cases'])
    return res


# --------------------------------------------------------------------------------------------------------------
# C17: the same histories under every standard / compiler / GCH_DISABLE_CONCEPTS against the one model
# --------------------------------------------------------------------------------------------------------------
SELFTEST = r'''
#include <type_traits>
#include <cstdio>
int main () {
#if defined(__cpp_lib_is_constant_evaluated)
  volatile int x = 1;
  if (std::is_constant_evaluated ()) { std::puts ("BROKEN: is_constant_evaluated() is true at run time"); return 1; }
  (void) x;
#endif
  std::puts ("ok"); return 0; }
'''


def toolchain_ok(cxx, std):
    d = os.path.join(vlib.CACHE, 'selftest')
    os.makedirs(d, exist_ok=True)
    src = os.path.join(d, 'st.cpp')
    exe = os.path.join(d, 'st_%s_%s' % (cxx.replace('+', 'p'), std.replace('+', 'p')))
    open(src, 'w').write(SELFTEST)
    rc, out = vlib.run([cxx, '-std=' + std, '-O1', src, '-o', exe], timeout=120)
    if rc != 0:
        return False, 'self-test does not compile: ' + out[-200:]
    rc, out = vlib.run([exe], timeout=20)
    return (rc == 0), out.strip()[-200:]


def c17_cases(c, tier, seed):
    import itertools
    step = 7 if tier == 'quick' else 2
    for i, case in enumerate(gen_cases.enum_single(c.N, c.M, 'quick')):
        # every k-th case, and EVERY case (all start states, all fault indices) of the operations whose body has a
        # standard-dependent preprocessor arm that is live at run time (shrink_to_size)
        if i % step == 0 or case['cls'] in ('stf',):
            yield case
    yield from itertools.islice(gen_cases.pair_cases(c.N, c.M, 'quick', (0, 0)), 0, None, 5 if tier == 'quick' else 2)
    yield from gen_cases.ctor_cases(c.N, c.M, 'quick')
    yield from gen_cases.random_histories(c.N, c.M, seed * 7919 + 13, 40 if tier == 'quick' else 400)


def c17_extra(tier, seed, lean):
    res = dict(corr=[], w=[], evaluations=0, cases=0, distinct=0, samples=[], info={})
    builds = [('g++', 'c++11', ()), ('g++', 'c++14', ()), ('g++', 'c++20', ()), ('clang++', 'c++17', ()), ('g++', 'c++2b', ()), ('g++', 'c++20', ('-DGCH_DISABLE_CONCEPTS',))]
    if tier == 'thorough':
        builds += [('clang++', 'c++11', ()), ('clang++', 'c++14', ()), ('clang++', 'c++20', ()), ('clang++', 'c++2b', ()), ('clang++', 'c++20', ('-DGCH_DISABLE_CONCEPTS',))]
    shapes = [('Et', 3, 1, '00000'), ('En', 0, 3, '01010')] if tier == 'quick' else [('Et', 3, 1, '00000'), ('En', 0, 3, '01010'), ('Tr', 1, 3, '00000'), ('Enn', 3, 3, '10110')]
    cfgs, excluded = [], []
    for cxx, std, extra in builds:
        ok, why = toolchain_ok(cxx, std)
        if not ok:
            excluded.append(dict(compiler=cxx, std=std, reason='toolchain self-test failed (header-independent): ' + why))
            continue
        for fl, N, M, ab in shapes:
            cfgs.append(vlib.Config(fl, N, M, ab, std=std, cxx=cxx, extra=extra))
    if not lean['driver_ok']:
        res['corr'].append(dict(why='the Lean driver no longer builds', op='-', config='-', impl='', model='', case=[]))
        return res
    core = vlib.differential(tier, seed, cfgs=cfgs, case_fn=c17_cases, label='c17')
    for k, lst in core['dis'].items():
        ch = k.split('|')[0]
        if ch in ('val', 'shape', 'exc', 'ledger', 'life'):
            for d in lst:
                res['corr'].append(dict(d, channel=ch, why='a build under another standard/compiler disagrees with the model (and hence with the other builds) on channel ' + ch))
    # ANY monitor of the real code that fires in one of these builds is a C17 violation with a concrete input: the unchanged
    # code violates none of them under the baseline standard, so the build under this standard behaves differently
    for prop, lst in core['w'].items():
        for wv in lst:
            res['w'].append(wv if prop == 'C17' else dict(wv, msg='C17 under %s the implementation violates a property it keeps under the other standards — %s' % (wv.get('config', '?'), wv['msg'])))
    for c in core['crashes']:
        res['w'].append(dict(msg='C17 the implementation %s in build %s' % ('called std::terminate' if c['kind'] == 'terminate' else 'crashed (' + c['kind'] + ')', c['config']),
                             op=c['case'][-1] if c['case'] else '-', config=c['config'], case=c['case'], impl=''))
    for k, e in core.get('build_errors', {}).items():
        res['corr'].append(dict(why='harness does not compile for ' + k + ': ' + e[-500:], op='-', config=k, impl='', model='', case=[]))
    res['evaluations'] = core['lines']; res['cases'] = core['cases']; res['distinct'] = core['distinct']; res['samples'] = core['samples'][:2]
    res['info'] = dict(c17_builds=[dict(compiler=a, std=b, extra=list(c)) for a, b, c in builds], c17_excluded_by_toolchain_gate=excluded,
                       c17_configs=len(cfgs), c17_disagreements=core['discount'])
    # the noexcept contract (a compile-time observable of every program) must not depend on the standard either; the
    # property lets only the is_always_equal-based noexcept vary (rows of always-equal, non-std allocators)
    tstds = [('g++', 'c++11'), ('g++', 'c++14'), ('g++', 'c++17'), ('g++', 'c++20')] if tier == 'quick' else \
        [('g++', 'c++11'), ('g++', 'c++14'), ('g++', 'c++17'), ('g++', 'c++20'), ('g++', 'c++2b'), ('clang++', 'c++11'), ('clang++', 'c++14'), ('clang++', 'c++17'), ('clang++', 'c++20')]
    base = None
    for cxx, std in tstds:
        ok, why = toolchain_ok(cxx, std)
        if not ok:
            continue
        rows, err = tables.noexcept_table(std, cxx)
        if err:
            res['corr'].append(dict(why='noexcept table (%s %s) does not compile: %s' % (cxx, std, err[-400:]), op='-', config=cxx + std, impl='', model='', case=[]))
            continue
        res['evaluations'] += len(rows) * len(tables.NOEXCEPT_EXPRS)
        if base is None:
            base = (rows, cxx, std)
            continue
        for r0, r1 in zip(base[0], rows):
            if r0 != r1:
                ae_row = bool(r0[7]) and not bool(r0[4])       # always-equal, not std::allocator
                diff = [tables.NOEXCEPT_EXPRS[i] for i in range(len(tables.NOEXCEPT_EXPRS)) if r0[9 + i] != r1[9 + i]]
                if ae_row:
                    res['info'].setdefault('c17_is_always_equal_based_noexcept_differs', []).append(dict(build='%s %s' % (cxx, std), row=list(r0[:9]), exprs=diff))
                    continue
                res['w'].append(dict(msg='C17 noexcept (%s) of small_vector<T, %d, A> with nothrow move ctor/assign/swap = %d/%d/%d, allocator (std=%d pocma=%d pocs=%d ae=%d) is %s under %s %s but %s under %s %s'
                                     % (', '.join(diff), r0[3], r0[0], r0[1], r0[2], r0[4], r0[5], r0[6], r0[7],
                                        [r0[9 + tables.NOEXCEPT_EXPRS.index(d)] for d in diff], base[1], base[2], [r1[9 + tables.NOEXCEPT_EXPRS.index(d)] for d in diff], cxx, std),
                                     op='noexcept table', config='%s %s' % (cxx, std), case=[], impl=''))
                break
    return res


# --------------------------------------------------------------------------------------------------------------
# C13: conversion monitor and requirement probes on the real header
# --------------------------------------------------------------------------------------------------------------
def c13_pre(tier, seed):
    rows, err = tables.memcpy_table('c++17', 'g++')
    if err:
        return [dict(theorem='(table) memcpy eligibility', why='the memcpy-eligibility table program does not compile against the header: ' + err[-800:])]
    tables.write_memcpy_lean(rows, 'g++ -std=c++17')
    return []


def c13_tables(tier, res):
    """the header's memcpy verdicts must not depend on the standard / compiler (value and pointer pairs), and must be
    sound under each of them: a pair deemed memcpy-able whose static_cast changed a sampled representation is a
    concrete failing input"""
    builds = [('g++', 'c++17'), ('g++', 'c++20')] if tier == 'quick' else [('g++', 'c++11'), ('g++', 'c++14'), ('g++', 'c++17'), ('g++', 'c++20'), ('g++', 'c++2b'), ('clang++', 'c++17'), ('clang++', 'c++20')]
    base = None
    n = 0
    for cxx, std in builds:
        rows, err = tables.memcpy_table(std, cxx)
        if err:
            res['corr'].append(dict(why='memcpy-eligibility table (%s %s) does not compile: %s' % (cxx, std, err[-400:]), op='-', config=cxx + std, impl='', model='', case=[]))
            continue
        for names, parts in rows['V']:
            n += 1
            sel = any(parts[2])
            if sel and not parts[3][0]:
                res['w'].append(dict(msg='C13 %s -> %s is copied with memcpy/memmove (is_memcpyable / is_uninitialized_memcpyable) but static_cast<%s> changes the object representation of some source values (%s %s)'
                                     % (names[0], names[1], names[1], cxx, std), op='memcpy table', config=cxx + std, case=[], impl=''))
        for names, parts in rows['P']:
            n += 1
            if any(parts[1]) and (not parts[0][0] or parts[0][1] != 0):
                res['w'].append(dict(msg='C13 %s* -> %s* is copied with memcpy although the conversion adjusts the address by %d (%s %s)' % (names[0], names[1], parts[0][1], cxx, std),
                                     op='memcpy table', config=cxx + std, case=[], impl=''))
        for names, parts in rows.get('K', []):
            n += 1
            cats = ('a prvalue', 'a non-const lvalue', 'a const lvalue')
            for i in range(6):
                if parts[0][i] and not parts[1][i]:
                    res['w'].append(dict(msg='C13 %s: %s from %s is done with memcpy, but the %s the language selects for that argument does not leave the source\'s bytes (%s %s)'
                                         % (names[0], 'construction' if i < 3 else 'assignment', cats[i % 3], 'constructor' if i < 3 else 'assignment operator', cxx, std),
                                         op='memcpy table (class types)', config=cxx + std, case=[], impl=''))
        for names, parts in rows['I']:
            n += 1
            if parts[0][0] and not parts[0][1]:
                res['w'].append(dict(msg='C13 iterator %s is classified contiguous for %s but does not address contiguous storage (%s %s)' % (names[1], names[0], cxx, std),
                                     op='memcpy table', config=cxx + std, case=[], impl=''))
        key = (rows['V'], rows['P'], rows.get('K', []))
        if base is None:
            base = (key, cxx, std)
        elif key != base[0]:
            res['corr'].append(dict(why='the memcpy-eligibility verdicts differ between %s %s and %s %s' % (base[1], base[2], cxx, std), op='-', config=cxx + std, impl='', model='', case=[]))
    res['evaluations'] += n
    res['info']['c13_memcpy_table_rows'] = n


def c13_extra(tier, seed, lean):
    res = dict(corr=[], w=[], evaluations=0, cases=0, distinct=0, samples=[], info={})
    c13_tables(tier, res)
    d = os.path.join(vlib.CACHE, 'c13', vlib.sha(vlib.repo_fingerprint(), vlib.file_sha(glob.glob(os.path.join(vlib.VERIF, 'harness', '*.cpp')) + glob.glob(os.path.join(vlib.VERIF, 'harness', 'probes', '*.cpp'))))[:16])
    os.makedirs(d, exist_ok=True)
    builds = [('g++', 'c++17'), ('g++', 'c++20')] if tier == 'quick' else [('g++', 'c++11'), ('g++', 'c++14'), ('g++', 'c++17'), ('g++', 'c++20'), ('g++', 'c++2b'), ('clang++', 'c++17'), ('clang++', 'c++20')]
    inc = '-I' + os.path.join(vlib.REPO, 'source/include')
    checks = {}
    for cxx, std in builds:
        key = cxx.replace('+', 'p') + '_' + std.replace('+', 'p')
        exe = os.path.join(d, 'convert_' + key)
        if not os.path.exists(exe):
            rc, out = vlib.run([cxx, '-std=' + std, '-O1', '-g', '-fsanitize=address,undefined', '-fno-sanitize-recover=all', inc, os.path.join(vlib.VERIF, 'harness', 'convert.cpp'), '-o', exe], timeout=900)
            if rc != 0:
                first = [l for l in out.split('\n') if 'error' in l][:2]
                res['w'].append(dict(msg='C13 a converting range/value that std::vector accepts is rejected by the header (%s %s): %s' % (cxx, std, ' | '.join(first)[:500]),
                                     op='harness/convert.cpp', config=key, case=[], impl=''))
                continue
        rc, out = vlib.run([exe], timeout=300, env=vlib.ASAN_ENV)
        for l in out.split('\n'):
            if l.startswith('W! '):
                res['w'].append(dict(msg=l[3:] + ' (%s %s)' % (cxx, std), op='harness/convert.cpp', config=key, case=[], impl=''))
            m = re.match(r'done (\d+)', l)
            if m:
                checks[key] = int(m.group(1))
                res['evaluations'] += int(m.group(1))
        if rc != 0 and key not in checks:
            res['w'].append(dict(msg='C13 the conversion monitor crashed (%s %s): %s' % (cxx, std, out[-400:]), op='harness/convert.cpp', config=key, case=[], impl=''))
        # requirement probes
        for pth in sorted(glob.glob(os.path.join(vlib.VERIF, 'harness', 'probes', '*.cpp'))):
            name = os.path.basename(pth)[:-4]
            pexe = os.path.join(d, 'probe_%s_%s' % (name, key))
            res['cases'] += 1
            if not os.path.exists(pexe):
                rc, out = vlib.run([cxx, '-std=' + std, '-O0', inc, pth, '-o', pexe], timeout=600)
                if rc != 0:
                    first = [l for l in out.split('\n') if 'error' in l][:1]
                    res['w'].append(dict(msg='C13 requirement probe %s does not compile (%s %s): the fast path adds a requirement the generic path does not have: %s'
                                         % (name, cxx, std, ' '.join(first)[:300]), op=name, config=key, case=[], impl=''))
                    continue
            rc, out = vlib.run([pexe], timeout=60)
            if rc != 0:
                res['w'].append(dict(msg='C13 requirement probe %s gives a wrong result (%s %s)' % (name, cxx, std), op=name, config=key, case=[], impl=''))
    res['distinct'] = len(checks) + res['cases']
    res['samples'] = [dict(conversion_checks_per_build=checks)]
    res['info'].update(c13_builds=['%s %s' % b for b in builds], c13_conversion_checks=checks)
    # prune old dirs
    root = os.path.join(vlib.CACHE, 'c13')
    ds = sorted((os.path.getmtime(os.path.join(root, x)), x) for x in os.listdir(root))
    for _, x in ds[:-2]:
        import shutil
        shutil.rmtree(os.path.join(root, x), ignore_errors=True)
    return res


# --------------------------------------------------------------------------------------------------------------
# C12: narrow size_type allocators at and beyond max_size()
# --------------------------------------------------------------------------------------------------------------
def c12_run(tier, seed):
    cfgs = [vlib.Config('Et', 3, 1, '00000', st='std::uint8_t'), vlib.Config('Tr', 0, 3, '00000', st='std::uint8_t'),
            vlib.Config('En', 2, 2, '00000', st='std::uint8_t', ndebug=False)]
    if tier == 'thorough':
        cfgs += [vlib.Config('Enn', 1, 3, '01010', st='std::uint8_t')]
    return vlib.differential(tier, seed, cfgs=cfgs, case_fn=lambda c, t, sd: gen_cases.narrow_cases(c.N, c.M, c.max_size(), t), label='c12')


def c12_extra(tier, seed, lean):
    res = dict(corr=[], w=[], evaluations=0, cases=0, distinct=0, samples=[], info={})
    if not lean['driver_ok']:
        res['corr'].append(dict(why='the Lean driver no longer builds', op='-', config='-', impl='', model='', case=[]))
        return res
    core = c12_run(tier, seed)
    for k, lst in core['dis'].items():
        ch = k.split('|')[0]
        if ch in ('val', 'shape', 'exc', 'ledger'):
            for d in lst:
                res['corr'].append(dict(d, channel=ch, why='narrow size_type: implementation and model disagree on channel ' + ch))
    if tier == 'thorough':
        # a 16-bit size_type: harness only (monitors and sanitizers), a handful of calls at the limit
        c16 = vlib.Config('Tr', 3, 1, '00000', st='std::uint16_t')
        mon = vlib.monitor_only([c16], lambda c: gen_cases.narrow_big_cases(c.N, c.M, c.max_size()), 'c12u16')
        for q in ('C12', 'C02', 'C04'):
            for w in mon['w'].get(q, []):
                res['w'].append(dict(w, msg='C12 (16-bit size_type) ' + (w['msg'][4:] if q != 'C12' else w['msg'])))
        for c in mon['crashes']:
            res['w'].append(dict(msg='C12 the implementation %s with a 16-bit size_type: %s' % ('called std::terminate' if c['kind'] == 'terminate' else 'crashed (' + c['kind'] + ')', c['detail'][-400:].replace('\n', ' ')),
                                 op=c['case'][-1][:80] if c['case'] else '-', config=c['config'], case=[l[:200] for l in c['case']], impl=''))
        res['evaluations'] += mon['lines']
    res['w'] += core['w'].get('C12', [])
    for p in ('C02', 'C04'):
        for w in core['w'].get(p, []):
            res['w'].append(dict(w, msg='C12 (narrow size_type) ' + w['msg'][4:]))
    for c in core['crashes']:
        res['w'].append(dict(msg='C12 the implementation %s with a narrow size_type: %s' % ('called std::terminate' if c['kind'] == 'terminate' else 'crashed (' + c['kind'] + ')', c['detail'][-400:].replace('\n', ' ')),
                             op=c['case'][-1][:80] if c['case'] else '-', config=c['config'], case=c['case'], impl=''))
    for k, e in core.get('build_errors', {}).items():
        res['corr'].append(dict(why='harness does not compile for ' + k + ': ' + e[-500:], op='-', config=k, impl='', model='', case=[]))
    if core['stats'].get('bad_op'):
        smp = (core.get('bad_op_samples') or [{}])[0]
        res['corr'].append(dict(why='generator defect: %d generated lines are not understood (e.g. %r)' % (core['stats']['bad_op'], smp.get('line')), op=smp.get('line', '-'), config=smp.get('config', '-'), impl='', model='', case=[]))
    res['evaluations'] = core['lines']; res['cases'] = core['cases']; res['distinct'] = core['distinct']
    res['samples'] = [dict(config=x['config'], case=[l[:120] for l in x['case']], impl=x['impl'][:300], model=x['model'][:300]) for x in core['samples'][:2]]
    res['info'] = dict(c12_configs=core['configs'], c12_stats={k: v for k, v in core['stats'].items() if k.startswith('throws')})
    # max_size () over the widths of size_type x element sizes x allocator limits (harness/maxsize.cpp: the differential
    # harness has one element size, for which the allocator's own limit always dominates the difference_type cap)
    src = os.path.join(vlib.VERIF, 'harness', 'maxsize.cpp')
    d = os.path.join(vlib.CACHE, 'c12m', vlib.sha(vlib.repo_fingerprint(), vlib.file_sha([src]))[:16])
    os.makedirs(d, exist_ok=True)
    builds = [('g++', 'c++17')] if tier == 'quick' else [('g++', 'c++11'), ('g++', 'c++17'), ('g++', 'c++20'), ('clang++', 'c++17')]
    probes = {}
    for cxx, std in builds:
        if not toolchain_ok(cxx, std)[0]:
            continue
        key = cxx.replace('+', 'p') + '_' + std.replace('+', 'p')
        exe = os.path.join(d, 'maxsize_' + key)
        if not os.path.exists(exe):
            rc, out = vlib.run([cxx, '-std=' + std, '-O1', '-g', '-fsanitize=address,undefined', '-fno-sanitize-recover=all',
                                '-I' + os.path.join(vlib.REPO, 'source/include'), src, '-o', exe], timeout=900)
            if rc != 0:
                first = [l for l in out.split('\n') if 'error' in l][:2]
                res['corr'].append(dict(why='harness/maxsize.cpp does not compile (%s %s): %s' % (cxx, std, ' | '.join(first)[:400]), op='-', config=key, impl='', model='', case=[]))
                continue
        rc, out = vlib.run([exe], timeout=300, env=vlib.ASAN_ENV)
        for l in out.split('\n'):
            if l.startswith('W! '):
                res['w'].append(dict(msg=l[3:] + ' (%s %s)' % (cxx, std), op='harness/maxsize.cpp', config=key, case=[], impl=''))
            m = re.match(r'done (\d+)', l)
            if m:
                probes[key] = int(m.group(1))
                res['evaluations'] += int(m.group(1))
        if rc != 0 and key not in probes:
            res['w'].append(dict(msg='C12 the max_size probe crashed (%s %s): %s' % (cxx, std, out[-400:]), op='harness/maxsize.cpp', config=key, case=[], impl=''))
    res['info'].update(c12_max_size_probes=probes)
    return res


def c14_extra(tier, seed, lean):
    """growth near max_size (): the narrow-size_type runs of C12 reach the saturating branch of the growth function, which the
    std::size_t configurations of the shared run never do; the harness growth monitor (>= required, >= 1.5x or max_size ())
    watches every reallocating line of them"""
    res = dict(corr=[], w=[], evaluations=0, cases=0, distinct=0, samples=[], info={})
    if not lean['driver_ok']:
        return res
    core = c12_run(tier, seed)
    res['w'] += core['w'].get('C14', [])
    for k, lst in core['dis'].items():
        ch = k.split('|')[0]
        if ch == 'shape':
            for d in lst:
                if (' A' in d['impl'] or ' A' in d['model']) and ' @' not in d['op']:
                    res['corr'].append(dict(d, channel=ch, why='narrow size_type: capacities after a reallocation differ between implementation and model'))
    res['evaluations'] = core['stats'].get('reallocating_lines', 0)
    res['info'] = dict(c14_narrow_size_type_configs=core['configs'], c14_reallocating_lines_near_max_size=core['stats'].get('reallocating_lines', 0))
    return res


# --------------------------------------------------------------------------------------------------------------
# C20: gdb with the shipped printer; class shape + visualiser paths for the Lean theorems
# --------------------------------------------------------------------------------------------------------------
def c20_pre(tier, seed):
    r, err = tables.gdb_run()
    if err:
        return [dict(theorem='(table) class shape', why=err[-800:])]
    if not r['shapes']:
        return [dict(theorem='(table) class shape', why='gdb produced no class shapes: ' + r['raw'][-600:])]
    tables.write_shape_lean(r['shapes'], tables.printer_paths())
    return []


def c20_extra(tier, seed, lean):
    res = dict(corr=[], w=[], evaluations=0, cases=0, distinct=0, samples=[], info={})
    builds = [('g++', 'c++17')] if tier == 'quick' else [('g++', 'c++11'), ('g++', 'c++17'), ('g++', 'c++20'), ('clang++', 'c++17')]
    for cxx, std in builds:
        r, err = tables.gdb_run(std, cxx)
        if err:
            res['corr'].append(dict(why=err[-500:], op='-', config=cxx + std, impl='', model='', case=[]))
            continue
        if not r['expect']:
            res['corr'].append(dict(why='the gdb run produced no output: ' + r['raw'][-400:], op='-', config=cxx + std, impl='', model='', case=[]))
        for n, want in sorted(r['expect'].items()):
            got = r['got'].get(n, '<nothing printed>')
            res['evaluations'] += 1
            if got != want:
                res['w'].append(dict(msg='C20 the shipped gdb printer shows "%s" for %s but size()/capacity()/iteration report "%s" (%s %s)' % (got[:200], n, want[:200], cxx, std),
                                     op=n, config=cxx + std, case=[], impl=got[:300]))
        res['cases'] += len(r['expect'])
        res['distinct'] = max(res['distinct'], len(set(r['expect'].values())))
        if not res['samples']:
            res['samples'] = [dict(object=n, program_reports=r['expect'][n], gdb_printer_shows=r['got'].get(n)) for n in ('s_heap', 'z_empty', 'it_p') if n in r['expect']]
    res['info'] = dict(c20_builds=['%s %s' % b for b in builds], visualiser_paths=tables.printer_paths())
    return res


# --------------------------------------------------------------------------------------------------------------
# C08: generated constexpr programs: compile-time value = run-time value = model digest
# --------------------------------------------------------------------------------------------------------------
import c08


def c08_extra(tier, seed, lean):
    res = dict(corr=[], w=[], evaluations=0, cases=0, distinct=0, samples=[], info={})
    if not lean['driver_ok']:
        res['corr'].append(dict(why='the Lean driver no longer builds', op='-', config='-', impl='', model='', case=[]))
        return res
    nprog = 24 if tier == 'quick' else 400
    steps = 12 if tier == 'quick' else 16
    builds = [('g++', 'c++20'), ('clang++', 'c++20')] if tier == 'quick' else [('g++', 'c++20'), ('g++', 'c++2b'), ('clang++', 'c++20')]
    shapes = [(2, 3), (0, 4)] if tier == 'quick' else [(2, 3), (0, 4), (3, 1), (1, 1)]
    d = os.path.join(vlib.CACHE, 'c08', vlib.sha(vlib.repo_fingerprint(), open(os.path.join(vlib.VERIF, 'tools', 'c08.py')).read(), tier, seed)[:16])
    os.makedirs(d, exist_ok=True)
    cache = os.path.join(d, 'result.json')
    if os.path.exists(cache):
        return json.load(open(cache))
    excluded = []
    jobs = []
    rng = random.Random(seed * 1000003 + 8)
    import concurrent.futures as cf
    for (N, M) in shapes:
        progs = [c08.gen_program(rng, N, M, steps) for _ in range(nprog // len(shapes))]
        if (N, M) == shapes[0] or tier == 'thorough':
            progs += c08.directed_programs(N, M)
        digests = []
        for ops in progs:
            h, err = c08.model_digest(ops, N, M)
            digests.append((h, err))
        for cxx, std in builds:
            ok, why = toolchain_ok(cxx, std)
            if not ok:
                excluded.append(dict(compiler=cxx, std=std, reason=why))
                continue
            # batches of 6 programs per TU
            for bi in range(0, len(progs), 6):
                jobs.append((N, M, cxx, std, bi, progs[bi:bi + 6], digests[bi:bi + 6]))
    def run_job(j):
        N, M, cxx, std, bi, progs, digests = j
        tag = 'N%d_M%d_%s_%s_%d' % (N, M, cxx.replace('+', 'p'), std.replace('+', 'p'), bi)
        return j, c08.build_and_run(progs, N, M, cxx, std, d, tag)
    seen = set()
    with cf.ThreadPoolExecutor(max_workers=vlib.NCPU) as ex:
        for j, (out, err) in ex.map(run_job, jobs):
            N, M, cxx, std, bi, progs, digests = j
            cfgname = '%s %s N=%d M=%d' % (cxx, std, N, M)
            if err:
                first = [l for l in err.split('\n') if 'error' in l][:2]
                res['w'].append(dict(msg='C08 a sequence of small_vector operations is not a constant expression (%s): %s' % (cfgname, ' | '.join(first)[:400]),
                                     op='programs %d..%d' % (bi, bi + len(progs) - 1), config=cfgname, case=[' '.join(str(x) for x in op) for op in progs[0]], impl=''))
                continue
            for i, ops in enumerate(progs):
                res['evaluations'] += 1
                h, merr = digests[i]
                got = out.get(i)
                case = [' '.join(str(x) for x in op) for op in ops]
                seen.add(tuple(case))
                if got is None:
                    res['corr'].append(dict(why='program %d produced no output' % (bi + i), op='-', config=cfgname, impl='', model='', case=case))
                    continue
                ct_i, rt_i, ct_l, rt_l = got
                if ct_i != rt_i or ct_l != rt_l:
                    res['w'].append(dict(msg='C08 constant evaluation and run time disagree (%s): int %d vs %d, literal class %d vs %d' % (cfgname, ct_i, rt_i, ct_l, rt_l),
                                         op='program %d' % (bi + i), config=cfgname, case=case, impl=''))
                elif merr or h != rt_i or h != rt_l:
                    res['corr'].append(dict(why='the model digest differs from the program\'s (%s): model %s, program %d / %d' % (cfgname, h if not merr else merr, rt_i, rt_l),
                                            op='program %d' % (bi + i), config=cfgname, impl=str(got), model=str(h), case=case))
                if len(res['samples']) < 2:
                    res['samples'].append(dict(config=cfgname, ops=case, compile_time_digest=ct_i, run_time_digest=rt_i, model_digest=h))
    res['cases'] = len(seen)
    res['distinct'] = len(seen)
    res['info'] = dict(c08_builds=['%s %s' % b for b in builds], c08_excluded_by_toolchain_gate=excluded, c08_programs=len(seen), c08_steps_per_program=steps, c08_shapes=shapes)
    json.dump(res, open(cache, 'w'))
    root = os.path.join(vlib.CACHE, 'c08')
    ds = sorted((os.path.getmtime(os.path.join(root, x)), x) for x in os.listdir(root) if os.path.isdir(os.path.join(root, x)))
    import shutil
    for _, x in ds[:-2]:
        shutil.rmtree(os.path.join(root, x), ignore_errors=True)
    return res


def c01_extra(tier, seed, lean):
    """the thin public wrappers (initializer_list overloads, generator constructor, emplace with arguments, front/back/at,
    cross-capacity constructors / assign / append, operator= (il)) against std::vector: harness/wrappers.cpp, monitor only"""
    res = dict(corr=[], w=[], evaluations=0, cases=0, distinct=0, samples=[], info={})
    src = os.path.join(vlib.VERIF, 'harness', 'wrappers.cpp')
    d = os.path.join(vlib.CACHE, 'c01w', vlib.sha(vlib.repo_fingerprint(), vlib.file_sha([src]))[:16])
    os.makedirs(d, exist_ok=True)
    builds = [('g++', 'c++17')] if tier == 'quick' else [('g++', 'c++11'), ('g++', 'c++14'), ('g++', 'c++17'), ('g++', 'c++20'), ('clang++', 'c++17')]
    inc = '-I' + os.path.join(vlib.REPO, 'source/include')
    checks = {}
    for cxx, std in builds:
        if not toolchain_ok(cxx, std)[0]:
            continue
        key = cxx.replace('+', 'p') + '_' + std.replace('+', 'p')
        exe = os.path.join(d, 'wrappers_' + key)
        if not os.path.exists(exe):
            rc, out = vlib.run([cxx, '-std=' + std, '-O1', '-g', '-fsanitize=address,undefined', '-fno-sanitize-recover=all', inc, src, '-o', exe], timeout=900)
            if rc != 0:
                first = [l for l in out.split('\n') if 'error' in l][:2]
                res['w'].append(dict(msg='C01 a call that std::vector accepts no longer compiles (%s %s): %s' % (cxx, std, ' | '.join(first)[:500]),
                                     op='harness/wrappers.cpp', config=key, case=[], impl=''))
                continue
        rc, out = vlib.run([exe], timeout=300, env=vlib.ASAN_ENV)
        for l in out.split('\n'):
            if l.startswith('W! '):
                res['w'].append(dict(msg=l[3:] + ' (%s %s)' % (cxx, std), op='harness/wrappers.cpp', config=key, case=[], impl=''))
            m = re.match(r'done (\d+)', l)
            if m:
                checks[key] = int(m.group(1))
                res['evaluations'] += int(m.group(1))
        if rc != 0 and key not in checks:
            res['w'].append(dict(msg='C01 the wrapper monitor crashed (%s %s): %s' % (cxx, std, out[-400:]), op='harness/wrappers.cpp', config=key, case=[], impl=''))
    res['cases'] = len(checks)
    res['info'].update(c01_wrapper_checks=checks)
    # statistics (no verdict): how many of the protocol lines the correspondence compares are instances of what the history
    # theorems are about — svcover evaluates Bridge.toMOp and the DECIDABLE precondition MOp.valid on the states reached
    try:
        with vlib.Lock('lean'):
            rc, out = vlib.lake_build(['svcover'])
        cover = os.path.join(vlib.LEAN, '.lake', 'build', 'bin', 'svcover')
        if rc == 0 and os.path.exists(cover):
            tot = dict(valid=0, bridged=0, covered=0, lines=0)
            for cfg in (vlib.Config('Et', 3, 1, '00000'), vlib.Config('En', 1, 3, '01000'), vlib.Config('Et', 1, 3, '00010')):
                lines = []
                for i, c in enumerate(vlib.cases_for(cfg, 'quick', seed)):
                    if i % (23 if tier == 'quick' else 5):
                        continue
                    lines.append('reset')
                    lines += c['lines']
                rc2, o = vlib.run([cover] + cfg.driver_args(), inp='\n'.join(lines) + '\n', timeout=600)
                m = re.search(r'valid=(\d+) bridged=(\d+) covered=(\d+)', o)
                if m:
                    tot['valid'] += int(m.group(1)); tot['bridged'] += int(m.group(2)); tot['covered'] += int(m.group(3)); tot['lines'] += len(lines)
            res['info'].update(history_theorem_coverage_of_protocol_lines=dict(
                sampled_lines=tot['lines'], valid_calls=tot['valid'], with_counterpart_in_history_language=tot['bridged'],
                satisfying_its_precondition_in_the_state_reached=tot['covered'],
                note='Bridge.toMOp / MOp.valid evaluated by svcover on every k-th generated case of three configurations; the remaining valid calls are the single-pass insert in the MIDDLE of the sequence (its iterator protocol is a theorem, C15; its contents are not) and insert of an empty range'))
        else:
            res['info'].update(history_theorem_coverage_error=out[-300:])
    except Exception as e:
        res['info'].update(history_theorem_coverage_error=str(e)[:200])
    if tier == 'thorough':
        # measurement of the tie itself (not a verdict): which lines / function bodies of the header the correspondence
        # programs execute; cached per header + harness fingerprint
        covp = os.path.join(d, 'header_coverage.json')
        if not os.path.exists(covp):
            vlib.run([sys.executable, os.path.join(vlib.VERIF, 'tools', 'coverage.py'), '--every', '3', '--out', covp], timeout=3000)
        try:
            cv = json.load(open(covp))
            res['info'].update(header_lines_instantiated_by_tie_programs=cv['instantiated_code_lines'], header_lines_executed=cv['executed_code_lines'],
                               function_bodies_known=cv['bodies_total'], function_bodies_executed=cv['bodies_executed'],
                               function_bodies_instantiated_never_run=cv['bodies_instantiated_only'], function_bodies_never_instantiated=cv['bodies_absent'],
                               consteval_only_lines=cv.get('consteval_only_lines'), consteval_only_lines_reached_by_c08_programs=cv.get('consteval_only_lines_reached_by_c08_programs'),
                               consteval_only_lines_not_reached=cv.get('consteval_only_lines_not_reached'))
        except Exception as e:
            res['info'].update(header_coverage_error=str(e)[:200])
    return res


def register(EXTRA, EXTRA_SEARCH, PRE):
    EXTRA['C01'] = c01_extra
    EXTRA['C08'] = c08_extra
    EXTRA['C20'] = c20_extra
    PRE['C20'] = c20_pre
    EXTRA['C12'] = c12_extra
    EXTRA['C13'] = c13_extra
    EXTRA['C14'] = c14_extra
    PRE['C13'] = c13_pre
    EXTRA['C17'] = c17_extra
    EXTRA['C18'] = c18_extra
    PRE['C18'] = c18_pre
    EXTRA['C06'] = c06_extra
    EXTRA['C16'] = c16_extra
    EXTRA['C19'] = c19_extra
    PRE['C19'] = c19_pre
