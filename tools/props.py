#!/usr/bin/env python3
"""Per-property wiring: which Lean modules / theorems decide it, which generated files it depends on, which channels of
the differential run and which monitor messages belong to it, and the extra ties some properties have."""
import json, os, sys, time

import vlib

GROWING = {'pb', 'pbm', 'rsz', 'rszv', 'rsv', 'stf', 'app', 'appc', 'appm', 'ins', 'insm'}


def opk(d):
    return d['op'].split()[0]


def is_fault(d):
    return ' @' in d['op']


def threw(d):
    for k in ('impl', 'model'):
        f = vlib.fields(d.get(k, ''))
        if f and f[5].split(' ')[0] != '-':
            return True
    return False


def load_map():
    return json.load(open(os.path.join(vlib.VERIF, 'properties.map.json')))


MAP = load_map()

# property -> how the shared differential run is read
D_RULES = {
    # C01 is about calls that return (and at()'s out_of_range); the state after an injected throw belongs to C05/C06
    'C01': dict(channels=['val'], keep=lambda d: not is_fault(d)),
    'C02': dict(channels=['shape'], keep=lambda d: True),
    'C03': dict(channels=['life'], keep=lambda d: True),
    'C04': dict(channels=['ledger'], keep=lambda d: True),
    'C05': dict(channels=['val', 'shape', 'life', 'ledger', 'exc'], keep=lambda d: is_fault(d) and opk(d) in GROWING),
    # C06 is about what a throw leaves behind: lines with an injected fault, or on which either side threw
    'C06': dict(channels=['val', 'shape', 'life', 'ledger', 'exc'], keep=lambda d: is_fault(d) or threw(d)),
    'C07': dict(channels=['alloc'], keep=lambda d: True),
    'C09': dict(channels=['shape', 'life'], keep=lambda d: opk(d) in ('newm', 'asm', 'swp')),
    'C10': dict(channels=['shape', 'ledger'], keep=lambda d: not is_fault(d)),
    'C11': dict(channels=['val'], keep=lambda d: ('-alias' in d['cls'] or ' s' in d['op']) and not is_fault(d)),
    'C14': dict(channels=['shape'], keep=lambda d: (' A' in d['impl'] or ' A' in d['model']) and not is_fault(d)),
    'C15': dict(channels=['iter', 'val'], keep=lambda d: ' in ' in d['op']),
    # C18 reads no channel of the correspondence: it takes the std::terminate crashes of the real code (a noexcept function threw)
    'C18': dict(channels=[], keep=lambda d: False),
}

PROPS = {p: MAP[p] for p in MAP if MAP[p].get('claimed')}


def setup_extra():
    pass


def load_deps():
    p = os.path.join(vlib.VERIF, 'properties.deps.json')
    return json.load(open(p)) if os.path.exists(p) else {}


DEPS = load_deps()


def camel(sn):
    parts = sn.split('_')
    return parts[0] + ''.join(q[:1].upper() + q[1:] for q in parts[1:])


# thin public wrappers whose model function has another name
PUBLIC_OPS = {'small_vector::append#2': ['appendOther'], 'small_vector::append#3': ['appendOtherMove'],
              'small_vector::append#0': ['appendRangeFwd', 'appendRangeInput'], 'small_vector::append#1': ['appendRangeFwd'],
              'small_vector::emplace_back#0': ['appendElement'], 'small_vector::push_back#0': ['appendElement'], 'small_vector::push_back#1': ['appendElement'],
              'small_vector::emplace#0': ['emplaceAt'], 'small_vector::insert#0': ['emplaceAt'], 'small_vector::insert#1': ['emplaceAt'],
              'small_vector::insert#2': ['insertCopies'], 'small_vector::insert#3': ['insertRangeFwd', 'insertRangeInputMid', 'appendRangeInput'],
              'small_vector::insert#4': ['insertRangeFwd'], 'small_vector::resize#0': ['resizeWith'], 'small_vector::resize#1': ['resizeWith'],
              'small_vector::reserve#0': ['requestCapacity'], 'small_vector::shrink_to_fit#0': ['shrinkToSize'], 'small_vector::clear#0': ['eraseAll'],
              'small_vector::pop_back#0': ['eraseLast'], 'small_vector::erase#0': ['eraseAt'], 'small_vector::erase#1': ['eraseRange'],
              'small_vector::assign#0': ['assignWithCopies'], 'small_vector::assign#1': ['assignWithRangeFwd', 'assignWithRangeInput'],
              'small_vector::swap#0': ['swap']}


# primitives of allocator_interface whose model function has another name (any overload)
PRIM_OPS = {'uninitialized_copy': ['uninitGen'], 'default_uninitialized_copy': ['uninitGen'], 'uninitialized_fill': ['uninitGen'],
            'uninitialized_value_construct': ['uninitGen'], 'uninitialized_default_construct': ['uninitGen'],
            'destroy_range': ['destroyRange'], 'destroy': ['destroyAt'], 'construct': ['constructSrc'],
            'copy_range': ['assignGen'], 'copy_n_return_in': ['assignGen'], 'move_right': ['moveBackward'], 'move_left': ['moveLeft'],
            'unchecked_calculate_new_capacity': ['newCapacity'], 'external_range_length': ['appendRangeFwd', 'assignWithRangeFwd', 'insertRangeFwd', 'ctorFill']}


def model_ops_of(cxx_key, all_cxx, ops):
    """the hand-written model functions transliterated from the C++ function `cls::fn#k`: the model functions whose name
    starts with camel(fn) and for which no LONGER C++ function name is a prefix (swapDefault belongs to swap_default, not swap)"""
    if cxx_key in PUBLIC_OPS:
        return set(PUBLIC_OPS[cxx_key]) & set(ops) or set(PUBLIC_OPS[cxx_key])
    cls, rest = cxx_key.split('::', 1)
    fn = rest.split('#')[0]
    if cls == 'small_vector':
        return set()
    if fn in PRIM_OPS:
        return set(PRIM_OPS[fn])
    cn = camel(fn)
    names = sorted(set(camel(k.split('::', 1)[1].split('#')[0]) for k in all_cxx if not k.startswith('small_vector::')), key=len, reverse=True)
    out = set()
    for o in ops:
        if not o.startswith(cn):
            continue
        best = next((n for n in names if o.startswith(n)), None)
        if best == cn:
            out.add(o)
    return out


def skeleton_problems(prop, rep):
    """changed call skeletons (tools/translate.py) of C++ functions whose hand-written model body one of this property's
    theorems is about"""
    ch = rep.get('skeleton_changes') or []
    if not ch:
        return []
    ops = set(DEPS.get(prop, {}).get('ops', []))
    base_p = os.path.join(vlib.VERIF, 'tools', 'gen_baseline', 'skeletons.json')
    all_cxx = list(json.load(open(base_p)).keys()) if os.path.exists(base_p) else []
    out = []
    for c in ch:
        hit = model_ops_of(c['function'], all_cxx, ops) & ops
        if hit:
            out.append(dict(theorem='(model body) ' + ', '.join(sorted(hit)),
                            why='the body of %s (hpp:%s) no longer has the call structure the hand-written model function was transliterated from: was [%s], is [%s]'
                                % (c['function'], c.get('line'), c.get('before'), c.get('after'))))
    return out


def relevant_untranslatable(prop, items):
    """which of the translator's complaints concern this property: a generated definition concerns a property iff one
    of the property's theorems mentions it (transitively; computed by Lean, tools/mkdeps.py -> properties.deps.json);
    a whole generated file iff the property lists it"""
    gen = MAP[prop].get('gen', [])
    deps = set(DEPS.get(prop, {}).get('gen', []))
    out = []
    for u in items:
        item = u.get('item', '')
        if item.startswith('file '):
            if item[5:] in gen:
                out.append(u)
            continue
        names = u.get('names') or ([u['name']] if u.get('name') else [])
        if names and DEPS.get(prop) is not None:
            if u.get('status') == 'new':
                # a decision point the model does not have: concerns the properties whose theorems use the function's other guards
                stem = names[0].rsplit('_new', 1)[0] + '_'
                if any(d.startswith(stem) for d in deps):
                    out.append(u)
            elif any(n in deps for n in names):
                out.append(u)
        elif item.startswith('guard') and 'Guards' in gen:
            out.append(u)
    return out


def collect(prop, tier, seed):
    """run every stage; returns a dict with proof / correspondence / monitor findings and coverage numbers"""
    P = MAP[prop]
    t0 = time.time()
    pre_problems = []
    if prop in PRE:
        pre_problems = PRE[prop](tier, seed) or []
    lean = vlib.lean_stage(P['modules'], P['theorems'], need_driver=True)
    proof = list(lean['broken']) + pre_problems
    for u in relevant_untranslatable(prop, lean['untranslatable']):
        proof.append(dict(theorem='(translator) ' + u.get('item', '?'), why='source construct outside the translator subset: ' + u.get('why', '')))
    for h in lean['forbidden']:
        proof.append(dict(theorem='(audit)', why='forbidden token: ' + h))
    proof += skeleton_problems(prop, lean.get('translate', {}))
    if lean['build_rc'] != 0 and lean['broken']:
        closure = vlib.import_closure(P['modules'])
        for m, e in lean['build_errors'].items():
            if m in closure:      # a module this property's (still unchecked) theorems are built on no longer elaborates
                proof.append(dict(theorem='(module) ' + m, why='\n'.join(e[:12])))
    corr, wfind, crashes = [], [], []
    cov = dict(evaluations=0, cases=0, distinct=0, samples=[], stats={}, configs=[], cached=False, core_wall=0)
    if prop in D_RULES:
        if not lean['driver_ok']:
            corr.append(dict(why='the Lean driver (model) no longer builds', channel='-', op='-', case=[], impl='', model='', config='-'))
        else:
            core = vlib.differential(tier, seed)
            rule = D_RULES[prop]
            for k, lst in core['dis'].items():
                ch = k.split('|')[0]
                if ch in rule['channels']:
                    for d in lst:
                        if rule['keep'](d):
                            corr.append(dict(d, channel=ch, why='implementation and model disagree on channel ' + ch))
            for w in core['w'].get(prop, []):
                wfind.append(w)
            if prop == 'C06':
                # a storage-invariant / object-lifetime / ledger monitor firing on a call that threw IS a basic-guarantee violation
                for q in ('C02', 'C03', 'C04'):
                    for w in core['w'].get(q, []):
                        if threw(w):
                            wfind.append(dict(w, msg='C06 after a throw: ' + w.get('msg', '')))
            for c in core['crashes']:
                crashes.append(c)
            if core['stats'].get('bad_op'):
                # self-check of the machinery: a generated line that harness or driver cannot parse tests nothing
                smp = (core.get('bad_op_samples') or [{}])[0]
                corr.append(dict(why='generator defect: %d generated lines are not understood (e.g. %r)' % (core['stats']['bad_op'], smp.get('line')),
                                 channel='-', op=smp.get('line', '-'), case=[], impl=smp.get('impl', ''), model=smp.get('model', ''), config=smp.get('config', '-')))
            for k, e in core.get('build_errors', {}).items():
                corr.append(dict(why='harness does not compile for ' + k + ': ' + e[-600:], channel='-', op='-', case=[], impl='', model='', config=k))
            cov.update(evaluations=core['lines'], cases=core['cases'], distinct=core['distinct'], samples=core['samples'][:3], stats=core['stats'],
                       configs=core['configs'], cached=core.get('cached', False), core_wall=core.get('wall_s', 0),
                       disagreements_by_channel={k: v for k, v in core['discount'].items()}, monitor_messages={k: v for k, v in core['wcount'].items()})
    extra = EXTRA.get(prop)
    if extra:
        ex = extra(tier, seed, lean)
        corr += ex.get('corr', [])
        wfind += ex.get('w', [])
        for k in ('evaluations', 'cases', 'distinct'):
            cov[k] += ex.get(k, 0)
        cov['samples'] = (ex.get('samples', []) + cov['samples'])[:4]
        cov.setdefault('extra', {}).update(ex.get('info', {}))
    return dict(lean=lean, proof=proof, corr=corr, w=wfind, crashes=crashes, cov=cov, wall=time.time() - t0)


def describe_w(w):
    return '%s | op: %s | config: %s' % (w.get('msg', ''), w.get('op', ''), w.get('config', ''))


def check(prop, tier, seed):
    P = MAP[prop]
    r = collect(prop, tier, seed)
    violations = []
    known_lines = []
    # 1. concrete failing inputs from the monitors (and crashes of the real code)
    seen = set()
    for w in r['w']:
        text = describe_w(w)
        k = vlib.match_known(prop, text)
        if k:
            if k['id'] not in seen:
                seen.add(k['id'])
                known_lines.append('KNOWN-FINDING: property=%s %s' % (prop, k['what']))
            continue
        violations.append(dict(kind='impl', what=w.get('msg', ''), config=w.get('config'), ops=w.get('case', []), observed=w.get('impl', '')))
    for c in r['crashes']:
        text = 'crash:%s | %s | config: %s' % (c['kind'], ' ; '.join(c['case'][-2:]), c['config'])
        k = vlib.match_known(prop, text)
        if k:
            if k['id'] not in seen:
                seen.add(k['id'])
                known_lines.append('KNOWN-FINDING: property=%s %s' % (prop, k['what']))
            continue
        if c['kind'] == 'terminate' and prop not in ('C18', 'C06'):
            continue
        violations.append(dict(kind='impl', what='the implementation %s on this input: %s' % ('called std::terminate' if c['kind'] == 'terminate' else 'crashed (' + c['kind'] + ')', c['detail'][-600:]),
                               config=c['config'], ops=c['case'], observed=''))
    not_shown = None
    if not violations and (r['proof'] or r['corr']):
        # 2. a proof obligation or the correspondence broke: search for a concrete failing input with the monitors
        found = witness_search(prop, tier, seed)
        if found:
            violations += found
        else:
            not_shown = dict(kind='proof' if r['proof'] else 'correspondence',
                             theorems=r['proof'][:6], first_divergence=(r['corr'][0] if r['corr'] else None),
                             note='no concrete failing input found by the monitors within the search budget; the property is no longer shown to hold')
    # evidence
    nthm = len(P['theorems'])
    bad_thm = set(b['theorem'] for b in r['lean']['broken'])
    coverage = dict(
        obligations=nthm + len(P.get('gen', [])),
        discharged=nthm - len(bad_thm) + (len(P.get('gen', [])) if not relevant_untranslatable(prop, r['lean']['untranslatable']) else 0),
        checker_cmd='cd lean && lake build ' + ' '.join(P['modules']) + ' && lake env lean <Audit: #print axioms for each theorem>',
        trusted_base=TRUSTED_BASE,
        theorems=P['theorems'], axioms={k: v for k, v in r['lean']['axioms'].items()},
        generated_files=P.get('gen', []), changed_generated_definitions=r['lean'].get('changed_generated', []),
        function_body_skeletons_compared=r['lean'].get('translate', {}).get('skeleton_functions', 0),
        function_body_skeletons_changed=[c['function'] for c in (r['lean'].get('translate', {}).get('skeleton_changes') or [])],
        theorems_rechecked_with_unrelated_changes_neutralised=r['lean'].get('carried', {}),
        evaluations=r['cov']['evaluations'], distinct_nontrivial=r['cov']['distinct'],
        traces_validated_against_impl=r['cov']['cases'],
        rule='small-scope enumeration (every op x start-state class x argument class x fault index) + seeded random histories, each line executed by the real header (harness) and by the Lean L2 model (svdriver) and compared on the channels of this property; a case is distinct+non-trivial when its (op class, start-state class, fault schedule, exception kind, in-place/reallocating) tuple is new for its configuration',
        samples=r['cov']['samples'] or [dict(note='this property has no differential samples in this tier', theorems=P['theorems'][:3])],
        explanation=P.get('explanation', ''),
        proof_problems=r['proof'][:10], correspondence_problems=[dict(why=c['why'], op=c.get('op'), config=c.get('config')) for c in r['corr'][:10]],
        monitor_findings=[describe_w(w) for w in r['w'][:10]],
        stats=r['cov'].get('stats', {}), configs=r['cov'].get('configs', []), extra=r['cov'].get('extra', {}),
        core_run_cached=r['cov'].get('cached', False),
    )
    nviol = len(violations) + (1 if not_shown else 0)
    vlib.write_evidence(prop, tier, seed, coverage, r['wall'], nviol, P.get('assumptions', []) + ['see coverage.trusted_base'])
    for l in known_lines:
        print(l)
    if violations:
        v = violations[0]
        path = vlib.write_replay(prop, dict(kind=v['kind'], what=v['what'], config=v.get('config'), ops=v.get('ops', []), observed=v.get('observed'),
                                            seed=seed, tier=tier, others=[x['what'] for x in violations[1:6]],
                                            broken_obligations=r['proof'][:6]))
        print('VIOLATION property=%s replay=%s' % (prop, path))
        print('  ' + v['what'][:300])
        return 1
    if not_shown:
        path = vlib.write_replay(prop, dict(not_shown, seed=seed, tier=tier))
        print('VIOLATION property=%s replay=%s no-failing-input-found' % (prop, path))
        for b in r['proof'][:4]:
            print('  obligation no longer checks: %s — %s' % (b['theorem'], b['why'][:300].replace('\n', ' ')))
        if r['corr']:
            c = r['corr'][0]
            print('  correspondence: %s | op %s | impl: %s | model: %s' % (c['why'], c.get('op'), c.get('impl', '')[:200], c.get('model', '')[:200]))
        return 1
    print('OK property=%s tier=%s obligations=%d discharged=%d evaluations=%d wall=%.1fs' % (prop, tier, coverage['obligations'], coverage['discharged'], coverage['evaluations'], r['wall']))
    return 0


TRUSTED_BASE = [
    "Lean 4.33.0 kernel; axioms permitted: propext, Classical.choice, Quot.sound (audited per theorem on every run with #print axioms); no sorry/admit/native_decide/bv_decide/implemented_by/unsafe (grep on every run)",
    "tools/translate.py: text-level extraction of guards, growth function, comparison operators, policies, layout formula, noexcept flags from the header; refuses what it cannot parse",
    "harness/harness.cpp (instrumented element/allocator/iterator types, canonicalisation) and the Lean driver's printing; agreement between model and code is sampled, not proved",
    "hand-written L2 bodies (lean/SvModel/Prim.lean, Ops.lean) mirror the header's straight-line effects and are tied to the code by the differential run only",
    "modelled rather than verified: C++ object-lifetime rules as the ub log encodes them; std::copy/move/move_backward/fill/swap_ranges as ordered element-wise loops; allocator named requirements",
]


def witness_search(prop, tier, seed):
    """a proof obligation or the correspondence broke: look for a concrete input on which the property itself fails.
    Runs the monitors over the thorough input set on a spread of configurations (bounded)."""
    if prop not in D_RULES and prop not in EXTRA_SEARCH:
        return []
    found = []
    if prop in EXTRA_SEARCH:
        found += EXTRA_SEARCH[prop](tier, seed)
    if not found and prop in D_RULES:
        cfgs = vlib.core_configs('thorough')
        step = max(1, len(cfgs) // 24)
        cfgs = cfgs[::step][:24]
        core = vlib.differential('thorough', seed + 17, cfgs=cfgs, label='search')
        ws = list(core['w'].get(prop, []))
        if prop == 'C06':
            # as in collect (): an invariant / lifetime / ledger monitor firing on a call that threw IS a basic-guarantee violation
            for q in ('C02', 'C03', 'C04'):
                ws += [dict(w, msg='C06 after a throw: ' + w.get('msg', '')) for w in core['w'].get(q, []) if threw(w)]
        for w in ws:
            if not vlib.match_known(prop, describe_w(w)):
                found.append(dict(kind='impl', what=w.get('msg', ''), config=w.get('config'), ops=w.get('case', []), observed=w.get('impl', '')))
    return found[:5]


def replay(prop, path):
    data = json.load(open(path))
    ops = data.get('ops') or []
    cfgk = data.get('config')
    if not ops or not cfgk:
        print('replay file names broken obligations, not an input:')
        print(json.dumps({k: data.get(k) for k in ('kind', 'theorems', 'first_divergence', 'note')}, indent=1)[:3000])
        return check(prop, data.get('tier', 'quick'), data.get('seed', 1))
    cfg = None
    for c in vlib.core_configs('thorough') + vlib.core_configs('quick'):
        if c.key() == cfgk:
            cfg = c
    if cfg is None:
        cfg = vlib.Config.from_key(cfgk)
    if cfg is None or cfg.key() != cfgk:
        print('unknown configuration', cfgk)
        return 2
    vlib.lean_stage([], [], need_driver=True)
    exe, err = vlib.build_harness(cfg)
    if not exe:
        print(err)
        return 2
    lines = ['reset'] + ops
    hobs, hw, status = vlib.run_harness(exe, lines)
    mobs, _ = vlib.run_driver(cfg, lines)
    bad = False
    for i, l in enumerate(lines):
        h = hobs[i] if i < len(hobs) else '<missing>'
        m = mobs[i] if i < len(mobs) else '<missing>'
        print('> ' + l)
        print('  impl : ' + h)
        if m != h:
            print('  model: ' + m)
        for w in (hw[i] if i < len(hw) else []):
            print('  ' + w)
            if w.split()[1] == prop:
                bad = True
    if status:
        print('implementation', status['kind'], status['detail'][-800:])
        bad = True
    if bad:
        print('VIOLATION property=%s replay=%s' % (prop, path))
        return 1
    print('replay: property %s holds on this input now' % prop)
    return 0


EXTRA = {}
EXTRA_SEARCH = {}
PRE = {}

try:
    import props_extra  # noqa: F401  (registers EXTRA / EXTRA_SEARCH entries)
    props_extra.register(EXTRA, EXTRA_SEARCH, PRE)
except ImportError:
    pass
