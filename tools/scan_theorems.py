#!/usr/bin/env python3
"""list the fully qualified theorem names of a property file, per top-level `namespace Cxx` section"""
import re, sys
def scan(path, root='SvModel'):
    ns = []
    out = {}
    for line in open(path):
        m = re.match(r'namespace\s+(\S+)', line)
        if m:
            ns.append(m.group(1)); continue
        m = re.match(r'end\s+(\S+)', line)
        if m and ns and ns[-1] == m.group(1):
            ns.pop(); continue
        m = re.match(r'theorem\s+(\S+)', line)
        if m:
            full = '.'.join(ns + [m.group(1)])
            key = ns[-1].split('.')[-1] if ns else ''
            out.setdefault(key, []).append(full)
    return out
if __name__ == '__main__':
    import json
    print(json.dumps(scan(sys.argv[1]), indent=1))
