# executed inside gdb (gdb -batch -x): prints the containers through the shipped printer and dumps the class shapes
import gdb, json, sys, os
sys.path.insert(0, os.path.join(os.environ.get('VERIF_REPO', '/repo'), 'source/support/python'))
import gch.gdb.prettyprinters.small_vector   # registers the shipped printers
gdb.execute('set print pretty off')
gdb.execute('set print elements 1000')
gdb.execute('set print repeats 0')
gdb.execute('break stop')
gdb.execute('run')
gdb.execute('up')
NAMES = ['s_empty', 's_inline', 's_full', 's_heap', 's_heapinl', 's_shrunk', 'z_empty', 'z_heap', 'p_inline', 'p_heap', 'a_inline', 'a_heap',
         's_moved_from', 's_moved_to', 's_default', 'ld_inline', 'ld_heap', 'w_inline', 'w_heap', 'w_zero', 'd_inline', 'b_inline',
         't_inline', 't_heap', 'it_ld', 'it_w', 'it_begin', 'it_mid', 'it_p']
for n in NAMES:
    try:
        v = gdb.parse_and_eval(n)
        print('GDB %s %s' % (n, v.format_string()))
    except Exception as e:
        print('GDB %s <error: %s>' % (n, e))

def shape(t, depth=0):
    t = t.strip_typedefs()
    out = {'name': str(t), 'fields': []}
    if t.code in (gdb.TYPE_CODE_STRUCT, gdb.TYPE_CODE_UNION) and depth < 8:
        for f in t.fields():
            static = not hasattr(f, 'bitpos')
            sub = f.type.strip_typedefs()
            nested = shape(f.type, depth + 1) if (f.is_base_class or (sub.code in (gdb.TYPE_CODE_STRUCT, gdb.TYPE_CODE_UNION) and not static and depth < 4)) else None
            out['fields'].append({'name': f.name, 'base': bool(f.is_base_class), 'static': static, 'type': nested})
    return out
for n in ('s_inline', 'z_heap', 'a_heap', 'it_mid', 'w_inline', 'ld_heap', 't_heap'):
    print('SHAPE %s %s' % (n, json.dumps(shape(gdb.parse_and_eval(n).type))))
