#!/usr/bin/env python3
"""C08: generated constexpr programs.  An op sequence becomes a C++ function `prog<T>()` that folds every observable
(sizes, element values, return values, and the capacities that the property does not exempt) into a digest; it is
evaluated by the compiler as a constant expression (which rejects undefined behaviour, out-of-lifetime access and
unreleased allocations) and at run time, and the same op sequence is executed by the Lean L2 model (svdriver), whose
observations are folded into the same digest here."""
import os, random, re, sys

import vlib

NAMES = ['a', 'b', 'c']   # a, b: inline capacity N; c: inline capacity M
MASK = (1 << 64) - 1


def mix(h, x):
    return ((h ^ (x & MASK)) * 1099511628211) & MASK


def gen_program(rng, N, M, steps):
    """returns a list of ops: (kind, args) over containers that all stay alive (constructed at the start)"""
    size = {'a': 0, 'b': 0, 'c': 0}
    ops = []
    for step in range(steps):
        x = rng.choice(NAMES)
        s = size[x]
        v = 100 + step
        r = rng.random()
        if r < 0.10 and s:
            # an argument that aliases one of the container's own elements (C11 under constant evaluation: heap_temporary)
            i = rng.randrange(s)
            k = rng.random()
            if k < 0.25:
                ops.append(('pbs', x, i)); size[x] = s + 1
            elif k < 0.5:
                ops.append(('inss', x, rng.randint(0, s), i)); size[x] = s + 1
            elif k < 0.85:
                n = rng.choice([1, 2, 3, 4]); ops.append(('insns', x, rng.randint(0, s), n, i)); size[x] = s + n
            else:
                n = rng.choice([s + 1, s + 3]); ops.append(('rszs', x, n, i)); size[x] = n
        elif r < 0.22:
            ops.append(('pb', x, v)); size[x] = s + 1
        elif r < 0.32:
            p = rng.randint(0, s); ops.append(('ins', x, p, v)); size[x] = s + 1
        elif r < 0.40:
            p = rng.randint(0, s); n = rng.choice([0, 1, 2, 3]); ops.append(('insn', x, p, n, v)); size[x] = s + n
        elif r < 0.46 and s:
            if rng.random() < 0.5:
                p = rng.randrange(s); ops.append(('era', x, p)); size[x] = s - 1
            else:
                p = rng.randint(0, s); q = rng.randint(p, s); ops.append(('erar', x, p, q)); size[x] = s - (q - p)
        elif r < 0.50 and s:
            ops.append(('pop', x)); size[x] = s - 1
        elif r < 0.58:
            n = rng.choice([0, s, s + 1, s + 3, max(s - 1, 0)])
            if rng.random() < 0.5:
                ops.append(('rsz', x, n))
            else:
                ops.append(('rszv', x, n, v))
            size[x] = n
        elif r < 0.64:
            ops.append(('rsv', x, rng.choice([0, s, s + 2, 2 * s + 1])))
        elif r < 0.68:
            ops.append(('stf', x))
        elif r < 0.74:
            n = rng.choice([0, 1, s, s + 2]); ops.append(('asn', x, n, v)); size[x] = n
        elif r < 0.80:
            y = rng.choice([n for n in NAMES if n != x])
            ops.append(('insr', x, rng.randint(0, s), y)); size[x] = s + size[y]
        elif r < 0.88:
            y = rng.choice([n for n in NAMES if n != x])
            ops.append(('asc', x, y)); size[x] = size[y]
        elif r < 0.93:
            y = rng.choice([n for n in NAMES if n != x])
            ops.append(('asm', x, y)); size[x] = size[y]; size[y] = None   # moved-from: unspecified → resync by clear
            ops.append(('clr', y)); size[y] = 0
        elif r < 0.97:
            y = 'b' if x == 'a' else ('a' if x == 'b' else None)
            if y:
                ops.append(('swp', x, y)); size[x], size[y] = size[y], size[x]
            else:
                ops.append(('clr', x)); size[x] = 0
        else:
            ops.append(('clr', x)); size[x] = 0
    return ops


def directed_programs(N, M):
    """deterministic programs that walk the constant-evaluation-only code paths with arguments aliasing the container's
    own elements: insert (pos, n, v[i]) / insert (pos, v[i]) / push_back (v[i]) / resize (n, v[i]) for every position,
    every alias index and counts below, at and above the tail length, both in place (spare capacity) and reallocating"""
    progs = []
    base = 4

    def rebuild(ops, x, cap):
        ops.append(('clr', x))
        ops.append(('stf', x))
        if cap:
            ops.append(('rsv', x, cap))
        for k in range(base):
            ops.append(('pb', x, 10 + k))
    for cap in (base + 6, 0):          # in place / reallocating
        for x in ('a', 'c'):
            ops = []
            for p in range(base + 1):
                for i in range(base):
                    for n in sorted(set([1, max(base - p, 1), base - p + 1, 5])):
                        if cap and base + n > cap:
                            continue
                        rebuild(ops, x, cap)
                        ops.append(('insns', x, p, n, i))
            progs.append(ops)
            ops = []
            for p in range(base + 1):
                for i in range(base):
                    rebuild(ops, x, cap)
                    ops.append(('inss', x, p, i))
            for i in range(base):
                rebuild(ops, x, cap)
                ops.append(('pbs', x, i))
                rebuild(ops, x, cap)
                ops.append(('rszs', x, base + 2, i))
            progs.append(ops)
    # copy / move assignment between containers of equal and of different inline capacity, destination shorter / longer than
    # the source, with and without spare capacity: the constant-evaluation branches of copy_range / copy_n_return_in
    # (element-wise std::copy_n / std::move instead of memcpy, move iterators unwrapped)
    for kind in ('asc', 'asm', 'asri', 'asrm'):
        for (x, y) in (('a', 'c'), ('c', 'a'), ('a', 'b')):
            ops = []
            for ssz in (0, 1, 3, 6):
                for dsz in (0, 2, 5):
                    for cap in (0, 8):
                        ops.append(('clr', x)); ops.append(('stf', x))
                        if cap:
                            ops.append(('rsv', x, cap))
                        for k in range(dsz):
                            ops.append(('pb', x, 40 + k))
                        ops.append(('clr', y))
                        for k in range(ssz):
                            ops.append(('pb', y, 70 + k))
                        ops.append((kind, x, y))
                        if kind in ('asm', 'asrm'):
                            ops.append(('clr', y))
            progs.append(ops)
    return progs


def cpp_of(ops, N, M, pid):
    L = []
    L.append('template <typename T> constexpr unsigned long long prog%d ()' % pid)
    L.append('{')
    L.append('  unsigned long long h = 1469598103934665603ull;')
    L.append('  gch::small_vector<T, %d> a; gch::small_vector<T, %d> b; gch::small_vector<T, %d> c;' % (N, N, M))
    L.append('  bool ta = false, tb = false, tc = false;   // capacity-tainted by a move or swap (capacity then unspecified)')
    for op in ops:
        k = op[0]
        x = op[1]
        if k == 'pb':
            L.append('  %s.push_back (T (%d));' % (x, op[2]))
        elif k == 'ins':
            L.append('  { auto it = %s.insert (%s.begin () + %d, T (%d)); mixin (h, static_cast<unsigned long long> (it - %s.begin ())); }' % (x, x, op[2], op[3], x))
        elif k == 'insn':
            L.append('  { auto it = %s.insert (%s.begin () + %d, %d, T (%d)); mixin (h, static_cast<unsigned long long> (it - %s.begin ())); }' % (x, x, op[2], op[3], op[4], x))
        elif k == 'era':
            L.append('  { auto it = %s.erase (%s.begin () + %d); mixin (h, static_cast<unsigned long long> (it - %s.begin ())); }' % (x, x, op[2], x))
        elif k == 'erar':
            L.append('  { auto it = %s.erase (%s.begin () + %d, %s.begin () + %d); mixin (h, static_cast<unsigned long long> (it - %s.begin ())); }' % (x, x, op[2], x, op[3], x))
        elif k == 'pop':
            L.append('  %s.pop_back ();' % x)
        elif k == 'rsz':
            L.append('  %s.resize (%d);' % (x, op[2]))
        elif k == 'rszv':
            L.append('  %s.resize (%d, T (%d));' % (x, op[2], op[3]))
        elif k == 'rsv':
            L.append('  %s.reserve (%d);' % (x, op[2]))
        elif k == 'stf':
            L.append('  %s.shrink_to_fit (); t%s = false;' % (x, x))
        elif k == 'asn':
            L.append('  %s.assign (%d, T (%d));' % (x, op[2], op[3]))
        elif k == 'insr':
            L.append('  { auto it = %s.insert (%s.begin () + %d, %s.begin (), %s.end ()); mixin (h, static_cast<unsigned long long> (it - %s.begin ())); }' % (x, x, op[2], op[3], op[3], x))
        elif k == 'asc':
            L.append('  %s.assign (%s);' % (x, op[2]))
        elif k == 'asm':
            L.append('  %s.assign (std::move (%s)); t%s = true; t%s = true;' % (x, op[2], x, op[2]))
        elif k == 'swp':
            L.append('  %s.swap (%s); t%s = true; t%s = true;' % (x, op[2], x, op[2]))
        elif k == 'clr':
            L.append('  %s.clear ();' % x)
        elif k == 'pbs':
            L.append('  %s.push_back (%s[%d]);' % (x, x, op[2]))
        elif k == 'inss':
            L.append('  { auto it = %s.insert (%s.begin () + %d, %s[%d]); mixin (h, static_cast<unsigned long long> (it - %s.begin ())); }' % (x, x, op[2], x, op[3], x))
        elif k == 'insns':
            L.append('  { auto it = %s.insert (%s.begin () + %d, %d, %s[%d]); mixin (h, static_cast<unsigned long long> (it - %s.begin ())); }' % (x, x, op[2], op[3], x, op[4], x))
        elif k == 'rszs':
            L.append('  %s.resize (%d, %s[%d]);' % (x, op[2], x, op[3]))
        elif k == 'asri':
            L.append('  %s.assign (%s.begin (), %s.end ());' % (x, op[2], op[2]))
        elif k == 'asrm':
            L.append('  %s.assign (std::make_move_iterator (%s.begin ()), std::make_move_iterator (%s.end ()));' % (x, op[2], op[2]))
        if k not in ('asm', 'asrm'):   # the contents of a moved-from source are unspecified: it is cleared by the next step before being observed
            L.append('  observe (h, a, ta); observe (h, b, tb); observe (h, c, tc);')
    L.append('  return h;')
    L.append('}')
    return '\n'.join(L)


PRELUDE = r'''
#include <gch/small_vector.hpp>
#include <cstdio>
#include <utility>
#include <iterator>
struct Lit   // a literal, non-trivially-copyable element type
{
  int v;
  constexpr Lit (int x = 0) : v (x) { }
  constexpr Lit (const Lit& o) : v (o.v) { }
  constexpr Lit (Lit&& o) noexcept : v (o.v) { o.v = -1; }
  constexpr Lit& operator= (const Lit& o) { v = o.v; return *this; }
  constexpr Lit& operator= (Lit&& o) noexcept { v = o.v; o.v = -1; return *this; }
  constexpr ~Lit () { }
};
constexpr unsigned long long val (int x) { return static_cast<unsigned long long> (static_cast<long long> (x)); }
constexpr unsigned long long val (const Lit& x) { return static_cast<unsigned long long> (static_cast<long long> (x.v)); }
constexpr void mixin (unsigned long long& h, unsigned long long x) { h = (h ^ x) * 1099511628211ull; }
template <typename V> constexpr void observe (unsigned long long& h, const V& v, bool tainted)
{
  mixin (h, v.size ());
  for (const auto& e : v) mixin (h, val (e));
  if (! tainted) mixin (h, v.capacity ());
  if (! v.empty ()) { mixin (h, val (v.front ())); mixin (h, val (v.back ())); mixin (h, val (v[v.size () / 2])); mixin (h, val (v.at (0))); }
}
'''


def lines_of(ops):
    """protocol lines for the Lean driver (containers a, b have capacity N; c has capacity M)"""
    out = ['new a 0', 'new b 0', 'new c 0']
    for op in ops:
        k, x = op[0], op[1]
        if k == 'pb': out.append('pbm %s %d' % (x, op[2]))
        elif k == 'ins': out.append('insm %s %d %d' % (x, op[2], op[3]))
        elif k == 'insn': out.append('insn %s %d %d v%d' % (x, op[2], op[3], op[4]))
        elif k == 'era': out.append('era %s %d' % (x, op[2]))
        elif k == 'erar': out.append('erar %s %d %d' % (x, op[2], op[3]))
        elif k == 'pop': out.append('pop %s' % x)
        elif k == 'rsz': out.append('rsz %s %d' % (x, op[2]))
        elif k == 'rszv': out.append('rszv %s %d v%d' % (x, op[2], op[3]))
        elif k == 'rsv': out.append('rsv %s %d' % (x, op[2]))
        elif k == 'stf': out.append('stf %s' % x)
        elif k == 'asn': out.append('asn %s %d %d' % (x, op[2], op[3]))
        elif k == 'insr': out.append('INSR %s %d %s' % (x, op[2], op[3]))   # resolved against the current contents below
        elif k == 'asc': out.append('asc %s %s' % (x, op[2]))
        elif k == 'asm': out.append('asm %s %s' % (x, op[2]))
        elif k == 'swp': out.append('swp %s %s' % (x, op[2]))
        elif k == 'clr': out.append('clr %s' % x)
    return out


def shadow_lines(ops):
    """protocol lines for the Lean driver; range sources are expanded against a Python shadow of the contents (L0 semantics)"""
    st = {'a': [], 'b': [], 'c': []}
    lines = []
    for op in ops:
        k, x = op[0], op[1]
        l = st[x]
        if k == 'pb': lines.append('pbm %s %d' % (x, op[2])); l.append(op[2])
        elif k == 'ins': lines.append('insm %s %d %d' % (x, op[2], op[3])); l.insert(op[2], op[3])
        elif k == 'insn': lines.append('insn %s %d %d v%d' % (x, op[2], op[3], op[4])); l[op[2]:op[2]] = [op[4]] * op[3]
        elif k == 'era': lines.append('era %s %d' % (x, op[2])); del l[op[2]]
        elif k == 'erar': lines.append('erar %s %d %d' % (x, op[2], op[3])); del l[op[2]:op[3]]
        elif k == 'pop': lines.append('pop %s' % x); l.pop()
        elif k == 'rsz': lines.append('rsz %s %d' % (x, op[2])); st[x] = (l + [0] * op[2])[:op[2]]
        elif k == 'rszv': lines.append('rszv %s %d v%d' % (x, op[2], op[3])); st[x] = (l + [op[3]] * op[2])[:op[2]]
        elif k == 'rsv': lines.append('rsv %s %d' % (x, op[2]))
        elif k == 'stf': lines.append('stf %s' % x)
        elif k == 'asn': lines.append('asn %s %d %d' % (x, op[2], op[3])); st[x] = [op[3]] * op[2]
        elif k == 'insr':
            src = list(st[op[3]])
            lines.append('insr %s %d fw %s' % (x, op[2], ','.join(str(v) for v in src) or '-')); l[op[2]:op[2]] = src
        elif k == 'asc': lines.append('asc %s %s' % (x, op[2])); st[x] = list(st[op[2]])
        elif k == 'asm': lines.append('asm %s %s' % (x, op[2])); st[x] = list(st[op[2]]); st[op[2]] = None
        elif k == 'swp': lines.append('swp %s %s' % (x, op[2])); st[x], st[op[2]] = st[op[2]], st[x]
        elif k == 'clr': lines.append('clr %s' % x); st[x] = []
        elif k == 'pbs': lines.append('pb %s s%d' % (x, op[2])); l.append(l[op[2]])
        elif k == 'inss': lines.append('ins %s %d s%d' % (x, op[2], op[3])); l.insert(op[2], l[op[3]])
        elif k == 'insns': lines.append('insn %s %d %d s%d' % (x, op[2], op[3], op[4])); l[op[2]:op[2]] = [l[op[4]]] * op[3]
        elif k == 'rszs': lines.append('rszv %s %d s%d' % (x, op[2], op[3])); st[x] = (l + [l[op[3]]] * op[2])[:op[2]]
        elif k in ('asri', 'asrm'):
            src = list(st[op[2]])
            lines.append('asr %s ra %s' % (x, ','.join(str(v) for v in src) or '-')); st[x] = src
    return lines


def model_digest(ops, N, M):
    """run the op sequence through the Lean driver and fold its observations into the digest"""
    lines = ['reset', 'new a 0', 'new b 0', 'new c 0'] + shadow_lines(ops)
    rc, out = vlib.run([vlib.DRIVER, 'Enn', str(N), str(M), 'ta00000', str((2 ** 64 - 1) // 4)], inp='\n'.join(lines) + '\n', timeout=120)
    obs = out.split('\n')[4:4 + len(ops)]
    if len(obs) != len(ops):
        return None, 'driver produced %d lines for %d ops' % (len(obs), len(ops))

    def parse(o):
        f = o.split(' | ')
        st = {}
        for item, vals in zip(f[1].split(), f[2].split()):
            n, rest = item.split('=')
            if rest == '-':
                continue
            sz, cap = rest.split('/')[:2]
            vs = vals.split('=')[1].strip('[]')
            st[n] = (int(sz), int(cap), [(-1 if x == '~' else int(x)) for x in vs.split(',')] if vs else [])
        return f[0], st
    h = 1469598103934665603
    taint = {'a': False, 'b': False, 'c': False}
    for op, o in zip(ops, obs):
        if ' | ' not in o:
            return None, 'model answered %r to %r' % (o, op)
        k, x = op[0], op[1]
        out_, state = parse(o)
        if k in ('ins', 'insn', 'era', 'erar', 'insr', 'inss', 'insns'):
            h = mix(h, int(out_[1:]))
        if k == 'stf':
            taint[x] = False
        if k in ('asm', 'swp'):
            taint[x] = True; taint[op[2]] = True
        if k in ('asm', 'asrm'):
            continue     # the source's elements are moved-from: unspecified, cleared by the next step before being observed
        for n in NAMES:
            sz, cap, vs = state[n]
            h = mix(h, sz)
            for v in vs:
                h = mix(h, v)
            if not taint[n]:
                h = mix(h, cap)
            if vs:
                for v in (vs[0], vs[-1], vs[sz // 2], vs[0]):
                    h = mix(h, v)
    return h, None


def build_and_run(progs, N, M, cxx, std, workdir, tag):
    """one TU with all programs: constexpr evaluation for int and Lit, and the run-time values"""
    src = os.path.join(workdir, 'c08_%s.cpp' % tag)
    exe = src[:-4]
    body = [PRELUDE]
    for i, ops in enumerate(progs):
        body.append(cpp_of(ops, N, M, i))
        body.append('constexpr unsigned long long ct_i_%d = prog%d<int> (); constexpr unsigned long long ct_l_%d = prog%d<Lit> ();' % (i, i, i, i))
    body.append('int main () {')
    for i in range(len(progs)):
        body.append('  std::printf ("%%d %%llu %%llu %%llu %%llu\\n", %d, ct_i_%d, prog%d<int> (), ct_l_%d, prog%d<Lit> ());' % (i, i, i, i, i))
    body.append('  return 0; }')
    open(src, 'w').write('\n'.join(body))
    rc, out = vlib.run([cxx, '-std=' + std, '-O1', '-fconstexpr-ops-limit=200000000', '-I' + os.path.join(vlib.REPO, 'source/include'), src, '-o', exe] if cxx == 'g++'
                       else [cxx, '-std=' + std, '-O1', '-fconstexpr-steps=200000000', '-I' + os.path.join(vlib.REPO, 'source/include'), src, '-o', exe], timeout=1800)
    if rc != 0:
        return None, out
    rc, out = vlib.run([exe], timeout=120)
    res = {}
    for l in out.split('\n'):
        t = l.split()
        if len(t) == 5:
            res[int(t[0])] = tuple(int(x) for x in t[1:])
    return res, None
