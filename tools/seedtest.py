#!/usr/bin/env python3
"""Evaluate one seeded breaking change (seeded/<name>/patch.diff) against every registered check.

  tools/seedtest.py <name> [--props C01,C05] [--keep]

By default the patch is applied to a scratch git worktree of /repo (VERIF_REPO points the checks at it) so that several
seeds can be evaluated at once and /repo is never touched; with --in-repo it is applied to /repo itself with
`git apply` and undone with `git -C /repo checkout -- .` whatever happens (the procedure of the brief).  The quick tier
of every check is run from a scratch copy of /verif (so that the regenerated Gen/*.lean and the lake build do not
disturb the working copy).  The demonstration program is built against the original and the patched header.  Results
go to seeded/<name>/result.json.  Never commits anything to /repo."""
import json, os, re, shutil, subprocess, sys, time

HERE = os.path.dirname(os.path.abspath(__file__))
VERIF = os.path.dirname(HERE)
SCRATCH = '/tmp/vseed/verif'
REPO = '/repo'


def sh(cmd, cwd=None, timeout=7200, env=None):
    p = subprocess.run(cmd, shell=isinstance(cmd, str), cwd=cwd, stdout=subprocess.PIPE, stderr=subprocess.STDOUT, text=True, timeout=timeout, env=env)
    return p.returncode, p.stdout


def demo(name, meta):
    """exit codes of the demonstration on the current /repo header"""
    src = os.path.join(VERIF, 'seeded', name, 'demo.cpp')
    if not os.path.exists(src):
        return None
    cmd = meta.get('demo_build', '')
    flags = ' '.join(t for t in cmd.split() if t.startswith('-') and not t.startswith('-I') and t != '-o')
    flags = re.sub(r'-o\s+\S+', '', flags)
    exe = '/tmp/vseed/demo_' + name
    rc, out = sh('g++ %s -I %s/source/include %s -o %s' % (flags or '-std=c++17', REPO, src, exe), timeout=600)
    if rc != 0:
        return dict(build_rc=rc, out=out[-1500:])
    rc, out = sh(exe, timeout=600, env=dict(os.environ, ASAN_OPTIONS='detect_leaks=1'))
    return dict(rc=rc, out=out[-1200:])


def main():
    name = sys.argv[1]
    props = None
    if '--props' in sys.argv:
        props = sys.argv[sys.argv.index('--props') + 1].split(',')
    d = os.path.join(VERIF, 'seeded', name)
    patch = os.path.join(d, 'patch.diff')
    meta = json.load(open(os.path.join(d, 'meta.json'))) if os.path.exists(os.path.join(d, 'meta.json')) else {}
    man = json.load(open(os.path.join(VERIF, 'MANIFEST.json')))
    ids = [c['property_id'] for c in man['checks']]
    if props:
        ids = [i for i in ids if i in props]
    global REPO, SCRATCH
    in_repo = '--in-repo' in sys.argv
    os.makedirs('/tmp/vseed', exist_ok=True)
    if in_repo:
        rc, out = sh('git -C /repo status --porcelain')
        if out.strip():
            print('refusing: /repo is not clean:\n' + out)
            return 2
    else:
        REPO = '/tmp/vseed/repo-' + name
        SCRATCH = '/tmp/vseed/verif-' + name
        sh('git -C /repo worktree remove --force ' + REPO)
        rc, out = sh('git -C /repo worktree add --detach %s HEAD' % REPO)
        if rc != 0:
            print(out)
            return 2
    # the committed state of /verif (never a half-edited working copy), plus the build caches for speed
    shutil.rmtree(SCRATCH, ignore_errors=True)
    os.makedirs(SCRATCH)
    sh('git -C /verif archive HEAD | tar -x -C %s' % SCRATCH)
    for cache in ('lean/.lake', '.cache'):
        if os.path.isdir(os.path.join('/verif', cache)):
            sh('rsync -a /verif/%s/ %s/%s/' % (cache, SCRATCH, cache))
    envx = dict(os.environ, VERIF_SEED='1', VERIF_REPO=REPO)
    res = dict(name=name, target=meta.get('property'), summary=meta.get('summary'), started=time.strftime('%Y-%m-%dT%H:%M:%SZ', time.gmtime()), checks={})
    res['demo_original'] = demo(name, meta)
    rc, out = sh('git -C %s apply %s' % (REPO, patch))
    if rc != 0:
        print('patch does not apply:', out)
        return 2
    try:
        res['demo_patched'] = demo(name, meta)
        for pid in ids:
            t0 = time.time()
            rc, out = sh([os.path.join(SCRATCH, 'check'), pid, '--tier', 'quick'], cwd=SCRATCH, env=envx)
            lines = [l for l in out.split('\n') if l.startswith(('VIOLATION', 'OK ', 'KNOWN-FINDING'))]
            first = next((l for l in out.split('\n') if l.startswith('VIOLATION')), None)
            detail = ''
            if first:
                idx = out.split('\n').index(first)
                detail = '\n'.join(out.split('\n')[idx + 1: idx + 4])[:700]
            res['checks'][pid] = dict(rc=rc, wall=round(time.time() - t0, 1), lines=[l[:300] for l in lines][:6], detail=detail)
            print(pid, rc, (first or (lines[-1] if lines else out[-200:]))[:200], flush=True)
            if detail:
                print('    ' + detail.replace('\n', '\n    ')[:400], flush=True)
    finally:
        if in_repo:
            sh('git -C /repo checkout -- .')
        else:
            sh('git -C /repo worktree remove --force ' + REPO)
            if '--keep' not in sys.argv:
                shutil.rmtree(SCRATCH, ignore_errors=True)
    res['caught_by'] = sorted(p for p, r in res['checks'].items() if r['rc'] == 1)
    res['finished'] = time.strftime('%Y-%m-%dT%H:%M:%SZ', time.gmtime())
    res['checks_run'] = props or 'all'
    rc_, head = sh('git -C /verif rev-parse --short HEAD')
    res['verif_commit'] = head.strip()
    json.dump(res, open(os.path.join(d, 'result.json'), 'w'), indent=1)
    print('caught by:', res['caught_by'])
    rc, out = sh('git -C /repo status --porcelain')
    print('repo clean' if not out.strip() else 'REPO NOT CLEAN: ' + out)
    return 0


if __name__ == '__main__':
    sys.exit(main())
