#!/usr/bin/env python3
"""regenerate MANIFEST.json from properties.map.json (claimed properties) — keeps the manifest valid and consistent"""
import json, os
V = os.path.dirname(os.path.dirname(os.path.abspath(__file__)))
M = json.load(open(os.path.join(V, 'properties.map.json')))
ids = [json.loads(l)['id'] for l in open(os.path.join(V, 'properties.jsonl'))]
repo_commits = []
try:
    import subprocess
    out = subprocess.run(['git', '-C', '/repo', 'log', '--format=%h %s'], stdout=subprocess.PIPE, text=True).stdout
    repo_commits = [l.split()[0] for l in out.split('\n') if l and not l.split(' ', 1)[1].startswith(('fix:', 'snapshot'))]
except Exception:
    pass
checks, na = [], []
for p in ids:
    e = M.get(p)
    if e and e.get('claimed'):
        checks.append({
            "property_id": p,
            "quick_cmd": "./check %s --tier quick" % p,
            "thorough_cmd": "./check %s --tier thorough" % p,
            "evidence_file": "/verif/evidence/%s.json" % p,
            "replay_cmd_template": "./check %s --replay {path}" % p,
            "engine": "lean-model",
            "level_claimed": {"category": "proof", "text": e['level_text'], "design_ref": e.get('design_ref', 'DESIGN.md section 6, ' + p)},
            "level_note": e['level_note'],
            "technique": e['technique'],
        })
    else:
        na.append({"property_id": p, "reason": (e or {}).get('na_reason', "check not built yet: the Lean theorems for this property are still being written (DESIGN.md section 10 staging); not claimed until they exist")})
man = {
    "version": 1,
    "setup_cmd": "./check --setup",
    "hooks": {"guard": "GCH_SMALL_VECTOR_VERIF", "enable": "no source hooks are needed (everything is observed through the public API, instrumented element/allocator/iterator types and the compiler); the harness passes -DGCH_SMALL_VECTOR_VERIF, which the header does not read",
              "baseline_off_cmd": "cmake --build /repo/_build -j16 && ctest --test-dir /repo/_build -j8 --timeout 900", "source_commits": repo_commits, "add_only": True},
    "engines": [
        {"name": "lean-model", "path": "lean/", "serves_properties": [c['property_id'] for c in checks], "kind_free_text": "Lean 4 model (L0 list spec, L1 decision rules, L2 slot machine with fault schedules) and theorems; lake build + #print axioms audit"},
        {"name": "translator", "path": "tools/translate.py", "serves_properties": [c['property_id'] for c in checks], "kind_free_text": "regenerates lean/SvModel/Gen/*.lean (guards, growth, comparisons, policies, layout, noexcept flags) from the header text on every run"},
        {"name": "harness", "path": "harness/harness.cpp", "serves_properties": [c['property_id'] for c in checks], "kind_free_text": "instrumented C++ harness on the real header (ASan+UBSan), differential against the compiled Lean driver, direct property monitors"},
    ],
    "checks": checks,
    "notes": "Technique: machine-checked proof in Lean 4 about a model tied to /repo on every run by a translator (T) and a differential correspondence (D); direct monitors (W) supply concrete replays. See DESIGN.md.",
    "not_applicable": na,
}
json.dump(man, open(os.path.join(V, 'MANIFEST.json'), 'w'), indent=1)
print('claimed', [c['property_id'] for c in checks])
