#!/usr/bin/env python3
"""Input generation for the differential correspondence (D) and the direct monitors (W).

A *case* is a list of protocol lines executed from a fresh system (`reset`): a canonical prefix that builds a start
state, then the operation under test (possibly with a fault schedule `@k[,k2]`), then a fixed follow-up script that
exercises the survivors (C06 "usable afterwards").  Everything is deterministic given (N, M, tier, seed).
"""
import random

NAMES = 'abcd'


def vals(lo, n):
    return ','.join(str(lo + i) for i in range(n)) if n else '-'


def prefix_states(x, N, alloc=0, base=1, tier='quick'):
    """yield (label, lines, size, cap_hint) start states for container x with inline capacity N"""
    top = N + 4 if tier == 'thorough' else N + 3
    for s in range(0, top + 1):
        yield ('exact%d' % s, ['newr %s fw %d %s' % (x, alloc, vals(base, s))], s)
    for s in range(1, top + 1):
        yield ('grown%d' % s, ['new %s %d' % (x, alloc)] + ['pb %s v%d' % (x, base + i) for i in range(s)], s)
    for s in range(0, top + 1):
        if s % 2 == 0 or tier == 'thorough':
            yield ('slack%d' % s, ['newr %s fw %d %s' % (x, alloc, vals(base, s)), 'rsv %s %d' % (x, max(N, s) + 2)], s)
    for s in range(0, N + 1):
        g = N + 2
        yield ('heapinl%d' % s, ['new %s %d' % (x, alloc)] + ['pb %s v%d' % (x, base + i) for i in range(g)] + ['pop %s' % x] * (g - s), s)
    # a state with exactly one free slot at the end (cap - size == 1) on the heap
    s = N + 1
    yield ('onefree%d' % s, ['newr %s fw %d %s' % (x, alloc, vals(base, s)), 'rsv %s %d' % (x, s + 1)], s)


FOLLOW_UP = ['get {x} 0', 'pb {x} v77', 'ins {x} 0 v78', 'asn {x} 2 79', 'clr {x}', 'pb {x} v80', 'del {x}']


def single_ops(x, s, N, tier):
    """operations under test on container x of size s: (line, class label)"""
    ops = []
    ps = sorted(set([0, 1, s // 2, max(s - 1, 0), s]))
    ps = [p for p in ps if p <= s]
    if tier == 'thorough':
        ps = list(range(0, s + 1))
    al = sorted(set([0, s - 1])) if s else []
    counts = [0, 1, 2, 3, 5]
    ops.append(('pb %s v50' % x, 'pb'))
    ops.append(('pbm %s 51' % x, 'pbm'))
    for i in al:
        ops.append(('pb %s s%d' % (x, i), 'pb-alias'))
    for p in ps:
        ops.append(('ins %s %d v52' % (x, p), 'ins'))
        ops.append(('insm %s %d 53' % (x, p), 'insm'))
        for i in al:
            ops.append(('ins %s %d s%d' % (x, p, i), 'ins-alias'))
        for n in counts:
            ops.append(('insn %s %d %d v54' % (x, p, n), 'insn'))
            for i in al[-1:]:
                ops.append(('insn %s %d %d s%d' % (x, p, n, i), 'insn-alias'))
        for n in (0, 1, 2, 4):
            ops.append(('insr %s %d fw %s' % (x, p, vals(60, n)), 'insr-fw'))
            ops.append(('insr %s %d ra %s' % (x, p, vals(60, n)), 'insr-ra'))
    for n in (0, 1, 3):
        ops.append(('insr %s %d in %s' % (x, s, vals(60, n)), 'insr-in-end'))
    # single-pass range inserted mid-sequence: buffered in a temporary container (which spills to the heap beyond N)
    for p in ps:
        if p < s:
            for n in (1, 2, 4):
                ops.append(('insr %s %d in %s' % (x, p, vals(60, n)), 'insr-in-mid'))
    for p in range(s):
        if tier == 'thorough' or p in (0, s // 2, s - 1):
            ops.append(('era %s %d' % (x, p), 'era'))
    for p in ps:
        for q in ps:
            if p <= q:
                ops.append(('erar %s %d %d' % (x, p, q), 'erar'))
    if s:
        ops.append(('pop %s' % x, 'pop'))
    ops.append(('clr %s' % x, 'clr'))
    for n in sorted(set([0, 1, s, s + 1, s + 2, N, N + 1, 2 * s + 1, max(s - 1, 0)])):
        ops.append(('rsz %s %d' % (x, n), 'rsz'))
        ops.append(('rszv %s %d v55' % (x, n), 'rszv'))
        for i in al[-1:]:
            ops.append(('rszv %s %d s%d' % (x, n, i), 'rszv-alias'))
        ops.append(('rsv %s %d' % (x, n), 'rsv'))
        ops.append(('asn %s %d 56' % (x, n), 'asn'))
        ops.append(('asr %s fw %s' % (x, vals(70, n)), 'asr-fw'))
        ops.append(('asr %s ra %s' % (x, vals(70, n)), 'asr-ra'))
        ops.append(('asr %s in %s' % (x, vals(70, n)), 'asr-in'))
        ops.append(('app %s fw %s' % (x, vals(70, n)), 'app-fw'))
        ops.append(('app %s ra %s' % (x, vals(70, n)), 'app-ra'))
        ops.append(('app %s in %s' % (x, vals(70, n)), 'app-in'))
    ops.append(('stf %s' % x, 'stf'))
    ops.append(('at %s %d' % (x, s), 'at-oor'))
    if s:
        ops.append(('at %s %d' % (x, s - 1), 'at'))
    return ops


MAX_FAULT = 14


def enum_single(N, M, tier, with_faults=True):
    """small-scope enumeration of single-container operations on container a (capacity N) and c (capacity M)"""
    for x, cap in (('a', N),) + ((('c', M),) if M != N else ()):
        for label, pre, s in prefix_states(x, cap, tier=tier):
            for line, cls in single_ops(x, s, cap, tier):
                fu = [f.format(x=x) for f in FOLLOW_UP]
                yield dict(cls=cls, state=label, lines=pre + [line] + fu, test=len(pre))
                if with_faults and cls not in ('at', 'at-oor', 'pop', 'clr'):
                    for k in range(MAX_FAULT):
                        yield dict(cls=cls, state=label, lines=pre + [line + ' @%d' % k] + fu, test=len(pre), fault=(k,))


def ctor_cases(N, M, tier):
    for x, cap in (('a', N), ('c', M)):
        for n in sorted(set([0, 1, cap, cap + 1, cap + 3])):
            for line, cls in (('newn %s %d 0' % (x, n), 'newn'), ('newv %s %d 9 0' % (x, n), 'newv'),
                              ('newr %s fw 0 %s' % (x, vals(1, n)), 'newr-fw'), ('newr %s in 0 %s' % (x, vals(1, n)), 'newr-in'),
                              ('newg %s 0 %s' % (x, vals(1, n)), 'newg'), ('newr %s ra 0 %s' % (x, vals(1, n)), 'newr-ra')):
                fu = ['pb %s v5' % x, 'del %s' % x]
                yield dict(cls=cls, state='none', lines=[line] + fu, test=0)
                for k in range(MAX_FAULT):
                    yield dict(cls=cls, state='none', lines=[line + ' @%d' % k, 'new %s 0' % x] + fu, test=0, fault=(k,))


def pair_cases(N, M, tier, ids=(0, 0)):
    """two-container operations: every state class of the destination x every state class of the source"""
    pairs = [('a', 'b', N, N), ('a', 'c', N, M), ('c', 'a', M, N)]
    for x, y, cx, cy in pairs:
        ystates = list(prefix_states(y, cy, alloc=ids[1], base=20, tier='quick'))
        xstates = list(prefix_states(x, cx, alloc=ids[0], base=1, tier='quick'))
        if tier != 'thorough':
            ystates = [t for t in ystates if t[0].startswith(('exact', 'heapinl', 'slack'))]
            xstates = [t for t in xstates if t[0].startswith(('exact', 'heapinl', 'slack'))]
        # constructions of x from y
        for ylabel, ypre, ys in ystates:
            for line, cls in (('newc %s %s -' % (x, y), 'newc'), ('newm %s %s -' % (x, y), 'newm'),
                              ('newc %s %s %d' % (x, y, ids[0]), 'newc-alloc'), ('newm %s %s %d' % (x, y, ids[0]), 'newm-alloc')):
                fu = ['pb %s v90' % y, 'pb %s v91' % x, 'del %s' % x, 'del %s' % y]
                yield dict(cls=cls, state=ylabel, lines=ypre + [line] + fu, test=len(ypre))
                for k in range(8):
                    yield dict(cls=cls, state=ylabel, lines=ypre + [line + ' @%d' % k, 'pb %s v90' % y, 'del %s' % y], test=len(ypre), fault=(k,))
        for xlabel, xpre, xs in xstates:
            for ylabel, ypre, ys in ystates:
                for op in ('asc', 'asm', 'swp', 'appc', 'appm'):
                    if op == 'swp' and cx != cy:
                        continue
                    line = '%s %s %s' % (op, x, y)
                    fu = ['pb %s v90' % y, 'pb %s v91' % x, 'ins %s 0 v92' % x, 'del %s' % x, 'del %s' % y]
                    yield dict(cls=op, state=xlabel + '/' + ylabel, lines=xpre + ypre + [line] + fu, test=len(xpre) + len(ypre))
                    for k in range(10):
                        yield dict(cls=op, state=xlabel + '/' + ylabel, lines=xpre + ypre + [line + ' @%d' % k] + fu,
                                   test=len(xpre) + len(ypre), fault=(k,))


def narrow_big_cases(N, M, ms):
    """C12 with a 16-bit size_type (max_size() = ms in the thousands): a few calls at and beyond the limit; harness only
    (the lines carry thousands of values: no point in running the list model over them)"""
    x = 'a'
    for s in sorted(set([0, ms // 2 + 1, ms - 1, ms])):
        pre = ['newn %s %d 0' % (x, s)]
        room = ms - s
        ops = []
        for n in sorted(set(c for c in [1, room, room + 1, room + 1000, 65535] if 0 < c <= 65535)):
            ops += ['insn %s %d %d v54' % (x, s // 2, n), 'insn %s %d %d v54' % (x, s, n)]
        for n in sorted(set([s, ms - 1, ms, ms + 1, 40000, 65535])):
            ops += ['rsz %s %d' % (x, n), 'rszv %s %d v55' % (x, n), 'rsv %s %d' % (x, n), 'asn %s %d 56' % (x, n)]
        for n in sorted(set(c for c in [room, room + 1, ms + 1] if c > 0)):
            ops += ['asr %s fw %s' % (x, vals(70, n)), 'app %s fw %s' % (x, vals(70, n)), 'insr %s %d fw %s' % (x, s // 2, vals(70, n)), 'app %s in %s' % (x, vals(70, n))]
        ops += ['pb %s v50' % x, 'ins %s 0 v52' % x]
        for line in ops:
            yield dict(cls='narrow16:' + line.split()[0], state='size%d' % s, lines=pre + [line, 'pb %s v77' % x, 'clr %s' % x, 'del %s' % x], test=1)
    for n in sorted(set([ms - 1, ms, ms + 1, 40000, 65535])):
        for line in ('newn %s %d 0' % (x, n), 'newv %s %d 9 0' % (x, n)):
            yield dict(cls='narrow16:' + line.split()[0], state='none', lines=[line, 'pb %s v5' % x, 'del %s' % x], test=0)
    for n in (ms, ms + 1):
        yield dict(cls='narrow16:newr', state='none', lines=['newr %s fw 0 %s' % (x, vals(1, n)), 'pb %s v5' % x, 'del %s' % x], test=0)


def double_fault_cases(N, M, tier):
    """pairs of fault indices for operations with roll-back handlers (C06): the second fault can fire inside a handler"""
    x = 'a'
    for label, pre, s in prefix_states(x, N, tier='quick'):
        if not label.startswith(('slack', 'onefree', 'heapinl')):
            continue
        for p in sorted(set([0, s // 2])):
            if p > s:
                continue
            for line in ('insn %s %d 2 v54' % (x, p), 'insn %s %d 5 v54' % (x, p), 'insr %s %d fw 60,61' % (x, p), 'ins %s %d v52' % (x, p)):
                for k1 in range(8):
                    for k2 in range(3):
                        fu = [f.format(x=x) for f in FOLLOW_UP]
                        yield dict(cls='double:' + line.split()[0], state=label, lines=pre + [line + ' @%d,%d' % (k1, k2)] + fu, test=len(pre), fault=(k1, k2))


def random_histories(N, M, seed, count, length=40):
    rng = random.Random(seed)
    for h in range(count):
        lines = []
        size = [None] * 4   # tracked size assuming no throw (None = not constructed)
        for step in range(length):
            x = rng.randrange(4)
            nm = NAMES[x]
            cap = N if x < 2 else M
            if size[x] is None:
                r = rng.random()
                others = [y for y in range(4) if y != x and size[y] is not None]
                if r < 0.3 or not others:
                    n = rng.choice([0, 1, cap, cap + 1, cap + 3])
                    line = rng.choice(['new %s 0' % nm, 'newn %s %d 0' % (nm, n), 'newv %s %d 7 0' % (nm, n), 'newr %s fw 0 %s' % (nm, vals(100 + step, n)), 'newr %s in 0 %s' % (nm, vals(100 + step, n)),
                                       'newg %s 0 %s' % (nm, vals(100 + step, n))])
                    size[x] = 0 if line.startswith('new ') else n
                else:
                    y = rng.choice(others)
                    line = '%s %s %s -' % (rng.choice(['newc', 'newm']), nm, NAMES[y])
                    size[x] = size[y]
            else:
                s = size[x]
                p = rng.randint(0, s)
                r = rng.random()
                v = 100 + step
                if r < 0.22:
                    line = rng.choice(['pb %s v%d' % (nm, v), 'pbm %s %d' % (nm, v)] + (['pb %s s%d' % (nm, rng.randrange(s))] if s else []))
                    size[x] = s + 1
                elif r < 0.34:
                    line = rng.choice(['ins %s %d v%d' % (nm, p, v), 'insm %s %d %d' % (nm, p, v)] + (['ins %s %d s%d' % (nm, p, rng.randrange(s))] if s else []))
                    size[x] = s + 1
                elif r < 0.44:
                    n = rng.choice([0, 1, 2, 3, 6])
                    line = 'insn %s %d %d v%d' % (nm, p, n, v) if not s or rng.random() < 0.6 else 'insn %s %d %d s%d' % (nm, p, n, rng.randrange(s))
                    size[x] = s + n
                elif r < 0.52:
                    n = rng.choice([0, 1, 2, 4])
                    line = 'insr %s %d fw %s' % (nm, p, vals(v, n))
                    size[x] = s + n
                elif r < 0.58 and s:
                    q = rng.randint(p, s)
                    line = rng.choice(['era %s %d' % (nm, min(p, s - 1)), 'erar %s %d %d' % (nm, p, q), 'pop %s' % nm])
                    size[x] = s - 1 if not line.startswith('erar') else s - (q - p)
                elif r < 0.66:
                    n = rng.choice([0, s, s + 1, s + 3, max(s - 2, 0), cap])
                    line = rng.choice(['rsz %s %d' % (nm, n), 'rszv %s %d v%d' % (nm, n, v)])
                    size[x] = n
                elif r < 0.72:
                    line = rng.choice(['rsv %s %d' % (nm, rng.choice([0, s, s + 2, 2 * s + 3, cap + 1])), 'stf %s' % nm])
                elif r < 0.80:
                    n = rng.choice([0, 1, s, s + 2, cap + 1])
                    kind = rng.choice(['fw', 'in', 'ra'])
                    line = rng.choice(['asn %s %d %d' % (nm, n, v), 'asr %s %s %s' % (nm, kind, vals(v, n))])
                    size[x] = n
                elif r < 0.86:
                    n = rng.choice([0, 1, 2, 5])
                    line = 'app %s %s %s' % (nm, rng.choice(['fw', 'in', 'ra']), vals(v, n))
                    size[x] = s + n
                elif r < 0.97:
                    others = [y for y in range(4) if y != x and size[y] is not None]
                    if others:
                        y = rng.choice(others)
                        op = rng.choice(['asc', 'asm', 'swp', 'appc', 'appm'])
                        if op == 'swp' and (x < 2) != (y < 2):
                            op = 'asm'
                        line = '%s %s %s' % (op, nm, NAMES[y])
                        if op == 'swp':
                            size[x], size[y] = size[y], size[x]
                        elif op == 'appc':
                            size[x] = s + size[y]
                        elif op == 'appm':
                            size[x] = s + size[y]
                            size[y] = 0
                        else:
                            size[x] = size[y]
                    else:
                        line = 'clr %s' % nm
                        size[x] = 0
                else:
                    line = rng.choice(['del %s' % nm, 'at %s %d' % (nm, rng.randint(0, s + 1)), 'clr %s' % nm])
                    if line.startswith('del'):
                        size[x] = None
                    elif line.startswith('clr'):
                        size[x] = 0
            if rng.random() < 0.2 and not line.startswith(('at', 'del', 'pop', 'clr')):
                line += ' @%d' % rng.randrange(8)
                if rng.random() < 0.15:
                    line += ',%d' % rng.randrange(3)
            lines.append(line)
        lines += ['del %s' % NAMES[x] for x in range(4)]   # invalid for unconstructed ones: answered "invalid" by both sides
        yield dict(cls='history', state='random', lines=lines, test=None, seed=seed, index=h)


def iter_fault_cases(N, M, tier):
    """monitor-only cases: the caller's iterators throw at their k-th operation (` !k`); element faults may be combined"""
    x = 'a'
    for label, pre, s in prefix_states(x, N, tier='quick'):
        if not label.startswith(('exact', 'slack', 'heapinl')):
            continue
        for n in (1, 2, 4):
            ops = []
            for kind in ('fw', 'in'):
                ops += ['asr %s %s %s' % (x, kind, vals(70, n)), 'app %s %s %s' % (x, kind, vals(70, n)), 'insr %s %d %s %s' % (x, s, kind, vals(70, n))]
                ops += ['insr %s %d %s %s' % (x, p, kind, vals(70, n)) for p in sorted(set([0, s // 2]))]
            for line in ops:
                for k in range(0, 2 * n + 3):
                    fu = [f.format(x=x) for f in FOLLOW_UP]
                    yield dict(cls='iterfault:' + line.split()[0], state=label, lines=pre + [line + ' !%d' % k] + fu, test=len(pre), fault=('it', k))
    for n in (0, 1, N, N + 2):
        for kind in ('fw', 'in'):
            for k in range(0, 2 * n + 3):
                yield dict(cls='iterfault:newr', state='none', lines=['newr %s %s 0 %s !%d' % (x, kind, vals(1, n), k), 'new %s 0' % x, 'pb %s v5' % x, 'del %s' % x], test=0, fault=('it', k))
        # the generator constructor with a generator that throws at its k-th call, alone and after an element fault point
        for k in range(0, n + 2):
            yield dict(cls='iterfault:newg', state='none', lines=['newg %s 0 %s !%d' % (x, vals(1, n), k), 'new %s 0' % x, 'pb %s v5' % x, 'del %s' % x], test=0, fault=('it', k))


def narrow_cases(N, M, ms, tier):
    """C12: an allocator with a narrow size_type: every operation at and beyond max_size() = ms (counts <= 255)"""
    x = 'a'
    sizes = sorted(set([0, 1, N, ms // 2, ms - 3, ms - 1, ms]))
    for s in sizes:
        pre = ['newr %s fw 0 %s' % (x, vals(1, s))]
        room = ms - s
        counts = sorted(set(c for c in [0, 1, 2, room - 1, room, room + 1, room + 5, 100, 200, 255] if 0 <= c <= 255))
        ops = [('pb %s v50' % x, 'pb'), ('pbm %s 51' % x, 'pbm'), ('ins %s 0 v52' % x, 'ins'), ('ins %s %d v52' % (x, s), 'ins-end')]
        for n in counts:
            ops.append(('insn %s %d %d v54' % (x, s // 2, n), 'insn'))
            ops.append(('insn %s %d %d v54' % (x, s, n), 'insn-end'))
        for n in sorted(set(c for c in [0, s, ms - 1, ms, ms + 1, 100, 200, 255] if c <= 255)):
            ops += [('rsz %s %d' % (x, n), 'rsz'), ('rszv %s %d v55' % (x, n), 'rszv'), ('rsv %s %d' % (x, n), 'rsv'), ('asn %s %d 56' % (x, n), 'asn')]
        for n in sorted(set([1, room, room + 1, ms, ms + 1, 200, 255, 256, 300])):
            if n <= 0:
                continue
            ops += [('asr %s ra %s' % (x, vals(70, n)), 'asr-ra'), ('app %s ra %s' % (x, vals(70, n)), 'app-ra'), ('insr %s %d ra %s' % (x, s // 2, vals(70, n)), 'insr-ra'),
                    ('asr %s fw %s' % (x, vals(70, n)), 'asr-fw'), ('app %s fw %s' % (x, vals(70, n)), 'app-fw'), ('app %s in %s' % (x, vals(70, n)), 'app-in'),
                    ('insr %s %d fw %s' % (x, s // 2, vals(70, n)), 'insr-fw'), ('insr %s %d fw %s' % (x, s, vals(70, n)), 'insr-fw-end'),
                    ('asr %s in %s' % (x, vals(70, n)), 'asr-in'), ('insr %s %d in %s' % (x, s // 2, vals(70, n)), 'insr-in'),
                    ('insr %s %d in %s' % (x, s, vals(70, n)), 'insr-in-end')]
        for line, cls in ops:
            fu = ['pb %s v77' % x, 'clr %s' % x, 'del %s' % x]
            yield dict(cls='narrow:' + cls, state='size%d' % s, lines=pre + [line] + fu, test=1)
            if tier == 'thorough':
                for k in (0, 1, 3):
                    yield dict(cls='narrow:' + cls, state='size%d' % s, lines=pre + [line + ' @%d' % k] + fu, test=1, fault=(k,))
    for n in sorted(set([0, 1, N, N + 1, ms - 1, ms, ms + 1, 100, 200, 255])):
        for line, cls in (('newn %s %d 0' % (x, n), 'newn'), ('newv %s %d 9 0' % (x, n), 'newv')):
            yield dict(cls='narrow:' + cls, state='none', lines=[line, 'pb %s v5' % x, 'del %s' % x], test=0)
    for n in sorted(set([0, 1, N + 1, ms - 1, ms, ms + 1, 100, 200, 255, 256, 300])):
        for line, cls in (('newr %s fw 0 %s' % (x, vals(1, n)), 'newr-fw'), ('newr %s in 0 %s' % (x, vals(1, n)), 'newr-in'), ('newr %s ra 0 %s' % (x, vals(1, n)), 'newr-ra')):
            yield dict(cls='narrow:' + cls, state='none', lines=[line, 'pb %s v5' % x, 'del %s' % x], test=0)
    # copies / moves between containers at the limit
    for s in (ms - 1, ms):
        pre = ['newr c fw 0 %s' % vals(1, s)]
        for line in ('newc a c -', 'newm a c -'):
            yield dict(cls='narrow:' + line.split()[0], state='size%d' % s, lines=pre + [line, 'pb a v5', 'del a', 'del c'], test=1)
        pre2 = pre + ['new a 0']
        for line in ('asc a c', 'asm a c'):
            yield dict(cls='narrow:' + line.split()[0], state='size%d' % s, lines=pre2 + [line, 'pb a v5', 'del a', 'del c'], test=2)
