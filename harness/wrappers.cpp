// C01 monitor for the thin public wrappers that the line protocol does not drive one by one: initializer_list overloads,
// the generator constructor, emplace / emplace_back with constructor arguments, front / back / at / [] (const and
// non-const), reverse iteration, cross-capacity assign / append / constructors, operator= (initializer_list).
// Every call is made on a gch::small_vector<T, N> and on a std::vector<T> (append read as insert at end); after each
// call contents, size and the returned position / reference are compared.  Prints "W! C01 ..." per disagreement and
// "done <checks>" at the end.  No fault injection here (the wrappers forward to functions the protocol covers with it).
#include <gch/small_vector.hpp>

#include <cstdio>
#include <initializer_list>
#include <iterator>
#include <list>
#include <memory>
#include <sstream>
#include <stdexcept>
#include <string>
#include <vector>
#include <limits>

static long g_checks = 0;
static int g_bad = 0;

static void fail (const std::string& what)
{
  ++g_bad;
  std::printf ("W! C01 wrapper: %s\n", what.c_str ());
}

template <typename T> std::string show (const T& x);
template <> std::string show<int> (const int& x) { return std::to_string (x); }
template <> std::string show<std::string> (const std::string& x) { return "\"" + x + "\""; }

template <typename T> T mk (int i);
template <> int mk<int> (int i) { return i; }
template <> std::string mk<std::string> (int i) { return std::string (static_cast<std::size_t> (3 + i % 40), static_cast<char> ('a' + i % 26)); }

template <typename T> class fptr;
template <typename T> static T *raw (T *p) { return p; }
template <typename T> static T *raw (const fptr<T>& p);     // defined with the fancy pointer below

template <typename V, typename T>
static void same (const V& v, const std::vector<T>& s, const char *what, unsigned n)
{
  ++g_checks;
  bool ok = v.size () == s.size () && v.empty () == s.empty ();
  for (std::size_t i = 0; ok && i < s.size (); ++i) ok = v[i] == s[i] && v.data ()[i] == s[i] && v.at (i) == s[i];
  if (ok && ! s.empty ()) ok = v.front () == s.front () && v.back () == s.back () && &v.front () == raw (v.data ()) && &v.back () == raw (v.data ()) + (v.size () - 1);
  if (ok)
  {
    // reverse iteration, const iteration
    std::size_t k = s.size ();
    for (typename V::const_reverse_iterator it = v.rbegin (); it != v.rend (); ++it) { if (k == 0 || ! (*it == s[--k])) { ok = false; break; } }
    if (k != 0) ok = false;
    k = 0;
    for (typename V::const_iterator it = v.cbegin (); it != v.cend (); ++it, ++k) if (k >= s.size () || ! (*it == s[k])) { ok = false; break; }
    if (k != s.size ()) ok = false;
  }
  if (ok)
  {
    bool threw = false;
    try { (void) v.at (s.size ()); } catch (const std::out_of_range&) { threw = true; }
    if (! threw) ok = false;
  }
  if (ok)
  {
    // at (): out_of_range for EVERY index >= size (), through both overloads (indices beyond the range of difference_type included)
    typedef typename V::size_type ST;
    const ST mx = std::numeric_limits<ST>::max ();
    const ST probes[] = { static_cast<ST> (s.size ()), static_cast<ST> (s.size () + 1), static_cast<ST> (mx / 2), static_cast<ST> (mx / 2 + 1),
                          static_cast<ST> (mx / 2 + 2), static_cast<ST> (mx - s.size ()), static_cast<ST> (mx - 1), mx };
    V& mv = const_cast<V&> (v);     // the non-const overload (nothing is written)
    for (ST p : probes)
    {
      if (p < s.size ()) continue;
      bool t1 = false, t2 = false;
      try { (void) v.at (p); } catch (const std::out_of_range&) { t1 = true; }
      try { (void) mv.at (p); } catch (const std::out_of_range&) { t2 = true; }
      if (! t1 || ! t2)
      {
        fail (std::string (what) + " (N=" + std::to_string (n) + "): at (" + std::to_string (static_cast<unsigned long long> (p)) + ") with size () = "
              + std::to_string (s.size ()) + " did not throw std::out_of_range (" + (t1 ? "non-const" : t2 ? "const" : "either") + " overload)");
        break;
      }
    }
  }
  if (! ok)
  {
    std::string m = std::string (what) + " (N=" + std::to_string (n) + "): small_vector {";
    for (std::size_t i = 0; i < v.size (); ++i) m += (i ? "," : "") + show<T> (v[i]);
    m += "} but std::vector {";
    for (std::size_t i = 0; i < s.size (); ++i) m += (i ? "," : "") + show<T> (s[i]);
    m += "}";
    fail (m);
  }
}

struct Gen { int next; int operator() () { return next++; } };
struct GenS { int next; std::string operator() () { return mk<std::string> (next++); } };
template <typename T> struct GenFor;
template <> struct GenFor<int> { typedef Gen type; };
template <> struct GenFor<std::string> { typedef GenS type; };

template <typename T, unsigned N, unsigned M>
static void scenario (std::size_t pre)
{
  typedef gch::small_vector<T, N> V;
  typedef gch::small_vector<T, M> W;
  typedef std::vector<T> S;
  const T a = mk<T> (1), b = mk<T> (2), c = mk<T> (3), d = mk<T> (4);

  // constructors
  { V v { a, b, c }; S s { a, b, c }; same (v, s, "small_vector (initializer_list)", N); }
  { V v ({ a, b, c, d, a, b }, typename V::allocator_type ()); S s { a, b, c, d, a, b }; same (v, s, "small_vector (initializer_list, alloc)", N); }
  { V v (std::initializer_list<T> { }); S s; same (v, s, "small_vector (empty initializer_list)", N); }
  for (std::size_t n = 0; n <= 7; ++n)
  {
    typename GenFor<T>::type g = { 10 };
    V v (static_cast<typename V::size_type> (n), g);
    S s; typename GenFor<T>::type g2 = { 10 }; for (std::size_t i = 0; i < n; ++i) s.push_back (g2 ());
    same (v, s, "small_vector (count, generator)", N);
  }
  {
    std::list<T> l; for (int i = 0; i < 6; ++i) l.push_back (mk<T> (20 + i));
    V v (l.begin (), l.end ()); S s (l.begin (), l.end ()); same (v, s, "small_vector (bidirectional range)", N);
  }

  // a container with `pre` elements, driven through the wrappers
  V v; S s;
  for (std::size_t i = 0; i < pre; ++i) { v.push_back (mk<T> (static_cast<int> (30 + i))); s.push_back (mk<T> (static_cast<int> (30 + i))); }
  same (v, s, "push_back", N);

  // emplace / emplace_back with constructor arguments; returned references / iterators
  {
    T& r = v.emplace_back (a); s.emplace_back (a);
    if (&r != &v.back ()) fail ("emplace_back does not return a reference to back ()");
    same (v, s, "emplace_back (args)", N);
  }
  for (std::size_t p = 0; p <= s.size (); p += (s.size () > 3 ? s.size () / 3 : 1))
  {
    typename V::iterator it = v.emplace (v.begin () + static_cast<std::ptrdiff_t> (p), b);
    typename S::iterator is = s.emplace (s.begin () + static_cast<std::ptrdiff_t> (p), b);
    if (it - v.begin () != is - s.begin ()) fail ("emplace returns a different position");
    same (v, s, "emplace (pos, args)", N);
  }
  // insert (pos, initializer_list), append (initializer_list), insert (pos, il) at end and front
  for (std::size_t p = 0; p <= s.size (); p += (s.size () > 2 ? s.size () / 2 : 1))
  {
    typename V::iterator it = v.insert (v.begin () + static_cast<std::ptrdiff_t> (p), { c, d, a });
    typename S::iterator is = s.insert (s.begin () + static_cast<std::ptrdiff_t> (p), { c, d, a });
    if (it - v.begin () != is - s.begin ()) fail ("insert (pos, initializer_list) returns a different position");
    same (v, s, "insert (pos, initializer_list)", N);
    it = v.insert (v.begin () + static_cast<std::ptrdiff_t> (p), std::initializer_list<T> { });
    is = s.insert (s.begin () + static_cast<std::ptrdiff_t> (p), std::initializer_list<T> { });
    if (it - v.begin () != is - s.begin ()) fail ("insert (pos, empty initializer_list) returns a different position");
    same (v, s, "insert (pos, empty initializer_list)", N);
  }
  v.append ({ a, b }); s.insert (s.end (), { a, b }); same (v, s, "append (initializer_list)", N);
  {
    std::list<T> l; for (int i = 0; i < 5; ++i) l.push_back (mk<T> (50 + i));
    v.append (l.begin (), l.end ()); s.insert (s.end (), l.begin (), l.end ()); same (v, s, "append (bidirectional range)", N);
    typename V::iterator it = v.insert (v.begin () + 1, l.begin (), l.end ());
    typename S::iterator is = s.insert (s.begin () + 1, l.begin (), l.end ());
    if (it - v.begin () != is - s.begin ()) fail ("insert (pos, bidirectional range) returns a different position");
    same (v, s, "insert (pos, bidirectional range)", N);
  }
  // cross-capacity copy / move: constructors, assign, append
  {
    W w (v); S t (s); same (w, t, "small_vector<T, M> (const small_vector<T, N>&)", M);
    W w2; w2.assign (v); same (w2, t, "assign (const small_vector<T, N>&)", M);
    W w3 { d, d }; S t3 { d, d }; w3.append (v); t3.insert (t3.end (), s.begin (), s.end ()); same (w3, t3, "append (const small_vector<T, N>&)", M);
    V v2 (v); W w4 (std::move (v2)); same (w4, t, "small_vector<T, M> (small_vector<T, N>&&)", M);
    V v3 (v); W w5 { a }; w5.assign (std::move (v3)); same (w5, t, "assign (small_vector<T, N>&&)", M);
    V v4 (v); W w6 { b, c }; S t6 { b, c }; w6.append (std::move (v4)); t6.insert (t6.end (), s.begin (), s.end ()); same (w6, t6, "append (small_vector<T, N>&&)", M);
    if (! v4.empty ()) fail ("append (small_vector&&) leaves a non-empty source");
  }
  // assign (il), operator= (il), assign (count, value), resize
  v.assign ({ d, c }); s.assign ({ d, c }); same (v, s, "assign (initializer_list)", N);
  v = { a, b, c, d, a, b, c }; s = { a, b, c, d, a, b, c }; same (v, s, "operator= (initializer_list)", N);
  v = { }; s = { }; same (v, s, "operator= (empty initializer_list)", N);
  v.assign (static_cast<typename V::size_type> (pre), c); s.assign (pre, c); same (v, s, "assign (count, value)", N);
  // front / back / [] / at are references into the container
  if (! s.empty ())
  {
    v.front () = d; s.front () = d; v.back () = a; s.back () = a; v[s.size () / 2] = b; s[s.size () / 2] = b; v.at (0) = c; s.at (0) = c;
    same (v, s, "writes through front / back / [] / at", N);
  }
  // member swap between differently filled containers of the same type
  {
    V x { a, b, c, d, a }, y { d }; S sx { a, b, c, d, a }, sy { d };
    x.swap (y); sx.swap (sy); same (x, sx, "swap (member), receiver", N); same (y, sy, "swap (member), argument", N);
    swap (x, y); sx.swap (sy); same (x, sx, "swap (non-member), first", N); same (y, sy, "swap (non-member), second", N);
  }
}

// iterator algebra (C01 "returned iterator positions", C02 "all iterator flavours agree", C18 "random-access iterators"):
// every operator of small_vector_iterator — pre/post ++ and --, +=, -=, it + n, n + it, it - n, it - it, [], ->, *, the six
// comparisons, also between iterator and const_iterator, the converting constructor, reverse iterators — against plain
// index arithmetic on data ()
template <typename V>
static void iterator_algebra (V& v, const char *what, unsigned n)
{
  typedef typename V::iterator It;
  typedef typename V::const_iterator CIt;
  typedef typename V::difference_type D;
  const V& cv = v;
  const D sz = static_cast<D> (v.size ());
  bool ok = true;
  std::string why;
#define IT_CHECK(cond) do { ++g_checks; if (! (cond)) { if (ok) why = #cond; ok = false; } } while (0)
  IT_CHECK (v.end () - v.begin () == sz);
  IT_CHECK (cv.end () - cv.begin () == sz);
  IT_CHECK (v.cend () - v.cbegin () == sz);
  IT_CHECK (v.rend () - v.rbegin () == sz);
  IT_CHECK (v.crend () - v.crbegin () == sz);
  IT_CHECK (cv.rend () - cv.rbegin () == sz);
  for (D i = 0; i <= sz; ++i)
  {
    It a = v.begin () + i;
    CIt ca = a;                       // converting constructor
    IT_CHECK (a - v.begin () == i);
    IT_CHECK (ca - v.cbegin () == i);
    IT_CHECK (i + v.begin () == a);
    IT_CHECK (v.end () - (sz - i) == a);
    IT_CHECK (v.end () - a == sz - i);
    IT_CHECK (ca == a); IT_CHECK (a == ca); IT_CHECK (! (ca != a)); IT_CHECK (! (a != ca));
    { It t = v.begin (); t += i; IT_CHECK (t == a); t -= i; IT_CHECK (t == v.begin ()); }
    { It t = v.end (); t -= (sz - i); IT_CHECK (t == a); t += (sz - i); IT_CHECK (t == v.end ()); }
    if (i < sz)
    {
      IT_CHECK (&*a == raw (v.data ()) + i);
      IT_CHECK (&*ca == raw (cv.data ()) + i);
      IT_CHECK (&v.begin ()[i] == raw (v.data ()) + i);
      IT_CHECK (&v.cbegin ()[i] == raw (cv.data ()) + i);
      IT_CHECK (raw (a.operator-> ()) == raw (v.data ()) + i);
      IT_CHECK (&(v.end ()[i - sz]) == raw (v.data ()) + i);
      { It t = a; It r = t++; IT_CHECK (r == a); IT_CHECK (t - a == 1); It q = ++r; IT_CHECK (q == t); IT_CHECK (r == t); }
      IT_CHECK (&*(v.rbegin () + (sz - 1 - i)) == raw (v.data ()) + i);
      IT_CHECK (&*(v.rend () - (i + 1)) == raw (v.data ()) + i);
    }
    if (i > 0)
    {
      It t = a; It r = t--; IT_CHECK (r == a); IT_CHECK (a - t == 1); It q = --r; IT_CHECK (q == t); IT_CHECK (r == t);
      CIt ct = ca; --ct; IT_CHECK (&*ct == raw (cv.data ()) + (i - 1));
    }
    for (D j = 0; j <= sz; ++j)
    {
      It b = v.begin () + j;
      CIt cb = v.cbegin () + j;
      IT_CHECK ((a == b) == (i == j)); IT_CHECK ((a != b) == (i != j));
      IT_CHECK ((a < b) == (i < j));   IT_CHECK ((a <= b) == (i <= j));
      IT_CHECK ((a > b) == (i > j));   IT_CHECK ((a >= b) == (i >= j));
      IT_CHECK ((a < cb) == (i < j));  IT_CHECK ((ca <= b) == (i <= j));
      IT_CHECK ((ca > b) == (i > j));  IT_CHECK ((a >= cb) == (i >= j));
      IT_CHECK (b - a == j - i);       IT_CHECK (cb - a == j - i);      IT_CHECK (b - ca == j - i);
      IT_CHECK (a + (j - i) == b);     IT_CHECK (b - (j - i) == a);     IT_CHECK ((j - i) + a == b);
      { It t = a; t += (j - i); IT_CHECK (t == b); t -= (j - i); IT_CHECK (t == a); }      // offsets of both signs
      { CIt t = ca; t -= (i - j); IT_CHECK (t == cb); t += (i - j); IT_CHECK (t == ca); }
      if (j < sz) { IT_CHECK (&a[j - i] == raw (v.data ()) + j); IT_CHECK (&ca[j - i] == raw (cv.data ()) + j); }
    }
  }
#undef IT_CHECK
  if (! ok) fail (std::string ("iterator algebra, ") + what + " (N=" + std::to_string (n) + ", size " + std::to_string (v.size ()) + "): " + why);
}

template <typename T, unsigned N>
static void iterator_scenarios (void)
{
  for (std::size_t sz = 0; sz <= 2 * N + 3; sz += (sz < 4 ? 1 : 3))
  {
    gch::small_vector<T, N> v;
    for (std::size_t i = 0; i < sz; ++i) v.push_back (mk<T> (static_cast<int> (i)));
    iterator_algebra (v, "after push_back", N);
    if (sz > 1) { v.erase (v.begin ()); iterator_algebra (v, "after erase", N); }
    v.shrink_to_fit (); iterator_algebra (v, "after shrink_to_fit", N);
  }
}

// a minimal FANCY POINTER (a class type wrapping T*) and an allocator handing it out: small_vector_iterator<Pointer>,
// to_address / pointer_traits, the non-launder dereference branches and every pointer computation of the container
// then run through a user-defined pointer type instead of T*
template <typename T>
class fptr
{
  T *p;
public:
  typedef T element_type;
  typedef std::ptrdiff_t difference_type;
  typedef typename std::remove_cv<T>::type value_type;
  typedef T& reference;
  typedef fptr pointer;
  typedef std::random_access_iterator_tag iterator_category;
#if defined (__cpp_lib_concepts) || __cplusplus >= 202002L
  typedef std::contiguous_iterator_tag iterator_concept;
#endif
  template <typename U> using rebind = fptr<U>;
  fptr () noexcept : p (nullptr) { }
  fptr (std::nullptr_t) noexcept : p (nullptr) { }
  fptr (T *q) noexcept : p (q) { }      // implicit, as the header requires of an allocator's pointer type (storage () returns T*)
  // … and static_cast from (const) void*, as stack_temporary / heap_temporary use it
  template <typename V, typename std::enable_if<std::is_same<V, void>::value && ! std::is_const<T>::value, int>::type = 0>
  explicit fptr (V *q) noexcept : p (static_cast<T *> (q)) { }
  template <typename V, typename std::enable_if<std::is_same<V, const void>::value && std::is_const<T>::value, int>::type = 0>
  explicit fptr (V *q) noexcept : p (static_cast<T *> (q)) { }
  // static_cast from the allocator's void pointer types (Cpp17Allocator requirements)
  template <typename V, typename std::enable_if<std::is_void<V>::value && (std::is_const<T>::value || ! std::is_const<V>::value), int>::type = 0>
  explicit fptr (const fptr<V>& o) noexcept : p (static_cast<T *> (o.get ())) { }
  template <typename U, typename std::enable_if<std::is_convertible<U *, T *>::value && ! std::is_same<U, T>::value, int>::type = 0>
  fptr (const fptr<U>& o) noexcept : p (o.get ()) { }
  T *get () const noexcept { return p; }
  T& operator* () const noexcept { return *p; }
  T *operator-> () const noexcept { return p; }
  T& operator[] (difference_type n) const noexcept { return p[n]; }
  fptr& operator++ () noexcept { ++p; return *this; }
  fptr operator++ (int) noexcept { fptr t (*this); ++p; return t; }
  fptr& operator-- () noexcept { --p; return *this; }
  fptr operator-- (int) noexcept { fptr t (*this); --p; return t; }
  fptr& operator+= (difference_type n) noexcept { p += n; return *this; }
  fptr& operator-= (difference_type n) noexcept { p -= n; return *this; }
  friend fptr operator+ (fptr a, difference_type n) noexcept { return fptr (a.p + n); }
  friend fptr operator+ (difference_type n, fptr a) noexcept { return fptr (a.p + n); }
  friend fptr operator- (fptr a, difference_type n) noexcept { return fptr (a.p - n); }
  friend difference_type operator- (fptr a, fptr b) noexcept { return a.p - b.p; }
  friend bool operator== (fptr a, fptr b) noexcept { return a.p == b.p; }
  friend bool operator!= (fptr a, fptr b) noexcept { return a.p != b.p; }
  friend bool operator< (fptr a, fptr b) noexcept { return a.p < b.p; }
  friend bool operator<= (fptr a, fptr b) noexcept { return a.p <= b.p; }
  friend bool operator> (fptr a, fptr b) noexcept { return a.p > b.p; }
  friend bool operator>= (fptr a, fptr b) noexcept { return a.p >= b.p; }
  friend bool operator== (fptr a, std::nullptr_t) noexcept { return a.p == nullptr; }
  friend bool operator!= (fptr a, std::nullptr_t) noexcept { return a.p != nullptr; }
  friend bool operator== (std::nullptr_t, fptr a) noexcept { return a.p == nullptr; }
  friend bool operator!= (std::nullptr_t, fptr a) noexcept { return a.p != nullptr; }
  explicit operator bool () const noexcept { return p != nullptr; }
  static fptr pointer_to (T& r) noexcept { return fptr (std::addressof (r)); }
};

template <> class fptr<void>
{
  void *p;
public:
  typedef void element_type; typedef std::ptrdiff_t difference_type; template <typename U> using rebind = fptr<U>;
  fptr () noexcept : p (nullptr) { } fptr (std::nullptr_t) noexcept : p (nullptr) { } fptr (void *q) noexcept : p (q) { }
  template <typename U> fptr (const fptr<U>& o) noexcept : p (o.get ()) { }
  void *get () const noexcept { return p; }
  explicit operator bool () const noexcept { return p != nullptr; }
  friend bool operator== (fptr a, fptr b) noexcept { return a.p == b.p; }
  friend bool operator!= (fptr a, fptr b) noexcept { return a.p != b.p; }
  friend bool operator== (fptr a, std::nullptr_t) noexcept { return a.p == nullptr; }
  friend bool operator!= (fptr a, std::nullptr_t) noexcept { return a.p != nullptr; }
  friend bool operator== (std::nullptr_t, fptr a) noexcept { return a.p == nullptr; }
  friend bool operator!= (std::nullptr_t, fptr a) noexcept { return a.p != nullptr; }
};
template <> class fptr<const void>
{
  const void *p;
public:
  typedef const void element_type; typedef std::ptrdiff_t difference_type; template <typename U> using rebind = fptr<U>;
  fptr () noexcept : p (nullptr) { } fptr (std::nullptr_t) noexcept : p (nullptr) { } fptr (const void *q) noexcept : p (q) { }
  template <typename U> fptr (const fptr<U>& o) noexcept : p (o.get ()) { }
  const void *get () const noexcept { return p; }
  explicit operator bool () const noexcept { return p != nullptr; }
  friend bool operator== (fptr a, fptr b) noexcept { return a.p == b.p; }
  friend bool operator!= (fptr a, fptr b) noexcept { return a.p != b.p; }
  friend bool operator== (fptr a, std::nullptr_t) noexcept { return a.p == nullptr; }
  friend bool operator!= (fptr a, std::nullptr_t) noexcept { return a.p != nullptr; }
  friend bool operator== (std::nullptr_t, fptr a) noexcept { return a.p == nullptr; }
  friend bool operator!= (std::nullptr_t, fptr a) noexcept { return a.p != nullptr; }
};
template <typename T> static T *raw (const fptr<T>& p) { return p.get (); }

static long g_fancy_live = 0;   // blocks handed out by the fancy allocator and not yet returned
template <typename T>
struct fancy_alloc
{
  typedef T value_type;
  typedef fptr<T> pointer;
  typedef fptr<const T> const_pointer;
  typedef std::size_t size_type;
  typedef std::ptrdiff_t difference_type;
  fancy_alloc () noexcept { }
  template <typename U> fancy_alloc (const fancy_alloc<U>&) noexcept { }
  pointer allocate (size_type n) { ++g_fancy_live; return pointer (static_cast<T *> (::operator new (n * sizeof (T)))); }
  void deallocate (pointer p, size_type) noexcept { --g_fancy_live; ::operator delete (p.get ()); }
};
template <typename T, typename U> bool operator== (const fancy_alloc<T>&, const fancy_alloc<U>&) noexcept { return true; }
template <typename T, typename U> bool operator!= (const fancy_alloc<T>&, const fancy_alloc<U>&) noexcept { return false; }

template <typename T, unsigned N>
static void fancy_scenario (std::size_t pre)
{
  typedef gch::small_vector<T, N, fancy_alloc<T>> V;
  typedef std::vector<T> S;
  const T a = mk<T> (1), b = mk<T> (2), c = mk<T> (3);
  {
    V v; S s;
    for (std::size_t i = 0; i < pre; ++i) { v.push_back (mk<T> (static_cast<int> (30 + i))); s.push_back (mk<T> (static_cast<int> (30 + i))); }
    same (v, s, "push_back (fancy pointer)", N);
    iterator_algebra (v, "fancy pointer", N);
    for (std::size_t p = 0; p <= s.size (); p += (s.size () > 2 ? s.size () / 2 : 1))
    {
      typename V::iterator it = v.insert (v.begin () + static_cast<std::ptrdiff_t> (p), a);
      typename S::iterator is = s.insert (s.begin () + static_cast<std::ptrdiff_t> (p), a);
      if (it - v.begin () != is - s.begin ()) fail ("insert returns a different position (fancy pointer)");
      same (v, s, "insert (pos, x), fancy pointer", N);
      it = v.insert (v.begin () + static_cast<std::ptrdiff_t> (p), static_cast<typename V::size_type> (3), b);
      is = s.insert (s.begin () + static_cast<std::ptrdiff_t> (p), 3, b);
      if (it - v.begin () != is - s.begin ()) fail ("insert (pos, n, x) returns a different position (fancy pointer)");
      same (v, s, "insert (pos, n, x), fancy pointer", N);
      it = v.insert (v.begin () + static_cast<std::ptrdiff_t> (p), s.begin (), s.begin () + (s.size () > 2 ? 2 : 0));
      { S t (s.begin (), s.begin () + (s.size () > 2 ? 2 : 0)); is = s.insert (s.begin () + static_cast<std::ptrdiff_t> (p), t.begin (), t.end ()); }
      same (v, s, "insert (pos, first, last), fancy pointer", N);
    }
    if (! s.empty ()) { v.erase (v.begin ()); s.erase (s.begin ()); same (v, s, "erase (pos), fancy pointer", N); }
    if (s.size () > 2) { v.erase (v.begin () + 1, v.end () - 1); s.erase (s.begin () + 1, s.end () - 1); same (v, s, "erase (first, last), fancy pointer", N); }
    v.resize (static_cast<typename V::size_type> (s.size () + 3), c); s.resize (s.size () + 3, c); same (v, s, "resize (n, x), fancy pointer", N);
    v.reserve (static_cast<typename V::size_type> (2 * s.size () + 1)); same (v, s, "reserve, fancy pointer", N);
    v.shrink_to_fit (); same (v, s, "shrink_to_fit, fancy pointer", N);
    V w (v); same (w, s, "copy construction, fancy pointer", N);
    V x (std::move (w)); same (x, s, "move construction, fancy pointer", N);
    V y; y = v; same (y, s, "copy assignment, fancy pointer", N);
    V z; z.push_back (a); z = std::move (y); same (z, s, "move assignment, fancy pointer", N);
    V u { a, b }; S su { a, b }; u.swap (z); su.swap (s); same (u, su, "swap, receiver, fancy pointer", N); same (z, s, "swap, argument, fancy pointer", N);
    u.assign (static_cast<typename V::size_type> (pre), b); su.assign (pre, b); same (u, su, "assign (n, x), fancy pointer", N);
    u.assign (s.begin (), s.end ()); su.assign (s.begin (), s.end ()); same (u, su, "assign (first, last), fancy pointer", N);
    u.append (s.begin (), s.end ()); su.insert (su.end (), s.begin (), s.end ()); same (u, su, "append (first, last), fancy pointer", N);
    u.clear (); su.clear (); same (u, su, "clear, fancy pointer", N);
    if (! s.empty ()) { z.pop_back (); s.pop_back (); same (z, s, "pop_back, fancy pointer", N); }
  }
  if (g_fancy_live != 0) { fail ("fancy-pointer allocator: " + std::to_string (g_fancy_live) + " block(s) not returned"); g_fancy_live = 0; }
}

// an allocator with its OWN construct / destroy (an allocator-aware container must route every element construction and
// destruction through them — also for trivially copyable element types, where the header otherwise uses memcpy and skips
// destructors): the hooks count, so at every quiescent point  constructed - destroyed == number of live elements
static long g_hook_constructed = 0, g_hook_destroyed = 0, g_hook_blocks = 0;
template <typename T>
struct hook_alloc
{
  typedef T value_type;
  hook_alloc () noexcept { }
  template <typename U> hook_alloc (const hook_alloc<U>&) noexcept { }
  T *allocate (std::size_t n) { ++g_hook_blocks; return static_cast<T *> (::operator new (n * sizeof (T))); }
  void deallocate (T *p, std::size_t) noexcept { --g_hook_blocks; ::operator delete (p); }
  template <typename U, typename... Args> void construct (U *p, Args&&... args) { ++g_hook_constructed; ::new (static_cast<void *> (p)) U (std::forward<Args> (args)...); }
  template <typename U> void destroy (U *p) { ++g_hook_destroyed; p->~U (); }
};
template <typename T, typename U> bool operator== (const hook_alloc<T>&, const hook_alloc<U>&) noexcept { return true; }
template <typename T, typename U> bool operator!= (const hook_alloc<T>&, const hook_alloc<U>&) noexcept { return false; }

template <typename V>
static void hook_check (const V& v, const char *what, unsigned n)
{
  ++g_checks;
  if (g_hook_constructed - g_hook_destroyed != static_cast<long> (v.size ()))
    fail (std::string ("allocator construct / destroy hooks bypassed after ") + what + " (N=" + std::to_string (n) + "): constructed - destroyed = "
          + std::to_string (g_hook_constructed - g_hook_destroyed) + " but size () = " + std::to_string (v.size ()));
}

template <typename T, unsigned N>
static void hook_scenario (std::size_t pre)
{
  typedef gch::small_vector<T, N, hook_alloc<T>> V;
  g_hook_constructed = g_hook_destroyed = 0;
  const T a = mk<T> (1), b = mk<T> (2);
  {
    V v;
    for (std::size_t i = 0; i < pre; ++i) { v.push_back (mk<T> (static_cast<int> (30 + i))); hook_check (v, "push_back", N); }
    v.insert (v.begin () + static_cast<std::ptrdiff_t> (v.size () / 2), a); hook_check (v, "insert (pos, x)", N);
    v.insert (v.begin (), static_cast<typename V::size_type> (3), b); hook_check (v, "insert (pos, n, x)", N);
    { std::vector<T> r; r.push_back (a); r.push_back (b); v.insert (v.begin () + 1, r.begin (), r.end ()); hook_check (v, "insert (pos, first, last)", N);
      v.append (r.begin (), r.end ()); hook_check (v, "append (first, last)", N); }
    v.erase (v.begin ()); hook_check (v, "erase (pos)", N);
    if (v.size () > 2) { v.erase (v.begin () + 1, v.end () - 1); hook_check (v, "erase (first, last)", N); }
    v.resize (static_cast<typename V::size_type> (v.size () + 4)); hook_check (v, "resize (n)", N);
    v.resize (static_cast<typename V::size_type> (v.size () + 2), a); hook_check (v, "resize (n, x)", N);
    v.reserve (static_cast<typename V::size_type> (3 * v.size () + 1)); hook_check (v, "reserve", N);
    v.shrink_to_fit (); hook_check (v, "shrink_to_fit", N);
    v.pop_back (); hook_check (v, "pop_back", N);
    v.assign (static_cast<typename V::size_type> (pre + 1), b); hook_check (v, "assign (n, x)", N);
    { std::vector<T> r (pre, a); v.assign (r.begin (), r.end ()); hook_check (v, "assign (first, last)", N); }
    {
      V w (v);
      if (g_hook_constructed - g_hook_destroyed != static_cast<long> (v.size () + w.size ())) fail ("allocator hooks bypassed by copy construction (N=" + std::to_string (N) + ")");
      V x (std::move (w));
      V y; y = v; V z; z.push_back (a); z = std::move (y); z.swap (x);
      if (g_hook_constructed - g_hook_destroyed != static_cast<long> (v.size () + w.size () + x.size () + y.size () + z.size ()))
        fail ("allocator hooks bypassed by copy / move assignment or swap (N=" + std::to_string (N) + ")");
    }
    hook_check (v, "destruction of copies", N);
    v.clear (); hook_check (v, "clear", N);
  }
  if (g_hook_constructed != g_hook_destroyed) fail ("allocator hooks: " + std::to_string (g_hook_constructed) + " constructions but " + std::to_string (g_hook_destroyed) + " destructions (N=" + std::to_string (N) + ")");
  if (g_hook_blocks != 0) { fail ("allocator with hooks: blocks not returned"); g_hook_blocks = 0; }
}

// a MOVE-ONLY element type (std::unique_ptr<int>): everything std::vector offers for it — emplace_back, push_back (T&&),
// insert / emplace of an rvalue, erase, pop_back, resize (n), reserve, shrink_to_fit, move construction / assignment across
// inline capacities, swap, append (small_vector&&), clear — compared with std::vector through the pointees
template <typename V>
static void same_ptrs (const V& v, const std::vector<std::unique_ptr<int>>& s, const char *what, unsigned n)
{
  ++g_checks;
  bool ok = v.size () == s.size ();
  for (std::size_t i = 0; ok && i < s.size (); ++i) ok = (! v[i] && ! s[i]) || (v[i] && s[i] && *v[i] == *s[i]);
  if (! ok) fail (std::string (what) + " (move-only element type, N=" + std::to_string (n) + ", size " + std::to_string (v.size ()) + " vs " + std::to_string (s.size ()) + ")");
}

template <unsigned N, unsigned M>
static void moveonly_scenario (std::size_t pre)
{
  typedef std::unique_ptr<int> P;
  typedef gch::small_vector<P, N> V;
  typedef gch::small_vector<P, M> W;
  typedef std::vector<P> S;
  V v; S s;
  for (std::size_t i = 0; i < pre; ++i) { v.emplace_back (new int (static_cast<int> (i))); s.emplace_back (new int (static_cast<int> (i))); }
  same_ptrs (v, s, "emplace_back", N);
  v.push_back (P (new int (100))); s.push_back (P (new int (100))); same_ptrs (v, s, "push_back (T&&)", N);
  for (std::size_t p = 0; p <= s.size (); p += (s.size () > 2 ? s.size () / 2 : 1))
  {
    typename V::iterator it = v.insert (v.begin () + static_cast<std::ptrdiff_t> (p), P (new int (200 + static_cast<int> (p))));
    typename S::iterator is = s.insert (s.begin () + static_cast<std::ptrdiff_t> (p), P (new int (200 + static_cast<int> (p))));
    if (it - v.begin () != is - s.begin ()) fail ("insert (pos, T&&) returns a different position (move-only element type)");
    same_ptrs (v, s, "insert (pos, T&&)", N);
    v.emplace (v.begin () + static_cast<std::ptrdiff_t> (p), new int (300)); s.emplace (s.begin () + static_cast<std::ptrdiff_t> (p), new int (300));
    same_ptrs (v, s, "emplace (pos, args)", N);
  }
  v.erase (v.begin ()); s.erase (s.begin ()); same_ptrs (v, s, "erase (pos)", N);
  if (s.size () > 3) { v.erase (v.begin () + 1, v.begin () + 3); s.erase (s.begin () + 1, s.begin () + 3); same_ptrs (v, s, "erase (first, last)", N); }
  v.resize (static_cast<typename V::size_type> (s.size () + 2)); s.resize (s.size () + 2); same_ptrs (v, s, "resize (n) growing", N);
  v.reserve (static_cast<typename V::size_type> (2 * s.size () + 3)); same_ptrs (v, s, "reserve", N);
  v.shrink_to_fit (); same_ptrs (v, s, "shrink_to_fit", N);
  v.pop_back (); s.pop_back (); same_ptrs (v, s, "pop_back", N);
  { V x (std::move (v)); same_ptrs (x, s, "move construction", N); v = std::move (x); same_ptrs (v, s, "move assignment", N); }
  { W w (std::move (v)); same_ptrs (w, s, "move construction across inline capacities", M); v.assign (std::move (w)); same_ptrs (v, s, "assign (small_vector<T, M>&&)", N); }
  {
    V y; y.emplace_back (new int (7)); S sy; sy.emplace_back (new int (7));
    y.swap (v); sy.swap (s); same_ptrs (v, s, "swap, argument", N); same_ptrs (y, sy, "swap, receiver", N);
    W w; w.emplace_back (new int (8)); w.emplace_back (new int (9));
    y.append (std::move (w));
    sy.emplace_back (new int (8)); sy.emplace_back (new int (9));
    same_ptrs (y, sy, "append (small_vector<T, M>&&)", N);
    if (! w.empty ()) fail ("append (small_vector&&) leaves a non-empty source (move-only element type)");
    v.swap (y); s.swap (sy);
  }
  v.resize (static_cast<typename V::size_type> (s.size () / 2)); s.resize (s.size () / 2); same_ptrs (v, s, "resize (n) shrinking", N);
  v.clear (); s.clear (); same_ptrs (v, s, "clear", N);
}

// an element type WITHOUT assignment operators (std::vector accepts it for construction, push_back / emplace_back,
// reserve, resize, pop_back, clear and assign from single-pass iterators): the header has a dedicated
// assign_with_range overload for it ("if not assignable then destroy all elements and append")
struct NoAssign
{
  int v;
  NoAssign (int x) : v (x) { }
  NoAssign (const NoAssign& o) : v (o.v) { }
  NoAssign (NoAssign&& o) noexcept : v (o.v) { o.v = -1; }
  NoAssign& operator= (const NoAssign&) = delete;
  NoAssign& operator= (NoAssign&&) = delete;
  bool operator== (const NoAssign& o) const { return v == o.v; }
};

template <typename V>
static void same_ints (const V& v, const std::vector<int>& s, const char *what, unsigned n)
{
  ++g_checks;
  bool ok = v.size () == s.size () && v.empty () == s.empty ();
  for (std::size_t i = 0; ok && i < s.size (); ++i) ok = v[i].v == s[i] && v.data ()[i].v == s[i];
  std::size_t k = 0;
  for (typename V::const_iterator it = v.begin (); ok && it != v.end (); ++it, ++k) ok = k < s.size () && it->v == s[k];
  if (! ok)
  {
    std::string m = std::string (what) + " (N=" + std::to_string (n) + "): small_vector {";
    for (std::size_t i = 0; i < v.size (); ++i) m += (i ? "," : "") + std::to_string (v[i].v);
    m += "} but expected {";
    for (std::size_t i = 0; i < s.size (); ++i) m += (i ? "," : "") + std::to_string (s[i]);
    m += "}";
    fail (m);
  }
}

// libstdc++'s std::vector itself needs assignment for assign / resize (n, x), so the oracle here is a vector of the values
template <unsigned N>
static void noassign_scenario (std::size_t pre, std::size_t n)
{
  typedef gch::small_vector<NoAssign, N> V;
  typedef std::vector<int> S;
  V v; S s;
  v.reserve (static_cast<typename V::size_type> (pre / 2));
  for (std::size_t i = 0; i < pre; ++i) { v.emplace_back (static_cast<int> (30 + i)); s.push_back (static_cast<int> (30 + i)); }
  same_ints (v, s, "emplace_back (non-assignable element type)", N);
  std::ostringstream text; S vals; for (std::size_t i = 0; i < n; ++i) { text << (100 + i) << ' '; vals.push_back (static_cast<int> (100 + i)); }
  {
    std::istringstream in1 (text.str ());
    v.assign (std::istream_iterator<int> (in1), std::istream_iterator<int> ());
    s = vals;
    same_ints (v, s, "assign (single-pass range), non-assignable element type", N);
  }
  // (append from a single-pass range is not offered for such a type: its roll-back erases, which needs move assignment)
  v.push_back (NoAssign (7)); s.push_back (7); same_ints (v, s, "push_back (non-assignable element type)", N);
  v.resize (static_cast<typename V::size_type> (s.size () + 2), NoAssign (9)); s.resize (s.size () + 2, 9); same_ints (v, s, "resize (n, x), non-assignable element type", N);
  if (! s.empty ()) { v.pop_back (); s.pop_back (); same_ints (v, s, "pop_back (non-assignable element type)", N); }
  v.shrink_to_fit (); same_ints (v, s, "shrink_to_fit (non-assignable element type)", N);
  { V w (v); same_ints (w, s, "copy construction (non-assignable element type)", N); V x (std::move (w)); same_ints (x, s, "move construction (non-assignable element type)", N); }
  v.clear (); s.clear (); same_ints (v, s, "clear (non-assignable element type)", N);
}

template <typename T>
static void all (void)
{
  for (std::size_t pre = 0; pre <= 9; pre += 3)
  {
    scenario<T, 0, 4> (pre);
    scenario<T, 2, 5> (pre);
    scenario<T, 5, 2> (pre);
    scenario<T, 4, 4> (pre);
    scenario<T, 8, 0> (pre);
  }
}

int main (void)
{
  all<int> ();
  all<std::string> ();
  for (std::size_t pre = 0; pre <= 7; pre += 1)
  {
    fancy_scenario<int, 0> (pre); fancy_scenario<int, 3> (pre); fancy_scenario<std::string, 0> (pre); fancy_scenario<std::string, 4> (pre);
    moveonly_scenario<0, 3> (pre); moveonly_scenario<3, 1> (pre); moveonly_scenario<2, 2> (pre); moveonly_scenario<5, 0> (pre);
    hook_scenario<int, 0> (pre); hook_scenario<int, 3> (pre); hook_scenario<std::string, 0> (pre); hook_scenario<std::string, 4> (pre);
  }
  iterator_scenarios<int, 0> (); iterator_scenarios<int, 3> (); iterator_scenarios<int, 8> ();
  iterator_scenarios<std::string, 0> (); iterator_scenarios<std::string, 2> (); iterator_scenarios<std::string, 5> ();
  for (std::size_t pre = 0; pre <= 7; ++pre)
    for (std::size_t n = 0; n <= 9; n += 3)
    {
      noassign_scenario<0> (pre, n);
      noassign_scenario<3> (pre, n);
      noassign_scenario<6> (pre, n);
    }
  std::printf ("done %ld\n", g_checks);
  return g_bad ? 1 : 0;
}
