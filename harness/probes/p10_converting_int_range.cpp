// C13: a contiguous range of a different integral type (small_vector<int> iterators) must be accepted for small_vector<unsigned>, as std::vector accepts it
#include <gch/small_vector.hpp>
int main () { gch::small_vector<int, 3> s; s.push_back (1); s.push_back (-2);
  gch::small_vector<unsigned, 2> v (s.begin (), s.end ()); v.assign (s.begin (), s.end ()); v.insert (v.begin (), s.begin (), s.end ()); v.append (s.begin (), s.end ());
  return v[1] == static_cast<unsigned> (-2) ? 0 : 1; }
