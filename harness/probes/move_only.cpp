// C13: operations that only need MoveInsertable accept a move-only type
#include <gch/small_vector.hpp>
#include <memory>
int main () { gch::small_vector<std::unique_ptr<int>, 2> v; v.push_back (std::unique_ptr<int> (new int (1))); v.emplace_back (new int (2));
  v.emplace_back (new int (3)); v.reserve (10); v.shrink_to_fit (); v.insert (v.begin (), std::unique_ptr<int> (new int (0))); v.erase (v.begin ()); v.pop_back ();
  gch::small_vector<std::unique_ptr<int>, 2> w (std::move (v)); w.resize (5); w.clear (); v = std::move (w); v.swap (w); return 0; }
