// C13: operations that only need CopyInsertable accept a type without default constructor and without assignment for push_back
#include <gch/small_vector.hpp>
struct Y { int v; explicit Y (int x) : v (x) { } Y (const Y&) = default; Y& operator= (const Y&) = default; };
int main () { gch::small_vector<Y, 2> v; Y y (1); v.push_back (y); v.push_back (y); v.push_back (y); v.insert (v.begin (), y); v.insert (v.end (), 2, y);
  v.resize (2, y); v.assign (3, y); gch::small_vector<Y, 2> w (v); w = v; return 0; }
