// C13/C17: a range of Derived* must be accepted for small_vector<Base*> under every standard
#include <gch/small_vector.hpp>
struct B1 { int a; }; struct B2 { int b; }; struct D : B1, B2 { int c; };
int main () { static D d[2]; gch::small_vector<D *, 2> s; s.push_back (&d[0]); s.push_back (&d[1]);
  gch::small_vector<B2 *, 2> v (s.begin (), s.end ()); v.assign (s.begin (), s.end ()); v.insert (v.begin (), s.begin (), s.end ());
  return v[0] == static_cast<B2 *> (&d[0]) ? 0 : 1; }
