// C13: the count constructor and resize(n) only need default construction (as std::vector): a trivially default
// constructible type with deleted assignment must be accepted
#include <gch/small_vector.hpp>
#include <vector>
struct X { int v; X () = default; X (const X&) = default; X& operator= (const X&) = delete; };
int main () { std::vector<X> s (3); gch::small_vector<X, 2> v (3); v.resize (5); gch::small_vector<X, 0> w (4); return static_cast<int> (v.size () + w.size () + s.size ()) == 12 ? 0 : 1; }
