// C12 monitor: max_size () over the widths of the allocator's size_type x element sizes x allocator limits.
// For every combination: max_size () == min (allocator_traits::max_size, numeric_limits<difference_type>::max ()), computed
// here independently; at the limit (when it is small enough to try) resize (max_size ()) succeeds with end () - begin () ==
// size () (no wrap of the iterator difference), one more throws std::length_error and changes nothing, and the allocator is
// never asked for more than max_size () elements.  Prints "W! C12 ..." per disagreement and "done <checks>".
#include <gch/small_vector.hpp>

#include <cstdint>
#include <cstdio>
#include <limits>
#include <memory>
#include <stdexcept>
#include <string>
#include <type_traits>

static long g_checks = 0;
static int g_bad = 0;
static unsigned long long g_max_request = 0;
static void fail (const std::string& s) { ++g_bad; std::printf ("W! C12 %s\n", s.c_str ()); }

template <std::size_t S> struct El { unsigned char b[S]; };

// LIMIT: 0 = no max_size () member (allocator_traits' default: numeric_limits<size_type>::max () / sizeof (T)),
//        otherwise max_size () returns min (LIMIT, what size_type can hold)
template <typename T, typename SizeT, unsigned long long LIMIT>
struct NA
{
  typedef T value_type;
  typedef SizeT size_type;
  typedef typename std::make_signed<SizeT>::type difference_type;
  NA () noexcept { }
  template <typename U> NA (const NA<U, SizeT, LIMIT>&) noexcept { }
  template <typename U> struct rebind { typedef NA<U, SizeT, LIMIT> other; };
  T *allocate (size_type n)
  {
    if (static_cast<unsigned long long> (n) > g_max_request) g_max_request = static_cast<unsigned long long> (n);
    return static_cast<T *> (::operator new (static_cast<std::size_t> (n) * sizeof (T)));
  }
  void deallocate (T *p, size_type) noexcept { ::operator delete (p); }
  template <unsigned long long L = LIMIT, typename std::enable_if<L != 0, int>::type = 0>
  size_type max_size () const noexcept
  {
    const unsigned long long hi = static_cast<unsigned long long> (std::numeric_limits<size_type>::max ());
    return static_cast<size_type> (LIMIT < hi ? LIMIT : hi);
  }
};
template <typename T, typename U, typename S, unsigned long long L> bool operator== (const NA<T, S, L>&, const NA<U, S, L>&) noexcept { return true; }
template <typename T, typename U, typename S, unsigned long long L> bool operator!= (const NA<T, S, L>&, const NA<U, S, L>&) noexcept { return false; }

template <std::size_t S, typename SizeT, unsigned long long LIMIT, unsigned N>
static void probe (const char *what)
{
  typedef El<S> T;
  typedef NA<T, SizeT, LIMIT> A;
  typedef gch::small_vector<T, N, A> V;
  typedef typename V::difference_type D;
  static_assert (std::is_same<typename V::size_type, SizeT>::value, "size_type is the allocator's");
  ++g_checks;
  V v;
  const unsigned long long amax = static_cast<unsigned long long> (std::allocator_traits<A>::max_size (A ()));
  const unsigned long long dmax = static_cast<unsigned long long> (std::numeric_limits<D>::max ());
  const unsigned long long want = amax < dmax ? amax : dmax;
  const unsigned long long got = static_cast<unsigned long long> (v.max_size ());
  std::string id = std::string (what) + " (sizeof (T) = " + std::to_string (S) + ", size_type " + std::to_string (8 * sizeof (SizeT)) + " bits, allocator limit "
                   + (LIMIT ? std::to_string (LIMIT) : std::string ("default")) + ", N = " + std::to_string (N) + ")";
  if (got != want)
    fail ("max_size () is " + std::to_string (got) + " but min (allocator max_size, difference_type max) is " + std::to_string (want) + " " + id);
  // behaviour at the limit, when the limit is small enough to reach
  if (want <= 70000 && want * S <= (1ull << 24))
  {
    g_max_request = 0;
    bool threw = false;
    try { v.resize (static_cast<SizeT> (want)); } catch (const std::length_error&) { threw = true; }
    if (threw) { fail ("resize (max_size ()) threw length_error " + id); return; }
    if (static_cast<unsigned long long> (v.size ()) != want) fail ("size () after resize (max_size ()) is wrong " + id);
    if (static_cast<long long> (v.end () - v.begin ()) != static_cast<long long> (want)) fail ("end () - begin () != size () at max_size () (the difference wrapped) " + id);
    if (want > 0 && &v[static_cast<SizeT> (want - 1)] != v.data () + (want - 1)) fail ("operator[] at size () - 1 does not address data () + size () - 1 " + id);
    threw = false;
    try { v.push_back (T ()); } catch (const std::length_error&) { threw = true; }
    if (! threw) fail ("push_back at max_size () did not throw length_error " + id);
    if (static_cast<unsigned long long> (v.size ()) != want) fail ("a failed push_back at max_size () changed size () " + id);
    if (want < static_cast<unsigned long long> (std::numeric_limits<SizeT>::max ()))
    {
      threw = false;
      try { v.resize (static_cast<SizeT> (want + 1)); } catch (const std::length_error&) { threw = true; }
      if (! threw) fail ("resize (max_size () + 1) did not throw length_error " + id);
      threw = false;
      try { v.reserve (static_cast<SizeT> (want + 1)); } catch (const std::length_error&) { threw = true; }
      if (! threw) fail ("reserve (max_size () + 1) did not throw length_error " + id);
      threw = false;
      try { V w (static_cast<SizeT> (want + 1)); (void) w; } catch (const std::length_error&) { threw = true; }
      if (! threw) fail ("small_vector (max_size () + 1) did not throw length_error " + id);
    }
    if (g_max_request > want) fail ("the allocator was asked for " + std::to_string (g_max_request) + " elements, more than max_size () = " + std::to_string (want) + " " + id);
  }
}

template <std::size_t S, typename SizeT>
static void widths (const char *w)
{
  probe<S, SizeT, 0, 0> (w); probe<S, SizeT, 0, 3> (w);
  probe<S, SizeT, 100, 0> (w); probe<S, SizeT, 100, 5> (w);
  probe<S, SizeT, 40000, 2> (w);                 // above int16 max: the difference_type cap must bite for 16-bit size_type
  probe<S, SizeT, 3000000000ull, 1> (w);         // above int32 max: … and for 32-bit size_type
}

int main (void)
{
  widths<1, std::uint8_t> ("u8");   widths<2, std::uint8_t> ("u8");   widths<4, std::uint8_t> ("u8");   widths<24, std::uint8_t> ("u8");
  widths<1, std::uint16_t> ("u16"); widths<2, std::uint16_t> ("u16"); widths<4, std::uint16_t> ("u16"); widths<24, std::uint16_t> ("u16");
  widths<1, std::uint32_t> ("u32"); widths<2, std::uint32_t> ("u32"); widths<8, std::uint32_t> ("u32"); widths<24, std::uint32_t> ("u32");
  widths<1, std::uint64_t> ("u64"); widths<4, std::uint64_t> ("u64"); widths<24, std::uint64_t> ("u64");
  std::printf ("done %ld\n", g_checks);
  return g_bad ? 1 : 0;
}
