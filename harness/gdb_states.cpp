// C20: container states inspected through the SHIPPED gdb pretty-printer; the program prints what size(), capacity() and
// iteration report (in gdb's own formatting) before stopping, gdb prints the same objects through the printer.
#include <gch/small_vector.hpp>
#include <cstdio>
#include <string>
#include <sstream>

struct P { int x; int y; };
template <typename T> struct SA   // a stateful (non-empty) allocator: no empty-base optimisation
{
  typedef T value_type; int tag;
  SA () noexcept : tag (42) { } template <typename U> SA (const SA<U>& o) noexcept : tag (o.tag) { }
  T *allocate (std::size_t n) { return static_cast<T *> (::operator new (n * sizeof (T))); }
  void deallocate (T *p, std::size_t) noexcept { ::operator delete (p); }
};
template <typename T, typename U> bool operator== (const SA<T>& a, const SA<U>& b) noexcept { return a.tag == b.tag; }
template <typename T, typename U> bool operator!= (const SA<T>& a, const SA<U>& b) noexcept { return ! (a == b); }

struct alignas (32) W { int id; };                 // an over-aligned element type (extended alignment)
template <typename T> struct TA   // an allocator with an 8-bit size_type (the README's tiny_allocator): narrow size / capacity fields
{
  typedef T value_type; typedef unsigned char size_type; typedef signed char difference_type;
  TA () noexcept { } template <typename U> TA (const TA<U>&) noexcept { }
  T *allocate (size_type n) { return static_cast<T *> (::operator new (n * sizeof (T))); }
  void deallocate (T *p, size_type) noexcept { ::operator delete (p); }
  size_type max_size () const noexcept { return 100; }
};
template <typename T, typename U> bool operator== (const TA<T>&, const TA<U>&) noexcept { return true; }
template <typename T, typename U> bool operator!= (const TA<T>&, const TA<U>&) noexcept { return false; }

static std::string fmt (int v) { return std::to_string (v); }
static std::string fmt (bool v) { return v ? "true" : "false"; }
static std::string fmt (double v) { char b[64]; std::snprintf (b, sizeof b, "%g", v); return b; }
static std::string fmt (long double v) { char b[64]; std::snprintf (b, sizeof b, "%Lg", v); return b; }
static std::string fmt (const W& w) { return "{id = " + std::to_string (w.id) + "}"; }
static std::string fmt (long v) { return std::to_string (v); }
static std::string fmt (const P& p) { return "{x = " + std::to_string (p.x) + ", y = " + std::to_string (p.y) + "}"; }

template <typename V> static void dump (const char *name, const V& v)
{
  std::ostringstream o;
  o << "EXPECT " << name << " small_vector of length " << static_cast<unsigned long> (v.size ()) << ", capacity " << static_cast<unsigned long> (v.capacity ());
  if (! v.empty ())
  {
    o << " = {";
    std::size_t i = 0;
    for (typename V::const_iterator it = v.begin (); it != v.end (); ++it, ++i) { if (i) o << ", "; o << fmt (*it); }
    o << "}";
  }
  std::puts (o.str ().c_str ());
}

void stop (void) { std::fflush (stdout); }

int main ()
{
  std::setvbuf (stdout, 0, _IONBF, 0);
  gch::small_vector<int, 3> s_empty;
  gch::small_vector<int, 3> s_inline; s_inline.push_back (1); s_inline.push_back (2);
  gch::small_vector<int, 3> s_full; for (int i = 0; i < 3; ++i) s_full.push_back (10 + i);
  gch::small_vector<int, 3> s_heap; for (int i = 0; i < 7; ++i) s_heap.push_back (20 + i);
  gch::small_vector<int, 3> s_heapinl; for (int i = 0; i < 7; ++i) s_heapinl.push_back (30 + i); while (s_heapinl.size () > 2) s_heapinl.pop_back ();
  gch::small_vector<int, 3> s_shrunk (s_heapinl); s_shrunk.shrink_to_fit ();
  gch::small_vector<int, 0> z_empty;
  gch::small_vector<int, 0> z_heap; z_heap.push_back (7); z_heap.push_back (8); z_heap.push_back (9);
  gch::small_vector<P, 2> p_inline; p_inline.push_back (P { 1, 2 });
  gch::small_vector<P, 2> p_heap; for (int i = 0; i < 5; ++i) p_heap.push_back (P { i, i * i });
  gch::small_vector<long, 2, SA<long>> a_inline; a_inline.push_back (100);
  gch::small_vector<long, 2, SA<long>> a_heap; for (long i = 0; i < 4; ++i) a_heap.push_back (200 + i);
  gch::small_vector<int, 3> s_moved_from (s_heap); gch::small_vector<int, 3> s_moved_to (std::move (s_moved_from));
  gch::small_vector<int> s_default; for (int i = 0; i < 12; ++i) s_default.push_back (i);
  gch::small_vector<long double, 3> ld_inline; ld_inline.push_back (1.5L); ld_inline.push_back (2.25L);
  gch::small_vector<long double, 3> ld_heap; for (int i = 0; i < 5; ++i) ld_heap.push_back (0.5L + i);
  gch::small_vector<W, 2> w_inline; { W x; x.id = 31; w_inline.push_back (x); }
  gch::small_vector<W, 2> w_heap; for (int i = 0; i < 4; ++i) { W x; x.id = 40 + i; w_heap.push_back (x); }
  gch::small_vector<W, 0> w_zero; { W x; x.id = 50; w_zero.push_back (x); }
  gch::small_vector<double, 4> d_inline; d_inline.push_back (0.5); d_inline.push_back (4.0);
  gch::small_vector<bool, 5> b_inline; b_inline.push_back (true); b_inline.push_back (false); b_inline.push_back (true);
  gch::small_vector<int, 4, TA<int>> t_inline; t_inline.push_back (61); t_inline.push_back (62);
  gch::small_vector<int, 4, TA<int>> t_heap; for (int i = 0; i < 9; ++i) t_heap.push_back (70 + i);
  gch::small_vector<long double, 3>::iterator it_ld = ld_heap.begin () + 3;
  gch::small_vector<W, 2>::const_iterator it_w = w_heap.cbegin () + 1;
  gch::small_vector<int, 3>::iterator it_begin = s_heap.begin ();
  gch::small_vector<int, 3>::iterator it_mid = s_heap.begin () + 4;
  gch::small_vector<P, 2>::const_iterator it_p = p_heap.cbegin () + 2;
  dump ("s_empty", s_empty); dump ("s_inline", s_inline); dump ("s_full", s_full); dump ("s_heap", s_heap); dump ("s_heapinl", s_heapinl);
  dump ("s_shrunk", s_shrunk); dump ("z_empty", z_empty); dump ("z_heap", z_heap); dump ("p_inline", p_inline); dump ("p_heap", p_heap);
  dump ("a_inline", a_inline); dump ("a_heap", a_heap); dump ("s_moved_from", s_moved_from); dump ("s_moved_to", s_moved_to); dump ("s_default", s_default);
  dump ("ld_inline", ld_inline); dump ("ld_heap", ld_heap); dump ("w_inline", w_inline); dump ("w_heap", w_heap); dump ("w_zero", w_zero);
  dump ("d_inline", d_inline); dump ("b_inline", b_inline); dump ("t_inline", t_inline); dump ("t_heap", t_heap);
  std::printf ("EXPECT it_ld %s\n", fmt (*it_ld).c_str ());
  std::printf ("EXPECT it_w %s\n", fmt (*it_w).c_str ());
  std::printf ("EXPECT it_begin %s\n", fmt (*it_begin).c_str ());
  std::printf ("EXPECT it_mid %s\n", fmt (*it_mid).c_str ());
  std::printf ("EXPECT it_p %s\n", fmt (*it_p).c_str ());
  stop ();
  return static_cast<int> (s_default.size ());
}
