// Differential / monitor harness for gch::small_vector (C++11-compatible).
//
// Interprets the line protocol of lean/SvModel/Api.lean on REAL containers (the header is included from /repo's
// working tree), prints one canonical observation line per operation — byte-compatible with the Lean driver — and
// evaluates the direct property monitors (W): lines starting with "W! <property-id> ...".
//
// Compile-time configuration:
//   -DCFG_E=0|1|2|3|4   element flavour: En, Et, Enn, Ec, Tr
//   -DCFG_N=<n> -DCFG_M=<m>   inline capacities of containers a,b / c,d
//   -DCFG_A=<5 bits pocca pocma pocs alwaysEq soccc as a decimal-coded binary literal, e.g. 0b01000>  or -DCFG_STD=1
//   -DCFG_ST=<size type>      size_type of the test allocator (default std::size_t)
#include <gch/small_vector.hpp>

#include <algorithm>
#include <cassert>
#include <climits>
#include <cstdio>
#include <cstdlib>
#include <cstring>
#include <exception>
#include <iostream>
#include <iterator>
#include <map>
#include <new>
#include <set>
#include <sstream>
#include <stdexcept>
#include <string>
#include <vector>

#ifndef CFG_E
#define CFG_E 0
#endif
#ifndef CFG_N
#define CFG_N 2
#endif
#ifndef CFG_M
#define CFG_M 3
#endif
#ifndef CFG_A
#define CFG_A 0
#endif
#ifndef CFG_ST
#define CFG_ST std::size_t
#endif

// ------------------------------------------------------------------------------------------------
// fault schedule, event log
// ------------------------------------------------------------------------------------------------
enum ExcKind { X_ELEM, X_ALLOC, X_ITER };
struct Boom { ExcKind kind; };

static std::vector<long> g_faults;          // countdowns (front = active)
static long g_iter_fault = -1;              // separate countdown for the caller's iterators (monitor-only runs; not modelled)
static bool g_window = false;               // inside a container call
static std::vector<std::string> g_events;
static std::vector<std::string> g_wmsgs;    // monitor findings of the current op
static long g_allocs_this_op = 0;
static long g_elem_events_this_op = 0;

static void wmsg (const char *prop, const std::string& what)
{
  g_wmsgs.push_back (std::string ("W! ") + prop + " " + what);
}

static inline void tick_iter (void)
{
  if (g_window && g_iter_fault >= 0 && g_iter_fault-- == 0)
    throw Boom { X_ITER };
}

static inline void tick (ExcKind k)
{
  if (! g_window || g_faults.empty ())
    return;
  if (g_faults.front () == 0)
  {
    g_faults.erase (g_faults.begin ());
    throw Boom { k };
  }
  --g_faults.front ();
}

// ------------------------------------------------------------------------------------------------
// canonical addresses: (block id, index) for heap blocks and inline buffers, "T" otherwise
// ------------------------------------------------------------------------------------------------
struct Blk { const char *lo; const char *hi; int id; std::size_t esz; long n; int alloc; bool heap; };
static std::vector<Blk> g_blocks;     // live heap blocks + the four inline buffers
static int g_next_block = 4;

static bool canon (const void *p, int& b, long& i)
{
  const char *c = static_cast<const char *> (p);
  for (std::size_t k = 0; k < g_blocks.size (); ++k)
    if (g_blocks[k].lo <= c && c < g_blocks[k].hi)
    {
      b = g_blocks[k].id;
      i = static_cast<long> ((c - g_blocks[k].lo) / static_cast<long> (g_blocks[k].esz));
      return true;
    }
  return false;
}

static std::string cstr (const void *p)
{
  int b; long i;
  std::ostringstream o;
  if (canon (p, b, i)) o << b << "." << i; else o << "T.0";
  return o.str ();
}

// ------------------------------------------------------------------------------------------------
// element registry (C03 monitor)
// ------------------------------------------------------------------------------------------------
struct Reg { bool external; };
static std::map<const void *, Reg> g_reg;

static void reg_construct (const void *p)
{
  if (g_reg.count (p))
    wmsg ("C03", "construct over a live object at " + cstr (p));
  Reg r; r.external = ! g_window;
  g_reg[p] = r;
}
static void reg_need_live (const void *p, const char *what)
{
  if (! g_reg.count (p))
    wmsg ("C03", std::string (what) + " of storage that holds no live object at " + cstr (p));
}
static void reg_destroy (const void *p)
{
  if (! g_reg.count (p))
    wmsg ("C03", "destroy of storage that holds no live object at " + cstr (p));
  else
    g_reg.erase (p);
}
static long reg_internal_count (void)
{
  long n = 0;
  for (std::map<const void *, Reg>::iterator it = g_reg.begin (); it != g_reg.end (); ++it)
    if (! it->second.external) ++n;
  return n;
}

static void ev (const char *k, const void *p)
{
  if (! g_window) return;
  g_events.push_back (std::string (k) + cstr (p));
  ++g_elem_events_this_op;
}

// ------------------------------------------------------------------------------------------------
// element flavours
// ------------------------------------------------------------------------------------------------
static const int HUSK = INT_MIN + 1;

#if CFG_E == 0     // En: nothrow move, throwing copy / copy-assign / value-init
#  define E_COPY_T 1
#  define E_MOVE_T 0
#  define E_CASG_T 1
#  define E_MASG_T 0
#  define E_VCTOR_T 1
#  define E_HAS_MOVE 1
#  define E_NAME "En"
#elif CFG_E == 1   // Et: everything may throw
#  define E_COPY_T 1
#  define E_MOVE_T 1
#  define E_CASG_T 1
#  define E_MASG_T 1
#  define E_VCTOR_T 1
#  define E_HAS_MOVE 1
#  define E_NAME "Et"
#elif CFG_E == 2   // Enn: nothing throws
#  define E_COPY_T 0
#  define E_MOVE_T 0
#  define E_CASG_T 0
#  define E_MASG_T 0
#  define E_VCTOR_T 0
#  define E_HAS_MOVE 1
#  define E_NAME "Enn"
#elif CFG_E == 3   // Ec: copy-only (no move operations declared), throwing copy
#  define E_COPY_T 1
#  define E_MOVE_T 0
#  define E_CASG_T 1
#  define E_MASG_T 0
#  define E_VCTOR_T 1
#  define E_HAS_MOVE 0
#  define E_NAME "Ec"
#elif CFG_E == 4   // Tr: trivially copyable
#  define E_TRIVIAL 1
#  define E_NAME "Tr"
#endif

#ifdef E_TRIVIAL
struct E
{
  int v;
  E () = default;
  E (int x) : v (x) { }
};
static_assert (std::is_trivially_copyable<E>::value, "Tr must be trivially copyable");
static inline bool is_husk (const E&) { return false; }
#else
struct E
{
  int v;
  explicit E (int x, int) : v (x) { reg_construct (this); }   // harness-side construction from a value (never ticks)
  E () noexcept (! E_VCTOR_T) : v (0)
  {
    if (E_VCTOR_T) tick (X_ELEM);
    reg_construct (this); ev ("vc", this);
  }
  E (const E& o) noexcept (! E_COPY_T) : v (o.v)
  {
    if (E_COPY_T) tick (X_ELEM);
    reg_need_live (&o, "copy-construct from"); reg_construct (this); ev ("cc", this);
  }
  E& operator= (const E& o) noexcept (! E_CASG_T)
  {
    if (E_CASG_T) tick (X_ELEM);
    reg_need_live (&o, "copy-assign from"); reg_need_live (this, "copy-assign to");
    v = o.v; ev ("ca", this); return *this;
  }
#if E_HAS_MOVE
  E (E&& o) noexcept (! E_MOVE_T) : v (o.v)
  {
    if (E_MOVE_T) tick (X_ELEM);
    reg_need_live (&o, "move-construct from"); reg_construct (this); ev ("mc", this);
    o.v = HUSK;
  }
  E& operator= (E&& o) noexcept (! E_MASG_T)
  {
    if (E_MASG_T) tick (X_ELEM);
    reg_need_live (&o, "move-assign from"); reg_need_live (this, "move-assign to");
    v = o.v; o.v = HUSK; ev ("ma", this); return *this;
  }
#endif
  ~E () { ev ("d", this); reg_destroy (this); }
};
static inline bool is_husk (const E& e) { return e.v == HUSK; }
#endif

static inline E mkE (int x)
{
#ifdef E_TRIVIAL
  return E (x);
#else
  return E (x, 0);
#endif
}

// ------------------------------------------------------------------------------------------------
// test allocator with ledger (C04 monitor)
// ------------------------------------------------------------------------------------------------
static std::size_t g_alloc_max = 0;   // 0 = default

template <typename T, bool POCCA, bool POCMA, bool POCS, bool AE, bool SOCCC, typename SizeT>
struct ta
{
  typedef T value_type;
  typedef SizeT size_type;
  typedef typename std::make_signed<SizeT>::type difference_type;
  typedef std::integral_constant<bool, POCCA> propagate_on_container_copy_assignment;
  typedef std::integral_constant<bool, POCMA> propagate_on_container_move_assignment;
  typedef std::integral_constant<bool, POCS> propagate_on_container_swap;
  typedef std::integral_constant<bool, AE> is_always_equal;
  template <typename U> struct rebind { typedef ta<U, POCCA, POCMA, POCS, AE, SOCCC, SizeT> other; };

  int id;
  ta (void) noexcept : id (0) { }
  explicit ta (int i) noexcept : id (i) { }
  ta (const ta& o) noexcept : id (o.id) { }
  ta& operator= (const ta& o) noexcept { id = o.id; return *this; }
  template <typename U>
  ta (const ta<U, POCCA, POCMA, POCS, AE, SOCCC, SizeT>& o) noexcept : id (o.id) { }

  ta select_on_container_copy_construction (void) const { return ta (SOCCC ? id + 100 : id); }

  size_type max_size (void) const noexcept
  {
    if (g_alloc_max) return static_cast<size_type> (g_alloc_max);
    return static_cast<size_type> ((std::numeric_limits<size_type>::max) () / sizeof (T));
  }

  T *allocate (size_type n)
  {
    tick (X_ALLOC);
    T *p = static_cast<T *> (::operator new (static_cast<std::size_t> (n) * sizeof (T)));
    Blk b; b.lo = reinterpret_cast<const char *> (p); b.hi = reinterpret_cast<const char *> (p + n);
    b.id = g_next_block++; b.esz = sizeof (T); b.n = static_cast<long> (n); b.alloc = id; b.heap = true;
    if (n == 0) b.hi = b.lo;  // zero-sized block: matched by pointer identity only
    g_blocks.push_back (b);
    ++g_allocs_this_op;
    std::ostringstream o; o << "A" << b.id << ":" << static_cast<long> (n) << "@" << id;
    g_events.push_back (o.str ());
    return p;
  }
  T *allocate (size_type n, const void *) { return allocate (n); }

  void deallocate (T *p, size_type n) noexcept
  {
    for (std::size_t k = 0; k < g_blocks.size (); ++k)
      if (g_blocks[k].heap && g_blocks[k].lo == reinterpret_cast<const char *> (p))
      {
        std::ostringstream o; o << "F" << g_blocks[k].id << ":" << static_cast<long> (n) << "@" << id;
        g_events.push_back (o.str ());
        if (g_blocks[k].n != static_cast<long> (n))
        { std::ostringstream m; m << "deallocate of block " << g_blocks[k].id << " with n=" << static_cast<long> (n) << " but it was allocated with n=" << g_blocks[k].n; wmsg ("C04", m.str ()); }
        if (! AE && g_blocks[k].alloc != id)
        { std::ostringstream m; m << "deallocate of block " << g_blocks[k].id << " through allocator " << id << " but it was allocated by " << g_blocks[k].alloc; wmsg ("C04", m.str ()); }
        g_blocks.erase (g_blocks.begin () + static_cast<long> (k));
        ::operator delete (p);
        return;
      }
    wmsg ("C04", "deallocate of a pointer that is not a live block");
  }

};
template <typename T, typename U, bool POCCA, bool POCMA, bool POCS, bool AE, bool SOCCC, typename SizeT>
inline bool operator== (const ta<T, POCCA, POCMA, POCS, AE, SOCCC, SizeT>& a, const ta<U, POCCA, POCMA, POCS, AE, SOCCC, SizeT>& b) noexcept
{ return AE || a.id == b.id; }
template <typename T, typename U, bool POCCA, bool POCMA, bool POCS, bool AE, bool SOCCC, typename SizeT>
inline bool operator!= (const ta<T, POCCA, POCMA, POCS, AE, SOCCC, SizeT>& a, const ta<U, POCCA, POCMA, POCS, AE, SOCCC, SizeT>& b) noexcept
{ return ! (a == b); }

#define ABIT(k) (((CFG_A) >> (k)) & 1)
static const bool A_POCCA = ABIT (4), A_POCMA = ABIT (3), A_POCS = ABIT (2), A_AE = ABIT (1), A_SOCCC = ABIT (0);
typedef ta<E, ABIT (4), ABIT (3), ABIT (2), ABIT (1), ABIT (0), CFG_ST> Alloc;

typedef gch::small_vector<E, CFG_N, Alloc> VN;
typedef gch::small_vector<E, CFG_M, Alloc> VM;

// ------------------------------------------------------------------------------------------------
// container slots
// ------------------------------------------------------------------------------------------------
template <typename V>
struct Slot
{
  typename std::aligned_storage<sizeof (V), alignof (V)>::type buf;
  bool alive;
  Slot () : alive (false) { }
  V& get () { return *reinterpret_cast<V *> (&buf); }
};

static Slot<VN> g_a, g_b;
static Slot<VM> g_c, g_d;
static std::vector<int> g_shadow[4];
static int g_next_stream = 0;

static bool alive (int x) { return x == 0 ? g_a.alive : x == 1 ? g_b.alive : x == 2 ? g_c.alive : g_d.alive; }
static void set_alive (int x, bool v) { (x == 0 ? g_a.alive : x == 1 ? g_b.alive : x == 2 ? g_c.alive : g_d.alive) = v; }

// apply a functor to container x with its static type
template <typename F> static void with1 (int x, F& f)
{
  if (x == 0) f (g_a.get ()); else if (x == 1) f (g_b.get ()); else if (x == 2) f (g_c.get ()); else f (g_d.get ());
}
template <typename F, typename VX> struct With2Inner { F& f; VX& vx; template <typename VY> void operator() (VY& vy) { f (vx, vy); } };
template <typename F> struct With2Outer { F& f; int y; template <typename VX> void operator() (VX& vx) { With2Inner<F, VX> in = { f, vx }; with1 (y, in); } };
template <typename F> static void with2 (int x, int y, F& f) { With2Outer<F> o = { f, y }; with1 (x, o); }

// raw storage of slot x (for placement construction)
static void *slot_mem (int x) { return x == 0 ? static_cast<void *> (&g_a.buf) : x == 1 ? static_cast<void *> (&g_b.buf) : x == 2 ? static_cast<void *> (&g_c.buf) : static_cast<void *> (&g_d.buf); }

struct Info { std::size_t size, cap; const void *data; int alloc; bool inlined; bool inlinable; std::size_t N; std::size_t max_size; const void *obj_lo; const void *obj_hi; };
struct GetInfo
{
  Info r;
  template <typename V> void operator() (V& v)
  {
    r.size = v.size (); r.cap = v.capacity (); r.data = v.data (); r.alloc = v.get_allocator ().id;
    r.inlined = v.inlined (); r.inlinable = v.inlinable (); r.N = V::inline_capacity (); r.max_size = v.max_size ();
    r.obj_lo = &v; r.obj_hi = &v + 1;
  }
};
static Info info (int x) { GetInfo g; with1 (x, g); return g.r; }

struct GetVals
{
  std::vector<int> vals; std::vector<char> husk;
  template <typename V> void operator() (V& v)
  {
    for (std::size_t i = 0; i < v.size (); ++i) { vals.push_back (v.data ()[i].v); husk.push_back (is_husk (v.data ()[i]) ? 1 : 0); }
  }
};

// ------------------------------------------------------------------------------------------------
// iterators handed to the container
// ------------------------------------------------------------------------------------------------
static const E *g_fw_last = 0;   // end of the forward range handed to the current call (0: none)
struct FwdIt    // a plain forward iterator over external elements (not contiguous, not random access)
{
  typedef std::forward_iterator_tag iterator_category;
  typedef E value_type; typedef std::ptrdiff_t difference_type; typedef const E *pointer; typedef const E& reference;
  const E *p;
  FwdIt () : p (0) { }
  explicit FwdIt (const E *q) : p (q) { }
  // C15 "forward ranges are never walked past last": the range of the current call is [*, g_fw_last)
  reference operator* () const { tick_iter (); if (g_fw_last && p >= g_fw_last) wmsg ("C15", "forward iterator dereferenced at or beyond last"); return *p; }
  pointer operator-> () const { return p; }
  FwdIt& operator++ () { tick_iter (); if (g_fw_last && p >= g_fw_last) wmsg ("C15", "forward iterator incremented at or beyond last"); ++p; return *this; }
  FwdIt operator++ (int) { FwdIt t (*this); ++*this; return t; }
  friend bool operator== (const FwdIt& a, const FwdIt& b) { return a.p == b.p; }
  friend bool operator!= (const FwdIt& a, const FwdIt& b) { return a.p != b.p; }
};

struct Stream   // shared state of a single-pass range (C15 monitor)
{
  const E *base; long n; long cursor; int sid; long last_deref; long generation;
};
struct InIt
{
  typedef std::input_iterator_tag iterator_category;
  typedef E value_type; typedef std::ptrdiff_t difference_type; typedef const E *pointer; typedef const E& reference;
  Stream *s; long pos; bool is_end;
  InIt () : s (0), pos (0), is_end (true) { }
  InIt (Stream *st, bool e) : s (st), pos (e ? st->n : 0), is_end (e) { }
  reference operator* () const
  {
    tick_iter ();
    if (is_end || pos >= s->n) { wmsg ("C15", "dereference at or beyond last"); return s->base[0]; }
    if (pos != s->cursor) wmsg ("C15", "dereference through a stale copy of an advanced single-pass iterator");
    if (s->last_deref == pos) wmsg ("C15", "position dereferenced twice");
    s->last_deref = pos;
    std::ostringstream o; o << "*" << s->sid << "." << pos; g_events.push_back (o.str ());
    return s->base[pos];
  }
  InIt& operator++ ()
  {
    tick_iter ();
    if (is_end || pos >= s->n) { wmsg ("C15", "increment at or beyond last"); return *this; }
    if (pos != s->cursor) wmsg ("C15", "increment of a stale copy of an advanced single-pass iterator");
    std::ostringstream o; o << "+" << s->sid << "." << pos; g_events.push_back (o.str ());
    ++pos; s->cursor = pos;
    return *this;
  }
  void operator++ (int) { ++*this; }
  friend bool operator== (const InIt& a, const InIt& b)
  {
    long pa = a.is_end ? (a.s ? a.s->n : (b.s ? b.s->n : 0)) : a.pos;
    long pb = b.is_end ? (b.s ? b.s->n : (a.s ? a.s->n : 0)) : b.pos;
    return pa == pb;
  }
  friend bool operator!= (const InIt& a, const InIt& b) { return ! (a == b); }
};

// generator for small_vector (count, generator, alloc): yields the external values in index order; counts its calls and
// checks their order (C15: "invokes its generator exactly count times, in index order"); a caller-side fault point
static long g_gen_calls = 0;
struct Generator
{
  const E *base; long n; long *next;
  const E& operator() () const
  {
    tick_iter ();
    ++g_gen_calls;
    if (*next >= n) { wmsg ("C15", "generator invoked more than count times"); return base[0]; }
    return base[(*next)++];
  }
};

// ------------------------------------------------------------------------------------------------
// observation
// ------------------------------------------------------------------------------------------------
static const char *NAMES[4] = { "a", "b", "c", "d" };
static const char *g_inline_lo[4] = { 0, 0, 0, 0 };

static std::string buf_name (int x, const Info& f)
{
  if (f.data == g_inline_lo[x] || (f.N == 0 && f.data == 0)) return "I";
  int b; long i;
  if (f.data && canon (f.data, b, i) && i == 0) { std::ostringstream o; o << "H" << b; return o.str (); }
  for (std::size_t k = 0; k < g_blocks.size (); ++k)
    if (g_blocks[k].heap && g_blocks[k].lo == static_cast<const char *> (f.data))
    { std::ostringstream o; o << "H" << g_blocks[k].id; return o.str (); }
  return "H?";
}

static std::string obs_line (const std::string& out, const std::string& exc)
{
  std::ostringstream o;
  o << out << " |";
  for (int x = 0; x < 4; ++x)
  {
    o << " " << NAMES[x] << "=";
    if (! alive (x)) { o << "-"; continue; }
    Info f = info (x);
    o << f.size << "/" << f.cap << "/" << buf_name (x, f) << "/" << f.alloc;
  }
  o << " |";
  for (int x = 0; x < 4; ++x)
  {
    o << " " << NAMES[x] << "=";
    if (! alive (x)) { o << "-"; continue; }
    GetVals g; with1 (x, g);
    o << "[";
    for (std::size_t i = 0; i < g.vals.size (); ++i) { if (i) o << ","; if (g.husk[i]) o << "~"; else o << g.vals[i]; }
    o << "]";
  }
  long heap_blocks = 0;
  for (std::size_t k = 0; k < g_blocks.size (); ++k) if (g_blocks[k].heap) ++heap_blocks;
#ifdef E_TRIVIAL
  long objs = 0;
  for (int x = 0; x < 4; ++x) if (alive (x)) objs += static_cast<long> (info (x).size);
#else
  long objs = reg_internal_count ();
#endif
  o << " | objs=" << objs << " blocks=" << heap_blocks << " | ";
  for (std::size_t k = 0; k < g_events.size (); ++k) { if (k) o << " "; o << g_events[k]; }
  o << " | " << exc;
  return o.str ();
}

// ------------------------------------------------------------------------------------------------
// monitors evaluated between operations (C02, C03, C04)
// ------------------------------------------------------------------------------------------------
struct IterAgree
{
  bool ok;
  template <typename V> void operator() (V& v)
  {
    const V& cv = v;
    ok = true;
    if (static_cast<std::size_t> (v.end () - v.begin ()) != v.size ()) ok = false;
    if (static_cast<std::size_t> (cv.end () - cv.begin ()) != v.size ()) ok = false;
    if (static_cast<std::size_t> (v.cend () - v.cbegin ()) != v.size ()) ok = false;
    if (static_cast<std::size_t> (v.rend () - v.rbegin ()) != v.size ()) ok = false;
    if (static_cast<std::size_t> (v.crend () - v.crbegin ()) != v.size ()) ok = false;
    if (v.size () != 0)
    {
      if (&*v.begin () != v.data () || &*cv.begin () != v.data () || &*v.cbegin () != v.data ()) ok = false;
      if (&*v.rbegin () != v.data () + (v.size () - 1) || &*v.crbegin () != v.data () + (v.size () - 1)) ok = false;
      for (std::size_t i = 0; i < v.size (); ++i)
        if (&v[i] != v.data () + i || &cv[i] != v.data () + i || &v.at (i) != v.data () + i) ok = false;
      if (&v.front () != v.data () || &v.back () != v.data () + (v.size () - 1)) ok = false;
    }
    if (v.empty () != (v.size () == 0)) ok = false;
  }
};

static void check_invariants (const char *when)
{
  std::set<const void *> owned_blocks;
  long expect_objs = 0;
  for (int x = 0; x < 4; ++x)
  {
    if (! alive (x)) continue;
    Info f = info (x);
    std::ostringstream who; who << NAMES[x] << " " << when << ": ";
    if (! (f.size <= f.cap)) wmsg ("C02", who.str () + "size > capacity");
    if (! (f.cap >= f.N)) wmsg ("C02", who.str () + "capacity < inline_capacity");
    if (! (f.cap <= (f.max_size > f.N ? f.max_size : f.N))) wmsg ("C02", who.str () + "capacity > max(max_size, inline_capacity)");
    if (! (f.size <= f.max_size) && f.size > f.N) wmsg ("C12", who.str () + "size > max_size");
    bool inside = f.N == 0 ? (f.data == 0) : (f.obj_lo <= f.data && f.data < f.obj_hi);
    if (f.inlined != (f.cap == f.N)) wmsg ("C02", who.str () + "inlined() != (capacity == inline_capacity)");
    if (f.inlined != inside) wmsg ("C02", who.str () + "inlined() disagrees with data() pointing into the object");
    if (f.inlinable != (f.size <= f.N)) wmsg ("C02", who.str () + "inlinable() != (size <= inline_capacity)");
    if (! f.inlined)
    {
      bool found = false;
      for (std::size_t k = 0; k < g_blocks.size (); ++k)
        if (g_blocks[k].heap && g_blocks[k].lo == static_cast<const char *> (f.data))
        {
          found = true;
          owned_blocks.insert (f.data);
          if (static_cast<std::size_t> (g_blocks[k].n) != f.cap)
          { std::ostringstream m; m << who.str () << "heap block has " << g_blocks[k].n << " elements but capacity() is " << f.cap; wmsg ("C02", m.str ()); }
          if (! A_AE && g_blocks[k].alloc != f.alloc)
          { std::ostringstream m; m << who.str () << "heap block owned by allocator " << g_blocks[k].alloc << " but get_allocator() is " << f.alloc; wmsg ("C02", m.str ()); }
        }
      if (! found) wmsg ("C02", who.str () + "data() is not a live allocator block");
    }
    IterAgree ia; with1 (x, ia);
    if (! ia.ok) wmsg ("C02", who.str () + "contiguity / iterator agreement broken");
#ifndef E_TRIVIAL
    // C03: exactly [data, data+size) is alive
    const E *d = static_cast<const E *> (f.data);
    for (std::size_t i = 0; i < f.size; ++i)
      if (! g_reg.count (d + i)) { std::ostringstream m; m << who.str () << "element " << i << " is not a live object"; wmsg ("C03", m.str ()); }
    expect_objs += static_cast<long> (f.size);
#endif
  }
#ifndef E_TRIVIAL
  if (reg_internal_count () != expect_objs)
  { std::ostringstream m; m << when << ": " << reg_internal_count () << " live element objects but the containers hold " << expect_objs; wmsg ("C03", m.str ()); }
#endif
  // C04: live heap blocks are exactly the buffers of the non-inlined containers
  for (std::size_t k = 0; k < g_blocks.size (); ++k)
    if (g_blocks[k].heap && ! owned_blocks.count (g_blocks[k].lo))
    { std::ostringstream m; m << when << ": live block " << g_blocks[k].id << " (n=" << g_blocks[k].n << ") is not the buffer of any container"; wmsg ("C04", m.str ()); }
}

// ------------------------------------------------------------------------------------------------
// the interpreter
// ------------------------------------------------------------------------------------------------
struct Cmd
{
  std::string op; int x, y; long p, q, n; bool self; long selfi; int v; int a; bool has_a; std::string it; std::vector<int> vals;
  Cmd () : x (-1), y (-1), p (0), q (0), n (0), self (false), selfi (0), v (0), a (0), has_a (false) { }
};

static int cidx (const std::string& s) { return s == "a" ? 0 : s == "b" ? 1 : s == "c" ? 2 : s == "d" ? 3 : -1; }
static bool to_long (const std::string& s, long& r)
{
  if (s.empty ()) return false;
  char *e = 0; r = std::strtol (s.c_str (), &e, 10); return *e == 0;
}
static bool to_nat (const std::string& s, long& r) { return to_long (s, r) && r >= 0 && s[0] != '-' && s[0] != '+'; }
static bool parse_arg (const std::string& t, Cmd& c)
{
  long r;
  if (t.size () >= 2 && t[0] == 'v' && to_long (t.substr (1), r)) { c.self = false; c.v = static_cast<int> (r); return true; }
  if (t.size () >= 2 && t[0] == 's' && to_nat (t.substr (1), r)) { c.self = true; c.selfi = r; return true; }
  return false;
}
static bool parse_vals (const std::string& t, std::vector<int>& out)
{
  out.clear ();
  if (t == "-") return true;
  std::size_t i = 0;
  while (true)
  {
    std::size_t j = t.find (',', i);
    long r; if (! to_long (t.substr (i, j == std::string::npos ? std::string::npos : j - i), r)) return false;
    out.push_back (static_cast<int> (r));
    if (j == std::string::npos) break;
    i = j + 1;
  }
  return true;
}

static bool parse (const std::vector<std::string>& t, Cmd& c)
{
  if (t.empty ()) return false;
  c.op = t[0];
  long r;
#define CX(i) do { if ((c.x = cidx (t[i])) < 0) return false; } while (0)
#define CY(i) do { if ((c.y = cidx (t[i])) < 0) return false; } while (0)
#define NAT(i, f) do { if (! to_nat (t[i], r)) return false; c.f = r; } while (0)
  const std::string& o = c.op;
  if (o == "new" && t.size () == 3) { CX (1); NAT (2, n); c.a = static_cast<int> (c.n); return true; }
  if (o == "newn" && t.size () == 4) { CX (1); NAT (3, p); c.a = static_cast<int> (c.p); NAT (2, n); return true; }
  if (o == "newv" && t.size () == 5) { CX (1); NAT (2, n); if (! to_long (t[3], r)) return false; c.v = static_cast<int> (r); NAT (4, p); c.a = static_cast<int> (c.p); return true; }
  if (o == "newr" && t.size () == 5) { CX (1); c.it = t[2]; if (c.it != "fw" && c.it != "in" && c.it != "ra") return false; NAT (3, p); c.a = static_cast<int> (c.p); return parse_vals (t[4], c.vals); }
  if (o == "newg" && t.size () == 4) { CX (1); NAT (2, p); c.a = static_cast<int> (c.p); return parse_vals (t[3], c.vals); }
  if ((o == "newc" || o == "newm") && t.size () == 4) { CX (1); CY (2); if (t[3] == "-") c.has_a = false; else { NAT (3, p); c.a = static_cast<int> (c.p); c.has_a = true; } return true; }
  if ((o == "del" || o == "pop" || o == "clr" || o == "stf") && t.size () == 2) { CX (1); return true; }
  if (o == "pb" && t.size () == 3) { CX (1); return parse_arg (t[2], c); }
  if (o == "pbm" && t.size () == 3) { CX (1); if (! to_long (t[2], r)) return false; c.v = static_cast<int> (r); return true; }
  if (o == "ins" && t.size () == 4) { CX (1); NAT (2, p); return parse_arg (t[3], c); }
  if (o == "insm" && t.size () == 4) { CX (1); NAT (2, p); if (! to_long (t[3], r)) return false; c.v = static_cast<int> (r); return true; }
  if (o == "insn" && t.size () == 5) { CX (1); NAT (2, p); NAT (3, n); return parse_arg (t[4], c); }
  if (o == "insr" && t.size () == 5) { CX (1); NAT (2, p); c.it = t[3]; if (c.it != "fw" && c.it != "in" && c.it != "ra") return false; return parse_vals (t[4], c.vals); }
  if (o == "era" && t.size () == 3) { CX (1); NAT (2, p); return true; }
  if (o == "erar" && t.size () == 4) { CX (1); NAT (2, p); NAT (3, q); return true; }
  if ((o == "rsz" || o == "rsv") && t.size () == 3) { CX (1); NAT (2, n); return true; }
  if (o == "rszv" && t.size () == 4) { CX (1); NAT (2, n); return parse_arg (t[3], c); }
  if (o == "asn" && t.size () == 4) { CX (1); NAT (2, n); if (! to_long (t[3], r)) return false; c.v = static_cast<int> (r); return true; }
  if ((o == "asr" || o == "app") && t.size () == 4) { CX (1); c.it = t[2]; if (c.it != "fw" && c.it != "in" && c.it != "ra") return false; return parse_vals (t[3], c.vals); }
  if ((o == "asc" || o == "asm" || o == "swp" || o == "appc" || o == "appm") && t.size () == 3) { CX (1); CY (2); return true; }
  if ((o == "at" || o == "get") && t.size () == 3) { CX (1); NAT (2, p); return true; }
  return false;
}

static bool valid (const Cmd& c)
{
  const std::string& o = c.op;
  if (o == "new" || o == "newn" || o == "newv" || o == "newr" || o == "newg") return ! alive (c.x);
  if (o == "newc" || o == "newm") return c.x != c.y && ! alive (c.x) && alive (c.y);
  if (! alive (c.x)) return false;
  std::size_t sz = info (c.x).size;
  bool argok = ! c.self || static_cast<std::size_t> (c.selfi) < sz;
  if (o == "del" || o == "pbm" || o == "clr" || o == "rsz" || o == "rsv" || o == "stf" || o == "asn" || o == "asr" || o == "app" || o == "at") return true;
  if (o == "pb" || o == "rszv") return argok;
  if (o == "ins" || o == "insn") return static_cast<std::size_t> (c.p) <= sz && argok;
  if (o == "insm") return static_cast<std::size_t> (c.p) <= sz;
  if (o == "insr") return static_cast<std::size_t> (c.p) <= sz;
  if (o == "era") return static_cast<std::size_t> (c.p) < sz;
  if (o == "erar") return c.p <= c.q && static_cast<std::size_t> (c.q) <= sz;
  if (o == "pop") return sz > 0;
  if (o == "get") return static_cast<std::size_t> (c.p) < sz;
  if (o == "asc" || o == "asm" || o == "appc" || o == "appm") return alive (c.y) && c.x != c.y;
  if (o == "swp") return alive (c.y) && c.x != c.y && ((c.x < 2) == (c.y < 2));
  return false;
}

// --- operations as functors -------------------------------------------------------------------
struct Ctx { const Cmd *c; std::vector<E> *ext; std::string out; Stream *stream; };

struct DoSingle
{
  Ctx& k;
  explicit DoSingle (Ctx& kk) : k (kk) { }
  template <typename V> void operator() (V& v)
  {
    const Cmd& c = *k.c;
    const std::string& o = c.op;
    std::vector<E>& ext = *k.ext;
    std::ostringstream out;
    if (o == "del") { v.~V (); }
    else if (o == "pb") { if (c.self) v.push_back (v[static_cast<std::size_t> (c.selfi)]); else v.push_back (ext[0]); }
    else if (o == "pbm") { v.push_back (std::move (ext[0])); }
    else if (o == "ins") { typename V::iterator r = c.self ? v.insert (v.begin () + c.p, v[static_cast<std::size_t> (c.selfi)]) : v.insert (v.begin () + c.p, ext[0]); out << "i" << static_cast<long> (r - v.begin ()); }
    else if (o == "insm") { typename V::iterator r = v.insert (v.begin () + c.p, std::move (ext[0])); out << "i" << static_cast<long> (r - v.begin ()); }
    else if (o == "insn") { typename V::iterator r = c.self ? v.insert (v.begin () + c.p, static_cast<typename V::size_type> (c.n), v[static_cast<std::size_t> (c.selfi)]) : v.insert (v.begin () + c.p, static_cast<typename V::size_type> (c.n), ext[0]); out << "i" << static_cast<long> (r - v.begin ()); }
    else if (o == "insr")
    {
      typename V::iterator r;
      if (c.it == "fw") r = v.insert (v.begin () + c.p, FwdIt (ext.data ()), FwdIt (ext.data () + ext.size ()));
      else if (c.it == "ra") r = v.insert (v.begin () + c.p, static_cast<const E *> (ext.data ()), static_cast<const E *> (ext.data () + ext.size ()));
      else r = v.insert (v.begin () + c.p, InIt (k.stream, false), InIt (k.stream, true));
      out << "i" << static_cast<long> (r - v.begin ());
    }
    else if (o == "era") { typename V::iterator r = v.erase (v.begin () + c.p); out << "i" << static_cast<long> (r - v.begin ()); }
    else if (o == "erar") { typename V::iterator r = v.erase (v.begin () + c.p, v.begin () + c.q); out << "i" << static_cast<long> (r - v.begin ()); }
    else if (o == "pop") v.pop_back ();
    else if (o == "clr") v.clear ();
    else if (o == "rsz") v.resize (static_cast<typename V::size_type> (c.n));
    else if (o == "rszv") { if (c.self) v.resize (static_cast<typename V::size_type> (c.n), v[static_cast<std::size_t> (c.selfi)]); else v.resize (static_cast<typename V::size_type> (c.n), ext[0]); }
    else if (o == "rsv") v.reserve (static_cast<typename V::size_type> (c.n));
    else if (o == "stf") v.shrink_to_fit ();
    else if (o == "asn") v.assign (static_cast<typename V::size_type> (c.n), ext[0]);
    else if (o == "asr") { if (c.it == "fw") v.assign (FwdIt (ext.data ()), FwdIt (ext.data () + ext.size ())); else if (c.it == "ra") v.assign (static_cast<const E *> (ext.data ()), static_cast<const E *> (ext.data () + ext.size ())); else v.assign (InIt (k.stream, false), InIt (k.stream, true)); }
    else if (o == "app") { if (c.it == "fw") v.append (FwdIt (ext.data ()), FwdIt (ext.data () + ext.size ())); else if (c.it == "ra") v.append (static_cast<const E *> (ext.data ()), static_cast<const E *> (ext.data () + ext.size ())); else v.append (InIt (k.stream, false), InIt (k.stream, true)); }
    else if (o == "at") { const E& e = v.at (static_cast<typename V::size_type> (c.p)); if (is_husk (e)) out << "v~"; else out << "v" << e.v; }
    else if (o == "get") { const E& e = v[static_cast<typename V::size_type> (c.p)]; if (is_husk (e)) out << "v~"; else out << "v" << e.v; }
    k.out = out.str ();
  }
};

struct DoCtor   // constructs container x in its slot
{
  Ctx& k;
  explicit DoCtor (Ctx& kk) : k (kk) { }
  template <typename V> void construct (void *mem)
  {
    const Cmd& c = *k.c; std::vector<E>& ext = *k.ext; const std::string& o = c.op;
    if (o == "new") new (mem) V (Alloc (c.a));
    else if (o == "newn") new (mem) V (static_cast<typename V::size_type> (c.n), Alloc (c.a));
    else if (o == "newv") new (mem) V (static_cast<typename V::size_type> (c.n), ext[0], Alloc (c.a));
    else if (o == "newr")
    {
      if (c.it == "fw") new (mem) V (FwdIt (ext.data ()), FwdIt (ext.data () + ext.size ()), Alloc (c.a));
      else if (c.it == "ra") new (mem) V (static_cast<const E *> (ext.data ()), static_cast<const E *> (ext.data () + ext.size ()), Alloc (c.a));
      else new (mem) V (InIt (k.stream, false), InIt (k.stream, true), Alloc (c.a));
    }
    else if (o == "newg")
    {
      long next = 0;
      Generator g = { ext.data (), static_cast<long> (ext.size ()), &next };
      g_gen_calls = 0;
      new (mem) V (static_cast<typename V::size_type> (ext.size ()), g, Alloc (c.a));
      if (g_gen_calls != static_cast<long> (ext.size ()) || next != static_cast<long> (ext.size ()))
        wmsg ("C15", "generator constructor did not invoke its generator exactly count times");
    }
  }
};

template <typename VX>
struct DoCtorFrom   // copy / move construction of VX in slot x from container y
{
  Ctx& k; void *mem;
  template <typename VY> void operator() (VY& y)
  {
    const Cmd& c = *k.c;
    if (c.op == "newc") { if (c.has_a) new (mem) VX (y, Alloc (c.a)); else new (mem) VX (y); }
    else { if (c.has_a) new (mem) VX (std::move (y), Alloc (c.a)); else new (mem) VX (std::move (y)); }
  }
};

struct DoPairAssign
{
  Ctx& k;
  explicit DoPairAssign (Ctx& kk) : k (kk) { }
  template <typename VX, typename VY> void operator() (VX& x, VY& y)
  {
    const std::string& o = k.c->op;
    if (o == "asc") casg (x, y);
    else if (o == "asm") masg (x, y);
    else if (o == "swp") sw (x, y);
    else if (o == "appc") x.append (static_cast<const VY&> (y));
    else if (o == "appm") x.append (std::move (y));
  }
  template <typename V> void casg (V& x, V& y) { x = y; }
  template <typename VX, typename VY> void casg (VX& x, VY& y) { x.assign (y); }
  template <typename V> void masg (V& x, V& y) { x = std::move (y); }
  template <typename VX, typename VY> void masg (VX& x, VY& y) { x.assign (std::move (y)); }
  template <typename V> void sw (V& x, V& y) { x.swap (y); }
  template <typename VX, typename VY> void sw (VX&, VY&) { }
};

// shadow std::vector semantics (C01 monitor) ---------------------------------------------------
static std::string shadow_apply (const Cmd& c, bool& known)
{
  // returns the expected `out`; sets known=false when std::vector leaves the result unspecified
  known = true;
  std::ostringstream out;
  const std::string& o = c.op;
  std::vector<int>& s = g_shadow[c.x >= 0 ? c.x : 0];
  int av = c.self ? (static_cast<std::size_t> (c.selfi) < s.size () ? s[static_cast<std::size_t> (c.selfi)] : 0) : c.v;
  if (o == "new") s.clear ();
  else if (o == "newn") s.assign (static_cast<std::size_t> (c.n), 0);
  else if (o == "newv") s.assign (static_cast<std::size_t> (c.n), c.v);
  else if (o == "newr" || o == "newg") s.assign (c.vals.begin (), c.vals.end ());
  else if (o == "newc") s = g_shadow[c.y];
  else if (o == "newm") { s = g_shadow[c.y]; }
  else if (o == "del") s.clear ();
  else if (o == "pb" || o == "pbm") s.push_back (o == "pb" ? av : c.v);
  else if (o == "ins" || o == "insm") { s.insert (s.begin () + c.p, o == "ins" ? av : c.v); out << "i" << c.p; }
  else if (o == "insn") { s.insert (s.begin () + c.p, static_cast<std::size_t> (c.n), av); out << "i" << c.p; }
  else if (o == "insr") { s.insert (s.begin () + c.p, c.vals.begin (), c.vals.end ()); out << "i" << c.p; }
  else if (o == "era") { s.erase (s.begin () + c.p); out << "i" << c.p; }
  else if (o == "erar") { s.erase (s.begin () + c.p, s.begin () + c.q); out << "i" << c.p; }
  else if (o == "pop") s.pop_back ();
  else if (o == "clr") s.clear ();
  else if (o == "rsz") s.resize (static_cast<std::size_t> (c.n));
  else if (o == "rszv") s.resize (static_cast<std::size_t> (c.n), av);
  else if (o == "asn") s.assign (static_cast<std::size_t> (c.n), c.v);
  else if (o == "asr") s.assign (c.vals.begin (), c.vals.end ());
  else if (o == "app") s.insert (s.end (), c.vals.begin (), c.vals.end ());
  else if (o == "asc") s = g_shadow[c.y];
  else if (o == "asm") s = g_shadow[c.y];
  else if (o == "swp") s.swap (g_shadow[c.y]);
  else if (o == "appc") s.insert (s.end (), g_shadow[c.y].begin (), g_shadow[c.y].end ());
  else if (o == "appm") { s.insert (s.end (), g_shadow[c.y].begin (), g_shadow[c.y].end ()); g_shadow[c.y].clear (); }
  else if (o == "at") { if (static_cast<std::size_t> (c.p) < s.size ()) { if (s[static_cast<std::size_t> (c.p)] == HUSK) out << "v~"; else out << "v" << s[static_cast<std::size_t> (c.p)]; } else out << "!range"; }
  else if (o == "get") { if (s[static_cast<std::size_t> (c.p)] == HUSK) out << "v~"; else out << "v" << s[static_cast<std::size_t> (c.p)]; }
  return out.str ();
}

static void shadow_resync (int x)
{
  g_shadow[x].clear ();
  if (! alive (x)) return;
  GetVals g; with1 (x, g);
  g_shadow[x] = g.vals;   // moved-from elements carry the HUSK payload, which copies like any other value
}

static bool g_alias_op = false;   // the operation in flight takes one of the container's own elements as its argument (C11)

static void shadow_compare (int x, const char *what)
{
  if (! alive (x)) return;
  GetVals g; with1 (x, g);
  std::vector<int>& s = g_shadow[x];
  if (g.vals.size () != s.size ())
  { std::ostringstream m; m << NAMES[x] << " after " << what << ": size " << g.vals.size () << " but std::vector has " << s.size (); wmsg ("C01", m.str ()); if (g_alias_op) wmsg ("C11", std::string ("argument aliasing the container: ") + m.str ()); return; }
  for (std::size_t i = 0; i < s.size (); ++i)
  {
    if (g.vals[i] != s[i])
    { std::ostringstream m; m << NAMES[x] << " after " << what << ": element " << i << " is " << (g.husk[i] ? std::string ("moved-from") : std::to_string (g.vals[i])) << " but std::vector has " << s[i]; wmsg ("C01", m.str ()); if (g_alias_op) wmsg ("C11", std::string ("argument aliasing the container (the shadow std::vector was given an independent copy): ") + m.str ()); return; }
  }
}

static bool is_growing_strong (const std::string& o, const Cmd& c, std::size_t size_before)
{
  if (o == "pb" || o == "pbm" || o == "rsv" || o == "rsz" || o == "rszv" || o == "stf" || o == "app" || o == "appc" || o == "appm") return true;
  if ((o == "ins" || o == "insm") && static_cast<std::size_t> (c.p) == size_before) return true;
  return false;
}

struct Snapshot { bool alive; Info f; std::vector<int> vals; std::vector<char> husk; };
static Snapshot snap (int x)
{
  Snapshot s; s.alive = alive (x);
  if (s.alive) { s.f = info (x); GetVals g; with1 (x, g); s.vals = g.vals; s.husk = g.husk; }
  return s;
}

// ------------------------------------------------------------------------------------------------
// C16: comparisons and non-member erase on int / weakly ordered elements (independent of the container slots)
// ------------------------------------------------------------------------------------------------
struct Wk   // has < and == but no <=>: selects the weak-order fallback of operator<=> in C++20
{
  int v;
  Wk (int x = 0) : v (x) { }
  friend bool operator< (const Wk& a, const Wk& b) { return a.v < b.v; }
  friend bool operator== (const Wk& a, const Wk& b) { return a.v == b.v; }
};
typedef ta<int, ABIT (4), ABIT (3), ABIT (2), ABIT (1), ABIT (0), CFG_ST> AllocI;
typedef ta<Wk, ABIT (4), ABIT (3), ABIT (2), ABIT (1), ABIT (0), CFG_ST> AllocW;

template <typename L, typename R>
static std::string cmp_bits (const L& l, const R& r)
{
  std::ostringstream o;
  o << "eq=" << (l == r) << " ne=" << (l != r) << " lt=" << (l < r) << " le=" << (l <= r) << " gt=" << (l > r) << " ge=" << (l >= r);
#if defined (__cpp_impl_three_way_comparison) && defined (__cpp_lib_three_way_comparison)
  auto c = l <=> r;
  o << " c3=" << (c < 0 ? "L" : c > 0 ? "G" : "E");
#else
  o << " c3=-";
#endif
  return o.str ();
}

template <typename T, typename A>
static void run_cmp (const std::vector<int>& lv, const std::vector<int>& rv, const char *tag)
{
  typedef gch::small_vector<T, CFG_N, A> SN;
  typedef gch::small_vector<T, CFG_M, A> SM;
  std::vector<T> l (lv.begin (), lv.end ()), r (rv.begin (), rv.end ());
  SN ln (l.begin (), l.end (), A (0)), rn (r.begin (), r.end (), A (0));
  SM lm (l.begin (), l.end (), A (0)), rm (r.begin (), r.end (), A (0));
  std::string a = cmp_bits (ln, rn), b = cmp_bits (ln, rm), c = cmp_bits (lm, rn), d = cmp_bits (lm, rm), s = cmp_bits (l, r);
  std::printf ("%s %s\n", tag, b.c_str ());
  if (a != s || b != s || c != s || d != s)
    std::printf ("W! C16 comparison differs from std::vector (%s): vector %s | N,N %s | N,M %s | M,N %s | M,M %s\n", tag, s.c_str (), a.c_str (), b.c_str (), c.c_str (), d.c_str ());
}

static void run_ner (const std::vector<int>& lv, int k, bool is_if)
{
  typedef gch::small_vector<int, CFG_N, AllocI> SN;
  typedef gch::small_vector<int, CFG_M, AllocI> SM;
  SN a (lv.begin (), lv.end (), AllocI (0));
  SM b (lv.begin (), lv.end (), AllocI (0));
  std::vector<int> s (lv);
  std::size_t na, nb, ns;
  if (is_if)
  {
    na = erase_if (a, [k] (int x) { return x % k == 0; });
    nb = erase_if (b, [k] (int x) { return x % k == 0; });
    std::vector<int>::iterator it = std::remove_if (s.begin (), s.end (), [k] (int x) { return x % k == 0; });
    ns = static_cast<std::size_t> (s.end () - it); s.erase (it, s.end ());
  }
  else
  {
    na = erase (a, k);
    nb = erase (b, k);
    std::vector<int>::iterator it = std::remove (s.begin (), s.end (), k);
    ns = static_cast<std::size_t> (s.end () - it); s.erase (it, s.end ());
  }
  std::ostringstream o;
  o << (is_if ? "nerif" : "ner") << " [";
  for (std::size_t i = 0; i < a.size (); ++i) { if (i) o << ","; o << a[i]; }
  o << "] " << na;
  std::puts (o.str ().c_str ());
  bool same = na == ns && nb == ns && a.size () == s.size () && b.size () == s.size ();
  for (std::size_t i = 0; same && i < s.size (); ++i) if (a[i] != s[i] || b[i] != s[i]) same = false;
  // members agree with the non-member accessors
  if (begin (a) != a.begin () || end (a) != a.end () || size (a) != a.size () || empty (a) != a.empty () || data (a) != a.data ()
      || cbegin (a) != a.cbegin () || cend (a) != a.cend () || rbegin (a) != a.rbegin () || rend (a) != a.rend ()
      || static_cast<std::size_t> (ssize (a)) != a.size ())
    std::puts ("W! C16 a non-member accessor disagrees with the member");
  {
    const SN& ca = a;      // the const overloads and the c* / r* families
    if (begin (ca) != ca.begin () || end (ca) != ca.end () || rbegin (ca) != ca.rbegin () || rend (ca) != ca.rend () || data (ca) != ca.data ()
        || crbegin (a) != a.crbegin () || crend (a) != a.crend () || cbegin (ca) != ca.cbegin () || cend (ca) != ca.cend ()
        || size (ca) != ca.size () || empty (ca) != ca.empty () || static_cast<std::size_t> (ssize (ca)) != ca.size ()
        || static_cast<std::size_t> (end (ca) - begin (ca)) != ca.size () || static_cast<std::size_t> (rend (a) - rbegin (a)) != a.size ())
      std::puts ("W! C16 a non-member accessor (const / reverse family) disagrees with the member");
  }
  { SN x (lv.begin (), lv.end (), AllocI (0)), y (AllocI (0)); y.push_back (42); swap (x, y);
    if (x.size () != 1 || x[0] != 42 || y.size () != lv.size ()) std::puts ("W! C16 non-member swap disagrees with the member"); }
  if (! same) std::puts ("W! C16 non-member erase/erase_if differs from std::vector");
}

static void run_line (const std::string& line_in)
{
  std::string line = line_in;
  while (! line.empty () && (line[line.size () - 1] == '\n' || line[line.size () - 1] == '\r' || line[line.size () - 1] == ' ')) line.erase (line.size () - 1);
  g_events.clear (); g_wmsgs.clear (); g_allocs_this_op = 0; g_elem_events_this_op = 0; g_faults.clear ();
  if (line == "reset")
  {
    for (int x = 0; x < 4; ++x)
      if (alive (x)) { Cmd c; c.op = "del"; c.x = x; Ctx k; k.c = &c; std::vector<E> e; k.ext = &e; k.stream = 0; DoSingle d (k); with1 (x, d); set_alive (x, false); }
    for (int x = 0; x < 4; ++x) g_shadow[x].clear ();
    for (std::size_t k = 0; k < g_blocks.size (); ++k)
      if (g_blocks[k].heap) { wmsg ("C04", "block still live at reset"); }
    // forget leaked blocks so that later cases are not polluted
    for (std::size_t k = g_blocks.size (); k-- > 0;) if (g_blocks[k].heap) g_blocks.erase (g_blocks.begin () + static_cast<long> (k));
    for (std::map<const void *, Reg>::iterator it = g_reg.begin (); it != g_reg.end ();)
      if (! it->second.external) { wmsg ("C03", "element object still alive at reset"); g_reg.erase (it++); } else ++it;
    g_next_block = 4; g_next_stream = 0;
    std::puts ("reset");
    for (std::size_t k = 0; k < g_wmsgs.size (); ++k) std::puts (g_wmsgs[k].c_str ());
    return;
  }
  {
    std::vector<std::string> tk; { std::istringstream is (line); std::string t; while (is >> t) tk.push_back (t); }
    if (tk.size () == 3 && (tk[0] == "cmp" || tk[0] == "cmpw"))
    {
      std::vector<int> l, r;
      if (! parse_vals (tk[1], l) || ! parse_vals (tk[2], r)) { std::puts ("bad-op"); return; }
      if (tk[0] == "cmp") run_cmp<int, AllocI> (l, r, "cmp"); else run_cmp<Wk, AllocW> (l, r, "cmpw");
      return;
    }
    if (tk.size () == 3 && (tk[0] == "ner" || tk[0] == "nerif"))
    {
      std::vector<int> l; long k;
      if (! parse_vals (tk[1], l) || ! to_long (tk[2], k) || (tk[0] == "nerif" && k <= 0)) { std::puts ("bad-op"); return; }
      run_ner (l, static_cast<int> (k), tk[0] == "nerif");
      return;
    }
  }
  // iterator-fault suffix (monitor-only)
  g_iter_fault = -1;
  {
    std::size_t ex = line.find (" !");
    if (ex != std::string::npos)
    {
      long k; if (! to_nat (line.substr (ex + 2), k)) { std::puts ("bad-op"); return; }
      g_iter_fault = k; line = line.substr (0, ex);
    }
  }
  // split off the fault suffix
  std::size_t at = line.find (" @");
  std::string ftxt;
  if (at != std::string::npos) { ftxt = line.substr (at + 2); line = line.substr (0, at); }
  bool fok = true;
  if (! ftxt.empty ())
  {
    std::vector<int> f; fok = parse_vals (ftxt, f);
    for (std::size_t i = 0; i < f.size (); ++i) { if (f[i] < 0) fok = false; g_faults.push_back (f[i]); }
    if (ftxt == "-") fok = false;
  }
  else if (at != std::string::npos) fok = false;
  std::vector<std::string> toks;
  { std::istringstream is (line); std::string t; while (is >> t) toks.push_back (t); }
  Cmd c;
  if (! fok || ! parse (toks, c)) { g_faults.clear (); std::puts ("bad-op"); return; }
  if (! valid (c)) { g_faults.clear (); std::puts ("invalid"); return; }

  const std::string& o = c.op;
  // external argument objects are built outside the observation window
  std::vector<E> ext;
  bool needs_one = (o == "pb" && ! c.self) || o == "pbm" || (o == "ins" && ! c.self) || o == "insm" || (o == "insn" && ! c.self) || (o == "rszv" && ! c.self) || o == "asn" || o == "newv";
  bool needs_range = o == "newr" || o == "newg" || o == "insr" || o == "asr" || o == "app";
  ext.reserve (needs_range ? c.vals.size () + 1 : 2);
  if (needs_one) ext.push_back (mkE (c.v));
  if (needs_range) for (std::size_t i = 0; i < c.vals.size (); ++i) ext.push_back (mkE (c.vals[i]));
  g_fw_last = needs_range ? ext.data () + ext.size () : 0;
  Stream st; st.base = ext.data (); st.n = static_cast<long> (ext.size ()); st.cursor = 0; st.sid = 0; st.last_deref = -1; st.generation = 0;
  bool uses_stream = needs_range && o != "newg" && c.it == "in";
  if (uses_stream) st.sid = g_next_stream++;

  Ctx k; k.c = &c; k.ext = &ext; k.stream = &st;
  Snapshot before_x = snap (c.x), before_y = c.y >= 0 ? snap (c.y) : Snapshot ();
  std::size_t blocks_before = 0; for (std::size_t i = 0; i < g_blocks.size (); ++i) if (g_blocks[i].heap) ++blocks_before;
  long objs_before = reg_internal_count ();
  std::string exc = "-";
  bool is_ctor = o == "new" || o == "newn" || o == "newv" || o == "newr" || o == "newg" || o == "newc" || o == "newm";
  g_window = true;
  try
  {
    if (o == "new" || o == "newn" || o == "newv" || o == "newr" || o == "newg")
    {
      DoCtor d (k);
      if (c.x < 2) d.construct<VN> (slot_mem (c.x)); else d.construct<VM> (slot_mem (c.x));
    }
    else if (o == "newc" || o == "newm")
    {
      if (c.x < 2) { DoCtorFrom<VN> d = { k, slot_mem (c.x) }; with1 (c.y, d); }
      else { DoCtorFrom<VM> d = { k, slot_mem (c.x) }; with1 (c.y, d); }
    }
    else if (o == "asc" || o == "asm" || o == "swp" || o == "appc" || o == "appm")
    {
      DoPairAssign d (k); with2 (c.x, c.y, d);
    }
    else { DoSingle d (k); with1 (c.x, d); }
    g_window = false;
    if (is_ctor) set_alive (c.x, true);
    if (o == "del") set_alive (c.x, false);
  }
  catch (const Boom& b) { g_window = false; exc = b.kind == X_ELEM ? "elem" : b.kind == X_ALLOC ? "alloc" : "iter"; }
  catch (const std::length_error&) { g_window = false; exc = "length"; }
  catch (const std::out_of_range&) { g_window = false; exc = "range"; }
  catch (const std::bad_alloc&) { g_window = false; exc = "alloc"; }
  g_faults.clear ();
  g_iter_fault = -1;
  std::string out = exc == "-" ? (k.out.empty () ? std::string ("-") : k.out) : std::string ("-");
  std::string line_out = obs_line (out, exc);

  // ---------------- monitors ----------------
  // C01: against std::vector
  {
    bool known = true;
    if (exc == "-")
    {
      std::string want = shadow_apply (c, known);
      if (want.empty ()) want = "-";
      if (want != out) wmsg ("C01", o + ": returned " + out + " but std::vector gives " + want);
      // unspecified by the standard: the contents of a moved-from source — resynchronise the shadow to it
      if (o == "newm" || o == "asm") shadow_resync (c.y);
      g_alias_op = c.self;
      shadow_compare (c.x, o.c_str ());
      g_alias_op = false;
      if (c.y >= 0) shadow_compare (c.y, o.c_str ());
    }
    else if (o == "at" && exc == "range")
    {
      if (static_cast<std::size_t> (c.p) < g_shadow[c.x].size ()) wmsg ("C01", "at: out_of_range for a valid index");
    }
    else
    {
      // after a throw std::vector gives at most the basic guarantee for most calls: resync, C05 checks the strong ones
      for (int x = 0; x < 4; ++x) shadow_resync (x);
    }
    if (o == "at" && exc == "-" && static_cast<std::size_t> (c.p) >= before_x.f.size) wmsg ("C01", "at: no out_of_range for an invalid index");
  }
  // C02 / C03 / C04 / C06: invariants, lifetimes, ledger — after every op, also after a throw
  check_invariants (exc == "-" ? o.c_str () : (o + " (threw)").c_str ());
  if (exc == "-" && o == "stf")
  {
    Info f = info (c.x);
    if (f.cap != (f.size > f.N ? f.size : f.N)) wmsg ("C02", "shrink_to_fit: capacity() != max(size(), inline_capacity())");
  }
  if (is_ctor && exc != "-")
  {
    // a constructor that threw must leave nothing behind
    std::size_t blocks_now = 0; for (std::size_t i = 0; i < g_blocks.size (); ++i) if (g_blocks[i].heap) ++blocks_now;
    if (blocks_now != blocks_before) wmsg ("C06", o + ": constructor threw and leaked a block");
    if (reg_internal_count () != objs_before) wmsg ("C06", o + ": constructor threw and leaked element objects");
  }
  // C05: strong guarantee for the growing calls (not promised when the documented opt-out macro is defined: only an
  // allocator failure, which happens before any element is touched, still leaves everything as it was)
#ifdef GCH_NO_STRONG_EXCEPTION_GUARANTEES
  if (exc == "alloc")
#else
  if (exc == "elem" || exc == "alloc")
#endif
  {
    bool excluded_move_only = false;
    if (! is_ctor && is_growing_strong (o, c, before_x.f.size) && ! excluded_move_only)
    {
      Snapshot after = snap (c.x);
      bool same = after.f.size == before_x.f.size && after.vals == before_x.vals && after.husk == before_x.husk;
      if (! same) wmsg ("C05", o + ": threw (" + exc + ") and the contents changed");
      if (o != "app" && (after.f.cap != before_x.f.cap || after.f.data != before_x.f.data)) wmsg ("C05", o + ": threw (" + exc + ") and capacity()/data() changed");
      std::size_t blocks_now = 0; for (std::size_t i = 0; i < g_blocks.size (); ++i) if (g_blocks[i].heap) ++blocks_now;
      if (o != "app" && blocks_now != blocks_before) wmsg ("C05", o + ": threw (" + exc + ") and the number of live blocks changed");
      if (reg_internal_count () != objs_before)
        wmsg ("C05", o + ": threw (" + exc + ") and leaked element objects (" + std::to_string (reg_internal_count ()) + " alive, " + std::to_string (objs_before) + " before the call)");
      if (o == "appc" || o == "appm")
      {
        // append (small_vector&&) additionally leaves its SOURCE unchanged (none of its elements moved-from)
        Snapshot ys = snap (c.y);
        bool ysame = ys.f.size == before_y.f.size && ys.vals == before_y.vals && ys.husk == before_y.husk && ys.f.data == before_y.f.data && ys.f.cap == before_y.f.cap;
        if (! ysame) wmsg ("C05", o + ": threw (" + exc + ") and the source changed");
      }
    }
  }
  // C12: length_error leaves the container unchanged
  if (exc == "length" && ! is_ctor)
  {
    Snapshot after = snap (c.x);
    // a single-pass (input iterator) range cannot be measured before it is consumed: the length is discovered while appending, so
    // the storage may already have grown; what append rolls back is the value (size and elements); assign / insert of such a range
    // have overwritten / appended elements before the end is reached (basic guarantee, as for std::vector): invariants only
    bool single_pass = needs_range && c.it == "in";
    bool same_value = after.f.size == before_x.f.size && after.vals == before_x.vals;
    bool same_store = after.f.cap == before_x.f.cap && after.f.data == before_x.f.data;
    if (single_pass ? (o == "app" && ! same_value) : ! (same_value && same_store))
      wmsg ("C12", o + ": length_error but the container changed");
  }
  // C10 / C04: no reallocation while capacity suffices
  if (exc == "-" && ! is_ctor && o != "del")
  {
    Info f = info (c.x);
    bool growing = o == "pb" || o == "pbm" || o == "ins" || o == "insm" || o == "insn" || o == "insr" || o == "rsz" || o == "rszv" || o == "asn" || o == "asr" || o == "app" || o == "appc" || o == "appm";
    // the temporary buffering of a single-pass range inserted mid-sequence may allocate (C04's stated exception);
    // the container's own buffer must stay where it is all the same (C10)
    bool single_pass_mid = o == "insr" && c.it == "in" && static_cast<std::size_t> (c.p) < before_x.f.size;
    if (growing && f.size <= before_x.f.cap)
    {
      if (f.cap != before_x.f.cap || f.data != before_x.f.data) wmsg ("C10", o + ": result fits in the old capacity but capacity()/data() changed");
      if (g_allocs_this_op != 0 && ! single_pass_mid) wmsg ("C04", o + ": result fits in the old capacity but allocate was called");
    }
    if (o == "asc" && f.size <= before_x.f.cap && (before_x.f.alloc == before_y.f.alloc || ! A_POCCA || A_AE))
    {
      if (f.cap != before_x.f.cap || f.data != before_x.f.data) wmsg ("C10", "copy assignment: result fits but capacity()/data() changed");
      if (g_allocs_this_op != 0) wmsg ("C04", "copy assignment: result fits in the old capacity but allocate was called");
    }
    if (o == "rsv")
    {
      if (f.cap < static_cast<std::size_t> (c.n)) wmsg ("C10", "reserve: capacity() < n afterwards");
      if (static_cast<std::size_t> (c.n) <= before_x.f.cap && (f.cap != before_x.f.cap || f.data != before_x.f.data || g_allocs_this_op != 0 || g_elem_events_this_op != 0))
        wmsg ("C10", "reserve(n <= capacity()) is not a no-op");
    }
    if (o == "pop" || o == "era" || o == "erar" || o == "clr")
      if (f.cap != before_x.f.cap || f.data != before_x.f.data) wmsg ("C10", o + ": capacity()/data() changed");
    if (growing && ! (o == "insr" && c.it == "in") && ! (o == "asr" && c.it == "in") && ! (o == "app" && c.it == "in"))
      if (g_allocs_this_op > 1) wmsg ("C10", o + ": more than one allocation in a call that knows its element count");
    // C14: growth
    if ((growing || o == "rsv") && f.cap != before_x.f.cap && f.cap > before_x.f.cap)
    {
      if (f.cap < f.size) wmsg ("C14", o + ": new capacity below the required size");
      if (f.cap != f.max_size && 2 * f.cap < 3 * before_x.f.cap) wmsg ("C14", o + ": new capacity is less than 1.5x the old one and not max_size()");
    }
  }
  // C07: allocator after the operation
  if (exc == "-")
  {
    if (o == "newc") { int want = c.has_a ? c.a : (A_SOCCC ? before_y.f.alloc + 100 : before_y.f.alloc); if (info (c.x).alloc != want) wmsg ("C07", "copy construction: wrong allocator"); }
    if (o == "newm") { int want = c.has_a ? c.a : before_y.f.alloc; if (info (c.x).alloc != want && ! (c.has_a && A_AE)) wmsg ("C07", "move construction: wrong allocator"); }
    if (o == "new" || o == "newn" || o == "newv" || o == "newr" || o == "newg") if (info (c.x).alloc != c.a) wmsg ("C07", "allocator-extended construction: wrong allocator");
    if (o == "asc") { int want = A_POCCA ? before_y.f.alloc : before_x.f.alloc; if (info (c.x).alloc != want) wmsg ("C07", "copy assignment: allocator propagation rule broken"); if (info (c.y).alloc != before_y.f.alloc) wmsg ("C07", "copy assignment changed the source's allocator"); }
    if (o == "asm") { int want = A_POCMA ? before_y.f.alloc : before_x.f.alloc; if (info (c.x).alloc != want) wmsg ("C07", "move assignment: allocator propagation rule broken"); }
    if (o == "swp") { int wx = A_POCS ? before_y.f.alloc : before_x.f.alloc, wy = A_POCS ? before_x.f.alloc : before_y.f.alloc; if (info (c.x).alloc != wx || info (c.y).alloc != wy) wmsg ("C07", "swap: allocator exchange rule broken"); }
  }
  if (exc == "-" && o == "appc")
  {
    Snapshot ys = snap (c.y);
    if (ys.f.size != before_y.f.size || ys.vals != before_y.vals || ys.husk != before_y.husk || ys.f.data != before_y.f.data || ys.f.cap != before_y.f.cap)
      wmsg ("C01", "append (const small_vector&) changed its source");
  }
  if (exc == "-" && o == "appm")
  {
    Info fy = info (c.y);
    if (fy.size != 0) wmsg ("C01", "append (small_vector&&): the source is not empty afterwards");
    if (fy.data != before_y.f.data || fy.cap != before_y.f.cap) wmsg ("C10", "append (small_vector&&): clear() of the source changed its capacity()/data()");
  }
  // C09: swap of two heap containers with interchangeable allocators exchanges the buffers and touches no element
  if (exc == "-" && o == "swp")
  {
    Info fx = info (c.x), fy = info (c.y);
    bool interchangeable = A_AE || A_POCS || before_x.f.alloc == before_y.f.alloc;
    if (interchangeable && ! before_x.f.inlined && ! before_y.f.inlined)
    {
      if (fx.data != before_y.f.data || fy.data != before_x.f.data) wmsg ("C09", "swp: both on the heap and stealing permitted, but the buffers were not exchanged");
#ifndef E_TRIVIAL
      if (g_elem_events_this_op != 0) wmsg ("C09", "swp: element operations although both buffers could be exchanged");
#endif
      if (g_allocs_this_op != 0) wmsg ("C09", "swp: allocation although both buffers could be exchanged");
    }
    if (! interchangeable && ((fx.data == before_y.f.data && ! before_y.f.inlined) || (fy.data == before_x.f.data && ! before_x.f.inlined)))
      wmsg ("C09", "swp: buffer transferred although the allocators are unequal and do not propagate");
    // one on the heap, one inlined, interchangeable allocators: the heap buffer changes hands untouched; only the inlined
    // side's elements move (into the other object's inline storage): one construction and one destruction each
    if (interchangeable && before_x.f.inlined != before_y.f.inlined)
    {
      const Info& heap_before = before_x.f.inlined ? before_y.f : before_x.f;
      const Info& inl_before = before_x.f.inlined ? before_x.f : before_y.f;
      const Info& taker_after = before_x.f.inlined ? fx : fy;
      if (taker_after.data != heap_before.data) wmsg ("C09", "swp: one side on the heap and stealing permitted, but the heap buffer was not handed over");
      if (g_allocs_this_op != 0) wmsg ("C09", "swp: allocation although the heap buffer could be handed over");
#ifndef E_TRIVIAL
      if (g_elem_events_this_op != 2 * static_cast<long> (inl_before.size)) wmsg ("C09", "swp: element operations on a transferred buffer");
#else
      (void) inl_before;
#endif
    }
  }
  // C09: steal rule
  if (exc == "-" && (o == "newm" || o == "asm"))
  {
    Info fx = info (c.x), fy = info (c.y);
    bool src_heap = ! before_y.f.inlined;
    bool interchangeable = A_AE || (o == "asm" ? A_POCMA : true) || before_x.f.alloc == before_y.f.alloc;
    if (o == "newm") interchangeable = ! c.has_a || A_AE || c.a == before_y.f.alloc;
    bool allowed = src_heap && before_y.f.cap > fx.N && interchangeable;
    bool stolen = fx.data == before_y.f.data && before_y.f.data != 0 && src_heap;
    if (allowed && ! stolen) wmsg ("C09", o + ": stealing was permitted but the buffer was not transferred");
    if (! allowed && stolen) wmsg ("C09", o + ": buffer transferred although stealing is not permitted");
    if (stolen)
    {
      long expected_events = o == "asm" ? static_cast<long> (before_x.f.size) : 0;   // only the destruction of the old contents
#ifndef E_TRIVIAL
      if (g_elem_events_this_op != expected_events) wmsg ("C09", o + ": element operations on a transferred buffer");
#else
      (void) expected_events;
#endif
      if (fy.size != 0 || ! fy.inlined) wmsg ("C09", o + ": stolen-from source is not empty and inlined");
      if (g_allocs_this_op != 0) wmsg ("C09", o + ": allocation during a steal");
    }
  }
  std::puts (line_out.c_str ());
  for (std::size_t i = 0; i < g_wmsgs.size (); ++i) std::puts (g_wmsgs[i].c_str ());
}

static void on_terminate (void)
{
  std::puts ("TERMINATE");
  std::fflush (stdout);
  std::_Exit (3);
}

int main (int argc, char **argv)
{
  std::set_terminate (on_terminate);
  if (argc >= 2 && std::string (argv[1]) == "--max")
    g_alloc_max = static_cast<std::size_t> (std::strtoul (argv[2], 0, 10));
  // locate the inline buffers: data() of an empty default-constructed container
  for (int x = 0; x < 4; ++x)
  {
    if (x < 2) { new (slot_mem (x)) VN (Alloc (0)); } else { new (slot_mem (x)) VM (Alloc (0)); }
    set_alive (x, true);
    Info f = info (x);
    g_inline_lo[x] = static_cast<const char *> (f.data);
    if (f.N != 0)
    {
      Blk b; b.lo = g_inline_lo[x]; b.hi = b.lo + f.N * sizeof (E); b.id = x; b.esz = sizeof (E); b.n = static_cast<long> (f.N); b.alloc = -1; b.heap = false;
      g_blocks.push_back (b);
    }
    Cmd c; c.op = "del"; c.x = x; Ctx k; k.c = &c; std::vector<E> e; k.ext = &e; k.stream = 0; DoSingle d (k); with1 (x, d);
    set_alive (x, false);
  }
  std::string line;
  while (std::getline (std::cin, line))
  {
    run_line (line);
    std::fflush (stdout);
  }
  return 0;
}
