// C13 monitor: converting inputs must be value-converted (static_cast semantics), whichever fast path is taken.
// Prints "W! C13 ..." for every mismatch, then "done <checks>".
#include <gch/small_vector.hpp>
#include <cstdio>
#include <cstdint>
#include <vector>
#include <string>

static long g_checks = 0;
static void bad (const std::string& what) { std::printf ("W! C13 %s\n", what.c_str ()); }

struct B1 { int a; };
struct B2 { int b; };
struct D : B1, B2 { int c; };
enum class EI : int { e0 = 0, e1 = 1, e5 = 5 };
enum EU : unsigned short { u0 = 0, u7 = 7 };

template <typename To, typename From, unsigned N>
static void check_range (const char *name, const std::vector<From>& src)
{
  // through small_vector iterators (contiguous: the memcpy candidates), raw pointers and std::vector iterators
  gch::small_vector<From, 3> sv (src.begin (), src.end ());
  std::vector<To> want;
  for (std::size_t i = 0; i < src.size (); ++i) want.push_back (static_cast<To> (src[i]));
  auto cmp = [&] (const gch::small_vector<To, N>& v, std::size_t off, const char *op)
  {
    for (std::size_t i = 0; i < want.size (); ++i)
    {
      ++g_checks;
      if (! (v[off + i] == want[i])) { bad (std::string (name) + ": " + op + " element " + std::to_string (i) + " is not static_cast<T>(source)"); return; }
    }
  };
  { gch::small_vector<To, N> v (sv.begin (), sv.end ()); cmp (v, 0, "range constructor (small_vector iterators)"); }
  { gch::small_vector<To, N> v (src.data (), src.data () + src.size ()); cmp (v, 0, "range constructor (pointers)"); }
  { gch::small_vector<To, N> v (src.begin (), src.end ()); cmp (v, 0, "range constructor (std::vector iterators)"); }
  { gch::small_vector<To, N> v; v.assign (sv.begin (), sv.end ()); cmp (v, 0, "assign(range)"); }
  { gch::small_vector<To, N> v (2, want.empty () ? To () : want[0]); v.assign (sv.begin (), sv.end ()); cmp (v, 0, "assign(range) over existing elements"); }
  { gch::small_vector<To, N> v (2, want.empty () ? To () : want[0]); v.insert (v.begin () + 1, sv.begin (), sv.end ()); cmp (v, 1, "insert(range) in the middle"); }
  { gch::small_vector<To, N> v (1, want.empty () ? To () : want[0]); v.reserve (16); v.insert (v.begin (), sv.begin (), sv.end ()); cmp (v, 0, "insert(range) in place"); }
  { gch::small_vector<To, N> v (1, want.empty () ? To () : want[0]); v.append (sv.begin (), sv.end ()); cmp (v, 1, "append(range)"); }
  { gch::small_vector<To, N> v; for (std::size_t i = 0; i < src.size (); ++i) v.push_back (static_cast<To> (src[i])); cmp (v, 0, "push_back"); }
  { gch::small_vector<To, N> v; for (std::size_t i = 0; i < src.size (); ++i) v.emplace_back (src[i]); cmp (v, 0, "emplace_back(source value)"); }
  { gch::small_vector<To, N> v; for (std::size_t i = 0; i < src.size (); ++i) v.emplace (v.begin (), src[src.size () - 1 - i]); cmp (v, 0, "emplace(begin, source value)"); }
}

// value-initialisation and fill shortcuts: for trivially default-constructible element types the header value-constructs /
// fills in bulk; the result must be what `T ()` / a copy of `x` is — also for types whose value-initialised object is NOT
// all-zero bytes (a null pointer to data member is -1 in the Itanium ABI) and for aggregates containing one
struct Rec { int first; int second; };
typedef int Rec::*MemPtr;
struct Agg { MemPtr p; int k; };
static bool veq (MemPtr a, MemPtr b) { return a == b; }
static bool veq (const Agg& a, const Agg& b) { return a.p == b.p && a.k == b.k; }
static bool veq (double a, double b) { return a == b; }
static bool veq (int *a, int *b) { return a == b; }
static bool veq (EI a, EI b) { return a == b; }
static bool veq (bool a, bool b) { return a == b; }

template <typename T, unsigned N>
static void check_value_init (const char *name, const T& x)
{
  const T zero = T ();
  auto all = [&] (const gch::small_vector<T, N>& v, std::size_t from, std::size_t to, const T& want, const char *op)
  {
    for (std::size_t i = from; i < to; ++i)
    {
      ++g_checks;
      if (! veq (v[i], want)) { bad (std::string (name) + ": " + op + " element " + std::to_string (i) + " is not " + (&want == &zero ? "a value-initialised T" : "a copy of the argument")); return; }
    }
  };
  for (std::size_t n : { std::size_t (1), std::size_t (N), std::size_t (N + 3) })
  {
    { gch::small_vector<T, N> v (n); all (v, 0, n, zero, "small_vector (n)"); }
    { gch::small_vector<T, N> v (n, x); all (v, 0, n, x, "small_vector (n, x)"); }
    { gch::small_vector<T, N> v; v.resize (n); all (v, 0, n, zero, "resize (n) from empty"); }
    { gch::small_vector<T, N> v (2, x); v.resize (2 + n); all (v, 0, 2, x, "resize (n) keeps the old elements"); all (v, 2, 2 + n, zero, "resize (n) growing"); }
    { gch::small_vector<T, N> v (1, zero); v.resize (1 + n, x); all (v, 1, 1 + n, x, "resize (n, x)"); }
    { gch::small_vector<T, N> v; v.reserve (2 * n + 1); v.resize (n); all (v, 0, n, zero, "resize (n) into reserved storage"); }
    { gch::small_vector<T, N> v; v.assign (n, x); all (v, 0, n, x, "assign (n, x)"); v.emplace_back (); all (v, n, n + 1, zero, "emplace_back ()"); }
    { gch::small_vector<T, N> v (n, zero); v.insert (v.begin (), n, x); all (v, 0, n, x, "insert (pos, n, x)"); all (v, n, 2 * n, zero, "insert (pos, n, x) keeps the tail"); }
  }
}

int main ()
{
  check_value_init<MemPtr, 0> ("int Rec::* (null is not all-zero bits)", &Rec::second);
  check_value_init<MemPtr, 3> ("int Rec::* (null is not all-zero bits)", &Rec::first);
  { Agg a; a.p = &Rec::first; a.k = 7; check_value_init<Agg, 2> ("aggregate holding a pointer to member", a); }
  check_value_init<double, 2> ("double", -0.0);
  { static int obj; check_value_init<int *, 3> ("int*", &obj); }
  check_value_init<EI, 4> ("enum class", EI::e5);
  check_value_init<bool, 5> ("bool", true);
  static D ds[4];
  std::vector<D *> dp; for (int i = 0; i < 4; ++i) dp.push_back (&ds[i]);
  check_range<B2 *, D *, 2> ("Derived* -> SecondBase*", dp);
  check_range<B1 *, D *, 2> ("Derived* -> FirstBase*", dp);
  check_range<const D *, D *, 2> ("D* -> const D*", dp);
  check_range<const void *, D *, 2> ("D* -> const void*", dp);
  check_range<void *, D *, 0> ("D* -> void*", dp);
  std::vector<B2 *> bp; for (int i = 0; i < 4; ++i) bp.push_back (&ds[i]);
  check_range<const B2 *, B2 *, 2> ("B2* -> const B2*", bp);

  std::vector<int> iv = { 0, 1, -1, 2, 255, 256, -129, 70000, -70000 };
  check_range<long, int, 2> ("int -> long", iv);
  check_range<unsigned, int, 2> ("int -> unsigned", iv);
  check_range<short, int, 2> ("int -> short", iv);
  check_range<unsigned char, int, 4> ("int -> unsigned char", iv);
  check_range<bool, int, 4> ("int -> bool", iv);
  check_range<long long, int, 0> ("int -> long long", iv);
  check_range<float, int, 2> ("int -> float", iv);
  check_range<double, int, 2> ("int -> double", iv);
  check_range<std::uint32_t, int, 2> ("int -> uint32_t", iv);
  std::vector<unsigned> uv = { 0u, 1u, 4000000000u, 65536u };
  check_range<int, unsigned, 2> ("unsigned -> int", uv);
  check_range<std::int64_t, unsigned, 2> ("unsigned -> int64_t", uv);
  check_range<std::uint64_t, unsigned, 2> ("unsigned -> uint64_t", uv);
  std::vector<char> cv = { 'a', 'z', (char) -3, 0 };
  check_range<signed char, char, 4> ("char -> signed char", cv);
  check_range<unsigned char, char, 4> ("char -> unsigned char", cv);
  check_range<int, char, 4> ("char -> int", cv);
  std::vector<bool> dummy;
  std::vector<unsigned char> bv = { 0, 1, 2, 255 };
  check_range<bool, unsigned char, 4> ("unsigned char -> bool", bv);
  check_range<char, unsigned char, 4> ("unsigned char -> char", bv);
  std::vector<EU> eu = { u0, u7 };
  check_range<unsigned short, EU, 2> ("enum : unsigned short -> unsigned short", eu);
  check_range<short, EU, 2> ("enum : unsigned short -> short", eu);
  check_range<int, EU, 2> ("enum : unsigned short -> int", eu);
  std::vector<double> dv = { 0.5, -1.5, 3.99, 1e9 };
  check_range<int, double, 2> ("double -> int", dv);
  check_range<float, double, 2> ("double -> float", dv);
  std::vector<float> fv = { 0.5f, -2.25f };
  check_range<double, float, 2> ("float -> double", fv);
  std::printf ("done %ld\n", g_checks);
  return 0;
}
