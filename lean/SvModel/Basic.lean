/-
L2 slot machine — basic vocabulary.

Memory is a map from block ids to lists of slots (`raw` / `obj v`), it lives in the world together with the
container headers, the allocator ledger, an event trace, a fault schedule and a monotone "undefined behaviour" log.
The state survives a throw (`Res.thrown e w`), because C++ catch handlers see the mutations made before the throw.
Nothing here imports Mathlib: the driver (`Main.lean`) links as a native executable.
-/
namespace SvModel

/-- an element value: a payload or the moved-from husk (alive, value unspecified) -/
inductive Val (α : Type) where
  | val (a : α)
  | husk
  deriving Repr, DecidableEq

/-- one element-sized piece of storage -/
inductive Slot (α : Type) where
  | raw
  | obj (v : Val α)
  deriving Repr, DecidableEq

def Slot.isRaw {α} : Slot α → Bool
  | .raw => true
  | _ => false

/-- kinds of exception that can leave an operation -/
inductive Exc where
  | elem | alloc | length | range | iter
  deriving Repr, DecidableEq

/-- observable events -/
inductive Ev where
  | cctor (b i : Nat) | mctor (b i : Nat) | vctor (b i : Nat)
  | casg (b i : Nat) | masg (b i : Nat) | dtor (b i : Nat)
  | alloc (b n a : Nat) | dealloc (b n a : Nat)
  | deref (s p : Nat) | incr (s p : Nat)
  deriving Repr, DecidableEq

/-- container header: `N` and `inl` (the block id of its in-object buffer) never change -/
structure Vec where
  N : Nat
  inl : Nat
  cap : Nat
  size : Nat
  data : Nat
  alloc : Nat
  deriving Repr, DecidableEq

structure World (α : Type) where
  mem    : Nat → List (Slot α)   -- block id ↦ slots
  hdr    : Nat → Vec             -- container id ↦ header
  owner  : Nat → Nat             -- heap block ↦ id of the allocator that produced it
  live   : List Nat              -- live heap blocks (the allocator ledger)
  next   : Nat                   -- next heap block id (allocation order)
  ntmp   : Nat                   -- next temporary block id
  faults : List Nat              -- countdowns: a throwing-capable step ticks the head
  trace  : List Ev               -- monotone event log
  ub     : List String           -- monotone log of lifetime / ledger / bounds violations

inductive Res (σ β : Type) where
  | ok (b : β) (s : σ)
  | thrown (e : Exc) (s : σ)

abbrev M (α β : Type) := World α → Res (World α) β

@[simp] def M.pure {α β} (b : β) : M α β := fun w => .ok b w
@[simp] def M.bind {α β γ} (m : M α β) (f : β → M α γ) : M α γ := fun w =>
  match m w with
  | .ok b w' => f b w'
  | .thrown e w' => .thrown e w'
instance {α} : Monad (M α) where
  pure := M.pure
  bind := M.bind

theorem bind_run {α β γ} (m : M α β) (f : β → M α γ) (w : World α) :
    (m >>= f) w = match m w with | .ok b w' => f b w' | .thrown e w' => .thrown e w' := rfl

def Res.world {σ β} : Res σ β → σ
  | .ok _ w => w
  | .thrown _ w => w

/-- a throwing-capable step of kind `e`: consumes one unit of the head countdown, throws when it reaches 0 -/
def tick {α} (on : Bool) (e : Exc) : M α Unit := fun w =>
  if on then
    match w.faults with
    | [] => .ok () w
    | 0 :: fs => .thrown e { w with faults := fs }
    | (n+1) :: fs => .ok () { w with faults := n :: fs }
  else .ok () w

def tryCatch {α β} (m : M α β) (h : Exc → M α β) : M α β := fun w =>
  match m w with
  | .ok b w' => .ok b w'
  | .thrown e w' => h e w'

theorem tryCatch_run {α β} (m : M α β) (h : Exc → M α β) (w : World α) :
    tryCatch m h w = match m w with | .ok b w' => .ok b w' | .thrown e w' => h e w' := rfl

def throwE {α β} (e : Exc) : M α β := fun w => .thrown e w

/-- RAII: `fin` runs on both exits (a destructor) -/
def finally_ {α β} (m : M α β) (fin : M α Unit) : M α β := fun w =>
  match m w with
  | .ok b w' => (match fin w' with | .ok _ w'' => .ok b w'' | .thrown e w'' => .thrown e w'')
  | .thrown e w' => (match fin w' with | .ok _ w'' => .thrown e w'' | .thrown e' w'' => .thrown e' w'')

def flagUB {α} (msg : String) : M α Unit := fun w => .ok () { w with ub := w.ub ++ [msg] }
def emit {α} (e : Ev) : M α Unit := fun w => .ok () { w with trace := w.trace ++ [e] }

def upd {β} (f : Nat → β) (k : Nat) (v : β) : Nat → β := fun x => if x = k then v else f x
@[simp] theorem upd_same {β} (f : Nat → β) (k : Nat) (v : β) : upd f k v k = v := by simp [upd]
@[simp] theorem upd_other {β} (f : Nat → β) (k : Nat) (v : β) (x : Nat) (h : x ≠ k) : upd f k v x = f x := by simp [upd, h]

/-! Block id spaces never collide: 0..3 are the in-object buffers of containers 0..3, 4 is the null data pointer of
    containers with inline capacity 0, heap blocks take the odd ids 5, 7, 9, … in allocation order, temporaries the
    even ids 6, 8, 10, … -/
def nullBlk : Nat := 4
def heapBase : Nat := 5
def tmpBase : Nat := 6
def isTmp (b : Nat) : Bool := decide (6 ≤ b) && b % 2 == 0
def isHeap (b : Nat) : Bool := decide (5 ≤ b) && b % 2 == 1

end SvModel
