/-
C04 / C10: "an operation whose resulting contents fit in the capacity the container already has never calls allocate" — as a
statement about the event trace, for EVERY world and fault list (no invariant): under the arithmetic condition that the
result fits, the call adds NO allocation event, whether it returns or throws.  The condition is matched against the
GENERATED decision guards of each function (`rfl`-equations): if the header's condition changes, these theorems are
re-checked against the new guard.
-/
import SvModel.Properties.C10Allocs

namespace SvModel.C04
open SvModel Gen SvModel.C10
variable {α : Type}

/-- no allocation event added by this run -/
def Quiet0 {β : Type} (m : M α β) (w : World α) : Prop := nAlloc (m w).world.trace ≤ nAlloc w.trace

theorem Quiet0.of_ab {β : Type} {m : M α β} (h : AB 0 m) (w : World α) : Quiet0 m w := h w
theorem Quiet0.allocs {β : Type} {m : M α β} {w : World α} (h : Quiet0 m w) : allocsAdded m w = 0 := by
  unfold allocsAdded; unfold Quiet0 at h; omega

theorem run_getV {β : Type} (c : Nat) (f : Vec → M α β) (w : World α) : (getV c >>= f) w = f (w.hdr c) w := rfl

/-- push_back / emplace_back with spare capacity -/
theorem push_back_fits (cfg : Cfg) (c : Nat) (s : Src α) (w : World α) (hfit : (w.hdr c).size < (w.hdr c).cap) :
    Quiet0 (appendElement cfg c s) w := by
  have e0 : guard_appendElement_0 (genv cfg (w.hdr c)) = decide ((w.hdr c).size < (w.hdr c).cap) := rfl
  unfold Quiet0 appendElement
  rw [run_getV, e0, if_pos (decide_eq_true hfit)]
  exact AB.emplaceIntoCurrentEnd cfg c s w

/-- append (n, x) / insert (end (), n, x) that fits -/
theorem append_copies_fits (cfg : Cfg) (c n : Nat) (s : Src α) (w : World α) (hfit : (w.hdr c).size + n ≤ (w.hdr c).cap) :
    Quiet0 (appendCopies cfg c n s) w := by
  have e0 : guard_appendCopies_0 { genv cfg (w.hdr c) with count := n } = decide ((w.hdr c).cap - (w.hdr c).size < n) := rfl
  unfold Quiet0 appendCopies
  rw [run_getV, e0, if_neg (by simp; omega)]
  exact (AB.bind0 (AB.uninitGen _ _ _ _ _) (fun _ => AB.bind0 (AB.setSize _ _) (fun _ => AB.pure _))) w

/-- append (first, last) (multi-pass) that fits -/
theorem append_range_fits (cfg : Cfg) (c : Nat) (strong : Bool) (srcs : List (Src α)) (w : World α)
    (hfit : (w.hdr c).size + srcs.length ≤ (w.hdr c).cap) : Quiet0 (appendRangeFwd cfg c strong srcs) w := by
  have e0 : guard_appendRange2_0 { genv cfg (w.hdr c) with numInsert := srcs.length } = decide ((w.hdr c).cap - (w.hdr c).size < srcs.length) := rfl
  unfold Quiet0 appendRangeFwd
  rw [run_getV, e0, if_neg (by simp; omega)]
  exact (AB.bind0 (AB.uninitGen _ _ _ _ _) (fun _ => AB.bind0 (AB.setSize _ _) (fun _ => AB.pure _))) w

/-- insert (pos, x) / emplace (pos, args) with spare capacity -/
theorem insert_fits (cfg : Cfg) (c pos : Nat) (s : Src α) (rv : Bool) (w : World α) (hfit : (w.hdr c).size < (w.hdr c).cap) :
    Quiet0 (emplaceAt cfg c pos s rv) w := by
  have e0 : guard_emplaceAt_0 (genv cfg (w.hdr c)) = decide ((w.hdr c).size < (w.hdr c).cap) := rfl
  unfold Quiet0 emplaceAt
  rw [run_getV, e0, if_pos (decide_eq_true hfit)]
  exact (AB.ite (AB.emplaceIntoCurrentRv _ _ _ _) (AB.emplaceIntoCurrent _ _ _ _)) w

/-- insert (pos, n, x) that fits — anywhere, incl. end () -/
theorem insert_n_fits (cfg : Cfg) (c pos n : Nat) (s : Src α) (w : World α) (hfit : (w.hdr c).size + n ≤ (w.hdr c).cap) :
    Quiet0 (insertCopies cfg c pos n s) w := by
  have e0 : guard_insertCopies_0 { genv cfg (w.hdr c) with pos := pos, count := n, tailSize := (w.hdr c).size - pos } = decide (0 = n) := rfl
  have e1 : guard_insertCopies_1 { genv cfg (w.hdr c) with pos := pos, count := n, tailSize := (w.hdr c).size - pos } = decide (pos = (w.hdr c).size) := rfl
  have e2 : guard_insertCopies_2 { genv cfg (w.hdr c) with pos := pos, count := n, tailSize := (w.hdr c).size - pos } = decide (1 = n) := rfl
  have e3 : guard_insertCopies_3 { genv cfg (w.hdr c) with pos := pos, count := n, tailSize := (w.hdr c).size - pos } = decide ((w.hdr c).cap - (w.hdr c).size < n) := rfl
  unfold Quiet0 insertCopies
  rw [run_getV]
  simp only []
  rw [e0, e1, e2, e3]
  by_cases h0 : 0 = n
  · rw [if_pos (decide_eq_true h0)]; exact Nat.le_refl _
  · rw [if_neg (by simpa using h0)]
    by_cases h1 : pos = (w.hdr c).size
    · rw [if_pos (decide_eq_true h1)]
      by_cases h2 : 1 = n
      · rw [if_pos (decide_eq_true h2)]; exact push_back_fits cfg c s w (by omega)
      · rw [if_neg (by simpa using h2)]; exact append_copies_fits cfg c n s w hfit
    · rw [if_neg (by simpa using h1), if_neg (by simp; omega)]
      exact (AB.ite
        (AB.bind0 (AB.insertInPlaceLarge _ _ _ _ _ _ (fun _ => AB.assignGen _ _ _ _)) (fun _ => AB.pure _))
        (AB.bind0 AB.allocTemp (fun t => AB.bind0 (AB.constructSrc _ _ _ _) (fun _ =>
          AB.bind0 (AB.finally (AB.insertInPlaceSmall _ _ _ _ _ (AB.assignGen _ _ _ _)) (AB.destroyAt _ _ _)) (fun _ => AB.pure _))))) w

/-- insert (pos, first, last) (multi-pass) that fits -/
theorem insert_range_fits (cfg : Cfg) (c pos : Nat) (srcs : List (Src α)) (w : World α)
    (hfit : (w.hdr c).size + srcs.length ≤ (w.hdr c).cap) : Quiet0 (insertRangeFwd cfg c pos srcs) w := by
  have e0 : guard_insertRange1_1 { genv cfg (w.hdr c) with pos := pos, numInsert := srcs.length } = decide (srcs.length = 1) := rfl
  have eh : guard_insertRangeHelper_0 { genv cfg (w.hdr c) with pos := pos, numInsert := srcs.length, tailSize := (w.hdr c).size - pos } =
      decide ((w.hdr c).cap - (w.hdr c).size < srcs.length) := rfl
  unfold Quiet0 insertRangeFwd
  rw [run_getV]
  simp only []
  split
  · -- pos ≠ end (): insert_range_helper
    unfold insertRangeHelper
    rw [run_getV]
    simp only []
    rw [eh, if_neg (by simp; omega)]
    exact (AB.ite
      (AB.bind0 (AB.insertInPlaceLarge _ _ _ _ _ _ (fun _ => AB.assignGen _ _ _ _)) (fun _ => AB.pure _))
      (AB.bind0 (AB.insertInPlaceSmall _ _ _ _ _ (AB.assignGen _ _ _ _)) (fun _ => AB.pure _))) w
  · rw [e0]
    by_cases h1 : srcs.length = 1
    · rw [if_pos (decide_eq_true h1)]
      cases srcs with
      | nil => exact Nat.le_refl _
      | cons s rest => exact push_back_fits cfg c s w (by simp at hfit; omega)
    · rw [if_neg (by simpa using h1)]; exact append_range_fits cfg c false srcs w hfit

/-- assign (n, x) within the capacity -/
theorem assign_n_fits (cfg : Cfg) (c n : Nat) (s : Src α) (w : World α) (hfit : n ≤ (w.hdr c).cap) :
    Quiet0 (assignWithCopies cfg c n s) w := by
  have e0 : guard_assignWithCopies_0 { genv cfg (w.hdr c) with count := n } = decide ((w.hdr c).cap < n) := rfl
  unfold Quiet0 assignWithCopies
  rw [run_getV]
  simp only []
  rw [e0, if_neg (by simp; omega)]
  exact (AB.ite
    (AB.bind0 (AB.assignGen _ _ _ _) (fun _ => AB.bind0 (AB.uninitGen _ _ _ _ _) (fun _ => AB.setSize _ _)))
    (AB.bind0 (AB.assignGen _ _ _ _) (fun _ => AB.bind0 (AB.eraseRange _ _ _ _) (fun _ => AB.pure _)))) w

/-- assign (first, last) (multi-pass) within the capacity -/
theorem assign_range_fits (cfg : Cfg) (c : Nat) (srcs : List (Src α)) (w : World α) (hfit : srcs.length ≤ (w.hdr c).cap) :
    Quiet0 (assignWithRangeFwd cfg c srcs) w := by
  have e0 : guard_assignWithRange1_0 { genv cfg (w.hdr c) with count := srcs.length } = decide ((w.hdr c).cap < srcs.length) := rfl
  unfold Quiet0 assignWithRangeFwd
  rw [run_getV]
  simp only []
  rw [e0, if_neg (by simp; omega)]
  exact (AB.ite
    (AB.bind0 (AB.assignGen _ _ _ _) (fun _ => AB.bind0 (AB.uninitGen _ _ _ _ _) (fun _ => AB.setSize _ _)))
    (AB.bind0 (AB.assignGen _ _ _ _) (fun _ => AB.bind0 (AB.eraseRange _ _ _ _) (fun _ => AB.pure _)))) w

/-- reserve (n) with n ≤ capacity () does nothing at all -/
theorem reserve_fits (cfg : Cfg) (c n : Nat) (w : World α) (hfit : n ≤ (w.hdr c).cap) : Quiet0 (requestCapacity cfg c n) w := by
  have e0 : guard_requestCapacity_0 { genv cfg (w.hdr c) with request := n } = decide (n ≤ (w.hdr c).cap) := rfl
  unfold Quiet0 requestCapacity
  rw [run_getV, e0, if_pos (decide_eq_true hfit)]
  exact Nat.le_refl _

/-- C04's clause, all growing calls with a known element count: if the result fits in the capacity, no allocation -/
theorem fits_no_allocation (cfg : Cfg) (c : Nat) (w : World α) :
    (∀ s, (w.hdr c).size < (w.hdr c).cap → allocsAdded (appendElement cfg c s) w = 0) ∧
    (∀ pos s rv, (w.hdr c).size < (w.hdr c).cap → allocsAdded (emplaceAt cfg c pos s rv) w = 0) ∧
    (∀ pos n s, (w.hdr c).size + n ≤ (w.hdr c).cap → allocsAdded (insertCopies cfg c pos n s) w = 0) ∧
    (∀ pos srcs, (w.hdr c).size + srcs.length ≤ (w.hdr c).cap → allocsAdded (insertRangeFwd cfg c pos srcs) w = 0) ∧
    (∀ strong srcs, (w.hdr c).size + srcs.length ≤ (w.hdr c).cap → allocsAdded (appendRangeFwd cfg c strong srcs) w = 0) ∧
    (∀ n s, (w.hdr c).size + n ≤ (w.hdr c).cap → allocsAdded (appendCopies cfg c n s) w = 0) ∧
    (∀ n s, n ≤ (w.hdr c).cap → allocsAdded (assignWithCopies cfg c n s) w = 0) ∧
    (∀ srcs, srcs.length ≤ (w.hdr c).cap → allocsAdded (assignWithRangeFwd cfg c srcs) w = 0) ∧
    (∀ n, n ≤ (w.hdr c).cap → allocsAdded (requestCapacity cfg c n) w = 0) :=
  ⟨fun s h => (push_back_fits cfg c s w h).allocs, fun pos s rv h => (insert_fits cfg c pos s rv w h).allocs,
   fun pos n s h => (insert_n_fits cfg c pos n s w h).allocs, fun pos srcs h => (insert_range_fits cfg c pos srcs w h).allocs,
   fun strong srcs h => (append_range_fits cfg c strong srcs w h).allocs, fun n s h => (append_copies_fits cfg c n s w h).allocs,
   fun n s h => (assign_n_fits cfg c n s w h).allocs, fun srcs h => (assign_range_fits cfg c srcs w h).allocs,
   fun n h => (reserve_fits cfg c n w h).allocs⟩

end SvModel.C04
