/-
Property theorems for the member operations proved so far at L2 (the slot machine that mirrors small_vector_base):
  push_back / emplace_back (`appendElement`), pop_back (`eraseLast`), erase(pos) (`eraseAt`),
  erase(first,last) (`eraseRange`), clear (`eraseAll`), reserve (`requestCapacity`), shrink_to_fit (`shrinkToSize`),
  resize(n) / resize(n, x) (`resizeWith`), append(first, last) for multi-pass ranges (`appendRangeFwd`),
  insert(end, n, x) (`appendCopies`).
Each theorem quantifies over every configuration `cfg`, every world satisfying the invariants (`VecOK`, `Ledger`),
every inline capacity, inline or heap representation, and EVERY fault list (`w.faults` is arbitrary).
They are thin corollaries of the operation specifications in Proofs/Append.lean and Proofs/Erase.lean, restated per
property so that the statements can be read against properties.jsonl.  Operations not listed here are tied to the code
by the differential run and the monitors only; see DESIGN.md and the evidence files for the current list.
-/
import SvModel.Proofs.Examples
import SvModel.Proofs.AppendN
import SvModel.Spec.L0

namespace SvModel
open Gen
variable {α : Type}

/-- the standing assumptions of every theorem about container `c` -/
structure Pre (cfg : Cfg) (w : World α) (c : Nat) : Prop where
  vec  : VecOK cfg w c
  led  : Ledger w
  nmax : (w.hdr c).N ≤ cfg.maxSize
  ub   : w.ub = []

/-- relocation under the strong policy cannot leave husks: the type is nothrow-move-constructible or it is relocated by copy
    (C05's side condition "other than the move constructor of a type that is not copy-insertable") -/
def StrongPolicy (cfg : Cfg) : Prop := movesFor cfg true = true → cfg.tMove = false

namespace C01
/-- push_back(x) / emplace_back(x): contents become `xs ++ [x]`; returns (a reference to) position `size` -/
theorem push_back_refines (cfg : Cfg) (c : Nat) (s : Src α) (w w' : World α) (r : Nat) (xs : List (Val α))
    (hp : Pre cfg w c) (ha : ArgOK cfg w c s) (hpol : StrongPolicy cfg) (hx : Holds w c xs)
    (hr : appendElement cfg c s w = .ok r w') :
    Holds w' c (L0.pushBack xs (srcVal w s)) ∧ r = xs.length := by
  have h := sat_of_ok (appendElement_sat cfg c s w hp.vec hp.led hp.nmax ha hpol) hr
  exact ⟨h.2.holds xs hx, by rw [h.1, hx.1]⟩

theorem pop_back_refines (cfg : Cfg) (c : Nat) (w w' : World α) (xs : List (Val α))
    (hp : Pre cfg w c) (hne : 0 < (w.hdr c).size) (hx : Holds w c xs) (hr : eraseLast cfg c w = .ok () w') :
    Holds w' c (L0.popBack xs) :=
  (sat_of_ok (eraseLast_sat cfg c w hp.vec hp.led hne) hr).holds xs hx

theorem erase_refines (cfg : Cfg) (c pos : Nat) (w w' : World α) (r : Nat) (xs : List (Val α))
    (hp : Pre cfg w c) (hpos : pos < (w.hdr c).size) (hx : Holds w c xs) (hr : eraseAt cfg c pos w = .ok r w') :
    Holds w' c (L0.eraseAt xs pos).1 ∧ r = (L0.eraseAt xs pos).2 := by
  have h := sat_of_ok (eraseAt_sat cfg c pos w hp.vec hp.led hpos) hr
  exact ⟨h.2.holds xs hx, h.1⟩

theorem erase_range_refines (cfg : Cfg) (c p q : Nat) (w w' : World α) (r : Nat) (xs : List (Val α))
    (hp : Pre cfg w c) (h1 : p ≤ q) (h2 : q ≤ (w.hdr c).size) (hx : Holds w c xs) (hr : eraseRange cfg c p q w = .ok r w') :
    Holds w' c (L0.eraseRange xs p q).1 ∧ r = (L0.eraseRange xs p q).2 := by
  have h := sat_of_ok (eraseRange_sat cfg c p q w hp.vec hp.led h1 h2) hr
  exact ⟨h.2.holds xs hx, h.1⟩

theorem clear_refines (cfg : Cfg) (c : Nat) (w w' : World α) (xs : List (Val α))
    (hp : Pre cfg w c) (hx : Holds w c xs) (hr : eraseAll cfg c w = .ok () w') :
    Holds w' c (L0.clear xs) :=
  (sat_of_ok (eraseAll_sat cfg c w hp.vec hp.led) hr).holds xs hx

/-- reserve / shrink_to_fit keep the contents -/
theorem reserve_refines (cfg : Cfg) (c n : Nat) (w w' : World α) (xs : List (Val α))
    (hp : Pre cfg w c) (hpol : StrongPolicy cfg) (hx : Holds w c xs) (hr : requestCapacity cfg c n w = .ok () w') :
    Holds w' c xs :=
  (sat_of_ok (requestCapacity_sat cfg c n w hp.vec hp.led hp.nmax hpol) hr).1.holds xs hx

theorem shrink_to_fit_refines (cfg : Cfg) (c : Nat) (w w' : World α) (xs : List (Val α))
    (hp : Pre cfg w c) (hpol : StrongPolicy cfg) (hx : Holds w c xs) (hr : shrinkToSize cfg c w = .ok () w') :
    Holds w' c xs :=
  (sat_of_ok (shrinkToSize_sat cfg c w hp.vec hp.led hp.nmax hpol) hr).1.holds xs hx

/-- resize(n, x) (x may alias an own element; value-initialisation is the source `.value`) -/
theorem resize_refines (cfg : Cfg) (c n : Nat) (s : Src α) (w w' : World α) (xs : List (Val α))
    (hp : Pre cfg w c) (ha : ArgOK cfg w c s) (hpol : StrongPolicy cfg) (hx : Holds w c xs)
    (hr : resizeWith cfg c n s w = .ok () w') :
    Holds w' c (L0.resize xs n (srcVal w s)) :=
  (sat_of_ok (resizeWith_sat cfg c n s w hp.vec hp.led hp.nmax ha hpol) hr).holds xs hx

/-- append(first, last) over a multi-pass range of external values -/
theorem append_range_refines (cfg : Cfg) (c : Nat) (vs : List α) (w w' : World α) (r : Nat) (xs : List (Val α))
    (hp : Pre cfg w c) (hpol : StrongPolicy cfg) (hx : Holds w c xs)
    (hr : appendRangeFwd cfg c true (vs.map Src.ext) w = .ok r w') :
    Holds w' c (L0.append xs (vs.map Val.val)) ∧ r = xs.length := by
  have h := sat_of_ok (appendRangeFwd_sat cfg c true _ w hp.vec hp.led hp.nmax ((argsOK_ext cfg w c vs).srcs hp.vec hp.led) (fun _ => hpol)) hr
  have hm : (vs.map Src.ext).map (srcVal w) = vs.map Val.val := by simp [srcVal, Function.comp_def]
  rw [hm] at h
  exact ⟨h.2.holds xs hx, by rw [h.1, hx.1]⟩

/-- insert(end(), n, x) -/
theorem insert_n_at_end_refines (cfg : Cfg) (c n : Nat) (s : Src α) (w w' : World α) (r : Nat) (xs : List (Val α))
    (hp : Pre cfg w c) (ha : ArgOK cfg w c s) (hx : Holds w c xs) (hr : appendCopies cfg c n s w = .ok r w') :
    Holds w' c (L0.insertN xs xs.length n (srcVal w s)).1 ∧ r = (L0.insertN xs xs.length n (srcVal w s)).2 := by
  have h := sat_of_ok (appendCopies_sat cfg c n s w hp.vec hp.led hp.nmax ha) hr
  refine ⟨?_, by rw [h.1, hx.1]; rfl⟩
  have := h.2.holds xs hx
  simpa [L0.insertN] using this
end C01

namespace C02
/-- storage invariants after push_back, on normal return AND after a throw, for every fault list -/
theorem push_back_inv (cfg : Cfg) (c : Nat) (s : Src α) (w : World α)
    (hp : Pre cfg w c) (ha : ArgOK cfg w c s) (hpol : StrongPolicy cfg) :
    (appendElement cfg c s w).sat (fun _ w' => VecOK cfg w' c) (fun _ w' => VecOK cfg w' c) :=
  Res.sat_mono (appendElement_sat cfg c s w hp.vec hp.led hp.nmax ha hpol) (fun _ _ h => h.2.vec)
    (fun _ _ h => h.vecOK hp.led hp.vec)

theorem pop_back_inv (cfg : Cfg) (c : Nat) (w : World α) (hp : Pre cfg w c) (hne : 0 < (w.hdr c).size) :
    (eraseLast cfg c w).sat (fun _ w' => VecOK cfg w' c) (fun _ w' => VecOK cfg w' c) :=
  Res.sat_mono (eraseLast_sat cfg c w hp.vec hp.led hne) (fun _ _ h => h.basic.vec) (fun _ _ h => h.elim)

theorem erase_inv (cfg : Cfg) (c pos : Nat) (w : World α) (hp : Pre cfg w c) (hpos : pos < (w.hdr c).size) :
    (eraseAt cfg c pos w).sat (fun _ w' => VecOK cfg w' c) (fun _ w' => VecOK cfg w' c) :=
  Res.sat_mono (eraseAt_sat cfg c pos w hp.vec hp.led hpos) (fun _ _ h => h.2.basic.vec) (fun _ _ h => h.2.1.vec)

theorem erase_range_inv (cfg : Cfg) (c p q : Nat) (w : World α) (hp : Pre cfg w c) (h1 : p ≤ q) (h2 : q ≤ (w.hdr c).size) :
    (eraseRange cfg c p q w).sat (fun _ w' => VecOK cfg w' c) (fun _ w' => VecOK cfg w' c) :=
  Res.sat_mono (eraseRange_sat cfg c p q w hp.vec hp.led h1 h2) (fun _ _ h => h.2.basic.vec) (fun _ _ h => h.2.1.vec)

theorem clear_inv (cfg : Cfg) (c : Nat) (w : World α) (hp : Pre cfg w c) :
    (eraseAll cfg c w).sat (fun _ w' => VecOK cfg w' c) (fun _ w' => VecOK cfg w' c) :=
  Res.sat_mono (eraseAll_sat cfg c w hp.vec hp.led) (fun _ _ h => h.basic.vec) (fun _ _ h => h.elim)

/-- the clauses of the property, read off `VecOK` -/
theorem inv_clauses (cfg : Cfg) (w : World α) (c : Nat) (h : VecOK cfg w c) :
    (w.hdr c).size ≤ (w.hdr c).cap ∧ (w.hdr c).cap ≤ max cfg.maxSize (w.hdr c).N ∧ (w.hdr c).N ≤ (w.hdr c).cap ∧
    ((w.hdr c).cap = (w.hdr c).N ↔ (w.hdr c).data = (w.hdr c).inl) ∧
    ((w.hdr c).data ≠ (w.hdr c).inl →
        (w.hdr c).data ∈ w.live ∧ (w.mem (w.hdr c).data).length = (w.hdr c).cap ∧ w.owner (w.hdr c).data = (w.hdr c).alloc) :=
  ⟨h.size_le, h.cap_max, h.cap_ge, h.inl_iff, fun hne => ⟨(h.heap hne).1, h.len, (h.heap hne).2⟩⟩

theorem reserve_inv (cfg : Cfg) (c n : Nat) (w : World α) (hp : Pre cfg w c) (hpol : StrongPolicy cfg) :
    (requestCapacity cfg c n w).sat (fun _ w' => VecOK cfg w' c ∧ n ≤ (w'.hdr c).cap) (fun _ w' => VecOK cfg w' c) :=
  Res.sat_mono (requestCapacity_sat cfg c n w hp.vec hp.led hp.nmax hpol) (fun _ _ h => ⟨h.1.basic.vec, h.2.1⟩)
    (fun _ _ h => h.vecOK hp.led hp.vec)

/-- after a successful shrink_to_fit, capacity = max(size, N): a container whose contents fit returns to its inline buffer -/
theorem shrink_to_fit_post (cfg : Cfg) (c : Nat) (w w' : World α) (hp : Pre cfg w c) (hpol : StrongPolicy cfg)
    (hr : shrinkToSize cfg c w = .ok () w') :
    VecOK cfg w' c ∧ (w'.hdr c).cap = max (w.hdr c).size (w.hdr c).N ∧
    ((w.hdr c).size ≤ (w.hdr c).N → (w'.hdr c).data = (w'.hdr c).inl) := by
  have h := sat_of_ok (shrinkToSize_sat cfg c w hp.vec hp.led hp.nmax hpol) hr
  refine ⟨h.1.basic.vec, h.2, fun hle => ?_⟩
  apply (h.1.basic.vec.inl_iff).mp
  rw [h.2, h.1.basic.frame.hdr_N, Nat.max_eq_right hle]

theorem shrink_to_fit_inv (cfg : Cfg) (c : Nat) (w : World α) (hp : Pre cfg w c) (hpol : StrongPolicy cfg) :
    (shrinkToSize cfg c w).sat (fun _ w' => VecOK cfg w' c) (fun _ w' => VecOK cfg w' c) :=
  Res.sat_mono (shrinkToSize_sat cfg c w hp.vec hp.led hp.nmax hpol) (fun _ _ h => h.1.basic.vec) (fun _ _ h => h.vecOK hp.led hp.vec)

theorem resize_inv (cfg : Cfg) (c n : Nat) (s : Src α) (w : World α) (hp : Pre cfg w c) (ha : ArgOK cfg w c s) (hpol : StrongPolicy cfg) :
    (resizeWith cfg c n s w).sat (fun _ w' => VecOK cfg w' c ∧ (w'.hdr c).size = n) (fun _ w' => VecOK cfg w' c) :=
  Res.sat_mono (resizeWith_sat cfg c n s w hp.vec hp.led hp.nmax ha hpol) (fun _ _ h => ⟨h.basic.vec, h.size⟩) (fun _ _ h => h.vecOK hp.led hp.vec)

theorem append_range_inv (cfg : Cfg) (c : Nat) (strong : Bool) (vs : List α) (w : World α) (hp : Pre cfg w c) (hpol : StrongPolicy cfg) :
    (appendRangeFwd cfg c strong (vs.map Src.ext) w).sat (fun _ w' => VecOK cfg w' c) (fun _ w' => VecOK cfg w' c) :=
  Res.sat_mono (appendRangeFwd_sat cfg c strong _ w hp.vec hp.led hp.nmax ((argsOK_ext cfg w c vs).srcs hp.vec hp.led) (fun _ => hpol))
    (fun _ _ h => h.2.basic.vec) (fun _ _ h => h.2.1.vec)
end C02

namespace C03
/-- no operation constructs over a live element or touches dead storage: the UB log stays empty, in both outcomes,
    and afterwards exactly the slots [0, size) of the buffer hold live objects (that is `VecOK.objs` / `VecOK.raws`) -/
theorem push_back_no_ub (cfg : Cfg) (c : Nat) (s : Src α) (w : World α)
    (hp : Pre cfg w c) (ha : ArgOK cfg w c s) (hpol : StrongPolicy cfg) :
    (appendElement cfg c s w).sat (fun _ w' => w'.ub = []) (fun _ w' => w'.ub = []) :=
  Res.sat_mono (appendElement_sat cfg c s w hp.vec hp.led hp.nmax ha hpol) (fun _ _ h => by rw [h.2.ub]; exact hp.ub)
    (fun _ _ h => by rw [h.ub]; exact hp.ub)

theorem erase_family_no_ub (cfg : Cfg) (c : Nat) (w : World α) (hp : Pre cfg w c) :
    (∀ pos, pos < (w.hdr c).size → (eraseAt cfg c pos w).sat (fun _ w' => w'.ub = []) (fun _ w' => w'.ub = [])) ∧
    (∀ p q, p ≤ q → q ≤ (w.hdr c).size → (eraseRange cfg c p q w).sat (fun _ w' => w'.ub = []) (fun _ w' => w'.ub = [])) ∧
    (0 < (w.hdr c).size → (eraseLast cfg c w).sat (fun _ w' => w'.ub = []) (fun _ w' => w'.ub = [])) ∧
    (eraseAll cfg c w).sat (fun _ w' => w'.ub = []) (fun _ w' => w'.ub = []) := by
  refine ⟨fun pos hpos => ?_, fun p q h1 h2 => ?_, fun hne => ?_, ?_⟩
  · exact Res.sat_mono (eraseAt_sat cfg c pos w hp.vec hp.led hpos) (fun _ _ h => by rw [h.2.basic.ub]; exact hp.ub)
      (fun _ _ h => by rw [h.2.1.ub]; exact hp.ub)
  · exact Res.sat_mono (eraseRange_sat cfg c p q w hp.vec hp.led h1 h2) (fun _ _ h => by rw [h.2.basic.ub]; exact hp.ub)
      (fun _ _ h => by rw [h.2.1.ub]; exact hp.ub)
  · exact Res.sat_mono (eraseLast_sat cfg c w hp.vec hp.led hne) (fun _ _ h => by rw [h.basic.ub]; exact hp.ub) (fun _ _ h => h.elim)
  · exact Res.sat_mono (eraseAll_sat cfg c w hp.vec hp.led) (fun _ _ h => by rw [h.basic.ub]; exact hp.ub) (fun _ _ h => h.elim)

/-- the live objects of a valid container are exactly its first `size` slots -/
theorem live_split (cfg : Cfg) (w : World α) (c : Nat) (h : VecOK cfg w c) (i : Nat) (hi : i < (w.hdr c).cap) :
    (IsObj w (w.hdr c).data i ↔ i < (w.hdr c).size) := by
  constructor
  · intro ho
    by_cases hlt : i < (w.hdr c).size
    · exact hlt
    · exact (not_obj_and_raw ho (h.raws i (by omega) hi)).elim
  · exact h.objs i
end C03

namespace C04
/-- the allocator ledger stays consistent through push_back in both outcomes, and a push_back that fits in the
    current capacity never calls allocate (`next` is bumped by every allocate, so `next` unchanged = no allocation) -/
theorem push_back_ledger (cfg : Cfg) (c : Nat) (s : Src α) (w : World α)
    (hp : Pre cfg w c) (ha : ArgOK cfg w c s) (hpol : StrongPolicy cfg) :
    (appendElement cfg c s w).sat
      (fun _ w' => Ledger w' ∧ ((w.hdr c).size < (w.hdr c).cap → w'.next = w.next ∧ w'.live = w.live))
      (fun _ w' => Ledger w' ∧ w'.live = w.live) :=
  Res.sat_mono (appendElement_sat cfg c s w hp.vec hp.led hp.nmax ha hpol)
    (fun _ _ h => ⟨h.2.led, fun hlt => ⟨(h.2.inplace hlt).2.2.1, (h.2.inplace hlt).2.2.2.1⟩⟩)
    (fun _ _ h => ⟨h.led, h.live⟩)

/-- pop_back, erase, clear never touch the allocator -/
theorem erase_family_no_alloc (cfg : Cfg) (c : Nat) (w : World α) (hp : Pre cfg w c) :
    (∀ pos, pos < (w.hdr c).size → (eraseAt cfg c pos w).sat (fun _ w' => w'.next = w.next ∧ w'.live = w.live ∧ Ledger w') (fun _ w' => Ledger w')) ∧
    (∀ p q, p ≤ q → q ≤ (w.hdr c).size → (eraseRange cfg c p q w).sat (fun _ w' => w'.next = w.next ∧ w'.live = w.live ∧ Ledger w') (fun _ w' => Ledger w')) ∧
    (0 < (w.hdr c).size → (eraseLast cfg c w).sat (fun _ w' => w'.next = w.next ∧ w'.live = w.live ∧ Ledger w') (fun _ _ => False)) ∧
    (eraseAll cfg c w).sat (fun _ w' => w'.next = w.next ∧ w'.live = w.live ∧ Ledger w') (fun _ _ => False) := by
  refine ⟨fun pos hpos => ?_, fun p q h1 h2 => ?_, fun hne => ?_, ?_⟩
  · exact Res.sat_mono (eraseAt_sat cfg c pos w hp.vec hp.led hpos) (fun _ _ h => ⟨h.2.noalloc.1, h.2.noalloc.2, h.2.basic.led⟩) (fun _ _ h => h.2.1.led)
  · exact Res.sat_mono (eraseRange_sat cfg c p q w hp.vec hp.led h1 h2) (fun _ _ h => ⟨h.2.noalloc.1, h.2.noalloc.2, h.2.basic.led⟩) (fun _ _ h => h.2.1.led)
  · exact Res.sat_mono (eraseLast_sat cfg c w hp.vec hp.led hne) (fun _ _ h => ⟨h.noalloc.1, h.noalloc.2, h.basic.led⟩) (fun _ _ h => h)
  · exact Res.sat_mono (eraseAll_sat cfg c w hp.vec hp.led) (fun _ _ h => ⟨h.noalloc.1, h.noalloc.2, h.basic.led⟩) (fun _ _ h => h)
end C04

namespace C05
/-- STRONG GUARANTEE of push_back / emplace_back: whatever throws (the new element's constructor, a relocating copy,
    the allocator — at any fault index), the container holds the same values (none moved-from), has the same header
    (size, capacity, data pointer), every block that existed is unchanged, and nothing leaked -/
theorem push_back_strong (cfg : Cfg) (c : Nat) (s : Src α) (w w' : World α) (e : Exc) (xs : List (Val α))
    (hp : Pre cfg w c) (ha : ArgOK cfg w c s) (hpol : StrongPolicy cfg) (hx : Holds w c xs)
    (hr : appendElement cfg c s w = .thrown e w') :
    Holds w' c xs ∧ w'.hdr c = w.hdr c ∧ w'.live = w.live ∧ VecOK cfg w' c ∧ Ledger w' ∧
    (∀ b, b < w.next → b % 2 = 1 ∨ b < 5 → w'.mem b = w.mem b) := by
  have h := sat_of_thrown (appendElement_sat cfg c s w hp.vec hp.led hp.nmax ha hpol) hr
  exact ⟨h.holds hp.led hp.vec hx, by rw [h.hdr], h.live, h.vecOK hp.led hp.vec, h.led, h.mem⟩

/-- non-vacuity: on the concrete full inline container [1, 2] with faults = [1] the reallocating push_back really throws
    (the relocating copy of the first element fails) and the hypotheses are satisfiable -/
example : (match appendElement Ex.cfgT 0 (.ext 9) { Ex.w0 with faults := [1] } with
           | .thrown e w' => decide (e = .elem) && w'.live == [] && w'.mem 0 == [.obj (.val 1), .obj (.val 2)] && w'.mem 5 == []
           | .ok _ _ => false) = true := by decide
example : Pre Ex.cfgT Ex.w0 0 := ⟨Ex.w0_vec, Ex.w0_ledger, by decide, rfl⟩
example : StrongPolicy Ex.cfgT := by intro h; revert h; decide

/-- reserve, shrink_to_fit, resize and append(first, last): a throw leaves the world observably unchanged -/
theorem reserve_strong (cfg : Cfg) (c n : Nat) (w w' : World α) (e : Exc) (hp : Pre cfg w c) (hpol : StrongPolicy cfg)
    (hr : requestCapacity cfg c n w = .thrown e w') : Strong w w' :=
  sat_of_thrown (requestCapacity_sat cfg c n w hp.vec hp.led hp.nmax hpol) hr

theorem shrink_to_fit_strong (cfg : Cfg) (c : Nat) (w w' : World α) (e : Exc) (hp : Pre cfg w c) (hpol : StrongPolicy cfg)
    (hr : shrinkToSize cfg c w = .thrown e w') : Strong w w' :=
  sat_of_thrown (shrinkToSize_sat cfg c w hp.vec hp.led hp.nmax hpol) hr

theorem resize_strong (cfg : Cfg) (c n : Nat) (s : Src α) (w w' : World α) (e : Exc) (hp : Pre cfg w c) (ha : ArgOK cfg w c s)
    (hpol : StrongPolicy cfg) (hr : resizeWith cfg c n s w = .thrown e w') : Strong w w' :=
  sat_of_thrown (resizeWith_sat cfg c n s w hp.vec hp.led hp.nmax ha hpol) hr

theorem append_range_strong (cfg : Cfg) (c : Nat) (vs : List α) (w w' : World α) (e : Exc) (hp : Pre cfg w c) (hpol : StrongPolicy cfg)
    (hr : appendRangeFwd cfg c true (vs.map Src.ext) w = .thrown e w') : Strong w w' :=
  (sat_of_thrown (appendRangeFwd_sat cfg c true _ w hp.vec hp.led hp.nmax ((argsOK_ext cfg w c vs).srcs hp.vec hp.led) (fun _ => hpol)) hr).1 rfl

/-- what `Strong` means for the container: same values (none moved-from), same size / capacity / data pointer, nothing leaked -/
theorem strong_observably_unchanged (cfg : Cfg) (c : Nat) (w w' : World α) (xs : List (Val α)) (hp : Pre cfg w c)
    (hs : Strong w w') (hx : Holds w c xs) :
    Holds w' c xs ∧ w'.hdr c = w.hdr c ∧ w'.live = w.live ∧ VecOK cfg w' c ∧ Ledger w' :=
  ⟨hs.holds hp.led hp.vec hx, by rw [hs.hdr], hs.live, hs.vecOK hp.led hp.vec, hs.led⟩
end C05

namespace C06
/-- basic guarantee: a throw out of erase / erase(range) (a throwing move assignment) leaves a valid container with
    the same size, capacity and buffer, an intact ledger and nothing else touched -/
theorem erase_basic (cfg : Cfg) (c pos : Nat) (w w' : World α) (e : Exc)
    (hp : Pre cfg w c) (hpos : pos < (w.hdr c).size) (hr : eraseAt cfg c pos w = .thrown e w') :
    Basic cfg w w' c ∧ w'.hdr c = w.hdr c := (sat_of_thrown (eraseAt_sat cfg c pos w hp.vec hp.led hpos) hr).2

theorem erase_range_basic (cfg : Cfg) (c p q : Nat) (w w' : World α) (e : Exc)
    (hp : Pre cfg w c) (h1 : p ≤ q) (h2 : q ≤ (w.hdr c).size) (hr : eraseRange cfg c p q w = .thrown e w') :
    Basic cfg w w' c ∧ w'.hdr c = w.hdr c := (sat_of_thrown (eraseRange_sat cfg c p q w hp.vec hp.led h1 h2) hr).2

theorem push_back_basic (cfg : Cfg) (c : Nat) (s : Src α) (w w' : World α) (e : Exc)
    (hp : Pre cfg w c) (ha : ArgOK cfg w c s) (hpol : StrongPolicy cfg) (hr : appendElement cfg c s w = .thrown e w') :
    Basic cfg w w' c :=
  (sat_of_thrown (appendElement_sat cfg c s w hp.vec hp.led hp.nmax ha hpol) hr).basic hp.led hp.vec

/-- "usable afterwards": `Basic` re-establishes exactly the hypotheses (`Pre`) of every operation theorem -/
theorem usable_after_throw (cfg : Cfg) (c : Nat) (w w' : World α) (hp : Pre cfg w c) (hb : Basic cfg w w' c) : Pre cfg w' c :=
  ⟨hb.vec, hb.led, by rw [hb.frame.hdr_N]; exact hp.nmax, by rw [hb.ub]; exact hp.ub⟩
end C06

namespace C10
/-- push_back into spare capacity: capacity and data pointer unchanged, every existing element untouched;
    pop_back / erase / clear never change capacity or data pointer -/
theorem push_back_in_place (cfg : Cfg) (c : Nat) (s : Src α) (w w' : World α) (r : Nat)
    (hp : Pre cfg w c) (ha : ArgOK cfg w c s) (hpol : StrongPolicy cfg) (hfit : (w.hdr c).size < (w.hdr c).cap)
    (hr : appendElement cfg c s w = .ok r w') :
    (w'.hdr c).data = (w.hdr c).data ∧ (w'.hdr c).cap = (w.hdr c).cap ∧
    ∀ i, i < (w.hdr c).size → (w'.mem (w.hdr c).data)[i]? = (w.mem (w.hdr c).data)[i]? := by
  have h := (sat_of_ok (appendElement_sat cfg c s w hp.vec hp.led hp.nmax ha hpol) hr).2.inplace hfit
  exact ⟨h.1, h.2.1, h.2.2.2.2⟩

theorem erase_family_stable (cfg : Cfg) (c : Nat) (w : World α) (hp : Pre cfg w c) :
    (∀ pos, pos < (w.hdr c).size → (eraseAt cfg c pos w).sat
        (fun _ w' => (w'.hdr c).data = (w.hdr c).data ∧ (w'.hdr c).cap = (w.hdr c).cap)
        (fun _ w' => (w'.hdr c).data = (w.hdr c).data ∧ (w'.hdr c).cap = (w.hdr c).cap)) ∧
    (∀ p q, p ≤ q → q ≤ (w.hdr c).size → (eraseRange cfg c p q w).sat
        (fun _ w' => (w'.hdr c).data = (w.hdr c).data ∧ (w'.hdr c).cap = (w.hdr c).cap)
        (fun _ w' => (w'.hdr c).data = (w.hdr c).data ∧ (w'.hdr c).cap = (w.hdr c).cap)) ∧
    (0 < (w.hdr c).size → (eraseLast cfg c w).sat
        (fun _ w' => (w'.hdr c).data = (w.hdr c).data ∧ (w'.hdr c).cap = (w.hdr c).cap) (fun _ _ => False)) ∧
    (eraseAll cfg c w).sat (fun _ w' => (w'.hdr c).data = (w.hdr c).data ∧ (w'.hdr c).cap = (w.hdr c).cap) (fun _ _ => False) := by
  refine ⟨fun pos hpos => ?_, fun p q h1 h2 => ?_, fun hne => ?_, ?_⟩
  · exact Res.sat_mono (eraseAt_sat cfg c pos w hp.vec hp.led hpos) (fun _ _ h => ⟨h.2.data, h.2.cap⟩) (fun _ _ h => by rw [h.2.2]; exact ⟨rfl, rfl⟩)
  · exact Res.sat_mono (eraseRange_sat cfg c p q w hp.vec hp.led h1 h2) (fun _ _ h => ⟨h.2.data, h.2.cap⟩) (fun _ _ h => by rw [h.2.2]; exact ⟨rfl, rfl⟩)
  · exact Res.sat_mono (eraseLast_sat cfg c w hp.vec hp.led hne) (fun _ _ h => ⟨h.data, h.cap⟩) (fun _ _ h => h)
  · exact Res.sat_mono (eraseAll_sat cfg c w hp.vec hp.led) (fun _ _ h => ⟨h.data, h.cap⟩) (fun _ _ h => h)

/-- reserve(n): capacity ≥ n afterwards; a no-op (nothing at all changes) when n ≤ capacity -/
theorem reserve_post (cfg : Cfg) (c n : Nat) (w w' : World α) (hp : Pre cfg w c) (hpol : StrongPolicy cfg)
    (hr : requestCapacity cfg c n w = .ok () w') :
    n ≤ (w'.hdr c).cap ∧ (n ≤ (w.hdr c).cap → w'.hdr = w.hdr ∧ w'.mem = w.mem ∧ w'.next = w.next ∧ w'.live = w.live) := by
  have h := sat_of_ok (requestCapacity_sat cfg c n w hp.vec hp.led hp.nmax hpol) hr
  exact ⟨h.2.1, h.2.2.1⟩

/-- resize / append that fit in the capacity: same buffer, same capacity, no allocation -/
theorem resize_in_place (cfg : Cfg) (c n : Nat) (s : Src α) (w w' : World α) (hp : Pre cfg w c) (ha : ArgOK cfg w c s)
    (hpol : StrongPolicy cfg) (hfit : n ≤ (w.hdr c).cap) (hr : resizeWith cfg c n s w = .ok () w') :
    (w'.hdr c).data = (w.hdr c).data ∧ (w'.hdr c).cap = (w.hdr c).cap ∧ w'.next = w.next ∧ w'.live = w.live :=
  (sat_of_ok (resizeWith_sat cfg c n s w hp.vec hp.led hp.nmax ha hpol) hr).fits hfit

theorem append_range_in_place (cfg : Cfg) (c : Nat) (vs : List α) (w w' : World α) (r : Nat) (hp : Pre cfg w c) (hpol : StrongPolicy cfg)
    (hfit : (w.hdr c).size + vs.length ≤ (w.hdr c).cap) (hr : appendRangeFwd cfg c true (vs.map Src.ext) w = .ok r w') :
    (w'.hdr c).data = (w.hdr c).data ∧ (w'.hdr c).cap = (w.hdr c).cap ∧ w'.next = w.next ∧ w'.live = w.live ∧
    ∀ i, i < (w.hdr c).size → (w'.mem (w.hdr c).data)[i]? = (w.mem (w.hdr c).data)[i]? := by
  have h := (sat_of_ok (appendRangeFwd_sat cfg c true _ w hp.vec hp.led hp.nmax ((argsOK_ext cfg w c vs).srcs hp.vec hp.led) (fun _ => hpol)) hr).2
  exact h.inplace (by simpa using hfit)
end C10

namespace C11
/-- push_back(v[i]) with an lvalue referring to the container's own element `i` gives exactly what push_back of an
    independent copy of that element gives — reallocating or not -/
theorem push_back_alias (cfg : Cfg) (c i : Nat) (w w' : World α) (r : Nat) (xs : List (Val α))
    (hp : Pre cfg w c) (hpol : StrongPolicy cfg) (hx : Holds w c xs) (hi : i < xs.length)
    (hr : appendElement cfg c (.copyOf (w.hdr c).data i) w = .ok r w') :
    Holds w' c (L0.pushBack xs xs[i]) := by
  have hslot := hx.2 i hi
  have ha : ArgOK cfg w c (.copyOf (w.hdr c).data i) :=
    ⟨rfl, fun b j hl => by simp [Src.loc] at hl; obtain ⟨h1, h2⟩ := hl; subst h1; subst h2; exact ⟨_, hslot⟩,
     fun b j hl => by simp [Src.loc] at hl; obtain ⟨h1, h2⟩ := hl; subst h1; subst h2; exact ⟨rfl, by rw [← hx.1]; exact hi⟩⟩
  have h := (sat_of_ok (appendElement_sat cfg c _ w hp.vec hp.led hp.nmax ha hpol) hr).2.holds xs hx
  rw [srcVal_copyOf w _ _ _ hslot] at h
  exact h

/-- non-vacuity: aliasing push_back on the full inline container [1, 2] reallocates and yields [1, 2, 1] -/
example : (match appendElement Ex.cfgT 0 (.copyOf 0 0) Ex.w0 with
           | .ok r w' => r == 2 && (w'.mem (w'.hdr 0).data).take 3 == [.obj (.val 1), .obj (.val 2), .obj (.val 1)]
           | .thrown _ _ => false) = true := by decide

/-- resize(n, v[i]) behaves as resize(n, copy of v[i]) — reallocating or not -/
theorem resize_alias (cfg : Cfg) (c n i : Nat) (w w' : World α) (xs : List (Val α))
    (hp : Pre cfg w c) (hpol : StrongPolicy cfg) (hx : Holds w c xs) (hi : i < xs.length)
    (hr : resizeWith cfg c n (.copyOf (w.hdr c).data i) w = .ok () w') :
    Holds w' c (L0.resize xs n xs[i]) := by
  have hslot := hx.2 i hi
  have ha : ArgOK cfg w c (.copyOf (w.hdr c).data i) :=
    ⟨rfl, fun b j hl => by simp [Src.loc] at hl; obtain ⟨h1, h2⟩ := hl; subst h1; subst h2; exact ⟨_, hslot⟩,
     fun b j hl => by simp [Src.loc] at hl; obtain ⟨h1, h2⟩ := hl; subst h1; subst h2; exact ⟨rfl, by rw [← hx.1]; exact hi⟩⟩
  have h := (sat_of_ok (resizeWith_sat cfg c n _ w hp.vec hp.led hp.nmax ha hpol) hr).holds xs hx
  rw [srcVal_copyOf w _ _ _ hslot] at h
  exact h
end C11

end SvModel
