/-
Calls that must do NOTHING (C10: "reserve (n) … is a no-op when n <= capacity ()"; std::vector: erase of an empty range,
insert of zero copies, resize to the current size, shrink_to_fit of a container that is inlined or exactly full): the
model's run returns the SAME WORLD — no event, no fault point consumed, no header or memory change — for every world.
Matched against the generated guards by `rfl`-equations.
-/
import SvModel.Ops
import SvModel.Proofs.Hoare
import SvModel.Proofs.Kernel

namespace SvModel.NoOps
open SvModel Gen
variable {α : Type}

theorem reserve_noop (cfg : Cfg) (c n : Nat) (w : World α) (h : n ≤ (w.hdr c).cap) : requestCapacity cfg c n w = .ok () w := by
  have e0 : guard_requestCapacity_0 { genv cfg (w.hdr c) with request := n } = decide (n ≤ (w.hdr c).cap) := rfl
  unfold requestCapacity
  rw [bind_run, getV_run]; simp only []
  rw [e0, if_pos (decide_eq_true h)]; rfl

theorem insert_zero_noop (cfg : Cfg) (c pos : Nat) (s : Src α) (w : World α) : insertCopies cfg c pos 0 s w = .ok pos w := by
  have e0 : guard_insertCopies_0 { genv cfg (w.hdr c) with pos := pos, count := 0, tailSize := (w.hdr c).size - pos } = decide (0 = 0) := rfl
  unfold insertCopies
  rw [bind_run, getV_run]; simp only []
  rw [e0, if_pos (by decide)]; rfl

theorem erase_empty_range_noop (cfg : Cfg) (c p : Nat) (w : World α) : eraseRange cfg c p p w = .ok p w := by
  have e0 : guard_eraseRange_0 { numInsert := p - p } = decide (p - p ≠ 0) := rfl
  unfold eraseRange
  rw [bind_run, getV_run]; simp only []
  rw [e0, if_neg (by simp)]; rfl

/-- resize (n) / resize (n, x) with n = size () ≥ 1 -/
theorem resize_same_noop (cfg : Cfg) (c : Nat) (s : Src α) (w : World α) (hne : (w.hdr c).size ≠ 0) (hle : (w.hdr c).size ≤ (w.hdr c).cap) :
    resizeWith cfg c (w.hdr c).size s w = .ok () w := by
  have e0 : guard_resizeWith_0 { newSize := (w.hdr c).size } = decide ((w.hdr c).size = 0) := rfl
  have e1 : guard_resizeWith_1 { genv cfg (w.hdr c) with newSize := (w.hdr c).size } = decide ((w.hdr c).cap < (w.hdr c).size) := rfl
  have e3 : guard_resizeWith_3 { genv cfg (w.hdr c) with newSize := (w.hdr c).size } = decide ((w.hdr c).size < (w.hdr c).size) := rfl
  have e4 : guard_eraseToEnd_0 { genv cfg (w.hdr c) with pos := (w.hdr c).size } = decide ((w.hdr c).size - (w.hdr c).size ≠ 0) := rfl
  unfold resizeWith
  rw [bind_run, e0, if_neg (by simpa using hne)]
  show ((getV c >>= _) w) = _
  rw [bind_run, getV_run]; simp only []
  rw [e1, e3, if_neg (by simp; omega), if_neg (by simp)]
  unfold eraseToEnd
  rw [bind_run, getV_run]; simp only []
  rw [e4, if_neg (by simp)]; rfl

theorem shrink_to_fit_noop (cfg : Cfg) (c : Nat) (w : World α)
    (h : (w.hdr c).cap ≤ (w.hdr c).N ∨ (w.hdr c).size = (w.hdr c).cap) : shrinkToSize cfg c w = .ok () w := by
  have e0 : guard_shrinkToSize_0 (genv cfg (w.hdr c)) = (!(hasAllocation false (w.hdr c).N (w.hdr c).cap) || decide ((w.hdr c).size = (w.hdr c).cap)) := rfl
  unfold shrinkToSize
  rw [bind_run, getV_run]; simp only []
  rw [e0, if_pos]
  · rfl
  · rcases h with h | h
    · simp [hasAllocation]; left; omega
    · simp [h]

end SvModel.NoOps
