/-
C07 — Allocator-aware container rules: propagation traits decide get_allocator ().

`allocAfter*` is the L1 rule read off the property: copy assignment / move assignment replace the allocator exactly when
POCCA / POCMA is true, swap exchanges the two exactly when POCS is true, otherwise the allocator is untouched; copy
construction takes the supplied allocator (select_on_container_copy_construction of the source's, computed by the caller
of `ctorCopy`), move construction the source's original one, allocator-extended construction the supplied one.
`maybeCopy / maybeMove / maybeSwap` are regenerated from the header's maybe_copy / maybe_move / maybe_swap overload sets.
Theorems: for EVERY world, every trait combination (the eight POCCA/POCMA/POCS combinations, always-equal or not, with or
without is_always_equal in the library), equal or unequal allocators, any capacities and fault list — on normal return
the allocator fields are as the rule says and no other container's allocator changed; after a throw no allocator changed
at all.  (That the elements end up as specified is C01; that later storage traffic uses the current allocator is the
`heap` clause of `VecOK`: the buffer is owned by an allocator equal to the header's.)
-/
import SvModel.Proofs.AllocKept
import SvModel.Proofs.Kernel
import SvModel.Proofs.Examples

namespace SvModel.C07
open SvModel Gen
variable {α : Type}

/-- the rule -/
def allocAfterCopyAssign (cfg : Cfg) (mine other : Nat) : Nat := if cfg.pocca then other else mine
def allocAfterMoveAssign (cfg : Cfg) (mine other : Nat) : Nat := if cfg.pocma then other else mine
def allocAfterSwap (cfg : Cfg) (mine other : Nat) : Nat × Nat := if cfg.pocs then (other, mine) else (mine, other)

theorem maybeCopy_rule (cfg : Cfg) (a b : Nat) : maybeCopy cfg.policy a b = allocAfterCopyAssign cfg a b := rfl
theorem maybeMove_rule (cfg : Cfg) (a b : Nat) : maybeMove cfg.policy a b = allocAfterMoveAssign cfg a b := rfl
theorem maybeSwap_rule (cfg : Cfg) (a b : Nat) : maybeSwap cfg.policy a b = allocAfterSwap cfg a b := rfl

/-- `m` ends by giving container `c` the allocator `a`, touching no other allocator; a throw changes no allocator -/
def AllocSets {β : Type} (c a : Nat) (m : M α β) : Prop :=
  ∀ w, (m w).sat (fun _ w' => (w'.hdr c).alloc = a ∧ ∀ d, d ≠ c → (w'.hdr d).alloc = (w.hdr d).alloc)
                 (fun _ w' => ∀ d, (w'.hdr d).alloc = (w.hdr d).alloc)

theorem AllocSets.setAlloc (c a : Nat) : AllocSets (α := α) c a (setAlloc c a) := by
  intro w
  show ((upd w.hdr c { w.hdr c with alloc := a }) c).alloc = a ∧ _
  refine ⟨by simp, fun d hd => ?_⟩
  show ((upd w.hdr c { w.hdr c with alloc := a }) d).alloc = _
  rw [upd_other _ _ _ _ hd]

theorem AllocSets.bind {β γ : Type} {c a : Nat} {m : M α β} {f : β → M α γ} (h1 : AllocKept m) (h2 : ∀ b, AllocSets c a (f b)) :
    AllocSets c a (m >>= f) := by
  intro w
  have hk := h1 w
  rw [bind_run]
  cases hr : m w with
  | thrown e w1 => rw [hr] at hk; exact fun d => hk d
  | ok b w1 =>
    rw [hr] at hk
    simp only [Res.world] at hk
    simp only []
    refine Res.sat_mono (h2 b w1) ?_ ?_
    · intro _ w' ⟨ha, ho⟩; exact ⟨ha, fun d hd => by rw [ho d hd, hk d]⟩
    · intro _ w' h d; rw [h d, hk d]

theorem AllocSets.ite {β : Type} {c a : Nat} {p : Prop} [Decidable p] {m n : M α β} (h1 : AllocSets c a m) (h2 : AllocSets c a n) :
    AllocSets c a (if p then m else n) := by
  split <;> assumption

theorem AllocSets.kept_then {β : Type} {c a : Nat} {m : M α β} (h : AllocKept m) : AllocSets c a (m >>= fun _ => SvModel.setAlloc c a) :=
  AllocSets.bind h (fun _ => AllocSets.setAlloc c a)

/-- copy_assign_default: every branch ends in maybe_copy -/
theorem copyAssignDefault_sets (cfg : Cfg) (c o : Nat) (w : World α) :
    (copyAssignDefault cfg c o w).sat
      (fun _ w' => (w'.hdr c).alloc = allocAfterCopyAssign cfg (w.hdr c).alloc (w.hdr o).alloc ∧
                   ∀ d, d ≠ c → (w'.hdr d).alloc = (w.hdr d).alloc)
      (fun _ w' => ∀ d, (w'.hdr d).alloc = (w.hdr d).alloc) := by
  unfold copyAssignDefault
  rw [bind_run, getV_run]; simp only []
  rw [bind_run, getV_run]; simp only []
  refine AllocSets.kept_then (AllocKept.ite ?_ ?_) w
  · exact AllocKept.bind (AllocKept.allocate _ _ _) (fun nb => AllocKept.bind
      (AllocKept.tryCatch (AllocKept.uninitGen _ _ _ _ _) (fun ex => AllocKept.bind (AllocKept.deallocate _ _ _) (fun _ => AllocKept.throwE ex)))
      (fun _ => AllocKept.resetData _ _ _ _ _))
  · exact AllocKept.bind (AllocKept.copyAssignInPlace _ _ _ _ _) (fun _ => AllocKept.setSize _ _)

/-- copy assignment (operator= / assign (const small_vector&), any two inline capacities) -/
theorem copy_assign_alloc_rule (cfg : Cfg) (c o : Nat) (w : World α) :
    (copyAssign cfg c o w).sat
      (fun _ w' => (w'.hdr c).alloc = allocAfterCopyAssign cfg (w.hdr c).alloc (w.hdr o).alloc ∧
                   ∀ d, d ≠ c → (w'.hdr d).alloc = (w.hdr d).alloc)
      (fun _ w' => ∀ d, (w'.hdr d).alloc = (w.hdr d).alloc) := by
  unfold copyAssign
  by_cases hp : copyAssignPropagating cfg.policy = true
  · simp only [hp, Bool.not_true, Bool.false_eq_true, if_false]
    rw [bind_run, getV_run]; simp only []
    rw [bind_run, getV_run]; simp only []
    by_cases h0 : guard_copyAssign0_0 (genv2 cfg (w.hdr c) (w.hdr o)) = true
    · rw [if_pos h0]; exact copyAssignDefault_sets cfg c o w
    · rw [if_neg h0]
      refine AllocSets.ite ?_ ?_ w
      · exact AllocSets.bind (AllocKept.allocate _ _ _) (fun nb => AllocSets.bind
          (AllocKept.tryCatch (AllocKept.uninitGen _ _ _ _ _) (fun ex => AllocKept.bind (AllocKept.deallocate _ _ _) (fun _ => AllocKept.throwE ex)))
          (fun _ => AllocSets.bind (AllocKept.resetData _ _ _ _ _) (fun _ => AllocSets.setAlloc _ _)))
      · refine AllocSets.bind (AllocKept.ite ?_ (AllocKept.copyAssignInPlace _ _ _ _ _)) (fun _ =>
          AllocSets.bind (AllocKept.setSize _ _) (fun _ => AllocSets.setAlloc _ _))
        exact AllocKept.bind (AllocKept.uninitGen _ _ _ _ _) (fun _ => AllocKept.bind (AllocKept.destroyRange _ _ _ _) (fun _ =>
          AllocKept.bind (AllocKept.deallocate _ _ _) (fun _ => AllocKept.bind (AllocKept.setDataPtr _ _) (fun _ => AllocKept.setCapacity _ _))))
  · have hp' : copyAssignPropagating cfg.policy = false := by simpa using hp
    simp only [hp', Bool.not_false, if_true]
    exact copyAssignDefault_sets cfg c o w

/-- move_assign_default / move_assign_unequal_no_propagate: every branch ends in maybe_move -/
theorem moveAssignDefault_sets (cfg : Cfg) (c o : Nat) (w : World α) :
    (moveAssignDefault cfg c o w).sat
      (fun _ w' => (w'.hdr c).alloc = allocAfterMoveAssign cfg (w.hdr c).alloc (w.hdr o).alloc ∧
                   ∀ d, d ≠ c → (w'.hdr d).alloc = (w.hdr d).alloc)
      (fun _ w' => ∀ d, (w'.hdr d).alloc = (w.hdr d).alloc) := by
  unfold moveAssignDefault
  rw [bind_run, getV_run]; simp only []
  rw [bind_run, getV_run]; simp only []
  refine AllocSets.kept_then ?_ w
  refine AllocKept.ite (AllocKept.moveAllocationPointer _ _ _) (AllocKept.ite ?_ ?_)
  · refine AllocKept.ite (AllocKept.moveAllocationPointer _ _ _) (AllocKept.bind (AllocKept.ite ?_ (AllocKept.moveAssignInPlace _ _ _ _ _)) (fun _ => AllocKept.setSize _ _))
    exact AllocKept.bind (AllocKept.uninitializedMove _ _ _ _ _ _ _) (fun _ => AllocKept.bind (AllocKept.destroyRange _ _ _ _) (fun _ =>
      AllocKept.bind (AllocKept.deallocate _ _ _) (fun _ => AllocKept.bind (AllocKept.setDataPtr _ _) (fun _ => AllocKept.setCapacity _ _))))
  · refine AllocKept.ite (AllocKept.moveAllocationPointer _ _ _) (AllocKept.ite ?_ ?_)
    · exact AllocKept.bind (AllocKept.allocate _ _ _) (fun nb => AllocKept.bind
        (AllocKept.tryCatch (AllocKept.uninitializedMove _ _ _ _ _ _ _) (fun ex => AllocKept.bind (AllocKept.deallocate _ _ _) (fun _ => AllocKept.throwE ex)))
        (fun _ => AllocKept.resetData _ _ _ _ _))
    · exact AllocKept.bind (AllocKept.moveAssignInPlace _ _ _ _ _) (fun _ => AllocKept.setSize _ _)

theorem moveAssignUnequal_sets (cfg : Cfg) (c o : Nat) (w : World α) :
    (moveAssignUnequalNoPropagate cfg c o w).sat
      (fun _ w' => (w'.hdr c).alloc = allocAfterMoveAssign cfg (w.hdr c).alloc (w.hdr o).alloc ∧
                   ∀ d, d ≠ c → (w'.hdr d).alloc = (w.hdr d).alloc)
      (fun _ w' => ∀ d, (w'.hdr d).alloc = (w.hdr d).alloc) := by
  unfold moveAssignUnequalNoPropagate
  rw [bind_run, getV_run]; simp only []
  rw [bind_run, getV_run]; simp only []
  refine AllocSets.kept_then (AllocKept.ite ?_ ?_) w
  · exact AllocKept.bind (AllocKept.allocate _ _ _) (fun nb => AllocKept.bind
      (AllocKept.tryCatch (AllocKept.uninitializedMove _ _ _ _ _ _ _) (fun ex => AllocKept.bind (AllocKept.deallocate _ _ _) (fun _ => AllocKept.throwE ex)))
      (fun _ => AllocKept.resetData _ _ _ _ _))
  · exact AllocKept.bind (AllocKept.moveAssignInPlace _ _ _ _ _) (fun _ => AllocKept.setSize _ _)

/-- move assignment (operator= / assign (small_vector&&), any two inline capacities) -/
theorem move_assign_alloc_rule (cfg : Cfg) (c o : Nat) (w : World α) :
    (moveAssign cfg c o w).sat
      (fun _ w' => (w'.hdr c).alloc = allocAfterMoveAssign cfg (w.hdr c).alloc (w.hdr o).alloc ∧
                   ∀ d, d ≠ c → (w'.hdr d).alloc = (w.hdr d).alloc)
      (fun _ w' => ∀ d, (w'.hdr d).alloc = (w.hdr d).alloc) := by
  unfold moveAssign
  split
  · exact moveAssignDefault_sets cfg c o w
  · rw [bind_run, getV_run]; simp only []
    rw [bind_run, getV_run]; simp only []
    split
    · exact moveAssignDefault_sets cfg c o w
    · exact moveAssignUnequal_sets cfg c o w

/-- construction: default / allocator-extended construction takes the supplied allocator; move construction the source's -/
theorem ctor_default_alloc (c a : Nat) (w : World α) :
    (ctorDefault c a w).sat (fun _ w' => (w'.hdr c).alloc = a ∧ ∀ d, d ≠ c → (w'.hdr d).alloc = (w.hdr d).alloc) (fun _ _ => False) := by
  unfold ctorDefault
  rw [bind_run]
  show (setDefault c _).sat _ _
  have hk := AllocKept.setDefault (α := α) c
  generalize hw1 : ({ w with hdr := upd w.hdr c { w.hdr c with alloc := a } } : World α) = w1
  have h1 := hk w1
  cases hr : setDefault c w1 with
  | thrown e w2 => unfold setDefault setToInlineStorage setSize at hr; simp [bind_run, modV_run] at hr
  | ok u w2 =>
    rw [hr] at h1
    simp only [Res.world] at h1
    refine ⟨by rw [h1 c]; subst hw1; simp, fun d hd => ?_⟩
    rw [h1 d]; subst hw1; show ((upd w.hdr c _) d).alloc = _; rw [upd_other _ _ _ _ hd]

/-! ### swap -/

/-- the allocators of `c` and `o` after swap are as the rule says; nobody else's changed -/
def SwapPost (cfg : Cfg) (c o : Nat) (w w' : World α) : Prop :=
  (w'.hdr c).alloc = (allocAfterSwap cfg (w.hdr c).alloc (w.hdr o).alloc).1 ∧
  (w'.hdr o).alloc = (allocAfterSwap cfg (w.hdr c).alloc (w.hdr o).alloc).2 ∧
  ∀ d, d ≠ c → d ≠ o → (w'.hdr d).alloc = (w.hdr d).alloc

theorem SwapPost.symm {cfg : Cfg} {c o : Nat} {w w' : World α} (h : SwapPost cfg o c w w') : SwapPost cfg c o w w' := by
  obtain ⟨h1, h2, h3⟩ := h
  refine ⟨?_, ?_, fun d hc ho => h3 d ho hc⟩
  · rw [h2]; unfold allocAfterSwap; cases cfg.pocs <;> simp
  · rw [h1]; unfold allocAfterSwap; cases cfg.pocs <;> simp

theorem maybeSwapAlloc_post (cfg : Cfg) (c o : Nat) (hne : c ≠ o) (w : World α) :
    (maybeSwapAlloc cfg c o w).sat (fun _ w' => SwapPost cfg c o w w') (fun _ _ => False) := by
  unfold maybeSwapAlloc
  rw [bind_run, getV_run]; simp only []
  rw [bind_run, getV_run]; simp only []
  rw [bind_run]
  show (SvModel.setAlloc o _ _).sat _ _
  show SwapPost cfg c o w _
  refine ⟨?_, ?_, fun d hc ho => ?_⟩
  · show ((upd (upd w.hdr c _) o _) c).alloc = _
    rw [upd_other _ _ _ _ hne]; simp [maybeSwap_rule]
  · show ((upd (upd w.hdr c _) o _) o).alloc = _
    simp [maybeSwap_rule]
  · show ((upd (upd w.hdr c _) o _) d).alloc = _
    rw [upd_other _ _ _ _ ho, upd_other _ _ _ _ hc]

/-- `m` ends by exchanging (or not) the allocators of `c` and `o` as the rule says; a throw changes no allocator -/
def AllocSwaps {β : Type} (cfg : Cfg) (c o : Nat) (m : M α β) : Prop :=
  ∀ w, (m w).sat (fun _ w' => SwapPost cfg c o w w') (fun _ w' => ∀ d, (w'.hdr d).alloc = (w.hdr d).alloc)

theorem AllocSwaps.kept_then {β : Type} {cfg : Cfg} {c o : Nat} {m : M α β} (h : AllocKept m) (hne : c ≠ o) :
    AllocSwaps cfg c o (m >>= fun _ => maybeSwapAlloc cfg c o) := by
  intro w
  have hk := h w
  rw [bind_run]
  cases hr : m w with
  | thrown e w1 => rw [hr] at hk; exact fun d => hk d
  | ok b w1 =>
    rw [hr] at hk
    simp only [Res.world] at hk
    simp only []
    refine Res.sat_mono (maybeSwapAlloc_post cfg c o hne w1) ?_ (fun _ _ h => h.elim)
    intro _ w' ⟨h1, h2, h3⟩
    exact ⟨by rw [h1, hk c, hk o], by rw [h2, hk c, hk o], fun d hc ho => by rw [h3 d hc ho, hk d]⟩

theorem AllocSwaps.symm {β : Type} {cfg : Cfg} {c o : Nat} {m : M α β} (h : AllocSwaps cfg o c m) : AllocSwaps cfg c o m :=
  fun w => Res.sat_mono (h w) (fun _ _ hp => hp.symm) (fun _ _ hp => hp)

theorem swapDefault_swaps (cfg : Cfg) (c o : Nat) (hne : c ≠ o) : AllocSwaps (α := α) cfg c o (swapDefault cfg c o) := by
  intro w
  unfold swapDefault
  rw [bind_run, getV_run]; simp only []
  rw [bind_run, getV_run]; simp only []
  refine AllocSwaps.kept_then ?_ hne w
  refine AllocKept.ite (AllocKept.swapAllocation _ _) (AllocKept.ite ?_ (AllocKept.ite (AllocKept.swapElements _ _ _) (AllocKept.swapElements _ _ _)))
  exact AllocKept.bind (AllocKept.uninitializedMove _ _ _ _ _ _ _) (fun _ => AllocKept.bind (AllocKept.destroyRange _ _ _ _) (fun _ =>
    AllocKept.bind (AllocKept.setDataPtr _ _) (fun _ => AllocKept.bind (AllocKept.setCapacity _ _) (fun _ =>
    AllocKept.bind (AllocKept.setDataPtr _ _) (fun _ => AllocKept.bind (AllocKept.setCapacity _ _) (fun _ => AllocKept.swapSize _ _))))))

theorem swapUnequal_swaps (cfg : Cfg) (c o : Nat) (hne : c ≠ o) : AllocSwaps (α := α) cfg c o (swapUnequalNoPropagate cfg c o) := by
  intro w
  unfold swapUnequalNoPropagate
  rw [bind_run, getV_run]; simp only []
  rw [bind_run, getV_run]; simp only []
  refine AllocSwaps.kept_then ?_ hne w
  refine AllocKept.ite ?_ (AllocKept.ite (AllocKept.swapElements _ _ _) (AllocKept.swapElements _ _ _))
  refine AllocKept.bind (AllocKept.allocate _ _ _) (fun nb => AllocKept.bind (AllocKept.tryCatch ?_ ?_) (fun _ => ?_))
  · exact AllocKept.bind (AllocKept.uninitializedMove _ _ _ _ _ _ _) (fun _ => AllocKept.tryCatch
      (AllocKept.bind (AllocKept.assignGen _ _ _ _) (fun _ => AllocKept.destroyRange _ _ _ _))
      (fun ex => AllocKept.bind (AllocKept.destroyRange _ _ _ _) (fun _ => AllocKept.throwE ex)))
  · exact fun ex => AllocKept.bind (AllocKept.deallocate _ _ _) (fun _ => AllocKept.throwE ex)
  · exact AllocKept.bind (AllocKept.destroyRange _ _ _ _) (fun _ => AllocKept.bind (AllocKept.ite (AllocKept.deallocate _ _ _) (AllocKept.pure ()))
      (fun _ => AllocKept.bind (AllocKept.setDataPtr _ _) (fun _ => AllocKept.bind (AllocKept.setCapacity _ _) (fun _ => AllocKept.swapSize _ _))))

/-- swap (small_vector&): both allocators as the rule says on return; nothing changes on a throw -/
theorem swap_alloc_rule (cfg : Cfg) (c o : Nat) (hne : c ≠ o) (w : World α) :
    (swap cfg c o w).sat (fun _ w' => SwapPost cfg c o w w') (fun _ w' => ∀ d, (w'.hdr d).alloc = (w.hdr d).alloc) := by
  unfold swap
  rw [bind_run, getV_run]; simp only []
  rw [bind_run, getV_run]; simp only []
  have hne' : o ≠ c := fun h => hne h.symm
  split
  · split
    · exact AllocSwaps.kept_then (AllocKept.swapAllocation _ _) hne w
    · split
      · exact swapDefault_swaps cfg c o hne w
      · exact (swapDefault_swaps cfg o c hne').symm w
  · split
    · split
      · exact swapDefault_swaps cfg c o hne w
      · exact swapUnequal_swaps cfg c o hne w
    · split
      · exact (swapDefault_swaps cfg o c hne').symm w
      · exact (swapUnequal_swaps cfg o c hne').symm w

/-! ### construction -/

/-- a constructor: on return the new container `c` has allocator `a` and no other container's allocator changed; if it
    throws there is no new object, and no other container's allocator changed -/
def CtorSets {β : Type} (c a : Nat) (m : M α β) : Prop :=
  ∀ w, (m w).sat (fun _ w' => (w'.hdr c).alloc = a ∧ ∀ d, d ≠ c → (w'.hdr d).alloc = (w.hdr d).alloc)
                 (fun _ w' => ∀ d, d ≠ c → (w'.hdr d).alloc = (w.hdr d).alloc)

/-- everything after `setAlloc c a` in a constructor keeps all allocators -/
theorem ctor_sets {β : Type} {c a : Nat} {k : M α β} (h : AllocKept k) : CtorSets c a (SvModel.setAlloc c a >>= fun _ => k) := by
  intro w
  rw [bind_run]
  show (k _).sat _ _
  generalize hw1 : ({ w with hdr := upd w.hdr c { w.hdr c with alloc := a } } : World α) = w1
  have hk := h w1
  have hc : (w1.hdr c).alloc = a := by subst hw1; simp
  have ho : ∀ d, d ≠ c → (w1.hdr d).alloc = (w.hdr d).alloc := by
    intro d hd; subst hw1; show ((upd w.hdr c _) d).alloc = _; rw [upd_other _ _ _ _ hd]
  cases hr : k w1 with
  | ok b w2 =>
    rw [hr] at hk; simp only [Res.world] at hk
    exact ⟨by rw [hk c, hc], fun d hd => by rw [hk d, ho d hd]⟩
  | thrown e w2 =>
    rw [hr] at hk; simp only [Res.world] at hk
    exact fun d hd => by rw [hk d, ho d hd]

theorem AllocKept.moveInitialize (cfg : Cfg) (c o : Nat) : AllocKept (moveInitialize cfg c o : M α Unit) := by
  unfold SvModel.moveInitialize
  refine AllocKept.bind (AllocKept.getV _) (fun v => AllocKept.bind (AllocKept.getV _) (fun ov => ?_))
  have hsteal : AllocKept (setData c ov.data ov.cap ov.size >>= fun _ => setDefault o : M α Unit) :=
    AllocKept.bind (AllocKept.setData _ _ _ _) (fun _ => AllocKept.setDefault _)
  have hinl : AllocKept (setToInlineStorage c >>= fun _ =>
      uninitializedMove cfg false ov.data 0 ov.size v.inl 0 >>= fun _ => setSize c ov.size : M α Unit) :=
    AllocKept.bind (AllocKept.setToInlineStorage _) (fun _ => AllocKept.bind (AllocKept.uninitializedMove _ _ _ _ _ _ _) (fun _ => AllocKept.setSize _ _))
  refine AllocKept.ite hsteal (AllocKept.ite (AllocKept.ite hsteal hinl) (AllocKept.ite hsteal (AllocKept.ite ?_ hinl)))
  exact AllocKept.bind (AllocKept.allocate _ _ _) (fun nb => AllocKept.bind (AllocKept.setDataPtr _ _) (fun _ => AllocKept.bind (AllocKept.setCapacity _ _) (fun _ =>
    AllocKept.bind (AllocKept.tryCatch (AllocKept.uninitializedMove _ _ _ _ _ _ _) (fun ex => AllocKept.bind (AllocKept.deallocate _ _ _) (fun _ => AllocKept.throwE ex)))
      (fun _ => AllocKept.setSize _ _))))

/-- count / count+value / generator / forward-range construction and copy construction with allocator `a`
    (`a` = the supplied allocator, or select_on_container_copy_construction of the source's, computed by the caller) -/
theorem ctor_fill_alloc_rule (cfg : Cfg) (c a : Nat) (checked : Bool) (srcs : List (Src α)) : CtorSets c a (ctorFill cfg c a checked srcs) := by
  unfold ctorFill
  refine ctor_sets (AllocKept.bind (AllocKept.getV _) (fun v => AllocKept.ite ?_ ?_))
  · refine AllocKept.bind ?_ (fun nb => AllocKept.bind (AllocKept.setDataPtr _ _) (fun _ => AllocKept.bind (AllocKept.setCapacity _ _) (fun _ =>
      AllocKept.bind (AllocKept.tryCatch (AllocKept.uninitGen _ _ _ _ _) (fun ex => AllocKept.bind (AllocKept.deallocate _ _ _) (fun _ => AllocKept.throwE ex)))
        (fun _ => AllocKept.setSize _ _))))
    refine AllocKept.ite ?_ (AllocKept.allocate _ _ _)
    unfold checkedAllocate; exact AllocKept.ite (AllocKept.throwE _) (AllocKept.allocate _ _ _)
  · exact AllocKept.bind (AllocKept.setToInlineStorage _) (fun _ => AllocKept.bind (AllocKept.uninitGen _ _ _ _ _) (fun _ => AllocKept.setSize _ _))

theorem ctor_copy_alloc_rule (cfg : Cfg) (c o a : Nat) (w : World α) :
    (ctorCopy cfg c o a w).sat (fun _ w' => (w'.hdr c).alloc = a ∧ ∀ d, d ≠ c → (w'.hdr d).alloc = (w.hdr d).alloc)
      (fun _ w' => ∀ d, d ≠ c → (w'.hdr d).alloc = (w.hdr d).alloc) := by
  unfold ctorCopy
  rw [bind_run, getV_run]
  exact ctor_fill_alloc_rule cfg c a _ _ w

/-- move construction: the new container takes the source's allocator (its value before the move) -/
theorem ctor_move_alloc_rule (cfg : Cfg) (c o : Nat) (w : World α) :
    (ctorMove cfg c o w).sat (fun _ w' => (w'.hdr c).alloc = (w.hdr o).alloc ∧ ∀ d, d ≠ c → (w'.hdr d).alloc = (w.hdr d).alloc)
      (fun _ w' => ∀ d, d ≠ c → (w'.hdr d).alloc = (w.hdr d).alloc) := by
  unfold ctorMove
  rw [bind_run, getV_run]
  exact ctor_sets (AllocKept.moveInitialize cfg c o) w

/-- allocator-extended move construction: the supplied allocator (when the library treats the allocator type as always
    equal the source's allocator is used, which then compares equal to the supplied one) -/
theorem ctor_move_alloc_extended_rule (cfg : Cfg) (c o a : Nat) (w : World α)
    (hgen : ¬ (cfg.isStdAlloc || (cfg.libAlwaysEq && cfg.alwaysEq)) = true) :
    (ctorMoveAlloc cfg c o a w).sat (fun _ w' => (w'.hdr c).alloc = a ∧ ∀ d, d ≠ c → (w'.hdr d).alloc = (w.hdr d).alloc)
      (fun _ w' => ∀ d, d ≠ c → (w'.hdr d).alloc = (w.hdr d).alloc) := by
  have hdel : ¬ ctorMoveAllocDelegates cfg.policy = true := by
    unfold ctorMoveAllocDelegates Cfg.policy; simpa using hgen
  unfold ctorMoveAlloc
  rw [if_neg hdel, bind_run, getV_run]
  simp only []
  refine ctor_sets (AllocKept.ite (AllocKept.moveInitialize cfg c o) (AllocKept.bind (AllocKept.getV _) (fun v => AllocKept.ite ?_ ?_))) w
  · exact AllocKept.bind (AllocKept.allocate _ _ _) (fun nb => AllocKept.bind (AllocKept.setDataPtr _ _) (fun _ => AllocKept.bind (AllocKept.setCapacity _ _) (fun _ =>
      AllocKept.bind (AllocKept.tryCatch (AllocKept.uninitializedMove _ _ _ _ _ _ _) (fun ex => AllocKept.bind (AllocKept.deallocate _ _ _) (fun _ => AllocKept.throwE ex)))
        (fun _ => AllocKept.setSize _ _))))
  · exact AllocKept.bind (AllocKept.setToInlineStorage _) (fun _ => AllocKept.bind (AllocKept.uninitializedMove _ _ _ _ _ _ _) (fun _ => AllocKept.setSize _ _))

/-- the two allocator-extended move constructors are selected by complementary conditions (exactly one is viable), and
    the one that ignores its allocator argument is viable only when all allocators of the type are equal -/
theorem ctor_move_alloc_overloads (p : PolicyEnv) :
    ctorMoveAllocGeneral p = !ctorMoveAllocDelegates p ∧
    (ctorMoveAllocDelegates p = true → p.isStdAlloc = true ∨ (p.libAlwaysEq = true ∧ p.alwaysEq = true)) := by
  unfold ctorMoveAllocGeneral ctorMoveAllocDelegates
  refine ⟨rfl, fun h => ?_⟩
  simpa using h

/-- every other member function (push_back, insert, erase, resize, reserve, …) keeps the allocator: see
    `SvModel.AllocKept.*` (Proofs/AllocKept.lean), e.g. -/
theorem dtor_keeps_allocators (cfg : Cfg) (c : Nat) : AllocKept (dtor cfg c : M α Unit) := AllocKept.wipe cfg c

/-! ### non-vacuity: the rule distinguishes the trait combinations -/
example : allocAfterCopyAssign { Ex.cfgT with pocca := true } 1 2 = 2 := by decide
example : allocAfterCopyAssign { Ex.cfgT with pocca := false } 1 2 = 1 := by decide

end SvModel.C07
