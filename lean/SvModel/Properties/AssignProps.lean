/-
Property corollaries for assign (n, x) and assign (first, last) over a multi-pass range of outside values.
-/
import SvModel.Properties.Core
import SvModel.Proofs.Assign

namespace SvModel
open Gen
variable {α : Type}

namespace C01
/-- assign (n, x): the container holds n copies of x, whatever it held before -/
theorem assign_n_refines (cfg : Cfg) (c n : Nat) (a : α) (w w' : World α) (hp : Pre cfg w c)
    (hr : assignWithCopies cfg c n (.ext a) w = .ok () w') : Holds w' c (L0.assignN n (.val a)) :=
  (sat_of_ok (assignWithCopies_sat cfg c n a w hp.vec hp.led hp.nmax) hr).holds

/-- assign (first, last): the container holds the range's values -/
theorem assign_range_refines (cfg : Cfg) (c : Nat) (vs : List α) (w w' : World α) (hp : Pre cfg w c)
    (hr : assignWithRangeFwd cfg c (vs.map Src.ext) w = .ok () w') : Holds w' c (L0.assignRange (vs.map Val.val)) := by
  have hext : External (vs.map (Src.ext (α := α))) := fun s hs => by obtain ⟨a, _, rfl⟩ := List.mem_map.mp hs; rfl
  have h := (sat_of_ok (assignWithRangeFwd_sat cfg c _ w hp.vec hp.led hp.nmax hext) hr).holds
  have hm : (vs.map Src.ext).map (srcVal w) = vs.map Val.val := by simp [srcVal, Function.comp_def]
  rw [hm] at h
  exact h
end C01

namespace C06
/-- a throw out of assign: valid container, same buffer and capacity, nothing leaked; a length_error changes nothing at all -/
theorem assign_n_basic (cfg : Cfg) (c n : Nat) (a : α) (w w' : World α) (e : Exc) (hp : Pre cfg w c)
    (hr : assignWithCopies cfg c n (.ext a) w = .thrown e w') :
    Basic cfg w w' c ∧ (w'.hdr c).data = (w.hdr c).data ∧ (w'.hdr c).cap = (w.hdr c).cap ∧ w'.live = w.live ∧ (e = .length → w' = w) := by
  have h := sat_of_thrown (assignWithCopies_sat cfg c n a w hp.vec hp.led hp.nmax) hr
  exact ⟨h.1.1, h.1.2.1, h.1.2.2.1, h.1.2.2.2, h.2.1⟩

theorem assign_range_basic (cfg : Cfg) (c : Nat) (vs : List α) (w w' : World α) (e : Exc) (hp : Pre cfg w c)
    (hr : assignWithRangeFwd cfg c (vs.map Src.ext) w = .thrown e w') :
    Basic cfg w w' c ∧ (w'.hdr c).data = (w.hdr c).data ∧ (w'.hdr c).cap = (w.hdr c).cap ∧ w'.live = w.live := by
  have hext : External (vs.map (Src.ext (α := α))) := fun s hs => by obtain ⟨a, _, rfl⟩ := List.mem_map.mp hs; rfl
  exact (sat_of_thrown (assignWithRangeFwd_sat cfg c _ w hp.vec hp.led hp.nmax hext) hr).1
end C06

namespace C05
/-- a reallocating assign that throws (allocator, element constructor) leaves the world observably unchanged -/
theorem assign_n_realloc_strong (cfg : Cfg) (c n : Nat) (a : α) (w w' : World α) (e : Exc) (hp : Pre cfg w c)
    (hgrow : (w.hdr c).cap < n) (hr : assignWithCopies cfg c n (.ext a) w = .thrown e w') : Strong w w' :=
  (sat_of_thrown (assignWithCopies_sat cfg c n a w hp.vec hp.led hp.nmax) hr).2.2 hgrow
end C05

namespace C10
/-- assign of at most capacity () elements keeps the buffer: no allocation, same data (), same capacity () -/
theorem assign_n_in_place (cfg : Cfg) (c n : Nat) (a : α) (w w' : World α) (hp : Pre cfg w c) (hfit : n ≤ (w.hdr c).cap)
    (hr : assignWithCopies cfg c n (.ext a) w = .ok () w') :
    (w'.hdr c).data = (w.hdr c).data ∧ (w'.hdr c).cap = (w.hdr c).cap ∧ w'.live = w.live ∧ w'.next = w.next :=
  (sat_of_ok (assignWithCopies_sat cfg c n a w hp.vec hp.led hp.nmax) hr).inplace (by simpa using hfit)

theorem assign_n_grows (cfg : Cfg) (c n : Nat) (a : α) (w w' : World α) (hp : Pre cfg w c) (hgrow : (w.hdr c).cap < n)
    (hr : assignWithCopies cfg c n (.ext a) w = .ok () w') :
    (w'.hdr c).data = w.next ∧ (w'.hdr c).cap = newCapacity cfg.maxSize (w.hdr c).cap n := by
  have := (sat_of_ok (assignWithCopies_sat cfg c n a w hp.vec hp.led hp.nmax) hr).grown (by simpa using hgrow)
  simpa using this
end C10

end SvModel
