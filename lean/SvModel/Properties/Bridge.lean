/-
The BRIDGE between the two places where calls are mapped to model programs:

 * `Api.opM` (Api.lean) — the program the svdriver runs for a line of the protocol; this is what the differential
   correspondence compares with the real header, line by line;
 * `System.MOp.run` / `History.SOp.run` — the call languages the history theorems (`reachable_sys`, `sys_refines_rel`,
   `step_tracks`, …) quantify over.

`bridge`: for every protocol call that has a counterpart in the history language (`toMOp`), the two programs are THE SAME
function of the world, up to the value returned to the printer.  So every theorem about valid histories of `MOp`s is a
theorem about the very programs whose behaviour is compared with the code on every run.  The equalities for the
constructors go through the GENERATED facts about which allocation primitive each constructor calls
(`Gen.ctor…Checked`): if the header switches one of them to `unchecked_allocate` the bridge no longer checks.
-/
import SvModel.Properties.System

namespace SvModel.Bridge
open SvModel Gen History SvModel.System

/-- forget the returned value -/
def forget {σ β : Type} : Res σ β → Res σ Unit
  | .ok _ s => .ok () s
  | .thrown e s => .thrown e s

theorem forget_bind_pure {β γ : Type} (m : M Int β) (a : γ) (w : World Int) :
    forget ((m >>= fun _ => (pure a : M Int γ)) w) = forget (m w) := by
  rw [bind_run]; cases m w <;> rfl

theorem forget_bind_pureF {β γ : Type} (m : M Int β) (f : β → γ) (w : World Int) :
    forget ((m >>= fun b => (pure (f b) : M Int γ)) w) = forget (m w) := by
  rw [bind_run]; cases m w <;> rfl

theorem forget_unit (m : M Int Unit) (w : World Int) : forget (m w) = m w := by
  cases m w <;> rfl

/-- closes `forget (f >>= pure ∘ g) = f` / `… = f >>= fun _ => pure ()` goals -/
macro "bridge_close" : tactic =>
  `(tactic| first
    | (rw [forget_bind_pure, forget_unit])
    | (rw [forget_bind_pureF, forget_unit])
    | (rw [forget_bind_pure, ← forget_bind_pure _ (), forget_unit])
    | (rw [forget_bind_pureF, ← forget_bind_pure _ (), forget_unit]))

/-- the history-language counterpart of a protocol call (none: the single-pass insert in the middle — calls the history languages do not have) -/
def toMOp (ac : ApiCfg) (s : Sys) : Op → Option (MOp Int)
  | .new x a => some (.ctorVals x a [])
  | .newv x n v a => some (.ctorVals x a (List.replicate n v))
  | .newr x .fw a vs => some (.ctorVals x a vs)
  | .newr x .inp a vs => some (.ctorInput x a s.nextStream vs)
  | .newg x a vs => some (.ctorVals x a vs)
  | .newc x y (some a) => some (.ctorCopy x y a)
  | .newc x y none => some (.ctorCopy x y ((s.w.hdr y).alloc + ac.socccShift))   -- select_on_container_copy_construction
  | .newm x y none => some (.ctorMove x y)
  | .newm x y (some a) => some (.ctorMoveAlloc x y a)
  | .del x => some (.dtor x)
  | .pb x (.ext v) => some (.on x (.pushBack v))
  | .pb x (.self i) => some (.on x (.pushBackSelf i))
  | .pbm x v => some (.on x (.pushBackMove v))
  | .newn x n a => some (.ctorCount x a n 0)
  | .ins x p (.ext v) => some (.on x (.insert p v))
  | .ins x p (.self i) => some (.on x (.insertSelf p i))
  | .insm x p v => some (.on x (.insertMove p v))
  | .insn x p n (.ext v) => some (.on x (.insertN p n v))
  | .insn x p n (.self i) => some (.on x (.insertNSelf p n i))
  | .insr x p .fw vs => if vs.isEmpty then none else some (.on x (.insertRange p vs))
  | .insr x p .inp vs =>      -- single-pass insert at end (): the append loop; in the middle: via a temporary container (C15 only)
      if vs.isEmpty then none else if p = (s.w.hdr x).size then some (.on x (.appendInput false s.nextStream vs)) else none
  | .asr x .inp vs => some (.on x (.assignInput s.nextStream vs))
  | .app x .inp vs => some (.on x (.appendInput true s.nextStream vs))
  | .era x p => some (.on x (.erase p))
  | .erar x p q => some (.on x (.eraseRange p q))
  | .pop x => some (.on x .popBack)
  | .clr x => some (.on x .clear)
  | .rsz x n => some (.on x (.resize n 0))
  | .rszv x n (.ext v) => some (.on x (.resizeVal n v))
  | .rszv x n (.self i) => some (.on x (.resizeSelf n i))
  | .rsv x n => some (.on x (.reserve n))
  | .stf x => some (.on x .shrinkToFit)
  | .asn x n v => some (.on x (.assign n v))
  | .asr x .fw vs => some (.on x (.assignRange vs))
  | .app x .fw vs => some (.on x (.append vs))
  | .asc x y => some (.copyAssign x y)
  | .asm x y => some (.moveAssign x y)
  | .swp x y => some (.swap x y)
  | .appc x y => some (.append x y)
  | .appm x y => some (.appendMove x y)
  | .at x i => some (.on x (.atIdx i))
  | .get x i => some (.on x (.index i))

/-- default construction IS range construction from an empty range (same program on every world) -/
theorem ctorDefault_eq_fill (cfg : Cfg) (c a : Nat) (ch : Bool) (w : World Int) :
    ctorDefault c a w = ctorFill cfg c a ch ([] : List (Src Int)) w := by
  unfold ctorDefault ctorFill setDefault
  rfl

/-- the program the driver runs for a protocol line IS the program the history theorems are about -/
theorem bridge (ac : ApiCfg) (s : Sys) (op : Op) (m : MOp Int) (w0 : World Int) (hh : w0.hdr = s.w.hdr)
    (h : toMOp ac s op = some m) : forget (opM ac s op w0) = m.run ac.cfg w0 w0 := by
  have hc1 : Gen.ctorCountValueChecked = true := rfl
  have hc2 : Gen.ctorForwardRangeChecked = true := rfl
  have hc3 : Gen.ctorGeneratorChecked = true := rfl
  cases op with
  | newv x n v a =>
    injection h with h; subst h
    simp only [opM, MOp.run, hc1]
    rw [forget_bind_pure, forget_unit, List.map_replicate]
  | newr x k a vs =>
    cases k with
    | fw =>
      injection h with h; subst h
      simp only [opM, MOp.run, hc2, extSrcs]
      rw [forget_bind_pure, forget_unit]
    | inp =>
      injection h with h; subst h
      simp only [opM, MOp.run]
      rw [forget_bind_pure, forget_unit]
  | newg x a vs =>
    injection h with h; subst h
    simp only [opM, MOp.run, hc3, extSrcs]
    rw [forget_bind_pure, forget_unit]
  | newc x y a =>
    cases a with
    | none =>
      injection h with h; subst h
      simp only [opM, MOp.run]
      rw [forget_bind_pure, forget_unit]
    | some a =>
      injection h with h; subst h
      simp only [opM, MOp.run]
      rw [forget_bind_pure, forget_unit]
  | newm x y a =>
    cases a with
    | none =>
      injection h with h; subst h
      simp only [opM, MOp.run]; rw [forget_bind_pure, forget_unit]
    | some a =>
      injection h with h; subst h
      simp only [opM, MOp.run]; rw [forget_bind_pure, forget_unit]
  | del x =>
    injection h with h; subst h
    simp only [opM, MOp.run]; rw [forget_bind_pure, forget_unit]
  | pb x arg =>
    cases arg with
    | ext v => injection h with h; subst h; simp only [opM, MOp.run, SOp.run, argSrc]; bridge_close
    | self i => injection h with h; subst h; simp only [opM, MOp.run, SOp.run, argSrc, hh]; bridge_close
  | ins x p arg =>
    cases arg with
    | ext v => injection h with h; subst h; simp only [opM, MOp.run, SOp.run, argSrc]; bridge_close
    | self i => injection h with h; subst h; simp only [opM, MOp.run, SOp.run, argSrc, hh]; bridge_close
  | insm x p v => injection h with h; subst h; simp only [opM, MOp.run, SOp.run]; bridge_close
  | insn x p n arg =>
    cases arg with
    | ext v => injection h with h; subst h; simp only [opM, MOp.run, SOp.run, argSrc]; bridge_close
    | self i => injection h with h; subst h; simp only [opM, MOp.run, SOp.run, argSrc, hh]; bridge_close
  | insr x p k vs =>
    cases k with
    | inp =>
      simp only [toMOp] at h
      by_cases he : vs.isEmpty = true
      · rw [if_pos he] at h; cases h
      · rw [if_neg he] at h
        by_cases hp : p = (s.w.hdr x).size
        · rw [if_pos hp] at h; injection h with h; subst h
          simp only [opM, MOp.run, SOp.run, if_neg he, if_pos hp]; bridge_close
        · rw [if_neg hp] at h; cases h
    | fw =>
      simp only [toMOp] at h
      by_cases he : vs.isEmpty = true
      · rw [if_pos he] at h; cases h
      · rw [if_neg he] at h; injection h with h; subst h
        simp only [opM, MOp.run, SOp.run, extSrcs, if_neg he]; bridge_close
  | era x p => injection h with h; subst h; simp only [opM, MOp.run, SOp.run]; bridge_close
  | erar x p q => injection h with h; subst h; simp only [opM, MOp.run, SOp.run]; bridge_close
  | pop x => injection h with h; subst h; simp only [opM, MOp.run, SOp.run]; bridge_close
  | clr x => injection h with h; subst h; simp only [opM, MOp.run, SOp.run]; bridge_close
  | rsz x n => injection h with h; subst h; simp only [opM, MOp.run, SOp.run]; bridge_close
  | rszv x n arg =>
    cases arg with
    | ext v => injection h with h; subst h; simp only [opM, MOp.run, SOp.run, argSrc]; bridge_close
    | self i => injection h with h; subst h; simp only [opM, MOp.run, SOp.run, argSrc, hh]; bridge_close
  | rsv x n => injection h with h; subst h; simp only [opM, MOp.run, SOp.run]; bridge_close
  | stf x => injection h with h; subst h; simp only [opM, MOp.run, SOp.run]; bridge_close
  | asn x n v => injection h with h; subst h; simp only [opM, MOp.run, SOp.run]; bridge_close
  | asr x k vs =>
    cases k with
    | inp => injection h with h; subst h; simp only [opM, MOp.run, SOp.run]; bridge_close
    | fw => injection h with h; subst h; simp only [opM, MOp.run, SOp.run, extSrcs]; bridge_close
  | app x k vs =>
    cases k with
    | inp => injection h with h; subst h; simp only [opM, MOp.run, SOp.run]; bridge_close
    | fw => injection h with h; subst h; simp only [opM, MOp.run, SOp.run, extSrcs]; bridge_close
  | asc x y => injection h with h; subst h; simp only [opM, MOp.run]; bridge_close
  | asm x y => injection h with h; subst h; simp only [opM, MOp.run]; bridge_close
  | swp x y => injection h with h; subst h; simp only [opM, MOp.run]; bridge_close
  | appc x y => injection h with h; subst h; simp only [opM, MOp.run]; bridge_close
  | appm x y => injection h with h; subst h; simp only [opM, MOp.run]; bridge_close
  | new x a =>
    injection h with h; subst h
    simp only [opM, MOp.run, List.map_nil]
    rw [forget_bind_pure, forget_unit]
    exact ctorDefault_eq_fill ac.cfg x a true w0
  | newn x n a =>
    injection h with h; subst h
    simp only [opM, MOp.run, show Gen.ctorCountChecked = true from rfl]
    rw [forget_bind_pure, forget_unit]
  | pbm x v => injection h with h; subst h; simp only [opM, MOp.run, SOp.run]; bridge_close
  | «at» x i =>
    injection h with h; subst h
    simp only [opM, MOp.run, SOp.run]
    rw [bind_run, bind_run, getV_run]; simp only []
    split
    · rfl
    · rw [forget_bind_pureF, ← forget_bind_pure _ (), forget_unit]
  | get x i =>
    injection h with h; subst h
    simp only [opM, MOp.run, SOp.run]
    rw [bind_run, bind_run, getV_run]; simp only []
    rw [forget_bind_pureF, ← forget_bind_pure _ (), forget_unit]

/-- … and for the calls on ONE container the protocol's validity test is the history language's precondition: a line the
    driver (and the harness) accept as valid is a call the single-container theorems cover -/
theorem bridge_valid_on (ac : ApiCfg) (s : Sys) (op : Op) (c : Nat) (sop : SOp Int) (h : toMOp ac s op = some (.on c sop))
    (hv : op.valid s = true) : s.isAlive c = true ∧ sop.valid (s.w.hdr c).size := by
  cases op with
  | pb x arg =>
    cases arg with
    | ext v => injection h with h; injection h with h1 h2; subst h1; subst h2; simp [Op.valid] at hv; exact ⟨hv, trivial⟩
    | self i => injection h with h; injection h with h1 h2; subst h1; subst h2; simp [Op.valid] at hv; exact ⟨hv.1, hv.2⟩
  | ins x p arg =>
    cases arg with
    | ext v => injection h with h; injection h with h1 h2; subst h1; subst h2; simp [Op.valid] at hv; exact ⟨hv.1, hv.2⟩
    | self i => injection h with h; injection h with h1 h2; subst h1; subst h2; simp [Op.valid] at hv; exact ⟨hv.1.1, hv.1.2, hv.2⟩
  | insm x p v => injection h with h; injection h with h1 h2; subst h1; subst h2; simp [Op.valid] at hv; exact ⟨hv.1, hv.2⟩
  | insn x p n arg =>
    cases arg with
    | ext v => injection h with h; injection h with h1 h2; subst h1; subst h2; simp [Op.valid] at hv; exact ⟨hv.1, hv.2⟩
    | self i => injection h with h; injection h with h1 h2; subst h1; subst h2; simp [Op.valid] at hv; exact ⟨hv.1.1, hv.1.2, hv.2⟩
  | insr x p k vs =>
    cases k with
    | inp =>
      simp only [toMOp] at h
      by_cases he : vs.isEmpty = true
      · rw [if_pos he] at h; cases h
      · rw [if_neg he] at h
        by_cases hp : p = (s.w.hdr x).size
        · rw [if_pos hp] at h; injection h with h; injection h with h1 h2; subst h1; subst h2
          simp [Op.valid] at hv
          exact ⟨hv.1, trivial⟩
        · rw [if_neg hp] at h; cases h
    | fw =>
      simp only [toMOp] at h
      by_cases he : vs.isEmpty = true
      · rw [if_pos he] at h; cases h
      · rw [if_neg he] at h; injection h with h; injection h with h1 h2; subst h1; subst h2
        simp [Op.valid] at hv
        exact ⟨hv.1, hv.2, fun e => he (by rw [e]; rfl)⟩
  | era x p => injection h with h; injection h with h1 h2; subst h1; subst h2; simp [Op.valid] at hv; exact ⟨hv.1, hv.2⟩
  | erar x p q => injection h with h; injection h with h1 h2; subst h1; subst h2; simp [Op.valid] at hv; exact ⟨hv.1.1, hv.1.2, hv.2⟩
  | pop x => injection h with h; injection h with h1 h2; subst h1; subst h2; simp [Op.valid] at hv; exact ⟨hv.1, hv.2⟩
  | clr x => injection h with h; injection h with h1 h2; subst h1; subst h2; simp [Op.valid] at hv; exact ⟨hv, trivial⟩
  | rsz x n => injection h with h; injection h with h1 h2; subst h1; subst h2; simp [Op.valid] at hv; exact ⟨hv, trivial⟩
  | rszv x n arg =>
    cases arg with
    | ext v => injection h with h; injection h with h1 h2; subst h1; subst h2; simp [Op.valid] at hv; exact ⟨hv, trivial⟩
    | self i => injection h with h; injection h with h1 h2; subst h1; subst h2; simp [Op.valid] at hv; exact ⟨hv.1, hv.2⟩
  | rsv x n => injection h with h; injection h with h1 h2; subst h1; subst h2; simp [Op.valid] at hv; exact ⟨hv, trivial⟩
  | stf x => injection h with h; injection h with h1 h2; subst h1; subst h2; simp [Op.valid] at hv; exact ⟨hv, trivial⟩
  | asn x n v => injection h with h; injection h with h1 h2; subst h1; subst h2; simp [Op.valid] at hv; exact ⟨hv, trivial⟩
  | asr x k vs =>
    cases k with
    | inp => injection h with h; injection h with h1 h2; subst h1; subst h2; simp [Op.valid] at hv; exact ⟨hv, trivial⟩
    | fw => injection h with h; injection h with h1 h2; subst h1; subst h2; simp [Op.valid] at hv; exact ⟨hv, trivial⟩
  | app x k vs =>
    cases k with
    | inp => injection h with h; injection h with h1 h2; subst h1; subst h2; simp [Op.valid] at hv; exact ⟨hv, trivial⟩
    | fw => injection h with h; injection h with h1 h2; subst h1; subst h2; simp [Op.valid] at hv; exact ⟨hv, trivial⟩
  | newv _ _ _ _ => injection h with h; cases h
  | newr _ k _ _ => cases k <;> (first | cases h | (injection h with h; cases h))
  | newg _ _ _ => injection h with h; cases h
  | newc _ _ a => cases a <;> (injection h with h; cases h)
  | newm _ _ a => cases a <;> (injection h with h; cases h)
  | del _ => injection h with h; cases h
  | asc _ _ => injection h with h; cases h
  | asm _ _ => injection h with h; cases h
  | swp _ _ => injection h with h; cases h
  | appc _ _ => injection h with h; cases h
  | appm _ _ => injection h with h; cases h
  | new _ _ => injection h with h; cases h
  | newn _ _ _ => injection h with h; cases h
  | pbm x v => injection h with h; injection h with h1 h2; subst h1; subst h2; simp [Op.valid] at hv; exact ⟨hv, trivial⟩
  | «at» x i => injection h with h; injection h with h1 h2; subst h1; subst h2; simp [Op.valid] at hv; exact ⟨hv, trivial⟩
  | get x i => injection h with h; injection h with h1 h2; subst h1; subst h2; simp [Op.valid] at hv; exact ⟨hv.1, hv.2⟩

/-- non-vacuity: the bridge covers 42 of the protocol's call forms; two instances -/
example : toMOp { cfg := Ex.cfgT } (initSys 2 3) (.insn 0 1 3 (.self 0)) = some (.on 0 (.insertNSelf 1 3 0)) ∧
          toMOp { cfg := Ex.cfgT } (initSys 2 3) (.appm 0 2) = some (.appendMove 0 2) := ⟨rfl, rfl⟩

end SvModel.Bridge
