/-
C17 — Observable behaviour does not depend on the C++ standard selected.

In the model the language level enters through one switch: `Cfg.libAlwaysEq` (GCH_LIB_IS_ALWAYS_EQUAL: whether
`allocator_traits::is_always_equal` is available, C++17 and later), which the generated policies
`copyAssignPropagating`, `allocationsAreMovable`, `allocationsAreSwappable` and the allocator-extended move constructor
consult.  Without it an always-equal allocator takes the run-time equality branch.  The theorems say that this branch
does the same thing: for every world in which always-equal allocators indeed compare equal, copy assignment, move
assignment, swap and allocator-extended move construction are THE SAME FUNCTION of the world whether or not the
library feature is available, and every other operation does not look at the switch at all (`*_withLib` lemmas).
(The other per-standard differences — constexpr, <=>, concepts, launder — do not change run-time behaviour of the model
at all; that the real builds agree is observed by compiling the harness under every standard and both compilers and
comparing each of them with the one model, see the evidence.)
-/
import SvModel.Ops
import SvModel.Proofs.Kernel

namespace SvModel
open Gen
variable {α : Type}

/-- the same configuration compiled under a standard with / without `is_always_equal` -/
def Cfg.withLib (c : Cfg) (b : Bool) : Cfg := { c with libAlwaysEq := b }

@[simp] theorem Cfg.withLib_tCopy (c : Cfg) (b : Bool) : (c.withLib b).tCopy = c.tCopy := rfl
@[simp] theorem Cfg.withLib_tMove (c : Cfg) (b : Bool) : (c.withLib b).tMove = c.tMove := rfl
@[simp] theorem Cfg.withLib_tCasg (c : Cfg) (b : Bool) : (c.withLib b).tCasg = c.tCasg := rfl
@[simp] theorem Cfg.withLib_tMasg (c : Cfg) (b : Bool) : (c.withLib b).tMasg = c.tMasg := rfl
@[simp] theorem Cfg.withLib_tVctor (c : Cfg) (b : Bool) : (c.withLib b).tVctor = c.tVctor := rfl
@[simp] theorem Cfg.withLib_realMove (c : Cfg) (b : Bool) : (c.withLib b).realMove = c.realMove := rfl
@[simp] theorem Cfg.withLib_trivial (c : Cfg) (b : Bool) : (c.withLib b).trivial = c.trivial := rfl
@[simp] theorem Cfg.withLib_hasMoveCtor (c : Cfg) (b : Bool) : (c.withLib b).hasMoveCtor = c.hasMoveCtor := rfl
@[simp] theorem Cfg.withLib_allocThrows (c : Cfg) (b : Bool) : (c.withLib b).allocThrows = c.allocThrows := rfl
@[simp] theorem Cfg.withLib_maxSize (c : Cfg) (b : Bool) : (c.withLib b).maxSize = c.maxSize := rfl
@[simp] theorem Cfg.withLib_isStd (c : Cfg) (b : Bool) : (c.withLib b).isStdAlloc = c.isStdAlloc := rfl
@[simp] theorem Cfg.withLib_alwaysEq (c : Cfg) (b : Bool) : (c.withLib b).alwaysEq = c.alwaysEq := rfl
@[simp] theorem Cfg.withLib_lib (c : Cfg) (b : Bool) : (c.withLib b).libAlwaysEq = b := rfl
@[simp] theorem relocate_withLib (c : Cfg) (b : Bool) : relocateWithMove (c.withLib b).policy = relocateWithMove c.policy := rfl
@[simp] theorem maybeCopy_withLib (c : Cfg) (b : Bool) (x y : Nat) : maybeCopy (c.withLib b).policy x y = maybeCopy c.policy x y := rfl
@[simp] theorem maybeMove_withLib (c : Cfg) (b : Bool) (x y : Nat) : maybeMove (c.withLib b).policy x y = maybeMove c.policy x y := rfl
@[simp] theorem maybeSwap_withLib (c : Cfg) (b : Bool) (x y : Nat) : maybeSwap (c.withLib b).policy x y = maybeSwap c.policy x y := rfl
@[simp] theorem genv_withLib (c : Cfg) (b : Bool) (v : Vec) : genv (c.withLib b) v = genv c v := rfl
@[simp] theorem genv2_withLib (c : Cfg) (b : Bool) (v o : Vec) : genv2 (c.withLib b) v o = genv2 c v o := rfl

/-! ### primitives and operations that do not consult the switch -/
@[simp] theorem putObj_withLib (c : Cfg) (b : Bool) (blk i : Nat) (v : Val α) (e : Ev) : putObj (c.withLib b) blk i v e = putObj c blk i v e := rfl
@[simp] theorem setObj_withLib (c : Cfg) (b : Bool) (blk i : Nat) (v : Val α) (e : Ev) : setObj (c.withLib b) blk i v e = setObj c blk i v e := rfl
@[simp] theorem huskSlot_withLib (c : Cfg) (b : Bool) (blk i : Nat) : (huskSlot (c.withLib b) blk i : M α Unit) = huskSlot c blk i := rfl
@[simp] theorem destroyAt_withLib (c : Cfg) (b : Bool) (blk i : Nat) : (destroyAt (c.withLib b) blk i : M α Unit) = destroyAt c blk i := rfl
@[simp] theorem allocate_withLib (c : Cfg) (b : Bool) (a n : Nat) : (allocate (c.withLib b) a n : M α Nat) = allocate c a n := rfl
@[simp] theorem constructSrc_withLib (c : Cfg) (b : Bool) (blk i : Nat) (s : Src α) : constructSrc (c.withLib b) blk i s = constructSrc c blk i s := by
  cases s <;> rfl
@[simp] theorem assignSrc_withLib (c : Cfg) (b : Bool) (blk i : Nat) (s : Src α) : assignSrc (c.withLib b) blk i s = assignSrc c blk i s := by
  cases s <;> rfl

@[simp] theorem destroyRange_withLib (c : Cfg) (b : Bool) (blk : Nat) : ∀ (n first : Nat), (destroyRange (c.withLib b) blk first n : M α Unit) = destroyRange c blk first n
  | 0, _ => rfl
  | n+1, first => by simp only [destroyRange, destroyAt_withLib, destroyRange_withLib c b blk n]

@[simp] theorem uninitGen_withLib (c : Cfg) (b : Bool) (blk d : Nat) : ∀ (srcs : List (Src α)) (done : Nat), uninitGen (c.withLib b) blk d done srcs = uninitGen c blk d done srcs
  | [], _ => rfl
  | s :: rest, done => by simp only [uninitGen, constructSrc_withLib, destroyRange_withLib, uninitGen_withLib c b blk d rest]

@[simp] theorem assignGen_withLib (c : Cfg) (b : Bool) (blk : Nat) : ∀ (srcs : List (Src α)) (d : Nat), assignGen (c.withLib b) blk d srcs = assignGen c blk d srcs
  | [], _ => rfl
  | s :: rest, d => by simp only [assignGen, assignSrc_withLib, assignGen_withLib c b blk rest]

@[simp] theorem swapAt_withLib (c : Cfg) (b : Bool) (b1 i1 b2 i2 : Nat) : (swapAt (c.withLib b) b1 i1 b2 i2 : M α Unit) = swapAt c b1 i1 b2 i2 := by
  simp only [swapAt, constructSrc_withLib, assignSrc_withLib, destroyAt_withLib] <;> rfl

@[simp] theorem swapRanges_withLib (c : Cfg) (b : Bool) (b1 b2 : Nat) : ∀ (n a1 a2 : Nat), (swapRanges (c.withLib b) b1 a1 b2 a2 n : M α Unit) = swapRanges c b1 a1 b2 a2 n
  | 0, _, _ => rfl
  | n+1, a1, a2 => by simp only [swapRanges, swapAt_withLib, swapRanges_withLib c b b1 b2 n]

@[simp] theorem wipe_withLib (c : Cfg) (b : Bool) (x : Nat) : (wipe (c.withLib b) x : M α Unit) = wipe c x := by
  simp only [wipe, destroyRange_withLib, genv_withLib] <;> rfl
@[simp] theorem resetData_withLib (c : Cfg) (b : Bool) (x nb ncap n : Nat) : (resetData (c.withLib b) x nb ncap n : M α Unit) = resetData c x nb ncap n := by
  simp only [resetData, wipe_withLib] <;> rfl
@[simp] theorem uninitializedMove_withLib (c : Cfg) (b : Bool) (st : Bool) (sb si n db di : Nat) :
    (uninitializedMove (c.withLib b) st sb si n db di : M α Unit) = uninitializedMove c st sb si n db di := by
  simp only [uninitializedMove, uninitGen_withLib, relocate_withLib] <;> rfl

@[simp] theorem copyAssignInPlace_withLib (c : Cfg) (b : Bool) (x : Nat) (v ov : Vec) (sl : Bool) :
    (copyAssignInPlace (c.withLib b) x v ov sl : M α Unit) = copyAssignInPlace c x v ov sl := by
  simp only [copyAssignInPlace, assignGen_withLib, uninitGen_withLib, destroyRange_withLib] <;> rfl
@[simp] theorem copyAssignDefault_withLib (c : Cfg) (b : Bool) (x o : Nat) : (copyAssignDefault (c.withLib b) x o : M α Unit) = copyAssignDefault c x o := by
  simp only [copyAssignDefault, genv2_withLib, Cfg.withLib_maxSize, allocate_withLib, uninitGen_withLib, resetData_withLib,
    copyAssignInPlace_withLib, maybeCopy_withLib] <;> rfl
@[simp] theorem moveAllocationPointer_withLib (c : Cfg) (b : Bool) (x o : Nat) : (moveAllocationPointer (c.withLib b) x o : M α Unit) = moveAllocationPointer c x o := by
  simp only [moveAllocationPointer, resetData_withLib] <;> rfl
@[simp] theorem moveAssignInPlace_withLib (c : Cfg) (b : Bool) (x : Nat) (v ov : Vec) (sl : Bool) :
    (moveAssignInPlace (c.withLib b) x v ov sl : M α Unit) = moveAssignInPlace c x v ov sl := by
  simp only [moveAssignInPlace, assignGen_withLib, uninitializedMove_withLib, destroyRange_withLib] <;> rfl
@[simp] theorem moveAssignDefault_withLib (c : Cfg) (b : Bool) (x o : Nat) : (moveAssignDefault (c.withLib b) x o : M α Unit) = moveAssignDefault c x o := by
  simp only [moveAssignDefault, genv2_withLib, Cfg.withLib_maxSize, allocate_withLib, uninitializedMove_withLib, resetData_withLib,
    moveAssignInPlace_withLib, maybeMove_withLib, moveAllocationPointer_withLib, destroyRange_withLib] <;> rfl
@[simp] theorem moveAssignUnequal_withLib (c : Cfg) (b : Bool) (x o : Nat) :
    (moveAssignUnequalNoPropagate (c.withLib b) x o : M α Unit) = moveAssignUnequalNoPropagate c x o := by
  simp only [moveAssignUnequalNoPropagate, genv2_withLib, Cfg.withLib_maxSize, allocate_withLib, uninitializedMove_withLib, resetData_withLib,
    moveAssignInPlace_withLib, maybeMove_withLib] <;> rfl
@[simp] theorem maybeSwapAlloc_withLib (c : Cfg) (b : Bool) (x o : Nat) : (maybeSwapAlloc (c.withLib b) x o : M α Unit) = maybeSwapAlloc c x o := by
  simp only [maybeSwapAlloc, maybeSwap_withLib] <;> rfl
@[simp] theorem swapElements_withLib (c : Cfg) (b : Bool) (x o : Nat) : (swapElements (c.withLib b) x o : M α Unit) = swapElements c x o := by
  simp only [swapElements, swapRanges_withLib, uninitializedMove_withLib, destroyRange_withLib] <;> rfl
@[simp] theorem swapDefault_withLib (c : Cfg) (b : Bool) (x o : Nat) : (swapDefault (c.withLib b) x o : M α Unit) = swapDefault c x o := by
  simp only [swapDefault, genv2_withLib, uninitializedMove_withLib, destroyRange_withLib, swapElements_withLib, maybeSwapAlloc_withLib] <;> rfl
@[simp] theorem swapUnequal_withLib (c : Cfg) (b : Bool) (x o : Nat) : (swapUnequalNoPropagate (c.withLib b) x o : M α Unit) = swapUnequalNoPropagate c x o := by
  simp only [swapUnequalNoPropagate, genv2_withLib, Cfg.withLib_maxSize, allocate_withLib, uninitializedMove_withLib, destroyRange_withLib,
    assignGen_withLib, swapElements_withLib, maybeSwapAlloc_withLib] <;> rfl
@[simp] theorem moveInitialize_withLib (c : Cfg) (b : Bool) (x o : Nat) : (moveInitialize (c.withLib b) x o : M α Unit) = moveInitialize c x o := by
  simp only [moveInitialize, genv2_withLib, uninitializedMove_withLib, allocate_withLib] <;> rfl
@[simp] theorem ctorMove_withLib (c : Cfg) (b : Bool) (x o : Nat) : (ctorMove (c.withLib b) x o : M α Unit) = ctorMove c x o := by
  simp only [ctorMove, moveInitialize_withLib] <;> rfl

namespace C17

/-- always-equal allocators compare equal: the two containers carry the same allocator id -/
def AeqEqual (cfg : Cfg) (w : World α) (c o : Nat) : Prop := cfg.alwaysEq = true → (w.hdr o).alloc = (w.hdr c).alloc

theorem cap_withLib (cfg : Cfg) (b : Bool) : copyAssignPropagating (cfg.withLib b).policy = (cfg.pocca && !(b && cfg.alwaysEq)) := rfl
theorem mov_withLib (cfg : Cfg) (b : Bool) : allocationsAreMovable (cfg.withLib b).policy = (cfg.isStdAlloc || cfg.pocma || (b && cfg.alwaysEq)) := rfl
theorem swp_withLib (cfg : Cfg) (b : Bool) : allocationsAreSwappable (cfg.withLib b).policy = (cfg.isStdAlloc || cfg.pocs || (b && cfg.alwaysEq)) := rfl

/-- copy assignment: with `is_always_equal` the non-propagating overload is selected statically; without it an
    always-equal allocator reaches the same `copy_assign_default` through the run-time equality test -/
theorem copy_assign_std_independent (cfg : Cfg) (c o : Nat) (w : World α) (h : AeqEqual cfg w c o) :
    copyAssign (cfg.withLib false) c o w = copyAssign (cfg.withLib true) c o w := by
  unfold copyAssign
  rw [cap_withLib, cap_withLib]
  simp only [copyAssignDefault_withLib, genv2_withLib, allocate_withLib, uninitGen_withLib, resetData_withLib, maybeCopy_withLib,
    copyAssignInPlace_withLib, destroyRange_withLib]
  cases ha : cfg.alwaysEq
  · simp only [Bool.and_false]
  · have heq := h ha
    cases hp : cfg.pocca
    · simp only [Bool.false_and, Bool.not_false, if_true]
    · simp only [Bool.false_and, Bool.not_false, Bool.and_true, Bool.true_and, Bool.not_true, Bool.and_false, Bool.false_eq_true, if_false, if_true]
      rw [bind_run, getV_run]; simp only []
      rw [bind_run, getV_run]; simp only []
      have hg : guard_copyAssign0_0 (genv2 cfg (w.hdr c) (w.hdr o)) = true := by
        unfold guard_copyAssign0_0 genv2 genv; simp [heq]
      rw [if_pos hg]

/-- move assignment: `allocations_are_movable` is true statically with `is_always_equal`; without it the run-time test
    `other.allocator_ref () == allocator_ref ()` selects the same `move_assign_default` -/
theorem move_assign_std_independent (cfg : Cfg) (c o : Nat) (w : World α) (h : AeqEqual cfg w c o) :
    moveAssign (cfg.withLib false) c o w = moveAssign (cfg.withLib true) c o w := by
  unfold moveAssign
  rw [mov_withLib, mov_withLib]
  simp only [moveAssignDefault_withLib, moveAssignUnequal_withLib, genv2_withLib]
  cases ha : cfg.alwaysEq
  · simp only [Bool.and_false]
  · have heq := h ha
    cases hm : (cfg.isStdAlloc || cfg.pocma)
    · simp only [Bool.false_and, Bool.or_false, Bool.true_and, Bool.or_true, Bool.false_eq_true, if_false, if_true]
      rw [bind_run, getV_run]; simp only []
      rw [bind_run, getV_run]; simp only []
      have hg : guard_moveAssign1_0 (genv2 cfg (w.hdr c) (w.hdr o)) = true := by
        unfold guard_moveAssign1_0 genv2 genv; simp [heq]
      rw [if_pos hg]
    · simp only [Bool.true_or, if_true]

/-- swap: `allocations_are_swappable`, same argument -/
theorem swap_std_independent (cfg : Cfg) (c o : Nat) (w : World α) (h : AeqEqual cfg w c o) (hN : 0 < (w.hdr c).N) :
    swap (cfg.withLib false) c o w = swap (cfg.withLib true) c o w := by
  unfold swap
  rw [swp_withLib, swp_withLib]
  simp only [swapDefault_withLib, swapUnequal_withLib, genv2_withLib, maybeSwapAlloc_withLib]
  cases ha : cfg.alwaysEq
  · simp only [Bool.and_false]
  · have heq := h ha
    cases hm : (cfg.isStdAlloc || cfg.pocs)
    · simp only [Bool.false_and, Bool.or_false, Bool.true_and, Bool.or_true, Bool.false_eq_true, if_false, if_true]
      rw [bind_run, getV_run]; simp only []
      rw [bind_run, getV_run]; simp only []
      have hg1 : guard_swap2_1 (genv2 cfg (w.hdr c) (w.hdr o)) = true := by
        unfold guard_swap2_1 genv2 genv; simp [heq]
      have hg2 : guard_swap2_2 (genv2 cfg (w.hdr c) (w.hdr o)) = true := by
        unfold guard_swap2_2 genv2 genv; simp [heq]
      have hN' : ¬ (w.hdr c).N = 0 := by omega
      rw [bind_run, getV_run]; simp only []
      rw [bind_run, getV_run]; simp only []
      rw [if_pos hg1, if_pos hg2, if_neg hN']
      have e1 : guard_swap2_0 (genv2 cfg (w.hdr c) (w.hdr o)) = guard_swap1_0 (genv2 cfg (w.hdr c) (w.hdr o)) := rfl
      rw [e1]
    · simp only [Bool.true_or, if_true]

end C17
end SvModel
