/-
C15 — Single-pass inputs are consumed exactly once, in order, never past the end.

The L2 model logs a `deref s p` / `incr s p` event for every dereference / increment of position `p` of input stream
`s` (Api.lean: the C++ harness logs the same events from an instrumented single-pass iterator, and the differential run
compares the two event sequences for every length, start state and fault index).  Theorems: for `append` / range
construction / `insert` at end from an input range of ANY length, on normal return the iterator events added to the trace
are exactly `deref p, incr p, deref p+1, incr p+1, …` for the n positions (each position dereferenced exactly once and
incremented exactly once, in sequence order, nothing at or beyond `last`), and the contents are those a random-access
range gives (`xs ++ values`); after a throw the events are a prefix ending in the dereference whose element failed.
-/
import SvModel.Proofs.InputRange
import SvModel.Proofs.InputAssign
import SvModel.Proofs.InputMid
import SvModel.Proofs.Examples
import SvModel.Spec.L0

namespace SvModel.C15
open SvModel Gen
variable {α : Type}

/-- append(first, last) / insert(end(), first, last) / range construction with input iterators -/
theorem stream_once (cfg : Cfg) (c : Nat) (strong : Bool) (sid p : Nat) (vs : List α) (w w' : World α) (r : Nat)
    (hv : VecOK cfg w c) (hl : Ledger w) (hN : (w.hdr c).N ≤ cfg.maxSize)
    (hpol : movesFor cfg true = true → cfg.tMove = false)
    (hr : appendRangeInput cfg c strong sid p vs w = .ok r w') :
    iterEvs w'.trace = iterEvs w.trace ++ streamEvs sid p vs.length := by
  unfold appendRangeInput at hr
  rw [bind_run, getV_run] at hr
  simp only [] at hr
  have h := appendRangeInputLoop_sat cfg c strong (w.hdr c).size sid hpol vs p w hv hl hN (Nat.le_refl _)
  rw [bind_run] at hr
  cases hl' : appendRangeInputLoop cfg c strong (w.hdr c).size sid p vs w with
  | thrown e w1 => rw [hl'] at hr; cases hr
  | ok u w1 =>
    rw [hl'] at hr h
    injection hr with _ hw
    rw [← hw]; exact h.2.2

/-- the result equals that of the same call with a random-access range -/
theorem input_eq_random_access (cfg : Cfg) (c : Nat) (strong : Bool) (sid p : Nat) (vs : List α) (w w' : World α) (r : Nat)
    (xs : List (Val α)) (hv : VecOK cfg w c) (hl : Ledger w) (hN : (w.hdr c).N ≤ cfg.maxSize)
    (hpol : movesFor cfg true = true → cfg.tMove = false) (hx : Holds w c xs)
    (hr : appendRangeInput cfg c strong sid p vs w = .ok r w') :
    Holds w' c (L0.append xs (vs.map Val.val)) ∧ VecOK cfg w' c := by
  unfold appendRangeInput at hr
  rw [bind_run, getV_run] at hr
  simp only [] at hr
  have h := appendRangeInputLoop_sat cfg c strong (w.hdr c).size sid hpol vs p w hv hl hN (Nat.le_refl _)
  rw [bind_run] at hr
  cases hl' : appendRangeInputLoop cfg c strong (w.hdr c).size sid p vs w with
  | thrown e w1 => rw [hl'] at hr; cases hr
  | ok u w1 =>
    rw [hl'] at hr h
    injection hr with _ hw
    rw [← hw]; exact ⟨h.2.1 xs hx, h.1.vec⟩

/-- after a throw: a valid container; under the strong policy (the public `append`) the original contents; and the
    iterator was advanced over exactly the elements already consumed, the failing element having been dereferenced once -/
theorem stream_prefix_on_throw (cfg : Cfg) (c : Nat) (strong : Bool) (sid p : Nat) (vs : List α) (w w' : World α) (e : Exc)
    (xs : List (Val α)) (hv : VecOK cfg w c) (hl : Ledger w) (hN : (w.hdr c).N ≤ cfg.maxSize)
    (hpol : movesFor cfg true = true → cfg.tMove = false) (hx : Holds w c xs)
    (hr : appendRangeInput cfg c strong sid p vs w = .thrown e w') :
    VecOK cfg w' c ∧ Ledger w' ∧ ∃ k, k < vs.length ∧
      Holds w' c (if strong then xs else xs ++ (vs.take k).map Val.val) ∧
      iterEvs w'.trace = iterEvs w.trace ++ streamEvs sid p k ++ [.deref sid (p + k)] := by
  unfold appendRangeInput at hr
  rw [bind_run, getV_run] at hr
  simp only [] at hr
  have h := appendRangeInputLoop_sat cfg c strong (w.hdr c).size sid hpol vs p w hv hl hN (Nat.le_refl _)
  rw [bind_run] at hr
  cases hl' : appendRangeInputLoop cfg c strong (w.hdr c).size sid p vs w with
  | ok u w1 => rw [hl'] at hr; cases hr
  | thrown e1 w1 =>
    rw [hl'] at hr h
    injection hr with _ hw
    rw [← hw]
    obtain ⟨k, hk, hh, htr⟩ := h.2 xs hx
    refine ⟨h.1.vec, h.1.led, k, hk, ?_, htr⟩
    cases strong
    · simpa using hh
    · simp only [if_true] at hh ⊢
      rw [List.take_of_length_le (by rw [hx.1]; exact Nat.le_refl _)] at hh; exact hh

/-- what `streamEvs` says: position q of the n consumed positions is dereferenced exactly once and incremented exactly once,
    and no position ≥ p + n appears at all -/
theorem streamEvs_count (sid p n q : Nat) :
    (streamEvs sid p n).count (.deref sid q) = (if p ≤ q ∧ q < p + n then 1 else 0) ∧
    (streamEvs sid p n).count (.incr sid q) = (if p ≤ q ∧ q < p + n then 1 else 0) := by
  induction n generalizing p with
  | zero => simp [streamEvs]
  | succ n ih =>
    obtain ⟨h1, h2⟩ := ih (p + 1)
    simp only [streamEvs, List.count_cons, h1, h2]
    constructor
    · by_cases hq : q = p
      · subst hq; simp; omega
      · have e1 : (Ev.deref sid p == Ev.deref sid q) = false := by simp; omega
        have e2 : (Ev.incr sid p == Ev.deref sid q) = false := by simp
        simp only [e1, e2]
        by_cases h : p + 1 ≤ q ∧ q < p + 1 + n
        · simp [h]; omega
        · simp [h]; omega
    · by_cases hq : q = p
      · subst hq; simp; omega
      · have e1 : (Ev.deref sid p == Ev.incr sid q) = false := by simp
        have e2 : (Ev.incr sid p == Ev.incr sid q) = false := by simp; omega
        simp only [e1, e2]
        by_cases h : p + 1 ≤ q ∧ q < p + 1 + n
        · simp [h]; omega
        · simp [h]; omega

/-- non-vacuity: three elements appended from an input stream to the full inline container of Proofs/Examples.lean -/
example : (match appendRangeInput Ex.cfgT 0 true 7 0 [10, 11, 12] Ex.w0 with
           | .ok r w' => r == 2 && iterEvs w'.trace == [.deref 7 0, .incr 7 0, .deref 7 1, .incr 7 1, .deref 7 2, .incr 7 2]
           | .thrown _ _ => false) = true := by decide +kernel

/-- assign (first, last) with input iterators, on return: every position dereferenced once then incremented once, in
    order, nothing at or beyond `last`; the contents are the range's values — whatever the container held and whatever its
    size was (shorter, equal or longer than the range) -/
theorem assign_stream_once (cfg : Cfg) (c sid : Nat) (vs : List α) (w w' : World α) (u : Unit)
    (hv : VecOK cfg w c) (hl : Ledger w) (hN : (w.hdr c).N ≤ cfg.maxSize)
    (hpol : movesFor cfg true = true → cfg.tMove = false)
    (hr : assignWithRangeInput cfg c sid vs w = .ok u w') :
    iterEvs w'.trace = iterEvs w.trace ++ streamEvs sid 0 vs.length ∧
    (∀ xs, Holds w c xs → Holds w' c (L0.assignRange (vs.map Val.val))) ∧ VecOK cfg w' c ∧ Ledger w' := by
  have h := assignWithRangeInput_sat cfg c sid vs w hv hl hN hpol
  rw [hr] at h
  exact ⟨h.2.2, fun xs hx => h.2.1 xs hx, h.1.vec, h.1.led⟩

/-- … after a throw: a valid container, and the iterator was advanced over exactly the elements already consumed, the
    failing element having been dereferenced once -/
theorem assign_stream_prefix_on_throw (cfg : Cfg) (c sid : Nat) (vs : List α) (w w' : World α) (e : Exc)
    (hv : VecOK cfg w c) (hl : Ledger w) (hN : (w.hdr c).N ≤ cfg.maxSize)
    (hpol : movesFor cfg true = true → cfg.tMove = false)
    (hr : assignWithRangeInput cfg c sid vs w = .thrown e w') :
    VecOK cfg w' c ∧ Ledger w' ∧ ∃ k, k < vs.length ∧
      iterEvs w'.trace = iterEvs w.trace ++ streamEvs sid 0 k ++ [.deref sid k] := by
  have h := assignWithRangeInput_sat cfg c sid vs w hv hl hN hpol
  rw [hr] at h
  exact ⟨h.1.vec, h.1.led, h.2⟩

/-- MID-SEQUENCE insert of a single-pass range (`insert (pos, first, last)`, `pos ≠ end ()`: temporary container, then
    move-insert), on return, for EVERY world and fault list: each position dereferenced once then incremented once, in
    order, nothing at or beyond `last` — and nothing else in the whole operation (temporary, reallocation, shifting,
    destruction) touches the iterator -/
theorem insert_mid_stream_once (cfg : Cfg) (c pos sid : Nat) (vs : List α) (w w' : World α) (r : Nat)
    (hr : insertRangeInputMid cfg c pos sid vs w = .ok r w') :
    iterEvs w'.trace = iterEvs w.trace ++ streamEvs sid 0 vs.length := by
  have h := insertRangeInputMid_iter cfg c pos sid vs w
  rw [hr] at h; exact h

/-- … after a throw: either the whole range had been consumed exactly once (the throw came from the insertion of the
    buffered elements) or a prefix, the failing element having been dereferenced once and not incremented -/
theorem insert_mid_stream_prefix_on_throw (cfg : Cfg) (c pos sid : Nat) (vs : List α) (w w' : World α) (e : Exc)
    (hr : insertRangeInputMid cfg c pos sid vs w = .thrown e w') :
    iterEvs w'.trace = iterEvs w.trace ++ streamEvs sid 0 vs.length ∨
    ∃ k, k < vs.length ∧ iterEvs w'.trace = iterEvs w.trace ++ streamEvs sid 0 k ++ [.deref sid k] := by
  have h := insertRangeInputMid_iter cfg c pos sid vs w
  rw [hr] at h
  rcases h with h | ⟨k, hk, h⟩
  · exact Or.inl h
  · exact Or.inr ⟨k, hk, by simpa using h⟩

/-- non-vacuity: two elements inserted at position 1 of the full inline container of Proofs/Examples.lean (reallocates),
    and the same call with a fault at the second element's construction in the temporary -/
example : (match insertRangeInputMid Ex.cfgT 0 1 7 [10, 11] Ex.w0 with
           | .ok r w' => r == 1 && iterEvs w'.trace == [.deref 7 0, .incr 7 0, .deref 7 1, .incr 7 1] &&
                         (w'.mem (w'.hdr 0).data).take 4 == [.obj (.val 1), .obj (.val 10), .obj (.val 11), .obj (.val 2)]
           | .thrown _ _ => false) = true := by decide +kernel
example : (match insertRangeInputMid Ex.cfgT 0 1 7 [10, 11] { Ex.w0 with faults := [1] } with
           | .ok _ _ => false
           | .thrown _ w' => iterEvs w'.trace == [.deref 7 0, .incr 7 0, .deref 7 1] && w'.live == [] &&
                             (w'.mem (w'.hdr 0).data).take 2 == [.obj (.val 1), .obj (.val 2)]) = true := by decide +kernel

end SvModel.C15
