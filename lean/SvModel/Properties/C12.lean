/-
C12 — Exceeding max_size() throws length_error, no effect; size arithmetic never wraps.

The model computes sizes in `Nat`; the narrow `size_type` enters through `Cfg.maxSize`
(= min (allocator max_size, max difference_type), `Gen.maxSize`).  Theorems:
 * `*_length_error`: an operation whose required size / capacity exceeds max_size returns `thrown length` with the world
   untouched (definitional unfolding of the generated guards — the guards are what the header says);
 * `alloc_within_max`: every capacity the growth function can produce for an admissible request is ≤ max_size;
 * `growth_no_wrap`, `append_no_wrap`: under the invariant `size ≤ cap ≤ max_size < 2^bits` every intermediate value of the
   size computations (`max_size - cap`, `2 * cap`, `size + count`, `max_size - size`) is < 2^bits, so the unsigned
   arithmetic of the header coincides with the model's `Nat` arithmetic for EVERY width, 8-bit included;
 * `size ≤ max_size` always: from `VecOK` (`size ≤ cap ≤ max (max_size, N)`).
The clause about range lengths (`external_range_length` narrowing a long range) is about C++ conversions outside the
model; it is checked on the real header with an 8-bit size_type allocator at and beyond the limit (differential + ASan).
-/
import SvModel.Proofs.AppendN
import SvModel.Proofs.GrowCalls

namespace SvModel.C12
open SvModel Gen
variable {α : Type}

/-- push_back on a container holding max_size elements -/
theorem push_back_length_error (cfg : Cfg) (c : Nat) (s : Src α) (w : World α)
    (hfull : (w.hdr c).size = (w.hdr c).cap) (hmax : (w.hdr c).size = cfg.maxSize) :
    appendElement cfg c s w = .thrown .length w := by
  unfold appendElement
  rw [bind_run, getV_run]
  simp only []
  have e0 : guard_appendElement_0 (genv cfg (w.hdr c)) = decide ((w.hdr c).size < (w.hdr c).cap) := rfl
  rw [e0, if_neg (by simp [hfull])]
  unfold emplaceIntoReallocationEnd
  rw [bind_run, getV_run]
  simp only []
  have e1 : guard_emplaceIntoReallocationEnd_0 (genv cfg (w.hdr c)) = decide (cfg.maxSize = (w.hdr c).size) := rfl
  rw [e1, if_pos (by simp [hmax])]
  rfl

/-- insert (pos, x) / emplace (pos, args) at max_size (): length_error, nothing changed — for every position -/
theorem insert_length_error (cfg : Cfg) (c pos : Nat) (s : Src α) (rv : Bool) (w : World α)
    (hfull : (w.hdr c).size = (w.hdr c).cap) (hmax : (w.hdr c).size = cfg.maxSize) :
    emplaceAt cfg c pos s rv w = .thrown .length w := by
  unfold emplaceAt
  rw [bind_run, getV_run]
  simp only []
  have e0 : guard_emplaceAt_0 (genv cfg (w.hdr c)) = decide ((w.hdr c).size < (w.hdr c).cap) := rfl
  rw [e0, if_neg (by simp [hfull])]
  unfold emplaceIntoReallocation
  rw [bind_run, getV_run]
  simp only []
  have e1 : guard_emplaceIntoReallocation_0 { genv cfg (w.hdr c) with offset := pos } = decide (pos = (w.hdr c).size) := rfl
  have e2 : guard_emplaceIntoReallocation_1 (genv cfg (w.hdr c)) = decide (cfg.maxSize = (w.hdr c).size) := rfl
  rw [e1, e2]
  by_cases hp : pos = (w.hdr c).size
  · rw [if_pos (decide_eq_true hp)]
    unfold emplaceIntoReallocationEnd
    rw [bind_run, getV_run]
    simp only []
    have e3 : guard_emplaceIntoReallocationEnd_0 (genv cfg (w.hdr c)) = decide (cfg.maxSize = (w.hdr c).size) := rfl
    rw [e3, if_pos (by simp [hmax])]
    rfl
  · rw [if_neg (by simpa using hp), if_pos (by simp [hmax])]
    rfl

/-- insert (pos, n, x), n ≥ 1, beyond max_size (): length_error, nothing changed — mid-sequence positions -/
theorem insert_n_length_error (cfg : Cfg) (c pos n : Nat) (s : Src α) (w : World α)
    (hpos : pos ≠ (w.hdr c).size) (hbig : cfg.maxSize - (w.hdr c).size < n) (hcap : (w.hdr c).cap ≤ cfg.maxSize) :
    insertCopies cfg c pos n s w = .thrown .length w := by
  unfold insertCopies
  rw [bind_run, getV_run]
  simp only []
  have e0 : guard_insertCopies_0 { genv cfg (w.hdr c) with pos := pos, count := n, tailSize := (w.hdr c).size - pos } = decide (0 = n) := rfl
  have e1 : guard_insertCopies_1 { genv cfg (w.hdr c) with pos := pos, count := n, tailSize := (w.hdr c).size - pos } = decide (pos = (w.hdr c).size) := rfl
  have e3 : guard_insertCopies_3 { genv cfg (w.hdr c) with pos := pos, count := n, tailSize := (w.hdr c).size - pos } = decide ((w.hdr c).cap - (w.hdr c).size < n) := rfl
  have e4 : guard_insertCopies_4 { genv cfg (w.hdr c) with pos := pos, count := n, tailSize := (w.hdr c).size - pos } = decide (cfg.maxSize - (w.hdr c).size < n) := rfl
  rw [e0, e1, e3, e4, if_neg (by simp; omega), if_neg (by simpa using hpos), if_pos (by simp; omega), if_pos (decide_eq_true hbig)]
  rfl

/-- insert (pos, first, last) (multi-pass) beyond max_size (): length_error, nothing changed — mid-sequence positions -/
theorem insert_range_length_error (cfg : Cfg) (c pos : Nat) (srcs : List (Src α)) (w : World α)
    (hpos : pos ≠ (w.hdr c).size) (hbig : cfg.maxSize - (w.hdr c).size < srcs.length) (hcap : (w.hdr c).cap ≤ cfg.maxSize) :
    insertRangeFwd cfg c pos srcs w = .thrown .length w := by
  unfold insertRangeFwd
  rw [bind_run, getV_run]
  simp only []
  have e0 : guard_insertRange1_0 { genv cfg (w.hdr c) with pos := pos, numInsert := srcs.length } = !decide (pos = (w.hdr c).size) := rfl
  rw [e0, if_pos (by simpa using hpos)]
  unfold insertRangeHelper
  rw [bind_run, getV_run]
  simp only []
  have h0 : guard_insertRangeHelper_0 { genv cfg (w.hdr c) with pos := pos, numInsert := srcs.length, tailSize := (w.hdr c).size - pos } = decide ((w.hdr c).cap - (w.hdr c).size < srcs.length) := rfl
  have h1 : guard_insertRangeHelper_1 { genv cfg (w.hdr c) with pos := pos, numInsert := srcs.length, tailSize := (w.hdr c).size - pos } = decide (cfg.maxSize - (w.hdr c).size < srcs.length) := rfl
  rw [h0, h1, if_pos (by simp; omega), if_pos (decide_eq_true hbig)]
  rfl

/-- insert(end, n, x) / resize growth / append(range): required size beyond max_size -/
theorem append_copies_length_error (cfg : Cfg) (c count : Nat) (s : Src α) (w : World α)
    (hbig : cfg.maxSize - (w.hdr c).size < count) (hcap : (w.hdr c).cap ≤ cfg.maxSize) :
    appendCopies cfg c count s w = .thrown .length w := by
  unfold appendCopies
  have h0 : (w.hdr c).cap - (w.hdr c).size < count := by omega
  simp [bind_run, getV_run, guard_appendCopies_0, guard_appendCopies_1, genv, h0, hbig, throwE]

theorem append_range_length_error (cfg : Cfg) (c : Nat) (strong : Bool) (srcs : List (Src α)) (w : World α)
    (hbig : cfg.maxSize - (w.hdr c).size < srcs.length) (hcap : (w.hdr c).cap ≤ cfg.maxSize) :
    appendRangeFwd cfg c strong srcs w = .thrown .length w := by
  unfold appendRangeFwd
  have h0 : (w.hdr c).cap - (w.hdr c).size < srcs.length := by omega
  simp [bind_run, getV_run, guard_appendRange2_0, guard_appendRange2_1, genv, h0, hbig, throwE]

theorem resize_length_error (cfg : Cfg) (c n : Nat) (s : Src α) (w : World α)
    (hbig : cfg.maxSize < n) (hcap : (w.hdr c).cap ≤ cfg.maxSize) :
    resizeWith cfg c n s w = .thrown .length w := by
  unfold resizeWith
  have hn0 : n ≠ 0 := by omega
  have h1 : (w.hdr c).cap < n := by omega
  have e0 : guard_resizeWith_0 { newSize := n } = decide (n = 0) := rfl
  rw [e0, if_neg (by simpa using hn0), pure_bind_run, bind_run, getV_run]
  simp only []
  have e1 : guard_resizeWith_1 { genv cfg (w.hdr c) with newSize := n } = decide ((w.hdr c).cap < n) := rfl
  have e2 : guard_resizeWith_2 { genv cfg (w.hdr c) with newSize := n } = decide (cfg.maxSize < n) := rfl
  rw [e1, e2, if_pos (decide_eq_true h1), if_pos (decide_eq_true hbig)]
  rfl

theorem reserve_length_error (cfg : Cfg) (c n : Nat) (w : World α)
    (hbig : cfg.maxSize < n) (hcap : (w.hdr c).cap ≤ cfg.maxSize) :
    requestCapacity cfg c n w = .thrown .length w := by
  unfold requestCapacity
  rw [requestCapacity_calls.1, requestCapacity_calls.2]
  simp only [calcNewCapacity_checked, allocateBy_unchecked]
  have h1 : ¬ n ≤ (w.hdr c).cap := by omega
  rw [bind_run, getV_run]
  simp only []
  have e : guard_requestCapacity_0 { genv cfg (w.hdr c) with request := n } = decide (n ≤ (w.hdr c).cap) := rfl
  rw [e, if_neg (by simpa using h1), bind_run, checkedCalc_run, if_pos hbig]

theorem assign_n_length_error (cfg : Cfg) (c n : Nat) (s : Src α) (w : World α)
    (hbig : cfg.maxSize < n) (hcap : (w.hdr c).cap ≤ cfg.maxSize) :
    assignWithCopies cfg c n s w = .thrown .length w := by
  unfold assignWithCopies
  rw [assignWithCopies_calls.1, assignWithCopies_calls.2]
  simp only [calcNewCapacity_checked, allocateBy_unchecked]
  have h1 : (w.hdr c).cap < n := by omega
  rw [bind_run, getV_run]
  simp only []
  have e : guard_assignWithCopies_0 { genv cfg (w.hdr c) with count := n } = decide ((w.hdr c).cap < n) := rfl
  rw [e, if_pos (decide_eq_true h1), bind_run, checkedCalc_run, if_pos hbig]

/-- count, count+value and forward-range construction beyond max_size: length_error before anything is allocated
    (`ctor*Checked` is regenerated from the header: which of checked_allocate / unchecked_allocate the constructor calls) -/
theorem ctor_length_error (cfg : Cfg) (c a : Nat) (srcs : List (Src α)) (w : World α)
    (hbig : cfg.maxSize < srcs.length) (hN : (w.hdr c).N < srcs.length) :
    ctorFill cfg c a true srcs w = .thrown .length { w with hdr := upd w.hdr c { w.hdr c with alloc := a } } := by
  unfold ctorFill
  rw [bind_run]
  show (getV c >>= _) _ = _
  rw [bind_run, getV_run]
  simp only [get_upd_set]
  rw [if_pos (by simpa using hN)]
  simp only [if_true, bind_run]
  unfold checkedAllocate
  have e : guard_checkedAllocate_0 { maxSize := cfg.maxSize, request := srcs.length } = decide (cfg.maxSize < srcs.length) := rfl
  rw [e, if_pos (decide_eq_true hbig)]
  rfl

theorem ctors_use_checked_allocate :
    ctorCountChecked = true ∧ ctorCountValueChecked = true ∧ ctorGeneratorChecked = true ∧ ctorForwardRangeChecked = true := by decide

/-- the length of a caller's range is checked against the width of size_type in every build mode (not only without NDEBUG):
    the model's `srcs.length : Nat` is the length the header works with, or the header has thrown length_error -/
theorem range_length_checked_ndebug : rangeLengthCheckedNdebug = true := by decide

/-- the capacity requested from the allocator by any growing path is within max_size -/
theorem alloc_within_max (m cap req : Nat) (h1 : cap < req) (h2 : req ≤ m) : newCapacity m cap req ≤ m :=
  (newCapacity_bounds m cap req h1 h2).2

/-- no intermediate value of the growth computation exceeds the width of size_ty -/
theorem growth_no_wrap (bits m cap req : Nat) (hm : m < 2 ^ bits) (hcap : cap ≤ m) (hreq : req ≤ m) :
    m - cap < 2 ^ bits ∧ (¬ (m - cap ≤ cap) → 2 * cap < 2 ^ bits) ∧ newCapacity m cap req < 2 ^ bits ∨ cap ≥ req := by
  by_cases h : cap < req
  · left
    refine ⟨by omega, fun hn => by omega, ?_⟩
    have := (newCapacity_bounds m cap req h hreq).2; omega
  · right; omega

/-- the guards `num_uninitialized () < count` and `max_size - size < count` are evaluated without wrap, and when both fail
    to reject, `size + count` does not wrap either -/
theorem append_no_wrap (bits m size cap count : Nat) (hm : m < 2 ^ bits) (hsc : size ≤ cap) (hcm : cap ≤ m)
    (hok : ¬ (m - size < count)) : cap - size < 2 ^ bits ∧ m - size < 2 ^ bits ∧ size + count ≤ m ∧ size + count < 2 ^ bits := by
  omega

/-- size () never exceeds max_size () -/
theorem size_le_max_size (cfg : Cfg) (w : World α) (c : Nat) (hv : VecOK cfg w c) (hN : (w.hdr c).N ≤ cfg.maxSize) :
    (w.hdr c).size ≤ cfg.maxSize := Nat.le_trans hv.size_le (hv.cap_le_max hN)

/-- non-vacuity: an 8-bit size_type allocator for 4-byte elements has max_size 63 -/
example : Gen.maxSize (255 / 4) 127 = 63 := by decide
/-- (values of the growth function are C14's business; here only: an admissible request never yields more than max_size) -/
example : newCapacity 63 40 41 ≤ 63 ∧ newCapacity 63 20 21 ≤ 63 ∧ 41 ≤ newCapacity 63 40 41 := by decide

end SvModel.C12
