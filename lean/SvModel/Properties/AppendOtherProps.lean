/-
C05 / C01 for `append (const small_vector&)` and `append (small_vector&&)` inside a system of containers.
-/
import SvModel.Proofs.AppendOther
import SvModel.Proofs.AppendOtherMove
import SvModel.Properties.Core

namespace SvModel.C05
open SvModel Gen
variable {α : Type}

/-- `c.append (o)` (any pair of inline capacities), every fault list: on return `c` holds its old values followed by
    `o`'s and nobody else changed; on a throw the WORLD is as before (Strong: headers, every existing block, the live
    set) — so destination and source are unchanged, nothing moved-from, nothing leaked -/
theorem append_other_strong (cfg : Cfg) (w : World α) (U A : List Nat) (c o : Nat) (hs : SysAll cfg w U A)
    (hc : c ∈ A) (ho : o ∈ A) (hoc : o ≠ c) (hpol : StrongPolicy cfg) :
    (appendOther cfg c o w).sat
      (fun _ w' => SysAll cfg w' U A ∧ (∀ xs ys, Holds w c xs → Holds w o ys → Holds w' c (xs ++ ys)) ∧
                   (∀ d ∈ A, d ≠ c → ∀ xs, Holds w d xs → Holds w' d xs))
      (fun _ w' => Strong w w') :=
  SysAll.appendOther hs hc ho hoc hpol

/-- `c.append (std::move (o))` for a copyable element type whose move constructor may throw (`relocate_with_move` is
    false: the header then appends COPIES): on return `c` holds its values followed by `o`'s and `o` is empty; on a
    throw the world is as before — "append (small_vector&&) additionally leaves its source unchanged" -/
theorem append_rvalue_strong (cfg : Cfg) (w : World α) (U A : List Nat) (c o : Nat) (hs : SysAll cfg w U A)
    (hc : c ∈ A) (ho : o ∈ A) (hoc : o ≠ c) (hpol : StrongPolicy cfg) (hmode : relocateWithMove cfg.policy = false) :
    (appendOtherMove cfg c o w).sat
      (fun _ w' => SysAll cfg w' U A ∧ (∀ xs ys, Holds w c xs → Holds w o ys → Holds w' c (xs ++ ys)) ∧ Holds w' o [] ∧
                   (∀ d ∈ A, d ≠ c → d ≠ o → ∀ xs, Holds w d xs → Holds w' d xs))
      (fun _ w' => Strong w w') :=
  SysAll.appendOtherMove_copying hs hc ho hoc hpol hmode

/-- what `Strong` means for the two operands: same values, same headers -/
theorem strong_keeps_both (cfg : Cfg) (w w' : World α) (U A : List Nat) (c o : Nat) (hs : SysAll cfg w U A) (hc : c ∈ A) (ho : o ∈ A)
    (h : Strong w w') (xs ys : List (Val α)) (hx : Holds w c xs) (hy : Holds w o ys) :
    Holds w' c xs ∧ Holds w' o ys ∧ w'.hdr = w.hdr ∧ w'.live = w.live :=
  ⟨h.holds hs.ok.led (hs.ok.vec c hc) hx, h.holds hs.ok.led (hs.ok.vec o ho) hy, h.hdr, h.live⟩

/-- `c.append (std::move (o))` in its MOVING mode with a move constructor that cannot throw (`relocate_with_move` because
    of nothrow move): on return `c` holds its values followed by `o`'s and `o` is empty; the only possible failures
    (length_error, the allocator) happen before any element is touched, and the world — source included, nothing
    moved-from — is as before -/
theorem append_rvalue_moving_strong (cfg : Cfg) (w : World α) (U A : List Nat) (c o : Nat) (hs : SysAll cfg w U A)
    (hc : c ∈ A) (ho : o ∈ A) (hoc : o ≠ c) (hmode : relocateWithMove cfg.policy = true)
    (hreal : cfg.realMove = true) (hnt : cfg.tMove = false) :
    (appendOtherMove cfg c o w).sat
      (fun _ w' => SysAll cfg w' U A ∧ (∀ xs ys, Holds w c xs → Holds w o ys → Holds w' c (xs ++ ys)) ∧ Holds w' o [] ∧
                   (∀ d ∈ A, d ≠ c → d ≠ o → ∀ xs, Holds w d xs → Holds w' d xs))
      (fun _ w' => Strong w w') :=
  SysAll.appendOtherMove_nothrow hs hc ho hoc hmode hreal hnt

/-- … and for EVERY element type (copying or moving mode, throwing or not): the call keeps the system valid in both
    outcomes — after a throw every header is as before (sizes, buffers, capacities), no block was leaked or gained, every
    other container holds what it held; the two operands hold constructed elements (C06: for a move-only type whose move
    throws, some of the source's elements are moved-from, none is lost or destroyed twice) -/
theorem append_rvalue_basic (cfg : Cfg) (w : World α) (U A : List Nat) (c o : Nat) (hs : SysAll cfg w U A)
    (hc : c ∈ A) (ho : o ∈ A) (hoc : o ≠ c) (hpol : StrongPolicy cfg) :
    (appendOtherMove cfg c o w).sat
      (fun _ w' => SysAll cfg w' U A ∧ (∀ xs ys, Holds w c xs → Holds w o ys → Holds w' c (xs ++ ys)) ∧ Holds w' o [] ∧
                   (∀ d ∈ A, d ≠ c → d ≠ o → ∀ xs, Holds w d xs → Holds w' d xs))
      (fun _ w' => SysAll cfg w' U A ∧ w'.hdr = w.hdr ∧ w'.live = w.live ∧
                   (∀ d ∈ A, d ≠ c → d ≠ o → ∀ xs, Holds w d xs → Holds w' d xs)) :=
  Res.sat_mono (SysAll.appendOtherMove hs hc ho hoc hpol) (fun _ _ h => h) (fun _ _ h => h.2)

end SvModel.C05
