/-
swap, property level (C01 / C02 / C06 / C09 for `swap`).

`swap_sys`           — `a.swap (b)` inside a system of containers (same type, allocators equal or propagating on swap —
                       the case the standard defines), for EVERY fault list: if it returns, the system is valid, `a` holds
                       exactly what `b` held and vice versa, nobody else changed, no block was allocated or released;
                       if it throws (an element move threw), the exception is the element's, the system is valid, both
                       containers hold some list of constructed elements, nobody else changed, nothing leaked.
`swap_both_heap_O1`  — when both containers own heap buffers the call cannot throw, performs no element operation and no
                       allocator call at all (the trace is unchanged), leaves the memory untouched and just exchanges the
                       buffers: every iterator/reference into either buffer stays valid and now belongs to the other
                       container (C09).
-/
import SvModel.Proofs.SwapSys

namespace SvModel.SwapP
open SvModel Gen
variable {α : Type}

theorem swap_sys (cfg : Cfg) (w : World α) (U A : List Nat) (c o : Nat) (hs : SysAll cfg w U A)
    (hc : c ∈ A) (ho : o ∈ A) (hco : c ≠ o) (hN : (w.hdr c).N = (w.hdr o).N)
    (hnull : (w.hdr c).N = 0 → (w.hdr c).inl = (w.hdr o).inl) (hal : SwapAllocOK cfg w c o) :
    (SvModel.swap cfg c o w).sat
      (fun _ w' => SysAll cfg w' U A ∧ (∀ xs, Holds w o xs → Holds w' c xs) ∧ (∀ xs, Holds w c xs → Holds w' o xs) ∧
          (∀ d ∈ A, d ≠ c → d ≠ o → ∀ xs, Holds w d xs → Holds w' d xs) ∧ w'.live = w.live)
      (fun e w' => e = .elem ∧ SysAll cfg w' U A ∧ (∃ ys, Holds w' c ys) ∧ (∃ ys, Holds w' o ys) ∧
          (∀ d ∈ A, d ≠ c → d ≠ o → ∀ xs, Holds w d xs → Holds w' d xs) ∧ w'.live = w.live) :=
  SysAll.swap hs hc ho hco hN hnull hal

theorem swapDefault_heap_run (cfg : Cfg) (c o : Nat) (w : World α) (h : (w.hdr c).N < (w.hdr c).cap) :
    swapDefault cfg c o w = (swapAllocation c o >>= fun _ => maybeSwapAlloc cfg c o) w := by
  have e0 : guard_swapDefault_0 (genv2 cfg (w.hdr c) (w.hdr o)) = decide ((w.hdr c).N < (w.hdr c).cap) := by
    unfold guard_swapDefault_0 hasAllocation genv2 genv; simp only [Bool.false_eq_true, if_false]
  unfold swapDefault
  rw [bind_run, getV_run]; simp only []
  rw [bind_run, getV_run]; simp only []
  rw [e0, if_pos (decide_eq_true h)]

theorem exchW_facts (w : World α) (c o a1 a2 : Nat) (hco : c ≠ o) :
    (exchW w c o a1 a2).mem = w.mem ∧ (exchW w c o a1 a2).trace = w.trace ∧ (exchW w c o a1 a2).live = w.live ∧
    ((exchW w c o a1 a2).hdr c).data = (w.hdr o).data ∧ ((exchW w c o a1 a2).hdr o).data = (w.hdr c).data := by
  refine ⟨rfl, rfl, rfl, ?_, ?_⟩
  · unfold exchW; simp [upd_other _ _ _ _ hco]
  · unfold exchW; simp

theorem swap_both_heap_O1 (cfg : Cfg) (w : World α) (c o : Nat) (hco : c ≠ o)
    (hch : (w.hdr c).N < (w.hdr c).cap) (hoh : (w.hdr o).N < (w.hdr o).cap)
    (hal : cfg.policy.pocs = true ∨ (w.hdr c).alloc = (w.hdr o).alloc) :
    ∃ w', SvModel.swap cfg c o w = .ok () w' ∧ w'.mem = w.mem ∧ w'.trace = w.trace ∧ w'.live = w.live ∧
      (w'.hdr c).data = (w.hdr o).data ∧ (w'.hdr o).data = (w.hdr c).data := by
  have hoc : o ≠ c := fun h => hco h.symm
  have e10 : guard_swap1_0 (genv2 cfg (w.hdr c) (w.hdr o)) = decide ((w.hdr c).cap < (w.hdr o).cap) := rfl
  have e20 : guard_swap2_0 (genv2 cfg (w.hdr c) (w.hdr o)) = decide ((w.hdr c).cap < (w.hdr o).cap) := rfl
  have e21 : guard_swap2_1 (genv2 cfg (w.hdr c) (w.hdr o)) = ((w.hdr o).alloc == (w.hdr c).alloc) := rfl
  have e22 : guard_swap2_2 (genv2 cfg (w.hdr c) (w.hdr o)) = ((w.hdr o).alloc == (w.hdr c).alloc) := rfl
  have fwd : ∃ w', swapDefault cfg c o w = .ok () w' ∧ w'.mem = w.mem ∧ w'.trace = w.trace ∧ w'.live = w.live ∧
      (w'.hdr c).data = (w.hdr o).data ∧ (w'.hdr o).data = (w.hdr c).data := by
    rw [swapDefault_heap_run cfg c o w hch, swapAllocation_run cfg c o hco]
    exact ⟨_, rfl, exchW_facts w c o _ _ hco⟩
  have bwd : ∃ w', swapDefault cfg o c w = .ok () w' ∧ w'.mem = w.mem ∧ w'.trace = w.trace ∧ w'.live = w.live ∧
      (w'.hdr c).data = (w.hdr o).data ∧ (w'.hdr o).data = (w.hdr c).data := by
    rw [swapDefault_heap_run cfg o c w hoh, swapAllocation_run cfg o c hoc]
    obtain ⟨a, b, c', d, e⟩ := exchW_facts w o c (maybeSwap cfg.policy (w.hdr o).alloc (w.hdr c).alloc).1 (maybeSwap cfg.policy (w.hdr o).alloc (w.hdr c).alloc).2 hoc
    exact ⟨_, rfl, a, b, c', e, d⟩
  unfold SvModel.swap
  rw [bind_run, getV_run]; simp only []
  rw [bind_run, getV_run]; simp only []
  rw [e10, e20, e21, e22]
  by_cases hsw : allocationsAreSwappable cfg.policy = true
  · rw [if_pos hsw]
    by_cases hz : (w.hdr c).N = 0
    · rw [if_pos hz, swapAllocation_run cfg c o hco]
      exact ⟨_, rfl, exchW_facts w c o _ _ hco⟩
    · rw [if_neg hz]
      by_cases hlt : (w.hdr c).cap < (w.hdr o).cap
      · rw [if_pos (decide_eq_true hlt)]; exact fwd
      · rw [if_neg (by simpa using hlt)]; exact bwd
  · rw [if_neg hsw]
    have hp : cfg.policy.pocs = false := by
      unfold allocationsAreSwappable at hsw
      cases h : cfg.policy.pocs
      · rfl
      · rw [h] at hsw; simp at hsw
    have heq : (w.hdr c).alloc = (w.hdr o).alloc := by
      rcases hal with h | h
      · rw [hp] at h; cases h
      · exact h
    have hb : ((w.hdr o).alloc == (w.hdr c).alloc) = true := by rw [heq]; exact beq_self_eq_true _
    rw [hb]
    simp only [if_true]
    by_cases hlt : (w.hdr c).cap < (w.hdr o).cap
    · rw [if_pos (decide_eq_true hlt)]; exact fwd
    · rw [if_neg (by simpa using hlt)]; exact bwd

end SvModel.SwapP
