/-
C20 — Shipped debugger visualisers show the true size, capacity and elements.

`Gen.classTable` is the class graph of instantiations of `small_vector` (inline capacity > 0 and = 0, empty-base and
stateful allocator) and of its iterator, as gdb reads it from the debug information of a program compiled against the
real header; `Gen.pyRoot / pyFirstFieldIndex / pyMembers / pyIteratorMembers / natvisPaths` are the member names and
positions that prettyprinter.py and small_vector.natvis use, read from their sources.  Both are regenerated on every run.
Theorems (by evaluation in the kernel): every path the visualisers walk resolves, in every instantiation, to the data
members that hold the begin pointer, the size and the capacity — a rename, a re-basing of the data members or a change
of the first base breaks them.  `printer_view_spec` pins what the printer's view means on the L2 header.
That the printer then prints the right text is observed by running gdb with the shipped printer on a program with
containers in 15 states and 3 iterators and comparing with what size (), capacity () and iteration report.
-/
import SvModel.Gen.ClassShape
import SvModel.Proofs.Inv

namespace SvModel.C20
open SvModel.Gen

def fieldsOf (c : String) : List Fld := ((classTable.find? (fun p => p.1 == c)).map (·.2)).getD []

/-- member lookup as a debugger does it: own fields first, then base classes (depth-first), bounded by `fuel` -/
def findMember : Nat → String → String → Option Fld
  | 0, _, _ => none
  | fuel+1, c, m =>
    match (fieldsOf c).find? (fun f => !f.isBase && f.name == m) with
    | some f => some f
    | none => (fieldsOf c).filter (·.isBase) |>.findSome? (fun b => findMember fuel b.cls m)

/-- resolve a dotted path starting in class `c`; returns the last field -/
def resolve (fuel : Nat) : String → List String → Option Fld
  | _, [] => none
  | c, [m] => findMember fuel c m
  | c, m :: rest => (findMember fuel c m).bind (fun f => resolve fuel f.cls rest)

/-- prettyprinter.py: val['m_data'], cast to the type of its FIRST field — which must be a base class — and read
    m_data_ptr / m_size / m_capacity there, as non-static data members -/
def pyResolves (root : String) : Bool :=
  match findMember 8 root pyRoot with
  | none => false
  | some d =>
    match (fieldsOf d.cls)[pyFirstFieldIndex]? with
    | none => false
    | some b => b.isBase && pyMembers.all (fun m =>
        match (fieldsOf b.cls).find? (fun f => f.name == m) with
        | some f => !f.isBase && !f.isStatic
        | none => false)

theorem printer_paths_resolve : containerRoots.all pyResolves = true := by decide +kernel

theorem printer_expects_three_members : pyMembers = ["m_capacity", "m_data_ptr", "m_size"] ∧ pyRoot = "m_data" := by decide

theorem iterator_printer_resolves :
    iteratorRoots.all (fun r => pyIteratorMembers.all (fun m => (findMember 4 r m).isSome)) = true := by decide +kernel

/-- natvis: m_data.m_capacity, m_data.m_size, m_data.m_data_ptr resolve in every container instantiation;
    inline_capacity_v is a static data member of small_vector (from the header text: g++ omits unused static constexpr members
    from the debug information); m_alloc resolves when the allocator is not empty-base-optimised; m_ptr resolves in the iterator -/
theorem natvis_paths_resolve :
    containerRoots.all (fun r =>
      (natvisPaths.filter (fun p => p.head? == some "m_data")).all (fun p => (resolve 8 r p).isSome)) = true ∧
    staticMembers.contains "inline_capacity_v" = true ∧
    nonEboRoots.all (fun r => (resolve 8 r ["m_alloc"]).isSome) = true ∧
    iteratorRoots.all (fun r => (resolve 4 r ["m_ptr"]).isSome) = true := by decide +kernel

/-- every natvis path is one of the above (nothing else is referenced by the visualiser) -/
theorem natvis_paths_known :
    natvisPaths.all (fun p => p.head? == some "m_data" || p == ["inline_capacity_v"] || p == ["m_alloc"] || p == ["m_ptr"]) = true := by decide

/-- what the printer shows, on the L2 header: (length, capacity, the first `size` slots of the data block) -/
def view {α} (w : World α) (c : Nat) : Nat × Nat × List (Slot α) :=
  ((w.hdr c).size, (w.hdr c).cap, (w.mem (w.hdr c).data).take (w.hdr c).size)

theorem printer_view_spec {α} (w : World α) (c : Nat) (xs : List (Val α)) (h : Holds w c xs) :
    (view w c).1 = xs.length ∧ (view w c).2.2 = xs.map Slot.obj := by
  refine ⟨h.1.symm, ?_⟩
  apply List.ext_getElem?
  intro i
  simp only [view, List.getElem?_take, List.getElem?_map]
  by_cases hi : i < xs.length
  · have hs : i < (w.hdr c).size := by rw [← h.1]; exact hi
    rw [if_pos hs, h.2 i hi, List.getElem?_eq_getElem hi]
    rfl
  · have hs : ¬ i < (w.hdr c).size := by rw [← h.1]; exact hi
    rw [if_neg hs, List.getElem?_eq_none (by omega)]
    rfl

end SvModel.C20
