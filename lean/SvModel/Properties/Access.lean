/-
C01, element access: `at (i)` returns the i-th value and changes nothing, or throws `std::out_of_range` (and changes
nothing) exactly when i ≥ size (); `operator[] (i)` returns the i-th value.  Stated for the programs the driver runs for the
protocol lines `at` / `get` (Api.opM), for every world in which the container holds the list `xs`.
-/
import SvModel.Api
import SvModel.Proofs.Inv
import SvModel.Proofs.Kernel

namespace SvModel.C01
open SvModel
variable (ac : ApiCfg) (s : Sys)

theorem at_in_range (x i : Nat) (w : World Int) (xs : List (Val Int)) (hx : Holds w x xs) (hi : i < xs.length) :
    opM ac s (.at x i) w = .ok (.val xs[i]) w := by
  have hsz : ¬ (w.hdr x).size ≤ i := by rw [← hx.1]; omega
  have hslot := hx.2 i hi
  show (getV x >>= fun v => if Gen.guard_at0_0 { size := v.size, pos := i } then throwE .range else readSlot v.data i >>= fun r => pure (Out.val r)) w = _
  have eg : ∀ n, Gen.guard_at0_0 { size := n, pos := i } = decide (n ≤ i) := fun _ => by first | rfl | (simp only [Gen.guard_at0_0]; rw [Bool.eq_iff_iff]; simp; try omega)
  simp only [eg, decide_eq_true_eq]
  rw [bind_run, getV_run]; simp only []
  rw [if_neg hsz, bind_run]
  have : readSlot (w.hdr x).data i w = .ok xs[i] w := by unfold readSlot; rw [hslot]
  rw [this]; rfl

theorem at_out_of_range (x i : Nat) (w : World Int) (xs : List (Val Int)) (hx : Holds w x xs) (hi : xs.length ≤ i) :
    opM ac s (.at x i) w = .thrown .range w := by
  have hsz : (w.hdr x).size ≤ i := by rw [← hx.1]; exact hi
  show (getV x >>= fun v => if Gen.guard_at0_0 { size := v.size, pos := i } then throwE .range else readSlot v.data i >>= fun r => pure (Out.val r)) w = _
  have eg : ∀ n, Gen.guard_at0_0 { size := n, pos := i } = decide (n ≤ i) := fun _ => by first | rfl | (simp only [Gen.guard_at0_0]; rw [Bool.eq_iff_iff]; simp; try omega)
  simp only [eg, decide_eq_true_eq]
  rw [bind_run, getV_run]; simp only []
  rw [if_pos hsz]; rfl

/-- the const and the non-const overload of `at ()` make the same test (both generated from the header) -/
theorem at_overloads_same_test (e : Gen.GuardEnv) :
    Gen.guard_at0_0 e = decide (e.size ≤ e.pos) ∧ Gen.guard_at1_0 e = decide (e.size ≤ e.pos) :=
  ⟨by first | rfl | (simp only [Gen.guard_at0_0]; rw [Bool.eq_iff_iff]; simp; try omega), by first | rfl | (simp only [Gen.guard_at1_0]; rw [Bool.eq_iff_iff]; simp; try omega)⟩

theorem index_in_range (x i : Nat) (w : World Int) (xs : List (Val Int)) (hx : Holds w x xs) (hi : i < xs.length) :
    opM ac s (.get x i) w = .ok (.val xs[i]) w := by
  have hslot := hx.2 i hi
  show (getV x >>= fun v => readSlot v.data i >>= fun r => pure (Out.val r)) w = _
  rw [bind_run, getV_run]; simp only []
  rw [bind_run]
  have : readSlot (w.hdr x).data i w = .ok xs[i] w := by unfold readSlot; rw [hslot]
  rw [this]; rfl

end SvModel.C01
