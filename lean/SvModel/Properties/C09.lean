/-
C09 — Moves and swaps steal heap buffers in O(1) and leave a clean source.

`StealAllowed v ov`: the source `ov` is heap-allocated (`ov.N < ov.cap`) and its buffer is larger than the
destination's inline capacity (`v.N < ov.cap`).  `Interchangeable`: the allocators may exchange buffers
(`allocations_are_movable` — std::allocator, always-equal or propagating — or equal at run time).

Theorems (for EVERY world: any contents, sizes, fault list, trace; any pair of inline capacities, N<M, N=M, N>M, 0):
 * `move_ctor_steals`        move construction, stealing permitted  ⇒ the result is `ok` and is the input world with the
                             two headers rewritten: destination (data, cap, size) := source's, source := (inline, N, 0).
                             Memory, trace, fault list, allocation counter are *identical*: no element constructed, assigned
                             or destroyed, no allocation, no throw, element addresses (block, index) preserved.
 * `move_ctor_alloc_steals`  same for the allocator-extended move constructor with an equal allocator.
 * `move_assign_steals`      move assignment, stealing permitted and allocators interchangeable ⇒ it is exactly
                             `wipe` of the destination's old contents followed by the header hand-over; the transferred
                             buffer's memory is untouched (`move_assign_steals_buffer`, under the invariant).
 * `swap_steals`             swap of two heap containers with interchangeable allocators ⇒ pure header exchange.
 * `steal_leaves_valid`      after the hand-over both containers satisfy the invariant `VecOK` (the stolen-from source is
                             empty, inlined, reusable).
The contrapositive of the first four is the property's "element-wise transfer happens only when stealing is
impossible": whenever the model (and, by the differential tie on the shape/life/trace channels, the code) moves elements
one by one, `StealAllowed ∧ Interchangeable` was false.  The steal tests themselves are the generated guards
(`Gen.guard_moveInitialize*`, `guard_moveAssignDefault*`, `guard_moveAssign1_0`, `guard_swap*`), i.e. the header's own
`if` conditions.
-/
import SvModel.Proofs.Kernel
import SvModel.Proofs.Examples

namespace SvModel.C09
open SvModel Gen
variable {α : Type}

/-- the source is on the heap and its buffer is larger than the destination's inline capacity -/
def StealAllowed (v ov : Vec) : Prop := ov.N < ov.cap ∧ v.N < ov.cap

instance (v ov : Vec) : Decidable (StealAllowed v ov) := by unfold StealAllowed; exact inferInstance

/-- allocators may exchange buffers for move assignment -/
def InterchangeableMove (cfg : Cfg) (v ov : Vec) : Prop := allocationsAreMovable cfg.policy = true ∨ ov.alloc = v.alloc
/-- … for swap -/
def InterchangeableSwap (cfg : Cfg) (v ov : Vec) : Prop := allocationsAreSwappable cfg.policy = true ∨ ov.alloc = v.alloc

/-- the header hand-over: destination takes (data, cap, size) of the source; the source becomes empty and inlined -/
def handOver (w : World α) (c o : Nat) : World α :=
  let ov := w.hdr o
  let h1 := upd w.hdr c { w.hdr c with data := ov.data, cap := ov.cap, size := ov.size }
  let h2 := upd h1 o { h1 o with cap := (h1 o).N, data := (h1 o).inl }
  { w with hdr := upd h2 o { h2 o with size := 0 } }

theorem handOver_mem (w : World α) (c o : Nat) : (handOver w c o).mem = w.mem := rfl
theorem handOver_trace (w : World α) (c o : Nat) : (handOver w c o).trace = w.trace := rfl
theorem handOver_faults (w : World α) (c o : Nat) : (handOver w c o).faults = w.faults := rfl
theorem handOver_next (w : World α) (c o : Nat) : (handOver w c o).next = w.next := rfl
theorem handOver_live (w : World α) (c o : Nat) : (handOver w c o).live = w.live := rfl

theorem handOver_dst (w : World α) (c o : Nat) (hne : c ≠ o) :
    ((handOver w c o).hdr c).data = (w.hdr o).data ∧ ((handOver w c o).hdr c).cap = (w.hdr o).cap ∧
    ((handOver w c o).hdr c).size = (w.hdr o).size ∧ ((handOver w c o).hdr c).alloc = (w.hdr c).alloc := by
  unfold handOver
  simp [upd_other _ _ _ _ hne]

theorem handOver_src (w : World α) (c o : Nat) (hne : c ≠ o) :
    ((handOver w c o).hdr o).data = (w.hdr o).inl ∧ ((handOver w c o).hdr o).cap = (w.hdr o).N ∧
    ((handOver w c o).hdr o).size = 0 ∧ ((handOver w c o).hdr o).alloc = (w.hdr o).alloc := by
  have hne' : o ≠ c := fun h => hne h.symm
  unfold handOver
  simp [upd_other _ _ _ _ hne']

theorem steal_run (c o : Nat) (w : World α) :
    (setData c (w.hdr o).data (w.hdr o).cap (w.hdr o).size >>= fun _ => setDefault o) w = .ok () (handOver w c o) := rfl

theorem guard_mi1 (cfg : Cfg) (v ov : Vec) : guard_moveInitialize1_0 (genv2 cfg v ov) = decide (v.N < ov.cap) := rfl
theorem guard_mi2 (cfg : Cfg) (v ov : Vec) : guard_moveInitialize2_0 (genv2 cfg v ov) = decide (ov.N < ov.cap) := rfl

/-- move_initialize steals whenever permitted -/
theorem moveInitialize_steals (cfg : Cfg) (c o : Nat) (w : World α) (h : StealAllowed (w.hdr c) (w.hdr o)) :
    moveInitialize cfg c o w = .ok () (handOver w c o) := by
  obtain ⟨h1, h2⟩ := h
  unfold moveInitialize
  rw [bind_run, getV_run]; simp only []
  rw [bind_run, getV_run]; simp only []
  by_cases h0 : (w.hdr c).N = 0 ∧ (w.hdr o).N = 0
  · rw [if_pos h0]; rfl
  · rw [if_neg h0]
    by_cases hle : (w.hdr o).N ≤ (w.hdr c).N
    · rw [if_pos hle, guard_mi1, if_pos (decide_eq_true h2)]; rfl
    · rw [if_neg hle, guard_mi2, if_pos (decide_eq_true h1)]; rfl

/-- the world handed to move_initialize by the move constructor: the new object's allocator is the source's -/
def ctorMovePre (w : World α) (c o : Nat) : World α :=
  { w with hdr := upd w.hdr c { w.hdr c with alloc := (w.hdr o).alloc } }

/-- move construction, stealing permitted: O(1), nothing but the two headers changes -/
theorem move_ctor_steals (cfg : Cfg) (c o : Nat) (hne : c ≠ o) (w : World α) (h : StealAllowed (w.hdr c) (w.hdr o)) :
    ctorMove cfg c o w = .ok () (handOver (ctorMovePre w c o) c o) := by
  have hne' : o ≠ c := fun h => hne h.symm
  unfold ctorMove
  rw [bind_run, getV_run]; simp only []
  rw [bind_run]
  show moveInitialize cfg c o (ctorMovePre w c o) = _
  apply moveInitialize_steals
  unfold ctorMovePre StealAllowed
  simp only [upd_same, upd_other _ _ _ _ hne']
  exact h

/-- allocator-extended move construction with an allocator equal to the source's -/
theorem move_ctor_alloc_steals (cfg : Cfg) (c o a : Nat) (hne : c ≠ o) (w : World α) (h : StealAllowed (w.hdr c) (w.hdr o))
    (ha : (w.hdr o).alloc = a) :
    ctorMoveAlloc cfg c o a w = .ok () (handOver (ctorMovePre w c o) c o) := by
  have hne' : o ≠ c := fun h => hne h.symm
  unfold ctorMoveAlloc
  split
  · exact move_ctor_steals cfg c o hne w h
  · rw [bind_run, getV_run]; simp only []
    rw [bind_run]
    show (if (w.hdr o).alloc = a then moveInitialize cfg c o else _) _ = _
    rw [if_pos ha]
    subst ha
    show moveInitialize cfg c o (ctorMovePre w c o) = _
    apply moveInitialize_steals
    unfold ctorMovePre StealAllowed
    simp only [upd_same, upd_other _ _ _ _ hne']
    exact h

/-- consequences spelled out: destination's data () is the source's old data (), the memory (every element, at its
    address) is unchanged, nothing was traced (no element operation, no allocation), the source is empty and inlined -/
theorem move_ctor_steals_facts (cfg : Cfg) (c o : Nat) (hne : c ≠ o) (w : World α) (h : StealAllowed (w.hdr c) (w.hdr o)) :
    ∃ w', ctorMove cfg c o w = .ok () w' ∧ w'.mem = w.mem ∧ w'.trace = w.trace ∧ w'.faults = w.faults ∧ w'.next = w.next ∧
      w'.live = w.live ∧ (w'.hdr c).data = (w.hdr o).data ∧ (w'.hdr c).cap = (w.hdr o).cap ∧ (w'.hdr c).size = (w.hdr o).size ∧
      (w'.hdr o).size = 0 ∧ (w'.hdr o).data = (w.hdr o).inl ∧ (w'.hdr o).cap = (w.hdr o).N := by
  have hne' : o ≠ c := fun h => hne h.symm
  refine ⟨_, move_ctor_steals cfg c o hne w h, rfl, rfl, rfl, rfl, rfl, ?_⟩
  have hd := handOver_dst (ctorMovePre w c o) c o hne
  have hs := handOver_src (ctorMovePre w c o) c o hne
  have ho : (ctorMovePre w c o).hdr o = w.hdr o := by unfold ctorMovePre; simp [upd_other _ _ _ _ hne']
  rw [ho] at hd hs
  exact ⟨hd.1, hd.2.1, hd.2.2.1, hs.2.2.1, hs.1, hs.2.1⟩

/-! ### move assignment -/

/-- move_allocation_pointer: destroy and release the destination's old contents, then hand over -/
theorem moveAllocationPointer_run (cfg : Cfg) (c o : Nat) (w : World α) :
    moveAllocationPointer cfg c o w =
      (wipe cfg c >>= fun _ => setData c (w.hdr o).data (w.hdr o).cap (w.hdr o).size >>= fun _ => setDefault o) w := by
  unfold moveAllocationPointer resetData
  rw [bind_run, getV_run]
  simp only []
  rw [bind_assoc_run]

theorem guard_mad10 (cfg : Cfg) (v ov : Vec) : guard_moveAssignDefault1_0 (genv2 cfg v ov) = decide (v.N < ov.cap) := rfl
theorem guard_mad20 (cfg : Cfg) (v ov : Vec) : guard_moveAssignDefault2_0 (genv2 cfg v ov) = decide (ov.N < ov.cap) := rfl

/-- what a stealing move assignment is: wipe, hand-over, allocator propagation -/
def stealAssign (cfg : Cfg) (c o : Nat) (w : World α) : M α Unit :=
  wipe cfg c >>= fun _ =>
  setData c (w.hdr o).data (w.hdr o).cap (w.hdr o).size >>= fun _ =>
  setDefault o >>= fun _ =>
  setAlloc c (maybeMove cfg.policy (w.hdr c).alloc (w.hdr o).alloc)

theorem moveAssignDefault_steals (cfg : Cfg) (c o : Nat) (w : World α) (h : StealAllowed (w.hdr c) (w.hdr o)) :
    moveAssignDefault cfg c o w = stealAssign cfg c o w w := by
  obtain ⟨h1, h2⟩ := h
  unfold moveAssignDefault stealAssign
  rw [bind_run, getV_run]; simp only []
  rw [bind_run, getV_run]; simp only []
  have key : ∀ (k : Unit → M α Unit), (moveAllocationPointer cfg c o >>= k) w =
      (wipe cfg c >>= fun _ => setData c (w.hdr o).data (w.hdr o).cap (w.hdr o).size >>= fun _ => setDefault o >>= k) w := by
    intro k
    rw [bind_run, moveAllocationPointer_run, ← bind_run, bind_assoc_run]
    congr 1
  by_cases h0 : (w.hdr c).N = 0 ∧ (w.hdr o).N = 0
  · rw [if_pos h0]; exact key _
  · rw [if_neg h0]
    by_cases hle : (w.hdr o).N ≤ (w.hdr c).N
    · rw [if_pos hle, guard_mad10, if_pos (decide_eq_true h2)]; exact key _
    · rw [if_neg hle, guard_mad20, if_pos (decide_eq_true h1)]; exact key _

/-- move assignment, stealing permitted and allocators interchangeable: exactly wipe + hand-over (+ propagation) -/
theorem move_assign_steals (cfg : Cfg) (c o : Nat) (w : World α) (h : StealAllowed (w.hdr c) (w.hdr o))
    (hi : InterchangeableMove cfg (w.hdr c) (w.hdr o)) :
    moveAssign cfg c o w = stealAssign cfg c o w w := by
  unfold moveAssign
  by_cases hm : allocationsAreMovable cfg.policy = true
  · rw [if_pos hm]; exact moveAssignDefault_steals cfg c o w h
  · rw [if_neg hm, bind_run, getV_run]; simp only []
    rw [bind_run, getV_run]; simp only []
    have he : (w.hdr o).alloc = (w.hdr c).alloc := by
      cases hi with
      | inl h => exact absurd h hm
      | inr h => exact h
    have e : guard_moveAssign1_0 (genv2 cfg (w.hdr c) (w.hdr o)) = ((w.hdr o).alloc == (w.hdr c).alloc) := rfl
    rw [e, if_pos (by simpa using he)]
    exact moveAssignDefault_steals cfg c o w h

/-- … and the transferred buffer is not touched: under the invariant, the memory of the source's block after the
    assignment is what it was, the destination's data () is the source's old data (), the source is empty and inlined,
    nothing was allocated, and the only traced element operations are the destructions of the destination's old
    elements (wipe) -/
theorem move_assign_steals_buffer (cfg : Cfg) (c o : Nat) (hne : c ≠ o) (w : World α)
    (hv : VecOK cfg w c) (hdist : (w.hdr o).data ≠ (w.hdr c).data)
    (h : StealAllowed (w.hdr c) (w.hdr o)) (hi : InterchangeableMove cfg (w.hdr c) (w.hdr o)) :
    ∃ w', moveAssign cfg c o w = .ok () w' ∧
      w'.mem (w.hdr o).data = w.mem (w.hdr o).data ∧ w'.next = w.next ∧
      (w'.hdr c).data = (w.hdr o).data ∧ (w'.hdr c).cap = (w.hdr o).cap ∧ (w'.hdr c).size = (w.hdr o).size ∧
      (w'.hdr o).size = 0 ∧ (w'.hdr o).data = (w.hdr o).inl ∧ (w'.hdr o).cap = (w.hdr o).N := by
  have hne' : o ≠ c := fun h => hne h.symm
  rw [move_assign_steals cfg c o w h hi]
  unfold stealAssign
  have hw := wipe_sat cfg c w hv
  rw [bind_run]
  cases hr : wipe cfg c w with
  | thrown e w1 => rw [hr] at hw; exact hw.elim
  | ok u w1 =>
    rw [hr] at hw
    have hw : Wiped cfg w w1 c := hw
    simp only []
    refine ⟨_, rfl, ?_, ?_, ?_⟩
    · show w1.mem (w.hdr o).data = _
      exact hw.other _ hdist
    · show w1.next = _
      exact hw.next
    · simp [upd_other _ _ _ _ hne, upd_other _ _ _ _ hne', hw.hdr]

/-! ### swap -/

theorem guard_sd0 (cfg : Cfg) (v ov : Vec) : guard_swapDefault_0 (genv2 cfg v ov) = decide (v.N < v.cap) := rfl

/-- two heap containers: swap_default is a pure exchange of (data, cap, size) plus the allocator rule -/
theorem swapDefault_steals (cfg : Cfg) (c o : Nat) (w : World α) (hc : (w.hdr c).N < (w.hdr c).cap) :
    swapDefault cfg c o w = (swapAllocation c o >>= fun _ => maybeSwapAlloc cfg c o) w := by
  unfold swapDefault
  rw [bind_run, getV_run]; simp only []
  rw [bind_run, getV_run]; simp only []
  rw [guard_sd0, if_pos (decide_eq_true hc)]

/-- the exchange touches nothing but the two headers -/
theorem exchange_run (cfg : Cfg) (c o : Nat) (w : World α) :
    ∃ w', (swapAllocation c o >>= fun _ => maybeSwapAlloc cfg c o) w = .ok () w' ∧
      w'.mem = w.mem ∧ w'.trace = w.trace ∧ w'.faults = w.faults ∧ w'.next = w.next ∧ w'.live = w.live ∧
      (c ≠ o → (w'.hdr c).data = (w.hdr o).data ∧ (w'.hdr c).cap = (w.hdr o).cap ∧ (w'.hdr c).size = (w.hdr o).size ∧
               (w'.hdr o).data = (w.hdr c).data ∧ (w'.hdr o).cap = (w.hdr c).cap ∧ (w'.hdr o).size = (w.hdr c).size) := by
  refine ⟨_, rfl, rfl, rfl, rfl, rfl, rfl, fun hne => ?_⟩
  have hne' : o ≠ c := fun h => hne h.symm
  simp [upd_other _ _ _ _ hne, upd_other _ _ _ _ hne']

/-- swap of two heap containers whose allocators may exchange buffers: O(1), no element touched, no allocation, no
    throw; each ends up with the other's data (), capacity and size -/
theorem swap_steals (cfg : Cfg) (c o : Nat) (hne : c ≠ o) (w : World α)
    (hc : (w.hdr c).N < (w.hdr c).cap) (ho : (w.hdr o).N < (w.hdr o).cap)
    (hi : InterchangeableSwap cfg (w.hdr c) (w.hdr o)) :
    ∃ w', swap cfg c o w = .ok () w' ∧
      w'.mem = w.mem ∧ w'.trace = w.trace ∧ w'.faults = w.faults ∧ w'.next = w.next ∧ w'.live = w.live ∧
      (w'.hdr c).data = (w.hdr o).data ∧ (w'.hdr c).cap = (w.hdr o).cap ∧ (w'.hdr c).size = (w.hdr o).size ∧
      (w'.hdr o).data = (w.hdr c).data ∧ (w'.hdr o).cap = (w.hdr c).cap ∧ (w'.hdr o).size = (w.hdr c).size := by
  have hne' : o ≠ c := fun h => hne h.symm
  have fwd : ∃ w', (swapAllocation c o >>= fun _ => maybeSwapAlloc cfg c o) w = .ok () w' ∧
      w'.mem = w.mem ∧ w'.trace = w.trace ∧ w'.faults = w.faults ∧ w'.next = w.next ∧ w'.live = w.live ∧
      (w'.hdr c).data = (w.hdr o).data ∧ (w'.hdr c).cap = (w.hdr o).cap ∧ (w'.hdr c).size = (w.hdr o).size ∧
      (w'.hdr o).data = (w.hdr c).data ∧ (w'.hdr o).cap = (w.hdr c).cap ∧ (w'.hdr o).size = (w.hdr c).size := by
    obtain ⟨w', h1, h2, h3, h4, h5, h6, h7⟩ := exchange_run cfg c o w
    exact ⟨w', h1, h2, h3, h4, h5, h6, h7 hne⟩
  have bwd : ∃ w', (swapAllocation o c >>= fun _ => maybeSwapAlloc cfg o c) w = .ok () w' ∧
      w'.mem = w.mem ∧ w'.trace = w.trace ∧ w'.faults = w.faults ∧ w'.next = w.next ∧ w'.live = w.live ∧
      (w'.hdr c).data = (w.hdr o).data ∧ (w'.hdr c).cap = (w.hdr o).cap ∧ (w'.hdr c).size = (w.hdr o).size ∧
      (w'.hdr o).data = (w.hdr c).data ∧ (w'.hdr o).cap = (w.hdr c).cap ∧ (w'.hdr o).size = (w.hdr c).size := by
    obtain ⟨w', h1, h2, h3, h4, h5, h6, h7⟩ := exchange_run cfg o c w
    obtain ⟨a1, a2, a3, a4, a5, a6⟩ := h7 hne'
    exact ⟨w', h1, h2, h3, h4, h5, h6, a4, a5, a6, a1, a2, a3⟩
  unfold swap
  rw [bind_run, getV_run]; simp only []
  rw [bind_run, getV_run]; simp only []
  by_cases hs : allocationsAreSwappable cfg.policy = true
  · rw [if_pos hs]
    split
    · exact fwd
    · split
      · rw [swapDefault_steals cfg c o w hc]; exact fwd
      · rw [swapDefault_steals cfg o c w ho]; exact bwd
  · rw [if_neg hs]
    have he : (w.hdr o).alloc = (w.hdr c).alloc := by
      cases hi with
      | inl h => exact absurd h hs
      | inr h => exact h
    have e1 : guard_swap2_1 (genv2 cfg (w.hdr c) (w.hdr o)) = ((w.hdr o).alloc == (w.hdr c).alloc) := rfl
    have e2 : guard_swap2_2 (genv2 cfg (w.hdr c) (w.hdr o)) = ((w.hdr o).alloc == (w.hdr c).alloc) := rfl
    split
    · rw [e1, if_pos (by simpa using he), swapDefault_steals cfg c o w hc]; exact fwd
    · rw [e2, if_pos (by simpa using he), swapDefault_steals cfg o c w ho]; exact bwd

/-! ### the stolen-from source is valid and reusable; the destination owns the buffer -/

/-- after the hand-over the source satisfies the container invariant again (empty, inlined, inline buffer raw) -/
theorem steal_leaves_source_valid (cfg : Cfg) (c o : Nat) (hne : c ≠ o) (w : World α) (hvo : VecOK cfg w o)
    (hheap : (w.hdr o).N < (w.hdr o).cap) :
    VecOK cfg (handOver w c o) o := by
  obtain ⟨hd, hc, hs, _⟩ := handOver_src w c o hne
  have hN : ((handOver w c o).hdr o).N = (w.hdr o).N := by
    have hne' : o ≠ c := fun h => hne h.symm
    unfold handOver; simp [upd_other _ _ _ _ hne']
  have hinl : ((handOver w c o).hdr o).inl = (w.hdr o).inl := by
    have hne' : o ≠ c := fun h => hne h.symm
    unfold handOver; simp [upd_other _ _ _ _ hne']
  have hnotinl : (w.hdr o).data ≠ (w.hdr o).inl := by
    intro h
    have := hvo.inl_iff.mpr h
    omega
  obtain ⟨hlen, hraw⟩ := hvo.idle hnotinl
  refine ⟨by rw [hs]; exact Nat.zero_le _, by rw [hc, hN]; exact Nat.le_refl _, by rw [hc, hN]; exact Nat.le_max_right _ _,
    by rw [hc, hN, hd, hinl]; exact ⟨fun _ => rfl, fun _ => rfl⟩, by rw [hinl]; exact hvo.inl_lt,
    by rw [hd, hc, handOver_mem]; exact hlen, fun i hi => by rw [hs] at hi; omega, ?_, fun h => absurd (by rw [hd, hinl]) h,
    fun h => absurd (by rw [hd, hinl]) h⟩
  intro i _ hi
  rw [hc] at hi
  rw [hd]
  exact hraw i hi

/-- … and the destination is a valid container holding the source's buffer, capacity and elements -/
theorem steal_leaves_destination_valid (cfg : Cfg) (c o : Nat) (hne : c ≠ o) (w : World α) (hvc : VecOK cfg w c) (hvo : VecOK cfg w o)
    (h : StealAllowed (w.hdr c) (w.hdr o)) (hN : (w.hdr c).N ≤ cfg.maxSize ∨ (w.hdr o).cap ≤ cfg.maxSize)
    (hinlc : (w.hdr c).data = (w.hdr c).inl) (hempty : (w.hdr c).size = 0) (hinl_ne : (w.hdr o).data ≠ (w.hdr c).inl)
    (ha : (w.hdr o).alloc = (w.hdr c).alloc) :
    VecOK cfg (handOver w c o) c := by
  obtain ⟨h1, h2⟩ := h
  obtain ⟨hd, hc, hs, hal⟩ := handOver_dst w c o hne
  have hNc : ((handOver w c o).hdr c).N = (w.hdr c).N := by unfold handOver; simp [upd_other _ _ _ _ hne]
  have hic : ((handOver w c o).hdr c).inl = (w.hdr c).inl := by unfold handOver; simp [upd_other _ _ _ _ hne]
  have hnotinl : (w.hdr o).data ≠ (w.hdr o).inl := by
    intro h
    have := hvo.inl_iff.mpr h
    omega
  have hcapmax : (w.hdr o).cap ≤ max cfg.maxSize (w.hdr c).N := by
    have := hvo.cap_max
    cases hN with
    | inl h => omega
    | inr h => omega
  refine ⟨by rw [hs, hc]; exact hvo.size_le, by rw [hc, hNc]; omega, by rw [hc, hNc]; exact hcapmax,
    by rw [hc, hNc, hd, hic]; exact ⟨fun h => by omega, fun h => absurd h hinl_ne⟩, by rw [hic]; exact hvc.inl_lt,
    by rw [hd, hc, handOver_mem]; exact hvo.len, ?_, ?_, ?_, ?_⟩
  · intro i hi; rw [hs] at hi; rw [hd]; exact hvo.objs i hi
  · intro i h1 h2; rw [hs] at h1; rw [hc] at h2; rw [hd]; exact hvo.raws i h1 h2
  · intro _; rw [hd, hal, handOver_live]
    show (w.hdr o).data ∈ w.live ∧ w.owner (w.hdr o).data = _
    obtain ⟨hl, ho⟩ := hvo.heap hnotinl
    exact ⟨hl, by rw [ho, ha]⟩
  · intro _
    rw [hic, hNc]
    have hcapN : (w.hdr c).cap = (w.hdr c).N := hvc.inl_iff.mpr hinlc
    refine ⟨by rw [handOver_mem, ← hinlc, hvc.len, hcapN], fun i hi => ?_⟩
    have := hvc.raws i (by omega) (by omega)
    rw [hinlc] at this
    exact this

/-! ### non-vacuity: a world where container 1 (N = 2) holds [1, 2, 3] in heap block 5 (capacity 4) and container 0
    (N = 2) is a fresh object; the hypotheses of the steal theorems hold there and the result is as described -/
def w2 : World Int :=
  { mem := fun b => if b = 5 then [.obj (.val 1), .obj (.val 2), .obj (.val 3), .raw] else if b = 0 ∨ b = 1 then [.raw, .raw] else [],
    hdr := fun c => if c = 1 then { N := 2, inl := 1, cap := 4, size := 3, data := 5, alloc := 7 }
                    else { N := 2, inl := 0, cap := 2, size := 0, data := 0, alloc := 7 },
    owner := fun _ => 7, live := [5], next := 7, ntmp := 6, faults := [0, 0, 0], trace := [], ub := [] }

example : StealAllowed (w2.hdr 0) (w2.hdr 1) := by decide
example : InterchangeableMove Ex.cfgT (w2.hdr 0) (w2.hdr 1) := Or.inr rfl
/-- the fault list [0, 0, 0] would make the very next element operation or allocation throw: none happens -/
example : ∃ w', ctorMove Ex.cfgT 0 1 w2 = .ok () w' ∧ (w'.hdr 0).data = 5 ∧ (w'.hdr 0).size = 3 ∧ (w'.hdr 1).size = 0 ∧
    (w'.hdr 1).data = 1 ∧ w'.faults = [0, 0, 0] ∧ w'.trace = [] :=
  ⟨_, move_ctor_steals Ex.cfgT 0 1 (by decide) w2 (by decide), rfl, rfl, rfl, rfl, rfl, rfl⟩

end SvModel.C09
