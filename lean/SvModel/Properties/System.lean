/-
Histories over SEVERAL interacting containers (the quantifier of C02, C03, C04, C06: "all call histories over several
interacting containers, all injected-exception points").

A system state is a world together with the list `A` of constructed containers (among the container ids `U`).
`MOp` is the call language: construct a container from values or as a copy of another one, destroy one, or make any
call of the single-container language `SOp` (History.lean) on one of them.  Each call gets its own arbitrary fault
list; a call that throws leaves the system where the throw left it and the history goes on.

 * `reachable_sys`   from a system satisfying `SysAll` (every constructed container valid, buffers pairwise apart,
                     EVERY live heap block is the buffer of exactly one constructed container, unborn storage raw, no
                     lifetime violation logged), every valid history ends in such a system again — after every call,
                     returned or thrown.  In particular: no block is ever leaked or owned twice (C04), objects live
                     exactly in `[0, size)` of the buffers of constructed containers (C03), and a failed constructor
                     leaves nothing behind (C06).
 * `sys_contents`    the contents of every constructed container follow the L0 (`std::vector`) meaning of the calls:
                     a call on `c` changes `c` as L0 says and NO other container (`track`), copy construction yields
                     the source's values and leaves the source alone.
 * `destroy_all_clean`  destroying every container of a reachable system leaves an empty allocator ledger.
-/
import SvModel.Properties.History
import SvModel.Properties.CtorProps
import SvModel.Proofs.SysInv
import SvModel.Proofs.CopyAssign
import SvModel.Proofs.SwapSys
import SvModel.Proofs.MoveCtorAll
import SvModel.Proofs.MoveAssignAll
import SvModel.Proofs.CopyAssignProp
import SvModel.Proofs.SwapAll
import SvModel.Proofs.AppendOtherMove
import SvModel.Proofs.CtorInputSys
import SvModel.Api

namespace SvModel.System
open SvModel Gen History
variable {α : Type}

inductive MOp (α : Type) where
  | ctorVals (c a : Nat) (vs : List α)      -- small_vector (first, last, alloc) / (n, x, alloc) — checked allocation
  | ctorCount (c a n : Nat) (d : α)         -- small_vector (n, alloc): n value-initialised elements (value `d`)
  | ctorInput (c a sid : Nat) (vs : List α) -- small_vector (first, last, alloc) for SINGLE-PASS iterators (stream `sid`)
  | ctorCopy (c o a : Nat)                   -- small_vector (other, alloc), any pair of inline capacities
  | dtor (c : Nat)
  | on (c : Nat) (op : SOp α)
  | copyAssign (c o : Nat)                   -- c = o (operator= / assign (const small_vector&)): equal, non-propagating or propagating allocators
  | swap (c o : Nat)                         -- c.swap (o), same type, any allocator relation (every path)
  | ctorMove (c o : Nat)                     -- small_vector (std::move (o)), any pair of inline capacities
  | ctorMoveAlloc (c o a : Nat)              -- small_vector (std::move (o), a)
  | moveAssign (c o : Nat)                   -- c = std::move (o), any pair of inline capacities, any allocator relation
  | append (c o : Nat)                       -- c.append (o), any pair of inline capacities
  | appendMove (c o : Nat)                   -- c.append (std::move (o)): copies or moves as the element type dictates, then o.clear ()
  deriving DecidableEq

structure St (α : Type) where
  w : World α
  A : List Nat

def MOp.valid (cfg : Cfg) (U : List Nat) (s : St α) : MOp α → Prop
  | .ctorVals c _ _ | .ctorCount c _ _ _ | .ctorInput c _ _ _ => c ∈ U ∧ c ∉ s.A
  | .ctorCopy c o _ => c ∈ U ∧ c ∉ s.A ∧ o ∈ s.A
  | .dtor c => c ∈ s.A
  | .on c op => c ∈ s.A ∧ op.valid (s.w.hdr c).size
  | .copyAssign c o => c ∈ s.A ∧ o ∈ s.A ∧ o ≠ c ∧
      ((s.w.hdr o).alloc = (s.w.hdr c).alloc ∨ cfg.pocca = false ∨ copyAssignPropagating cfg.policy = true)
  | .swap c o => c ∈ s.A ∧ o ∈ s.A ∧ c ≠ o ∧ (s.w.hdr c).N = (s.w.hdr o).N ∧
      ((s.w.hdr c).N = 0 → (s.w.hdr c).inl = (s.w.hdr o).inl) ∧ (allocationsAreSwappable cfg.policy = true → SwapAllocOK cfg s.w c o)
  | .ctorMove c o | .ctorMoveAlloc c o _ => c ∈ U ∧ c ∉ s.A ∧ o ∈ s.A ∧ ((s.w.hdr c).N = 0 → (s.w.hdr o).N = 0 → (s.w.hdr c).inl = (s.w.hdr o).inl)
  | .moveAssign c o => c ∈ s.A ∧ o ∈ s.A ∧ c ≠ o ∧ ((s.w.hdr c).N = 0 → (s.w.hdr o).N = 0 → (s.w.hdr c).inl = (s.w.hdr o).inl) ∧
      (allocationsAreMovable cfg.policy = true → cfg.policy.pocma = true ∨ (s.w.hdr c).alloc = (s.w.hdr o).alloc)
  | .append c o | .appendMove c o => c ∈ s.A ∧ o ∈ s.A ∧ o ≠ c

def MOp.run (cfg : Cfg) (w : World α) : MOp α → M α Unit
  | .ctorVals c a vs => ctorFill cfg c a true (vs.map Src.ext)
  | .ctorCount c a n d => ctorFill cfg c a true (List.replicate n (.value d))
  | .ctorInput c a sid vs => SvModel.ctorInput cfg c a sid vs
  | .ctorCopy c o a => SvModel.ctorCopy cfg c o a
  | .dtor c => SvModel.dtor cfg c
  | .on c op => op.run cfg c w
  | .copyAssign c o => SvModel.copyAssign cfg c o
  | .swap c o => SvModel.swap cfg c o
  | .ctorMove c o => SvModel.ctorMove cfg c o
  | .ctorMoveAlloc c o a => SvModel.ctorMoveAlloc cfg c o a
  | .moveAssign c o => SvModel.moveAssign cfg c o
  | .append c o => SvModel.appendOther cfg c o
  | .appendMove c o => SvModel.appendOtherMove cfg c o

/-- one call: install the fault list, run; a constructor that returns adds its container, a destructor removes it -/
def step (cfg : Cfg) (s : St α) (x : MOp α × List Nat) : St α :=
  let w0 := { s.w with faults := x.2 }
  match x.1.run cfg w0 w0 with
  | .ok _ w' =>
      { w := w', A := match x.1 with
                     | .ctorVals c _ _ | .ctorCount c _ _ _ | .ctorInput c _ _ _ | .ctorCopy c _ _ | .ctorMove c _ | .ctorMoveAlloc c _ _ => c :: s.A
                     | .dtor c => s.A.filter (· ≠ c)
                     | .on _ _ | .copyAssign _ _ | .swap _ _ | .moveAssign _ _ | .append _ _ | .appendMove _ _ => s.A }
  | .thrown _ w' => { w := w', A := s.A }

def run (cfg : Cfg) : St α → List (MOp α × List Nat) → St α
  | s, [] => s
  | s, x :: h => run cfg (step cfg s x) h

def ValidHist (cfg : Cfg) (U : List Nat) : St α → List (MOp α × List Nat) → Prop
  | _, [] => True
  | s, x :: h => x.1.valid cfg U s ∧ ValidHist cfg U (step cfg s x) h

theorem sysAll_faults {cfg : Cfg} {w : World α} {U A : List Nat} (h : SysAll cfg w U A) (f : List Nat) :
    SysAll cfg { w with faults := f } U A :=
  ⟨h.sub,
   ⟨fun c hc => (pre_faults (⟨h.ok.vec c hc, h.ok.led, h.ok.nmax c hc, h.ok.ub⟩ : Pre cfg w c) f).vec, h.ok.nmax,
    ⟨h.ok.led.next_ok, h.ok.led.ntmp_ok, h.ok.led.live_ok, h.ok.led.nodup, h.ok.led.freed, h.ok.led.tmpfresh⟩,
    h.ok.ub, fun c hc d hd hcd => ⟨(h.ok.sep c hc d hd hcd).inl, (h.ok.sep c hc d hd hcd).data⟩, h.ok.noleak⟩,
   fun c hc hn => ⟨(h.unborn c hc hn).inl_lt, (h.unborn c hc hn).len, (h.unborn c hc hn).raws⟩, h.nmaxU, h.inlsep⟩

/-- copy construction inside a system: the sources are the live elements of a constructed container, apart from the new
    container's storage -/
theorem ctorCopy_srcs {cfg : Cfg} {w : World α} {U A : List Nat} {c o : Nat} (hs : SysAll cfg w U A)
    (hcU : c ∈ U) (hcA : c ∉ A) (ho : o ∈ A) :
    CtorSrcs cfg w c (srcsCopy (w.hdr o).data 0 (w.hdr o).size) ∧ (w.hdr o).size ≤ cfg.maxSize := by
  have hvo := hs.ok.vec o ho
  have hl := hs.ok.led
  have hu := hs.unborn c hcU hcA
  have hoc : o ≠ c := fun h => hcA (h ▸ ho)
  have hsz : (w.hdr o).size ≤ cfg.maxSize := Nat.le_trans hvo.size_le (hvo.cap_le_max (hs.ok.nmax o ho))
  refine ⟨⟨fun s hs' => ?_, fun s hs' b i hl' => ?_, fun s hs' b i hl' => ?_⟩, hsz⟩
  · obtain ⟨k, _, rfl⟩ := mem_srcsCopy hs'; rfl
  · obtain ⟨k, hk, rfl⟩ := mem_srcsCopy hs'
    simp [Src.loc] at hl'
    obtain ⟨h1, h2⟩ := hl'
    subst h1; subst h2
    have := hvo.objs k hk
    unfold IsObj at this
    simpa using this
  · obtain ⟨k, hk, rfl⟩ := mem_srcsCopy hs'
    simp [Src.loc] at hl'
    rw [← hl'.1]
    refine ⟨?_, hvo.data_lt_next hl⟩
    -- the source buffer is not the new container's in-object buffer
    intro heq
    by_cases hne : (w.hdr o).data = (w.hdr o).inl
    · rcases hs.inlsep o (hs.sub o ho) c hcU hoc with h | ⟨hN, _⟩
      · exact h (hne.symm.trans heq)
      · -- inline capacity 0 and in the in-object buffer: size is 0, there is no source
        have hcap : (w.hdr o).cap = (w.hdr o).N := (hvo.inl_iff).mpr hne
        have := hvo.size_le
        omega
    · have := (hvo.data_odd hl hne).1
      have := hu.inl_lt
      omega

/-- ONE CALL of the system language keeps the system invariant, whatever the fault list -/
theorem step_sys (cfg : Cfg) (U : List Nat) (hpol : StrongPolicy cfg) (s : St α) (x : MOp α × List Nat)
    (hs : SysAll cfg s.w U s.A) (hv : x.1.valid cfg U s) : SysAll cfg (step cfg s x).w U (step cfg s x).A := by
  obtain ⟨op, f⟩ := x
  have hs0 := sysAll_faults hs f
  generalize hw0 : ({ s.w with faults := f } : World α) = w0 at hs0
  have hh0 : w0.hdr = s.w.hdr := by subst hw0; rfl
  unfold step
  simp only [hw0]
  cases op with
  | ctorVals c a vs =>
    obtain ⟨hcU, hcA⟩ := hv
    have hext : External (vs.map (Src.ext (α := α))) := fun s hs => by obtain ⟨x, _, rfl⟩ := List.mem_map.mp hs; rfl
    have h := SysAll.ctorFill hs0 hcU hcA a true (vs.map Src.ext) (fun h => by cases h) (ctorSrcs_ext cfg w0 c _ hext)
    cases hr : ctorFill cfg c a true (vs.map Src.ext) w0 with
    | ok r w' => rw [hr] at h; simp only [MOp.run, hr]; exact h.1
    | thrown e w' => rw [hr] at h; simp only [MOp.run, hr]; exact h.1
  | ctorCount c a n d =>
    obtain ⟨hcU, hcA⟩ := hv
    have hext : External (List.replicate n (Src.value d)) := fun s hs => by rw [List.eq_of_mem_replicate hs]; rfl
    have h := SysAll.ctorFill hs0 hcU hcA a true (List.replicate n (.value d)) (fun h => by cases h) (ctorSrcs_ext cfg w0 c _ hext)
    cases hr : ctorFill cfg c a true (List.replicate n (.value d)) w0 with
    | ok r w' => rw [hr] at h; simp only [MOp.run, hr]; exact h.1
    | thrown e w' => rw [hr] at h; simp only [MOp.run, hr]; exact h.1
  | ctorInput c a sid vs =>
    obtain ⟨hcU, hcA⟩ := hv
    have h := SysAll.ctorInput hs0 hcU hcA hpol a sid vs
    cases hr : SvModel.ctorInput cfg c a sid vs w0 with
    | ok r w' => rw [hr] at h; simp only [MOp.run, hr]; exact h.1
    | thrown e w' => rw [hr] at h; simp only [MOp.run, hr]; exact h.1
  | ctorCopy c o a =>
    obtain ⟨hcU, hcA, ho⟩ := hv
    obtain ⟨hsrc, hsz⟩ := ctorCopy_srcs hs0 hcU hcA ho
    have h := SysAll.ctorFill hs0 hcU hcA a ctorCopyChecked _ (fun _ => by simpa using hsz) hsrc
    have hrun : SvModel.ctorCopy cfg c o a w0 = ctorFill cfg c a ctorCopyChecked (srcsCopy (w0.hdr o).data 0 (w0.hdr o).size) w0 := by
      unfold SvModel.ctorCopy; rw [bind_run, getV_run]
    cases hr : ctorFill cfg c a ctorCopyChecked (srcsCopy (w0.hdr o).data 0 (w0.hdr o).size) w0 with
    | ok r w' => rw [hr] at h; simp only [MOp.run, hrun, hr]; exact h.1
    | thrown e w' => rw [hr] at h; simp only [MOp.run, hrun, hr]; exact h.1
  | dtor c =>
    have h := SysAll.dtor hs0 hv
    cases hr : SvModel.dtor cfg c w0 with
    | ok r w' => rw [hr] at h; simp only [MOp.run, hr]; exact h.1
    | thrown e w' => rw [hr] at h; exact h.elim
  | on c op =>
    obtain ⟨hc, hvalid⟩ := hv
    have hp : Pre cfg w0 c := ⟨hs0.ok.vec c hc, hs0.ok.led, hs0.ok.nmax c hc, hs0.ok.ub⟩
    obtain ⟨xs, hx⟩ := hp.vec.holds_exists
    have h := step_basic cfg c op w0 xs hp hpol hx (by rw [hh0]; exact hvalid)
    cases hr : op.run cfg c w0 w0 with
    | ok r w' => rw [hr] at h; simp only [MOp.run, hr]; exact hs0.step hc h.1
    | thrown e w' => rw [hr] at h; simp only [MOp.run, hr]; exact hs0.step hc h.1
  | copyAssign c o =>
    obtain ⟨hc, ho, hoc, hal⟩ := hv
    rw [← hh0] at hal
    by_cases hdflt : (w0.hdr o).alloc = (w0.hdr c).alloc ∨ cfg.pocca = false
    · obtain ⟨hdef, hmc⟩ := copyAssign_default cfg c o w0 hdflt
      have h := copyAssignDefault_sat cfg c o w0 (hs0.ok.vec c hc) hs0.ok.led (hs0.ok.nmax c hc) (hs0.ok.vec o ho) (hs0.ok.nmax o ho)
        (hs0.ok.foreign hc ho hoc) hmc
      cases hr : SvModel.copyAssign cfg c o w0 with
      | ok r w' => rw [← hdef, hr] at h; simp only [MOp.run, hr]; exact hs0.step hc h.basic
      | thrown e w' => rw [← hdef, hr] at h; simp only [MOp.run, hr]; exact hs0.step hc h.1.1
    · have hprop : copyAssignPropagating cfg.policy = true := by
        rcases hal with h | h | h
        · exact absurd (Or.inl h) hdflt
        · exact absurd (Or.inr h) hdflt
        · exact h
      have hneq : (w0.hdr o).alloc ≠ (w0.hdr c).alloc := fun h => hdflt (Or.inl h)
      have h := copyAssignProp_sat cfg c o w0 (hs0.ok.vec c hc) hs0.ok.led (hs0.ok.nmax c hc) (hs0.ok.vec o ho) (hs0.ok.nmax o ho)
        (hs0.ok.foreign hc ho hoc) hprop hneq
      cases hr : SvModel.copyAssign cfg c o w0 with
      | ok r w' => rw [hr] at h; simp only [MOp.run, hr]; exact hs0.step hc h.1
      | thrown e w' => rw [hr] at h; simp only [MOp.run, hr]; exact hs0.step hc h
  | swap c o =>
    obtain ⟨hc, ho, hco, hN, hnull, hal⟩ := hv
    rw [← hh0] at hN hnull
    have hal0 : allocationsAreSwappable cfg.policy = true → SwapAllocOK cfg w0 c o := by
      intro h; have := hal h; unfold SwapAllocOK at this ⊢; rw [hh0]; exact this
    have h := SysAll.swapAny hs0 hc ho hco hN hnull hal0
    cases hr : SvModel.swap cfg c o w0 with
    | ok r w' => rw [hr] at h; simp only [MOp.run, hr]; exact h.1
    | thrown e w' => rw [hr] at h; simp only [MOp.run, hr]; exact h.2.1
  | ctorMove c o =>
    obtain ⟨hcU, hcA, ho, hnull⟩ := hv
    rw [← hh0] at hnull
    have h := SysAll.ctorMove hs0 hcU hcA ho hnull
    cases hr : SvModel.ctorMove cfg c o w0 with
    | ok r w' => rw [hr] at h; simp only [MOp.run, hr]; exact h.1
    | thrown e w' => rw [hr] at h; simp only [MOp.run, hr]; exact h.1
  | ctorMoveAlloc c o a =>
    obtain ⟨hcU, hcA, ho, hnull⟩ := hv
    rw [← hh0] at hnull
    have h := SysAll.ctorMoveAlloc hs0 hcU hcA ho a hnull
    cases hr : SvModel.ctorMoveAlloc cfg c o a w0 with
    | ok r w' => rw [hr] at h; simp only [MOp.run, hr]; exact h.1
    | thrown e w' => rw [hr] at h; simp only [MOp.run, hr]; exact h.1
  | moveAssign c o =>
    obtain ⟨hc, ho, hco, hnull, hal⟩ := hv
    rw [← hh0] at hnull hal
    have h := SysAll.moveAssign hs0 hc ho hco hnull hal
    cases hr : SvModel.moveAssign cfg c o w0 with
    | ok r w' => rw [hr] at h; simp only [MOp.run, hr]; exact h.1
    | thrown e w' => rw [hr] at h; simp only [MOp.run, hr]; exact h.1
  | append c o =>
    obtain ⟨hc, ho, hoc⟩ := hv
    have h := SysAll.appendOther hs0 hc ho hoc hpol
    cases hr : SvModel.appendOther cfg c o w0 with
    | ok r w' => rw [hr] at h; simp only [MOp.run, hr]; exact h.1
    | thrown e w' =>
      rw [hr] at h; simp only [MOp.run, hr]
      exact hs0.step hc (Strong.basic h hs0.ok.led (hs0.ok.vec c hc))
  | appendMove c o =>
    obtain ⟨hc, ho, hoc⟩ := hv
    have h := SysAll.appendOtherMove hs0 hc ho hoc hpol
    cases hr : SvModel.appendOtherMove cfg c o w0 with
    | ok r w' => rw [hr] at h; simp only [MOp.run, hr]; exact h.1
    | thrown e w' => rw [hr] at h; simp only [MOp.run, hr]; exact h.2.1

/-- C02 / C03 / C04 / C06 over histories of several interacting containers -/
theorem reachable_sys (cfg : Cfg) (U : List Nat) (hpol : StrongPolicy cfg) :
    ∀ (h : List (MOp α × List Nat)) (s : St α), SysAll cfg s.w U s.A → ValidHist cfg U s h →
      SysAll cfg (run cfg s h).w U (run cfg s h).A
  | [], _, hs, _ => hs
  | x :: h, s, hs, hv => reachable_sys cfg U hpol h (step cfg s x) (step_sys cfg U hpol s x hs hv.1) hv.2

/-- what `SysAll` says at any quiescent point, spelled out against the property texts -/
theorem sys_clauses {cfg : Cfg} {w : World α} {U A : List Nat} (h : SysAll cfg w U A) :
    (∀ c ∈ A, VecOK cfg w c) ∧                                                    -- C02 for every constructed container
    (∀ b ∈ w.live, ∃ c ∈ A, (w.hdr c).data = b ∧ (w.hdr c).data ≠ (w.hdr c).inl) ∧  -- C04: live blocks = buffers of non-inlined containers
    (∀ c ∈ A, (w.hdr c).data ≠ (w.hdr c).inl → (w.hdr c).data ∈ w.live) ∧
    (∀ c ∈ A, ∀ d ∈ A, c ≠ d → (w.hdr c).data ≠ (w.hdr c).inl → (w.hdr c).data ≠ (w.hdr d).data) ∧   -- no block owned twice
    (∀ c ∈ U, c ∉ A → ∀ i, i < (w.hdr c).N → IsRaw w (w.hdr c).inl i) ∧            -- C03: nothing alive in unborn storage
    w.ub = [] := by
  refine ⟨h.ok.vec, ?_, fun c hc hne => ((h.ok.vec c hc).heap hne).1, fun c hc d hd hcd => (h.ok.sep c hc d hd hcd).data,
          fun c hc hn => (h.unborn c hc hn).raws, h.ok.ub⟩
  intro b hb
  obtain ⟨c, hc, hcd⟩ := h.ok.noleak b hb
  refine ⟨c, hc, hcd, ?_⟩
  have := (h.ok.led.live_ok b hb).1
  have := (h.ok.vec c hc).inl_lt
  omega

/-- C07, storage side: in every system state each heap buffer was obtained from (an allocator equal to) the allocator
    its container holds NOW — so the deallocation that `wipe`/the destructor will perform goes to the right allocator,
    whatever sequence of propagating / non-propagating assignments, moves and swaps led here -/
theorem sys_alloc_clause {cfg : Cfg} {w : World α} {U A : List Nat} (h : SysAll cfg w U A) :
    ∀ c ∈ A, (w.hdr c).data ≠ (w.hdr c).inl → w.owner (w.hdr c).data = (w.hdr c).alloc :=
  fun c hc hne => ((h.ok.vec c hc).heap hne).2

/-! ### contents: every constructed container follows the L0 (`std::vector`) meaning of the calls (C01 over several
    containers), and a call on one container changes no other (frame) -/

/-- `σ c` = the values container `c` holds -/
def Tracks (s : St α) (σ : Nat → List (Val α)) : Prop := ∀ c ∈ s.A, Holds s.w c (σ c)

/-- the containers a call writes to -/
def MOp.targets : MOp α → List Nat
  | .ctorVals c _ _ | .ctorCount c _ _ _ | .ctorInput c _ _ _ | .ctorCopy c _ _ | .dtor c | .on c _ | .copyAssign c _ | .append c _ => [c]
  | .swap c o | .ctorMove c o | .ctorMoveAlloc c o _ | .moveAssign c o | .appendMove c o => [c, o]

/-- the containers whose contents after a returning call the standard leaves unspecified ("valid but unspecified"):
    the source of an element-wise move -/
def MOp.unspecified : MOp α → List Nat
  | .ctorMove _ o | .ctorMoveAlloc _ o _ | .moveAssign _ o => [o]
  | _ => []

/-- what std::vector does, for a call that returns -/
def MOp.spec (σ : Nat → List (Val α)) : MOp α → Nat → List (Val α)
  | .ctorVals c _ vs => upd σ c (vs.map Val.val)
  | .ctorCount c _ n d => upd σ c (List.replicate n (.val d))
  | .ctorInput c _ _ vs => upd σ c (vs.map Val.val)
  | .ctorCopy c o _ => upd σ c (σ o)
  | .dtor _ => σ
  | .on c op => upd σ c (op.spec (σ c))
  | .copyAssign c o => upd σ c (σ o)
  | .swap c o => upd (upd σ c (σ o)) o (σ c)
  | .ctorMove c o | .ctorMoveAlloc c o _ | .moveAssign c o => upd σ c (σ o)          -- the source: see `MOp.unspecified`
  | .append c o => upd σ c (σ c ++ σ o)
  | .appendMove c o => upd (upd σ c (σ c ++ σ o)) o []                               -- the source is cleared

/-- did the call return? -/
def returned (cfg : Cfg) (s : St α) (x : MOp α × List Nat) : Bool :=
  match x.1.run cfg { s.w with faults := x.2 } { s.w with faults := x.2 } with
  | .ok _ _ => true
  | .thrown _ _ => false

/-- ONE CALL, contents: if it returns, every container holds what L0 says (the target changes, nobody else does);
    if it throws, every container other than the target still holds what it held, and the target holds SOME list
    (its own old one for the strong calls — History.step_basic) -/
theorem step_tracks (cfg : Cfg) (U : List Nat) (hpol : StrongPolicy cfg) (s : St α) (x : MOp α × List Nat) (σ : Nat → List (Val α))
    (hs : SysAll cfg s.w U s.A) (hv : x.1.valid cfg U s) (ht : Tracks s σ) :
    (returned cfg s x = true → ∃ σ', (∀ d, d ∉ x.1.unspecified → σ' d = x.1.spec σ d) ∧ Tracks (step cfg s x) σ') ∧
    (returned cfg s x = false → ∃ σ', Tracks (step cfg s x) σ' ∧ ∀ d, d ∉ x.1.targets → σ' d = σ d) := by
  obtain ⟨op, f⟩ := x
  have hs0 := sysAll_faults hs f
  have ht0 : ∀ c ∈ s.A, Holds ({ s.w with faults := f } : World α) c (σ c) := fun c hc => holds_faults (ht c hc) f
  generalize hw0 : ({ s.w with faults := f } : World α) = w0 at hs0 ht0
  have hh0 : w0.hdr = s.w.hdr := by subst hw0; rfl
  unfold returned step Tracks
  simp only [hw0]
  -- a container whose header and buffer contents are unchanged holds the same values
  have keep : ∀ {w' : World α} {d : Nat} {xs : List (Val α)}, Holds w0 d xs → w'.hdr d = w0.hdr d →
      w'.mem (w0.hdr d).data = w0.mem (w0.hdr d).data → Holds w' d xs :=
    fun hx hh hm => ⟨by rw [hh]; exact hx.1, fun i hi => by rw [hh, hm]; exact hx.2 i hi⟩
  cases op with
  | ctorVals c a vs =>
    obtain ⟨hcU, hcA⟩ := hv
    have hext : External (vs.map (Src.ext (α := α))) := fun s hs => by obtain ⟨x, _, rfl⟩ := List.mem_map.mp hs; rfl
    have h := SysAll.ctorFill hs0 hcU hcA a true (vs.map Src.ext) (fun h => by cases h) (ctorSrcs_ext cfg w0 c _ hext)
    have hm : (vs.map Src.ext).map (srcVal w0) = vs.map Val.val := by simp [srcVal, Function.comp_def]
    cases hr : ctorFill cfg c a true (vs.map Src.ext) w0 with
    | ok r w' =>
      rw [hr] at h; simp only [MOp.run, hr]
      refine ⟨fun _ => ⟨_, fun _ _ => rfl, fun d hd => ?_⟩, fun h' => by cases h'⟩
      rcases List.mem_cons.mp hd with hdc | hd'
      · rw [hdc]; simp only [MOp.spec, upd_same]; rw [← hm]; exact h.2.1
      · have hne : d ≠ c := fun e => hcA (e ▸ hd')
        simp only [MOp.spec, upd_other _ _ _ _ hne]
        exact keep (ht0 d hd') (h.2.2.2 d hd').1 (h.2.2.2 d hd').2
    | thrown e w' =>
      rw [hr] at h; simp only [MOp.run, hr]
      exact ⟨(fun h' => by cases h'), fun _ => ⟨σ, fun d hd => keep (ht0 d hd) (h.2.2 d hd).1 (h.2.2 d hd).2, fun _ _ => rfl⟩⟩
  | ctorCount c a n d =>
    obtain ⟨hcU, hcA⟩ := hv
    have hext : External (List.replicate n (Src.value d)) := fun s hs => by rw [List.eq_of_mem_replicate hs]; rfl
    have h := SysAll.ctorFill hs0 hcU hcA a true (List.replicate n (.value d)) (fun h => by cases h) (ctorSrcs_ext cfg w0 c _ hext)
    have hm : (List.replicate n (Src.value d)).map (srcVal w0) = List.replicate n (Val.val d) := by simp [srcVal]
    cases hr : ctorFill cfg c a true (List.replicate n (.value d)) w0 with
    | ok r w' =>
      rw [hr] at h; simp only [MOp.run, hr]
      refine ⟨fun _ => ⟨_, fun _ _ => rfl, fun d' hd => ?_⟩, fun h' => by cases h'⟩
      rcases List.mem_cons.mp hd with hdc | hd'
      · rw [hdc]; simp only [MOp.spec, upd_same]; rw [← hm]; exact h.2.1
      · have hne : d' ≠ c := fun e => hcA (e ▸ hd')
        simp only [MOp.spec, upd_other _ _ _ _ hne]
        exact keep (ht0 d' hd') (h.2.2.2 d' hd').1 (h.2.2.2 d' hd').2
    | thrown e w' =>
      rw [hr] at h; simp only [MOp.run, hr]
      exact ⟨(fun h' => by cases h'), fun _ => ⟨σ, fun d' hd => keep (ht0 d' hd) (h.2.2 d' hd).1 (h.2.2 d' hd).2, fun _ _ => rfl⟩⟩
  | ctorInput c a sid vs =>
    obtain ⟨hcU, hcA⟩ := hv
    have h := SysAll.ctorInput hs0 hcU hcA hpol a sid vs
    cases hr : SvModel.ctorInput cfg c a sid vs w0 with
    | ok r w' =>
      rw [hr] at h; simp only [MOp.run, hr]
      refine ⟨fun _ => ⟨_, fun _ _ => rfl, fun d hd => ?_⟩, fun h' => by cases h'⟩
      rcases List.mem_cons.mp hd with hdc | hd'
      · rw [hdc]; simp only [MOp.spec, upd_same]; exact h.2.1
      · have hne : d ≠ c := fun e => hcA (e ▸ hd')
        simp only [MOp.spec, upd_other _ _ _ _ hne]
        exact keep (ht0 d hd') (h.2.2 d hd').1 (h.2.2 d hd').2
    | thrown e w' =>
      rw [hr] at h; simp only [MOp.run, hr]
      exact ⟨(fun h' => by cases h'), fun _ => ⟨σ, fun d hd => keep (ht0 d hd) (h.2 d hd).1 (h.2 d hd).2, fun _ _ => rfl⟩⟩
  | ctorCopy c o a =>
    obtain ⟨hcU, hcA, ho⟩ := hv
    obtain ⟨hsrc, hsz⟩ := ctorCopy_srcs hs0 hcU hcA ho
    have h := SysAll.ctorFill hs0 hcU hcA a ctorCopyChecked _ (fun _ => by simpa using hsz) hsrc
    have hrun : SvModel.ctorCopy cfg c o a w0 = ctorFill cfg c a ctorCopyChecked (srcsCopy (w0.hdr o).data 0 (w0.hdr o).size) w0 := by
      unfold SvModel.ctorCopy; rw [bind_run, getV_run]
    cases hr : ctorFill cfg c a ctorCopyChecked (srcsCopy (w0.hdr o).data 0 (w0.hdr o).size) w0 with
    | ok r w' =>
      rw [hr] at h; simp only [MOp.run, hrun, hr]
      refine ⟨fun _ => ⟨_, fun _ _ => rfl, fun d hd => ?_⟩, fun h' => by cases h'⟩
      rcases List.mem_cons.mp hd with hdc | hd'
      · rw [hdc]; simp only [MOp.spec, upd_same]; rw [← srcsCopy_vals (ht0 o ho)]; exact h.2.1
      · have hne : d ≠ c := fun e => hcA (e ▸ hd')
        simp only [MOp.spec, upd_other _ _ _ _ hne]
        exact keep (ht0 d hd') (h.2.2.2 d hd').1 (h.2.2.2 d hd').2
    | thrown e w' =>
      rw [hr] at h; simp only [MOp.run, hrun, hr]
      exact ⟨(fun h' => by cases h'), fun _ => ⟨σ, fun d hd => keep (ht0 d hd) (h.2.2 d hd).1 (h.2.2 d hd).2, fun _ _ => rfl⟩⟩
  | dtor c =>
    have h := SysAll.dtor hs0 hv
    cases hr : SvModel.dtor cfg c w0 with
    | ok r w' =>
      rw [hr] at h; simp only [MOp.run, hr]
      refine ⟨fun _ => ⟨_, fun _ _ => rfl, fun d hd => ?_⟩, fun h' => by cases h'⟩
      have hd' := List.mem_filter.mp hd
      have hne : d ≠ c := by simpa using hd'.2
      exact keep (ht0 d hd'.1) (by rw [h.2.1]) (h.2.2 d hd'.1 hne)
    | thrown e w' => rw [hr] at h; exact h.elim
  | on c op =>
    obtain ⟨hc, hvalid⟩ := hv
    have hp : Pre cfg w0 c := ⟨hs0.ok.vec c hc, hs0.ok.led, hs0.ok.nmax c hc, hs0.ok.ub⟩
    have h := step_basic cfg c op w0 (σ c) hp hpol (ht0 c hc) (by rw [hh0]; exact hvalid)
    cases hr : op.run cfg c w0 w0 with
    | ok r w' =>
      rw [hr] at h; simp only [MOp.run, hr]
      refine ⟨fun _ => ⟨_, fun _ _ => rfl, fun d hd => ?_⟩, fun h' => by cases h'⟩
      by_cases hdc : d = c
      · rw [hdc]; simp only [MOp.spec, upd_same]; exact h.2
      · simp only [MOp.spec, upd_other _ _ _ _ hdc]; exact hs0.ok.holds_other hc h.1 hd hdc (ht0 d hd)
    | thrown e w' =>
      rw [hr] at h; simp only [MOp.run, hr]
      refine ⟨(fun h' => by cases h'), fun _ => ?_⟩
      obtain ⟨ys, hy⟩ := h.1.vec.holds_exists
      refine ⟨upd σ c ys, fun d hd => ?_, fun d hd => upd_other _ _ _ _ (by simpa [MOp.targets] using hd)⟩
      by_cases hdc : d = c
      · rw [hdc, upd_same]; exact hy
      · rw [upd_other _ _ _ _ hdc]; exact hs0.ok.holds_other hc h.1 hd hdc (ht0 d hd)
  | copyAssign c o =>
    obtain ⟨hc, ho, hoc, hal⟩ := hv
    rw [← hh0] at hal
    -- both families of paths give: Basic in both outcomes, the source's values on return
    have key : (SvModel.copyAssign cfg c o w0).sat
        (fun _ w' => Basic cfg w0 w' c ∧ Holds w' c ((srcsCopy (w0.hdr o).data 0 (w0.hdr o).size).map (srcVal w0)))
        (fun _ w' => Basic cfg w0 w' c) := by
      by_cases hdflt : (w0.hdr o).alloc = (w0.hdr c).alloc ∨ cfg.pocca = false
      · obtain ⟨hdef, hmc⟩ := copyAssign_default cfg c o w0 hdflt
        have h := copyAssignDefault_sat cfg c o w0 (hs0.ok.vec c hc) hs0.ok.led (hs0.ok.nmax c hc) (hs0.ok.vec o ho) (hs0.ok.nmax o ho)
          (hs0.ok.foreign hc ho hoc) hmc
        rw [hdef]
        exact Res.sat_mono h (fun _ _ h => ⟨h.basic, h.holds⟩) (fun _ _ h => h.1.1)
      · have hprop : copyAssignPropagating cfg.policy = true := by
          rcases hal with h | h | h
          · exact absurd (Or.inl h) hdflt
          · exact absurd (Or.inr h) hdflt
          · exact h
        have hneq : (w0.hdr o).alloc ≠ (w0.hdr c).alloc := fun h => hdflt (Or.inl h)
        have h := copyAssignProp_sat cfg c o w0 (hs0.ok.vec c hc) hs0.ok.led (hs0.ok.nmax c hc) (hs0.ok.vec o ho) (hs0.ok.nmax o ho)
          (hs0.ok.foreign hc ho hoc) hprop hneq
        exact Res.sat_mono h (fun _ _ h => ⟨h.1, h.2.1⟩) (fun _ _ h => h)
    cases hr : SvModel.copyAssign cfg c o w0 with
    | ok r w' =>
      rw [hr] at key; simp only [MOp.run, hr]
      refine ⟨fun _ => ⟨_, fun _ _ => rfl, fun d hd => ?_⟩, fun h' => by cases h'⟩
      by_cases hdc : d = c
      · rw [hdc]; simp only [MOp.spec, upd_same]; rw [← srcsCopy_vals (ht0 o ho)]; exact key.2
      · simp only [MOp.spec, upd_other _ _ _ _ hdc]; exact hs0.ok.holds_other hc key.1 hd hdc (ht0 d hd)
    | thrown e w' =>
      rw [hr] at key; simp only [MOp.run, hr]
      refine ⟨(fun h' => by cases h'), fun _ => ?_⟩
      obtain ⟨ys, hy⟩ := key.vec.holds_exists
      refine ⟨upd σ c ys, fun d hd => ?_, fun d hd => upd_other _ _ _ _ (by simpa [MOp.targets] using hd)⟩
      by_cases hdc : d = c
      · rw [hdc, upd_same]; exact hy
      · rw [upd_other _ _ _ _ hdc]; exact hs0.ok.holds_other hc key hd hdc (ht0 d hd)
  | swap c o =>
    obtain ⟨hc, ho, hco, hN, hnull, hal⟩ := hv
    have hoc : o ≠ c := fun e => hco e.symm
    rw [← hh0] at hN hnull
    have hal0 : allocationsAreSwappable cfg.policy = true → SwapAllocOK cfg w0 c o := by
      intro h; have := hal h; unfold SwapAllocOK at this ⊢; rw [hh0]; exact this
    have h := SysAll.swapAny hs0 hc ho hco hN hnull hal0
    cases hr : SvModel.swap cfg c o w0 with
    | ok r w' =>
      rw [hr] at h; simp only [MOp.run, hr]
      refine ⟨fun _ => ⟨_, fun _ _ => rfl, fun d hd => ?_⟩, fun h' => by cases h'⟩
      by_cases hdo : d = o
      · rw [hdo]; simp only [MOp.spec, upd_same]; exact h.2.2.1 _ (ht0 c hc)
      · by_cases hdc : d = c
        · rw [hdc]; simp only [MOp.spec, upd_other _ _ _ _ hco, upd_same]; exact h.2.1 _ (ht0 o ho)
        · simp only [MOp.spec, upd_other _ _ _ _ hdo, upd_other _ _ _ _ hdc]; exact h.2.2.2 d hd hdc hdo _ (ht0 d hd)
    | thrown e w' =>
      rw [hr] at h; simp only [MOp.run, hr]
      refine ⟨(fun h' => by cases h'), fun _ => ?_⟩
      obtain ⟨_, _, ⟨ys, hy⟩, ⟨zs, hz⟩, hoth, _⟩ := h
      refine ⟨upd (upd σ c ys) o zs, fun d hd => ?_, fun d hd => ?_⟩
      · by_cases hdo : d = o
        · rw [hdo, upd_same]; exact hz
        · by_cases hdc : d = c
          · rw [hdc, upd_other _ _ _ _ hco, upd_same]; exact hy
          · rw [upd_other _ _ _ _ hdo, upd_other _ _ _ _ hdc]; exact hoth d hd hdc hdo _ (ht0 d hd)
      · have : d ≠ c ∧ d ≠ o := by simpa [MOp.targets] using hd
        rw [upd_other _ _ _ _ this.2, upd_other _ _ _ _ this.1]
  | ctorMove c o =>
    obtain ⟨hcU, hcA, ho, hnull⟩ := hv
    have hco : c ≠ o := fun e => hcA (e ▸ ho)
    rw [← hh0] at hnull
    have h := SysAll.ctorMove hs0 hcU hcA ho hnull
    cases hr : SvModel.ctorMove cfg c o w0 with
    | ok r w' =>
      rw [hr] at h; simp only [MOp.run, hr]
      obtain ⟨_, hc', ⟨ys, hy⟩, hoth⟩ := h
      refine ⟨fun _ => ⟨upd (upd σ c (σ o)) o ys, fun d hd => ?_, fun d hd => ?_⟩, fun h' => by cases h'⟩
      · have : d ≠ o := by simpa [MOp.unspecified] using hd
        simp only [MOp.spec]; rw [upd_other _ _ _ _ this]
      · by_cases hdo : d = o
        · rw [hdo, upd_same]; exact hy
        · rw [upd_other _ _ _ _ hdo]
          rcases List.mem_cons.mp hd with hdc | hd'
          · rw [hdc, upd_same]; exact hc' _ (ht0 o ho)
          · have hdc : d ≠ c := fun e => hcA (e ▸ hd')
            rw [upd_other _ _ _ _ hdc]; exact hoth d hd' hdo _ (ht0 d hd')
    | thrown e w' =>
      rw [hr] at h; simp only [MOp.run, hr]
      obtain ⟨_, _, ⟨ys, hy⟩, hoth⟩ := h
      refine ⟨(fun h' => by cases h'), fun _ => ⟨upd σ o ys, fun d hd => ?_, fun d hd => ?_⟩⟩
      · by_cases hdo : d = o
        · rw [hdo, upd_same]; exact hy
        · rw [upd_other _ _ _ _ hdo]; exact hoth d hd hdo _ (ht0 d hd)
      · have : d ≠ c ∧ d ≠ o := by simpa [MOp.targets] using hd
        rw [upd_other _ _ _ _ this.2]
  | ctorMoveAlloc c o a =>
    obtain ⟨hcU, hcA, ho, hnull⟩ := hv
    have hco : c ≠ o := fun e => hcA (e ▸ ho)
    rw [← hh0] at hnull
    have h := SysAll.ctorMoveAlloc hs0 hcU hcA ho a hnull
    cases hr : SvModel.ctorMoveAlloc cfg c o a w0 with
    | ok r w' =>
      rw [hr] at h; simp only [MOp.run, hr]
      obtain ⟨_, hc', ⟨ys, hy⟩, hoth⟩ := h
      refine ⟨fun _ => ⟨upd (upd σ c (σ o)) o ys, fun d hd => ?_, fun d hd => ?_⟩, fun h' => by cases h'⟩
      · have : d ≠ o := by simpa [MOp.unspecified] using hd
        simp only [MOp.spec]; rw [upd_other _ _ _ _ this]
      · by_cases hdo : d = o
        · rw [hdo, upd_same]; exact hy
        · rw [upd_other _ _ _ _ hdo]
          rcases List.mem_cons.mp hd with hdc | hd'
          · rw [hdc, upd_same]; exact hc' _ (ht0 o ho)
          · have hdc : d ≠ c := fun e => hcA (e ▸ hd')
            rw [upd_other _ _ _ _ hdc]; exact hoth d hd' hdo _ (ht0 d hd')
    | thrown e w' =>
      rw [hr] at h; simp only [MOp.run, hr]
      obtain ⟨_, _, ⟨ys, hy⟩, hoth⟩ := h
      refine ⟨(fun h' => by cases h'), fun _ => ⟨upd σ o ys, fun d hd => ?_, fun d hd => ?_⟩⟩
      · by_cases hdo : d = o
        · rw [hdo, upd_same]; exact hy
        · rw [upd_other _ _ _ _ hdo]; exact hoth d hd hdo _ (ht0 d hd)
      · have : d ≠ c ∧ d ≠ o := by simpa [MOp.targets] using hd
        rw [upd_other _ _ _ _ this.2]
  | moveAssign c o =>
    obtain ⟨hc, ho, hco, hnull, hal⟩ := hv
    have hoc : o ≠ c := fun e => hco e.symm
    rw [← hh0] at hnull hal
    have h := SysAll.moveAssign hs0 hc ho hco hnull hal
    cases hr : SvModel.moveAssign cfg c o w0 with
    | ok r w' =>
      rw [hr] at h; simp only [MOp.run, hr]
      obtain ⟨_, hc', ⟨ys, hy⟩, hoth⟩ := h
      refine ⟨fun _ => ⟨upd (upd σ c (σ o)) o ys, fun d hd => ?_, fun d hd => ?_⟩, fun h' => by cases h'⟩
      · have : d ≠ o := by simpa [MOp.unspecified] using hd
        simp only [MOp.spec]; rw [upd_other _ _ _ _ this]
      · by_cases hdo : d = o
        · rw [hdo, upd_same]; exact hy
        · rw [upd_other _ _ _ _ hdo]
          by_cases hdc : d = c
          · rw [hdc, upd_same]; exact hc' _ (ht0 o ho)
          · rw [upd_other _ _ _ _ hdc]; exact hoth d hd hdc hdo _ (ht0 d hd)
    | thrown e w' =>
      rw [hr] at h; simp only [MOp.run, hr]
      obtain ⟨_, ⟨zs, hz⟩, ⟨ys, hy⟩, hoth⟩ := h
      refine ⟨(fun h' => by cases h'), fun _ => ⟨upd (upd σ c zs) o ys, fun d hd => ?_, fun d hd => ?_⟩⟩
      · by_cases hdo : d = o
        · rw [hdo, upd_same]; exact hy
        · rw [upd_other _ _ _ _ hdo]
          by_cases hdc : d = c
          · rw [hdc, upd_same]; exact hz
          · rw [upd_other _ _ _ _ hdc]; exact hoth d hd hdc hdo _ (ht0 d hd)
      · have : d ≠ c ∧ d ≠ o := by simpa [MOp.targets] using hd
        rw [upd_other _ _ _ _ this.2, upd_other _ _ _ _ this.1]
  | append c o =>
    obtain ⟨hc, ho, hoc⟩ := hv
    have h := SysAll.appendOther hs0 hc ho hoc hpol
    cases hr : SvModel.appendOther cfg c o w0 with
    | ok r w' =>
      rw [hr] at h; simp only [MOp.run, hr]
      refine ⟨fun _ => ⟨_, fun _ _ => rfl, fun d hd => ?_⟩, fun h' => by cases h'⟩
      by_cases hdc : d = c
      · rw [hdc]; simp only [MOp.spec, upd_same]; exact h.2.1 _ _ (ht0 c hc) (ht0 o ho)
      · simp only [MOp.spec, upd_other _ _ _ _ hdc]; exact h.2.2 d hd hdc _ (ht0 d hd)
    | thrown e w' =>
      rw [hr] at h; simp only [MOp.run, hr]
      exact ⟨(fun h' => by cases h'), fun _ => ⟨σ, fun d hd => Strong.holds h hs0.ok.led (hs0.ok.vec d hd) (ht0 d hd), fun _ _ => rfl⟩⟩
  | appendMove c o =>
    obtain ⟨hc, ho, hoc⟩ := hv
    have hco : c ≠ o := fun e => hoc e.symm
    have h := SysAll.appendOtherMove hs0 hc ho hoc hpol
    cases hr : SvModel.appendOtherMove cfg c o w0 with
    | ok r w' =>
      rw [hr] at h; simp only [MOp.run, hr]
      refine ⟨fun _ => ⟨_, fun _ _ => rfl, fun d hd => ?_⟩, fun h' => by cases h'⟩
      by_cases hdo : d = o
      · rw [hdo]; simp only [MOp.spec, upd_same]; exact h.2.2.1
      · by_cases hdc : d = c
        · rw [hdc]; simp only [MOp.spec, upd_other _ _ _ _ hco, upd_same]; exact h.2.1 _ _ (ht0 c hc) (ht0 o ho)
        · simp only [MOp.spec, upd_other _ _ _ _ hdo, upd_other _ _ _ _ hdc]; exact h.2.2.2 d hd hdc hdo _ (ht0 d hd)
    | thrown e w' =>
      rw [hr] at h; simp only [MOp.run, hr]
      obtain ⟨_, hsys, _, _, hoth⟩ := h
      obtain ⟨zs, hz⟩ := (hsys.ok.vec c hc).holds_exists
      obtain ⟨ys, hy⟩ := (hsys.ok.vec o ho).holds_exists
      refine ⟨(fun h' => by cases h'), fun _ => ⟨upd (upd σ c zs) o ys, fun d hd => ?_, fun d hd => ?_⟩⟩
      · by_cases hdo : d = o
        · rw [hdo, upd_same]; exact hy
        · rw [upd_other _ _ _ _ hdo]
          by_cases hdc : d = c
          · rw [hdc, upd_same]; exact hz
          · rw [upd_other _ _ _ _ hdc]; exact hoth d hd hdc hdo _ (ht0 d hd)
      · have : d ≠ c ∧ d ≠ o := by simpa [MOp.targets] using hd
        rw [upd_other _ _ _ _ this.2, upd_other _ _ _ _ this.1]

/-- the std::vector side of a history in which every call returned -/
def specAll : List (MOp α) → (Nat → List (Val α)) → Nat → List (Val α)
  | [], σ => σ
  | op :: h, σ => specAll h (op.spec σ)

def AllReturned (cfg : Cfg) : St α → List (MOp α × List Nat) → Prop
  | _, [] => True
  | s, x :: h => returned cfg s x = true ∧ AllReturned cfg (step cfg s x) h

/-- a history of L0 calls relates the contents before to the contents after; where the standard leaves a container's
    contents unspecified (the source of a move) any list is allowed -/
def SpecRun : List (MOp α) → (Nat → List (Val α)) → (Nat → List (Val α)) → Prop
  | [], σ, σ' => σ' = σ
  | op :: h, σ, σ' => ∃ σ1, (∀ d, d ∉ op.unspecified → σ1 d = op.spec σ d) ∧ SpecRun h σ1 σ'

/-- C01 over several containers: along a valid history whose calls all return, the constructed containers hold what
    the corresponding `std::vector`s would hold after the same calls (moved-from sources: some list of constructed
    elements, as for std::vector) -/
theorem sys_refines_rel (cfg : Cfg) (U : List Nat) (hpol : StrongPolicy cfg) :
    ∀ (h : List (MOp α × List Nat)) (s : St α) (σ : Nat → List (Val α)), SysAll cfg s.w U s.A → Tracks s σ →
      ValidHist cfg U s h → AllReturned cfg s h → ∃ σ', SpecRun (h.map (·.1)) σ σ' ∧ Tracks (run cfg s h) σ'
  | [], _, σ, _, ht, _, _ => ⟨σ, rfl, ht⟩
  | x :: h, s, σ, hs, ht, hv, ha => by
    obtain ⟨σ1, h1, ht1⟩ := (step_tracks cfg U hpol s x σ hs hv.1 ht).1 ha.1
    obtain ⟨σ', hr, ht'⟩ := sys_refines_rel cfg U hpol h (step cfg s x) σ1 (step_sys cfg U hpol s x hs hv.1) ht1 hv.2 ha.2
    exact ⟨σ', ⟨σ1, h1, hr⟩, ht'⟩

/-- … and when no call of the history leaves anything unspecified the contents are a FUNCTION of the calls -/
theorem sys_refines (cfg : Cfg) (U : List Nat) (hpol : StrongPolicy cfg) :
    ∀ (h : List (MOp α × List Nat)) (s : St α) (σ : Nat → List (Val α)), SysAll cfg s.w U s.A → Tracks s σ →
      ValidHist cfg U s h → AllReturned cfg s h → (∀ x ∈ h, x.1.unspecified = []) →
      Tracks (run cfg s h) (specAll (h.map (·.1)) σ)
  | [], _, _, _, ht, _, _, _ => ht
  | x :: h, s, σ, hs, ht, hv, ha, hd => by
    obtain ⟨σ1, h1, ht1⟩ := (step_tracks cfg U hpol s x σ hs hv.1 ht).1 ha.1
    have hx : x.1.unspecified = [] := hd x (by simp)
    have e : σ1 = x.1.spec σ := funext fun d => h1 d (by rw [hx]; simp)
    rw [e] at ht1
    exact sys_refines cfg U hpol h (step cfg s x) (x.1.spec σ) (step_sys cfg U hpol s x hs hv.1) ht1 hv.2 ha.2
      (fun y hy => hd y (by simp [hy]))

theorem init_unborn (N M c : Nat) (hc4 : c < 4) : Unborn (initWorld N M : World Int) c := by
  have hnext : (5:Nat) = heapBase := rfl
  have key : ∀ n, ((initWorld N M : World Int).hdr c).N = n →
      ((initWorld N M : World Int).hdr c).inl = (if n = 0 then nullBlk else c) →
      (initWorld N M : World Int).mem (if n = 0 then nullBlk else c) = List.replicate n .raw →
      Unborn (initWorld N M : World Int) c := by
    intro n h1 h2 h3
    refine ⟨?_, ?_, ?_⟩
    · rw [h2]; split
      · decide
      · omega
    · rw [h2, h3, h1]; simp
    · intro i hi; rw [h1] at hi; unfold IsRaw; rw [h2, h3]; simp [hi]
  by_cases h2 : c < 2
  · refine key N (by simp [initWorld, h2]) (by simp [initWorld, h2]) ?_
    by_cases hz : N = 0
    · simp [hz, initWorld, nullBlk]
    · simp [hz, initWorld, h2]
  · refine key M (by simp [initWorld, h2]) (by simp [initWorld, h2]) ?_
    by_cases hz : M = 0
    · simp [hz, initWorld, nullBlk]
    · simp [hz, initWorld, h2, hc4]

theorem init_ledger (N M : Nat) : Ledger (initWorld N M : World Int) := by
  have hn : (initWorld N M : World Int).next = 5 := rfl
  have ht : (initWorld N M : World Int).ntmp = 6 := rfl
  refine ⟨by rw [hn]; omega, by rw [ht]; omega, fun b hb => by simp [initWorld] at hb, by simp [initWorld], ?_, ?_⟩
  · intro b h1 _ _; simp only [initWorld]; rw [if_neg (by omega), if_neg (by omega)]
  · intro b h1 _
    have : (initWorld N M : World Int).ntmp = 6 := rfl
    rw [this] at h1
    simp only [initWorld]; rw [if_neg (by omega), if_neg (by omega)]

theorem init_inlsep (N M c d : Nat) (hc4 : c < 4) (hd4 : d < 4) (hcd : c ≠ d) : InlSep (initWorld N M : World Int) c d := by
  unfold InlSep
  have hc : ∀ x, ((initWorld N M : World Int).hdr x).N = (if x < 2 then N else M) ∧
      ((initWorld N M : World Int).hdr x).inl = (if (if x < 2 then N else M) = 0 then nullBlk else x) := fun x => ⟨rfl, rfl⟩
  rw [(hc c).1, (hc c).2, (hc d).1, (hc d).2]
  by_cases hzc : (if c < 2 then N else M) = 0
  · by_cases hzd : (if d < 2 then N else M) = 0
    · exact Or.inr ⟨hzc, hzd⟩
    · left; rw [if_pos hzc, if_neg hzd]; simp [nullBlk]; omega
  · by_cases hzd : (if d < 2 then N else M) = 0
    · left; rw [if_neg hzc, if_pos hzd]; simp [nullBlk]; omega
    · left; rw [if_neg hzc, if_neg hzd]; exact hcd
/-- the initial world of the driver/harness (four unconstructed containers: two of inline capacity N, two of M) is a
    system with nothing constructed -/
theorem init_sys (cfg : Cfg) (N M : Nat) (hN : N ≤ cfg.maxSize) (hM : M ≤ cfg.maxSize) :
    SysAll cfg (initWorld N M : World Int) [0, 1, 2, 3] [] := by
  have m4 : ∀ c, c ∈ [0, 1, 2, 3] → c < 4 := fun c hc => by simp at hc; omega
  refine ⟨fun _ h => by simp at h, SysOK.empty (init_ledger N M) rfl rfl, fun c hc _ => init_unborn N M c (m4 c hc), ?_,
          fun c hc d hd hcd => init_inlsep N M c d (m4 c hc) (m4 d hd) hcd⟩
  intro c _
  have : ((initWorld N M : World Int).hdr c).N = (if c < 2 then N else M) := rfl
  rw [this]; split <;> assumption

/-- non-vacuity: a history over three containers with a throwing copy construction, a throwing insert, a copy assignment
    across inline capacities (2 ← 3) that reallocates, and a throwing copy assignment -/
def exHist : List (MOp Int × List Nat) :=
  [(.ctorVals 0 0 [1, 2, 3], []), (.ctorCopy 2 0 0, [1]), (.ctorCopy 2 0 0, []), (.on 0 (.pushBack 4), []), (.on 2 (.insert 1 9), [2]),
   (.ctorVals 1 0 [], []), (.on 1 (.append [5, 6, 7]), []), (.copyAssign 1 0, [2]), (.copyAssign 1 0, []), (.copyAssign 2 1, []),
   (.dtor 0, []), (.on 2 (.erase 0), []), (.dtor 2, []), (.dtor 1, [])]

example : (run Ex.cfgT ⟨initWorld 2 3, []⟩ exHist).A = [] ∧ (run Ex.cfgT ⟨initWorld 2 3, []⟩ exHist).w.live = [] := by decide +kernel
/-- after the first ten calls: container 1 (N = 2) and container 2 (N = 3) both hold container 0's values -/
example : let s := run Ex.cfgT ⟨initWorld 2 3, []⟩ (exHist.take 10)
    (s.w.mem (s.w.hdr 1).data).take (s.w.hdr 1).size = [.obj (.val 1), .obj (.val 2), .obj (.val 3), .obj (.val 4)] ∧
    (s.w.mem (s.w.hdr 2).data).take (s.w.hdr 2).size = [.obj (.val 1), .obj (.val 2), .obj (.val 3), .obj (.val 4)] ∧
    s.w.live.length = 3 := by decide +kernel

/-- non-vacuity for swap: the mixed inline/heap path both ways, the O(1) path, the element-wise path, and an element-wise
    swap that throws half-way (both containers stay valid, one element is moved-from) -/
def exSwap : List (MOp Int × List Nat) :=
  [(.ctorVals 0 0 [1, 2, 3, 4], []), (.ctorVals 1 0 [5], []), (.swap 0 1, []), (.swap 1 0, []),
   (.on 1 (.append [6, 7, 8]), []), (.swap 0 1, []), (.dtor 0, []), (.ctorVals 0 0 [9, 10], []), (.on 1 (.erase 0), []),
   (.dtor 1, []), (.ctorVals 1 0 [11], []), (.swap 0 1, [2]), (.swap 0 1, []), (.dtor 0, []), (.dtor 1, []),
   (.ctorVals 0 0 [1, 2, 3], []), (.ctorVals 1 0 [4, 5, 6, 7], []), (.swap 0 1, []), (.dtor 0, []), (.dtor 1, [])]

example : (run Ex.cfgT ⟨initWorld 2 3, []⟩ exSwap).A = [] ∧ (run Ex.cfgT ⟨initWorld 2 3, []⟩ exSwap).w.live = [] := by decide +kernel
/-- the throwing element-wise swap (12th call) -/
example : let s := run Ex.cfgT ⟨initWorld 2 3, []⟩ (exSwap.take 12)
    returned Ex.cfgT (run Ex.cfgT ⟨initWorld 2 3, []⟩ (exSwap.take 11)) (.swap 0 1, [2]) = false ∧
    (s.w.mem (s.w.hdr 0).data).take (s.w.hdr 0).size = [.obj .husk, .obj (.val 10)] ∧
    (s.w.mem (s.w.hdr 1).data).take (s.w.hdr 1).size = [.obj (.val 9)] := by decide +kernel
/-- the O(1) swap (18th call): the two heap buffers change hands -/
example : let s0 := run Ex.cfgT ⟨initWorld 2 3, []⟩ (exSwap.take 17)
    let s := run Ex.cfgT ⟨initWorld 2 3, []⟩ (exSwap.take 18)
    (s.w.hdr 0).data = (s0.w.hdr 1).data ∧ (s.w.hdr 1).data = (s0.w.hdr 0).data ∧ s.w.live.length = 2 ∧
    (s.w.mem (s.w.hdr 0).data).take (s.w.hdr 0).size = [.obj (.val 4), .obj (.val 5), .obj (.val 6), .obj (.val 7)] := by decide +kernel

/-- non-vacuity for move construction: a steal (2 ← 0: the heap buffer changes hands, the source is empty and reusable), an
    element-wise move construction that throws after one element (the source keeps two constructed elements, one of them
    moved-from, the new container does not exist), the same again returning, and both moved-from sources used afterwards -/
def exMove : List (MOp Int × List Nat) :=
  [(.ctorVals 0 0 [1, 2, 3, 4], []), (.ctorMove 2 0, []), (.ctorVals 1 0 [5, 6], []), (.ctorMove 3 1, [1]), (.ctorMove 3 1, []),
   (.on 1 (.pushBack 7), []), (.on 0 (.pushBack 8), []), (.dtor 0, []), (.dtor 1, []), (.dtor 2, []), (.dtor 3, [])]

example : (run Ex.cfgT ⟨initWorld 2 3, []⟩ exMove).A = [] ∧ (run Ex.cfgT ⟨initWorld 2 3, []⟩ exMove).w.live = [] := by decide +kernel
example : let s0 := run Ex.cfgT ⟨initWorld 2 3, []⟩ (exMove.take 1)
    let s := run Ex.cfgT ⟨initWorld 2 3, []⟩ (exMove.take 2)
    (s.w.hdr 2).data = (s0.w.hdr 0).data ∧ (s.w.hdr 0).size = 0 ∧ (s.w.hdr 0).data = (s.w.hdr 0).inl ∧ s.w.trace = s0.w.trace := by decide +kernel
example : let s := run Ex.cfgT ⟨initWorld 2 3, []⟩ (exMove.take 4)
    returned Ex.cfgT (run Ex.cfgT ⟨initWorld 2 3, []⟩ (exMove.take 3)) (.ctorMove 3 1, [1]) = false ∧ s.A = [1, 2, 0] ∧
    (s.w.mem (s.w.hdr 1).data).take (s.w.hdr 1).size = [.obj .husk, .obj (.val 6)] := by decide +kernel
example : let s := run Ex.cfgT ⟨initWorld 2 3, []⟩ (exMove.take 7)
    (s.w.mem (s.w.hdr 1).data).take (s.w.hdr 1).size = [.obj .husk, .obj .husk, .obj (.val 7)] ∧
    (s.w.mem (s.w.hdr 0).data).take (s.w.hdr 0).size = [.obj (.val 8)] ∧
    (s.w.mem (s.w.hdr 3).data).take (s.w.hdr 3).size = [.obj .husk, .obj (.val 6)] := by decide +kernel

/-- non-vacuity for move assignment: a steal; an in-place element-wise assignment into a heap destination that throws
    after one element, then returns; an in-place assignment across inline capacities (3 ← 2); … -/
def exMA : List (MOp Int × List Nat) :=
  [(.ctorVals 0 0 [1, 2, 3, 4], []), (.ctorVals 1 0 [5], []), (.moveAssign 1 0, []),
   (.ctorVals 2 0 [6, 7, 8], []), (.moveAssign 1 2, [1]), (.moveAssign 1 2, []),
   (.on 0 (.append [9, 10]), []), (.moveAssign 2 0, []),
   (.ctorVals 3 0 [11, 12, 13], []), (.on 2 (.clear), []), (.moveAssign 2 3, []),
   (.dtor 0, []), (.dtor 1, []), (.dtor 2, []), (.dtor 3, [])]
/-- … the path into the in-object buffer of a heap destination (throwing, then returning: the heap block is released), and
    the reallocating path (throwing: the new block is given back and the destination is untouched; then returning) -/
def exMA2 : List (MOp Int × List Nat) :=
  [(.ctorVals 2 0 [1, 2, 3, 4, 5], []), (.ctorVals 0 0 [6, 7], []), (.moveAssign 2 0, [1]), (.moveAssign 2 0, []),
   (.ctorVals 3 0 [8, 9, 10], []), (.moveAssign 0 3, [2]), (.moveAssign 0 3, []),
   (.dtor 0, []), (.dtor 2, []), (.dtor 3, [])]

example : (run Ex.cfgT ⟨initWorld 2 3, []⟩ exMA).A = [] ∧ (run Ex.cfgT ⟨initWorld 2 3, []⟩ exMA).w.live = [] ∧
    (run Ex.cfgT ⟨initWorld 2 3, []⟩ exMA2).A = [] ∧ (run Ex.cfgT ⟨initWorld 2 3, []⟩ exMA2).w.live = [] := by decide +kernel
example : let s := run Ex.cfgT ⟨initWorld 2 3, []⟩ (exMA.take 5)
    returned Ex.cfgT (run Ex.cfgT ⟨initWorld 2 3, []⟩ (exMA.take 4)) (.moveAssign 1 2, [1]) = false ∧
    (s.w.mem (s.w.hdr 2).data).take (s.w.hdr 2).size = [.obj .husk, .obj (.val 7), .obj (.val 8)] ∧
    (s.w.mem (s.w.hdr 1).data).take (s.w.hdr 1).size = [.obj (.val 6), .obj (.val 2), .obj (.val 3), .obj (.val 4)] := by decide +kernel
example : let s := run Ex.cfgT ⟨initWorld 2 3, []⟩ (exMA2.take 4)
    returned Ex.cfgT (run Ex.cfgT ⟨initWorld 2 3, []⟩ (exMA2.take 2)) (.moveAssign 2 0, [1]) = false ∧
    (s.w.hdr 2).data = (s.w.hdr 2).inl ∧ s.w.live = [] ∧
    (s.w.mem (s.w.hdr 2).data).take (s.w.hdr 2).size = [.obj .husk, .obj (.val 7)] := by decide +kernel
example : let s5 := run Ex.cfgT ⟨initWorld 2 3, []⟩ (exMA2.take 5)
    let s6 := run Ex.cfgT ⟨initWorld 2 3, []⟩ (exMA2.take 6)
    let s7 := run Ex.cfgT ⟨initWorld 2 3, []⟩ (exMA2.take 7)
    returned Ex.cfgT s5 (.moveAssign 0 3, [2]) = false ∧ s6.w.live = [] ∧ s6.w.hdr 0 = s5.w.hdr 0 ∧
    s7.w.live.length = 1 ∧ (s7.w.mem (s7.w.hdr 0).data).take (s7.w.hdr 0).size = [.obj .husk, .obj (.val 9), .obj (.val 10)] := by decide +kernel

/-- non-vacuity for copy assignment with a PROPAGATING allocator unequal to the destination's (allocator ids 1–4): into a
    block of the source's allocator (throwing: nothing changes; returning: the destination has the source's allocator);
    into the in-object buffer of a heap destination whose block is released; in place into an inline destination (a
    reallocation is needed and throws) -/
def cfgP : Cfg := { Ex.cfgT with pocca := true }
def exCA : List (MOp Int × List Nat) :=
  [(.ctorVals 0 1 [1, 2, 3, 4], []), (.ctorVals 1 2 [5], []), (.copyAssign 1 0, [2]), (.copyAssign 1 0, []),
   (.ctorVals 2 3 [6, 7], []), (.on 2 (.reserve 5), []), (.on 1 (.erase 0), []), (.on 1 (.erase 0), []),
   (.copyAssign 2 1, [1]), (.copyAssign 2 1, []),
   (.ctorVals 3 4 [9], []), (.copyAssign 3 0, [1]), (.copyAssign 3 1, []),
   (.dtor 0, []), (.dtor 1, []), (.dtor 2, []), (.dtor 3, [])]

example : copyAssignPropagating cfgP.policy = true ∧
    (run cfgP ⟨initWorld 2 3, []⟩ exCA).A = [] ∧ (run cfgP ⟨initWorld 2 3, []⟩ exCA).w.live = [] ∧ (run cfgP ⟨initWorld 2 3, []⟩ exCA).w.ub = [] := by decide +kernel
example : let s3 := run cfgP ⟨initWorld 2 3, []⟩ (exCA.take 3)
    let s4 := run cfgP ⟨initWorld 2 3, []⟩ (exCA.take 4)
    returned cfgP (run cfgP ⟨initWorld 2 3, []⟩ (exCA.take 2)) (.copyAssign 1 0, [2]) = false ∧ (s3.w.hdr 1).alloc = 2 ∧ s3.w.live = [5] ∧
    (s4.w.hdr 1).alloc = 1 ∧ s4.w.owner (s4.w.hdr 1).data = 1 ∧
    (s4.w.mem (s4.w.hdr 1).data).take (s4.w.hdr 1).size = [.obj (.val 1), .obj (.val 2), .obj (.val 3), .obj (.val 4)] := by decide +kernel
example : let s9 := run cfgP ⟨initWorld 2 3, []⟩ (exCA.take 9)
    let s10 := run cfgP ⟨initWorld 2 3, []⟩ (exCA.take 10)
    returned cfgP (run cfgP ⟨initWorld 2 3, []⟩ (exCA.take 8)) (.copyAssign 2 1, [1]) = false ∧ (s9.w.hdr 2).alloc = 3 ∧ s9.w.live.length = 3 ∧
    (s10.w.hdr 2).alloc = 1 ∧ (s10.w.hdr 2).data = (s10.w.hdr 2).inl ∧ s10.w.live.length = 2 ∧
    (s10.w.mem (s10.w.hdr 2).data).take (s10.w.hdr 2).size = [.obj (.val 3), .obj (.val 4)] := by decide +kernel

/-- non-vacuity for `swap_unequal_no_propagate` (allocators 1 and 2, unequal, not propagating): the reallocating path with
    the allocator refusing, with a throw while the elements are moved into the new block (two elements of the source
    moved-from, block given back), with a throw while the old elements are assigned over (the inner handler destroys the
    new block's elements: all five values are gone but both containers are valid, nothing leaked), then returning; then
    the element-wise paths in both orders -/
def exSU : List (MOp Int × List Nat) :=
  [(.ctorVals 0 1 [1, 2], []), (.ctorVals 1 2 [3, 4, 5, 6, 7], []),
   (.swap 0 1, [0]), (.swap 0 1, [3]), (.swap 0 1, [6]), (.swap 0 1, []),
   (.swap 0 1, []), (.on 0 (.popBack), []), (.swap 1 0, []),
   (.dtor 0, []), (.dtor 1, [])]

example : allocationsAreSwappable Ex.cfgT.policy = false ∧
    (run Ex.cfgT ⟨initWorld 2 3, []⟩ exSU).A = [] ∧ (run Ex.cfgT ⟨initWorld 2 3, []⟩ exSU).w.live = [] ∧ (run Ex.cfgT ⟨initWorld 2 3, []⟩ exSU).w.ub = [] := by decide +kernel
example : let s2 := run Ex.cfgT ⟨initWorld 2 3, []⟩ (exSU.take 2)
    let s3 := run Ex.cfgT ⟨initWorld 2 3, []⟩ (exSU.take 3)
    let s4 := run Ex.cfgT ⟨initWorld 2 3, []⟩ (exSU.take 4)
    let s5 := run Ex.cfgT ⟨initWorld 2 3, []⟩ (exSU.take 5)
    let s6 := run Ex.cfgT ⟨initWorld 2 3, []⟩ (exSU.take 6)
    returned Ex.cfgT s2 (.swap 0 1, [0]) = false ∧ returned Ex.cfgT s3 (.swap 0 1, [3]) = false ∧ returned Ex.cfgT s4 (.swap 0 1, [6]) = false ∧
    s3.w.mem (s3.w.hdr 1).data = s2.w.mem (s2.w.hdr 1).data ∧ s3.w.live = [5] ∧ s4.w.live = [5] ∧ s5.w.live = [5] ∧
    (s4.w.mem (s4.w.hdr 1).data).take (s4.w.hdr 1).size = [.obj .husk, .obj .husk, .obj (.val 5), .obj (.val 6), .obj (.val 7)] ∧
    (s5.w.mem (s5.w.hdr 1).data).take (s5.w.hdr 1).size = [.obj .husk, .obj .husk, .obj .husk, .obj .husk, .obj .husk] ∧
    (s5.w.mem (s5.w.hdr 0).data).take (s5.w.hdr 0).size = [.obj (.val 1), .obj (.val 2)] ∧
    (s6.w.hdr 0).alloc = 1 ∧ s6.w.owner (s6.w.hdr 0).data = 1 ∧ (s6.w.hdr 0).size = 5 ∧
    (s6.w.mem (s6.w.hdr 1).data).take (s6.w.hdr 1).size = [.obj (.val 1), .obj (.val 2)] := by decide +kernel

/-- non-vacuity for the allocator-extended move constructor: equal allocator (the heap buffer is stolen), unequal allocator
    (a heap source is NOT stolen: elements are moved one by one into a block of the supplied allocator; first with a throw
    after one element: block given back, the source keeps five constructed elements) -/
def exMCA : List (MOp Int × List Nat) :=
  [(.ctorVals 0 1 [1, 2, 3, 4], []), (.ctorMoveAlloc 2 0 1, []), (.ctorVals 1 2 [5, 6, 7, 8, 9], []), (.ctorMoveAlloc 3 1 7, [2]), (.ctorMoveAlloc 3 1 7, []),
   (.dtor 0, []), (.dtor 1, []), (.dtor 2, []), (.dtor 3, [])]

example : ctorMoveAllocDelegates Ex.cfgT.policy = false ∧
    (run Ex.cfgT ⟨initWorld 2 3, []⟩ exMCA).A = [] ∧ (run Ex.cfgT ⟨initWorld 2 3, []⟩ exMCA).w.live = [] ∧ (run Ex.cfgT ⟨initWorld 2 3, []⟩ exMCA).w.ub = [] := by decide +kernel
example : let s1 := run Ex.cfgT ⟨initWorld 2 3, []⟩ (exMCA.take 1)
    let s2 := run Ex.cfgT ⟨initWorld 2 3, []⟩ (exMCA.take 2)
    let s4 := run Ex.cfgT ⟨initWorld 2 3, []⟩ (exMCA.take 4)
    let s5 := run Ex.cfgT ⟨initWorld 2 3, []⟩ (exMCA.take 5)
    (s2.w.hdr 2).data = (s1.w.hdr 0).data ∧ (s2.w.hdr 2).alloc = 1 ∧ (s2.w.hdr 0).size = 0 ∧
    returned Ex.cfgT (run Ex.cfgT ⟨initWorld 2 3, []⟩ (exMCA.take 3)) (.ctorMoveAlloc 3 1 7, [2]) = false ∧ s4.A = [1, 2, 0] ∧ s4.w.live.length = 2 ∧
    (s5.w.hdr 3).alloc = 7 ∧ s5.w.owner (s5.w.hdr 3).data = 7 ∧ (s5.w.hdr 3).data ≠ (s4.w.hdr 1).data ∧ (s5.w.hdr 1).size = 5 := by decide +kernel

/-- non-vacuity for `append (other)` / `append (std::move (other))`: copying mode (copyable type with a throwing move:
    a throw leaves both operands as they were), moving mode with a nothrow move (only the allocator can fail: nothing
    changed), moving mode for a type that cannot be copied and whose move may throw (a throw half-way leaves the source with
    moved-from elements, both containers valid, sizes unchanged); in place and reallocating -/
def exApp : List (MOp Int × List Nat) :=
  [(.ctorVals 0 0 [1, 2], []), (.ctorVals 2 0 [3, 4, 5], []), (.append 2 0, [1]), (.append 2 0, []),
   (.appendMove 0 2, [3]), (.appendMove 0 2, []), (.on 2 (.pushBack 9), []), (.appendMove 2 0, []),
   (.dtor 0, []), (.dtor 2, [])]
def cfgNC : Cfg := { Ex.cfgT with hasCopy := false }
def cfgNT : Cfg := { }

example : relocateWithMove Ex.cfgT.policy = false ∧ relocateWithMove cfgNC.policy = true ∧ relocateWithMove cfgNT.policy = true ∧
    cfgNT.tMove = false ∧ cfgNC.tMove = true := by decide
example : (run Ex.cfgT ⟨initWorld 2 3, []⟩ exApp).A = [] ∧ (run Ex.cfgT ⟨initWorld 2 3, []⟩ exApp).w.live = [] ∧ (run Ex.cfgT ⟨initWorld 2 3, []⟩ exApp).w.ub = [] ∧
    (run cfgNC ⟨initWorld 2 3, []⟩ exApp).A = [] ∧ (run cfgNC ⟨initWorld 2 3, []⟩ exApp).w.live = [] ∧ (run cfgNC ⟨initWorld 2 3, []⟩ exApp).w.ub = [] ∧
    (run cfgNT ⟨initWorld 2 3, []⟩ exApp).A = [] ∧ (run cfgNT ⟨initWorld 2 3, []⟩ exApp).w.live = [] ∧ (run cfgNT ⟨initWorld 2 3, []⟩ exApp).w.ub = [] := by decide +kernel
/-- copying mode: the 5th call throws and the source (container 2) is untouched; the 6th returns -/
example : let s4 := run Ex.cfgT ⟨initWorld 2 3, []⟩ (exApp.take 4)
    let s5 := run Ex.cfgT ⟨initWorld 2 3, []⟩ (exApp.take 5)
    let s6 := run Ex.cfgT ⟨initWorld 2 3, []⟩ (exApp.take 6)
    returned Ex.cfgT s4 (.appendMove 0 2, [3]) = false ∧
    (s4.w.mem (s4.w.hdr 2).data).take (s4.w.hdr 2).size = [.obj (.val 3), .obj (.val 4), .obj (.val 5), .obj (.val 1), .obj (.val 2)] ∧
    s5.w.mem (s5.w.hdr 2).data = s4.w.mem (s4.w.hdr 2).data ∧ s5.w.hdr 0 = s4.w.hdr 0 ∧ s5.w.hdr 2 = s4.w.hdr 2 ∧ s5.w.live = s4.w.live ∧
    (s6.w.mem (s6.w.hdr 0).data).take (s6.w.hdr 0).size =
      [.obj (.val 1), .obj (.val 2), .obj (.val 3), .obj (.val 4), .obj (.val 5), .obj (.val 1), .obj (.val 2)] ∧
    (s6.w.hdr 2).size = 0 := by decide +kernel
/-- moving mode, move may throw: the 5th call throws after two moves — the source keeps five constructed elements, two of
    them moved-from; the destination is as before -/
example : let s4 := run cfgNC ⟨initWorld 2 3, []⟩ (exApp.take 4)
    let s5 := run cfgNC ⟨initWorld 2 3, []⟩ (exApp.take 5)
    returned cfgNC s4 (.appendMove 0 2, [3]) = false ∧ s5.w.hdr 0 = s4.w.hdr 0 ∧ s5.w.hdr 2 = s4.w.hdr 2 ∧ s5.w.live = s4.w.live ∧
    (s5.w.mem (s5.w.hdr 2).data).take (s5.w.hdr 2).size = [.obj .husk, .obj .husk, .obj (.val 5), .obj (.val 1), .obj (.val 2)] ∧
    (s5.w.mem (s5.w.hdr 0).data).take (s5.w.hdr 0).size = [.obj (.val 1), .obj (.val 2)] := by decide +kernel
/-- moving mode, nothrow move: the only fault point is the allocation (index 0; with index 1 the call returns), and the
    failed call changed neither operand -/
example : let s4 := run cfgNT ⟨initWorld 2 3, []⟩ (exApp.take 4)
    returned cfgNT s4 (.appendMove 0 2, [0]) = false ∧ returned cfgNT s4 (.appendMove 0 2, [1]) = true ∧
    (step cfgNT s4 (.appendMove 0 2, [0])).w.mem (s4.w.hdr 0).data = s4.w.mem (s4.w.hdr 0).data ∧
    (step cfgNT s4 (.appendMove 0 2, [0])).w.mem (s4.w.hdr 2).data = s4.w.mem (s4.w.hdr 2).data ∧
    (step cfgNT s4 (.appendMove 0 2, [0])).w.hdr 0 = s4.w.hdr 0 ∧ (step cfgNT s4 (.appendMove 0 2, [0])).w.hdr 2 = s4.w.hdr 2 := by decide +kernel

end SvModel.System
