/-
C10 (last clause) / C14: "a growing call that knows its element count up front (everything except single-pass ranges)
moves the contents to a new buffer at most once" — as a statement about the event trace: every such call adds AT MOST ONE
allocation event, whether it returns or throws, in EVERY world and for EVERY fault list (no invariant is needed: the
bound is structural — Proofs/AllocCount.lean); pop_back, erase and clear add none.
-/
import SvModel.Proofs.AllocCount
import SvModel.Proofs.Examples

namespace SvModel.C10
open SvModel Gen
variable {α : Type}

/-- the number of allocator calls a run added to the trace -/
def allocsAdded {β : Type} (m : M α β) (w : World α) : Nat := nAlloc (m w).world.trace - nAlloc w.trace

theorem allocsAdded_le {β : Type} {m : M α β} {k : Nat} (h : AB k m) (w : World α) : allocsAdded m w ≤ k := by
  have := h w; unfold allocsAdded; omega

/-- every growing call with a known element count allocates at most once -/
theorem at_most_one_allocation (cfg : Cfg) (c : Nat) (w : World α) :
    (∀ s, allocsAdded (appendElement cfg c s) w ≤ 1) ∧                                  -- push_back / emplace_back
    (∀ pos s rv, allocsAdded (emplaceAt cfg c pos s rv) w ≤ 1) ∧                        -- insert (pos, x) / emplace (pos, args)
    (∀ pos n s, allocsAdded (insertCopies cfg c pos n s) w ≤ 1) ∧                       -- insert (pos, n, x)
    (∀ pos srcs, allocsAdded (insertRangeFwd cfg c pos srcs) w ≤ 1) ∧                   -- insert (pos, first, last), multi-pass
    (∀ strong srcs, allocsAdded (appendRangeFwd cfg c strong srcs) w ≤ 1) ∧             -- append (first, last), multi-pass
    (∀ n s, allocsAdded (appendCopies cfg c n s) w ≤ 1) ∧                               -- append (n, x)
    (∀ n s, allocsAdded (resizeWith cfg c n s) w ≤ 1) ∧                                 -- resize
    (∀ n s, allocsAdded (assignWithCopies cfg c n s) w ≤ 1) ∧                           -- assign (n, x)
    (∀ srcs, allocsAdded (assignWithRangeFwd cfg c srcs) w ≤ 1) ∧                       -- assign (first, last), multi-pass
    (∀ n, allocsAdded (requestCapacity cfg c n) w ≤ 1) ∧                                -- reserve
    allocsAdded (shrinkToSize cfg c) w ≤ 1 :=                                           -- shrink_to_fit
  ⟨fun s => allocsAdded_le (AB.appendElement cfg c s) w,
   fun pos s rv => allocsAdded_le (AB.emplaceAt cfg c pos s rv) w,
   fun pos n s => allocsAdded_le (AB.insertCopies cfg c pos n s) w,
   fun pos srcs => allocsAdded_le (AB.insertRangeFwd cfg c pos srcs) w,
   fun strong srcs => allocsAdded_le (AB.appendRangeFwd cfg c strong srcs) w,
   fun n s => allocsAdded_le (AB.appendCopies cfg c n s) w,
   fun n s => allocsAdded_le (AB.resizeWith cfg c n s) w,
   fun n s => allocsAdded_le (AB.assignWithCopies cfg c n s) w,
   fun srcs => allocsAdded_le (AB.assignWithRangeFwd cfg c srcs) w,
   fun n => allocsAdded_le (AB.requestCapacity cfg c n) w,
   allocsAdded_le (AB.shrinkToSize cfg c) w⟩

/-- pop_back, erase (pos), erase (first, last) and clear never call the allocator -/
theorem erase_family_allocates_nothing (cfg : Cfg) (c : Nat) (w : World α) :
    allocsAdded (eraseLast cfg c) w = 0 ∧ (∀ pos, allocsAdded (eraseAt cfg c pos) w = 0) ∧
    (∀ p q, allocsAdded (eraseRange cfg c p q) w = 0) ∧ allocsAdded (eraseAll cfg c) w = 0 :=
  ⟨Nat.le_zero.mp (allocsAdded_le (AB.eraseLast cfg c) w), fun pos => Nat.le_zero.mp (allocsAdded_le (AB.eraseAt cfg c pos) w),
   fun p q => Nat.le_zero.mp (allocsAdded_le (AB.eraseRange cfg c p q) w), Nat.le_zero.mp (allocsAdded_le (AB.eraseAll cfg c) w)⟩

/-- non-vacuity: the bound is attained — a push_back on the full inline container [1, 2] of Proofs/Examples.lean, and an
    insert of three values at position 1 of it, each add exactly one allocation event; a pop_back adds none -/
example : allocsAdded (appendElement Ex.cfgT 0 (.ext 9)) Ex.w0 = 1 ∧
    allocsAdded (insertRangeFwd Ex.cfgT 0 1 [.ext 7, .ext 8, .ext 9]) Ex.w0 = 1 ∧
    allocsAdded (eraseLast Ex.cfgT 0) Ex.w0 = 0 := by decide +kernel

end SvModel.C10
