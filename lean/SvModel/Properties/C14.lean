/-
C14 — Growth is geometric: amortised O(1) push_back, logarithmic allocation count.

All theorems are about `SvModel.Gen.newCapacity`, which tools/translate.py regenerates from
`unchecked_calculate_new_capacity` (small_vector.hpp) on every run (T-tie).  That every growing path of the
L2 model obtains its capacity from this function is `uses_growth_*` in Properties/C14Uses.lean (L2) and is
compared with the real allocate() arguments by the differential harness.
-/
import SvModel.Gen.Growth

namespace SvModel.C14
open SvModel.Gen

/-- the new capacity is at least the required size and never exceeds max_size -/
theorem grow_ge_req (m cap req : Nat) (h1 : cap < req) (h2 : req ≤ m) :
    req ≤ newCapacity m cap req ∧ newCapacity m cap req ≤ m := by
  unfold newCapacity
  simp only [decide_eq_true_eq]
  split <;> (try split) <;> omega

/-- at least 1.5x the old capacity, saturating at max_size (the property's clause) -/
theorem grow_ge_1_5x (m cap req : Nat) :
    newCapacity m cap req = m ∨ 3 * cap ≤ 2 * newCapacity m cap req := by
  unfold newCapacity
  simp only [decide_eq_true_eq]
  split <;> (try split) <;> omega

/-- in fact the code doubles (what the amortised bound below uses) -/
theorem grow_ge_double_or_max (m cap req : Nat) :
    newCapacity m cap req = m ∨ 2 * cap ≤ newCapacity m cap req := by
  unfold newCapacity
  simp only [decide_eq_true_eq]
  split <;> (try split) <;> omega

/-- below saturation the result is exactly max (2*cap) req -/
theorem grow_eq_max (m cap req : Nat) (h : ¬ (m - cap ≤ cap)) :
    newCapacity m cap req = max (2 * cap) req := by
  unfold newCapacity
  simp only [decide_eq_true_eq, h, if_false]
  split <;> omega

/-! ### amortised cost of n push_backs (L1 view: capacity, size, allocation and relocation counters) -/

structure St where
  (cap size allocs relocs : Nat)

/-- L1 view of push_back (append_element): in place iff size < capacity, else reallocate to
    `newCapacity` and relocate `size` elements -/
def push (m : Nat) (s : St) : St :=
  if s.size < s.cap then { s with size := s.size + 1 }
  else { cap := newCapacity m s.cap (s.size + 1), size := s.size + 1,
         allocs := s.allocs + 1, relocs := s.relocs + s.size }

def pushN (m : Nat) : Nat → St → St
  | 0, s => s
  | n+1, s => pushN m n (push m s)

/-- invariant along a run that starts at capacity c0 (the inline capacity, possibly 0) with zero counters -/
structure Inv (c0 : Nat) (s : St) : Prop where
  sz   : s.size ≤ s.cap
  cap  : s.cap ≤ max c0 (2 * s.size)
  pot  : 2 ^ s.allocs * max c0 1 ≤ max (2 * s.cap) (max c0 1)
  c0le : c0 ≤ s.cap

theorem newCap_unsat (m cap req : Nat) (h : 2 * req < m) (hc : cap < req) :
    newCapacity m cap req = if 2 * cap < req then req else 2 * cap := by
  unfold newCapacity
  have : ¬ (m - cap ≤ cap) := by omega
  simp only [decide_eq_true_eq, this, if_false]

theorem push_inv (m c0 : Nat) (s : St) (h : Inv c0 s) (hm : 2 * (s.size + 1) < m) : Inv c0 (push m s) := by
  obtain ⟨h1, h2, h3, h5⟩ := h
  unfold push
  by_cases hlt : s.size < s.cap
  · simp only [hlt, if_true]
    refine ⟨by show s.size + 1 ≤ s.cap; omega, ?_, h3, h5⟩
    show s.cap ≤ max c0 (2 * (s.size + 1))
    simp only [Nat.max_def] at h2 ⊢; split at h2 <;> split <;> omega
  · simp only [hlt, if_false]
    have hfull : s.size = s.cap := by omega
    have hnc := newCap_unsat m s.cap (s.size + 1) hm (by omega)
    refine ⟨?_, ?_, ?_, ?_⟩
    · show s.size + 1 ≤ newCapacity m s.cap (s.size + 1)
      rw [hnc]; split <;> omega
    · show newCapacity m s.cap (s.size + 1) ≤ max c0 (2 * (s.size + 1))
      rw [hnc]; simp only [Nat.max_def]; split <;> split <;> omega
    · show 2 ^ (s.allocs + 1) * max c0 1 ≤ max (2 * newCapacity m s.cap (s.size + 1)) (max c0 1)
      have e : 2 ^ (s.allocs + 1) * max c0 1 = 2 * (2 ^ s.allocs * max c0 1) := by
        rw [Nat.pow_succ, Nat.mul_comm (2 ^ s.allocs) 2, Nat.mul_assoc]
      rw [e, hnc]
      generalize hP : 2 ^ s.allocs * max c0 1 = P at h3 ⊢
      have hK1 : 1 ≤ max c0 1 := Nat.le_max_right _ _
      by_cases hz : s.cap = 0
      · have hc0 : c0 = 0 := by omega
        have hsz0 : s.size = 0 := by omega
        have hk : max c0 1 = 1 := by rw [hc0]; rfl
        rw [hz, hk] at h3
        rw [hz, hsz0, hk]
        have : max (2 * 0) 1 = 1 := rfl
        rw [this] at h3
        show 2 * P ≤ max (2 * (if 2 * 0 < 0 + 1 then 0 + 1 else 2 * 0)) 1
        have : max (2 * (if 2 * 0 < 0 + 1 then 0 + 1 else 2 * 0)) 1 = 2 := rfl
        rw [this]; omega
      · have h2c : ¬ (2 * s.cap < s.size + 1) := by omega
        have hKle : max c0 1 ≤ s.cap := Nat.max_le.mpr ⟨h5, by omega⟩
        rw [Nat.max_eq_left (by omega : max c0 1 ≤ 2 * s.cap)] at h3
        simp only [h2c, if_false]
        rw [Nat.max_eq_left (by omega : max c0 1 ≤ 2 * (2 * s.cap))]
        omega
    · show c0 ≤ newCapacity m s.cap (s.size + 1)
      rw [hnc]; split <;> omega

theorem push_size (m : Nat) (s : St) : (push m s).size = s.size + 1 := by
  unfold push; split <;> rfl

theorem pushN_inv (m c0 : Nat) : ∀ (n : Nat) (s : St), Inv c0 s → 2 * (s.size + n) < m →
    Inv c0 (pushN m n s) ∧ (pushN m n s).size = s.size + n
  | 0, s, h, _ => ⟨h, rfl⟩
  | n+1, s, h, hm => by
    have hp := push_inv m c0 s h (by omega)
    have hsz := push_size m s
    have := pushN_inv m c0 n (push m s) hp (by rw [hsz]; omega)
    exact ⟨this.1, by show (pushN m n (push m s)).size = _; rw [this.2, hsz]; omega⟩

/-- relocation potential: `relocs + c0 ≤ cap` (each reallocation relocates size = cap elements and at least doubles) -/
theorem push_relInv (m c0 : Nat) (s : St) (h : Inv c0 s) (hr : s.relocs + c0 ≤ s.cap) (hm : 2 * (s.size + 1) < m) :
    (push m s).relocs + c0 ≤ (push m s).cap := by
  unfold push
  by_cases hlt : s.size < s.cap
  · simp only [hlt, if_true]; exact hr
  · simp only [hlt, if_false]
    have hfull : s.size = s.cap := by have := h.sz; omega
    have hnc := newCap_unsat m s.cap (s.size + 1) hm (by omega)
    show s.relocs + s.size + c0 ≤ newCapacity m s.cap (s.size + 1)
    rw [hnc]; split <;> omega

theorem pushN_relocs (m c0 : Nat) : ∀ (n : Nat) (s : St), Inv c0 s → s.relocs + c0 ≤ s.cap → 2 * (s.size + n) < m →
    (pushN m n s).relocs + c0 ≤ (pushN m n s).cap
  | 0, _, _, hr, _ => hr
  | n+1, s, h, hr, hm => by
    have hp := push_inv m c0 s h (by omega)
    have hr' := push_relInv m c0 s h hr (by omega)
    have hsz := push_size m s
    exact pushN_relocs m c0 n (push m s) hp hr' (by rw [hsz]; omega)

def start (c0 : Nat) : St := { cap := c0, size := 0, allocs := 0, relocs := 0 }

theorem inv_start (c0 : Nat) : Inv c0 (start c0) :=
  ⟨Nat.zero_le _, by show c0 ≤ max c0 (2 * 0); simp,
   by show 2 ^ 0 * max c0 1 ≤ max (2 * c0) (max c0 1); simp only [Nat.max_def]; split <;> split <;> omega,
   Nat.le_refl _⟩

/-- C14 (allocations): n push_backs into an empty container of inline capacity c0 perform `allocs` allocations with
    2^allocs * max c0 1 ≤ max (2 * max c0 (2n)) (max c0 1), i.e. allocs ≤ log2 (4n / max c0 1) + O(1) — for EVERY n, c0 (incl. 0) -/
theorem push_allocs_log (m c0 n : Nat) (hm : 2 * n < m) :
    2 ^ (pushN m n (start c0)).allocs * max c0 1 ≤ max (2 * max c0 (2 * n)) (max c0 1) := by
  obtain ⟨hI, hsz⟩ := pushN_inv m c0 n _ (inv_start c0) (by simpa [start] using hm)
  have hcap := hI.cap
  have hpot := hI.pot
  have hsz' : (pushN m n (start c0)).size = n := by simpa [start] using hsz
  rw [hsz'] at hcap
  refine Nat.le_trans hpot ?_
  simp only [Nat.max_def] at hcap ⊢
  split at hcap <;> split <;> split <;> (try split) <;> omega

/-- C14 (relocations): the total number of element relocations during n push_backs is < final capacity ≤ max c0 (2n): O(n) -/
theorem push_relocs_linear (m c0 n : Nat) (hm : 2 * n < m) :
    (pushN m n (start c0)).relocs + c0 ≤ max c0 (2 * n) := by
  obtain ⟨hI, hsz⟩ := pushN_inv m c0 n _ (inv_start c0) (by simpa [start] using hm)
  have hr := pushN_relocs m c0 n (start c0) (inv_start c0) (by simp [start]) (by simpa [start] using hm)
  have hcap := hI.cap
  have hsz' : (pushN m n (start c0)).size = n := by simpa [start] using hsz
  rw [hsz'] at hcap
  omega

/-- non-vacuity: a concrete run (inline capacity 0, 1000 pushes, 64-bit max_size) satisfies the hypotheses and the bound is tight-ish -/
example : (pushN (2^62) 20 (start 0)).allocs = 6 ∧ (pushN (2^62) 20 (start 0)).cap = 32 ∧
          (pushN (2^62) 20 (start 0)).relocs = 31 := by decide
example : (pushN (2^62) 12 (start 5)).allocs = 2 ∧ (pushN (2^62) 12 (start 5)).cap = 20 := by decide
example : newCapacity 127 100 101 = 127 ∧ newCapacity 127 3 4 = 6 ∧ newCapacity 127 0 1 = 1 ∧ newCapacity 127 2 9 = 9 := by decide

end SvModel.C14
