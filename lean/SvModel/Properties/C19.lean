/-
C19 — Default inline capacity sizes the object to 64 bytes; empty base costs nothing.

`objSize` is a model of the Itanium-ABI layout of `small_vector<T, N, A>` (header = pointer + two size_type fields, whose
tail padding is reusable; inline buffer aligned for T; allocator state in front unless empty (EBO)).  It is validated
row by row against `sizeof` as computed by the compiler from the real header (`Gen.layoutChunks`, regenerated on every
run): `model_matches_compiler`.  `defaultN` is the formula `Gen.defaultBufferSize`, regenerated from
`default_buffer_size` in the header.  The property's clause is `Optimal`.
-/
import SvModel.Gen.Layout
import SvModel.Gen.LayoutTable

namespace SvModel.C19
open SvModel.Gen

def ru (x a : Nat) : Nat := (x + a - 1) / a * a

/-- sizeof (small_vector<T, N, A>) for sizeof T = s, alignof T = a, sizeof size_type = w, allocator state k bytes aligned ka
    (k = 0: empty allocator, empty-base optimised) -/
def objSize (N s a w k ka : Nat) : Nat :=
  let hdr := 8 + 2 * w
  let am  := if N = 0 then 8 else max 8 a
  let md  := if N = 0 then ru hdr 8 else ru (ru hdr a + N * s) am
  let off := if k = 0 then 0 else ru k am
  let atot := max am (if k = 0 then 1 else ka)
  ru (off + md) atot

def objAlign (N a k ka : Nat) : Nat := max (if N = 0 then 8 else max 8 a) (if k = 0 then 1 else ka)

/-- the default inline capacity, through the generated formula -/
def defaultN (s a w k ka : Nat) : Nat := defaultBufferSize s (objSize 0 s a w k ka)

def rowOk (r : LayoutRow) : Bool :=
  objSize 0 r.s r.a r.w r.k r.ka == r.size0 &&
  defaultBufferSize r.s r.size0 == r.defN &&
  objSize r.defN r.s r.a r.w r.k r.ka == r.sizeD &&
  objSize (r.defN + 1) r.s r.a r.w r.k r.ka == r.sizeD1 &&
  objSize 1 r.s r.a r.w r.k r.ka == r.size1 &&
  objAlign r.defN r.a r.k r.ka == r.alignD

/-- the layout model and the generated default-capacity formula agree with the compiler on every row of the table -/
theorem model_matches_compiler : layoutChunks.all (fun ch => ch.all rowOk) = true := by decide +kernel

/-- the property's clause: the default is the largest count whose object fits in `idealTotal` (= 64) bytes, or 1 when not even one fits -/
def Optimal (s a w k ka : Nat) : Prop :=
  let d := defaultN s a w k ka
  (objSize d s a w k ka ≤ idealTotal ∧ idealTotal < objSize (d + 1) s a w k ka) ∨ (d = 1 ∧ idealTotal < objSize 1 s a w k ka)

theorem ru8_le64 (x : Nat) (h : x ≤ 64) : ru x 8 ≤ 64 := by unfold ru; omega
theorem ru8_gt64 (x : Nat) (h : 64 < x) : 64 < ru x 8 := by unfold ru; omega

/-- std::allocator (stateless), 64-bit size_type, element alignment ≤ 8: the default is optimal for EVERY element size -/
theorem optimal_std64 (s a : Nat) (hs : 0 < s) (ha : a = 1 ∨ a = 2 ∨ a = 4 ∨ a = 8) : Optimal s a 8 0 1 := by
  unfold Optimal defaultN defaultBufferSize idealBuffer idealTotal
  have e0 : objSize 0 s a 8 0 1 = 24 := by simp [objSize, ru]
  have e24 : ru 24 a = 24 := by rcases ha with rfl|rfl|rfl|rfl <;> simp [ru]
  have hmax : max 8 a = 8 := by rcases ha with rfl|rfl|rfl|rfl <;> simp
  have hobj : ∀ N, 0 < N → objSize N s a 8 0 1 = ru (24 + N * s) 8 := by
    intro N hN
    have : N ≠ 0 := by omega
    simp [objSize, this, e24, hmax]
    unfold ru; omega
  simp only [e0]
  by_cases h : s ≤ 40
  · have hd : 0 < 40 / s := Nat.div_pos h hs
    have h1 : 40 / s * s ≤ 40 := Nat.div_mul_le_self _ _
    have h2 : 40 < s * (40 / s + 1) := Nat.lt_mul_div_succ 40 hs
    have h2' : 40 < 40 / s * s + s := by
      have : s * (40 / s + 1) = 40 / s * s + s := by rw [Nat.mul_add, Nat.mul_one, Nat.mul_comm]
      omega
    have h3 : (40 / s + 1) * s = 40 / s * s + s := Nat.succ_mul _ _
    simp only [show 64 - 24 = 40 from rfl, h, decide_true, if_true]
    left
    rw [hobj _ hd, hobj _ (Nat.succ_pos _)]
    exact ⟨ru8_le64 _ (by omega), ru8_gt64 _ (by rw [h3]; omega)⟩
  · simp only [show 64 - 24 = 40 from rfl, h, decide_false, Bool.false_eq_true, if_false]
    right
    refine ⟨by trivial, ?_⟩
    rw [hobj 1 (by omega)]
    exact ru8_gt64 _ (by omega)

/-- a container with inline capacity 0 and a stateless allocator is exactly one pointer plus two size_type fields,
    rounded up to pointer alignment — whatever the element type -/
theorem empty_is_ptr_plus_two_sizes (s a w : Nat) : objSize 0 s a w 0 1 = ru (8 + 2 * w) 8 := by
  simp [objSize, ru]; omega

/-- the inline buffer (hence the object) is aligned for the element type -/
theorem inline_buffer_aligned (N a k ka : Nat) (hN : 0 < N) : a ≤ objAlign N a k ka := by
  unfold objAlign
  have : N ≠ 0 := by omega
  simp only [this, if_false]
  omega

/-- KNOWN FINDING P6, class A: with a narrow size_type the header's reusable tail padding is not counted — the README's own
    `tiny_allocator<int>` (16-bit size_type) gets 12 although 13 elements also fit in 64 bytes -/
theorem not_optimal_readme : ¬ Optimal 4 4 2 0 1 := by unfold Optimal; decide
/-- KNOWN FINDING P6, class B: alignment padding between allocator state and an over-aligned buffer is not counted —
    a 16-byte, 16-aligned element with 8 bytes of allocator state gets 2, which makes an 80-byte object -/
theorem not_optimal_overaligned : ¬ Optimal 16 16 8 8 8 := by unfold Optimal; decide

/-- non-vacuity / sanity: the model on two familiar instantiations -/
example : objSize 0 4 4 8 0 1 = 24 ∧ defaultN 4 4 8 0 1 = 10 ∧ objSize 10 4 4 8 0 1 = 64 ∧ objSize 11 4 4 8 0 1 = 72 := by decide

end SvModel.C19
