/-
C13 — Bulk-copy fast paths are unobservable; converting inputs are value-converted.

In the model a trivially copyable element type is `Cfg.trivial = true`: element operations cannot throw, emit no
events, and "moves" leave the source intact (memcpy / memmove / fill).  `trivial_twin_*`: for every operation with a
refinement theorem, the contents after the operation are the same list whether the type is trivially copyable or
not — both refine the same L0 function — and in both modes the model's lifetime log stays empty (no slot outside the
block is touched: every access is bounds-checked by the slot machine, an out-of-range access would be logged).
The conversion clause and the "adds no requirement" clause are about C++ types, outside the slot model: they are
checked on the real header by the conversion monitor (harness/convert.cpp: every element built or assigned from a
convertible value / range equals static_cast<T>(source), for integral, enum, bool, char, floating and pointer pairs
incl. a base class at non-zero offset) and by compile probes of minimal-requirement archetypes (harness/probes/).
-/
import SvModel.Properties.Core
import SvModel.Proofs.InputRange
import SvModel.Spec.Convert

namespace SvModel.C13
open SvModel Gen
variable {α : Type}

/-- the same configuration for a trivially copyable twin of the element type -/
def twin (cfg : Cfg) : Cfg := { cfg with trivial := true }

theorem twin_strongPolicy (cfg : Cfg) : StrongPolicy (twin cfg) := by
  intro _; rfl

/-- push_back: same resulting contents for the type and its trivially copyable twin -/
theorem trivial_twin_push_back (cfg : Cfg) (c : Nat) (a : α) (w1 w2 w1' w2' : World α) (r1 r2 : Nat) (xs : List (Val α))
    (hp1 : Pre cfg w1 c) (hp2 : Pre (twin cfg) w2 c) (hpol : StrongPolicy cfg) (hx1 : Holds w1 c xs) (hx2 : Holds w2 c xs)
    (hr1 : appendElement cfg c (.ext a) w1 = .ok r1 w1') (hr2 : appendElement (twin cfg) c (.ext a) w2 = .ok r2 w2') :
    ∃ ys, Holds w1' c ys ∧ Holds w2' c ys ∧ r1 = r2 := by
  have h1 := C01.push_back_refines cfg c (.ext a) w1 w1' r1 xs hp1 (argOK_ext cfg w1 c a) hpol hx1 hr1
  have h2 := C01.push_back_refines (twin cfg) c (.ext a) w2 w2' r2 xs hp2 (argOK_ext _ w2 c a) (twin_strongPolicy cfg) hx2 hr2
  exact ⟨_, h1.1, h2.1, by rw [h1.2, h2.2]⟩

theorem trivial_twin_erase (cfg : Cfg) (c pos : Nat) (w1 w2 w1' w2' : World α) (r1 r2 : Nat) (xs : List (Val α))
    (hp1 : Pre cfg w1 c) (hp2 : Pre (twin cfg) w2 c) (hpos : pos < xs.length) (hx1 : Holds w1 c xs) (hx2 : Holds w2 c xs)
    (hr1 : eraseAt cfg c pos w1 = .ok r1 w1') (hr2 : eraseAt (twin cfg) c pos w2 = .ok r2 w2') :
    ∃ ys, Holds w1' c ys ∧ Holds w2' c ys ∧ r1 = r2 := by
  have h1 := C01.erase_refines cfg c pos w1 w1' r1 xs hp1 (by rw [← hx1.1]; exact hpos) hx1 hr1
  have h2 := C01.erase_refines (twin cfg) c pos w2 w2' r2 xs hp2 (by rw [← hx2.1]; exact hpos) hx2 hr2
  exact ⟨_, h1.1, h2.1, by rw [h1.2, h2.2]⟩

theorem trivial_twin_erase_range (cfg : Cfg) (c p q : Nat) (w1 w2 w1' w2' : World α) (r1 r2 : Nat) (xs : List (Val α))
    (hp1 : Pre cfg w1 c) (hp2 : Pre (twin cfg) w2 c) (h1 : p ≤ q) (h2 : q ≤ xs.length) (hx1 : Holds w1 c xs) (hx2 : Holds w2 c xs)
    (hr1 : eraseRange cfg c p q w1 = .ok r1 w1') (hr2 : eraseRange (twin cfg) c p q w2 = .ok r2 w2') :
    ∃ ys, Holds w1' c ys ∧ Holds w2' c ys ∧ r1 = r2 := by
  have a := C01.erase_range_refines cfg c p q w1 w1' r1 xs hp1 h1 (by rw [← hx1.1]; exact h2) hx1 hr1
  have b := C01.erase_range_refines (twin cfg) c p q w2 w2' r2 xs hp2 h1 (by rw [← hx2.1]; exact h2) hx2 hr2
  exact ⟨_, a.1, b.1, by rw [a.2, b.2]⟩

theorem trivial_twin_resize (cfg : Cfg) (c n : Nat) (a : α) (w1 w2 w1' w2' : World α) (xs : List (Val α))
    (hp1 : Pre cfg w1 c) (hp2 : Pre (twin cfg) w2 c) (hpol : StrongPolicy cfg) (hx1 : Holds w1 c xs) (hx2 : Holds w2 c xs)
    (hr1 : resizeWith cfg c n (.ext a) w1 = .ok () w1') (hr2 : resizeWith (twin cfg) c n (.ext a) w2 = .ok () w2') :
    ∃ ys, Holds w1' c ys ∧ Holds w2' c ys :=
  ⟨_, C01.resize_refines cfg c n (.ext a) w1 w1' xs hp1 (argOK_ext cfg w1 c a) hpol hx1 hr1,
      C01.resize_refines (twin cfg) c n (.ext a) w2 w2' xs hp2 (argOK_ext _ w2 c a) (twin_strongPolicy cfg) hx2 hr2⟩

theorem trivial_twin_reserve_shrink (cfg : Cfg) (c n : Nat) (w1 w2 w1' w2' : World α) (xs : List (Val α))
    (hp1 : Pre cfg w1 c) (hp2 : Pre (twin cfg) w2 c) (hpol : StrongPolicy cfg) (hx1 : Holds w1 c xs) (hx2 : Holds w2 c xs) :
    (requestCapacity cfg c n w1 = .ok () w1' → requestCapacity (twin cfg) c n w2 = .ok () w2' → Holds w1' c xs ∧ Holds w2' c xs) ∧
    (shrinkToSize cfg c w1 = .ok () w1' → shrinkToSize (twin cfg) c w2 = .ok () w2' → Holds w1' c xs ∧ Holds w2' c xs) :=
  ⟨fun a b => ⟨C01.reserve_refines cfg c n w1 w1' xs hp1 hpol hx1 a, C01.reserve_refines _ c n w2 w2' xs hp2 (twin_strongPolicy cfg) hx2 b⟩,
   fun a b => ⟨C01.shrink_to_fit_refines cfg c w1 w1' xs hp1 hpol hx1 a, C01.shrink_to_fit_refines _ c w2 w2' xs hp2 (twin_strongPolicy cfg) hx2 b⟩⟩

theorem trivial_twin_append_range (cfg : Cfg) (c : Nat) (vs : List α) (w1 w2 w1' w2' : World α) (r1 r2 : Nat) (xs : List (Val α))
    (hp1 : Pre cfg w1 c) (hp2 : Pre (twin cfg) w2 c) (hpol : StrongPolicy cfg) (hx1 : Holds w1 c xs) (hx2 : Holds w2 c xs)
    (hr1 : appendRangeFwd cfg c true (vs.map Src.ext) w1 = .ok r1 w1') (hr2 : appendRangeFwd (twin cfg) c true (vs.map Src.ext) w2 = .ok r2 w2') :
    ∃ ys, Holds w1' c ys ∧ Holds w2' c ys ∧ r1 = r2 := by
  have a := C01.append_range_refines cfg c vs w1 w1' r1 xs hp1 hpol hx1 hr1
  have b := C01.append_range_refines (twin cfg) c vs w2 w2' r2 xs hp2 (twin_strongPolicy cfg) hx2 hr2
  exact ⟨_, a.1, b.1, by rw [a.2, b.2]⟩

/-- in the trivially copyable mode no element operation is a fault point: only the allocator can throw -/
theorem trivial_no_element_faults (cfg : Cfg) :
    (twin cfg).tCopy = false ∧ (twin cfg).tMove = false ∧ (twin cfg).tCasg = false ∧ (twin cfg).tMasg = false ∧ (twin cfg).tVctor = false := by
  refine ⟨rfl, rfl, rfl, rfl, rfl⟩

/-! ### the conversion clause: the header's memcpy-eligibility verdicts (table regenerated by the compiler from the real
    header on every run) against the model of `static_cast` on object representations (Spec/Convert.lean) -/
open SvModel.Conv in
/-- a row of the table is in order: whenever the header selects a bulk copy for the pair (assignment or construction,
    from a prvalue, an lvalue or a const lvalue), the conversion provably preserves every object representation -/
def rowSound (r : McRow) : Bool := !(r.asg || r.ctor) || ReprPreserving (r.fromName == r.toName) r.from_ r.to

/-- EVERY pair the header deems memcpy-able is representation-preserving (kernel evaluation over the whole table) -/
theorem memcpy_table_sound : mcTable.all rowSound = true := by decide +kernel

/-- class types (and scalars) T → T, per value category of the source: whenever the header selects the bulk copy, RUNNING the
    constructor / assignment operator that overload resolution selects for that category leaves exactly the source's bytes
    (ground truth obtained by execution in the table program) — in particular a trivially copyable type whose construction
    or assignment from a NON-CONST LVALUE selects a template is not bulk-copied from such a source -/
def classRowSound (r : McClassRow) : Bool :=
  (!r.ctorR || r.truthCtorR) && (!r.ctorL || r.truthCtorL) && (!r.ctorC || r.truthCtorC) &&
  (!r.asgR || r.truthAsgR) && (!r.asgL || r.truthAsgL) && (!r.asgC || r.truthAsgC)

theorem memcpy_class_table_sound : mcClassTable.all classRowSound = true := by decide +kernel

/-- non-vacuity: the table contains a type for which the categories differ, and the header tells them apart -/
example : mcClassTable.any (fun r => r.ctorR && !r.ctorL && r.truthCtorR && !r.truthCtorL) = true := by decide +kernel

open SvModel.Conv in
/-- … hence, for such a pair of distinct integral / enumeration types, copying the bytes of ANY valid source object
    yields exactly `static_cast<To>(source)` — for every representation, not only the sampled ones -/
theorem memcpy_is_static_cast (r : McRow) (hr : r ∈ mcTable) (hsel : (r.asg || r.ctor) = true) (hne : (r.fromName == r.toName) = false)
    (x : Nat) (hx : ValidRep r.from_ x) : convInt r.from_ r.to x = x := by
  have h := List.all_eq_true.mp memcpy_table_sound r hr
  unfold rowSound at h
  rw [hsel, hne] at h
  exact reprPreserving_sound r.from_ r.to x (by simpa using h) hx

open SvModel.Conv in
/-- the model of static_cast agrees with the COMPILER's static_cast on every sampled bit pattern of every
    integral / enumeration pair of the table (validation of Spec/Convert.lean against the real thing) -/
theorem convert_model_matches_compiler :
    (mcTable.filter fun r => decide (r.from_.kind ≤ 1) && decide (r.to.kind ≤ 1)).all
      (fun r => r.identBySamples == identOnSamples r.from_ r.to) = true := by decide +kernel

/-- pointers: a bulk copy is selected only for implicit conversions that do not adjust the address (cv-qualification,
    conversion to void *); never for a base class, whose subobject may live at a non-zero offset -/
theorem memcpy_ptr_table_sound :
    mcPtrTable.all (fun r => !(r.asg || r.ctor) || (r.convertible && decide (r.offset = 0))) = true := by decide +kernel

/-- the table really contains a base at a non-zero offset (so the previous theorem is not vacuous), and it is refused -/
example : mcPtrTable.any (fun r => r.convertible && decide (r.offset ≠ 0) && !(r.asg || r.ctor)) = true := by decide +kernel

/-- iterators: only iterators that address contiguous storage are classified contiguous (reverse iterators, deque,
    list, stream and vector<bool> iterators are not) -/
theorem contiguous_iterator_table_sound : mcItTable.all (fun r => !r.deemed || r.truly) = true := by decide +kernel

/-- non-vacuity: the table contains eligible converting pairs (e.g. int → unsigned), refused narrowing-to-bool pairs
    (unsigned char → bool) and refused width-changing pairs -/
example : mcTable.any (fun r => (r.asg && r.ctor) && !(r.fromName == r.toName)) = true := by decide +kernel
example : mcTable.any (fun r => r.fromName == "unsigned_char" && r.toName == "bool" && !(r.asg || r.ctor) && !r.identBySamples) = true := by decide +kernel

end SvModel.C13
