/-
C18 — noexcept and type-trait contract is exactly as documented and is truthful.

(a) `noexcept_documented`: the value of every noexcept expression of the public special members, as evaluated by the
    compiler on the real header over the full grid of element traits x inline capacity x allocator kinds
    (`Gen.nxTable`, regenerated on every run), equals the README's documented condition (`documented`).
(b) `noexcept_flags_as_modelled`: the internal functions that carry an unconditional `noexcept` in the source
    (`Gen.noexceptFlags`, regenerated from the header text) are exactly the ones listed here, and each of their L2 model
    counterparts has no throwing path (`*_nothrow` theorems, for every world and fault list).  Adding `noexcept` to a
    function with a throwing path (e.g. request_capacity) changes the generated flag list and breaks (b).
(c) that exceptions of non-noexcept operations reach the caller instead of terminating is observed on the real code:
    the differential run executes every fault index with a std::terminate trap (harness), see the evidence.
-/
import SvModel.Gen.NoexceptTable
import SvModel.Gen.NoexceptFlags
import SvModel.Proofs.AppendN
import SvModel.Proofs.NoThrowCond

namespace SvModel.C18
open SvModel.Gen
variable {α : Type}

def b01 (b : Bool) : Nat := if b then 1 else 0

/-- the README's conditions (README.md "construction", "assignment", "swap", observers), in the order of `Gen.nxExprs` -/
def documented (r : NxRow) : List Nat :=
  let movable := r.isStd || r.pocma || r.ae
  let swappable := r.isStd || r.pocs || r.ae
  let moveAssign := movable && ((r.ma && r.mc) || r.N == 0)
  let swp := swappable && ((r.mc && r.ma && r.sw) || r.N == 0)
  [ b01 r.dn,                              -- small_vector ()            noexcept (noexcept (allocator_type ()))
    b01 (r.mc || r.N == 0),                -- small_vector (small_vector&&)
    1,                                     -- small_vector (const allocator_type&)
    b01 moveAssign,                        -- operator= (small_vector&&)
    b01 moveAssign,                        -- assign (small_vector&&)
    b01 swp,                               -- swap (small_vector&)
    b01 swp,                               -- non-member swap: noexcept (noexcept (lhs.swap (rhs)))
    1,                                     -- clear ()
    1,                                     -- observers: size, capacity, max_size, empty, data, get_allocator, begin … crend, inlined, inlinable, inline_capacity
    0,                                     -- small_vector (small_vector<T, GreaterI, A>&&): potentially throwing
    0,                                     -- assign (small_vector<T, GreaterI, A>&&)
    0,                                     -- copy constructor
    if r.N == 0 then 2 else b01 r.mc,      -- small_vector (small_vector<T, LessI, A>&&)
    if r.N == 0 then 2 else b01 (movable && r.ma && r.mc),   -- assign (small_vector<T, LessI, A>&&)
    1 ]                                    -- iterators trivially copyable, random access (contiguous in C++20); nested types as documented

theorem noexcept_documented : nxTable.all (fun r => r.vals == documented r) = true := by decide

/-- the modelled internal functions that are unconditionally noexcept in the source -/
def expectedAlways : List (String × Nat) :=
  [("destroy", 0), ("destroy", 1), ("destroy", 2), ("destroy_range", 0), ("destroy_range", 1),
   ("uninitialized_copy", 0), ("uninitialized_copy", 1), ("construct", 0), ("get_max_size", 0),
   ("move_allocation_pointer", 0), ("move_assign_default", 0), ("move_initialize", 0), ("swap", 0),
   ("copy_n_return_in", 0), ("copy_n_return_in", 1)]

theorem noexcept_flags_as_modelled :
    (noexceptFlags.filter (fun r => r.2.2 == .always)).map (fun r => (r.1, r.2.1)) = expectedAlways := by decide

/-! model counterparts of the unconditionally-noexcept functions have no throwing path -/
theorem destroy_nothrow (c : Cfg) (b i : Nat) : NoThrow (destroyAt c b i : M α Unit) := by
  intro w; unfold destroyAt; split <;> exact ⟨_, _, rfl⟩

theorem destroy_range_nothrow (c : Cfg) (b first n : Nat) : NoThrow (destroyRange c b first n : M α Unit) :=
  destroyRange_nothrow c b n first

theorem wipe_nothrow (cfg : Cfg) (c : Nat) : NoThrow (wipe cfg c : M α Unit) := by
  intro w
  unfold wipe
  rw [bind_run, getV_run]
  simp only []
  obtain ⟨u, w1, h1⟩ := destroyRange_nothrow cfg (w.hdr c).data (w.hdr c).size 0 w
  rw [bind_run, h1]
  simp only []
  split
  · exact deallocate_nothrow _ _ _ w1
  · exact ⟨_, _, rfl⟩

/-- move_allocation_pointer (noexcept): reset_data + set_default -/
theorem move_allocation_pointer_nothrow (cfg : Cfg) (c o : Nat) : NoThrow (moveAllocationPointer cfg c o : M α Unit) := by
  intro w
  unfold moveAllocationPointer resetData
  rw [bind_run, getV_run]
  simp only []
  obtain ⟨u, w1, h1⟩ := wipe_nothrow cfg c w
  rw [bind_run, bind_run, h1]
  exact ⟨_, _, rfl⟩

/-- clear () is documented noexcept: erase_all never throws -/
theorem clear_nothrow (cfg : Cfg) (c : Nat) : NoThrow (eraseAll cfg c : M α Unit) := by
  intro w
  unfold eraseAll
  rw [bind_run, getV_run]
  simp only []
  unfold setSize
  rw [bind_run, modV_run]
  exact destroyRange_nothrow cfg _ _ _ _

/-- swap for inline capacity 0 with swappable allocators (noexcept): only the headers are exchanged -/
theorem swap_allocation_nothrow (c o : Nat) : NoThrow (swapAllocation c o : M α Unit) := by
  intro w; exact ⟨_, _, rfl⟩

/-! ### conditionally noexcept internal functions -/
/-- the modelled internal functions whose `noexcept` is CONDITIONAL in the source (on the element type's nothrow traits) -/
def expectedConditional : List (String × Nat) :=
  [("construct", 1), ("construct", 2), ("uninitialized_move", 0), ("uninitialized_move", 1), ("move_assign_default", 1),
   ("move_assign", 0), ("move_initialize", 1), ("swap_elements", 0), ("swap_default", 0), ("swap", 1)]

theorem noexcept_conditional_flags_as_modelled :
    (noexceptFlags.filter (fun r => r.2.2 == .conditional)).map (fun r => (r.1, r.2.1)) = expectedConditional := by decide

/-- … and when the condition holds (move construction and move assignment of the element type cannot throw) their model
    counterparts have NO throwing path, for every world and fault list — in particular none of them allocates:
    uninitialized_move, swap_elements, swap_default, and the overloads of move_initialize / move_assign_default for a
    source whose inline capacity is not larger -/
theorem conditional_noexcept_nothrow (cfg : Cfg) (h1 : cfg.tMove = false) (h2 : cfg.tMasg = false) :
    (∀ sb si n db di, NoThrow (uninitializedMove cfg false sb si n db di : M α Unit)) ∧
    (∀ c o, NoThrow (swapElements cfg c o : M α Unit)) ∧
    (∀ c o, NoThrow (swapDefault cfg c o : M α Unit)) ∧
    (∀ c o (w : World α), (w.hdr o).N ≤ (w.hdr c).N → ∃ b w', moveInitialize cfg c o w = .ok b w') ∧
    (∀ c o (w : World α), (w.hdr o).N ≤ (w.hdr c).N → ∃ b w', moveAssignDefault cfg c o w = .ok b w') :=
  ⟨fun sb si n db di => uninitializedMove_nothrow cfg h1 sb si n db di, fun c o => swapElements_nothrow cfg h1 h2 c o,
   fun c o => swapDefault_nothrow cfg h1 h2 c o, fun c o w h => moveInitialize_le_nothrow cfg h1 c o w h,
   fun c o w h => moveAssignDefault_le_nothrow cfg h1 h2 c o w h⟩

/-- non-vacuity: the all-nothrow element flavour satisfies the condition; a flavour with a throwing move does not -/
example : ({ copyThrows := false, moveThrows := false, casgThrows := false, masgThrows := false } : Cfg).tMove = false ∧
    ({ copyThrows := false, moveThrows := false, casgThrows := false, masgThrows := false } : Cfg).tMasg = false ∧
    ({ moveThrows := true } : Cfg).tMove = true := by decide

/-- non-vacuity of the table: it has rows of every kind -/
example : nxTable.length = 96 ∧ (nxTable.filter (fun r => r.N == 0)).length = 48 ∧ (nxTable.filter (fun r => r.isStd)).length = 16 := by decide

end SvModel.C18
