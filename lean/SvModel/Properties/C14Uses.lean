/-
C14, L2 side — every growing path of the slot-machine model obtains its new capacity from the GENERATED growth function
(`Gen.newCapacity`, re-translated from `unchecked_calculate_new_capacity` on every run), so the geometric-growth
theorems of Properties/C14.lean apply to push_back / emplace_back, insert / emplace of one element, append (range),
insert (end, n, x), assign (n, x), assign (range) and reserve: when the call reallocates, the new capacity () is
`newCapacity max_size capacity required`, hence ≥ required, ≤ max_size, and either max_size or at least twice the old.
-/
import SvModel.Properties.C14
import SvModel.Properties.Core
import SvModel.Properties.InsertProps
import SvModel.Properties.AssignProps

namespace SvModel.C14
open SvModel Gen
variable {α : Type}

/-- what the growth function guarantees, in one statement -/
theorem growth_facts (m cap req : Nat) (h1 : cap < req) (h2 : req ≤ m) :
    req ≤ newCapacity m cap req ∧ newCapacity m cap req ≤ m ∧
    (newCapacity m cap req = m ∨ 2 * cap ≤ newCapacity m cap req) ∧ (newCapacity m cap req = m ∨ 3 * cap ≤ 2 * newCapacity m cap req) :=
  ⟨(grow_ge_req m cap req h1 h2).1, (grow_ge_req m cap req h1 h2).2, grow_ge_double_or_max m cap req, grow_ge_1_5x m cap req⟩

/-- push_back / emplace_back into a full container -/
theorem uses_growth_push_back (cfg : Cfg) (c : Nat) (s : Src α) (w w' : World α) (r : Nat)
    (hp : Pre cfg w c) (ha : ArgOK cfg w c s) (hpol : StrongPolicy cfg) (hfull : ¬ (w.hdr c).size < (w.hdr c).cap)
    (hr : appendElement cfg c s w = .ok r w') :
    (w'.hdr c).cap = newCapacity cfg.maxSize (w.hdr c).cap ((w.hdr c).size + 1) :=
  ((sat_of_ok (appendElement_sat cfg c s w hp.vec hp.led hp.nmax ha hpol) hr).2.grown hfull).2

/-- insert (pos, x) / emplace (pos, x) into a full container -/
theorem uses_growth_insert (cfg : Cfg) (c pos : Nat) (s : Src α) (rv : Bool) (w w' : World α) (r : Nat)
    (hp : Pre cfg w c) (ha : ArgOK cfg w c s) (hrv : rv = true → ∃ a, s = .extMove a) (hpol : StrongPolicy cfg)
    (hpos : pos ≤ (w.hdr c).size) (hfull : ¬ (w.hdr c).size < (w.hdr c).cap) (hr : emplaceAt cfg c pos s rv w = .ok r w') :
    (w'.hdr c).cap = newCapacity cfg.maxSize (w.hdr c).cap ((w.hdr c).size + 1) :=
  (C10.insert_grows cfg c pos s rv w w' r hp ha hrv hpol hpos hfull hr).2

/-- append (first, last) that does not fit -/
theorem uses_growth_append (cfg : Cfg) (c : Nat) (vs : List α) (w w' : World α) (r : Nat)
    (hp : Pre cfg w c) (hpol : StrongPolicy cfg) (hgrow : ¬ (w.hdr c).size + vs.length ≤ (w.hdr c).cap)
    (hr : appendRangeFwd cfg c true (vs.map Src.ext) w = .ok r w') :
    (w'.hdr c).cap = newCapacity cfg.maxSize (w.hdr c).cap ((w.hdr c).size + vs.length) := by
  have h := (sat_of_ok (appendRangeFwd_sat cfg c true _ w hp.vec hp.led hp.nmax ((argsOK_ext cfg w c vs).srcs hp.vec hp.led) (fun _ => hpol)) hr).2
  have := h.grown (by simpa using hgrow)
  simpa using this.2

/-- assign (n, x) beyond the capacity -/
theorem uses_growth_assign (cfg : Cfg) (c n : Nat) (a : α) (w w' : World α) (hp : Pre cfg w c) (hgrow : (w.hdr c).cap < n)
    (hr : assignWithCopies cfg c n (.ext a) w = .ok () w') :
    (w'.hdr c).cap = newCapacity cfg.maxSize (w.hdr c).cap n :=
  (C10.assign_n_grows cfg c n a w w' hp hgrow hr).2

/-- reserve (n) beyond the capacity -/
theorem uses_growth_reserve (cfg : Cfg) (c n : Nat) (w w' : World α) (hp : Pre cfg w c) (hpol : StrongPolicy cfg)
    (hgrow : ¬ n ≤ (w.hdr c).cap) (hr : requestCapacity cfg c n w = .ok () w') :
    (w'.hdr c).cap = newCapacity cfg.maxSize (w.hdr c).cap n :=
  ((sat_of_ok (requestCapacity_sat cfg c n w hp.vec hp.led hp.nmax hpol) hr).2.2.2 hgrow).1

/-- the property's clause for push_back on the L2 model: a reallocating push_back that returns leaves a capacity of at
    least size + 1, at most max_size, and at least 1.5 × (indeed 2 ×) the old capacity unless saturated at max_size -/
theorem push_back_growth_is_geometric (cfg : Cfg) (c : Nat) (s : Src α) (w w' : World α) (r : Nat)
    (hp : Pre cfg w c) (ha : ArgOK cfg w c s) (hpol : StrongPolicy cfg) (hfull : ¬ (w.hdr c).size < (w.hdr c).cap)
    (hroom : (w.hdr c).size + 1 ≤ cfg.maxSize) (hr : appendElement cfg c s w = .ok r w') :
    (w.hdr c).size + 1 ≤ (w'.hdr c).cap ∧ (w'.hdr c).cap ≤ cfg.maxSize ∧
    ((w'.hdr c).cap = cfg.maxSize ∨ 3 * (w.hdr c).cap ≤ 2 * (w'.hdr c).cap) := by
  rw [uses_growth_push_back cfg c s w w' r hp ha hpol hfull hr]
  have hsz := hp.vec.size_le
  have := growth_facts cfg.maxSize (w.hdr c).cap ((w.hdr c).size + 1) (by omega) hroom
  exact ⟨this.1, this.2.1, this.2.2.2⟩

end SvModel.C14
