/-
C14 on the L2 model itself: n push_backs on the slot machine — any inline capacity, any start state, any element flavour —
add at most logarithmically many ALLOCATION EVENTS to the trace.  The capacity and size evolve exactly as the L1 view
`C14.push` says (from `appendElement_sat`: in place when size < capacity, otherwise the generated growth function), and the
number of allocation events added by each push_back is bounded by the L1 counter's increment (`Proofs/AllocCount.lean`:
none in place, at most one otherwise); so the potential argument of Properties/C14.lean applies to the real run.
-/
import SvModel.Properties.C14Uses
import SvModel.Proofs.AllocCount
import SvModel.Proofs.CtorCount
import SvModel.Proofs.Examples

namespace SvModel.C14
open SvModel Gen
variable {α : Type}

/-- a run of push_backs of external values in which every call returns -/
def pushRun (cfg : Cfg) (c : Nat) : List α → World α → Option (World α)
  | [], w => some w
  | v :: vs, w =>
    match appendElement cfg c (.ext v) w with
    | .ok _ w' => pushRun cfg c vs w'
    | .thrown _ _ => none

/-- a push_back into spare capacity adds no allocation event -/
theorem push_in_place_no_alloc (cfg : Cfg) (c : Nat) (s : Src α) (w : World α) (hfit : (w.hdr c).size < (w.hdr c).cap) :
    nAlloc (appendElement cfg c s w).world.trace ≤ nAlloc w.trace := by
  have e0 : guard_appendElement_0 (genv cfg (w.hdr c)) = decide ((w.hdr c).size < (w.hdr c).cap) := rfl
  have h := AB.emplaceIntoCurrentEnd cfg c s w
  unfold appendElement
  rw [bind_run, getV_run]
  simp only []
  rw [e0, if_pos (decide_eq_true hfit)]
  exact h

/-- one push_back simulates the L1 step: same capacity and size, at most as many allocation events -/
theorem push_simulates (cfg : Cfg) (c : Nat) (v : α) (w w' : World α) (r : Nat) (st : St) (b : Nat)
    (hp : Pre cfg w c) (hpol : StrongPolicy cfg) (hcap : st.cap = (w.hdr c).cap) (hsize : st.size = (w.hdr c).size)
    (hal : nAlloc w.trace ≤ b + st.allocs) (hr : appendElement cfg c (.ext v) w = .ok r w') :
    Pre cfg w' c ∧ (push cfg.maxSize st).cap = (w'.hdr c).cap ∧ (push cfg.maxSize st).size = (w'.hdr c).size ∧
    nAlloc w'.trace ≤ b + (push cfg.maxSize st).allocs := by
  have ha : ArgOK cfg w c (.ext v) := ⟨rfl, fun _ _ h => by simp [Src.loc] at h, fun _ _ h => by simp [Src.loc] at h⟩
  have h := (sat_of_ok (appendElement_sat cfg c _ w hp.vec hp.led hp.nmax ha hpol) hr).2
  have hN : (w'.hdr c).N = (w.hdr c).N := h.frame.hdr_N
  have hpre : Pre cfg w' c := ⟨h.vec, h.led, by rw [hN]; exact hp.nmax, by rw [h.ub]; exact hp.ub⟩
  have hab := AB.appendElement cfg c (.ext v) w
  rw [hr] at hab
  simp only [Res.world] at hab
  unfold push
  by_cases hlt : (w.hdr c).size < (w.hdr c).cap
  · have hlt' : st.size < st.cap := by rw [hcap, hsize]; exact hlt
    simp only [hlt', if_true]
    have hnone := push_in_place_no_alloc cfg c (.ext v) w hlt
    rw [hr] at hnone
    simp only [Res.world] at hnone
    exact ⟨hpre, by rw [(h.inplace hlt).2.1]; exact hcap, by rw [h.size]; show st.size + 1 = _; rw [hsize], Nat.le_trans hnone hal⟩
  · have hlt' : ¬ st.size < st.cap := by rw [hcap, hsize]; exact hlt
    simp only [hlt', if_false]
    refine ⟨hpre, ?_, by rw [h.size]; show st.size + 1 = _; rw [hsize], ?_⟩
    · show newCapacity cfg.maxSize st.cap (st.size + 1) = _
      rw [(h.grown hlt).2, hcap, hsize]
    · show nAlloc w'.trace ≤ b + (st.allocs + 1)
      omega

/-- a run of push_backs simulates `pushN` -/
theorem pushRun_simulates (cfg : Cfg) (c : Nat) (hpol : StrongPolicy cfg) :
    ∀ (vs : List α) (w w' : World α) (st : St) (b : Nat), Pre cfg w c → st.cap = (w.hdr c).cap → st.size = (w.hdr c).size →
      nAlloc w.trace ≤ b + st.allocs → pushRun cfg c vs w = some w' →
      Pre cfg w' c ∧ (pushN cfg.maxSize vs.length st).cap = (w'.hdr c).cap ∧ (pushN cfg.maxSize vs.length st).size = (w'.hdr c).size ∧
      nAlloc w'.trace ≤ b + (pushN cfg.maxSize vs.length st).allocs
  | [], w, w', st, b, hp, hc, hs, ha, hr => by
    injection hr with hr; subst hr
    exact ⟨hp, hc, hs, ha⟩
  | v :: vs, w, w', st, b, hp, hc, hs, ha, hr => by
    unfold pushRun at hr
    cases h1 : appendElement cfg c (.ext v) w with
    | thrown e w1 => rw [h1] at hr; cases hr
    | ok r w1 =>
      rw [h1] at hr
      obtain ⟨hp1, hc1, hs1, ha1⟩ := push_simulates cfg c v w w1 r st b hp hpol hc hs ha h1
      exact pushRun_simulates cfg c hpol vs w1 w' (push cfg.maxSize st) b hp1 hc1 hs1 ha1 hr

/-- C14 on the L2 model: from ANY valid state of a container (capacity c0 — the inline capacity, or whatever it has grown
    to), n push_backs that return add `a` allocation events with  2^a · max c0 1 ≤ max (2 · capacity') (max c0 1)  and
    capacity' ≤ max c0 (2 · size'): logarithmically many allocations, for every n, every inline capacity incl. 0, every
    element flavour and allocator configuration -/
theorem l2_push_allocs_log (cfg : Cfg) (c : Nat) (hpol : StrongPolicy cfg) (vs : List α) (w w' : World α)
    (hp : Pre cfg w c) (hm : 2 * ((w.hdr c).size + vs.length) < cfg.maxSize) (hr : pushRun cfg c vs w = some w') :
    (w'.hdr c).size = (w.hdr c).size + vs.length ∧
    (w'.hdr c).cap ≤ max (w.hdr c).cap (2 * (w'.hdr c).size) ∧
    2 ^ (nAlloc w'.trace - nAlloc w.trace) * max (w.hdr c).cap 1 ≤ max (2 * (w'.hdr c).cap) (max (w.hdr c).cap 1) := by
  let st : St := { cap := (w.hdr c).cap, size := (w.hdr c).size, allocs := 0, relocs := 0 }
  have hI : Inv (w.hdr c).cap st :=
    ⟨hp.vec.size_le, Nat.le_max_left _ _,
     by show 2 ^ 0 * max (w.hdr c).cap 1 ≤ max (2 * (w.hdr c).cap) (max (w.hdr c).cap 1); simp only [Nat.max_def]; split <;> split <;> omega,
     Nat.le_refl _⟩
  obtain ⟨_, hc', hs', ha'⟩ := pushRun_simulates cfg c hpol vs w w' st (nAlloc w.trace) hp rfl rfl (Nat.le_refl _) hr
  obtain ⟨hInv, hsz⟩ := pushN_inv cfg.maxSize (w.hdr c).cap vs.length st hI hm
  have hsz' : (w'.hdr c).size = (w.hdr c).size + vs.length := by rw [← hs', hsz]
  refine ⟨hsz', ?_, ?_⟩
  · have := hInv.cap; rw [hc', hs'] at this; exact this
  · have hpot := hInv.pot
    rw [hc'] at hpot
    have hle : nAlloc w'.trace - nAlloc w.trace ≤ (pushN cfg.maxSize vs.length st).allocs := by omega
    exact Nat.le_trans (Nat.mul_le_mul_right _ (Nat.pow_le_pow_right (by omega) hle)) hpot

/-- one push_back simulates the L1 step also on the CONSTRUCTION counter: at most 1 + (the L1 relocation increment) -/
theorem push_simulates_ctor (cfg : Cfg) (c : Nat) (v : α) (w w' : World α) (r : Nat) (st : St) (b k : Nat)
    (hcap : st.cap = (w.hdr c).cap) (hsize : st.size = (w.hdr c).size)
    (hct : nCtor w.trace ≤ b + k + st.relocs) (hr : appendElement cfg c (.ext v) w = .ok r w') :
    nCtor w'.trace ≤ b + (k + 1) + (push cfg.maxSize st).relocs := by
  have h := appendElement_ctor_bound cfg c (.ext v) w
  rw [hr] at h
  simp only [Res.world] at h
  unfold push
  by_cases hlt : (w.hdr c).size < (w.hdr c).cap
  · have hlt' : st.size < st.cap := by rw [hcap, hsize]; exact hlt
    simp only [hlt', if_true]
    rw [if_pos hlt] at h
    omega
  · have hlt' : ¬ st.size < st.cap := by rw [hcap, hsize]; exact hlt
    simp only [hlt', if_false]
    rw [if_neg hlt] at h
    show nCtor w'.trace ≤ b + (k + 1) + (st.relocs + st.size)
    omega

theorem pushRun_simulates_ctor (cfg : Cfg) (c : Nat) (hpol : StrongPolicy cfg) :
    ∀ (vs : List α) (w w' : World α) (st : St) (b k : Nat), Pre cfg w c → st.cap = (w.hdr c).cap → st.size = (w.hdr c).size →
      nCtor w.trace ≤ b + k + st.relocs → pushRun cfg c vs w = some w' →
      nCtor w'.trace ≤ b + (k + vs.length) + (pushN cfg.maxSize vs.length st).relocs
  | [], w, w', st, b, k, _, _, _, hct, hr => by
    injection hr with hr; subst hr
    exact hct
  | v :: vs, w, w', st, b, k, hp, hc, hs, hct, hr => by
    unfold pushRun at hr
    cases h1 : appendElement cfg c (.ext v) w with
    | thrown e w1 => rw [h1] at hr; cases hr
    | ok r w1 =>
      rw [h1] at hr
      obtain ⟨hp1, hc1, hs1, _⟩ := push_simulates cfg c v w w1 r st (nAlloc w.trace) hp hpol hc hs (Nat.le_add_right _ _) h1
      have hct1 := push_simulates_ctor cfg c v w w1 r st b k hc hs hct h1
      have := pushRun_simulates_ctor cfg c hpol vs w1 w' (push cfg.maxSize st) b (k + 1) hp1 hc1 hs1 hct1 hr
      show nCtor w'.trace ≤ b + (k + (vs.length + 1)) + (pushN cfg.maxSize vs.length (push cfg.maxSize st)).relocs
      omega

/-- C14 on the L2 model, relocations: a run of n returning push_backs from any valid state adds at most
    n + (capacity' − c0) construction events — the n new elements plus fewer than capacity' ≤ max c0 (2·size') relocated
    ones: linear in n, for every inline capacity, start state, element flavour and allocator configuration -/
theorem l2_push_constructions_linear (cfg : Cfg) (c : Nat) (hpol : StrongPolicy cfg) (vs : List α) (w w' : World α)
    (hp : Pre cfg w c) (hm : 2 * ((w.hdr c).size + vs.length) < cfg.maxSize) (hr : pushRun cfg c vs w = some w') :
    nCtor w'.trace - nCtor w.trace + (w.hdr c).cap ≤ vs.length + (w'.hdr c).cap ∧
    (w'.hdr c).cap ≤ max (w.hdr c).cap (2 * ((w.hdr c).size + vs.length)) := by
  let st : St := { cap := (w.hdr c).cap, size := (w.hdr c).size, allocs := 0, relocs := 0 }
  have hI : Inv (w.hdr c).cap st :=
    ⟨hp.vec.size_le, Nat.le_max_left _ _,
     by show 2 ^ 0 * max (w.hdr c).cap 1 ≤ max (2 * (w.hdr c).cap) (max (w.hdr c).cap 1); simp only [Nat.max_def]; split <;> split <;> omega,
     Nat.le_refl _⟩
  have hct := pushRun_simulates_ctor cfg c hpol vs w w' st (nCtor w.trace) 0 hp rfl rfl (by show nCtor w.trace ≤ nCtor w.trace + 0 + 0; omega) hr
  obtain ⟨_, hc', hs', _⟩ := pushRun_simulates cfg c hpol vs w w' st (nAlloc w.trace) hp rfl rfl (Nat.le_add_right _ _) hr
  obtain ⟨hInv, hsz⟩ := pushN_inv cfg.maxSize (w.hdr c).cap vs.length st hI hm
  have hrel := pushN_relocs cfg.maxSize (w.hdr c).cap vs.length st hI (by show 0 + (w.hdr c).cap ≤ (w.hdr c).cap; omega) hm
  rw [hc'] at hrel
  refine ⟨by omega, ?_⟩
  have := hInv.cap
  rw [hc', hsz] at this
  exact this

/-- non-vacuity: ten push_backs onto the full inline container [1, 2] (N = 2) of Proofs/Examples.lean all return, the
    capacity goes 2 → 4 → 8 → 16 and exactly three allocation events are added -/
example : (match pushRun Ex.cfgT 0 [3, 4, 5, 6, 7, 8, 9, 10, 11, 12] Ex.w0 with
           | some w' => (w'.hdr 0).size == 12 && (w'.hdr 0).cap == 16 && nAlloc w'.trace - nAlloc Ex.w0.trace == 3 &&
                        nCtor w'.trace - nCtor Ex.w0.trace == 10 + (2 + 4 + 8)
           | none => false) = true := by decide +kernel

end SvModel.C14
