/-
Histories — the per-operation theorems lifted to EVERY finite call history (the quantifier of C01, C02, C03, C05, C06).

`SOp` is the single-container sub-language whose operations have refinement theorems (it grows with the proof
families): push_back (of an outside value or of the container's own element i), pop_back, erase, erase(range), clear,
reserve, shrink_to_fit, resize(n), resize(n, v), append(range), insert(end, n, v), insert(pos, v) / emplace(pos, v),
insert(pos, T&&), insert(pos, v[i]), assign(n, v), assign(first, last),
insert(pos, n, v) (also with v = own element), insert(pos, first, last).  A history is a list of (operation,
fault list): the fault list is installed before the call, the call returns or throws, and the history continues from
the world the call left behind — exactly how the harness drives the real container.

 * `reachable_inv`   every state reached by a valid history from a state satisfying `Pre` (VecOK ∧ Ledger ∧ ub = [])
                     satisfies `Pre` again: the storage invariants (C02), the object-lifetime discipline (C03: `ub = []`,
                     objects exactly in [0, size)), the ledger (C04) hold after every call, returned or thrown (C06).
 * `history_refines` along a valid history in which every throwing call is one with the strong guarantee, the contents
                     are `specHist` — the L0 (std::vector) functions folded over the calls that returned, calls that
                     threw contributing nothing (C01 + C05).
 * `history_tracks`  without that restriction: after every call there is a value list the container holds, it is the L0
                     result if the call returned and the old list if a strong call threw.
-/
import SvModel.Properties.Core
import SvModel.Properties.InsertProps
import SvModel.Properties.AssignProps
import SvModel.Proofs.InputAssign

namespace SvModel.History
open SvModel Gen
variable {α : Type}

inductive SOp (α : Type) where
  | pushBack (v : α) | pushBackMove (v : α) | pushBackSelf (i : Nat) | popBack | erase (p : Nat) | eraseRange (p q : Nat) | clear
  | reserve (n : Nat) | shrinkToFit | resize (n : Nat) (dflt : α) | resizeVal (n : Nat) (v : α)
  | append (vs : List α) | insertEndN (n : Nat) (v : α)
  | insert (p : Nat) (v : α) | insertMove (p : Nat) (v : α) | insertSelf (p i : Nat)
  | assign (n : Nat) (v : α) | assignRange (vs : List α)
  | insertN (p n : Nat) (v : α) | insertNSelf (p n i : Nat) | insertRange (p : Nat) (vs : List α)
  /- single-pass (input iterator) ranges; `sid` names the stream in the trace.  `appendInput true`: the public append ();
     `appendInput false`: insert (end (), first, last) and the range constructor's loop -/
  | appendInput (strong : Bool) (sid : Nat) (vs : List α) | assignInput (sid : Nat) (vs : List α)
  /- element access: at (i) (out_of_range beyond size (), by the GENERATED test) and operator[] (i) -/
  | atIdx (i : Nat) | index (i : Nat)
  | resizeSelf (n i : Nat)      -- resize (n, v[i])
  deriving DecidableEq

/-- API preconditions, in terms of the current size -/
def SOp.valid (size : Nat) : SOp α → Prop
  | .pushBackSelf i => i < size
  | .popBack => 0 < size
  | .erase p => p < size
  | .eraseRange p q => p ≤ q ∧ q ≤ size
  | .insert p _ | .insertMove p _ => p ≤ size
  | .insertSelf p i => p ≤ size ∧ i < size
  | .insertN p _ _ => p ≤ size
  | .insertNSelf p _ i => p ≤ size ∧ i < size
  | .insertRange p vs => p ≤ size ∧ vs ≠ []
  | .index i => i < size
  | .resizeSelf _ i => i < size
  | _ => True

/-- the model program of the call on container `c` (the aliasing source is resolved against the current buffer) -/
def SOp.run (cfg : Cfg) (c : Nat) (w : World α) : SOp α → M α Unit
  | .pushBack v => appendElement cfg c (.ext v) >>= fun _ => pure ()
  | .pushBackMove v => appendElement cfg c (.extMove v) >>= fun _ => pure ()     -- push_back (T&&) / emplace_back of a prvalue
  | .pushBackSelf i => appendElement cfg c (.copyOf (w.hdr c).data i) >>= fun _ => pure ()
  | .popBack => eraseLast cfg c
  | .erase p => eraseAt cfg c p >>= fun _ => pure ()
  | .eraseRange p q => SvModel.eraseRange cfg c p q >>= fun _ => pure ()
  | .clear => eraseAll cfg c
  | .reserve n => requestCapacity cfg c n
  | .shrinkToFit => shrinkToSize cfg c
  | .resize n d => resizeWith cfg c n (.value d)
  | .resizeVal n v => resizeWith cfg c n (.ext v)
  | .append vs => appendRangeFwd cfg c true (vs.map Src.ext) >>= fun _ => pure ()
  | .insertEndN n v => appendCopies cfg c n (.ext v) >>= fun _ => pure ()
  | .insert p v => emplaceAt cfg c p (.ext v) false >>= fun _ => pure ()
  | .insertMove p v => emplaceAt cfg c p (.extMove v) true >>= fun _ => pure ()
  | .insertSelf p i => emplaceAt cfg c p (.copyOf (w.hdr c).data i) false >>= fun _ => pure ()
  | .assign n v => assignWithCopies cfg c n (.ext v)
  | .assignRange vs => assignWithRangeFwd cfg c (vs.map Src.ext)
  | .insertN p n v => insertCopies cfg c p n (.ext v) >>= fun _ => pure ()
  | .insertNSelf p n i => insertCopies cfg c p n (.copyOf (w.hdr c).data i) >>= fun _ => pure ()
  | .insertRange p vs => insertRangeFwd cfg c p (vs.map Src.ext) >>= fun _ => pure ()
  | .appendInput st sid vs => appendRangeInput cfg c st sid 0 vs >>= fun _ => pure ()
  | .assignInput sid vs => assignWithRangeInput cfg c sid vs
  | .atIdx i => getV c >>= fun v => if guard_at0_0 { size := v.size, pos := i } then throwE .range else readSlot v.data i >>= fun _ => pure ()
  | .index i => getV c >>= fun v => readSlot v.data i >>= fun _ => pure ()
  | .resizeSelf n i => resizeWith cfg c n (.copyOf (w.hdr c).data i)

/-- what std::vector does (Spec/L0.lean) -/
def SOp.spec : SOp α → List (Val α) → List (Val α)
  | .pushBack v, xs => L0.pushBack xs (.val v)
  | .pushBackMove v, xs => L0.pushBack xs (.val v)
  | .pushBackSelf i, xs => L0.pushBack xs (xs.getD i .husk)
  | .popBack, xs => L0.popBack xs
  | .erase p, xs => (L0.eraseAt xs p).1
  | .eraseRange p q, xs => (L0.eraseRange xs p q).1
  | .clear, xs => L0.clear xs
  | .reserve _, xs => xs
  | .shrinkToFit, xs => xs
  | .resize n d, xs => L0.resize xs n (.val d)
  | .resizeVal n v, xs => L0.resize xs n (.val v)
  | .append vs, xs => L0.append xs (vs.map Val.val)
  | .insertEndN n v, xs => (L0.insertN xs xs.length n (.val v)).1
  | .insert p v, xs => (L0.insertAt xs p (.val v)).1
  | .insertMove p v, xs => (L0.insertAt xs p (.val v)).1
  | .insertSelf p i, xs => (L0.insertAt xs p (xs.getD i .husk)).1
  | .assign n v, _ => L0.assignN n (.val v)
  | .assignRange vs, _ => L0.assignRange (vs.map Val.val)
  | .insertN p n v, xs => (L0.insertN xs p n (.val v)).1
  | .insertNSelf p n i, xs => (L0.insertN xs p n (xs.getD i .husk)).1
  | .insertRange p vs, xs => (L0.insertRange xs p (vs.map Val.val)).1
  | .appendInput _ _ vs, xs => L0.append xs (vs.map Val.val)
  | .assignInput _ vs, _ => L0.assignRange (vs.map Val.val)
  | .atIdx _, xs => xs
  | .index _, xs => xs
  | .resizeSelf n i, xs => L0.resize xs n (xs.getD i .husk)

/-- operations with the strong exception guarantee (erase and erase(range) only have the basic one) -/
def SOp.strong : SOp α → Bool
  | .erase _ | .eraseRange _ _ => false
  | .insertEndN _ _ => false     -- insert (end, n, x) is append_copies without the strong policy: basic guarantee
  | .insert _ _ | .insertMove _ _ | .insertSelf _ _ => false   -- strong only at the end position (C05.insert_at_end_strong)
  | .assign _ _ | .assignRange _ => false                      -- basic guarantee (strong only when it reallocates)
  | .insertN _ _ _ | .insertNSelf _ _ _ | .insertRange _ _ => false
  | .appendInput st _ _ => st     -- the public append () erases what it added; insert (end (), …) keeps the prefix
  | .assignInput _ _ => false
  | _ => true

theorem pre_faults {cfg : Cfg} {w : World α} {c : Nat} (hp : Pre cfg w c) (f : List Nat) : Pre cfg { w with faults := f } c :=
  ⟨⟨hp.vec.size_le, hp.vec.cap_ge, hp.vec.cap_max, hp.vec.inl_iff, hp.vec.inl_lt, hp.vec.len, hp.vec.objs, hp.vec.raws, hp.vec.heap, hp.vec.idle⟩,
   ⟨hp.led.next_ok, hp.led.ntmp_ok, hp.led.live_ok, hp.led.nodup, hp.led.freed, hp.led.tmpfresh⟩, hp.nmax, hp.ub⟩

theorem holds_faults {w : World α} {c : Nat} {xs : List (Val α)} (h : Holds w c xs) (f : List Nat) : Holds { w with faults := f } c xs := h

/-- lift `m >>= fun _ => pure ()` -/
theorem run_discard {β : Type} (m : M α β) (w : World α) :
    (m >>= fun _ => (pure () : M α Unit)) w = match m w with | .ok _ w' => .ok () w' | .thrown e w' => .thrown e w' := by
  rw [bind_run]; cases m w <;> rfl

/-- ONE CALL, frame form: in both outcomes the container is valid again and everything that is not its own storage is
    untouched (`Basic`: VecOK, Ledger, empty UB log, `Frame1` incl. the live-block accounting); contents per L0 on return;
    unchanged when a strong call throws -/
theorem step_basic (cfg : Cfg) (c : Nat) (op : SOp α) (w : World α) (xs : List (Val α))
    (hp : Pre cfg w c) (hpol : StrongPolicy cfg) (hx : Holds w c xs) (hv : op.valid (w.hdr c).size) :
    match op.run cfg c w w with
    | .ok _ w' => Basic cfg w w' c ∧ Holds w' c (op.spec xs)
    | .thrown _ w' => Basic cfg w w' c ∧ (op.strong = true → Holds w' c xs) := by
  have hlen : xs.length = (w.hdr c).size := hx.1
  cases op with
  | pushBack v =>
    have ha : ArgOK cfg w c (.ext v) := ⟨rfl, fun _ _ h => by simp [Src.loc] at h, fun _ _ h => by simp [Src.loc] at h⟩
    show match (appendElement cfg c (.ext v) >>= fun _ => pure ()) w with | .ok _ w' => _ | .thrown _ w' => _
    rw [run_discard]
    cases hr : appendElement cfg c (.ext v) w with
    | ok r w' =>
      have h := sat_of_ok (appendElement_sat cfg c _ w hp.vec hp.led hp.nmax ha hpol) hr
      exact ⟨⟨h.2.vec, h.2.led, h.2.ub, h.2.frame⟩, (C01.push_back_refines cfg c _ w w' r xs hp ha hpol hx hr).1⟩
    | thrown e w' =>
      have h := C05.push_back_strong cfg c _ w w' e xs hp ha hpol hx hr
      exact ⟨(C06.push_back_basic cfg c _ w w' e hp ha hpol hr), fun _ => h.1⟩
  | pushBackMove v =>
    have ha : ArgOK cfg w c (.extMove v) := ⟨rfl, fun _ _ h => by simp [Src.loc] at h, fun _ _ h => by simp [Src.loc] at h⟩
    show match (appendElement cfg c (.extMove v) >>= fun _ => pure ()) w with | .ok _ w' => _ | .thrown _ w' => _
    rw [run_discard]
    cases hr : appendElement cfg c (.extMove v) w with
    | ok r w' =>
      have h := sat_of_ok (appendElement_sat cfg c _ w hp.vec hp.led hp.nmax ha hpol) hr
      exact ⟨⟨h.2.vec, h.2.led, h.2.ub, h.2.frame⟩, (C01.push_back_refines cfg c _ w w' r xs hp ha hpol hx hr).1⟩
    | thrown e w' =>
      have h := C05.push_back_strong cfg c _ w w' e xs hp ha hpol hx hr
      exact ⟨(C06.push_back_basic cfg c _ w w' e hp ha hpol hr), fun _ => h.1⟩
  | pushBackSelf i =>
    have hi : i < xs.length := by rw [hlen]; exact hv
    have hslot := hx.2 i hi
    have ha : ArgOK cfg w c (.copyOf (w.hdr c).data i) :=
      ⟨rfl, fun b j hl => by simp [Src.loc] at hl; obtain ⟨h1, h2⟩ := hl; subst h1; subst h2; exact ⟨_, hslot⟩,
       fun b j hl => by simp [Src.loc] at hl; obtain ⟨h1, h2⟩ := hl; subst h1; subst h2; exact ⟨rfl, by rw [← hx.1]; exact hi⟩⟩
    show match (appendElement cfg c (.copyOf (w.hdr c).data i) >>= fun _ => pure ()) w with | .ok _ w' => _ | .thrown _ w' => _
    rw [run_discard]
    cases hr : appendElement cfg c (.copyOf (w.hdr c).data i) w with
    | ok r w' =>
      have h := sat_of_ok (appendElement_sat cfg c _ w hp.vec hp.led hp.nmax ha hpol) hr
      refine ⟨⟨h.2.vec, h.2.led, h.2.ub, h.2.frame⟩, ?_⟩
      have := C11.push_back_alias cfg c i w w' r xs hp hpol hx hi hr
      show Holds w' c (L0.pushBack xs (xs.getD i .husk))
      rw [List.getD_eq_getElem?_getD, List.getElem?_eq_getElem hi]
      exact this
    | thrown e w' =>
      have h := C05.push_back_strong cfg c _ w w' e xs hp ha hpol hx hr
      exact ⟨(C06.push_back_basic cfg c _ w w' e hp ha hpol hr), fun _ => h.1⟩
  | popBack =>
    show match eraseLast cfg c w with | .ok _ w' => _ | .thrown _ w' => _
    have hs := eraseLast_sat cfg c w hp.vec hp.led hv
    cases hr : eraseLast cfg c w with
    | ok r w' =>
      rw [hr] at hs
      exact ⟨hs.basic, hs.holds xs hx⟩
    | thrown e w' => rw [hr] at hs; exact hs.elim
  | erase p =>
    show match (eraseAt cfg c p >>= fun _ => pure ()) w with | .ok _ w' => _ | .thrown _ w' => _
    rw [run_discard]
    have hs := eraseAt_sat cfg c p w hp.vec hp.led hv
    cases hr : eraseAt cfg c p w with
    | ok r w' =>
      rw [hr] at hs
      exact ⟨hs.2.basic, hs.2.holds xs hx⟩
    | thrown e w' =>
      rw [hr] at hs
      exact ⟨hs.2.1, fun h => by simp [SOp.strong] at h⟩
  | eraseRange p q =>
    show match (SvModel.eraseRange cfg c p q >>= fun _ => pure ()) w with | .ok _ w' => _ | .thrown _ w' => _
    rw [run_discard]
    have hs := eraseRange_sat cfg c p q w hp.vec hp.led hv.1 hv.2
    cases hr : SvModel.eraseRange cfg c p q w with
    | ok r w' =>
      rw [hr] at hs
      exact ⟨hs.2.basic, hs.2.holds xs hx⟩
    | thrown e w' =>
      rw [hr] at hs
      exact ⟨hs.2.1, fun h => by simp [SOp.strong] at h⟩
  | clear =>
    show match eraseAll cfg c w with | .ok _ w' => _ | .thrown _ w' => _
    have hs := eraseAll_sat cfg c w hp.vec hp.led
    cases hr : eraseAll cfg c w with
    | ok r w' =>
      rw [hr] at hs
      exact ⟨hs.basic, hs.holds xs hx⟩
    | thrown e w' => rw [hr] at hs; exact hs.elim
  | reserve n =>
    show match requestCapacity cfg c n w with | .ok _ w' => _ | .thrown _ w' => _
    have hs := requestCapacity_sat cfg c n w hp.vec hp.led hp.nmax hpol
    cases hr : requestCapacity cfg c n w with
    | ok r w' =>
      rw [hr] at hs
      exact ⟨hs.1.basic, hs.1.holds xs hx⟩
    | thrown e w' =>
      rw [hr] at hs
      have hs : Strong w w' := hs
      exact ⟨(hs.basic hp.led hp.vec), fun _ => hs.holds hp.led hp.vec hx⟩
  | shrinkToFit =>
    show match shrinkToSize cfg c w with | .ok _ w' => _ | .thrown _ w' => _
    have hs := shrinkToSize_sat cfg c w hp.vec hp.led hp.nmax hpol
    cases hr : shrinkToSize cfg c w with
    | ok r w' =>
      rw [hr] at hs
      exact ⟨hs.1.basic, hs.1.holds xs hx⟩
    | thrown e w' =>
      rw [hr] at hs
      have hs : Strong w w' := hs
      exact ⟨(hs.basic hp.led hp.vec), fun _ => hs.holds hp.led hp.vec hx⟩
  | resize n d =>
    have ha : ArgOK cfg w c (.value d) := ⟨rfl, fun _ _ h => by simp [Src.loc] at h, fun _ _ h => by simp [Src.loc] at h⟩
    show match resizeWith cfg c n (.value d) w with | .ok _ w' => _ | .thrown _ w' => _
    have hs := resizeWith_sat cfg c n (.value d) w hp.vec hp.led hp.nmax ha hpol
    cases hr : resizeWith cfg c n (.value d) w with
    | ok r w' =>
      rw [hr] at hs
      exact ⟨hs.basic, hs.holds xs hx⟩
    | thrown e w' =>
      rw [hr] at hs
      have hs : Strong w w' := hs
      exact ⟨(hs.basic hp.led hp.vec), fun _ => hs.holds hp.led hp.vec hx⟩
  | resizeVal n v =>
    have ha : ArgOK cfg w c (.ext v) := ⟨rfl, fun _ _ h => by simp [Src.loc] at h, fun _ _ h => by simp [Src.loc] at h⟩
    show match resizeWith cfg c n (.ext v) w with | .ok _ w' => _ | .thrown _ w' => _
    have hs := resizeWith_sat cfg c n (.ext v) w hp.vec hp.led hp.nmax ha hpol
    cases hr : resizeWith cfg c n (.ext v) w with
    | ok r w' =>
      rw [hr] at hs
      exact ⟨hs.basic, hs.holds xs hx⟩
    | thrown e w' =>
      rw [hr] at hs
      have hs : Strong w w' := hs
      exact ⟨(hs.basic hp.led hp.vec), fun _ => hs.holds hp.led hp.vec hx⟩
  | append vs =>
    show match (appendRangeFwd cfg c true (vs.map Src.ext) >>= fun _ => pure ()) w with | .ok _ w' => _ | .thrown _ w' => _
    rw [run_discard]
    have hs := appendRangeFwd_sat cfg c true _ w hp.vec hp.led hp.nmax ((argsOK_ext cfg w c vs).srcs hp.vec hp.led) (fun _ => hpol)
    cases hr : appendRangeFwd cfg c true (vs.map Src.ext) w with
    | ok r w' =>
      rw [hr] at hs
      exact ⟨hs.2.basic, (C01.append_range_refines cfg c vs w w' r xs hp hpol hx hr).1⟩
    | thrown e w' =>
      rw [hr] at hs
      have hst : Strong w w' := hs.1 rfl
      exact ⟨(hst.basic hp.led hp.vec), fun _ => hst.holds hp.led hp.vec hx⟩
  | insertEndN n v =>
    have ha : ArgOK cfg w c (.ext v) := ⟨rfl, fun _ _ h => by simp [Src.loc] at h, fun _ _ h => by simp [Src.loc] at h⟩
    show match (appendCopies cfg c n (.ext v) >>= fun _ => pure ()) w with | .ok _ w' => _ | .thrown _ w' => _
    rw [run_discard]
    have hs := appendCopies_sat cfg c n (.ext v) w hp.vec hp.led hp.nmax ha
    cases hr : appendCopies cfg c n (.ext v) w with
    | ok r w' =>
      rw [hr] at hs
      exact ⟨hs.2.basic, (C01.insert_n_at_end_refines cfg c n _ w w' r xs hp ha hx hr).1⟩
    | thrown e w' =>
      rw [hr] at hs
      exact ⟨hs.2.1, fun h => by simp [SOp.strong] at h⟩
  | insert p v =>
    have ha : ArgOK cfg w c (.ext v) := ⟨rfl, fun _ _ h => by simp [Src.loc] at h, fun _ _ h => by simp [Src.loc] at h⟩
    show match (emplaceAt cfg c p (.ext v) false >>= fun _ => pure ()) w with | .ok _ w' => _ | .thrown _ w' => _
    rw [run_discard]
    have hs := emplaceAt_sat cfg c p (.ext v) false w hp.vec hp.led hp.nmax hv ha (fun h => by cases h) hpol
    cases hr : emplaceAt cfg c p (.ext v) false w with
    | ok r w' =>
      rw [hr] at hs
      exact ⟨hs.2.1.basic, hs.2.1.holds xs hx⟩
    | thrown e w' =>
      rw [hr] at hs
      exact ⟨hs.1.1, fun h => by simp [SOp.strong] at h⟩
  | insertMove p v =>
    have ha : ArgOK cfg w c (.extMove v) := ⟨rfl, fun _ _ h => by simp [Src.loc] at h, fun _ _ h => by simp [Src.loc] at h⟩
    show match (emplaceAt cfg c p (.extMove v) true >>= fun _ => pure ()) w with | .ok _ w' => _ | .thrown _ w' => _
    rw [run_discard]
    have hs := emplaceAt_sat cfg c p (.extMove v) true w hp.vec hp.led hp.nmax hv ha (fun _ => ⟨v, rfl⟩) hpol
    cases hr : emplaceAt cfg c p (.extMove v) true w with
    | ok r w' =>
      rw [hr] at hs
      exact ⟨hs.2.1.basic, hs.2.1.holds xs hx⟩
    | thrown e w' =>
      rw [hr] at hs
      exact ⟨hs.1.1, fun h => by simp [SOp.strong] at h⟩
  | insertSelf p i =>
    have hi : i < xs.length := by rw [hlen]; exact hv.2
    have hslot := hx.2 i hi
    have ha : ArgOK cfg w c (.copyOf (w.hdr c).data i) :=
      ⟨rfl, fun b j hl => by simp [Src.loc] at hl; obtain ⟨h1, h2⟩ := hl; subst h1; subst h2; exact ⟨_, hslot⟩,
       fun b j hl => by simp [Src.loc] at hl; obtain ⟨h1, h2⟩ := hl; subst h1; subst h2; exact ⟨rfl, by rw [← hx.1]; exact hi⟩⟩
    show match (emplaceAt cfg c p (.copyOf (w.hdr c).data i) false >>= fun _ => pure ()) w with | .ok _ w' => _ | .thrown _ w' => _
    rw [run_discard]
    have hs := emplaceAt_sat cfg c p (.copyOf (w.hdr c).data i) false w hp.vec hp.led hp.nmax hv.1 ha (fun h => by cases h) hpol
    cases hr : emplaceAt cfg c p (.copyOf (w.hdr c).data i) false w with
    | ok r w' =>
      rw [hr] at hs
      refine ⟨hs.2.1.basic, ?_⟩
      have := hs.2.1.holds xs hx
      rw [srcVal_copyOf w _ _ _ hslot] at this
      show Holds w' c (L0.insertAt xs p (xs.getD i .husk)).1
      rw [List.getD_eq_getElem?_getD, List.getElem?_eq_getElem hi]
      exact this
    | thrown e w' =>
      rw [hr] at hs
      exact ⟨hs.1.1, fun h => by simp [SOp.strong] at h⟩
  | assign n v =>
    show match assignWithCopies cfg c n (.ext v) w with | .ok _ w' => _ | .thrown _ w' => _
    have hs := assignWithCopies_sat cfg c n v w hp.vec hp.led hp.nmax
    cases hr : assignWithCopies cfg c n (.ext v) w with
    | ok r w' =>
      rw [hr] at hs
      exact ⟨hs.basic, hs.holds⟩
    | thrown e w' =>
      rw [hr] at hs
      exact ⟨hs.1.1, fun h => by simp [SOp.strong] at h⟩
  | assignRange vs =>
    have hext : External (vs.map (Src.ext (α := α))) := fun s hs => by obtain ⟨a, _, rfl⟩ := List.mem_map.mp hs; rfl
    show match assignWithRangeFwd cfg c (vs.map Src.ext) w with | .ok _ w' => _ | .thrown _ w' => _
    have hs := assignWithRangeFwd_sat cfg c _ w hp.vec hp.led hp.nmax hext
    cases hr : assignWithRangeFwd cfg c (vs.map Src.ext) w with
    | ok r w' =>
      rw [hr] at hs
      have hm : (vs.map Src.ext).map (srcVal w) = vs.map Val.val := by simp [srcVal, Function.comp_def]
      refine ⟨hs.basic, ?_⟩
      have := hs.holds
      rw [hm] at this
      exact this
    | thrown e w' =>
      rw [hr] at hs
      exact ⟨hs.1.1, fun h => by simp [SOp.strong] at h⟩
  | insertN p n v =>
    have ha : ArgOK cfg w c (.ext v) := ⟨rfl, fun _ _ h => by simp [Src.loc] at h, fun _ _ h => by simp [Src.loc] at h⟩
    show match (insertCopies cfg c p n (.ext v) >>= fun _ => pure ()) w with | .ok _ w' => _ | .thrown _ w' => _
    rw [run_discard]
    have hs := insertCopies_sat cfg c p n (.ext v) w hp.vec hp.led hp.nmax hv ha hpol
    cases hr : insertCopies cfg c p n (.ext v) w with
    | ok r w' =>
      rw [hr] at hs
      exact ⟨hs.2.1.basic, hs.2.1.holds xs hx⟩
    | thrown e w' =>
      rw [hr] at hs
      exact ⟨hs.1, fun h => by simp [SOp.strong] at h⟩
  | insertNSelf p n i =>
    have hi : i < xs.length := by rw [hlen]; exact hv.2
    have hslot := hx.2 i hi
    have ha : ArgOK cfg w c (.copyOf (w.hdr c).data i) :=
      ⟨rfl, fun b j hl => by simp [Src.loc] at hl; obtain ⟨h1, h2⟩ := hl; subst h1; subst h2; exact ⟨_, hslot⟩,
       fun b j hl => by simp [Src.loc] at hl; obtain ⟨h1, h2⟩ := hl; subst h1; subst h2; exact ⟨rfl, by rw [← hx.1]; exact hi⟩⟩
    show match (insertCopies cfg c p n (.copyOf (w.hdr c).data i) >>= fun _ => pure ()) w with | .ok _ w' => _ | .thrown _ w' => _
    rw [run_discard]
    have hs := insertCopies_sat cfg c p n (.copyOf (w.hdr c).data i) w hp.vec hp.led hp.nmax hv.1 ha hpol
    cases hr : insertCopies cfg c p n (.copyOf (w.hdr c).data i) w with
    | ok r w' =>
      rw [hr] at hs
      refine ⟨hs.2.1.basic, ?_⟩
      have := hs.2.1.holds xs hx
      rw [srcVal_copyOf w _ _ _ hslot] at this
      show Holds w' c (L0.insertN xs p n (xs.getD i .husk)).1
      rw [List.getD_eq_getElem?_getD, List.getElem?_eq_getElem hi]
      exact this
    | thrown e w' =>
      rw [hr] at hs
      exact ⟨hs.1, fun h => by simp [SOp.strong] at h⟩
  | insertRange p vs =>
    have hlen' : 0 < (vs.map (Src.ext (α := α))).length := by
      cases vs with
      | nil => exact absurd rfl hv.2
      | cons _ _ => simp
    show match (insertRangeFwd cfg c p (vs.map Src.ext) >>= fun _ => pure ()) w with | .ok _ w' => _ | .thrown _ w' => _
    rw [run_discard]
    have hs := insertRangeFwd_sat cfg c p _ w hp.vec hp.led hp.nmax hv.1 hlen' (external_ext vs) hpol
    cases hr : insertRangeFwd cfg c p (vs.map Src.ext) w with
    | ok r w' =>
      rw [hr] at hs
      refine ⟨hs.2.1.basic, ?_⟩
      have := hs.2.1.holds xs hx
      rw [map_srcVal_ext] at this
      exact this
    | thrown e w' =>
      rw [hr] at hs
      exact ⟨hs.1, fun h => by simp [SOp.strong] at h⟩

  | appendInput st sid vs =>
    show match (appendRangeInput cfg c st sid 0 vs >>= fun _ => pure ()) w with | .ok _ w' => _ | .thrown _ w' => _
    rw [run_discard]
    have h := appendRangeInputLoop_sat cfg c st (w.hdr c).size sid hpol vs 0 w hp.vec hp.led hp.nmax (Nat.le_refl _)
    have e : appendRangeInput cfg c st sid 0 vs w =
        match appendRangeInputLoop cfg c st (w.hdr c).size sid 0 vs w with
        | .ok _ w' => .ok (w.hdr c).size w' | .thrown e w' => .thrown e w' := by
      unfold appendRangeInput
      rw [bind_run, getV_run]; simp only []; rw [bind_run]
      cases appendRangeInputLoop cfg c st (w.hdr c).size sid 0 vs w <;> rfl
    rw [e]
    cases hl : appendRangeInputLoop cfg c st (w.hdr c).size sid 0 vs w with
    | ok u w1 => rw [hl] at h; exact ⟨h.1, h.2.1 xs hx⟩
    | thrown e1 w1 =>
      rw [hl] at h
      refine ⟨h.1, fun hs => ?_⟩
      obtain ⟨k, _, hh, _⟩ := h.2 xs hx
      have hs' : st = true := hs
      subst hs'
      simp only [if_true] at hh
      rw [List.take_of_length_le (by rw [hx.1]; exact Nat.le_refl _)] at hh; exact hh
  | assignInput sid vs =>
    show match assignWithRangeInput cfg c sid vs w with | .ok _ w' => _ | .thrown _ w' => _
    have h := assignWithRangeInput_sat cfg c sid vs w hp.vec hp.led hp.nmax hpol
    cases hr : assignWithRangeInput cfg c sid vs w with
    | ok u w1 => rw [hr] at h; exact ⟨h.1, h.2.1 xs hx⟩
    | thrown e1 w1 => rw [hr] at h; exact ⟨h.1, fun hs => by simp [SOp.strong] at hs⟩
  | atIdx i =>
    show match (getV c >>= fun v => if guard_at0_0 { size := v.size, pos := i } then throwE .range else readSlot v.data i >>= fun _ => (pure () : M α Unit)) w with
         | .ok _ w' => _ | .thrown _ w' => _
    rw [bind_run, getV_run]; simp only []
    have eg : guard_at0_0 { size := (w.hdr c).size, pos := i } = decide ((w.hdr c).size ≤ i) := by first | rfl | (simp only [guard_at0_0]; rw [Bool.eq_iff_iff]; simp; try omega)
    rw [eg]
    by_cases h : (w.hdr c).size ≤ i
    · rw [if_pos (decide_eq_true h)]; exact ⟨Basic.refl hp.vec hp.led, fun _ => hx⟩
    · rw [if_neg (by simpa using h)]
      have hi : i < xs.length := by omega
      have hslot := hx.2 i hi
      have hread : readSlot (w.hdr c).data i w = .ok xs[i] w := by unfold readSlot; rw [hslot]
      rw [bind_run, hread]; exact ⟨Basic.refl hp.vec hp.led, hx⟩
  | index i =>
    show match (getV c >>= fun v => readSlot v.data i >>= fun _ => (pure () : M α Unit)) w with
         | .ok _ w' => _ | .thrown _ w' => _
    rw [bind_run, getV_run]; simp only []
    have hi : i < xs.length := by rw [hlen]; exact hv
    have hslot := hx.2 i hi
    have hread : readSlot (w.hdr c).data i w = .ok xs[i] w := by unfold readSlot; rw [hslot]
    rw [bind_run, hread]; exact ⟨Basic.refl hp.vec hp.led, hx⟩
  | resizeSelf n i =>
    have hi : i < xs.length := by rw [hlen]; exact hv
    have hslot := hx.2 i hi
    have ha : ArgOK cfg w c (.copyOf (w.hdr c).data i) :=
      ⟨rfl, fun b j hl => by simp [Src.loc] at hl; obtain ⟨h1, h2⟩ := hl; subst h1; subst h2; exact ⟨_, hslot⟩,
       fun b j hl => by simp [Src.loc] at hl; obtain ⟨h1, h2⟩ := hl; subst h1; subst h2; exact ⟨rfl, by rw [← hx.1]; exact hi⟩⟩
    show match resizeWith cfg c n (.copyOf (w.hdr c).data i) w with | .ok _ w' => _ | .thrown _ w' => _
    have hs := resizeWith_sat cfg c n (.copyOf (w.hdr c).data i) w hp.vec hp.led hp.nmax ha hpol
    cases hr : resizeWith cfg c n (.copyOf (w.hdr c).data i) w with
    | ok r w' =>
      rw [hr] at hs
      refine ⟨hs.basic, ?_⟩
      have := C11.resize_alias cfg c n i w w' xs hp hpol hx hi hr
      show Holds w' c (L0.resize xs n (xs.getD i .husk))
      rw [List.getD_eq_getElem?_getD, List.getElem?_eq_getElem hi]
      exact this
    | thrown e w' =>
      rw [hr] at hs
      have hs : Strong w w' := hs
      exact ⟨(hs.basic hp.led hp.vec), fun _ => hs.holds hp.led hp.vec hx⟩

/-! ### histories -/

instance (size : Nat) (op : SOp α) : Decidable (op.valid size) := by
  cases op <;> unfold SOp.valid <;> exact inferInstance

/-- ONE CALL: invariants re-established in both outcomes; contents per L0 on return; unchanged when a strong call throws -/
theorem step_spec (cfg : Cfg) (c : Nat) (op : SOp α) (w : World α) (xs : List (Val α))
    (hp : Pre cfg w c) (hpol : StrongPolicy cfg) (hx : Holds w c xs) (hv : op.valid (w.hdr c).size) :
    match op.run cfg c w w with
    | .ok _ w' => Pre cfg w' c ∧ Holds w' c (op.spec xs)
    | .thrown _ w' => Pre cfg w' c ∧ (op.strong = true → Holds w' c xs) := by
  have h := step_basic cfg c op w xs hp hpol hx hv
  cases hr : op.run cfg c w w with
  | ok r w' => rw [hr] at h; exact ⟨C06.usable_after_throw cfg c w w' hp h.1, h.2⟩
  | thrown e w' => rw [hr] at h; exact ⟨C06.usable_after_throw cfg c w w' hp h.1, h.2⟩

/-- one call of a history: install the fault list, run, keep the world (also after a throw) -/
def stepW (cfg : Cfg) (c : Nat) (w : World α) (x : SOp α × List Nat) : Res (World α) Unit :=
  x.1.run cfg c { w with faults := x.2 } { w with faults := x.2 }

def runHist (cfg : Cfg) (c : Nat) : World α → List (SOp α × List Nat) → World α
  | w, [] => w
  | w, x :: h => runHist cfg c (stepW cfg c w x).world h

/-- every call's precondition holds in the state it is made in -/
def ValidHist (cfg : Cfg) (c : Nat) : World α → List (SOp α × List Nat) → Prop
  | _, [] => True
  | w, x :: h => x.1.valid (w.hdr c).size ∧ ValidHist cfg c (stepW cfg c w x).world h

instance (cfg : Cfg) (c : Nat) : ∀ (h : List (SOp α × List Nat)) (w : World α), Decidable (ValidHist cfg c w h)
  | [], _ => isTrue trivial
  | x :: h, w =>
    have := instDecidableValidHist cfg c h (stepW cfg c w x).world
    by unfold ValidHist; exact inferInstance

/-- every call that throws is one with the strong guarantee -/
def ThrowsOnlyStrong (cfg : Cfg) (c : Nat) : World α → List (SOp α × List Nat) → Prop
  | _, [] => True
  | w, x :: h => (match stepW cfg c w x with | .ok _ _ => True | .thrown _ _ => x.1.strong = true) ∧
                 ThrowsOnlyStrong cfg c (stepW cfg c w x).world h

instance (cfg : Cfg) (c : Nat) : ∀ (h : List (SOp α × List Nat)) (w : World α), Decidable (ThrowsOnlyStrong cfg c w h)
  | [], _ => isTrue trivial
  | x :: h, w =>
    have := instDecidableThrowsOnlyStrong cfg c h (stepW cfg c w x).world
    have : Decidable (match stepW cfg c w x with | .ok _ _ => True | .thrown _ _ => x.1.strong = true) := by
      cases stepW cfg c w x <;> exact inferInstance
    by unfold ThrowsOnlyStrong; exact inferInstance

/-- the std::vector side: fold the L0 functions over the calls that returned -/
def specHist (cfg : Cfg) (c : Nat) : World α → List (SOp α × List Nat) → List (Val α) → List (Val α)
  | _, [], xs => xs
  | w, x :: h, xs =>
    match stepW cfg c w x with
    | .ok _ w' => specHist cfg c w' h (x.1.spec xs)
    | .thrown _ w' => specHist cfg c w' h xs

theorem step_spec' (cfg : Cfg) (c : Nat) (x : SOp α × List Nat) (w : World α) (xs : List (Val α))
    (hp : Pre cfg w c) (hpol : StrongPolicy cfg) (hx : Holds w c xs) (hv : x.1.valid (w.hdr c).size) :
    match stepW cfg c w x with
    | .ok _ w' => Pre cfg w' c ∧ Holds w' c (x.1.spec xs)
    | .thrown _ w' => Pre cfg w' c ∧ (x.1.strong = true → Holds w' c xs) :=
  step_spec cfg c x.1 { w with faults := x.2 } xs (pre_faults hp x.2) hpol (holds_faults hx x.2) hv

/-- C02 / C03 / C04 / C06 over histories: the invariants hold in every reachable state -/
theorem reachable_inv (cfg : Cfg) (c : Nat) (hpol : StrongPolicy cfg) :
    ∀ (h : List (SOp α × List Nat)) (w : World α), Pre cfg w c → ValidHist cfg c w h → Pre cfg (runHist cfg c w h) c
  | [], _, hp, _ => hp
  | x :: h, w, hp, hv => by
    obtain ⟨xs, hx⟩ := hp.vec.holds_exists
    have hs := step_spec' cfg c x w xs hp hpol hx hv.1
    have hp' : Pre cfg (stepW cfg c w x).world c := by
      cases hr : stepW cfg c w x with
      | ok r w' => rw [hr] at hs; exact hs.1
      | thrown e w' => rw [hr] at hs; exact hs.1
    exact reachable_inv cfg c hpol h _ hp' hv.2

/-- … including every intermediate state -/
theorem reachable_inv_prefix (cfg : Cfg) (c : Nat) (hpol : StrongPolicy cfg) (h1 h2 : List (SOp α × List Nat)) (w : World α)
    (hp : Pre cfg w c) (hv : ValidHist cfg c w (h1 ++ h2)) : Pre cfg (runHist cfg c w h1) c := by
  have : ∀ (h1 : List (SOp α × List Nat)) (w : World α), ValidHist cfg c w (h1 ++ h2) → ValidHist cfg c w h1 := by
    intro h1
    induction h1 with
    | nil => intro _ _; trivial
    | cons x h ih => intro w hv; exact ⟨hv.1, ih _ hv.2⟩
  exact reachable_inv cfg c hpol h1 w hp (this h1 w hv)

/-- C01 + C05 over histories: the contents are the L0 fold over the calls that returned -/
theorem history_refines (cfg : Cfg) (c : Nat) (hpol : StrongPolicy cfg) :
    ∀ (h : List (SOp α × List Nat)) (w : World α) (xs : List (Val α)), Pre cfg w c → Holds w c xs → ValidHist cfg c w h →
      ThrowsOnlyStrong cfg c w h → Holds (runHist cfg c w h) c (specHist cfg c w h xs)
  | [], _, _, _, hx, _, _ => hx
  | x :: h, w, xs, hp, hx, hv, ht => by
    have hs := step_spec' cfg c x w xs hp hpol hx hv.1
    have ht1 := ht.1
    show Holds (runHist cfg c (stepW cfg c w x).world h) c
      (match stepW cfg c w x with | .ok _ w' => specHist cfg c w' h (x.1.spec xs) | .thrown _ w' => specHist cfg c w' h xs)
    cases hr : stepW cfg c w x with
    | ok r w' =>
      rw [hr] at hs ht1
      have hv2 := hv.2; have ht2 := ht.2
      rw [hr] at hv2 ht2
      exact history_refines cfg c hpol h w' _ hs.1 hs.2 hv2 ht2
    | thrown e w' =>
      rw [hr] at hs ht1
      have hv2 := hv.2; have ht2 := ht.2
      rw [hr] at hv2 ht2
      exact history_refines cfg c hpol h w' _ hs.1 (hs.2 ht1) hv2 ht2

/-- fault-free histories never throw … as long as nothing exceeds max_size; stated as: if no call threw, the contents
    are the plain L0 fold -/
def plainSpec : List (SOp α) → List (Val α) → List (Val α)
  | [], xs => xs
  | op :: h, xs => plainSpec h (op.spec xs)

def AllReturned (cfg : Cfg) (c : Nat) : World α → List (SOp α × List Nat) → Prop
  | _, [] => True
  | w, x :: h => (∃ w', stepW cfg c w x = .ok () w') ∧ AllReturned cfg c (stepW cfg c w x).world h

theorem history_refines_plain (cfg : Cfg) (c : Nat) (hpol : StrongPolicy cfg) :
    ∀ (h : List (SOp α × List Nat)) (w : World α) (xs : List (Val α)), Pre cfg w c → Holds w c xs → ValidHist cfg c w h →
      AllReturned cfg c w h → Holds (runHist cfg c w h) c (plainSpec (h.map (·.1)) xs)
  | [], _, _, _, hx, _, _ => hx
  | x :: h, w, xs, hp, hx, hv, ha => by
    have hs := step_spec' cfg c x w xs hp hpol hx hv.1
    obtain ⟨w', hr⟩ := ha.1
    rw [hr] at hs
    have hv2 := hv.2; have ha2 := ha.2
    rw [hr] at hv2 ha2
    show Holds (runHist cfg c (stepW cfg c w x).world h) c (plainSpec (h.map (·.1)) (x.1.spec xs))
    rw [hr]
    exact history_refines_plain cfg c hpol h w' _ hs.1 hs.2 hv2 ha2

/-! ### non-vacuity: a concrete history on the full inline container [1, 2] -/
def exHist : List (SOp Int × List Nat) :=
  [(.pushBack 3, []), (.erase 0, []), (.pushBackSelf 1, [1]), (.reserve 9, []), (.resize 1 0, []), (.append [7, 8], []), (.insertSelf 1 2, []), (.assign 2 5, []), (.insert 1 6, [])]

example : ValidHist Ex.cfgT 0 Ex.w0 exHist := by decide +kernel
example : ThrowsOnlyStrong Ex.cfgT 0 Ex.w0 exHist := by decide +kernel
/-- the third call throws (fault at the second fault point, during the reallocating push_back) and changes nothing -/
example : specHist Ex.cfgT 0 Ex.w0 exHist [.val 1, .val 2] = [.val 5, .val 6, .val 5] := by decide +kernel
example : let w := runHist Ex.cfgT 0 Ex.w0 exHist
    (w.mem (w.hdr 0).data).take (w.hdr 0).size = [.obj (.val 5), .obj (.val 6), .obj (.val 5)] := by decide +kernel

end SvModel.History
