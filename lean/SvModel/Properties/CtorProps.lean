/-
Property corollaries for construction and destruction.
-/
import SvModel.Properties.Core
import SvModel.Proofs.Ctor
import SvModel.Api

namespace SvModel
open Gen
variable {α : Type}

theorem ctorSrcs_ext (cfg : Cfg) (w : World α) (c : Nat) (vs : List (Src α)) (hext : External vs) : CtorSrcs cfg w c vs :=
  ⟨hext.nonmoving, hext.live w, fun s hs b i hl' => by rw [hext s hs] at hl'; cases hl'⟩

namespace C01
/-- small_vector (n, x) / small_vector (first, last): the new container holds exactly the given values -/
theorem ctor_fill_refines (cfg : Cfg) (c a : Nat) (vs : List α) (w w' : World α)
    (hu : Unborn w c) (hl : Ledger w) (hN : (w.hdr c).N ≤ cfg.maxSize)
    (hr : ctorFill cfg c a true (vs.map Src.ext) w = .ok () w') :
    Holds w' c (vs.map Val.val) ∧ VecOK cfg w' c := by
  have hext : External (vs.map (Src.ext (α := α))) := fun s hs => by obtain ⟨x, _, rfl⟩ := List.mem_map.mp hs; rfl
  have h := sat_of_ok (ctorFill_sat cfg c a true _ w hu hl hN (fun h => by cases h) (ctorSrcs_ext cfg w c _ hext)) hr
  have hm : (vs.map Src.ext).map (srcVal w) = vs.map Val.val := by simp [srcVal, Function.comp_def]
  rw [hm] at h
  exact ⟨h.2.2.1, h.1⟩
end C01

namespace C03
/-- a constructor that throws leaves no object behind: the storage is raw again (every element it had constructed was
    destroyed exactly once) and no block is owned -/
theorem ctor_throw_no_object (cfg : Cfg) (c a : Nat) (checked : Bool) (srcs : List (Src α)) (w w' : World α) (e : Exc)
    (hu : Unborn w c) (hl : Ledger w) (hN : (w.hdr c).N ≤ cfg.maxSize)
    (hk : checked = false → srcs.length ≤ cfg.maxSize) (hs : CtorSrcs cfg w c srcs)
    (hr : ctorFill cfg c a checked srcs w = .thrown e w') : Unborn w' c ∧ w'.live = w.live :=
  let h := sat_of_thrown (ctorFill_sat cfg c a checked srcs w hu hl hN hk hs) hr
  ⟨h.1, h.2.2.1⟩

/-- the destructor destroys exactly the live elements and leaves raw storage -/
theorem dtor_leaves_raw (cfg : Cfg) (c : Nat) (w w' : World α) (hp : Pre cfg w c) (hr : dtor cfg c w = .ok () w') :
    Unborn w' c ∧ w'.ub = w.ub :=
  let h := sat_of_ok (dtor_sat cfg c w hp.vec hp.led) hr
  ⟨h.1, h.2.2.1⟩
end C03

namespace C04
/-- the ledger after a failed constructor is the ledger before it: nothing leaked -/
theorem ctor_throw_no_leak (cfg : Cfg) (c a : Nat) (checked : Bool) (srcs : List (Src α)) (w w' : World α) (e : Exc)
    (hu : Unborn w c) (hl : Ledger w) (hN : (w.hdr c).N ≤ cfg.maxSize)
    (hk : checked = false → srcs.length ≤ cfg.maxSize) (hs : CtorSrcs cfg w c srcs)
    (hr : ctorFill cfg c a checked srcs w = .thrown e w') : Ledger w' ∧ w'.live = w.live :=
  let h := sat_of_thrown (ctorFill_sat cfg c a checked srcs w hu hl hN hk hs) hr
  ⟨h.2.1, h.2.2.1⟩

/-- the destructor returns the heap block (if any) and nothing else -/
theorem dtor_releases (cfg : Cfg) (c : Nat) (w w' : World α) (hp : Pre cfg w c) (hr : dtor cfg c w = .ok () w') :
    Ledger w' ∧ w'.live = (if (w.hdr c).N < (w.hdr c).cap then w.live.erase (w.hdr c).data else w.live) :=
  let h := sat_of_ok (dtor_sat cfg c w hp.vec hp.led) hr
  ⟨h.2.1, h.2.2.2.2.1⟩

/-- construct, then destroy: the set of live blocks is what it was -/
theorem ctor_dtor_balanced (cfg : Cfg) (c a : Nat) (checked : Bool) (srcs : List (Src α)) (w w1 w2 : World α)
    (hu : Unborn w c) (hl : Ledger w) (hN : (w.hdr c).N ≤ cfg.maxSize)
    (hk : checked = false → srcs.length ≤ cfg.maxSize) (hs : CtorSrcs cfg w c srcs)
    (h1 : ctorFill cfg c a checked srcs w = .ok () w1) (h2 : dtor cfg c w1 = .ok () w2) : w2.live = w.live :=
  (SvModel.ctor_dtor_balanced cfg c a checked srcs w w1 w2 hu hl hN hk hs h1 h2).1
end C04

namespace C01
/-- copy construction (from a container of any inline capacity): the new container holds the source's values, the
    source is untouched -/
theorem ctor_copy_refines (cfg : Cfg) (c o a : Nat) (w w' : World α) (ys : List (Val α))
    (hu : Unborn w c) (hl : Ledger w) (hN : (w.hdr c).N ≤ cfg.maxSize)
    (hvo : VecOK cfg w o) (hNo : (w.hdr o).N ≤ cfg.maxSize) (hy : Holds w o ys)
    (hsep : (w.hdr o).data ≠ (w.hdr c).inl)
    (hr : ctorCopy cfg c o a w = .ok () w') :
    Holds w' c ys ∧ VecOK cfg w' c ∧ Ledger w' ∧ (w'.hdr c).alloc = a := by
  unfold ctorCopy at hr
  rw [bind_run, getV_run] at hr
  simp only [] at hr
  have hsz : (w.hdr o).size ≤ cfg.maxSize := Nat.le_trans hvo.size_le (hvo.cap_le_max hNo)
  have hlt : (w.hdr o).data < w.next := by
    by_cases hne : (w.hdr o).data = (w.hdr o).inl
    · have := hvo.inl_lt; have := hl.next_ok; omega
    · exact (hvo.data_odd hl hne).2.2
  have hs : CtorSrcs cfg w c (srcsCopy (w.hdr o).data 0 (w.hdr o).size) := by
    refine ⟨fun s hs => ?_, fun s hs b i hl' => ?_, fun s hs b i hl' => ?_⟩
    · obtain ⟨k, _, rfl⟩ := mem_srcsCopy hs; rfl
    · obtain ⟨k, hk, rfl⟩ := mem_srcsCopy hs
      simp [Src.loc] at hl'
      obtain ⟨h1, h2⟩ := hl'
      subst h1; subst h2
      have := hvo.objs k hk
      unfold IsObj at this
      simpa using this
    · obtain ⟨k, hk, rfl⟩ := mem_srcsCopy hs
      simp [Src.loc] at hl'
      rw [← hl'.1]
      exact ⟨hsep, hlt⟩
  have h := sat_of_ok (ctorFill_sat cfg c a ctorCopyChecked _ w hu hl hN (fun _ => by simpa using hsz) hs) hr
  refine ⟨?_, h.1, h.2.1, h.2.2.2.1⟩
  have hm : (srcsCopy (w.hdr o).data 0 (w.hdr o).size).map (srcVal w) = ys := by
    apply List.ext_getElem (by simp [hy.1])
    intro i h1 h2
    simp only [List.getElem_map, srcsCopy_get]
    have hi : i < ys.length := h2
    have := hy.2 i hi
    rw [Nat.zero_add, srcVal_copyOf w _ _ _ this]
  rw [hm] at h
  exact h.2.2.1
end C01

/-! non-vacuity: container 0 of the initial world (N = 2) is `Unborn`; constructing it from [1, 2, 3] with the second
    element's copy constructor throwing leaves it unborn with no live block -/
example : (match ctorFill Ex.cfgT 0 7 true [.ext 1, .ext 2, .ext (3 : Int)] { initWorld 2 3 with faults := [2] } with
           | .thrown e w' => decide (e = .elem) && w'.live == [] && w'.mem 0 == [.raw, .raw] && w'.mem 5 == []
           | .ok _ _ => false) = true := by decide +kernel

end SvModel
