/-
Property corollaries for the single-element insert (emplace / insert (pos, x) / insert (pos, T&&)): C01 refinement,
C05 strong guarantee at the end position, C06 basic guarantee, C10 in-place when there is room, C11 aliasing.
-/
import SvModel.Properties.Core
import SvModel.Proofs.InsertOps
import SvModel.Proofs.InsertN

namespace SvModel
open Gen
variable {α : Type}

namespace C01
/-- insert (pos, x) / emplace (pos, x): contents become take pos ++ [x] ++ drop pos; returns pos -/
theorem insert_refines (cfg : Cfg) (c pos : Nat) (s : Src α) (rv : Bool) (w w' : World α) (r : Nat) (xs : List (Val α))
    (hp : Pre cfg w c) (ha : ArgOK cfg w c s) (hrv : rv = true → ∃ a, s = .extMove a) (hpol : StrongPolicy cfg)
    (hpos : pos ≤ (w.hdr c).size) (hx : Holds w c xs) (hr : emplaceAt cfg c pos s rv w = .ok r w') :
    Holds w' c (L0.insertAt xs pos (srcVal w s)).1 ∧ r = (L0.insertAt xs pos (srcVal w s)).2 := by
  have h := sat_of_ok (emplaceAt_sat cfg c pos s rv w hp.vec hp.led hp.nmax hpos ha hrv hpol) hr
  exact ⟨h.2.1.holds xs hx, h.1⟩
end C01

namespace C05
/-- insert (end (), x) / emplace (end (), x): strong guarantee, like push_back -/
theorem insert_at_end_strong (cfg : Cfg) (c : Nat) (s : Src α) (rv : Bool) (w w' : World α) (e : Exc)
    (hp : Pre cfg w c) (ha : ArgOK cfg w c s) (hrv : rv = true → ∃ a, s = .extMove a) (hpol : StrongPolicy cfg)
    (hr : emplaceAt cfg c (w.hdr c).size s rv w = .thrown e w') : Strong w w' :=
  (sat_of_thrown (emplaceAt_sat cfg c _ s rv w hp.vec hp.led hp.nmax (Nat.le_refl _) ha hrv hpol) hr).2 rfl
end C05

namespace C06
/-- a throw out of insert / emplace anywhere: valid container (possibly one element longer, possibly holding moved-from
    values), same buffer and capacity, nothing leaked, nothing else touched -/
theorem insert_basic (cfg : Cfg) (c pos : Nat) (s : Src α) (rv : Bool) (w w' : World α) (e : Exc)
    (hp : Pre cfg w c) (ha : ArgOK cfg w c s) (hrv : rv = true → ∃ a, s = .extMove a) (hpol : StrongPolicy cfg)
    (hpos : pos ≤ (w.hdr c).size) (hr : emplaceAt cfg c pos s rv w = .thrown e w') :
    Basic cfg w w' c ∧ (w'.hdr c).data = (w.hdr c).data ∧ (w'.hdr c).cap = (w.hdr c).cap ∧ w'.live = w.live :=
  (sat_of_thrown (emplaceAt_sat cfg c pos s rv w hp.vec hp.led hp.nmax hpos ha hrv hpol) hr).1
end C06

namespace C10
/-- insert with room: same buffer, same capacity, no allocation -/
theorem insert_in_place (cfg : Cfg) (c pos : Nat) (s : Src α) (rv : Bool) (w w' : World α) (r : Nat)
    (hp : Pre cfg w c) (ha : ArgOK cfg w c s) (hrv : rv = true → ∃ a, s = .extMove a) (hpol : StrongPolicy cfg)
    (hpos : pos ≤ (w.hdr c).size) (hroom : (w.hdr c).size < (w.hdr c).cap) (hr : emplaceAt cfg c pos s rv w = .ok r w') :
    (w'.hdr c).data = (w.hdr c).data ∧ (w'.hdr c).cap = (w.hdr c).cap ∧ w'.live = w.live ∧ w'.next = w.next :=
  (sat_of_ok (emplaceAt_sat cfg c pos s rv w hp.vec hp.led hp.nmax hpos ha hrv hpol) hr).2.2.1 hroom

/-- insert into a full container: one allocation of the growth function's capacity -/
theorem insert_grows (cfg : Cfg) (c pos : Nat) (s : Src α) (rv : Bool) (w w' : World α) (r : Nat)
    (hp : Pre cfg w c) (ha : ArgOK cfg w c s) (hrv : rv = true → ∃ a, s = .extMove a) (hpol : StrongPolicy cfg)
    (hpos : pos ≤ (w.hdr c).size) (hfull : ¬ (w.hdr c).size < (w.hdr c).cap) (hr : emplaceAt cfg c pos s rv w = .ok r w') :
    (w'.hdr c).data = w.next ∧ (w'.hdr c).cap = newCapacity cfg.maxSize (w.hdr c).cap ((w.hdr c).size + 1) :=
  (sat_of_ok (emplaceAt_sat cfg c pos s rv w hp.vec hp.led hp.nmax hpos ha hrv hpol) hr).2.2.2 hfull
end C10

namespace C11
/-- insert (pos, v[i]) with an lvalue referring to the container's own element `i` — before or after `pos`, with or
    without reallocation — inserts a copy of the value v[i] had before the call -/
theorem insert_alias (cfg : Cfg) (c pos i : Nat) (w w' : World α) (r : Nat) (xs : List (Val α))
    (hp : Pre cfg w c) (hpol : StrongPolicy cfg) (hx : Holds w c xs) (hi : i < xs.length) (hpos : pos ≤ (w.hdr c).size)
    (hr : emplaceAt cfg c pos (.copyOf (w.hdr c).data i) false w = .ok r w') :
    Holds w' c (L0.insertAt xs pos xs[i]).1 := by
  have hslot := hx.2 i hi
  have ha : ArgOK cfg w c (.copyOf (w.hdr c).data i) :=
    ⟨rfl, fun b j hl => by simp [Src.loc] at hl; obtain ⟨h1, h2⟩ := hl; subst h1; subst h2; exact ⟨_, hslot⟩,
     fun b j hl => by simp [Src.loc] at hl; obtain ⟨h1, h2⟩ := hl; subst h1; subst h2; exact ⟨rfl, by rw [← hx.1]; exact hi⟩⟩
  have h := (C01.insert_refines cfg c pos _ false w w' r xs hp ha (fun h => by cases h) hpol hpos hx hr).1
  rw [srcVal_copyOf w _ _ _ hslot] at h
  exact h

/-- non-vacuity: aliasing insert into the full inline container [1, 2] at position 1 of element 0 gives [1, 1, 2] -/
example : (match emplaceAt Ex.cfgT 0 1 (.copyOf 0 0) false Ex.w0 with
           | .ok r w' => r == 1 && (w'.mem (w'.hdr 0).data).take 3 == [.obj (.val 1), .obj (.val 1), .obj (.val 2)]
           | .thrown _ _ => false) = true := by decide +kernel
end C11

theorem external_ext (vs : List α) : External (vs.map (Src.ext (α := α))) :=
  fun s hs => by obtain ⟨a, _, rfl⟩ := List.mem_map.mp hs; rfl

theorem map_srcVal_ext (w : World α) (vs : List α) : (vs.map Src.ext).map (srcVal w) = vs.map Val.val := by
  simp [srcVal, Function.comp_def]

namespace C01
/-- insert (pos, n, x): n copies of x before pos; returns pos -/
theorem insert_n_refines (cfg : Cfg) (c pos n : Nat) (s : Src α) (w w' : World α) (r : Nat) (xs : List (Val α))
    (hp : Pre cfg w c) (ha : ArgOK cfg w c s) (hpol : StrongPolicy cfg) (hpos : pos ≤ (w.hdr c).size) (hx : Holds w c xs)
    (hr : insertCopies cfg c pos n s w = .ok r w') :
    Holds w' c (L0.insertN xs pos n (srcVal w s)).1 ∧ r = (L0.insertN xs pos n (srcVal w s)).2 := by
  have h := sat_of_ok (insertCopies_sat cfg c pos n s w hp.vec hp.led hp.nmax hpos ha hpol) hr
  exact ⟨h.2.1.holds xs hx, h.1⟩

/-- insert (pos, first, last) over a non-empty multi-pass range of outside values -/
theorem insert_range_refines (cfg : Cfg) (c pos : Nat) (vs : List α) (w w' : World α) (r : Nat) (xs : List (Val α))
    (hp : Pre cfg w c) (hpol : StrongPolicy cfg) (hpos : pos ≤ (w.hdr c).size) (hne : vs ≠ []) (hx : Holds w c xs)
    (hr : insertRangeFwd cfg c pos (vs.map Src.ext) w = .ok r w') :
    Holds w' c (L0.insertRange xs pos (vs.map Val.val)).1 ∧ r = (L0.insertRange xs pos (vs.map Val.val)).2 := by
  have hlen : 0 < (vs.map (Src.ext (α := α))).length := by
    cases vs with
    | nil => exact absurd rfl hne
    | cons _ _ => simp
  have h := sat_of_ok (insertRangeFwd_sat cfg c pos _ w hp.vec hp.led hp.nmax hpos hlen (external_ext vs) hpol) hr
  have := h.2.1.holds xs hx
  rw [map_srcVal_ext] at this
  exact ⟨this, h.1⟩
end C01

namespace C06
theorem insert_n_basic (cfg : Cfg) (c pos n : Nat) (s : Src α) (w w' : World α) (e : Exc)
    (hp : Pre cfg w c) (ha : ArgOK cfg w c s) (hpol : StrongPolicy cfg) (hpos : pos ≤ (w.hdr c).size)
    (hr : insertCopies cfg c pos n s w = .thrown e w') :
    Basic cfg w w' c ∧ (w'.hdr c).data = (w.hdr c).data ∧ (w'.hdr c).cap = (w.hdr c).cap ∧ w'.live = w.live :=
  sat_of_thrown (insertCopies_sat cfg c pos n s w hp.vec hp.led hp.nmax hpos ha hpol) hr

theorem insert_range_basic (cfg : Cfg) (c pos : Nat) (vs : List α) (w w' : World α) (e : Exc)
    (hp : Pre cfg w c) (hpol : StrongPolicy cfg) (hpos : pos ≤ (w.hdr c).size) (hne : vs ≠ [])
    (hr : insertRangeFwd cfg c pos (vs.map Src.ext) w = .thrown e w') :
    Basic cfg w w' c ∧ (w'.hdr c).data = (w.hdr c).data ∧ (w'.hdr c).cap = (w.hdr c).cap ∧ w'.live = w.live := by
  have hlen : 0 < (vs.map (Src.ext (α := α))).length := by
    cases vs with
    | nil => exact absurd rfl hne
    | cons _ _ => simp
  exact sat_of_thrown (insertRangeFwd_sat cfg c pos _ w hp.vec hp.led hp.nmax hpos hlen (external_ext vs) hpol) hr
end C06

namespace C10
/-- insert (pos, n, x) with room for n more elements keeps the buffer -/
theorem insert_n_in_place (cfg : Cfg) (c pos n : Nat) (s : Src α) (w w' : World α) (r : Nat)
    (hp : Pre cfg w c) (ha : ArgOK cfg w c s) (hpol : StrongPolicy cfg) (hpos : pos ≤ (w.hdr c).size)
    (hroom : n ≤ (w.hdr c).cap - (w.hdr c).size) (hr : insertCopies cfg c pos n s w = .ok r w') :
    (w'.hdr c).data = (w.hdr c).data ∧ (w'.hdr c).cap = (w.hdr c).cap ∧ w'.live = w.live ∧ w'.next = w.next :=
  (sat_of_ok (insertCopies_sat cfg c pos n s w hp.vec hp.led hp.nmax hpos ha hpol) hr).2.2 hroom

theorem insert_range_in_place (cfg : Cfg) (c pos : Nat) (vs : List α) (w w' : World α) (r : Nat)
    (hp : Pre cfg w c) (hpol : StrongPolicy cfg) (hpos : pos ≤ (w.hdr c).size) (hne : vs ≠ [])
    (hroom : vs.length ≤ (w.hdr c).cap - (w.hdr c).size) (hr : insertRangeFwd cfg c pos (vs.map Src.ext) w = .ok r w') :
    (w'.hdr c).data = (w.hdr c).data ∧ (w'.hdr c).cap = (w.hdr c).cap ∧ w'.live = w.live ∧ w'.next = w.next := by
  have hlen : 0 < (vs.map (Src.ext (α := α))).length := by
    cases vs with
    | nil => exact absurd rfl hne
    | cons _ _ => simp
  exact (sat_of_ok (insertRangeFwd_sat cfg c pos _ w hp.vec hp.led hp.nmax hpos hlen (external_ext vs) hpol) hr).2.2 (by simpa using hroom)
end C10

namespace C11
/-- insert (pos, n, v[i]): n copies of the value v[i] had before the call, wherever i lies relative to pos -/
theorem insert_n_alias (cfg : Cfg) (c pos n i : Nat) (w w' : World α) (r : Nat) (xs : List (Val α))
    (hp : Pre cfg w c) (hpol : StrongPolicy cfg) (hx : Holds w c xs) (hi : i < xs.length) (hpos : pos ≤ (w.hdr c).size)
    (hr : insertCopies cfg c pos n (.copyOf (w.hdr c).data i) w = .ok r w') :
    Holds w' c (L0.insertN xs pos n xs[i]).1 := by
  have hslot := hx.2 i hi
  have ha : ArgOK cfg w c (.copyOf (w.hdr c).data i) :=
    ⟨rfl, fun b j hl => by simp [Src.loc] at hl; obtain ⟨h1, h2⟩ := hl; subst h1; subst h2; exact ⟨_, hslot⟩,
     fun b j hl => by simp [Src.loc] at hl; obtain ⟨h1, h2⟩ := hl; subst h1; subst h2; exact ⟨rfl, by rw [← hx.1]; exact hi⟩⟩
  have h := (C01.insert_n_refines cfg c pos n _ w w' r xs hp ha hpol hpos hx hr).1
  rw [srcVal_copyOf w _ _ _ hslot] at h
  exact h

/-- non-vacuity: on [1, 2] with capacity grown to 8: insert (0, 3, v[1]) in place gives [2, 2, 2, 1, 2] (tail ≥ … branch
    and the temporary are exercised by the kernel's evaluation of the model) -/
example : (match requestCapacity Ex.cfgT 0 8 Ex.w0 with
           | .ok _ w1 => (match insertCopies Ex.cfgT 0 0 3 (.copyOf (w1.hdr 0).data 1) w1 with
              | .ok r w' => r == 0 && (w'.mem (w'.hdr 0).data).take 5 == [.obj (.val 2), .obj (.val 2), .obj (.val 2), .obj (.val 1), .obj (.val 2)]
              | .thrown _ _ => false)
           | .thrown _ _ => false) = true := by decide +kernel
end C11

end SvModel
