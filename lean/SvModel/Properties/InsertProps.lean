/-
Property corollaries for the single-element insert (emplace / insert (pos, x) / insert (pos, T&&)): C01 refinement,
C05 strong guarantee at the end position, C06 basic guarantee, C10 in-place when there is room, C11 aliasing.
-/
import SvModel.Properties.Core
import SvModel.Proofs.InsertOps

namespace SvModel
open Gen
variable {α : Type}

namespace C01
/-- insert (pos, x) / emplace (pos, x): contents become take pos ++ [x] ++ drop pos; returns pos -/
theorem insert_refines (cfg : Cfg) (c pos : Nat) (s : Src α) (rv : Bool) (w w' : World α) (r : Nat) (xs : List (Val α))
    (hp : Pre cfg w c) (ha : ArgOK cfg w c s) (hrv : rv = true → ∃ a, s = .extMove a) (hpol : StrongPolicy cfg)
    (hpos : pos ≤ (w.hdr c).size) (hx : Holds w c xs) (hr : emplaceAt cfg c pos s rv w = .ok r w') :
    Holds w' c (L0.insertAt xs pos (srcVal w s)).1 ∧ r = (L0.insertAt xs pos (srcVal w s)).2 := by
  have h := sat_of_ok (emplaceAt_sat cfg c pos s rv w hp.vec hp.led hp.nmax hpos ha hrv hpol) hr
  exact ⟨h.2.1.holds xs hx, h.1⟩
end C01

namespace C05
/-- insert (end (), x) / emplace (end (), x): strong guarantee, like push_back -/
theorem insert_at_end_strong (cfg : Cfg) (c : Nat) (s : Src α) (rv : Bool) (w w' : World α) (e : Exc)
    (hp : Pre cfg w c) (ha : ArgOK cfg w c s) (hrv : rv = true → ∃ a, s = .extMove a) (hpol : StrongPolicy cfg)
    (hr : emplaceAt cfg c (w.hdr c).size s rv w = .thrown e w') : Strong w w' :=
  (sat_of_thrown (emplaceAt_sat cfg c _ s rv w hp.vec hp.led hp.nmax (Nat.le_refl _) ha hrv hpol) hr).2 rfl
end C05

namespace C06
/-- a throw out of insert / emplace anywhere: valid container (possibly one element longer, possibly holding moved-from
    values), same buffer and capacity, nothing leaked, nothing else touched -/
theorem insert_basic (cfg : Cfg) (c pos : Nat) (s : Src α) (rv : Bool) (w w' : World α) (e : Exc)
    (hp : Pre cfg w c) (ha : ArgOK cfg w c s) (hrv : rv = true → ∃ a, s = .extMove a) (hpol : StrongPolicy cfg)
    (hpos : pos ≤ (w.hdr c).size) (hr : emplaceAt cfg c pos s rv w = .thrown e w') :
    Basic cfg w w' c ∧ (w'.hdr c).data = (w.hdr c).data ∧ (w'.hdr c).cap = (w.hdr c).cap ∧ w'.live = w.live :=
  (sat_of_thrown (emplaceAt_sat cfg c pos s rv w hp.vec hp.led hp.nmax hpos ha hrv hpol) hr).1
end C06

namespace C10
/-- insert with room: same buffer, same capacity, no allocation -/
theorem insert_in_place (cfg : Cfg) (c pos : Nat) (s : Src α) (rv : Bool) (w w' : World α) (r : Nat)
    (hp : Pre cfg w c) (ha : ArgOK cfg w c s) (hrv : rv = true → ∃ a, s = .extMove a) (hpol : StrongPolicy cfg)
    (hpos : pos ≤ (w.hdr c).size) (hroom : (w.hdr c).size < (w.hdr c).cap) (hr : emplaceAt cfg c pos s rv w = .ok r w') :
    (w'.hdr c).data = (w.hdr c).data ∧ (w'.hdr c).cap = (w.hdr c).cap ∧ w'.live = w.live ∧ w'.next = w.next :=
  (sat_of_ok (emplaceAt_sat cfg c pos s rv w hp.vec hp.led hp.nmax hpos ha hrv hpol) hr).2.2.1 hroom

/-- insert into a full container: one allocation of the growth function's capacity -/
theorem insert_grows (cfg : Cfg) (c pos : Nat) (s : Src α) (rv : Bool) (w w' : World α) (r : Nat)
    (hp : Pre cfg w c) (ha : ArgOK cfg w c s) (hrv : rv = true → ∃ a, s = .extMove a) (hpol : StrongPolicy cfg)
    (hpos : pos ≤ (w.hdr c).size) (hfull : ¬ (w.hdr c).size < (w.hdr c).cap) (hr : emplaceAt cfg c pos s rv w = .ok r w') :
    (w'.hdr c).data = w.next ∧ (w'.hdr c).cap = newCapacity cfg.maxSize (w.hdr c).cap ((w.hdr c).size + 1) :=
  (sat_of_ok (emplaceAt_sat cfg c pos s rv w hp.vec hp.led hp.nmax hpos ha hrv hpol) hr).2.2.2 hfull
end C10

namespace C11
/-- insert (pos, v[i]) with an lvalue referring to the container's own element `i` — before or after `pos`, with or
    without reallocation — inserts a copy of the value v[i] had before the call -/
theorem insert_alias (cfg : Cfg) (c pos i : Nat) (w w' : World α) (r : Nat) (xs : List (Val α))
    (hp : Pre cfg w c) (hpol : StrongPolicy cfg) (hx : Holds w c xs) (hi : i < xs.length) (hpos : pos ≤ (w.hdr c).size)
    (hr : emplaceAt cfg c pos (.copyOf (w.hdr c).data i) false w = .ok r w') :
    Holds w' c (L0.insertAt xs pos xs[i]).1 := by
  have hslot := hx.2 i hi
  have ha : ArgOK cfg w c (.copyOf (w.hdr c).data i) :=
    ⟨rfl, fun b j hl => by simp [Src.loc] at hl; obtain ⟨h1, h2⟩ := hl; subst h1; subst h2; exact ⟨_, hslot⟩,
     fun b j hl => by simp [Src.loc] at hl; obtain ⟨h1, h2⟩ := hl; subst h1; subst h2; exact ⟨rfl, by rw [← hx.1]; exact hi⟩⟩
  have h := (C01.insert_refines cfg c pos _ false w w' r xs hp ha (fun h => by cases h) hpol hpos hx hr).1
  rw [srcVal_copyOf w _ _ _ hslot] at h
  exact h

/-- non-vacuity: aliasing insert into the full inline container [1, 2] at position 1 of element 0 gives [1, 1, 2] -/
example : (match emplaceAt Ex.cfgT 0 1 (.copyOf 0 0) false Ex.w0 with
           | .ok r w' => r == 1 && (w'.mem (w'.hdr 0).data).take 3 == [.obj (.val 1), .obj (.val 1), .obj (.val 2)]
           | .thrown _ _ => false) = true := by decide +kernel
end C11

end SvModel
