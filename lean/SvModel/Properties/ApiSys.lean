/-
The system invariant for the DRIVER'S OWN state machine (`Sys.step`, Api.lean) — the thing the differential run executes
line by line: a protocol call that has a history-language counterpart (Bridge.toMOp) and is valid there takes a state
whose world satisfies `SysAll` (for the list of constructed containers) to such a state again, whatever the fault list,
returned or thrown; and the driver's `alive` flags stay in step with that list.
-/
import SvModel.Properties.Bridge
import SvModel.Properties.C15

namespace SvModel.Bridge
open SvModel Gen History SvModel.System

def resWorld : Res Sys Out → World Int
  | .ok _ s => s.w
  | .thrown _ s => s.w
def resSys : Res Sys Out → Sys
  | .ok _ s => s
  | .thrown _ s => s

theorem setAlive_w (s : Sys) (x : Nat) (b : Bool) : (setAlive s x b).w = s.w := rfl

/-- the world after a protocol call is the world after the corresponding history call -/
theorem api_step_world (ac : ApiCfg) (s : Sys) (op : Op) (f : List Nat) (m : MOp Int) (A : List Nat) (h : toMOp ac s op = some m) :
    resWorld (s.step ac op f) = (System.step ac.cfg ⟨s.w, A⟩ (m, f)).w := by
  have hb := bridge ac s op m { s.w with faults := f } rfl h
  unfold Sys.step System.step
  simp only []
  cases hr : opM ac s op { s.w with faults := f } with
  | ok out w =>
    rw [hr] at hb
    have hb' : m.run ac.cfg { s.w with faults := f } { s.w with faults := f } = .ok () w := hb.symm
    simp only [hb', resWorld]
    cases op <;> rfl
  | thrown e w =>
    rw [hr] at hb
    have hb' : m.run ac.cfg { s.w with faults := f } { s.w with faults := f } = .thrown e w := hb.symm
    simp only [hb', resWorld]

/-- ONE protocol call keeps the system invariant -/
theorem api_step_sys (ac : ApiCfg) (U : List Nat) (hpol : StrongPolicy ac.cfg) (s : Sys) (op : Op) (f : List Nat) (m : MOp Int) (A : List Nat)
    (h : toMOp ac s op = some m) (hs : SysAll ac.cfg s.w U A) (hv : m.valid ac.cfg U ⟨s.w, A⟩) :
    SysAll ac.cfg (resWorld (s.step ac op f)) U (System.step ac.cfg ⟨s.w, A⟩ (m, f)).A := by
  rw [api_step_world ac s op f m A h]
  exact step_sys ac.cfg U hpol ⟨s.w, A⟩ (m, f) hs hv

theorem getD_set (l : List Bool) (x y : Nat) (b : Bool) (hx : x < l.length) :
    (l.set x b).getD y false = if y = x then b else l.getD y false := by
  by_cases hy : y = x
  · subst hy; simp [List.getD, hx]
  · simp [List.getD, hy, Ne.symm hy]

/-- … and the driver's `alive` flags describe exactly the list of constructed containers the theorems carry along -/
theorem api_step_alive (ac : ApiCfg) (s : Sys) (op : Op) (f : List Nat) (m : MOp Int) (A : List Nat)
    (h : toMOp ac s op = some m) (hlen : s.alive.length = 4) (hA : ∀ c, c ∈ A ↔ s.isAlive c = true)
    (hx : ∀ x, (match op with | .new x _ | .newv x _ _ _ | .newn x _ _ | .newr x _ _ _ | .newg x _ _ | .newc x _ _ | .newm x _ _ | .del x => x | _ => 0) = x → x < 4) :
    ∀ c, c ∈ (System.step ac.cfg ⟨s.w, A⟩ (m, f)).A ↔ (resSys (s.step ac op f)).isAlive c = true := by
  have hb := bridge ac s op m { s.w with faults := f } rfl h
  intro c
  unfold Sys.step System.step
  simp only []
  cases hr : opM ac s op { s.w with faults := f } with
  | thrown e w =>
    rw [hr] at hb
    have hb' : m.run ac.cfg { s.w with faults := f } { s.w with faults := f } = .thrown e w := hb.symm
    simp only [hb', resSys]
    have : ∀ (t : Sys), t.alive = s.alive → (t.isAlive c = true ↔ s.isAlive c = true) := fun t ht => by unfold Sys.isAlive; rw [ht]
    rw [hA c]
    exact (this _ (by split <;> rfl)).symm
  | ok out w =>
    rw [hr] at hb
    have hb' : m.run ac.cfg { s.w with faults := f } { s.w with faults := f } = .ok () w := hb.symm
    simp only [hb', resSys]
    -- the stream counter and the world do not enter `isAlive`
    have same : ∀ (t : Sys), t.alive = s.alive → (t.isAlive c = true ↔ s.isAlive c = true) := fun t ht => by unfold Sys.isAlive; rw [ht]
    have born : ∀ (t : Sys) (x : Nat), t.alive = s.alive → x < 4 → ((setAlive t x true).isAlive c = true ↔ c = x ∨ s.isAlive c = true) := by
      intro t x ht hx4
      unfold Sys.isAlive setAlive
      simp only [ht]
      rw [getD_set _ _ _ _ (by rw [hlen]; exact hx4)]
      by_cases hc : c = x <;> simp [hc]
    have died : ∀ (t : Sys) (x : Nat), t.alive = s.alive → x < 4 → ((setAlive t x false).isAlive c = true ↔ c ≠ x ∧ s.isAlive c = true) := by
      intro t x ht hx4
      unfold Sys.isAlive setAlive
      simp only [ht]
      rw [getD_set _ _ _ _ (by rw [hlen]; exact hx4)]
      by_cases hc : c = x <;> simp [hc]
    cases op with
    | newv x n v a =>
      injection h with h; subst h
      show c ∈ x :: A ↔ (setAlive _ x true).isAlive c = true
      exact Iff.trans (by simp [hA]) (born _ x rfl (hx x rfl)).symm
    | newr x k a vs =>
      cases k with
      | inp => injection h with h; subst h; show c ∈ x :: A ↔ (setAlive _ x true).isAlive c = true; exact Iff.trans (by simp [hA]) (born _ x rfl (hx x rfl)).symm
      | fw => injection h with h; subst h; show c ∈ x :: A ↔ (setAlive _ x true).isAlive c = true; exact Iff.trans (by simp [hA]) (born _ x rfl (hx x rfl)).symm
    | newg x a vs => injection h with h; subst h; show c ∈ x :: A ↔ (setAlive _ x true).isAlive c = true; exact Iff.trans (by simp [hA]) (born _ x rfl (hx x rfl)).symm
    | newc x y a =>
      cases a with
      | none => injection h with h; subst h; show c ∈ x :: A ↔ (setAlive _ x true).isAlive c = true; exact Iff.trans (by simp [hA]) (born _ x rfl (hx x rfl)).symm
      | some a => injection h with h; subst h; show c ∈ x :: A ↔ (setAlive _ x true).isAlive c = true; exact Iff.trans (by simp [hA]) (born _ x rfl (hx x rfl)).symm
    | newm x y a =>
      cases a with
      | none => injection h with h; subst h; show c ∈ x :: A ↔ (setAlive _ x true).isAlive c = true; exact Iff.trans (by simp [hA]) (born _ x rfl (hx x rfl)).symm
      | some a => injection h with h; subst h; show c ∈ x :: A ↔ (setAlive _ x true).isAlive c = true; exact Iff.trans (by simp [hA]) (born _ x rfl (hx x rfl)).symm
    | del x =>
      injection h with h; subst h
      show c ∈ A.filter (· ≠ x) ↔ (setAlive _ x false).isAlive c = true
      exact Iff.trans (by simp [hA, List.mem_filter, And.comm]) (died _ x rfl (hx x rfl)).symm
    | pb x arg => cases arg <;> (injection h with h; subst h; show c ∈ A ↔ Sys.isAlive _ c = true; exact Iff.trans (hA c) (same _ rfl).symm)
    | ins x p arg => cases arg <;> (injection h with h; subst h; show c ∈ A ↔ Sys.isAlive _ c = true; exact Iff.trans (hA c) (same _ rfl).symm)
    | insm x p v => injection h with h; subst h; show c ∈ A ↔ Sys.isAlive _ c = true; exact Iff.trans (hA c) (same _ rfl).symm
    | insn x p n arg => cases arg <;> (injection h with h; subst h; show c ∈ A ↔ Sys.isAlive _ c = true; exact Iff.trans (hA c) (same _ rfl).symm)
    | insr x p k vs =>
      cases k with
      | inp =>
        simp only [toMOp] at h
        by_cases he : vs.isEmpty = true
        · rw [if_pos he] at h; cases h
        · rw [if_neg he] at h
          by_cases hp : p = (s.w.hdr x).size
          · rw [if_pos hp] at h; injection h with h; subst h; show c ∈ A ↔ Sys.isAlive _ c = true; exact Iff.trans (hA c) (same _ rfl).symm
          · rw [if_neg hp] at h; cases h
      | fw =>
        simp only [toMOp] at h
        by_cases he : vs.isEmpty = true
        · rw [if_pos he] at h; cases h
        · rw [if_neg he] at h; injection h with h; subst h; show c ∈ A ↔ Sys.isAlive _ c = true; exact Iff.trans (hA c) (same _ rfl).symm
    | era x p => injection h with h; subst h; show c ∈ A ↔ Sys.isAlive _ c = true; exact Iff.trans (hA c) (same _ rfl).symm
    | erar x p q => injection h with h; subst h; show c ∈ A ↔ Sys.isAlive _ c = true; exact Iff.trans (hA c) (same _ rfl).symm
    | pop x => injection h with h; subst h; show c ∈ A ↔ Sys.isAlive _ c = true; exact Iff.trans (hA c) (same _ rfl).symm
    | clr x => injection h with h; subst h; show c ∈ A ↔ Sys.isAlive _ c = true; exact Iff.trans (hA c) (same _ rfl).symm
    | rsz x n => injection h with h; subst h; show c ∈ A ↔ Sys.isAlive _ c = true; exact Iff.trans (hA c) (same _ rfl).symm
    | rszv x n arg =>
      cases arg with
      | ext v => injection h with h; subst h; show c ∈ A ↔ Sys.isAlive _ c = true; exact Iff.trans (hA c) (same _ rfl).symm
      | self i => injection h with h; subst h; show c ∈ A ↔ Sys.isAlive _ c = true; exact Iff.trans (hA c) (same _ rfl).symm
    | rsv x n => injection h with h; subst h; show c ∈ A ↔ Sys.isAlive _ c = true; exact Iff.trans (hA c) (same _ rfl).symm
    | stf x => injection h with h; subst h; show c ∈ A ↔ Sys.isAlive _ c = true; exact Iff.trans (hA c) (same _ rfl).symm
    | asn x n v => injection h with h; subst h; show c ∈ A ↔ Sys.isAlive _ c = true; exact Iff.trans (hA c) (same _ rfl).symm
    | asr x k vs =>
      cases k with
      | inp => injection h with h; subst h; show c ∈ A ↔ Sys.isAlive _ c = true; exact Iff.trans (hA c) (same _ rfl).symm
      | fw => injection h with h; subst h; show c ∈ A ↔ Sys.isAlive _ c = true; exact Iff.trans (hA c) (same _ rfl).symm
    | app x k vs =>
      cases k with
      | inp => injection h with h; subst h; show c ∈ A ↔ Sys.isAlive _ c = true; exact Iff.trans (hA c) (same _ rfl).symm
      | fw => injection h with h; subst h; show c ∈ A ↔ Sys.isAlive _ c = true; exact Iff.trans (hA c) (same _ rfl).symm
    | asc x y => injection h with h; subst h; show c ∈ A ↔ Sys.isAlive _ c = true; exact Iff.trans (hA c) (same _ rfl).symm
    | asm x y => injection h with h; subst h; show c ∈ A ↔ Sys.isAlive _ c = true; exact Iff.trans (hA c) (same _ rfl).symm
    | swp x y => injection h with h; subst h; show c ∈ A ↔ Sys.isAlive _ c = true; exact Iff.trans (hA c) (same _ rfl).symm
    | appc x y => injection h with h; subst h; show c ∈ A ↔ Sys.isAlive _ c = true; exact Iff.trans (hA c) (same _ rfl).symm
    | appm x y => injection h with h; subst h; show c ∈ A ↔ Sys.isAlive _ c = true; exact Iff.trans (hA c) (same _ rfl).symm
    | new x a =>
      injection h with h; subst h
      show c ∈ x :: A ↔ (setAlive _ x true).isAlive c = true; exact Iff.trans (by simp [hA]) (born _ x rfl (hx x rfl)).symm
    | newn x n a =>
      injection h with h; subst h
      show c ∈ x :: A ↔ (setAlive _ x true).isAlive c = true; exact Iff.trans (by simp [hA]) (born _ x rfl (hx x rfl)).symm
    | pbm x v => injection h with h; subst h; show c ∈ A ↔ Sys.isAlive _ c = true; exact Iff.trans (hA c) (same _ rfl).symm
    | «at» x i => injection h with h; subst h; show c ∈ A ↔ Sys.isAlive _ c = true; exact Iff.trans (hA c) (same _ rfl).symm
    | get x i => injection h with h; subst h; show c ∈ A ↔ Sys.isAlive _ c = true; exact Iff.trans (hA c) (same _ rfl).symm

theorem resWorld_eq (r : Res Sys Out) : resWorld r = (resSys r).w := by cases r <;> rfl

theorem step_alive_length (ac : ApiCfg) (s : Sys) (op : Op) (f : List Nat) (hlen : s.alive.length = 4) :
    (resSys (s.step ac op f)).alive.length = 4 := by
  unfold Sys.step
  simp only []
  have st : (if usesStream op = true then ({ s with nextStream := s.nextStream + 1 } : Sys) else s).alive = s.alive := by split <;> rfl
  cases opM ac s op { s.w with faults := f } with
  | thrown e w => simp only [resSys]; rw [st]; exact hlen
  | ok out w =>
    simp only [resSys]
    cases op <;> simp only [setAlive, List.length_set] <;> rw [st] <;> exact hlen

/-- the run of the driver over a list of protocol calls, each with its fault list -/
def apiRun (ac : ApiCfg) : Sys → List (Op × List Nat) → Sys
  | s, [] => s
  | s, (op, f) :: h => apiRun ac (resSys (s.step ac op f)) h

/-- every call of the history has a counterpart in the history language and is valid there (in the state reached) -/
def Covered (ac : ApiCfg) (U : List Nat) : Sys → List Nat → List (Op × List Nat) → Prop
  | _, _, [] => True
  | s, A, (op, f) :: h => ∃ m, toMOp ac s op = some m ∧ m.valid ac.cfg U ⟨s.w, A⟩ ∧
      Covered ac U (resSys (s.step ac op f)) (System.step ac.cfg ⟨s.w, A⟩ (m, f)).A h

/-- along every covered history of protocol calls — each with an arbitrary fault list, continuing after throws — the
    driver's world satisfies the system invariant for the containers its `alive` flags mark as constructed -/
theorem api_reachable_sys (ac : ApiCfg) (hpol : StrongPolicy ac.cfg) :
    ∀ (h : List (Op × List Nat)) (s : Sys) (A : List Nat), s.alive.length = 4 → (∀ c, c ∈ A ↔ s.isAlive c = true) →
      SysAll ac.cfg s.w [0, 1, 2, 3] A → Covered ac [0, 1, 2, 3] s A h →
      ∃ A', (∀ c, c ∈ A' ↔ (apiRun ac s h).isAlive c = true) ∧ SysAll ac.cfg (apiRun ac s h).w [0, 1, 2, 3] A'
  | [], s, A, _, hA, hs, _ => ⟨A, hA, hs⟩
  | (op, f) :: h, s, A, hlen, hA, hs, hc => by
    obtain ⟨m, hm, hv, hrest⟩ := hc
    have hsys := api_step_sys ac [0, 1, 2, 3] hpol s op f m A hm hs hv
    rw [resWorld_eq] at hsys
    have m4 : ∀ x, x ∈ [0, 1, 2, 3] → x < 4 := fun x hx => by simp at hx; omega
    have hx : ∀ x, (match op with | .new x _ | .newv x _ _ _ | .newn x _ _ | .newr x _ _ _ | .newg x _ _ | .newc x _ _ | .newm x _ _ | .del x => x | _ => 0) = x → x < 4 := by
      intro x hxe
      cases op with
      | newv y n v a => injection hm with hm; subst hm; subst hxe; exact m4 _ hv.1
      | newr y k a vs =>
        cases k with
        | inp => injection hm with hm; subst hm; subst hxe; exact m4 _ hv.1
        | fw => injection hm with hm; subst hm; subst hxe; exact m4 _ hv.1
      | newg y a vs => injection hm with hm; subst hm; subst hxe; exact m4 _ hv.1
      | newn y n a => injection hm with hm; subst hm; subst hxe; exact m4 _ hv.1
      | new y a => injection hm with hm; subst hm; subst hxe; exact m4 _ hv.1
      | newc y z a =>
        cases a with
        | none => injection hm with hm; subst hm; subst hxe; exact m4 _ hv.1
        | some a => injection hm with hm; subst hm; subst hxe; exact m4 _ hv.1
      | newm y z a =>
        cases a with
        | none => injection hm with hm; subst hm; subst hxe; exact m4 _ hv.1
        | some a => injection hm with hm; subst hm; subst hxe; exact m4 _ hv.1
      | del y => injection hm with hm; subst hm; subst hxe; exact m4 _ (hs.sub _ hv)
      | _ => subst hxe; show (0 : Nat) < 4; omega
    have hal := api_step_alive ac s op f m A hm hlen hA hx
    exact api_reachable_sys ac hpol h _ _ (step_alive_length ac s op f hlen) hal hsys hrest

/-- from the driver's initial state (nothing constructed) -/
theorem api_reachable_from_init (ac : ApiCfg) (hpol : StrongPolicy ac.cfg) (N M : Nat) (hN : N ≤ ac.cfg.maxSize) (hM : M ≤ ac.cfg.maxSize)
    (h : List (Op × List Nat)) (hc : Covered ac [0, 1, 2, 3] (initSys N M) [] h) :
    ∃ A', (∀ c, c ∈ A' ↔ (apiRun ac (initSys N M) h).isAlive c = true) ∧ SysAll ac.cfg (apiRun ac (initSys N M) h).w [0, 1, 2, 3] A' :=
  api_reachable_sys ac hpol h (initSys N M) [] rfl
    (fun c => by
      constructor
      · intro hc'; cases hc'
      · intro hc'
        exfalso
        have : ∀ c, (initSys N M).isAlive c = false := by
          intro c; unfold Sys.isAlive initSys
          match c with
          | 0 | 1 | 2 | 3 => rfl
          | n+4 => rfl
        rw [this c] at hc'; cases hc')
    (init_sys ac.cfg N M hN hM) hc

end SvModel.Bridge

namespace SvModel.Bridge
open SvModel Gen History SvModel.System

/-- non-vacuity: a protocol history from the driver's initial state that is covered — construction, push_back of an own
    element that reallocates (with a fault list), copy construction across inline capacities, the moving append, a
    destruction -/
def exApi : List (Op × List Nat) :=
  [(.newv 0 2 7 0, []), (.pb 0 (.self 1), [1]), (.pb 0 (.self 1), []), (.newc 2 0 (some 0), []), (.appm 2 0, []), (.del 0, [])]

example : Covered { cfg := Ex.cfgT } [0, 1, 2, 3] (initSys 2 3) [] exApi := by
  refine ⟨_, rfl, ?_, _, rfl, ?_, _, rfl, ?_, _, rfl, ?_, _, rfl, ?_, _, rfl, ?_, trivial⟩
  · show 0 ∈ [0, 1, 2, 3] ∧ 0 ∉ ([] : List Nat); decide
  · refine ⟨by decide +kernel, ?_⟩; show 1 < _; decide +kernel
  · refine ⟨by decide +kernel, ?_⟩; show 1 < _; decide +kernel
  · show 2 ∈ [0, 1, 2, 3] ∧ 2 ∉ _ ∧ 0 ∈ _; decide +kernel
  · show 2 ∈ _ ∧ 0 ∈ _ ∧ 0 ≠ 2; decide +kernel
  · show 0 ∈ _; decide +kernel

example : (apiRun { cfg := Ex.cfgT } (initSys 2 3) exApi).alive = [false, false, true, false] ∧
    (apiRun { cfg := Ex.cfgT } (initSys 2 3) exApi).w.live.length = 1 := by decide +kernel

/-- non-vacuity for the single-pass calls: a range construction that throws on its second element (nothing is constructed,
    nothing stays allocated), the same returning, the public append throwing and returning, an assignment, an insert at end () -/
def exApiIn : List (Op × List Nat) :=
  [(.newr 0 .inp 0 [1, 2, 3], [1]), (.newr 0 .inp 0 [1, 2, 3], []), (.app 0 .inp [4, 5], [1]), (.app 0 .inp [4, 5], []),
   (.asr 0 .inp [9], []), (.insr 0 1 .inp [8, 7], [])]

example : Covered { cfg := Ex.cfgT } [0, 1, 2, 3] (initSys 2 3) [] exApiIn := by
  refine ⟨_, rfl, ?_, _, rfl, ?_, _, rfl, ?_, _, rfl, ?_, _, rfl, ?_, .on 0 (.appendInput false 5 [8, 7]), by decide +kernel, ?_, trivial⟩
  · show 0 ∈ [0, 1, 2, 3] ∧ 0 ∉ ([] : List Nat); decide
  · show 0 ∈ [0, 1, 2, 3] ∧ 0 ∉ _; decide +kernel
  · exact ⟨by decide +kernel, trivial⟩
  · exact ⟨by decide +kernel, trivial⟩
  · exact ⟨by decide +kernel, trivial⟩
  · exact ⟨by decide +kernel, trivial⟩

example : let s1 := apiRun { cfg := Ex.cfgT } (initSys 2 3) (exApiIn.take 1)
    let s := apiRun { cfg := Ex.cfgT } (initSys 2 3) exApiIn
    s1.alive = [false, false, false, false] ∧ s1.w.live = [] ∧
    (s.w.mem (s.w.hdr 0).data).take (s.w.hdr 0).size = [.obj (.val 9), .obj (.val 8), .obj (.val 7)] := by decide +kernel

end SvModel.Bridge

namespace SvModel.Bridge
open SvModel Gen History SvModel.System

/-- did the protocol call return? -/
def apiReturned (ac : ApiCfg) (s : Sys) (op : Op) (f : List Nat) : Bool :=
  match s.step ac op f with
  | .ok _ _ => true
  | .thrown _ _ => false

theorem api_returned_iff (ac : ApiCfg) (s : Sys) (op : Op) (f : List Nat) (m : MOp Int) (A : List Nat) (h : toMOp ac s op = some m) :
    apiReturned ac s op f = returned ac.cfg ⟨s.w, A⟩ (m, f) := by
  have hb := bridge ac s op m { s.w with faults := f } rfl h
  unfold apiReturned returned Sys.step
  simp only []
  cases hr : opM ac s op { s.w with faults := f } with
  | ok out w => rw [hr] at hb; have hb' : m.run ac.cfg { s.w with faults := f } { s.w with faults := f } = .ok () w := hb.symm; simp only [hb']
  | thrown e w => rw [hr] at hb; have hb' : m.run ac.cfg { s.w with faults := f } { s.w with faults := f } = .thrown e w := hb.symm; simp only [hb']

/-- the history-language calls of a covered protocol history, and "every call returned" -/
def CoveredRet (ac : ApiCfg) (U : List Nat) : Sys → List Nat → List (Op × List Nat) → List (MOp Int) → Prop
  | _, _, [], ms => ms = []
  | s, A, (op, f) :: h, ms => ∃ m ms', ms = m :: ms' ∧ toMOp ac s op = some m ∧ m.valid ac.cfg U ⟨s.w, A⟩ ∧ apiReturned ac s op f = true ∧
      CoveredRet ac U (resSys (s.step ac op f)) (System.step ac.cfg ⟨s.w, A⟩ (m, f)).A h ms'

/-- C01 for the driver's own runs: along a covered history of protocol calls that all returned (each with an arbitrary
    fault list that did not fire fatally), the constructed containers hold what the corresponding `std::vector`s hold after
    the same calls (`SpecRun`: the L0 meaning; the source of an element-wise move is left open, as the standard leaves it) -/
theorem api_refines_rel (ac : ApiCfg) (hpol : StrongPolicy ac.cfg) :
    ∀ (h : List (Op × List Nat)) (ms : List (MOp Int)) (s : Sys) (A : List Nat) (σ : Nat → List (Val Int)),
      SysAll ac.cfg s.w [0, 1, 2, 3] A → Tracks ⟨s.w, A⟩ σ → CoveredRet ac [0, 1, 2, 3] s A h ms →
      ∃ σ' A', SpecRun ms σ σ' ∧ Tracks ⟨(apiRun ac s h).w, A'⟩ σ' ∧ SysAll ac.cfg (apiRun ac s h).w [0, 1, 2, 3] A'
  | [], ms, s, A, σ, hs, ht, hc => by
    have : ms = [] := hc
    subst this
    exact ⟨σ, A, rfl, ht, hs⟩
  | (op, f) :: h, ms, s, A, σ, hs, ht, hc => by
    obtain ⟨m, ms', hms, hm, hv, hret, hrest⟩ := hc
    subst hms
    have hret' : returned ac.cfg ⟨s.w, A⟩ (m, f) = true := by rw [← api_returned_iff ac s op f m A hm]; exact hret
    obtain ⟨σ1, h1, ht1⟩ := (step_tracks ac.cfg [0, 1, 2, 3] hpol ⟨s.w, A⟩ (m, f) σ hs hv ht).1 hret'
    have hsys := step_sys ac.cfg [0, 1, 2, 3] hpol ⟨s.w, A⟩ (m, f) hs hv
    have hw := api_step_world ac s op f m A hm
    rw [resWorld_eq] at hw
    have ht1' : Tracks ⟨(resSys (s.step ac op f)).w, (System.step ac.cfg ⟨s.w, A⟩ (m, f)).A⟩ σ1 := by
      rw [hw]; exact ht1
    have hsys' : SysAll ac.cfg (resSys (s.step ac op f)).w [0, 1, 2, 3] (System.step ac.cfg ⟨s.w, A⟩ (m, f)).A := by
      rw [hw]; exact hsys
    obtain ⟨σ', A', hr, ht', hs'⟩ := api_refines_rel ac hpol h ms' _ _ σ1 hsys' ht1' hrest
    exact ⟨σ', A', ⟨σ1, h1, hr⟩, ht', hs'⟩

/-- non-vacuity: the returning calls of `exApi` -/
example : CoveredRet { cfg := Ex.cfgT } [0, 1, 2, 3] (initSys 2 3) []
    [(.newv 0 2 7 0, []), (.pb 0 (.self 1), []), (.newc 2 0 (some 0), []), (.appm 2 0, [])]
    [.ctorVals 0 0 [7, 7], .on 0 (.pushBackSelf 1), .ctorCopy 2 0 0, .appendMove 2 0] := by
  refine ⟨_, _, rfl, rfl, ?_, by decide +kernel, _, _, rfl, rfl, ?_, by decide +kernel, _, _, rfl, rfl, ?_, by decide +kernel, _, _, rfl, rfl, ?_, by decide +kernel, rfl⟩
  · show 0 ∈ [0, 1, 2, 3] ∧ 0 ∉ ([] : List Nat); decide
  · refine ⟨by decide +kernel, ?_⟩; show 1 < _; decide +kernel
  · show 2 ∈ [0, 1, 2, 3] ∧ 2 ∉ _ ∧ 0 ∈ _; decide +kernel
  · show 2 ∈ _ ∧ 0 ∈ _ ∧ 0 ≠ 2; decide +kernel

end SvModel.Bridge

namespace SvModel.Bridge
open SvModel Gen History SvModel.System

/-- C15 at every state the driver can reach: after ANY covered history of protocol calls (any fault lists), a call that
    consumes a single-pass range — `append`, `assign`, `insert` anywhere — on a constructed container and returns has
    dereferenced and incremented every position exactly once, in order, and nothing beyond (the streams are the ones the
    driver numbers with `nextStream`; the mid-sequence insert needs no hypothesis at all) -/
theorem api_stream_once (ac : ApiCfg) (hpol : StrongPolicy ac.cfg) (N M : Nat) (hN : N ≤ ac.cfg.maxSize) (hM : M ≤ ac.cfg.maxSize)
    (h : List (Op × List Nat)) (hc : Covered ac [0, 1, 2, 3] (initSys N M) [] h)
    (x : Nat) (vs : List Int) (f : List Nat) (hx : (apiRun ac (initSys N M) h).isAlive x = true) :
    let s := apiRun ac (initSys N M) h
    let w0 : World Int := { s.w with faults := f }
    (∀ r w', appendRangeInput ac.cfg x true s.nextStream 0 vs w0 = .ok r w' →
        iterEvs w'.trace = iterEvs w0.trace ++ streamEvs s.nextStream 0 vs.length) ∧
    (∀ u w', assignWithRangeInput ac.cfg x s.nextStream vs w0 = .ok u w' →
        iterEvs w'.trace = iterEvs w0.trace ++ streamEvs s.nextStream 0 vs.length) ∧
    (∀ p r w', insertRangeInputMid ac.cfg x p s.nextStream vs w0 = .ok r w' →
        iterEvs w'.trace = iterEvs w0.trace ++ streamEvs s.nextStream 0 vs.length) := by
  intro s w0
  obtain ⟨A', hA', hs'⟩ := api_reachable_from_init ac hpol N M hN hM h hc
  have hxA : x ∈ A' := (hA' x).mpr hx
  have hs0 := sysAll_faults hs' f
  have hv : VecOK ac.cfg w0 x := hs0.ok.vec x hxA
  have hl : Ledger w0 := hs0.ok.led
  have hn : (w0.hdr x).N ≤ ac.cfg.maxSize := hs0.ok.nmax x hxA
  refine ⟨fun r w' hr => ?_, fun u w' hr => ?_, fun p r w' hr => ?_⟩
  · exact C15.stream_once ac.cfg x true s.nextStream 0 vs w0 w' r hv hl hn hpol hr
  · exact (C15.assign_stream_once ac.cfg x s.nextStream vs w0 w' u hv hl hn hpol hr).1
  · exact C15.insert_mid_stream_once ac.cfg x p s.nextStream vs w0 w' r hr

end SvModel.Bridge

namespace SvModel.Bridge
open SvModel Gen History SvModel.System

/-- what the system invariant says, spelled out for every state the driver reaches (C02 / C03 / C04 / C07 storage side):
    every constructed container satisfies the storage invariants; the live allocator blocks are exactly the buffers of the
    non-inlined constructed containers, no block is owned twice; each heap buffer belongs to the allocator its container
    holds NOW; unconstructed storage holds no object; no lifetime violation was logged -/
theorem api_clauses (ac : ApiCfg) (hpol : StrongPolicy ac.cfg) (N M : Nat) (hN : N ≤ ac.cfg.maxSize) (hM : M ≤ ac.cfg.maxSize)
    (h : List (Op × List Nat)) (hc : Covered ac [0, 1, 2, 3] (initSys N M) [] h) :
    let s := apiRun ac (initSys N M) h
    (∀ c, s.isAlive c = true → VecOK ac.cfg s.w c) ∧
    (∀ b ∈ s.w.live, ∃ c, s.isAlive c = true ∧ (s.w.hdr c).data = b ∧ (s.w.hdr c).data ≠ (s.w.hdr c).inl) ∧
    (∀ c, s.isAlive c = true → (s.w.hdr c).data ≠ (s.w.hdr c).inl → (s.w.hdr c).data ∈ s.w.live ∧ s.w.owner (s.w.hdr c).data = (s.w.hdr c).alloc) ∧
    (∀ c d, s.isAlive c = true → s.isAlive d = true → c ≠ d → (s.w.hdr c).data ≠ (s.w.hdr c).inl → (s.w.hdr c).data ≠ (s.w.hdr d).data) ∧
    s.w.ub = [] := by
  intro s
  obtain ⟨A', hA', hs'⟩ := api_reachable_from_init ac hpol N M hN hM h hc
  obtain ⟨c1, c2, c3, c4, _, c6⟩ := sys_clauses hs'
  refine ⟨fun c hc' => c1 c ((hA' c).mpr hc'), fun b hb => ?_, fun c hc' hne => ⟨c3 c ((hA' c).mpr hc') hne, sys_alloc_clause hs' c ((hA' c).mpr hc') hne⟩,
          fun c d hc' hd' hcd hne => c4 c ((hA' c).mpr hc') d ((hA' d).mpr hd') hcd hne, c6⟩
  obtain ⟨c, hcA, h1, h2⟩ := c2 b hb
  exact ⟨c, (hA' c).mp hcA, h1, h2⟩

end SvModel.Bridge
