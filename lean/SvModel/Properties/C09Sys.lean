/-
C09 / C02 at the system level: a stealing move construction or move assignment inside a system of containers leaves a
valid system — the destination holds exactly what the source held and owns its block, the source is a valid, EMPTY,
inlined container that can be reused, every other container is untouched, no block is leaked or owned twice, no
element was constructed, assigned or destroyed except the destination's old elements (move assignment) — and nothing
can throw.
-/
import SvModel.Properties.C09
import SvModel.Proofs.Steal

namespace SvModel.C09
open SvModel Gen
variable {α : Type}

theorem handOver_eq_adopt (w : World α) (c o : Nat) (hne : c ≠ o) :
    handOver (ctorMovePre w c o) c o = adoptW w c o (w.hdr o).alloc := by
  have hne' : o ≠ c := fun h => hne h.symm
  unfold handOver ctorMovePre adoptW
  simp only [upd_same, upd_other _ _ _ _ hne', upd_other _ _ _ _ hne]
  congr 1
  funext x
  by_cases hxo : x = o
  · subst hxo; simp [upd_other _ _ _ _ hne']
  · by_cases hxc : x = c
    · subst hxc; simp [upd_other _ _ _ _ hne]
    · simp [upd_other _ _ _ _ hxo, upd_other _ _ _ _ hxc]

/-- MOVE CONSTRUCTION, stealing permitted (source on the heap with capacity above the new container's inline capacity):
    returns, O(1); the new container joins the system holding the source's values in the source's old block; the source
    is valid, empty and inlined; all other containers, the memory, the ledger are untouched -/
theorem move_ctor_steals_sys (cfg : Cfg) (w : World α) (U A : List Nat) (c o : Nat) (hs : SysAll cfg w U A)
    (hcU : c ∈ U) (hcA : c ∉ A) (ho : o ∈ A) (h : StealAllowed (w.hdr c) (w.hdr o)) :
    ∃ w', ctorMove cfg c o w = .ok () w' ∧ SysAll cfg w' U (c :: A) ∧
      (∀ xs, Holds w o xs → Holds w' c xs) ∧ Holds w' o [] ∧ (w'.hdr c).data = (w.hdr o).data ∧
      (∀ d ∈ A, d ≠ o → w'.hdr d = w.hdr d) ∧ w'.mem = w.mem ∧ w'.live = w.live ∧ w'.trace = w.trace := by
  have hne : c ≠ o := fun e => hcA (e ▸ ho)
  have had := hs.adopt hcU hcA ho h.1 h.2 (w.hdr o).alloc rfl
  refine ⟨_, move_ctor_steals cfg c o hne w h, ?_⟩
  rw [handOver_eq_adopt w c o hne]
  refine ⟨had.1, had.2.1, had.2.2.1, ?_, had.2.2.2.1, had.2.2.2.2, rfl, rfl⟩
  unfold adoptW; simp [upd_other _ _ _ _ hne]

/-- the header rewrite performed by a stealing move assignment after the destination has been wiped -/
theorem stealAssign_tail (cfg : Cfg) (c o a' : Nat) (hne : c ≠ o) (w0 w1 : World α) (hh : w1.hdr = w0.hdr) :
    (setData c (w0.hdr o).data (w0.hdr o).cap (w0.hdr o).size >>= fun _ => setDefault o >>= fun _ => setAlloc c a') w1 =
      .ok () (adoptW w1 c o a') := by
  have hne' : o ≠ c := fun h => hne h.symm
  show Res.ok () _ = Res.ok () _
  congr 1
  unfold adoptW
  rw [hh]
  congr 1
  funext x
  by_cases hxc : x = c
  · subst hxc; simp [upd_other _ _ _ _ hne, upd_other _ _ _ _ hne']
  · by_cases hxo : x = o
    · subst hxo; simp [upd_other _ _ _ _ hne']
    · simp [upd_other _ _ _ _ hxo, upd_other _ _ _ _ hxc]

/-- MOVE ASSIGNMENT, stealing permitted and allocators interchangeable: returns; the destination's old elements are
    destroyed and its old block released, then it takes over the source's block; the system is valid again, the
    destination holds what the source held, the source is empty/inlined/valid, nobody else is touched.
    `hown`: the allocator the destination ends up with is the one that owns the block (it propagates, or the two
    compare equal). -/
theorem stealAssign_sys (cfg : Cfg) (w : World α) (U A : List Nat) (c o : Nat) (hs : SysAll cfg w U A)
    (hc : c ∈ A) (ho : o ∈ A) (hne : c ≠ o) (h : StealAllowed (w.hdr c) (w.hdr o))
    (hown : maybeMove cfg.policy (w.hdr c).alloc (w.hdr o).alloc = (w.hdr o).alloc) :
    ∃ w', stealAssign cfg c o w w = .ok () w' ∧ SysAll cfg w' U A ∧
      (∀ xs, Holds w o xs → Holds w' c xs) ∧ Holds w' o [] ∧ (w'.hdr c).data = (w.hdr o).data ∧
      (∀ d ∈ A, d ≠ o → d ≠ c → w'.hdr d = w.hdr d ∧ w'.mem (w.hdr d).data = w.mem (w.hdr d).data) := by
  have hne' : o ≠ c := fun e => hne e.symm
  unfold stealAssign
  have hd := SysAll.dtor hs hc
  unfold dtor at hd
  rw [bind_run]
  cases hr : wipe cfg c w with
  | thrown e w1 => rw [hr] at hd; exact hd.elim
  | ok u w1 =>
    rw [hr] at hd
    obtain ⟨hs1, hh1, hmem1⟩ := hd
    simp only []
    rw [hown, stealAssign_tail cfg c o _ hne w w1 hh1]
    have hcA1 : c ∉ A.filter (· ≠ c) := fun hm => by simpa using (List.mem_filter.mp hm).2
    have ho1 : o ∈ A.filter (· ≠ c) := List.mem_filter.mpr ⟨ho, by simpa using hne'⟩
    have h1 : (w1.hdr o).N < (w1.hdr o).cap := by rw [hh1]; exact h.1
    have h2 : (w1.hdr c).N < (w1.hdr o).cap := by rw [hh1]; exact h.2
    have had := hs1.adopt (hs.sub c hc) hcA1 ho1 h1 h2 (w.hdr o).alloc (by rw [hh1])
    refine ⟨_, rfl, had.1.congr (fun x => ?_), ?_, had.2.2.1, ?_, ?_⟩
    · constructor
      · intro hx
        by_cases hxc : x = c
        · rw [hxc]; simp
        · exact List.mem_cons_of_mem _ (List.mem_filter.mpr ⟨hx, by simpa using hxc⟩)
      · intro hx
        rcases List.mem_cons.mp hx with e | hm
        · rw [e]; exact hc
        · exact (List.mem_filter.mp hm).1
    · intro xs hx
      have hx1 : Holds w1 o xs := ⟨by rw [hh1]; exact hx.1, fun i hi => by rw [hh1, hmem1 o ho hne']; exact hx.2 i hi⟩
      exact had.2.1 xs hx1
    · unfold adoptW; simp [upd_other _ _ _ _ hne, hh1]
    · intro d hd hdo hdc
      have hd1 : d ∈ A.filter (· ≠ c) := List.mem_filter.mpr ⟨hd, by simpa using hdc⟩
      refine ⟨by rw [had.2.2.2.1 d hd1 hdo, hh1], ?_⟩
      rw [had.2.2.2.2]; exact hmem1 d hd hdc

/-- … stated for the whole `operator= (small_vector&&)` -/
theorem move_assign_steals_sys (cfg : Cfg) (w : World α) (U A : List Nat) (c o : Nat) (hs : SysAll cfg w U A)
    (hc : c ∈ A) (ho : o ∈ A) (hne : c ≠ o) (h : StealAllowed (w.hdr c) (w.hdr o))
    (hi : InterchangeableMove cfg (w.hdr c) (w.hdr o))
    (hown : maybeMove cfg.policy (w.hdr c).alloc (w.hdr o).alloc = (w.hdr o).alloc) :
    ∃ w', moveAssign cfg c o w = .ok () w' ∧ SysAll cfg w' U A ∧
      (∀ xs, Holds w o xs → Holds w' c xs) ∧ Holds w' o [] ∧ (w'.hdr c).data = (w.hdr o).data ∧
      (∀ d ∈ A, d ≠ o → d ≠ c → w'.hdr d = w.hdr d ∧ w'.mem (w.hdr d).data = w.mem (w.hdr d).data) := by
  rw [move_assign_steals cfg c o w h hi]
  exact stealAssign_sys cfg w U A c o hs hc ho hne h hown

end SvModel.C09
