/-
C08 — Constant evaluation matches run-time results and is free of UB and leaks.

What the model carries, and what it cannot:
 * The element values, sizes and return values of every operation with a refinement theorem (Properties/Core.lean) are
   those of the L0 list function; L0 has no notion of build mode, so they are the same in every mode in which the
   operation refines L0 (`results_mode_independent_*`), and every reallocating path takes its capacity from the one
   generated growth function (C14), which does not consult the evaluation mode.
 * The generated function `has_allocation` is the only decision function of the header that reads
   `is_constant_evaluated ()`: under constant evaluation every container counts as allocated
   (`has_allocation_consteval`), at run time exactly the containers whose capacity exceeds the inline capacity
   (`has_allocation_runtime`).  This is why `inlined ()` and the capacity after a move or swap are exempted by the property:
   a move may then steal the "inline" buffer.
 * The constant-evaluation branches themselves (heap-backed inline storage, heap_temporary) are NOT in the L2 model.
   That any sequence of operations IS a constant expression (the compiler's evaluator finds no UB, no out-of-lifetime access,
   no unreleased allocation) and yields the run-time results is established per generated program by the compilers'
   constant evaluators: tools/c08.py turns random op sequences into `constexpr` functions folding every non-exempt
   observable into a digest, g++ and clang++ evaluate them at compile time and at run time, and the Lean model's
   observations are folded into the same digest (three-way agreement).  Labelled partial.
-/
import SvModel.Properties.Core
import SvModel.Gen.Growth

namespace SvModel.C08
open SvModel Gen
variable {α : Type}

theorem has_allocation_consteval (N cap : Nat) : hasAllocation true N cap = true := rfl
theorem has_allocation_runtime (N cap : Nat) : hasAllocation false N cap = decide (N < cap) := rfl

/-- the guards that read the evaluation mode only do so through `has_allocation`: with constEval = true they are the
    constant the header's `if (std::is_constant_evaluated ()) return true;` makes them -/
theorem guards_consteval (e : GuardEnv) (h : e.constEval = true) :
    guard_wipe_0 e = true ∧ guard_swapDefault_0 e = true ∧ guard_moveInitialize2_0 e = true ∧ guard_moveAssignDefault2_0 e = true ∧
    guard_copyAssign0_2 e = true ∧ guard_shrinkToSize_2 e = true := by
  simp [guard_wipe_0, guard_swapDefault_0, guard_moveInitialize2_0, guard_moveAssignDefault2_0, guard_copyAssign0_2, guard_shrinkToSize_2,
    hasAllocation, h]

/-- results (contents and returned position) of push_back do not depend on the configuration at all: two runs from worlds
    holding the same list give the same list — whatever the element-type flavour, allocator traits or fast-path mode -/
theorem results_mode_independent_push_back (cfg1 cfg2 : Cfg) (c : Nat) (a : α) (w1 w2 w1' w2' : World α) (r1 r2 : Nat) (xs : List (Val α))
    (hp1 : Pre cfg1 w1 c) (hp2 : Pre cfg2 w2 c) (hpol1 : StrongPolicy cfg1) (hpol2 : StrongPolicy cfg2)
    (hx1 : Holds w1 c xs) (hx2 : Holds w2 c xs)
    (hr1 : appendElement cfg1 c (.ext a) w1 = .ok r1 w1') (hr2 : appendElement cfg2 c (.ext a) w2 = .ok r2 w2') :
    ∃ ys, Holds w1' c ys ∧ Holds w2' c ys ∧ r1 = r2 := by
  have h1 := C01.push_back_refines cfg1 c (.ext a) w1 w1' r1 xs hp1 ⟨rfl, fun _ _ h => by simp [Src.loc] at h, fun _ _ h => by simp [Src.loc] at h⟩ hpol1 hx1 hr1
  have h2 := C01.push_back_refines cfg2 c (.ext a) w2 w2' r2 xs hp2 ⟨rfl, fun _ _ h => by simp [Src.loc] at h, fun _ _ h => by simp [Src.loc] at h⟩ hpol2 hx2 hr2
  exact ⟨_, h1.1, h2.1, by rw [h1.2, h2.2]⟩

theorem results_mode_independent_resize (cfg1 cfg2 : Cfg) (c n : Nat) (a : α) (w1 w2 w1' w2' : World α) (xs : List (Val α))
    (hp1 : Pre cfg1 w1 c) (hp2 : Pre cfg2 w2 c) (hpol1 : StrongPolicy cfg1) (hpol2 : StrongPolicy cfg2)
    (hx1 : Holds w1 c xs) (hx2 : Holds w2 c xs)
    (hr1 : resizeWith cfg1 c n (.ext a) w1 = .ok () w1') (hr2 : resizeWith cfg2 c n (.ext a) w2 = .ok () w2') :
    ∃ ys, Holds w1' c ys ∧ Holds w2' c ys :=
  ⟨_, C01.resize_refines cfg1 c n (.ext a) w1 w1' xs hp1 ⟨rfl, fun _ _ h => by simp [Src.loc] at h, fun _ _ h => by simp [Src.loc] at h⟩ hpol1 hx1 hr1,
      C01.resize_refines cfg2 c n (.ext a) w2 w2' xs hp2 ⟨rfl, fun _ _ h => by simp [Src.loc] at h, fun _ _ h => by simp [Src.loc] at h⟩ hpol2 hx2 hr2⟩

theorem results_mode_independent_erase (cfg1 cfg2 : Cfg) (c p q : Nat) (w1 w2 w1' w2' : World α) (r1 r2 : Nat) (xs : List (Val α))
    (hp1 : Pre cfg1 w1 c) (hp2 : Pre cfg2 w2 c) (h1 : p ≤ q) (h2 : q ≤ xs.length) (hx1 : Holds w1 c xs) (hx2 : Holds w2 c xs)
    (hr1 : eraseRange cfg1 c p q w1 = .ok r1 w1') (hr2 : eraseRange cfg2 c p q w2 = .ok r2 w2') :
    ∃ ys, Holds w1' c ys ∧ Holds w2' c ys ∧ r1 = r2 := by
  have a := C01.erase_range_refines cfg1 c p q w1 w1' r1 xs hp1 h1 (by rw [← hx1.1]; exact h2) hx1 hr1
  have b := C01.erase_range_refines cfg2 c p q w2 w2' r2 xs hp2 h1 (by rw [← hx2.1]; exact h2) hx2 hr2
  exact ⟨_, a.1, b.1, by rw [a.2, b.2]⟩

end SvModel.C08
