/-
C16 — Comparisons and non-member functions agree with std::vector semantics.

Theorems are about the definitions in `SvModel.Gen.Compare`, regenerated from the bodies of the non-member
operators / erase / erase_if on every run (T-tie), against the L0 specification `SvModel.L0`.  Nothing depends on the
inline capacities: the generated definitions only see the element sequences (the header has one mixed-capacity
and one same-capacity overload per operator; the translator requires their bodies to be identical).
-/
import SvModel.Gen.Compare
import SvModel.Spec.L0Compare

namespace SvModel.C16
open SvModel.Gen SvModel.L0

variable {α : Type}

theorem stdEqual_eq_listEq [BEq α] : ∀ (l r : List α), l.length = r.length → stdEqual l r = listEq l r
  | [], [], _ => rfl
  | [], _ :: _, h => by simp at h
  | _ :: _, [], h => by simp at h
  | a :: l, b :: r, h => by
    simp only [stdEqual, listEq]
    rw [stdEqual_eq_listEq l r (by simpa using h)]

theorem listEq_length [BEq α] : ∀ (l r : List α), listEq l r = true → l.length = r.length
  | [], [], _ => rfl
  | [], _ :: _, h => by simp [listEq] at h
  | _ :: _, [], h => by simp [listEq] at h
  | a :: l, b :: r, h => by
    simp only [listEq, Bool.and_eq_true] at h
    simp [listEq_length l r h.2]

/-- operator== is std::vector's == for every pair of contents -/
theorem eq_spec [BEq α] (l r : List α) : opEq l r = listEq l r := by
  unfold opEq
  by_cases h : l.length = r.length
  · simp [h, stdEqual_eq_listEq l r h]
  · have : listEq l r = false := by
      cases hh : listEq l r with
      | false => rfl
      | true => exact absurd (listEq_length l r hh) h
    simp [h, this]

theorem ne_spec [BEq α] (l r : List α) : opNe l r = !listEq l r := by
  unfold opNe; rw [eq_spec]

theorem stdLexLt_eq_lexLt (lt : α → α → Bool) : ∀ (l r : List α), stdLexLt lt l r = lexLt lt l r
  | _, [] => by cases ‹List α› <;> rfl
  | [], _ :: _ => rfl
  | a :: l, b :: r => by
    simp only [stdLexLt, lexLt]
    rw [stdLexLt_eq_lexLt lt l r]
    cases lt a b <;> cases lt b a <;> simp

/-- operator< is std::vector's <  -/
theorem lt_spec (lt : α → α → Bool) (l r : List α) : opLt lt l r = lexLt lt l r := by
  unfold opLt; exact stdLexLt_eq_lexLt lt l r

/-- `a >= b` is `!(a < b)`, `a > b` is `b < a`, `a <= b` is `!(b < a)` — as std::vector defines them -/
theorem ge_iff_not_lt (lt : α → α → Bool) (l r : List α) : opGe lt l r = !lexLt lt l r := by
  unfold opGe; rw [lt_spec]
theorem gt_iff_swap (lt : α → α → Bool) (l r : List α) : opGt lt l r = lexLt lt r l := by
  unfold opGt; rw [lt_spec]
theorem le_iff_not_gt (lt : α → α → Bool) (l r : List α) : opLe lt l r = !lexLt lt r l := by
  unfold opLe; rw [ge_iff_not_lt]

/-- three-way fallback agrees with the L0 three-way comparison … -/
theorem threeway_spec (lt : α → α → Bool) : ∀ (l r : List α),
    (match opCmp3Fallback lt l r with | .less => Ordering3.less | .equiv => .equiv | .greater => .greater) = lex3 lt l r
  | [], [] => rfl
  | [], _ :: _ => rfl
  | _ :: _, [] => rfl
  | a :: l, b :: r => by
    have ih := threeway_spec lt l r
    unfold opCmp3Fallback at ih ⊢
    simp only [stdLex3, lex3, weakFromLt]
    cases h1 : lt a b <;> cases h2 : lt b a <;> simp [ih]

/-- … and is consistent with `<`: `(a <=> b) < 0 ↔ a < b`, for an asymmetric element order -/
theorem threeway_consistent (lt : α → α → Bool) (hasym : ∀ a b, lt a b = true → lt b a = false) :
    ∀ (l r : List α), (lex3 lt l r = .less ↔ lexLt lt l r = true) ∧ (lex3 lt l r = .greater ↔ lexLt lt r l = true)
  | [], [] => by simp [lex3, lexLt]
  | [], _ :: _ => by simp [lex3, lexLt]
  | _ :: _, [] => by simp [lex3, lexLt]
  | a :: l, b :: r => by
    have ih := threeway_consistent lt hasym l r
    simp only [lex3, lexLt]
    cases h1 : lt a b <;> cases h2 : lt b a
    · simp [ih]
    · simp
    · simp
    · have := hasym a b h1; rw [h2] at this; cases this

/-- mutual consistency: for an asymmetric element order, `a < b` and `b < a` never both hold … -/
theorem lt_asymm (lt : α → α → Bool) (hasym : ∀ a b, lt a b = true → lt b a = false) :
    ∀ (l r : List α), lexLt lt l r = true → lexLt lt r l = false
  | _, [], h => by cases ‹List α› <;> simp [lexLt] at h
  | [], _ :: _, _ => by simp [lexLt]
  | a :: l, b :: r, h => by
    simp only [lexLt, Bool.or_eq_true, Bool.and_eq_true, Bool.not_eq_true'] at h ⊢
    rcases h with h | ⟨h1, h2⟩
    · simp [h, hasym a b h]
    · have := lt_asymm lt hasym l r h2
      cases hab : lt a b
      · simp [h1, this]
      · have := hasym a b hab; simp [this, h1, lt_asymm lt hasym l r h2]

/-- … so the six operators are mutually consistent: exactly as for std::vector, `a <= b` ⇐ `a < b`, `a >= b ∨ a < b`,
    `a > b → ¬ a <= b` -/
theorem six_consistent (lt : α → α → Bool) (hasym : ∀ a b, lt a b = true → lt b a = false) (l r : List α) :
    (opLt lt l r = true → opLe lt l r = true) ∧ (opGe lt l r = !opLt lt l r) ∧ (opGt lt l r = opLt lt r l) ∧
    (opLe lt l r = !opGt lt l r) := by
  refine ⟨?_, ?_, ?_, ?_⟩
  · intro h; rw [lt_spec] at h; rw [le_iff_not_gt, lt_asymm lt hasym l r h]; rfl
  · rw [ge_iff_not_lt, lt_spec]
  · rw [gt_iff_swap, lt_spec]
  · rw [le_iff_not_gt, gt_iff_swap]

/-- with an element `==` that is an equivalence compatible with `<` (irreflexive on equal elements): equal vectors are
    neither less nor greater -/
theorem eq_not_lt [BEq α] (lt : α → α → Bool) (hirr : ∀ a b : α, (a == b) = true → lt a b = false ∧ lt b a = false) :
    ∀ (l r : List α), listEq l r = true → lexLt lt l r = false ∧ lexLt lt r l = false
  | [], [], _ => by simp [lexLt]
  | [], _ :: _, h => by simp [listEq] at h
  | _ :: _, [], h => by simp [listEq] at h
  | a :: l, b :: r, h => by
    simp only [listEq, Bool.and_eq_true] at h
    have ⟨h1, h2⟩ := hirr a b h.1
    have ⟨i1, i2⟩ := eq_not_lt lt hirr l r h.2
    simp [lexLt, h1, h2, i1, i2]

/-- non-member erase: remaining elements in order, removed count -/
theorem erase_spec [BEq α] (l : List α) (v : α) : nmErase l v = L0.erase l v := by
  unfold nmErase L0.erase
  simp only [Prod.mk.injEq, true_and]
  induction l with
  | nil => rfl
  | cons a l ih =>
    simp only [List.filter_cons]
    cases h : (a == v) <;> simp [h] <;> (have := List.length_filter_le (fun x => !(x == v)) l; omega)

theorem erase_if_spec (l : List α) (p : α → Bool) : nmEraseIf l p = L0.eraseIf l p := by
  unfold nmEraseIf L0.eraseIf
  simp only [Prod.mk.injEq, true_and]
  induction l with
  | nil => rfl
  | cons a l ih =>
    simp only [List.filter_cons]
    cases h : p a <;> simp [h] <;> (have := List.length_filter_le (fun x => !p x) l; omega)

/-- the result does not depend on the inline capacities: the overloads for operands of EQUAL inline capacity compute the
    same functions as the ones for operands of different inline capacity (so every theorem above holds for both) -/
theorem same_capacity_overloads_agree [BEq α] (lt : α → α → Bool) (l r : List α) :
    opEqSame l r = opEq l r ∧ opNeSame l r = opNe l r ∧ opLtSame lt l r = opLt lt l r ∧ opGeSame lt l r = opGe lt l r ∧
    opGtSame lt l r = opGt lt l r ∧ opLeSame lt l r = opLe lt l r := by
  have hlt : ∀ a b, opLtSame lt a b = opLt lt a b := fun a b => by
    rw [lt_spec]; unfold opLtSame; exact stdLexLt_eq_lexLt lt a b
  have heq : opEqSame l r = opEq l r := by
    rw [eq_spec]; unfold opEqSame
    by_cases h : l.length = r.length
    · simp only [h, decide_true, Bool.true_and]; exact stdEqual_eq_listEq l r h
    · have : listEq l r = false := by
        cases hle : listEq l r with
        | false => rfl
        | true => exact absurd (listEq_length l r hle) h
      simp [h, this]
  refine ⟨heq, ?_, hlt l r, ?_, ?_, ?_⟩
  · unfold opNeSame opNe; rw [heq]
  · unfold opGeSame opGe; rw [hlt]
  · unfold opGtSame opGt; rw [hlt]
  · unfold opLeSame opLe opGeSame opGe; rw [hlt]

/-- non-vacuity / sanity on concrete contents (elements Nat, `<` and `==` the usual ones) -/
example : opEq [1, 2, 3] [1, 2, 3] = true ∧ opEq [1, 2] [1, 2, 3] = false ∧ opNe [1, 2] [1, 3] = true := by decide
example : opLt Nat.blt [1, 2] [1, 2, 0] = true ∧ opLe Nat.blt [1, 2] [1, 2] = true ∧ opGt Nat.blt [2] [1, 9] = true ∧
          opGe Nat.blt [] [0] = false := by decide
example : nmErase [1, 2, 1, 3, 1] 1 = ([2, 3], 3) := by decide

end SvModel.C16
