/-
L0 — what `std::vector` does, as functions on lists ([vector], [sequence.reqmts]).  Short enough to read in a minute;
the refinement theorems of C01 target exactly these definitions.
-/
namespace SvModel.L0
variable {β : Type}

def pushBack (xs : List β) (x : β) : List β := xs ++ [x]
def popBack (xs : List β) : List β := xs.dropLast
def clear (_ : List β) : List β := []
/-- erase(pos): returns the position of the element after the erased one = pos -/
def eraseAt (xs : List β) (p : Nat) : List β × Nat := (xs.take p ++ xs.drop (p + 1), p)
def eraseRange (xs : List β) (p q : Nat) : List β × Nat := (xs.take p ++ xs.drop q, p)
def insertAt (xs : List β) (p : Nat) (x : β) : List β × Nat := (xs.take p ++ [x] ++ xs.drop p, p)
def insertN (xs : List β) (p n : Nat) (x : β) : List β × Nat := (xs.take p ++ List.replicate n x ++ xs.drop p, p)
def insertRange (xs : List β) (p : Nat) (ys : List β) : List β × Nat := (xs.take p ++ ys ++ xs.drop p, p)
def resize (xs : List β) (n : Nat) (x : β) : List β := xs.take n ++ List.replicate (n - xs.length) x
def assignN (n : Nat) (x : β) : List β := List.replicate n x
def assignRange (ys : List β) : List β := ys
def append (xs ys : List β) : List β := xs ++ ys
/-- at(i): the element, or out_of_range iff size ≤ i -/
def at? (xs : List β) (i : Nat) : Option β := xs[i]?

end SvModel.L0
