/-
C13, conversion clause — a model of `static_cast` between integral / enumeration types and between object pointers on
OBJECT REPRESENTATIONS (little-endian two's complement), and the predicate `ReprPreserving` that says when the
conversion cannot change the representation, i.e. when copying the bytes (memcpy / memmove) IS the conversion.

`convInt_id` proves the predicate sound for every width and every valid representation (unbounded).  The table of the
header's own verdicts (`is_memcpyable`, `is_uninitialized_memcpyable`, `is_contiguous_iterator`, Gen/MemcpyTable.lean,
produced by the compiler from the real header on every run) is then checked against the predicate by kernel
evaluation in Properties/C13.lean; the model itself is validated against the compiler's `static_cast` on sample bit
patterns in the same table (`identBySamples`).
-/
import SvModel.Gen.MemcpyTable

namespace SvModel.Conv
open SvModel.Gen

/-- number of distinct representations of a type of `size` bytes -/
def card (d : TyDesc) : Nat := 256 ^ d.size

/-- a valid object representation: in range, and 0/1 for bool (and enums over bool) -/
def ValidRep (d : TyDesc) (x : Nat) : Prop := x < card d ∧ (d.isBool = true → x ≤ 1)

/-- the mathematical value denoted by representation `x` of an integral / enumeration type -/
def toInt (d : TyDesc) (x : Nat) : Int :=
  if d.signed = true ∧ card d ≤ 2 * x then (x : Int) - (card d : Int) else (x : Int)

/-- `static_cast<To>(from)` for integral / enumeration types, on representations:
    to bool: value ≠ 0; otherwise: the value reduced modulo 2^bits of the destination -/
def convInt (f t : TyDesc) (x : Nat) : Nat :=
  if t.isBool = true then (if toInt f x = 0 then 0 else 1)
  else (toInt f x % (card t : Int)).toNat

/-- an implicit pointer conversion adjusts a non-null address by the offset of the base subobject -/
def convPtr (offset : Int) (p : Int) : Int := if p = 0 then 0 else p + offset

/-- when is copying the bytes the same as converting?  same type; or integral/enumeration types of the same size
    where a non-bool is never squeezed into a bool -/
def ReprPreserving (sameType : Bool) (f t : TyDesc) : Bool :=
  sameType || (decide (f.kind ≤ 1) && decide (t.kind ≤ 1) && decide (f.size = t.size) && (!t.isBool || f.isBool))

theorem card_pos (d : TyDesc) : 0 < card d := Nat.pow_pos (by decide)

theorem card_big (d : TyDesc) : card d = 1 ∨ 256 ≤ card d := by
  unfold card
  cases d.size with
  | zero => left; rfl
  | succ n => right; calc 256 = 256 ^ 1 := by decide
                _ ≤ 256 ^ (n + 1) := Nat.pow_le_pow_right (by decide) (by omega)

/-- SOUNDNESS of the predicate, for every width: an eligible pair converts every valid representation to itself -/
theorem convInt_id (f t : TyDesc) (x : Nat) (hs : f.size = t.size) (hb : t.isBool = true → f.isBool = true)
    (hv : ValidRep f x) : convInt f t x = x := by
  have hc : card t = card f := by unfold card; rw [hs]
  have hpos := card_pos f
  obtain ⟨hx, hbool⟩ := hv
  unfold convInt
  by_cases htb : t.isBool = true
  · rw [if_pos htb]
    have hx1 := hbool (hb htb)
    -- a bool is 0 or 1; its value is itself
    have hsz := card_big f
    have hti : toInt f x = (x : Int) := by
      unfold toInt
      rw [if_neg]
      intro ⟨_, h⟩; omega
    rw [hti]
    by_cases h0 : x = 0
    · subst h0; simp
    · have : x = 1 := by omega
      subst this; simp
  · rw [if_neg htb, hc]
    unfold toInt
    by_cases hneg : f.signed = true ∧ card f ≤ 2 * x
    · rw [if_pos hneg]
      have : ((x : Int) - (card f : Int)) % (card f : Int) = (x : Int) := by
        rw [Int.sub_emod_right]
        exact Int.emod_eq_of_lt (by omega) (by omega)
      rw [this]; simp
    · rw [if_neg hneg]
      have : (x : Int) % (card f : Int) = (x : Int) := Int.emod_eq_of_lt (by omega) (by omega)
      rw [this]; simp

theorem reprPreserving_sound (f t : TyDesc) (x : Nat) (h : ReprPreserving false f t = true) (hv : ValidRep f x) :
    convInt f t x = x := by
  unfold ReprPreserving at h
  simp only [Bool.false_or, Bool.and_eq_true, decide_eq_true_eq, Bool.or_eq_true, Bool.not_eq_true'] at h
  obtain ⟨⟨⟨_, _⟩, hs⟩, hb⟩ := h
  refine convInt_id f t x hs (fun ht => ?_) hv
  rcases hb with hb | hb
  · rw [hb] at ht; cases ht
  · exact hb

/-- pointers: a conversion with zero address adjustment is the identity on every address (null included) -/
theorem convPtr_id (p : Int) : convPtr 0 p = p := by
  unfold convPtr; split <;> simp_all

/-- … and with a non-zero adjustment it is NOT (so memcpy would store wrong addresses) -/
theorem convPtr_ne (off p : Int) (ho : off ≠ 0) (hp : p ≠ 0) : convPtr off p ≠ p := by
  unfold convPtr; rw [if_neg hp]; omega

/-- the sample bit patterns the table program feeds to the compiler's static_cast (low `size` bytes are used) -/
def patterns : List Nat :=
  [0, 1, 2, 0x7f, 0x80, 0xff, 0x100, 0x7fff, 0x8000, 0xffff, 0x7fffffff, 0x80000000, 0xffffffff, 0x7fffffffffffffff,
   0x8000000000000000, 0xffffffffffffffff, 0x4048f5c3, 0x400921fb54442d18]

/-- what the model predicts for the table's `identBySamples` column -/
def identOnSamples (f t : TyDesc) : Bool :=
  decide (f.size = t.size) &&
  patterns.all fun p =>
    (f.isBool && decide (1 < p)) || decide (convInt f t (p % card f) = p % card f)

end SvModel.Conv
