/-
L0 specification of the comparison operators and non-member erase: what `std::vector` does on the same contents
([vector.syn], [container.requirements], [alg.lex.comparison], [vector.erasure]).
-/
namespace SvModel.L0

/-- `a == b` for vectors: same size and element-wise equal -/
def listEq {α} [BEq α] : List α → List α → Bool
  | [], [] => true
  | a :: l, b :: r => a == b && listEq l r
  | _, _ => false

/-- `a < b` for vectors: lexicographical comparison with the element `<` -/
def lexLt {α} (lt : α → α → Bool) : List α → List α → Bool
  | _, [] => false
  | [], _ :: _ => true
  | a :: l, b :: r => lt a b || (!lt b a && lexLt lt l r)

inductive Ordering3 | less | equiv | greater deriving DecidableEq, Repr

/-- `a <=> b` for vectors whose elements only have `<` (synth-three-way) -/
def lex3 {α} (lt : α → α → Bool) : List α → List α → Ordering3
  | [], [] => .equiv
  | [], _ :: _ => .less
  | _ :: _, [] => .greater
  | a :: l, b :: r => if lt a b then .less else if lt b a then .greater else lex3 lt l r

/-- std::erase(c, value): removes all elements equal to value, returns how many -/
def erase {α} [BEq α] (l : List α) (v : α) : List α × Nat :=
  (l.filter (fun x => !(x == v)), (l.filter (fun x => x == v)).length)

def eraseIf {α} (l : List α) (p : α → Bool) : List α × Nat :=
  (l.filter (fun x => !p x), (l.filter p).length)

end SvModel.L0
