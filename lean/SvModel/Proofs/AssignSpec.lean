/-
Assignment loops (std::copy / std::move / std::fill / std::move_backward as element-wise assignment over LIVE slots).

`Touched w w' P` — the shape abstraction: only slots satisfying `P` may have changed, every slot that held an object
still holds one, raw slots are still raw.  It holds in BOTH outcomes of every assignment loop, for every fault list;
this is what makes the basic guarantee (C06) cheap.  Exact values on normal return are separate lemmas.
-/
import SvModel.Proofs.RangeSpec

namespace SvModel
variable {α : Type}

/-- only slots satisfying `P` may have changed, and they stay objects -/
structure Touched (w w' : World α) (P : Nat → Nat → Prop) : Prop where
  ctl  : Ctl w w'
  same : ∀ (b i : Nat), ¬ P b i → (w'.mem b)[i]? = (w.mem b)[i]?
  obj  : ∀ (b i : Nat), P b i → IsObj w b i → IsObj w' b i

theorem Touched.refl (w : World α) (P : Nat → Nat → Prop) : Touched w w P :=
  ⟨Ctl.refl w, fun _ _ _ => rfl, fun _ _ _ h => h⟩

theorem Touched.isObj {w w' : World α} {P : Nat → Nat → Prop} (h : Touched w w' P) {b i : Nat} (ho : IsObj w b i) : IsObj w' b i := by
  by_cases hp : P b i
  · exact h.obj b i hp ho
  · exact isObj_of_eq (h.same b i hp) ho

theorem Touched.isRaw {w w' : World α} {P : Nat → Nat → Prop} (h : Touched w w' P) {b i : Nat}
    (hp : ∀ b i, P b i → IsObj w b i) (hr : IsRaw w b i) : IsRaw w' b i := by
  by_cases hpb : P b i
  · exact (not_obj_and_raw (hp b i hpb) hr).elim
  · exact isRaw_of_eq (h.same b i hpb) hr

theorem Touched.mono {w w' : World α} {P Q : Nat → Nat → Prop} (h : Touched w w' P) (hpq : ∀ b i, P b i → Q b i) : Touched w w' Q :=
  ⟨h.ctl, fun b i hn => h.same b i (fun hp => hn (hpq b i hp)), fun _ _ _ ho => h.isObj ho⟩

theorem Touched.trans {a b c : World α} {P : Nat → Nat → Prop} (h1 : Touched a b P) (h2 : Touched b c P) : Touched a c P :=
  ⟨h1.ctl.trans h2.ctl, fun x i hn => (h2.same x i hn).trans (h1.same x i hn), fun _ _ _ ho => h2.isObj (h1.isObj ho)⟩

theorem Touched.of_quiet {w w' : World α} (P : Nat → Nat → Prop) (h : Quiet w w') : Touched w w' P :=
  ⟨h.2, fun _ _ _ => by rw [h.1], fun _ _ _ ho => by unfold IsObj; rw [h.1]; exact ho⟩

/-- one assignment touches its target and (when it moves) its source -/
theorem WroteFrom.touched {c : Cfg} {w w' : World α} {blk idx : Nat} {s : Src α} (hw : WroteFrom c w w' blk idx s) :
    Touched w w' (fun b i => (b, i) = (blk, idx) ∨ s.loc = some (b, i)) := by
  refine ⟨hw.ctl, ?_, ?_⟩
  · intro b i hn
    exact hw.rest b i (fun h => hn (Or.inl h)) (fun h => hn (Or.inr h))
  · intro b i hp _
    by_cases h1 : (b, i) = (blk, idx)
    · injection h1 with h1 h2; subst h1; subst h2; exact ⟨_, hw.dst⟩
    · rcases hp with hp | hp
      · exact absurd hp h1
      · exact ⟨_, hw.src b i hp h1⟩

/-- forward assignment loop, shape level, both outcomes: only the targets and the moved-from sources change, and
    they remain objects -/
theorem assignGen_touched (c : Cfg) (dblk : Nat) : ∀ (srcs : List (Src α)) (d : Nat) (w : World α),
    (∀ k, k < srcs.length → IsObj w dblk (d + k)) →
    (∀ s ∈ srcs, SrcLive w s) →
    (∀ k (h : k < srcs.length), srcs[k].loc ≠ some (dblk, d + k)) →
    (assignGen c dblk d srcs w).sat
      (fun _ w' => Touched w w' (fun b i => (b = dblk ∧ d ≤ i ∧ i < d + srcs.length) ∨ ∃ s ∈ srcs, s.loc = some (b, i)))
      (fun e w' => e = .elem ∧ Touched w w' (fun b i => (b = dblk ∧ d ≤ i ∧ i < d + srcs.length) ∨ ∃ s ∈ srcs, s.loc = some (b, i)))
  | [], d, w, _, _, _ => Touched.refl w _
  | s :: rest, d, w, hobj, hlive, hself => by
    show ((assignSrc c dblk d s >>= fun _ => assignGen c dblk (d + 1) rest) w).sat _ _
    obtain ⟨u, hu⟩ := hobj 0 (by simp)
    have hs0 : s.loc ≠ some (dblk, d) := by have := hself 0 (by simp); simpa using this
    refine sat_bind (assignSrc_sat c dblk d s w u (by simpa using hu) (hlive s (by simp)) hs0) (fun _ w1 hw => ?_) ?_
    · have ht1 : Touched w w1 (fun b i => (b = dblk ∧ d ≤ i ∧ i < d + (s :: rest).length) ∨ ∃ s' ∈ s :: rest, s'.loc = some (b, i)) :=
        hw.touched.mono (fun b i h => by
          rcases h with h | h
          · injection h with h1 h2; left; exact ⟨h1, by omega, by simp; omega⟩
          · right; exact ⟨s, by simp, h⟩)
      have hobj1 : ∀ k, k < rest.length → IsObj w1 dblk (d + 1 + k) := by
        intro k hk
        have := hobj (k + 1) (by simp; omega)
        rw [show d + (k + 1) = d + 1 + k by omega] at this
        exact ht1.isObj this
      have hlive1 : ∀ s' ∈ rest, SrcLive w1 s' := by
        intro s' hs' b i hl
        exact ht1.isObj (hlive s' (by simp [hs']) b i hl)
      have hself1 : ∀ k (h : k < rest.length), rest[k].loc ≠ some (dblk, d + 1 + k) := by
        intro k hk
        have := hself (k + 1) (by simp; omega)
        simp only [List.getElem_cons_succ] at this
        rw [show d + (k + 1) = d + 1 + k by omega] at this
        exact this
      refine Res.sat_mono (assignGen_touched c dblk rest (d + 1) w1 hobj1 hlive1 hself1) ?_ ?_
      · intro _ w2 h2
        exact ht1.trans (h2.mono (fun b i h => by
          rcases h with ⟨h1, h2, h3⟩ | ⟨s', hs', hl⟩
          · left; exact ⟨h1, by omega, by simp; omega⟩
          · right; exact ⟨s', by simp [hs'], hl⟩))
      · intro e w2 ⟨he, h2⟩
        exact ⟨he, ht1.trans (h2.mono (fun b i h => by
          rcases h with ⟨h1, h2, h3⟩ | ⟨s', hs', hl⟩
          · left; exact ⟨h1, by omega, by simp; omega⟩
          · right; exact ⟨s', by simp [hs'], hl⟩))⟩
    · intro e w1 ⟨he, hq⟩
      exact ⟨he.1, Touched.of_quiet _ hq⟩

/-- one assignment from a source that is not modified touches its target only -/
theorem WroteFrom.touched_nm {c : Cfg} {w w' : World α} {blk idx : Nat} {s : Src α} (hw : WroteFrom c w w' blk idx s)
    (hnm : s.moving c = false) (hlive : SrcLive w s) : Touched w w' (fun b i => (b, i) = (blk, idx)) := by
  refine ⟨hw.ctl, fun b i hn => hw.same_of_nonmoving hnm hlive b i hn, ?_⟩
  intro b i hp _
  injection hp with h1 h2
  subst h1; subst h2
  exact ⟨_, hw.dst⟩

/-- forward assignment loop from sources that are not modified and lie outside the target range, shape level, BOTH
    outcomes: only the targets change (and remain objects); in particular the sources' blocks are untouched even when
    an assignment throws -/
theorem assignGen_touched_nm (c : Cfg) (dblk : Nat) : ∀ (srcs : List (Src α)) (d : Nat) (w : World α),
    NonMoving c srcs →
    (∀ k, k < srcs.length → IsObj w dblk (d + k)) →
    (∀ s ∈ srcs, SrcLive w s) →
    (∀ s ∈ srcs, ∀ b i, s.loc = some (b, i) → ¬ (b = dblk ∧ d ≤ i ∧ i < d + srcs.length)) →
    (assignGen c dblk d srcs w).sat
      (fun _ w' => Touched w w' (fun b i => b = dblk ∧ d ≤ i ∧ i < d + srcs.length))
      (fun e w' => e = .elem ∧ Touched w w' (fun b i => b = dblk ∧ d ≤ i ∧ i < d + srcs.length))
  | [], d, w, _, _, _, _ => Touched.refl w _
  | s :: rest, d, w, hnm, hobj, hlive, hout => by
    show ((assignSrc c dblk d s >>= fun _ => assignGen c dblk (d + 1) rest) w).sat _ _
    obtain ⟨u, hu⟩ := hobj 0 (by simp)
    have hs0 : s.loc ≠ some (dblk, d) := by
      intro h; exact hout s (by simp) dblk d h ⟨rfl, Nat.le_refl _, by simp⟩
    refine sat_bind (assignSrc_sat c dblk d s w u (by simpa using hu) (hlive s (by simp)) hs0) (fun _ w1 hw => ?_) ?_
    · have ht1 : Touched w w1 (fun b i => b = dblk ∧ d ≤ i ∧ i < d + (s :: rest).length) :=
        (hw.touched_nm (hnm s (by simp)) (hlive s (by simp))).mono (fun b i h => by
          injection h with h1 h2; exact ⟨h1, by omega, by simp; omega⟩)
      have hsame := hw.same_of_nonmoving (hnm s (by simp)) (hlive s (by simp))
      have hobj1 : ∀ k, k < rest.length → IsObj w1 dblk (d + 1 + k) := by
        intro k hk
        have := hobj (k + 1) (by simp; omega)
        rw [show d + (k + 1) = d + 1 + k by omega] at this
        exact ht1.isObj this
      have hlive1 : ∀ s' ∈ rest, SrcLive w1 s' := by
        intro s' hs' b i hl
        have hne : (b, i) ≠ (dblk, d) := by
          intro h; injection h with h1 h2
          exact hout s' (by simp [hs']) b i hl ⟨h1, by omega, by simp; omega⟩
        exact isObj_of_eq (hsame b i hne) (hlive s' (by simp [hs']) b i hl)
      have hout1 : ∀ s' ∈ rest, ∀ b i, s'.loc = some (b, i) → ¬ (b = dblk ∧ d + 1 ≤ i ∧ i < d + 1 + rest.length) := by
        intro s' hs' b i hl ⟨h1, h2, h3⟩
        exact hout s' (by simp [hs']) b i hl ⟨h1, by omega, by simp; omega⟩
      refine Res.sat_mono (assignGen_touched_nm c dblk rest (d + 1) w1 (fun s' hs' => hnm s' (by simp [hs'])) hobj1 hlive1 hout1) ?_ ?_
      · intro _ w2 h2
        exact ht1.trans (h2.mono (fun b i ⟨h1, h2, h3⟩ => ⟨h1, by omega, by simp; omega⟩))
      · intro e w2 ⟨he, h2⟩
        exact ⟨he, ht1.trans (h2.mono (fun b i ⟨h1, h2, h3⟩ => ⟨h1, by omega, by simp; omega⟩))⟩
    · intro e w1 ⟨he, hq⟩
      exact ⟨he.1, Touched.of_quiet _ hq⟩

/-- forward assignment loop with sources that are not modified and lie outside the target range:
    on normal return the targets hold the sources' values and NOTHING else changed -/
theorem assignGen_nonmoving_sat (c : Cfg) (dblk : Nat) : ∀ (srcs : List (Src α)) (d : Nat) (w : World α),
    NonMoving c srcs →
    (∀ k, k < srcs.length → IsObj w dblk (d + k)) →
    (∀ s ∈ srcs, SrcLive w s) →
    (∀ s ∈ srcs, ∀ b i, s.loc = some (b, i) → ¬ (b = dblk ∧ d ≤ i ∧ i < d + srcs.length)) →
    (assignGen c dblk d srcs w).sat
      (fun _ w' => Ctl w w' ∧
        (∀ k (h : k < srcs.length), (w'.mem dblk)[d + k]? = some (.obj (srcVal w srcs[k]))) ∧
        (∀ (b i : Nat), ¬ (b = dblk ∧ d ≤ i ∧ i < d + srcs.length) → (w'.mem b)[i]? = (w.mem b)[i]?))
      (fun _ _ => True)
  | [], d, w, _, _, _, _ => ⟨Ctl.refl w, fun k h => by simp at h, fun _ _ _ => rfl⟩
  | s :: rest, d, w, hnm, hobj, hlive, hout => by
    show ((assignSrc c dblk d s >>= fun _ => assignGen c dblk (d + 1) rest) w).sat _ _
    obtain ⟨u, hu⟩ := hobj 0 (by simp)
    have hs0 : s.loc ≠ some (dblk, d) := by
      intro h; exact hout s (by simp) dblk d h ⟨rfl, Nat.le_refl _, by simp⟩
    refine sat_bind (assignSrc_sat c dblk d s w u (by simpa using hu) (hlive s (by simp)) hs0) (fun _ w1 hw => ?_) (fun _ _ _ => trivial)
    have hsame := hw.same_of_nonmoving (hnm s (by simp)) (hlive s (by simp))
    have hobj1 : ∀ k, k < rest.length → IsObj w1 dblk (d + 1 + k) := by
      intro k hk
      have := hobj (k + 1) (by simp; omega)
      rw [show d + (k + 1) = d + 1 + k by omega] at this
      exact isObj_of_eq (hsame _ _ (by intro h; injection h with _ h; omega)) this
    have hlive1 : ∀ s' ∈ rest, SrcLive w1 s' := by
      intro s' hs' b i hl
      have hne : (b, i) ≠ (dblk, d) := by
        intro h; injection h with h1 h2
        exact hout s' (by simp [hs']) b i hl ⟨h1, by omega, by simp; omega⟩
      exact isObj_of_eq (hsame b i hne) (hlive s' (by simp [hs']) b i hl)
    have hout1 : ∀ s' ∈ rest, ∀ b i, s'.loc = some (b, i) → ¬ (b = dblk ∧ d + 1 ≤ i ∧ i < d + 1 + rest.length) := by
      intro s' hs' b i hl ⟨h1, h2, h3⟩
      exact hout s' (by simp [hs']) b i hl ⟨h1, by omega, by simp; omega⟩
    refine Res.sat_mono (assignGen_nonmoving_sat c dblk rest (d + 1) w1 (fun s' hs' => hnm s' (by simp [hs'])) hobj1 hlive1 hout1) ?_ (fun _ _ _ => trivial)
    intro _ w2 ⟨hc2, hv2, hrest2⟩
    refine ⟨hw.ctl.trans hc2, ?_, ?_⟩
    · intro k hk
      cases k with
      | zero =>
        simp only [Nat.add_zero, List.getElem_cons_zero]
        rw [hrest2 dblk d (by intro ⟨_, h, _⟩; omega)]
        exact hw.dst
      | succ k =>
        have hk' : k < rest.length := by simp at hk; omega
        have := hv2 k hk'
        rw [show d + 1 + k = d + (k + 1) by omega] at this
        rw [this]
        simp only [List.getElem_cons_succ]
        rw [srcVal_congr w w1 (rest[k]'hk') (fun b i hl => hsame b i (by
          intro h; injection h with h1 h2
          exact hout (rest[k]'hk') (by simp) b i hl ⟨h1, by omega, by simp; omega⟩))]
    · intro b i hn
      rw [hrest2 b i (by intro ⟨h1, h2, h3⟩; exact hn ⟨h1, by omega, by simp; omega⟩)]
      exact hsame b i (by intro h; injection h with h1 h2; exact hn ⟨h1, by omega, by simp; omega⟩)

/-- std::move_backward, shape level: everything in [a, a+n+k) stays an object, nothing else changes -/
theorem moveBackward_touched (c : Cfg) (b a k : Nat) (hk : 0 < k) : ∀ (n : Nat) (w : World α),
    (∀ j, a ≤ j → j < a + n + k → IsObj w b j) →
    (moveBackward c b a k n w).sat
      (fun _ w' => Touched w w' (fun b' i => b' = b ∧ a ≤ i ∧ i < a + n + k))
      (fun e w' => e = .elem ∧ Touched w w' (fun b' i => b' = b ∧ a ≤ i ∧ i < a + n + k))
  | 0, w, _ => Touched.refl w _
  | n+1, w, hobj => by
    show ((assignSrc c b (a + n + k) (.moveOf b (a + n)) >>= fun _ => moveBackward c b a k n) w).sat _ _
    obtain ⟨u, hu⟩ := hobj (a + n + k) (by omega) (by omega)
    refine sat_bind (assignSrc_sat c b (a + n + k) (.moveOf b (a + n)) w u hu
      (by intro b' i' hl; simp [Src.loc] at hl; obtain ⟨h1, h2⟩ := hl; subst h1; subst h2; exact hobj _ (by omega) (by omega))
      (by simp [Src.loc]; omega)) (fun _ w1 hw => ?_) ?_
    · have ht1 : Touched w w1 (fun b' i => b' = b ∧ a ≤ i ∧ i < a + (n + 1) + k) :=
        hw.touched.mono (fun b' i h => by
          rcases h with h | h
          · injection h with h1 h2; exact ⟨h1, by omega, by omega⟩
          · simp [Src.loc] at h; obtain ⟨h1, h2⟩ := h; exact ⟨h1.symm, by omega, by omega⟩)
      refine Res.sat_mono (moveBackward_touched c b a k hk n w1 (fun j h1 h2 => ht1.isObj (hobj j h1 (by omega)))) ?_ ?_
      · intro _ w2 h2
        exact ht1.trans (h2.mono (fun b' i ⟨h1, h2, h3⟩ => ⟨h1, h2, by omega⟩))
      · intro e w2 ⟨he, h2⟩
        exact ⟨he, ht1.trans (h2.mono (fun b' i ⟨h1, h2, h3⟩ => ⟨h1, h2, by omega⟩))⟩
    · intro e w1 ⟨he, hq⟩
      exact ⟨he.1, Touched.of_quiet _ hq⟩

end SvModel
