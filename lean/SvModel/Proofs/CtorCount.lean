/-
C14, second half: "O(n) element relocations in total".  Counting CONSTRUCTION events (copy / move / value construction)
on the trace, for every world and fault list, along the push_back path: a push_back into spare capacity constructs one
element; a reallocating push_back constructs the new element and relocates `size` old ones — never more.
`EB k m`: `m` adds at most `k` construction events, whether it returns or throws.
-/
import SvModel.Ops
import SvModel.Proofs.Hoare

namespace SvModel
open Gen
variable {α β γ : Type}

def Ev.isCtor : Ev → Bool
  | .cctor _ _ | .mctor _ _ | .vctor _ _ => true
  | _ => false

def nCtor (t : List Ev) : Nat := t.countP Ev.isCtor

theorem nCtor_append (a b : List Ev) : nCtor (a ++ b) = nCtor a + nCtor b := by simp [nCtor, List.countP_append]
theorem nCtor_snoc_le (t : List Ev) (e : Ev) : nCtor (t ++ [e]) ≤ nCtor t + 1 := by
  rw [nCtor_append]; simp only [nCtor, List.countP_cons, List.countP_nil]; split <;> omega
theorem nCtor_snoc_other (t : List Ev) (e : Ev) (h : e.isCtor = false) : nCtor (t ++ [e]) = nCtor t := by
  rw [nCtor_append]; simp [nCtor, h]

def EB (k : Nat) (m : M α β) : Prop := ∀ w, nCtor (m w).world.trace ≤ nCtor w.trace + k

theorem EB.mono {k k' : Nat} {m : M α β} (h : EB k m) (hk : k ≤ k') : EB k' m := fun w => Nat.le_trans (h w) (by omega)
theorem EB.pure (b : β) : EB 0 (pure b : M α β) := fun _ => Nat.le_refl _
theorem EB.throwE (e : Exc) : EB 0 (throwE e : M α β) := fun _ => Nat.le_refl _

theorem EB.bind {m : M α β} {f : β → M α γ} {k1 k2 : Nat} (h1 : EB k1 m) (h2 : ∀ b, EB k2 (f b)) : EB (k1 + k2) (m >>= f) := by
  intro w
  have a := h1 w
  rw [bind_run]
  cases hm : m w with
  | ok b w' => rw [hm] at a; simp only [Res.world] at a; simp only []; have := h2 b w'; omega
  | thrown e w' => rw [hm] at a; simp only [Res.world] at a ⊢; omega

theorem EB.bind0 {m : M α β} {f : β → M α γ} {k : Nat} (h1 : EB 0 m) (h2 : ∀ b, EB k (f b)) : EB k (m >>= f) :=
  (EB.bind h1 h2).mono (by omega)
theorem EB.bindL {m : M α β} {f : β → M α γ} {k : Nat} (h1 : EB k m) (h2 : ∀ b, EB 0 (f b)) : EB k (m >>= f) :=
  (EB.bind h1 h2).mono (by omega)

theorem EB.tryCatchL {m : M α β} {h : Exc → M α β} {k : Nat} (h1 : EB k m) (h2 : ∀ e, EB 0 (h e)) : EB k (SvModel.tryCatch m h) := by
  intro w
  have a := h1 w
  rw [tryCatch_run]
  cases hm : m w with
  | ok b w' => rw [hm] at a; simp only [Res.world] at a ⊢; omega
  | thrown e w' => rw [hm] at a; simp only [Res.world] at a; simp only []; have := h2 e w'; omega

theorem EB.ite {c : Prop} [Decidable c] {m n : M α β} {k : Nat} (h1 : EB k m) (h2 : EB k n) : EB k (if c then m else n) := by
  split <;> assumption

theorem EB.tick (on : Bool) (e : Exc) : EB 0 (tick on e : M α Unit) := by
  intro w; unfold SvModel.tick
  cases on
  · exact Nat.le_refl _
  · match w.faults with
    | [] => exact Nat.le_refl _
    | 0 :: _ => exact Nat.le_refl _
    | (_+1) :: _ => exact Nat.le_refl _

theorem getV_run' (c : Nat) (w : World α) : getV c w = .ok (w.hdr c) w := rfl

theorem EB.getV (c : Nat) : EB 0 (getV c : M α Vec) := fun _ => Nat.le_refl _
theorem EB.modV (c : Nat) (f : Vec → Vec) : EB 0 (modV c f : M α Unit) := fun _ => Nat.le_refl _
theorem EB.readSlot (b i : Nat) : EB 0 (readSlot b i : M α (Val α)) := by
  intro w; unfold SvModel.readSlot; split <;> exact Nat.le_refl _

theorem EB.putObj (c : Cfg) (b i : Nat) (v : Val α) (e : Ev) : EB 1 (putObj c b i v e : M α Unit) := by
  intro w; unfold SvModel.putObj
  split
  · show nCtor (if c.trivial then w.trace else w.trace ++ [e]) ≤ _
    split
    · omega
    · exact nCtor_snoc_le _ _
  · show nCtor w.trace ≤ _; omega
theorem EB.huskSlot (c : Cfg) (b i : Nat) : EB 0 (huskSlot c b i : M α Unit) := by
  intro w; unfold SvModel.huskSlot
  split
  · split <;> exact Nat.le_refl _
  · exact Nat.le_refl _
theorem EB.destroyAt (c : Cfg) (b i : Nat) : EB 0 (destroyAt c b i : M α Unit) := by
  intro w; unfold SvModel.destroyAt
  split
  · show nCtor (if c.trivial then w.trace else w.trace ++ [Ev.dtor b i]) ≤ _
    split
    · exact Nat.le_refl _
    · rw [nCtor_snoc_other _ _ rfl]; exact Nat.le_refl _
  · exact Nat.le_refl _
theorem EB.deallocate (a b n : Nat) : EB 0 (deallocate a b n : M α Unit) := by
  intro w; unfold SvModel.deallocate
  split
  · show nCtor (w.trace ++ [Ev.dealloc b n a]) ≤ _
    rw [nCtor_snoc_other _ _ rfl]; exact Nat.le_refl _
  · exact Nat.le_refl _
theorem EB.allocate (c : Cfg) (a n : Nat) : EB 0 (allocate c a n : M α Nat) := by
  unfold SvModel.allocate
  refine EB.bind0 (EB.tick _ _) (fun _ => ?_)
  intro w
  show nCtor (w.trace ++ [Ev.alloc w.next n a]) ≤ _
  rw [nCtor_snoc_other _ _ rfl]; exact Nat.le_refl _

/-- one construction -/
theorem EB.constructSrc (c : Cfg) (b i : Nat) (s : Src α) : EB 1 (constructSrc c b i s) := by
  cases s <;> unfold SvModel.constructSrc
  · exact EB.bind0 (EB.tick _ _) (fun _ => EB.putObj _ _ _ _ _)
  · exact EB.bind0 (EB.tick _ _) (fun _ => EB.putObj _ _ _ _ _)
  · exact EB.bind0 (EB.tick _ _) (fun _ => EB.bind0 (EB.readSlot _ _) (fun _ => EB.putObj _ _ _ _ _))
  · exact EB.bind0 (EB.tick _ _) (fun _ => EB.bind0 (EB.readSlot _ _) (fun _ => EB.bindL (EB.putObj _ _ _ _ _) (fun _ => EB.huskSlot _ _ _)))
  · exact EB.bind0 (EB.tick _ _) (fun _ => EB.putObj _ _ _ _ _)

theorem EB.destroyRange (c : Cfg) (b : Nat) : ∀ (n first : Nat), EB 0 (destroyRange c b first n : M α Unit)
  | 0, _ => EB.pure ()
  | n+1, first => EB.bind0 (EB.destroyAt _ _ _) (fun _ => EB.destroyRange c b n (first+1))

/-- constructing a list of sources: at most one construction each -/
theorem EB.uninitGen (c : Cfg) (b d : Nat) : ∀ (srcs : List (Src α)) (done : Nat), EB srcs.length (uninitGen c b d done srcs)
  | [], _ => EB.pure ()
  | s :: rest, done => by
    have h := EB.bind (EB.tryCatchL (EB.constructSrc c b (d + done) s)
      (fun e => EB.bind0 (EB.destroyRange c b done d) (fun _ => EB.throwE e)))
      (fun _ => EB.uninitGen c b d rest (done + 1))
    exact h.mono (by simp; omega)

theorem EB.wipe (cfg : Cfg) (c : Nat) : EB 0 (wipe cfg c : M α Unit) := by
  unfold SvModel.wipe
  exact EB.bind0 (EB.getV _) (fun v => EB.bind0 (EB.destroyRange _ _ _ _) (fun _ => EB.ite (EB.deallocate _ _ _) (EB.pure ())))

theorem EB.resetData (cfg : Cfg) (c nb ncap n : Nat) : EB 0 (resetData cfg c nb ncap n : M α Unit) := by
  unfold SvModel.resetData SvModel.setData
  exact EB.bind0 (EB.wipe _ _) (fun _ => EB.modV _ _)

/-- relocating n elements: at most n constructions -/
theorem EB.uninitializedMove (cfg : Cfg) (strong : Bool) (sb si n db di : Nat) :
    EB n (uninitializedMove cfg strong sb si n db di : M α Unit) := by
  unfold SvModel.uninitializedMove
  have h := EB.uninitGen cfg db di (if strong && !relocateWithMove cfg.policy then (srcsCopy sb si n : List (Src α)) else srcsMove sb si n) 0
  refine h.mono ?_
  split <;> simp [srcsCopy, srcsMove]

theorem EB.emplaceIntoCurrentEnd (cfg : Cfg) (c : Nat) (s : Src α) : EB 1 (emplaceIntoCurrentEnd cfg c s) := by
  unfold SvModel.emplaceIntoCurrentEnd SvModel.setSize
  exact EB.bind0 (EB.getV _) (fun v => EB.bindL (EB.constructSrc _ _ _ _) (fun _ => EB.bind0 (EB.modV _ _) (fun _ => EB.pure _)))

/-- the reallocating push_back: the new element plus one construction per old element -/
theorem emplaceIntoReallocationEnd_ctor_bound (cfg : Cfg) (c : Nat) (s : Src α) (w : World α) :
    nCtor (emplaceIntoReallocationEnd cfg c s w).world.trace ≤ nCtor w.trace + (1 + (w.hdr c).size) := by
  unfold SvModel.emplaceIntoReallocationEnd
  rw [bind_run, getV_run']
  simp only []
  have body : EB (1 + (w.hdr c).size)
      (if guard_emplaceIntoReallocationEnd_0 (genv cfg (w.hdr c)) = true then (throwE Exc.length : M α Nat) else
        allocate cfg (w.hdr c).alloc (newCapacity cfg.maxSize (w.hdr c).cap ((w.hdr c).size + 1)) >>= fun nb =>
        emplaceReallocEndTry cfg (w.hdr c) s nb (newCapacity cfg.maxSize (w.hdr c).cap ((w.hdr c).size + 1)) >>= fun _ =>
        resetData cfg c nb (newCapacity cfg.maxSize (w.hdr c).cap ((w.hdr c).size + 1)) ((w.hdr c).size + 1) >>= fun _ =>
        pure (w.hdr c).size) := by
    refine EB.ite ((EB.throwE _).mono (Nat.zero_le _)) ?_
    refine EB.bind0 (EB.allocate _ _ _) (fun nb => EB.bindL ?_ (fun _ => EB.bind0 (EB.resetData _ _ _ _ _) (fun _ => EB.pure _)))
    unfold emplaceReallocEndTry
    refine EB.tryCatchL ?_ (fun e => EB.bind0 (EB.deallocate _ _ _) (fun _ => EB.throwE e))
    exact EB.bind (EB.constructSrc _ _ _ _) (fun _ =>
      EB.tryCatchL (EB.uninitializedMove _ _ _ _ _ _ _) (fun e => EB.bind0 (EB.destroyAt _ _ _) (fun _ => EB.throwE e)))
  exact body w

/-- push_back / emplace_back: one construction in place, 1 + size when it reallocates -/
theorem appendElement_ctor_bound (cfg : Cfg) (c : Nat) (s : Src α) (w : World α) :
    nCtor (appendElement cfg c s w).world.trace ≤
      nCtor w.trace + (if (w.hdr c).size < (w.hdr c).cap then 1 else 1 + (w.hdr c).size) := by
  have e0 : guard_appendElement_0 (genv cfg (w.hdr c)) = decide ((w.hdr c).size < (w.hdr c).cap) := rfl
  unfold appendElement
  rw [bind_run, getV_run']
  simp only []
  rw [e0]
  by_cases h : (w.hdr c).size < (w.hdr c).cap
  · rw [if_pos (decide_eq_true h), if_pos h]; exact EB.emplaceIntoCurrentEnd cfg c s w
  · rw [if_neg (by simpa using h), if_neg h]; exact emplaceIntoReallocationEnd_ctor_bound cfg c s w

end SvModel
