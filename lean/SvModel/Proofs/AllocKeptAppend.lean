/-
AllocKept (no container's allocator changes, in either outcome, on every world) for the append / erase kernels and the
single-pass loops built from them; with it the allocator clause (C07) for the single-pass range constructor.
-/
import SvModel.Proofs.AllocKept
import SvModel.Proofs.Kernel

namespace SvModel
open Gen
variable {α : Type}

theorem AllocKept.emit (e : Ev) : AllocKept (emit e : M α Unit) := fun _ _ => rfl

theorem AllocKept.moveLeft (cfg : Cfg) (b first n dfirst : Nat) : AllocKept (moveLeft cfg b first n dfirst : M α Unit) := by
  unfold SvModel.moveLeft; exact AllocKept.assignGen _ _ _ _

theorem AllocKept.eraseToEnd (cfg : Cfg) (c pos : Nat) : AllocKept (eraseToEnd cfg c pos : M α Unit) := by
  unfold SvModel.eraseToEnd
  exact AllocKept.bind (AllocKept.getV _) (fun v => AllocKept.ite
    (AllocKept.bind (AllocKept.setSize _ _) (fun _ => AllocKept.destroyRange _ _ _ _)) (AllocKept.pure ()))

theorem AllocKept.eraseRange (cfg : Cfg) (c first last : Nat) : AllocKept (eraseRange cfg c first last : M α Nat) := by
  unfold SvModel.eraseRange
  exact AllocKept.bind (AllocKept.getV _) (fun v => AllocKept.ite
    (AllocKept.bind (AllocKept.moveLeft _ _ _ _ _) (fun _ => AllocKept.bind (AllocKept.eraseToEnd _ _ _) (fun _ => AllocKept.pure _)))
    (AllocKept.pure _))

theorem AllocKept.emplaceIntoCurrentEnd (cfg : Cfg) (c : Nat) (s : Src α) : AllocKept (emplaceIntoCurrentEnd cfg c s : M α Nat) := by
  unfold SvModel.emplaceIntoCurrentEnd
  exact AllocKept.bind (AllocKept.getV _) (fun v => AllocKept.bind (AllocKept.constructSrc _ _ _ _) (fun _ =>
    AllocKept.bind (AllocKept.setSize _ _) (fun _ => AllocKept.pure _)))

theorem AllocKept.emplaceReallocEndTry (cfg : Cfg) (v : Vec) (s : Src α) (nb ncap : Nat) :
    AllocKept (emplaceReallocEndTry cfg v s nb ncap : M α Unit) := by
  unfold SvModel.emplaceReallocEndTry
  exact AllocKept.tryCatch
    (AllocKept.bind (AllocKept.constructSrc _ _ _ _) (fun _ => AllocKept.tryCatch (AllocKept.uninitializedMove _ _ _ _ _ _ _)
      (fun e => AllocKept.bind (AllocKept.destroyAt _ _ _) (fun _ => AllocKept.throwE e))))
    (fun e => AllocKept.bind (AllocKept.deallocate _ _ _) (fun _ => AllocKept.throwE e))

theorem AllocKept.emplaceIntoReallocationEnd (cfg : Cfg) (c : Nat) (s : Src α) :
    AllocKept (emplaceIntoReallocationEnd cfg c s : M α Nat) := by
  unfold SvModel.emplaceIntoReallocationEnd
  exact AllocKept.bind (AllocKept.getV _) (fun v => AllocKept.ite (AllocKept.throwE _)
    (AllocKept.bind (AllocKept.allocate _ _ _) (fun nb => AllocKept.bind (AllocKept.emplaceReallocEndTry _ _ _ _ _) (fun _ =>
      AllocKept.bind (AllocKept.resetData _ _ _ _ _) (fun _ => AllocKept.pure _)))))

/-- push_back / emplace_back, in place or reallocating, returning or throwing: every container keeps its allocator -/
theorem AllocKept.appendElement (cfg : Cfg) (c : Nat) (s : Src α) : AllocKept (appendElement cfg c s : M α Nat) := by
  unfold SvModel.appendElement
  exact AllocKept.bind (AllocKept.getV _) (fun v => AllocKept.ite (AllocKept.emplaceIntoCurrentEnd _ _ _) (AllocKept.emplaceIntoReallocationEnd _ _ _))

theorem AllocKept.appendRangeInputLoop (cfg : Cfg) (c : Nat) (strong : Bool) (orig sid : Nat) :
    ∀ (xs : List α) (p : Nat), AllocKept (appendRangeInputLoop cfg c strong orig sid p xs : M α Unit)
  | [], _ => by unfold SvModel.appendRangeInputLoop; exact AllocKept.pure ()
  | x :: xs, p => by
    unfold SvModel.appendRangeInputLoop
    refine AllocKept.bind (AllocKept.emit _) (fun _ => AllocKept.bind ?_ (fun _ => AllocKept.bind (AllocKept.emit _) (fun _ =>
      AllocKept.appendRangeInputLoop cfg c strong orig sid xs (p + 1))))
    cases strong
    · exact AllocKept.appendElement _ _ _
    · exact AllocKept.tryCatch (AllocKept.appendElement _ _ _) (fun e => AllocKept.bind (AllocKept.getV _) (fun v =>
        AllocKept.bind (AllocKept.eraseRange _ _ _ _) (fun _ => AllocKept.throwE e)))

/-- append / insert at end () / the constructor's loop over a single-pass range -/
theorem AllocKept.appendRangeInput (cfg : Cfg) (c : Nat) (strong : Bool) (sid p : Nat) (xs : List α) :
    AllocKept (appendRangeInput cfg c strong sid p xs : M α Nat) := by
  unfold SvModel.appendRangeInput
  exact AllocKept.bind (AllocKept.getV _) (fun v => AllocKept.bind (AllocKept.appendRangeInputLoop _ _ _ _ _ _ _) (fun _ => AllocKept.pure _))

/-- C07 for the single-pass range constructor: a container it constructs holds the supplied allocator, and no other
    container's allocator changes, whether it returns or throws — on every world -/
theorem ctorInput_alloc (cfg : Cfg) (c a sid : Nat) (vs : List α) (w : World α) :
    (ctorInput cfg c a sid vs w).sat
      (fun _ w' => (w'.hdr c).alloc = a ∧ ∀ d, d ≠ c → (w'.hdr d).alloc = (w.hdr d).alloc)
      (fun _ w' => ∀ d, d ≠ c → (w'.hdr d).alloc = (w.hdr d).alloc) := by
  unfold ctorInput
  rw [bind_run]
  -- default construction installs `a`
  have hk0 : AllocKept (setDefault c : M α Unit) := AllocKept.setDefault c
  have hd : ∃ w1, ctorDefault c a w = .ok () w1 ∧ (w1.hdr c).alloc = a ∧ ∀ d, d ≠ c → (w1.hdr d).alloc = (w.hdr d).alloc := by
    unfold ctorDefault
    rw [bind_run]
    show ∃ w1, setDefault c ({ w with hdr := upd w.hdr c { w.hdr c with alloc := a } } : World α) = .ok () w1 ∧ _
    generalize hw0 : ({ w with hdr := upd w.hdr c { w.hdr c with alloc := a } } : World α) = w0
    have h1 := hk0 w0
    cases hr : setDefault c w0 with
    | thrown e w2 => unfold setDefault setToInlineStorage setSize at hr; simp [bind_run, modV_run] at hr
    | ok u w2 =>
      rw [hr] at h1
      simp only [Res.world] at h1
      refine ⟨w2, rfl, by rw [h1 c]; subst hw0; simp, fun d hd => ?_⟩
      rw [h1 d]; subst hw0; show ((upd w.hdr c _) d).alloc = _; rw [upd_other _ _ _ _ hd]
  obtain ⟨w1, hr1, hc1, ho1⟩ := hd
  rw [hr1]
  simp only []
  have hk : AllocKept (tryCatch (appendRangeInput cfg c false sid 0 vs >>= fun _ => (pure () : M α Unit))
      (fun e => wipe cfg c >>= fun _ => throwE e)) :=
    AllocKept.tryCatch (AllocKept.bind (AllocKept.appendRangeInput _ _ _ _ _ _) (fun _ => AllocKept.pure ()))
      (fun e => AllocKept.bind (AllocKept.wipe _ _) (fun _ => AllocKept.throwE e))
  have h2 := hk w1
  cases hr2 : tryCatch (appendRangeInput cfg c false sid 0 vs >>= fun _ => (pure () : M α Unit))
      (fun e => wipe cfg c >>= fun _ => throwE e) w1 with
  | ok u w2 =>
    rw [hr2] at h2
    simp only [Res.world] at h2
    exact ⟨by rw [h2 c]; exact hc1, fun d hd => by rw [h2 d]; exact ho1 d hd⟩
  | thrown e w2 =>
    rw [hr2] at h2
    simp only [Res.world] at h2
    exact fun d hd => by rw [h2 d]; exact ho1 d hd

end SvModel
