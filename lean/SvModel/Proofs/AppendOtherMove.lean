/-
`c.append (std::move (o))` in its MOVING mode inside a system of containers (hpp:5826-5845; `relocate_with_move`: the
element type has a nothrow move constructor or cannot be copied): the destination gains the source's values, the source
is empty afterwards, every other container is untouched.  When the move constructor cannot throw the only possible
failures are `length_error` and the allocator's exception, and they leave the WHOLE world — source included, nothing
moved-from — as it was (strong guarantee, C05); for a type that is not copyable and whose move may throw the guarantee
is basic: both containers valid, sizes and buffers as before, some of the source's elements moved-from (C06).
-/
import SvModel.Proofs.AppendMove
import SvModel.Proofs.AppendOther
import SvModel.Proofs.MoveAssignAll

namespace SvModel
open Gen
variable {α : Type}

/-- a non-empty container's buffer is neither another container's buffer nor its in-object storage -/
theorem SysAll.apart_nonempty {cfg : Cfg} {w : World α} {U A : List Nat} {c o : Nat} (hs : SysAll cfg w U A) (hc : c ∈ A) (ho : o ∈ A)
    (hoc : o ≠ c) (hnz : 0 < (w.hdr o).size) :
    (w.hdr o).data ≠ (w.hdr c).data ∧ (w.hdr o).data ≠ (w.hdr c).inl := by
  by_cases h0 : (w.hdr c).N = 0 ∧ (w.hdr o).N = 0
  · have hvc := hs.ok.vec c hc
    have hvo := hs.ok.vec o ho
    have hl := hs.ok.led
    have hoh : (w.hdr o).data ≠ (w.hdr o).inl := by
      intro h
      have hcap : (w.hdr o).cap = (w.hdr o).N := (hvo.inl_iff).mpr h
      have := hvo.size_le; omega
    have := (hvo.data_odd hl hoh).1
    have hc5 := hvc.inl_lt
    exact ⟨(hs.ok.sep o ho c hc hoc).data hoh, by omega⟩
  · exact hs.apart2 hc ho hoc h0

/-- what a failed moving append leaves: nothing changed at all unless an element constructor could throw; in any case the
    system is valid, every header is as before, the other containers hold what they held -/
def MoveAppendFailSys (cfg : Cfg) (w w' : World α) (U A : List Nat) (c o : Nat) : Prop :=
  (canThrow cfg false = false → canThrow cfg true = false → Strong w w') ∧
  SysAll cfg w' U A ∧ w'.hdr = w.hdr ∧ w'.live = w.live ∧
  (∀ d ∈ A, d ≠ c → d ≠ o → ∀ xs, Holds w d xs → Holds w' d xs)

theorem MoveAppendFailSys.of_strong {cfg : Cfg} {w w' : World α} {U A : List Nat} {c o : Nat} (hs : SysAll cfg w U A) (hc : c ∈ A)
    (h : Strong w w') : MoveAppendFailSys cfg w w' U A c o := by
  have hb := h.basic hs.ok.led (hs.ok.vec c hc)
  exact ⟨fun _ _ => h, hs.step hc hb, h.hdr, h.live, fun d hd hdc _ xs hx => hs.ok.holds_other hc hb hd hdc hx⟩

/-- `append_range` over move iterators of `o`'s elements (strong policy, as the public `append` uses it) -/
theorem SysAll.appendByMove {cfg : Cfg} {w : World α} {U A : List Nat} {c o : Nat} (hs : SysAll cfg w U A)
    (hc : c ∈ A) (ho : o ∈ A) (hoc : o ≠ c) :
    (appendRangeFwd cfg c true (srcsMove (w.hdr o).data 0 (w.hdr o).size) w).sat
      (fun _ w' => SysAll cfg w' U A ∧ (∀ xs ys, Holds w c xs → Holds w o ys → Holds w' c (xs ++ ys)) ∧
                   (∀ d ∈ A, d ≠ c → d ≠ o → ∀ xs, Holds w d xs → Holds w' d xs))
      (fun _ w' => MoveAppendFailSys cfg w w' U A c o) := by
  have hco : c ≠ o := fun e => hoc e.symm
  have hvc := hs.ok.vec c hc
  have hvo := hs.ok.vec o ho
  have hl := hs.ok.led
  have hsl := hvc.size_le
  have hcm := hvc.cap_le_max (hs.ok.nmax c hc)
  unfold appendRangeFwd
  rw [bind_run, getV_run]
  simp only [srcsMove_length]
  have e0 : guard_appendRange2_0 { genv cfg (w.hdr c) with numInsert := (w.hdr o).size } = decide ((w.hdr c).cap - (w.hdr c).size < (w.hdr o).size) := rfl
  have e1 : guard_appendRange2_1 { genv cfg (w.hdr c) with numInsert := (w.hdr o).size } = decide (cfg.maxSize - (w.hdr c).size < (w.hdr o).size) := rfl
  rw [e0, e1]
  -- both kernels give the same two outcomes
  have fin : ∀ {β : Type} (r : Res (World α) β), r.sat (fun _ w' => MoveAppended cfg w w' c o) (fun e w' => MoveAppendFail cfg true w w' c o e) →
      r.sat (fun _ w' => SysAll cfg w' U A ∧ (∀ xs ys, Holds w c xs → Holds w o ys → Holds w' c (xs ++ ys)) ∧
                   (∀ d ∈ A, d ≠ c → d ≠ o → ∀ xs, Holds w d xs → Holds w' d xs))
        (fun _ w' => MoveAppendFailSys cfg w w' U A c o) := by
    intro β r hr
    refine Res.sat_mono hr ?_ ?_
    · intro _ w' ⟨wh, hb1, hb2, hcat⟩
      obtain ⟨a, _, _, d⟩ := hs.two_steps hc ho hoc hb1 hb2
      exact ⟨a, hcat, d⟩
    · intro e w' hf
      rcases hf with ⟨_, hq⟩ | ⟨_, hcan, wh, hb1, hb2, hh, hlv⟩
      · exact MoveAppendFailSys.of_strong hs hc (Strong.of_quiet hl hq)
      · obtain ⟨a, _, _, d⟩ := hs.two_steps hc ho hoc hb1 hb2
        refine ⟨fun h1 h2 => ?_, a, hh, hlv, d⟩
        rcases hcan with h | h
        · rw [h1] at h; cases h
        · rw [h2] at h; cases h
  by_cases hz : (w.hdr o).size = 0
  · -- nothing to move: an append of the empty range, in place
    rw [hz]
    have he : (srcsMove (w.hdr o).data 0 0 : List (Src α)) = [] := by simp [srcsMove]
    rw [he, if_neg (by simp)]
    have h := appendInPlace_sat cfg c ([] : List (Src α)) w hvc hl (by simp; exact hsl)
      ⟨fun s h => by simp at h, fun s h => by simp at h, fun s h => by simp at h⟩
    simp only [List.length_nil] at h
    refine Res.sat_mono h ?_ (fun _ w' hst => MoveAppendFailSys.of_strong hs hc hst)
    intro _ w' ⟨_, ha⟩
    refine ⟨hs.step hc ha.basic, fun xs ys hx hy => ?_, fun d hd hdc _ xs hx => hs.ok.holds_other hc ha.basic hd hdc hx⟩
    have hy0 : ys = [] := List.eq_nil_of_length_eq_zero (by rw [hy.1, hz])
    have := ha.holds xs hx
    rw [hy0]; simpa using this
  · obtain ⟨hd, hi⟩ := hs.apart_nonempty hc ho hoc (by omega)
    by_cases h0 : (w.hdr c).cap - (w.hdr c).size < (w.hdr o).size
    · rw [if_pos (decide_eq_true h0)]
      by_cases h1 : cfg.maxSize - (w.hdr c).size < (w.hdr o).size
      · rw [if_pos (decide_eq_true h1)]
        exact MoveAppendFailSys.of_strong hs hc (Strong.refl hl)
      · rw [if_neg (by simpa using h1)]
        exact fin _ (Res.sat_mono (appendMoveRealloc_sat cfg c o true w hvc hl hvo (by omega) (by omega) hd hi)
          (fun _ _ h => h.2) (fun _ _ h => h))
    · rw [if_neg (by simpa using h0)]
      refine fin _ (Res.sat_mono (appendMoveInPlace_sat cfg c o w hvc hl hvo hco (by omega) hd hi) (fun _ _ h => h.2) ?_)
      intro e w' hf
      rcases hf with h | ⟨a, b, c'⟩
      · exact Or.inl h
      · exact Or.inr ⟨a, Or.inl (by rcases b with b | b <;> exact b), c'⟩

/-- the model function of `c.append (std::move (o))`, moving mode: on success `c` holds its values followed by `o`'s,
    `o` is empty and every other container is unchanged -/
theorem SysAll.appendOtherMove_moving {cfg : Cfg} {w : World α} {U A : List Nat} {c o : Nat} (hs : SysAll cfg w U A)
    (hc : c ∈ A) (ho : o ∈ A) (hoc : o ≠ c) (hmode : relocateWithMove cfg.policy = true) :
    (SvModel.appendOtherMove cfg c o w).sat
      (fun _ w' => SysAll cfg w' U A ∧ (∀ xs ys, Holds w c xs → Holds w o ys → Holds w' c (xs ++ ys)) ∧ Holds w' o [] ∧
                   (∀ d ∈ A, d ≠ c → d ≠ o → ∀ xs, Holds w d xs → Holds w' d xs))
      (fun _ w' => MoveAppendFailSys cfg w w' U A c o) := by
  have hco : c ≠ o := fun e => hoc e.symm
  unfold SvModel.appendOtherMove
  rw [bind_run, getV_run]; simp only []
  rw [hmode]
  simp only [if_true]
  refine sat_bind (SysAll.appendByMove hs hc ho hoc) (fun _ w1 ⟨hs1, hcat, hoth⟩ => ?_) (fun _ _ h => h)
  have her := eraseAll_sat cfg o w1 (hs1.ok.vec o ho) hs1.ok.led
  refine Res.sat_mono her ?_ (fun _ _ h => h.elim)
  intro _ w' hsh
  obtain ⟨ys1, hy1⟩ := (hs1.ok.vec o ho).holds_exists
  refine ⟨hs1.step ho hsh.basic, fun xs ys hx hy => ?_, hsh.holds ys1 hy1, fun d hd hdc hdo xs hx => ?_⟩
  · exact hs1.ok.holds_other ho hsh.basic hc hco (hcat xs ys hx hy)
  · exact hs1.ok.holds_other ho hsh.basic hd hdo (hoth d hd hdc hdo xs hx)

/-- with a move constructor that cannot throw (and really moves) a failed `append (small_vector&&)` changed nothing -/
theorem SysAll.appendOtherMove_nothrow {cfg : Cfg} {w : World α} {U A : List Nat} {c o : Nat} (hs : SysAll cfg w U A)
    (hc : c ∈ A) (ho : o ∈ A) (hoc : o ≠ c) (hmode : relocateWithMove cfg.policy = true)
    (hreal : cfg.realMove = true) (hnt : cfg.tMove = false) :
    (SvModel.appendOtherMove cfg c o w).sat
      (fun _ w' => SysAll cfg w' U A ∧ (∀ xs ys, Holds w c xs → Holds w o ys → Holds w' c (xs ++ ys)) ∧ Holds w' o [] ∧
                   (∀ d ∈ A, d ≠ c → d ≠ o → ∀ xs, Holds w d xs → Holds w' d xs))
      (fun _ w' => Strong w w') := by
  refine Res.sat_mono (SysAll.appendOtherMove_moving hs hc ho hoc hmode) (fun _ _ h => h) ?_
  intro _ w' hf
  refine hf.1 ?_ ?_
  · simp [canThrow, movesFor, hreal, hnt]
  · simp [canThrow, movesFor, hreal, hnt, hmode]

/-- `c.append (std::move (o))`, whichever mode the element type selects -/
theorem SysAll.appendOtherMove {cfg : Cfg} {w : World α} {U A : List Nat} {c o : Nat} (hs : SysAll cfg w U A)
    (hc : c ∈ A) (ho : o ∈ A) (hoc : o ≠ c) (hstrong : movesFor cfg true = true → cfg.tMove = false) :
    (SvModel.appendOtherMove cfg c o w).sat
      (fun _ w' => SysAll cfg w' U A ∧ (∀ xs ys, Holds w c xs → Holds w o ys → Holds w' c (xs ++ ys)) ∧ Holds w' o [] ∧
                   (∀ d ∈ A, d ≠ c → d ≠ o → ∀ xs, Holds w d xs → Holds w' d xs))
      (fun _ w' => MoveAppendFailSys cfg w w' U A c o) := by
  by_cases hmode : relocateWithMove cfg.policy = true
  · exact SysAll.appendOtherMove_moving hs hc ho hoc hmode
  · exact Res.sat_mono (SysAll.appendOtherMove_copying hs hc ho hoc hstrong (by simpa using hmode)) (fun _ _ h => h)
      (fun _ _ h => MoveAppendFailSys.of_strong hs hc h)

end SvModel
