/-
Buffer hand-over inside a system of containers (the O(1) paths of move construction, move assignment and swap, C09;
"being the source of a move" in C02).

`SysAll.adopt`  — container `c` is unborn storage (not yet constructed, or just wiped), container `o` is constructed and
                  on the heap with a buffer larger than `c`'s inline capacity: rewriting the two headers so that `c`
                  takes `o`'s (data, capacity, size) and `o` becomes empty and inlined yields a valid system again in
                  which `c` is constructed, holds exactly what `o` held, owns the block, and `o` is a valid empty
                  container.  No memory, ledger, trace or fault-list change is involved.
`SysAll.congr`  — the system invariant only depends on WHICH containers are constructed.
-/
import SvModel.Proofs.SysInv

namespace SvModel
open Gen
variable {α : Type}

theorem SysAll.congr {cfg : Cfg} {w : World α} {U A B : List Nat} (hs : SysAll cfg w U A) (h : ∀ x, x ∈ B ↔ x ∈ A) : SysAll cfg w U B :=
  ⟨fun c hc => hs.sub c ((h c).mp hc),
   ⟨fun c hc => hs.ok.vec c ((h c).mp hc), fun c hc => hs.ok.nmax c ((h c).mp hc), hs.ok.led, hs.ok.ub,
    fun c hc d hd hcd => hs.ok.sep c ((h c).mp hc) d ((h d).mp hd) hcd,
    fun b hb => by obtain ⟨c, hc, hcd⟩ := hs.ok.noleak b hb; exact ⟨c, (h c).mpr hc, hcd⟩⟩,
   fun c hc hn => hs.unborn c hc (fun hA => hn ((h c).mpr hA)), hs.nmaxU, hs.inlsep⟩

/-- the two-header rewrite of a buffer hand-over; `a'` is the allocator `c` ends up with -/
def adoptW (w : World α) (c o a' : Nat) : World α :=
  { w with hdr := upd (upd w.hdr c { w.hdr c with data := (w.hdr o).data, cap := (w.hdr o).cap, size := (w.hdr o).size, alloc := a' })
                      o { w.hdr o with data := (w.hdr o).inl, cap := (w.hdr o).N, size := 0 } }

theorem SysAll.adopt {cfg : Cfg} {w : World α} {U A : List Nat} {c o : Nat} (hs : SysAll cfg w U A)
    (hcU : c ∈ U) (hcA : c ∉ A) (ho : o ∈ A)
    (hheap : (w.hdr o).N < (w.hdr o).cap) (hbig : (w.hdr c).N < (w.hdr o).cap) (a' : Nat) (ha : (w.hdr o).alloc = a') :
    SysAll cfg (adoptW w c o a') U (c :: A) ∧
    (∀ xs, Holds w o xs → Holds (adoptW w c o a') c xs) ∧ Holds (adoptW w c o a') o [] ∧
    (∀ d ∈ A, d ≠ o → (adoptW w c o a').hdr d = w.hdr d) ∧ (adoptW w c o a').mem = w.mem := by
  have hoc : o ≠ c := fun h => hcA (h ▸ ho)
  have hvo := hs.ok.vec o ho
  have hl := hs.ok.led
  have hu := hs.unborn c hcU hcA
  have hn5 := hl.next_ok.2
  have hoheap : (w.hdr o).data ≠ (w.hdr o).inl := (hvo.heap_iff).mp hheap
  have hodd := hvo.data_odd hl hoheap
  obtain ⟨hoidle_len, hoidle_raw⟩ := hvo.idle hoheap
  have hci5 := hu.inl_lt
  have hoi5 := hvo.inl_lt
  generalize hw' : adoptW w c o a' = w'
  have hhc : w'.hdr c = { w.hdr c with data := (w.hdr o).data, cap := (w.hdr o).cap, size := (w.hdr o).size, alloc := a' } := by
    subst hw'; unfold adoptW; simp [upd_other _ _ _ _ (Ne.symm hoc)]
  have hho : w'.hdr o = { w.hdr o with data := (w.hdr o).inl, cap := (w.hdr o).N, size := 0 } := by
    subst hw'; unfold adoptW; simp
  have hhd : ∀ d, d ≠ c → d ≠ o → w'.hdr d = w.hdr d := by
    intro d h1 h2; subst hw'; unfold adoptW; simp [upd_other _ _ _ _ h1, upd_other _ _ _ _ h2]
  have hmem : w'.mem = w.mem := by subst hw'; rfl
  have hlive : w'.live = w.live := by subst hw'; rfl
  have hown : w'.owner = w.owner := by subst hw'; rfl
  have hled : Ledger w' := by
    subst hw'
    exact ⟨hl.next_ok, hl.ntmp_ok, hl.live_ok, hl.nodup, hl.freed, hl.tmpfresh⟩
  have hocapmax : (w.hdr o).cap ≤ cfg.maxSize := by
    have := hvo.cap_max; have := hs.ok.nmax o ho; omega
  -- the new owner
  have hvc' : VecOK cfg w' c := by
    refine ⟨?_, ?_, ?_, ?_, ?_, ?_, ?_, ?_, ?_, ?_⟩ <;> rw [hhc] <;> simp only []
    · exact hvo.size_le
    · omega
    · exact Nat.le_trans hocapmax (Nat.le_max_left _ _)
    · exact ⟨fun h => by omega, fun h => by omega⟩
    · exact hci5
    · rw [hmem]; exact hvo.len
    · intro i hi; unfold IsObj; rw [hmem]; exact hvo.objs i hi
    · intro i h1 h2; unfold IsRaw; rw [hmem]; exact hvo.raws i h1 h2
    · intro _; rw [hlive, hown]; exact ⟨(hvo.heap hoheap).1, by rw [(hvo.heap hoheap).2, ha]⟩
    · intro _; exact ⟨by rw [hmem]; exact hu.len, fun i hi => by unfold IsRaw; rw [hmem]; exact hu.raws i hi⟩
  -- the stolen-from source
  have hvo' : VecOK cfg w' o :=
    { size_le := by rw [hho]; exact Nat.zero_le _
      cap_ge := by rw [hho]; exact Nat.le_refl _
      cap_max := by rw [hho]; exact Nat.le_max_right _ _
      inl_iff := by rw [hho]; exact ⟨fun _ => rfl, fun _ => rfl⟩
      inl_lt := by rw [hho]; exact hoi5
      len := by rw [hho, hmem]; exact hoidle_len
      objs := by rw [hho]; intro i hi; exact absurd hi (Nat.not_lt_zero _)
      raws := by rw [hho]; intro i _ h2; unfold IsRaw; rw [hmem]; exact hoidle_raw i h2
      heap := by rw [hho]; intro h; exact absurd rfl h
      idle := by rw [hho]; intro h; exact absurd rfl h }
  have hvd' : ∀ d ∈ A, d ≠ o → VecOK cfg w' d ∧ w'.hdr d = w.hdr d := by
    intro d hd hdo
    have hdc : d ≠ c := fun h => hcA (h ▸ hd)
    have hh := hhd d hdc hdo
    have hvd := hs.ok.vec d hd
    refine ⟨hvd.transfer hh (by rw [hmem]) (fun i hi => by unfold IsObj; rw [hmem]; exact hvd.objs i hi)
      (fun i h1 h2 => by unfold IsRaw; rw [hmem]; exact hvd.raws i h1 h2)
      (fun hne => by rw [hlive, hown]; exact hvd.heap hne)
      (fun hne => by obtain ⟨h1, h2⟩ := hvd.idle hne; exact ⟨by rw [hmem]; exact h1, fun i hi => by unfold IsRaw; rw [hmem]; exact h2 i hi⟩), hh⟩
  have hN : ∀ d, (w'.hdr d).N = (w.hdr d).N ∧ (w'.hdr d).inl = (w.hdr d).inl := by
    intro d
    by_cases h1 : d = c
    · rw [h1, hhc]; exact ⟨rfl, rfl⟩
    · by_cases h2 : d = o
      · rw [h2, hho]; exact ⟨rfl, rfl⟩
      · rw [hhd d h1 h2]; exact ⟨rfl, rfl⟩
  refine ⟨⟨?_, ⟨?_, ?_, hled, by subst hw'; exact hs.ok.ub, ?_, ?_⟩, ?_, fun d hd => by rw [(hN d).1]; exact hs.nmaxU d hd, ?_⟩, ?_, ?_, ?_, hmem⟩
  · intro d hd
    rcases List.mem_cons.mp hd with h | h
    · rw [h]; exact hcU
    · exact hs.sub d h
  · intro d hd
    rcases List.mem_cons.mp hd with h | h
    · rw [h]; exact hvc'
    · by_cases hdo : d = o
      · rw [hdo]; exact hvo'
      · exact (hvd' d h hdo).1
  · intro d hd
    rw [(hN d).1]
    rcases List.mem_cons.mp hd with h | h
    · rw [h]; exact hs.nmaxU c hcU
    · exact hs.ok.nmax d h
  · -- separation
    have inl_sep : ∀ x ∈ U, ∀ y ∈ U, x ≠ y → (w'.hdr x).inl ≠ (w'.hdr y).inl ∨ ((w'.hdr x).N = 0 ∧ (w'.hdr y).N = 0) := by
      intro x hx y hy hxy
      rw [(hN x).1, (hN x).2, (hN y).1, (hN y).2]
      exact hs.inlsep x hx y hy hxy
    have data' : ∀ d ∈ c :: A, (w'.hdr d).data ≠ (w'.hdr d).inl →
        (d = c ∧ (w'.hdr d).data = (w.hdr o).data) ∨ (d ∈ A ∧ d ≠ o ∧ (w'.hdr d).data = (w.hdr d).data ∧ (w.hdr d).data ≠ (w.hdr d).inl) := by
      intro d hd hne
      rcases List.mem_cons.mp hd with h | h
      · left; rw [h, hhc]; exact ⟨rfl, rfl⟩
      · by_cases hdo : d = o
        · rw [hdo, hho] at hne; exact absurd rfl hne
        · right
          have hh := (hvd' d h hdo).2
          rw [hh] at hne
          exact ⟨h, hdo, by rw [hh], hne⟩
    have mem_U : ∀ d ∈ c :: A, d ∈ U := by
      intro d hd
      rcases List.mem_cons.mp hd with h | h
      · rw [h]; exact hcU
      · exact hs.sub d h
    -- where does y's data pointer point?
    have ydata : ∀ y ∈ c :: A, (y = c ∧ (w'.hdr y).data = (w.hdr o).data) ∨ (y = o ∧ (w'.hdr y).data = (w.hdr o).inl) ∨
        (y ∈ A ∧ y ≠ o ∧ (w'.hdr y).data = (w.hdr y).data) := by
      intro y hy
      rcases List.mem_cons.mp hy with h | h
      · left; rw [h, hhc]; exact ⟨rfl, rfl⟩
      · by_cases hyo : y = o
        · right; left; rw [hyo, hho]; exact ⟨rfl, rfl⟩
        · right; right; exact ⟨h, hyo, by rw [(hvd' y h hyo).2]⟩
    intro x hx y hy hxy
    refine ⟨inl_sep x (mem_U x hx) y (mem_U y hy) hxy, fun hne => ?_⟩
    rcases data' x hx hne with ⟨hxc, hxd⟩ | ⟨hxA, hxo, hxd, hxheap⟩
    · rw [hxd]
      rcases ydata y hy with ⟨hyc, _⟩ | ⟨_, hyd⟩ | ⟨hyA, hyo, hyd⟩
      · exact absurd (hxc.trans hyc.symm) hxy
      · rw [hyd]; omega
      · rw [hyd]; exact (hs.ok.sep o ho y hyA (Ne.symm hyo)).data hoheap
    · rw [hxd]
      rcases ydata y hy with ⟨_, hyd⟩ | ⟨_, hyd⟩ | ⟨hyA, hyo, hyd⟩
      · rw [hyd]; exact (hs.ok.sep x hxA o ho hxo).data hxheap
      · rw [hyd]; have := ((hs.ok.vec x hxA).data_odd hl hxheap).1; omega
      · rw [hyd]; exact (hs.ok.sep x hxA y hyA hxy).data hxheap
  · -- no leak
    intro b hb
    rw [hlive] at hb
    obtain ⟨d, hd, hdd⟩ := hs.ok.noleak b hb
    by_cases hdo : d = o
    · exact ⟨c, by simp, by rw [hhc]; simp only []; rw [← hdo]; exact hdd⟩
    · exact ⟨d, by simp [hd], by rw [(hvd' d hd hdo).2]; exact hdd⟩
  · -- unborn storage of the others
    intro d hdU hdA
    have hdc : d ≠ c := fun h => hdA (by rw [h]; simp)
    have hdA' : d ∉ A := fun h => hdA (by simp [h])
    have hdo : d ≠ o := fun h => hdA' (h ▸ ho)
    have hud := hs.unborn d hdU hdA'
    have hh := hhd d hdc hdo
    exact ⟨by rw [hh]; exact hud.inl_lt, by rw [hh, hmem]; exact hud.len, fun i hi => by rw [hh] at hi ⊢; unfold IsRaw; rw [hmem]; exact hud.raws i hi⟩
  · intro x hx y hy hxy
    unfold InlSep
    rw [(hN x).1, (hN x).2, (hN y).1, (hN y).2]
    exact hs.inlsep x hx y hy hxy
  · intro xs hx
    exact ⟨by rw [hhc]; exact hx.1, fun i hi => by rw [hhc, hmem]; exact hx.2 i hi⟩
  · exact ⟨by rw [hho]; rfl, fun i hi => by simp at hi⟩
  · intro d hd hdo
    exact (hvd' d hd hdo).2

end SvModel
