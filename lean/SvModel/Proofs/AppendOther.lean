/-
`append (const small_vector<T, I>&)` and `append (small_vector<T, I>&&)` (hpp:5815-5845) inside a system of containers:
the elements of ANOTHER container are appended (the destination `c` changes; the source `o` is read, and cleared
afterwards by the rvalue overload).  Strong guarantee (C05): a throw leaves the whole world as it was — in particular
the source is unchanged, none of its elements moved-from — when the rvalue overload copies (the element type is
copyable and its move may throw, `relocate_with_move` false); when it moves, moves cannot throw.
-/
import SvModel.Proofs.AppendN
import SvModel.Proofs.CopyAssign
import SvModel.Proofs.SysInv

namespace SvModel
open Gen
variable {α : Type}

/-- the elements of a constructed container as sources for an append to another one -/
theorem srcsOK_of_other {cfg : Cfg} {w : World α} {o : Nat} (hvo : VecOK cfg w o) (hl : Ledger w) :
    SrcsOK cfg w (srcsCopy (w.hdr o).data 0 (w.hdr o).size) := by
  refine ⟨fun s hs => ?_, fun s hs b i hl' => ?_, fun s hs b i hl' => ?_⟩
  · obtain ⟨k, _, rfl⟩ := mem_srcsCopy hs; rfl
  · obtain ⟨k, hk, rfl⟩ := mem_srcsCopy hs
    simp [Src.loc] at hl'
    obtain ⟨h1, h2⟩ := hl'
    subst h1; subst h2
    have := hvo.objs k hk
    unfold IsObj at this
    simpa using this
  · obtain ⟨k, hk, rfl⟩ := mem_srcsCopy hs
    simp [Src.loc] at hl'
    rw [← hl'.1]
    exact hvo.data_lt_next hl

/-- `c.append (o)` -/
theorem SysAll.appendCopy {cfg : Cfg} {w : World α} {U A : List Nat} {c o : Nat} (hs : SysAll cfg w U A)
    (hc : c ∈ A) (ho : o ∈ A) (hoc : o ≠ c) (hstrong : movesFor cfg true = true → cfg.tMove = false) :
    (appendRangeFwd cfg c true (srcsCopy (w.hdr o).data 0 (w.hdr o).size) w).sat
      (fun _ w' => SysAll cfg w' U A ∧ (∀ xs ys, Holds w c xs → Holds w o ys → Holds w' c (xs ++ ys)) ∧
                   (∀ d ∈ A, d ≠ c → ∀ xs, Holds w d xs → Holds w' d xs) ∧ w'.hdr o = w.hdr o)
      (fun _ w' => Strong w w') := by
  have hvc := hs.ok.vec c hc
  have hvo := hs.ok.vec o ho
  have hl := hs.ok.led
  have h := appendRangeFwd_sat cfg c true _ w hvc hl (hs.ok.nmax c hc) (srcsOK_of_other hvo hl) (fun _ => hstrong)
  refine Res.sat_mono h ?_ (fun _ w' hf => hf.1 rfl)
  intro r w' ⟨_, ha⟩
  refine ⟨hs.step hc ha.basic, fun xs ys hx hy => ?_, fun d hd hdc xs hx => hs.ok.holds_other hc ha.basic hd hdc hx,
          ha.basic.frame.hdr_other o hoc⟩
  have := ha.holds xs hx
  rw [srcsCopy_vals hy] at this
  exact this

/-- `c.append (std::move (o))` when the elements are COPIED (copyable element type whose move may throw): the strong
    guarantee covers the source as well — after a throw the world is as before, nothing moved-from, nothing leaked -/
theorem SysAll.appendMoveByCopy {cfg : Cfg} {w : World α} {U A : List Nat} {c o : Nat} (hs : SysAll cfg w U A)
    (hc : c ∈ A) (ho : o ∈ A) (hoc : o ≠ c) (hstrong : movesFor cfg true = true → cfg.tMove = false) :
    ((appendRangeFwd cfg c true (srcsCopy (w.hdr o).data 0 (w.hdr o).size) >>= fun _ => eraseAll cfg o) w).sat
      (fun _ w' => SysAll cfg w' U A ∧ (∀ xs ys, Holds w c xs → Holds w o ys → Holds w' c (xs ++ ys)) ∧ Holds w' o [] ∧
                   (∀ d ∈ A, d ≠ c → d ≠ o → ∀ xs, Holds w d xs → Holds w' d xs))
      (fun _ w' => Strong w w') := by
  have hco : c ≠ o := fun e => hoc e.symm
  refine sat_bind (SysAll.appendCopy hs hc ho hoc hstrong) (fun _ w1 ⟨hs1, hcat, hoth, hho⟩ => ?_) (fun _ _ h => h)
  have her := eraseAll_sat cfg o w1 (hs1.ok.vec o ho) hs1.ok.led
  refine Res.sat_mono her ?_ (fun _ _ h => h.elim)
  intro _ w' hsh
  obtain ⟨ys1, hy1⟩ := (hs1.ok.vec o ho).holds_exists
  refine ⟨hs1.step ho hsh.basic, fun xs ys hx hy => ?_, hsh.holds ys1 hy1, fun d hd hdc hdo xs hx => ?_⟩
  · exact hs1.ok.holds_other ho hsh.basic hc hco (hcat xs ys hx hy)
  · exact hs1.ok.holds_other ho hsh.basic hd hdo (hoth d hd hdc xs hx)

/-- the model function of `c.append (o)` -/
theorem SysAll.appendOther {cfg : Cfg} {w : World α} {U A : List Nat} {c o : Nat} (hs : SysAll cfg w U A)
    (hc : c ∈ A) (ho : o ∈ A) (hoc : o ≠ c) (hstrong : movesFor cfg true = true → cfg.tMove = false) :
    (SvModel.appendOther cfg c o w).sat
      (fun _ w' => SysAll cfg w' U A ∧ (∀ xs ys, Holds w c xs → Holds w o ys → Holds w' c (xs ++ ys)) ∧
                   (∀ d ∈ A, d ≠ c → ∀ xs, Holds w d xs → Holds w' d xs))
      (fun _ w' => Strong w w') := by
  unfold SvModel.appendOther
  rw [bind_run, getV_run]; simp only []
  refine sat_bind (SysAll.appendCopy hs hc ho hoc hstrong) (fun _ w1 ⟨a, b, c', _⟩ => ?_) (fun _ _ h => h)
  exact ⟨a, b, c'⟩

/-- the model function of `c.append (std::move (o))`, copying mode -/
theorem SysAll.appendOtherMove_copying {cfg : Cfg} {w : World α} {U A : List Nat} {c o : Nat} (hs : SysAll cfg w U A)
    (hc : c ∈ A) (ho : o ∈ A) (hoc : o ≠ c) (hstrong : movesFor cfg true = true → cfg.tMove = false)
    (hmode : relocateWithMove cfg.policy = false) :
    (SvModel.appendOtherMove cfg c o w).sat
      (fun _ w' => SysAll cfg w' U A ∧ (∀ xs ys, Holds w c xs → Holds w o ys → Holds w' c (xs ++ ys)) ∧ Holds w' o [] ∧
                   (∀ d ∈ A, d ≠ c → d ≠ o → ∀ xs, Holds w d xs → Holds w' d xs))
      (fun _ w' => Strong w w') := by
  unfold SvModel.appendOtherMove
  rw [bind_run, getV_run]; simp only []
  rw [hmode]
  simp only [Bool.false_eq_true, if_false]
  exact SysAll.appendMoveByCopy hs hc ho hoc hstrong

end SvModel
