/-
Specification lemmas of the element-level primitives (Prim.lean), for every fault list:
normal outcome = exact slot-wise effect, exceptional outcome = nothing but the fault schedule changed.
-/
import SvModel.Prim
import SvModel.Proofs.Hoare

namespace SvModel
variable {α : Type}

/-- everything but memory contents, the fault schedule and the trace is unchanged; block lengths are unchanged -/
structure Ctl (w w' : World α) : Prop where
  hdr   : w'.hdr = w.hdr
  owner : w'.owner = w.owner
  live  : w'.live = w.live
  next  : w'.next = w.next
  ntmp  : w'.ntmp = w.ntmp
  ub    : w'.ub = w.ub
  len   : ∀ b, (w'.mem b).length = (w.mem b).length

theorem Ctl.refl (w : World α) : Ctl w w := ⟨rfl, rfl, rfl, rfl, rfl, rfl, fun _ => rfl⟩
theorem Ctl.trans {a b c : World α} (h1 : Ctl a b) (h2 : Ctl b c) : Ctl a c :=
  ⟨h2.hdr.trans h1.hdr, h2.owner.trans h1.owner, h2.live.trans h1.live, h2.next.trans h1.next,
   h2.ntmp.trans h1.ntmp, h2.ub.trans h1.ub, fun b => (h2.len b).trans (h1.len b)⟩

/-- only the fault schedule / trace changed -/
def Quiet (w w' : World α) : Prop := w'.mem = w.mem ∧ Ctl w w'

theorem Quiet.refl (w : World α) : Quiet w w := ⟨rfl, Ctl.refl w⟩
theorem Quiet.trans {a b c : World α} (h1 : Quiet a b) (h2 : Quiet b c) : Quiet a c :=
  ⟨h2.1.trans h1.1, h1.2.trans h2.2⟩

theorem tick_sat (on : Bool) (e : Exc) (w : World α) :
    (tick on e w).sat (fun _ w' => Quiet w w') (fun e' w' => (e' = e ∧ on = true) ∧ Quiet w w') := by
  unfold tick
  cases on
  · exact Quiet.refl w
  · match hf : w.faults with
    | [] => simp only [if_true]; exact Quiet.refl w
    | 0 :: fs => simp only [if_true]; exact ⟨⟨rfl, trivial⟩, rfl, ⟨rfl, rfl, rfl, rfl, rfl, rfl, fun _ => rfl⟩⟩
    | (n+1) :: fs => simp only [if_true]; exact ⟨rfl, ⟨rfl, rfl, rfl, rfl, rfl, rfl, fun _ => rfl⟩⟩

/-! ### slot-level access after an update -/
theorem get_upd_set (f : Nat → List (Slot α)) (blk idx : Nat) (x : Slot α) (b i : Nat) :
    (upd f blk ((f blk).set idx x) b)[i]? =
      if b = blk ∧ i = idx ∧ idx < (f blk).length then some x else (f b)[i]? := by
  by_cases hb : b = blk
  · subst hb
    simp only [upd_same, true_and]
    by_cases hi : i = idx
    · subst hi
      by_cases hl : i < (f b).length
      · simp [hl]
      · simp [hl]
    · simp only [hi, false_and, if_false]
      rw [List.getElem?_set_ne (Ne.symm hi)]
  · simp [upd, hb]

theorem len_upd_set (f : Nat → List (Slot α)) (blk idx : Nat) (x : Slot α) (b : Nat) :
    (upd f blk ((f blk).set idx x) b).length = (f b).length := by
  by_cases hb : b = blk
  · subst hb; simp
  · simp [upd, hb]

theorem lt_of_get {l : List (Slot α)} {i : Nat} {x : Slot α} (h : l[i]? = some x) : i < l.length :=
  (List.getElem?_eq_some_iff.mp h).1

/-! ### run lemmas (equational, under the liveness hypothesis) -/
theorem readSlot_run (b i : Nat) (w : World α) (v : Val α) (h : (w.mem b)[i]? = some (.obj v)) :
    readSlot b i w = .ok v w := by
  unfold readSlot; simp only [h]

theorem putObj_run (c : Cfg) (b i : Nat) (v : Val α) (e : Ev) (w : World α) (h : (w.mem b)[i]? = some .raw) :
    putObj c b i v e w = .ok () { w with mem := upd w.mem b ((w.mem b).set i (.obj v)),
                                          trace := if c.trivial then w.trace else w.trace ++ [e] } := by
  unfold putObj; simp only [h]

theorem setObj_run (c : Cfg) (b i : Nat) (v u : Val α) (e : Ev) (w : World α) (h : (w.mem b)[i]? = some (.obj u)) :
    setObj c b i v e w = .ok () { w with mem := upd w.mem b ((w.mem b).set i (.obj v)),
                                          trace := if c.trivial then w.trace else w.trace ++ [e] } := by
  unfold setObj; simp only [h]

theorem destroyAt_run (c : Cfg) (b i : Nat) (w : World α) (v : Val α) (h : (w.mem b)[i]? = some (.obj v)) :
    destroyAt c b i w = .ok () { w with mem := upd w.mem b ((w.mem b).set i .raw),
                                         trace := if c.trivial then w.trace else w.trace ++ [.dtor b i] } := by
  unfold destroyAt; simp only [h]

theorem huskSlot_run (c : Cfg) (b i : Nat) (w : World α) (v : Val α) (h : (w.mem b)[i]? = some (.obj v)) :
    huskSlot c b i w = .ok () (if c.realMove then { w with mem := upd w.mem b ((w.mem b).set i (.obj .husk)) } else w) := by
  unfold huskSlot
  cases c.realMove <;> simp [h]

/-! ### sources -/
def Src.loc : Src α → Option (Nat × Nat)
  | .copyOf b i => some (b, i)
  | .moveOf b i => some (b, i)
  | _ => none

/-- the source slot is left moved-from -/
def Src.moving (c : Cfg) : Src α → Bool
  | .moveOf _ _ => c.realMove
  | _ => false

/-- the fault-point flag a construction from this source consults -/
def Src.ticks (c : Cfg) : Src α → Bool
  | .ext _ => c.tCopy
  | .extMove _ => c.tMove
  | .copyOf _ _ => c.tCopy
  | .moveOf _ _ => c.tMove
  | .value _ => c.tVctor

/-- the fault-point flag an assignment from this source consults -/
def Src.aticks (c : Cfg) : Src α → Bool
  | .ext _ => c.tCasg
  | .extMove _ => c.tMasg
  | .copyOf _ _ => c.tCasg
  | .moveOf _ _ => c.tMasg
  | .value _ => c.tCasg

/-- the value a source provides, read in world `w` -/
def srcVal (w : World α) : Src α → Val α
  | .ext a => .val a
  | .extMove a => .val a
  | .value a => .val a
  | .copyOf b i => match (w.mem b)[i]? with | some (.obj v) => v | _ => .husk
  | .moveOf b i => match (w.mem b)[i]? with | some (.obj v) => v | _ => .husk

/-- the source slot (if any) holds a live object -/
def SrcLive (w : World α) (s : Src α) : Prop :=
  ∀ b i, s.loc = some (b, i) → ∃ v, (w.mem b)[i]? = some (.obj v)

/-- effect of writing value `x` to slot (blk, idx) (construct or assign), taken from source `s` -/
structure WroteFrom (c : Cfg) (w w' : World α) (blk idx : Nat) (s : Src α) : Prop where
  ctl  : Ctl w w'
  dst  : (w'.mem blk)[idx]? = some (.obj (srcVal w s))
  src  : ∀ b i, s.loc = some (b, i) → (b, i) ≠ (blk, idx) →
           (w'.mem b)[i]? = some (.obj (if s.moving c then .husk else srcVal w s))
  rest : ∀ b i, (b, i) ≠ (blk, idx) → s.loc ≠ some (b, i) → (w'.mem b)[i]? = (w.mem b)[i]?

private theorem wrote_plain (c : Cfg) (w w1 : World α) (blk idx : Nat) (s : Src α) (x : Slot α) (tr : List Ev)
    (hq : Quiet w w1) (hlt : idx < (w.mem blk).length) (hloc : s.loc = none) (hv : x = .obj (srcVal w s)) :
    WroteFrom c w ({ w1 with mem := upd w1.mem blk ((w1.mem blk).set idx x), trace := tr } : World α) blk idx s := by
  obtain ⟨hm, hc⟩ := hq
  refine ⟨⟨hc.hdr, hc.owner, hc.live, hc.next, hc.ntmp, hc.ub, fun b => ?_⟩, ?_, ?_, ?_⟩
  · show (upd w1.mem blk ((w1.mem blk).set idx x) b).length = _
    rw [len_upd_set, hm]
  · show (upd w1.mem blk ((w1.mem blk).set idx x) blk)[idx]? = _
    rw [get_upd_set, hm]; simp [hlt, hv]
  · intro b i h; rw [hloc] at h; cases h
  · intro b i hne _
    show (upd w1.mem blk ((w1.mem blk).set idx x) b)[i]? = _
    rw [get_upd_set, hm]
    have : ¬ (b = blk ∧ i = idx ∧ idx < (w.mem blk).length) := by
      intro ⟨h1, h2, _⟩; exact hne (by rw [h1, h2])
    simp [this]

private theorem wrote_from_slot (c : Cfg) (w w1 : World α) (blk idx b0 i0 : Nat) (s : Src α) (v : Val α) (tr : List Ev)
    (moving : Bool) (hmv : s.moving c = moving)
    (hq : Quiet w w1) (hlt : idx < (w.mem blk).length) (hloc : s.loc = some (b0, i0))
    (hsv : srcVal w s = v) (hsrc : (w.mem b0)[i0]? = some (.obj v)) (hne : (b0, i0) ≠ (blk, idx)) :
    WroteFrom c w
      (if moving then
        ({ w1 with mem := upd (upd w1.mem blk ((w1.mem blk).set idx (.obj v))) b0
                              (((upd w1.mem blk ((w1.mem blk).set idx (.obj v))) b0).set i0 (.obj .husk)), trace := tr } : World α)
       else ({ w1 with mem := upd w1.mem blk ((w1.mem blk).set idx (.obj v)), trace := tr } : World α)) blk idx s := by
  obtain ⟨hm, hc⟩ := hq
  have hlt0 : i0 < (w.mem b0).length := lt_of_get hsrc
  cases moving
  · simp only [Bool.false_eq_true, if_false]
    refine ⟨⟨hc.hdr, hc.owner, hc.live, hc.next, hc.ntmp, hc.ub, fun b => ?_⟩, ?_, ?_, ?_⟩
    · show (upd w1.mem blk ((w1.mem blk).set idx (.obj v)) b).length = _
      rw [len_upd_set, hm]
    · show (upd w1.mem blk ((w1.mem blk).set idx (.obj v)) blk)[idx]? = _
      rw [get_upd_set, hm]; simp [hlt, hsv]
    · intro b i h hne2
      rw [hloc] at h; injection h with h; injection h with hb hi; subst hb; subst hi
      show (upd w1.mem blk ((w1.mem blk).set idx (.obj v)) b0)[i0]? = _
      rw [get_upd_set, hm]
      have : ¬ (b0 = blk ∧ i0 = idx ∧ idx < (w.mem blk).length) := by
        intro ⟨h1, h2, _⟩; exact hne (by rw [h1, h2])
      simp [this, hmv, hsv, hsrc]
    · intro b i hne2 _
      show (upd w1.mem blk ((w1.mem blk).set idx (.obj v)) b)[i]? = _
      rw [get_upd_set, hm]
      have : ¬ (b = blk ∧ i = idx ∧ idx < (w.mem blk).length) := by
        intro ⟨h1, h2, _⟩; exact hne2 (by rw [h1, h2])
      simp [this]
  · simp only [if_true]
    generalize hf : upd w1.mem blk ((w1.mem blk).set idx (.obj v)) = f
    have hfget : ∀ b i, (f b)[i]? = if b = blk ∧ i = idx ∧ idx < (w.mem blk).length then some (.obj v) else (w.mem b)[i]? := by
      intro b i; rw [← hf, get_upd_set, hm]
    have hflen : ∀ b, (f b).length = (w.mem b).length := by
      intro b; rw [← hf, len_upd_set, hm]
    refine ⟨⟨hc.hdr, hc.owner, hc.live, hc.next, hc.ntmp, hc.ub, fun b => ?_⟩, ?_, ?_, ?_⟩
    · show (upd f b0 ((f b0).set i0 (.obj .husk)) b).length = _
      rw [len_upd_set, hflen]
    · show (upd f b0 ((f b0).set i0 (.obj .husk)) blk)[idx]? = _
      rw [get_upd_set]
      have : ¬ (blk = b0 ∧ idx = i0 ∧ i0 < (f b0).length) := by
        intro ⟨h1, h2, _⟩; exact hne (by rw [h1, h2])
      simp only [this, if_false]
      rw [hfget]; simp [hlt, hsv]
    · intro b i h hne2
      rw [hloc] at h; injection h with h; injection h with hb hi; subst hb; subst hi
      show (upd f b0 ((f b0).set i0 (.obj .husk)) b0)[i0]? = _
      rw [get_upd_set]
      simp [hflen, hlt0, hmv]
    · intro b i hne2 hnl
      show (upd f b0 ((f b0).set i0 (.obj .husk)) b)[i]? = _
      rw [get_upd_set]
      have h1 : ¬ (b = b0 ∧ i = i0 ∧ i0 < (f b0).length) := by
        intro ⟨h1, h2, _⟩; exact hnl (by rw [hloc, h1, h2])
      simp only [h1, if_false]
      rw [hfget]
      have : ¬ (b = blk ∧ i = idx ∧ idx < (w.mem blk).length) := by
        intro ⟨h1, h2, _⟩; exact hne2 (by rw [h1, h2])
      simp [this]

/-- constructing into a raw slot from a live source: exact effect, or nothing happened (throw) -/
theorem constructSrc_sat (c : Cfg) (blk idx : Nat) (s : Src α) (w : World α)
    (hraw : (w.mem blk)[idx]? = some .raw) (hsrc : SrcLive w s) :
    (constructSrc c blk idx s w).sat (fun _ w' => WroteFrom c w w' blk idx s) (fun e w' => (e = .elem ∧ s.ticks c = true) ∧ Quiet w w') := by
  have hlt := lt_of_get hraw
  cases s with
  | ext a =>
    unfold constructSrc
    refine sat_bind (tick_sat _ _ w) (fun _ w1 hq => ?_) (fun e w1 h => h)
    have hraw1 : (w1.mem blk)[idx]? = some .raw := by rw [hq.1]; exact hraw
    rw [putObj_run c blk idx _ _ w1 hraw1]
    exact wrote_plain c w w1 blk idx _ _ _ hq hlt rfl rfl
  | extMove a =>
    unfold constructSrc
    refine sat_bind (tick_sat _ _ w) (fun _ w1 hq => ?_) (fun e w1 h => h)
    have hraw1 : (w1.mem blk)[idx]? = some .raw := by rw [hq.1]; exact hraw
    rw [putObj_run c blk idx _ _ w1 hraw1]
    exact wrote_plain c w w1 blk idx _ _ _ hq hlt rfl rfl
  | value a =>
    unfold constructSrc
    refine sat_bind (tick_sat _ _ w) (fun _ w1 hq => ?_) (fun e w1 h => h)
    have hraw1 : (w1.mem blk)[idx]? = some .raw := by rw [hq.1]; exact hraw
    rw [putObj_run c blk idx _ _ w1 hraw1]
    exact wrote_plain c w w1 blk idx _ _ _ hq hlt rfl rfl
  | copyOf b i =>
    obtain ⟨v, hv⟩ := hsrc b i rfl
    have hne : (b, i) ≠ (blk, idx) := by
      intro h; injection h with h1 h2; subst h1; subst h2; rw [hraw] at hv; cases hv
    unfold constructSrc
    refine sat_bind (tick_sat _ _ w) (fun _ w1 hq => ?_) (fun e w1 h => h)
    have hraw1 : (w1.mem blk)[idx]? = some .raw := by rw [hq.1]; exact hraw
    have hv1 : (w1.mem b)[i]? = some (.obj v) := by rw [hq.1]; exact hv
    rw [bind_run, readSlot_run b i w1 v hv1]
    simp only []
    rw [putObj_run c blk idx _ _ w1 hraw1]
    have := wrote_from_slot c w w1 blk idx b i (.copyOf b i) v
      (if c.trivial then w1.trace else w1.trace ++ [.cctor blk idx]) false rfl hq hlt rfl (by simp [srcVal, hv]) hv hne
    simpa using this
  | moveOf b i =>
    obtain ⟨v, hv⟩ := hsrc b i rfl
    have hne : (b, i) ≠ (blk, idx) := by
      intro h; injection h with h1 h2; subst h1; subst h2; rw [hraw] at hv; cases hv
    unfold constructSrc
    refine sat_bind (tick_sat _ _ w) (fun _ w1 hq => ?_) (fun e w1 h => h)
    have hraw1 : (w1.mem blk)[idx]? = some .raw := by rw [hq.1]; exact hraw
    have hv1 : (w1.mem b)[i]? = some (.obj v) := by rw [hq.1]; exact hv
    rw [bind_run, readSlot_run b i w1 v hv1]
    simp only []
    rw [bind_run, putObj_run c blk idx _ _ w1 hraw1]
    simp only []
    generalize htr : (if c.trivial then w1.trace else w1.trace ++ [if c.hasMoveCtor then Ev.mctor blk idx else Ev.cctor blk idx]) = tr
    have hv2 : (({ w1 with mem := upd w1.mem blk ((w1.mem blk).set idx (.obj v)), trace := tr } : World α).mem b)[i]? = some (.obj v) := by
      show (upd w1.mem blk ((w1.mem blk).set idx (.obj v)) b)[i]? = _
      rw [get_upd_set]
      have : ¬ (b = blk ∧ i = idx ∧ idx < (w1.mem blk).length) := by
        intro ⟨h1, h2, _⟩; exact hne (by rw [h1, h2])
      simp [this, hv1]
    rw [huskSlot_run c b i _ v hv2]
    have := wrote_from_slot c w w1 blk idx b i (.moveOf b i) v tr c.realMove rfl hq hlt rfl (by simp [srcVal, hv]) hv hne
    cases hrm : c.realMove
    · rw [hrm] at this; simpa using this
    · rw [hrm] at this; simpa using this

/-- assigning to a live slot from a live source (not the slot itself): exact effect, or nothing happened (throw) -/
theorem assignSrc_sat (c : Cfg) (blk idx : Nat) (s : Src α) (w : World α) (u : Val α)
    (hraw : (w.mem blk)[idx]? = some (.obj u)) (hsrc : SrcLive w s) (hself : s.loc ≠ some (blk, idx)) :
    (assignSrc c blk idx s w).sat (fun _ w' => WroteFrom c w w' blk idx s) (fun e w' => (e = .elem ∧ s.aticks c = true) ∧ Quiet w w') := by
  have hlt := lt_of_get hraw
  cases s with
  | ext a =>
    unfold assignSrc
    refine sat_bind (tick_sat _ _ w) (fun _ w1 hq => ?_) (fun e w1 h => h)
    have hraw1 : (w1.mem blk)[idx]? = some (.obj u) := by rw [hq.1]; exact hraw
    rw [setObj_run c blk idx _ u _ w1 hraw1]
    exact wrote_plain c w w1 blk idx _ _ _ hq hlt rfl rfl
  | extMove a =>
    unfold assignSrc
    refine sat_bind (tick_sat _ _ w) (fun _ w1 hq => ?_) (fun e w1 h => h)
    have hraw1 : (w1.mem blk)[idx]? = some (.obj u) := by rw [hq.1]; exact hraw
    rw [setObj_run c blk idx _ u _ w1 hraw1]
    exact wrote_plain c w w1 blk idx _ _ _ hq hlt rfl rfl
  | value a =>
    unfold assignSrc
    refine sat_bind (tick_sat _ _ w) (fun _ w1 hq => ?_) (fun e w1 h => h)
    have hraw1 : (w1.mem blk)[idx]? = some (.obj u) := by rw [hq.1]; exact hraw
    rw [setObj_run c blk idx _ u _ w1 hraw1]
    exact wrote_plain c w w1 blk idx _ _ _ hq hlt rfl rfl
  | copyOf b i =>
    obtain ⟨v, hv⟩ := hsrc b i rfl
    have hne : (b, i) ≠ (blk, idx) := by
      intro h; exact hself (by rw [← h]; rfl)
    unfold assignSrc
    refine sat_bind (tick_sat _ _ w) (fun _ w1 hq => ?_) (fun e w1 h => h)
    have hraw1 : (w1.mem blk)[idx]? = some (.obj u) := by rw [hq.1]; exact hraw
    have hv1 : (w1.mem b)[i]? = some (.obj v) := by rw [hq.1]; exact hv
    rw [bind_run, readSlot_run b i w1 v hv1]
    simp only []
    rw [setObj_run c blk idx _ u _ w1 hraw1]
    have := wrote_from_slot c w w1 blk idx b i (.copyOf b i) v
      (if c.trivial then w1.trace else w1.trace ++ [.casg blk idx]) false rfl hq hlt rfl (by simp [srcVal, hv]) hv hne
    simpa using this
  | moveOf b i =>
    obtain ⟨v, hv⟩ := hsrc b i rfl
    have hne : (b, i) ≠ (blk, idx) := by
      intro h; exact hself (by rw [← h]; rfl)
    unfold assignSrc
    refine sat_bind (tick_sat _ _ w) (fun _ w1 hq => ?_) (fun e w1 h => h)
    have hraw1 : (w1.mem blk)[idx]? = some (.obj u) := by rw [hq.1]; exact hraw
    have hv1 : (w1.mem b)[i]? = some (.obj v) := by rw [hq.1]; exact hv
    rw [bind_run, readSlot_run b i w1 v hv1]
    simp only []
    rw [bind_run, setObj_run c blk idx _ u _ w1 hraw1]
    simp only []
    generalize htr : (if c.trivial then w1.trace else w1.trace ++ [if c.hasMoveCtor then Ev.masg blk idx else Ev.casg blk idx]) = tr
    have hv2 : (({ w1 with mem := upd w1.mem blk ((w1.mem blk).set idx (.obj v)), trace := tr } : World α).mem b)[i]? = some (.obj v) := by
      show (upd w1.mem blk ((w1.mem blk).set idx (.obj v)) b)[i]? = _
      rw [get_upd_set]
      have : ¬ (b = blk ∧ i = idx ∧ idx < (w1.mem blk).length) := by
        intro ⟨h1, h2, _⟩; exact hne (by rw [h1, h2])
      simp [this, hv1]
    rw [huskSlot_run c b i _ v hv2]
    have := wrote_from_slot c w w1 blk idx b i (.moveOf b i) v tr c.realMove rfl hq hlt rfl (by simp [srcVal, hv]) hv hne
    cases hrm : c.realMove
    · rw [hrm] at this; simpa using this
    · rw [hrm] at this; simpa using this


end SvModel
