/-
Element-wise move assignment into the in-object buffer of a heap-allocated destination (`move_assign_default`, source
inline capacity ≤ destination's, source not stealable, destination on the heap): move-construct the source's elements
into the idle in-object buffer, destroy the old elements, release the old block, switch to the in-object buffer.
-/
import SvModel.Proofs.MoveAssign
import SvModel.Proofs.ToInline
import SvModel.Proofs.Capacity

namespace SvModel
open Gen
variable {α : Type}

theorem moveAssignToInline_sat (cfg : Cfg) (c o : Nat) (w : World α) (a' : Nat)
    (hv : VecOK cfg w c) (hl : Ledger w) (hvo : VecOK cfg w o)
    (hheap : (w.hdr c).N < (w.hdr c).cap) (hfit : (w.hdr o).size ≤ (w.hdr c).N)
    (hd : (w.hdr o).data ≠ (w.hdr c).data) (hi : (w.hdr o).data ≠ (w.hdr c).inl) :
    (((uninitializedMove cfg false (w.hdr o).data 0 (w.hdr o).size (w.hdr c).inl 0 >>= fun _ =>
        destroyRange cfg (w.hdr c).data 0 (w.hdr c).size >>= fun _ =>
        deallocate (w.hdr c).alloc (w.hdr c).data (w.hdr c).cap >>= fun _ =>
        setDataPtr c (w.hdr c).inl >>= fun _ => setCapacity c (w.hdr c).N) >>= fun _ =>
      setSize c (w.hdr o).size >>= fun _ => setAlloc c a') w).sat
      (fun _ w' => ∃ wh, Basic cfg w wh o ∧ Basic cfg wh w' c ∧
          w'.hdr c = { w.hdr c with data := (w.hdr c).inl, cap := (w.hdr c).N, size := (w.hdr o).size, alloc := a' } ∧
          (∀ k, k < (w.hdr o).size → (w'.mem (w.hdr c).inl)[k]? = (w.mem (w.hdr o).data)[k]?))
      (fun e w' => e = .elem ∧ ∃ wh, Basic cfg w wh o ∧ Strong wh w') := by
  have hne : (w.hdr c).data ≠ (w.hdr c).inl := (hv.heap_iff).mp hheap
  obtain ⟨hlive, hown⟩ := hv.heap hne
  obtain ⟨hilen, hiraw⟩ := hv.idle hne
  generalize hod : (w.hdr o).data = od at *
  generalize hos : (w.hdr o).size = os at *
  generalize hcd : (w.hdr c).data = cd at *
  generalize hci : (w.hdr c).inl = ci at *
  have hoobj : ∀ i, i < os → IsObj w od i := fun i hi' => by rw [← hod]; exact hvo.objs i (by rw [hos]; exact hi')
  have hcobj : ∀ i, i < (w.hdr c).size → IsObj w cd i := fun i hi' => by rw [← hcd]; exact hv.objs i hi'
  have hmv := uninitializedMove_sat cfg false od 0 os ci 0 w (fun k hk => by rw [Nat.zero_add]; exact hoobj k hk)
    (fun k hk => by rw [Nat.zero_add]; exact hiraw k (by omega))
  -- the intermediate world
  have mid : ∀ (w1 : World α), Ctl w w1 → (∀ k, k < os → IsObj w1 od k) →
      (∀ (b i : Nat), ¬ (b = ci ∧ i < os) → ¬ (b = od ∧ i < os) → (w1.mem b)[i]? = (w.mem b)[i]?) →
      Basic cfg w (husked w w1 od) o ∧ VecOK cfg (husked w w1 od) c := by
    intro w1 hc1 hsrc1 hrest1
    have hb1 : Basic cfg w (husked w w1 od) o := by
      have := basic_husked cfg (w' := w1) hvo hl (by rw [hod]; exact hc1.len od)
        (by rw [hod, hos]; exact hsrc1)
        (by rw [hod, hos]; intro i hi'; exact hrest1 od i (by intro ⟨h, _⟩; exact hi h) (by intro ⟨_, h⟩; omega))
      rw [hod] at this; exact this
    refine ⟨hb1, ?_⟩
    refine hv.transfer rfl (by rw [hcd, husked_mem_other _ _ _ _ (Ne.symm hd)]) ?_ ?_ (fun hne' => hv.heap hne') ?_
    · intro i hi'; unfold IsObj; rw [hcd, husked_mem_other _ _ _ _ (Ne.symm hd)]; exact hcobj i hi'
    · intro i h1 h2; unfold IsRaw; rw [hcd, husked_mem_other _ _ _ _ (Ne.symm hd), ← hcd]; exact hv.raws i h1 h2
    · intro _
      rw [hci]
      exact ⟨by rw [husked_mem_other _ _ _ _ (Ne.symm hi)]; exact hilen, fun i hi' => by unfold IsRaw; rw [husked_mem_other _ _ _ _ (Ne.symm hi)]; exact hiraw i hi'⟩
  rw [bind_assoc_run, bind_run]
  cases h1 : uninitializedMove cfg false od 0 os ci 0 w with
  | thrown e w1 =>
    obtain ⟨he, hf⟩ := sat_of_thrown hmv h1
    try simp only []
    obtain ⟨hb1, _⟩ := mid w1 hf.ctl (fun k hk => by have := hf.src k hk; simpa using this)
      (fun b i n1 n2 => hf.rest b i (by intro ⟨x, _, y⟩; exact n1 ⟨x, by omega⟩) (by intro ⟨x, _, y⟩; exact n2 ⟨x, by omega⟩))
    refine ⟨he, _, hb1, ?_⟩
    have hc' : Ctl (husked w w1 od) w1 := by
      refine ⟨hf.ctl.hdr, hf.ctl.owner, hf.ctl.live, hf.ctl.next, hf.ctl.ntmp, hf.ctl.ub, fun b => ?_⟩
      by_cases hbo : b = od
      · rw [hbo, husked_mem_b]
      · rw [husked_mem_other _ _ _ _ hbo]; exact hf.ctl.len b
    refine Strong.of_slots hb1.led hc' (fun b i => ?_)
    by_cases hbo : b = od
    · rw [hbo, husked_mem_b]
    · rw [husked_mem_other _ _ _ _ hbo]
      by_cases hdst : b = ci ∧ i < os
      · have r1 := hf.dst i hdst.2
        have r0 := hiraw i (by omega)
        simp only [Nat.zero_add] at r1
        rw [hdst.1]; unfold IsRaw at r1 r0; rw [r1, r0]
      · exact hf.rest b i (by intro ⟨x, _, y⟩; exact hdst ⟨x, by omega⟩) (by intro ⟨x, _⟩; exact hbo x)
  | ok u1 w1 =>
    have hr := sat_of_ok hmv h1
    try simp only []
    obtain ⟨hb1, hvh⟩ := mid w1 hr.ctl (fun k hk => by have := hr.src k hk; simpa using this)
      (fun b i n1 n2 => hr.rest b i (by intro ⟨x, _, y⟩; exact n1 ⟨x, by omega⟩) (by intro ⟨x, _, y⟩; exact n2 ⟨x, by omega⟩))
    have hcd1 : ∀ i : Nat, (w1.mem cd)[i]? = (w.mem cd)[i]? := fun i =>
      hr.rest cd i (by intro ⟨x, _⟩; exact hne x) (by intro ⟨x, _⟩; exact hd x.symm)
    have hds := destroyRange_sat cfg cd (w.hdr c).size 0 w1 (fun i _ y => isObj_of_eq (hcd1 i) (hcobj i (by omega)))
    rw [bind_assoc_run, bind_run]
    cases h2 : destroyRange cfg cd 0 (w.hdr c).size w1 with
    | thrown e w2 => exact (sat_of_thrown hds h2).elim
    | ok u2 w2 =>
      obtain ⟨hc12, hr2, hrest2⟩ := sat_of_ok hds h2
      try simp only []
      have hc2 : Ctl w w2 := hr.ctl.trans hc12
      have hraw2 : ∀ i, i < (w.hdr c).cap → IsRaw w2 cd i := by
        intro i hi'
        by_cases h : i < (w.hdr c).size
        · exact hr2 i (Nat.zero_le _) (by omega)
        · refine isRaw_of_eq ((hrest2 _ i (by intro ⟨_, _, h3⟩; omega)).trans (hcd1 i)) ?_
          rw [← hcd]; exact hv.raws i (by omega) hi'
      rw [bind_assoc_run, bind_run, deallocate_run _ _ _ w2 (by rw [hc2.live]; exact hlive) (by rw [hc2.len, ← hcd, hv.len]) hraw2 (by rw [hc2.owner]; exact hown)]
      simp only []
      generalize hw3 : ({ w2 with mem := upd w2.mem cd [], live := w2.live.erase cd,
                                  trace := w2.trace ++ [.dealloc cd (w.hdr c).cap (w.hdr c).alloc] } : World α) = w3
      have hh3 : w3.hdr = w.hdr := by subst hw3; exact hc2.hdr
      have htail : ((setDataPtr c ci >>= fun _ => setCapacity c (w.hdr c).N) >>= fun _ => setSize c os >>= fun _ => setAlloc c a') w3 =
          .ok () { w3 with hdr := upd w.hdr c { w.hdr c with data := ci, cap := (w.hdr c).N, size := os, alloc := a' } } := by
        show Res.ok () _ = Res.ok () _
        congr 1
        apply world_hdr_ext
        intro x
        rw [hh3]
        by_cases hx : x = c
        · subst hx; simp
        · simp [upd_other _ _ _ _ hx]
      rw [htail]
      generalize hw4 : ({ w3 with hdr := upd w.hdr c { w.hdr c with data := ci, cap := (w.hdr c).N, size := os, alloc := a' } } : World α) = w4
      have hmem4 : ∀ b, b ≠ cd → w4.mem b = w2.mem b := by
        intro b hb; subst hw4; subst hw3; show upd w2.mem _ [] b = _; rw [upd_other _ _ _ _ hb]
      have hmem4d : w4.mem cd = [] := by subst hw4; subst hw3; show upd w2.mem _ [] _ = _; simp
      have hne' : cd ≠ ci := hne
      have hinl4 : ∀ i : Nat, (w4.mem ci)[i]? = (w1.mem ci)[i]? := by
        intro i; rw [hmem4 _ (Ne.symm hne')]
        exact hrest2 _ i (by intro ⟨h', _, _⟩; exact hne' h'.symm)
      have hval4 : ∀ k, k < os → (w4.mem ci)[k]? = (w.mem od)[k]? := fun k hk => by
        rw [hinl4 k]; have := hr.dst k hk; simpa using this
      have hres := toinline_ok cfg (w := husked w w1 od) (w' := w4) (n' := os) a' hvh hb1.led hheap hfit
        (by subst hw4; show upd w.hdr c _ = upd w.hdr c _; congr 1; simp [husked, hci])
        (by subst hw4; subst hw3; exact hc2.next)
        (by subst hw4; subst hw3; exact hc2.ntmp)
        (by subst hw4; subst hw3; show w2.live.erase cd = w.live.erase (w.hdr c).data; rw [hc2.live, hcd])
        (by subst hw4; subst hw3; exact hc2.owner)
        (by
          intro b hb
          show (w4.mem b).length = ((husked w w1 od).mem b).length
          rw [hmem4 b (by rw [← hcd]; exact hb), hc12.len]
          by_cases hbo : b = od
          · rw [hbo, husked_mem_b]
          · rw [husked_mem_other _ _ _ _ hbo]; exact hr.ctl.len b)
        (by
          show ∀ i, i < os → IsObj w4 (w.hdr c).inl i
          rw [hci]; intro i hi'
          obtain ⟨v, hv'⟩ := hoobj i hi'
          exact ⟨v, by rw [hval4 i hi']; exact hv'⟩)
        (by
          show ∀ i, os ≤ i → i < (w.hdr c).N → IsRaw w4 (w.hdr c).inl i
          rw [hci]; intro i x y
          exact isRaw_of_eq ((hinl4 i).trans (hr.rest ci i (by intro ⟨_, _, z⟩; omega) (by intro ⟨z, _⟩; exact hi z.symm))) (hiraw i y))
        (by show w4.mem (w.hdr c).data = []; rw [hcd]; exact hmem4d)
        (by
          intro b hb1' hb2'
          show w4.mem b = (husked w w1 od).mem b
          have hbcd : b ≠ cd := by rw [← hcd]; exact hb1'
          have hbci : b ≠ ci := by rw [← hci]; exact hb2'
          rw [hmem4 b hbcd]
          by_cases hbo : b = od
          · rw [hbo, husked_mem_b]
            exact mem_eq_of_slots (hc12.len od) (fun i => hrest2 od i (by intro ⟨z, _⟩; exact hd z))
          · rw [husked_mem_other _ _ _ _ hbo]
            exact mem_eq_of_slots (hc2.len b) (fun i => (hrest2 b i (by intro ⟨z, _⟩; exact hbcd z)).trans
              (hr.rest b i (by intro ⟨z, _⟩; exact hbci z) (by intro ⟨z, _⟩; exact hbo z))))
      obtain ⟨hvec, hled, hframe⟩ := hres
      have hub4 : w4.ub = w.ub := by subst hw4; subst hw3; exact hc2.ub
      refine ⟨_, hb1, ⟨hvec, hled, hub4, hframe⟩, by subst hw4; simp, hval4⟩

end SvModel
