/-
The range constructor for SINGLE-PASS iterators inside a system of containers (hpp: `small_vector_base (first, last, alloc)`
for input iterators: delegate to the default constructor, then `append_range`; an exception leaves through the destructor of
the base sub-object, which is complete at that point).

`SysAll.ctorInput`: in both outcomes the system invariant holds — on return the new container is constructed and holds the
range's values; on a throw it is NOT constructed, its storage is raw again, no block is left allocated — and no other
container is touched in either case.  Assembled from three existing results: construction of the empty container
(`SysAll.ctorFill` on no sources), the single-pass append loop as ONE CALL on a constructed container (`History.step_basic`,
case `appendInput false`), and destruction (`SysAll.dtor`).
-/
import SvModel.Properties.History
import SvModel.Proofs.SysInv
import SvModel.Properties.CtorProps

namespace SvModel
open Gen History
variable {α : Type}

/-- default construction IS construction from no sources (same program on every world) -/
theorem ctorDefault_eq_fill' (cfg : Cfg) (c a : Nat) (ch : Bool) (w : World α) :
    ctorDefault c a w = ctorFill cfg c a ch ([] : List (Src α)) w := by
  unfold ctorDefault ctorFill setDefault
  rfl

theorem SysAll.ctorInput {cfg : Cfg} {w : World α} {U A : List Nat} {c : Nat} (hs : SysAll cfg w U A) (hcU : c ∈ U) (hcA : c ∉ A)
    (hpol : StrongPolicy cfg) (a sid : Nat) (vs : List α) :
    (SvModel.ctorInput cfg c a sid vs w).sat
      (fun _ w' => SysAll cfg w' U (c :: A) ∧ Holds w' c (vs.map Val.val) ∧
                   ∀ d ∈ A, w'.hdr d = w.hdr d ∧ w'.mem (w.hdr d).data = w.mem (w.hdr d).data)
      (fun _ w' => SysAll cfg w' U A ∧
                   ∀ d ∈ A, w'.hdr d = w.hdr d ∧ w'.mem (w.hdr d).data = w.mem (w.hdr d).data) := by
  have hneA : ∀ d ∈ A, d ≠ c := fun d hd h => hcA (h ▸ hd)
  have hfill := SysAll.ctorFill hs hcU hcA a true ([] : List (Src α)) (fun h => by cases h)
    (ctorSrcs_ext cfg w c _ (fun s h => by cases h))
  rw [← ctorDefault_eq_fill'] at hfill
  unfold SvModel.ctorInput
  rw [bind_run]
  cases hd : ctorDefault c a w with
  | thrown e w1 => unfold ctorDefault setAlloc setDefault at hd; cases hd
  | ok u w1 =>
    rw [hd] at hfill
    obtain ⟨hs1, hx1, _, hoth1⟩ := hfill
    simp only [List.map_nil] at hx1
    have hc1 : c ∈ c :: A := List.mem_cons_self
    have hp1 : Pre cfg w1 c := ⟨hs1.ok.vec c hc1, hs1.ok.led, hs1.ok.nmax c hc1, hs1.ok.ub⟩
    have hstep := step_basic cfg c (.appendInput false sid vs) w1 [] hp1 hpol hx1 trivial
    simp only []
    rw [tryCatch_run]
    change match (appendRangeInput cfg c false sid 0 vs >>= fun _ => pure ()) w1 with
           | .ok _ w' => _ | .thrown _ w' => _ at hstep
    cases hr : (appendRangeInput cfg c false sid 0 vs >>= fun _ => (pure () : M α Unit)) w1 with
    | ok u2 w2 =>
      rw [hr] at hstep
      obtain ⟨hb, hx2⟩ := hstep
      refine ⟨hs1.step hc1 hb, by simpa [SOp.spec, L0.append] using hx2, fun d hd => ?_⟩
      obtain ⟨hh, hm, _⟩ := hs1.ok.other hc1 hb d (List.mem_cons_of_mem _ hd) (hneA d hd)
      obtain ⟨hh1, hm1⟩ := hoth1 d hd
      exact ⟨hh.trans hh1, by rw [← hh1, hm, hh1, hm1]⟩
    | thrown e w2 =>
      rw [hr] at hstep
      obtain ⟨hb, _⟩ := hstep
      have hs2 := hs1.step hc1 hb
      have hdt := SysAll.dtor hs2 hc1
      unfold SvModel.dtor at hdt
      simp only []
      rw [bind_run]
      cases hw : wipe cfg c w2 with
      | thrown e' w3 => rw [hw] at hdt; exact hdt.elim
      | ok u3 w3 =>
        rw [hw] at hdt
        obtain ⟨hs3, hh3, hm3⟩ := hdt
        have hfilt : (c :: A).filter (· ≠ c) = A := by
          rw [List.filter_cons_of_neg (by simp)]
          exact List.filter_eq_self.mpr (fun d hd => by simpa using hneA d hd)
        rw [hfilt] at hs3
        refine ⟨hs3, fun d hd => ?_⟩
        obtain ⟨hh, hm, _⟩ := hs1.ok.other hc1 hb d (List.mem_cons_of_mem _ hd) (hneA d hd)
        obtain ⟨hh1, hm1⟩ := hoth1 d hd
        have hm3' := hm3 d (List.mem_cons_of_mem _ hd) (hneA d hd)
        refine ⟨by rw [hh3]; exact hh.trans hh1, ?_⟩
        rw [← hh1, ← hh, hm3', hh, hm, hh1, hm1]

end SvModel
