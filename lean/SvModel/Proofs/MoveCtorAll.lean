/-
Move construction, every case, inside a system of containers: the three ways `move_initialize` can go
(steal the buffer; relocate element by element; both inline capacities 0 and an empty, unallocated source) combined into
one statement about `ctorMove`.
-/
import SvModel.Proofs.MoveCtorSys
import SvModel.Properties.C09Sys
import SvModel.Proofs.SwapSys

namespace SvModel
open Gen
variable {α : Type}

/-- the case analysis behind `move_initialize` -/
theorem steal_trichotomy (v ov : Vec) (hcap : ov.N ≤ ov.cap) :
    C09.StealAllowed v ov ∨ NoSteal v ov ∨ (v.N = 0 ∧ ov.N = 0 ∧ ov.cap = 0) := by
  unfold C09.StealAllowed NoSteal
  by_cases h0 : v.N = 0 ∧ ov.N = 0
  · by_cases hc : ov.cap = 0
    · exact Or.inr (Or.inr ⟨h0.1, h0.2, hc⟩)
    · left; omega
  · by_cases h1 : ov.N ≤ v.N
    · by_cases h2 : v.N < ov.cap
      · left; omega
      · right; left; exact ⟨h0, fun _ => h2, fun h => by omega⟩
    · by_cases h2 : ov.N < ov.cap
      · left; omega
      · right; left; exact ⟨h0, fun h => absurd h h1, fun _ => h2⟩

/-- both inline capacities 0, source empty and unallocated: the "steal" of the null buffer is the construction of an
    empty container -/
theorem ctorMove_null_eq_fill (cfg : Cfg) (c o : Nat) (hne : c ≠ o) (w : World α)
    (hcN : (w.hdr c).N = 0) (hoN : (w.hdr o).N = 0) (hocap : (w.hdr o).cap = 0) (hosz : (w.hdr o).size = 0)
    (hod : (w.hdr o).data = (w.hdr o).inl) (hnull : (w.hdr c).inl = (w.hdr o).inl) :
    ctorMove cfg c o w = ctorFill cfg c (w.hdr o).alloc false ([] : List (Src α)) w := by
  have hne' : o ≠ c := fun h => hne h.symm
  have hself : ({ w.hdr o with cap := (w.hdr o).N, data := (w.hdr o).inl, size := 0 } : Vec) = w.hdr o := by
    cases h : w.hdr o with
    | mk N inl cap size data alloc =>
      rw [h] at hoN hocap hosz hod
      simp only [] at hoN hocap hosz hod ⊢
      rw [hocap, hosz, hod, hoN]
  have lhs : ctorMove cfg c o w = .ok () { w with hdr := upd (upd (upd w.hdr c { w.hdr c with alloc := (w.hdr o).alloc }) c { w.hdr c with alloc := (w.hdr o).alloc, data := (w.hdr o).data, cap := (w.hdr o).cap, size := (w.hdr o).size }) o { w.hdr o with cap := (w.hdr o).N, data := (w.hdr o).inl, size := 0 } } := by
    unfold ctorMove
    rw [bind_run, getV_run]; simp only []
    rw [bind_run]
    show moveInitialize cfg c o (C09.ctorMovePre w c o) = _
    unfold moveInitialize
    rw [bind_run, getV_run]; simp only []
    rw [bind_run, getV_run]; simp only []
    have e1 : ((C09.ctorMovePre w c o).hdr c).N = 0 := by unfold C09.ctorMovePre; simp [hcN]
    have e2 : ((C09.ctorMovePre w c o).hdr o).N = 0 := by unfold C09.ctorMovePre; simp [upd_other _ _ _ _ hne', hoN]
    rw [if_pos ⟨e1, e2⟩]
    show Res.ok () _ = Res.ok () _
    congr 1
    apply world_hdr_ext
    intro x
    unfold C09.ctorMovePre
    by_cases hxo : x = o
    · subst hxo; simp [upd_other _ _ _ _ hne']
    · by_cases hxc : x = c
      · subst hxc; simp [upd_other _ _ _ _ hxo, upd_other _ _ _ _ hne']
      · simp [upd_other _ _ _ _ hxo, upd_other _ _ _ _ hxc]
  have rhs : ctorFill cfg c (w.hdr o).alloc false ([] : List (Src α)) w = .ok () { w with hdr := upd w.hdr c { w.hdr c with alloc := (w.hdr o).alloc, cap := (w.hdr c).N, data := (w.hdr c).inl, size := 0 } } := by
    unfold ctorFill
    rw [bind_run]
    show (getV c >>= _) _ = _
    rw [bind_run, getV_run]; simp only []
    rw [if_neg (by simp)]
    show Res.ok () _ = Res.ok () _
    congr 1
    apply world_hdr_ext
    intro x
    by_cases hxc : x = c
    · subst hxc; simp
    · simp [upd_other _ _ _ _ hxc]
  rw [lhs, rhs]
  congr 1
  apply world_hdr_ext
  intro x
  by_cases hxo : x = o
  · subst hxo; rw [upd_same, upd_other _ _ _ _ hne', hself]
  · rw [upd_other _ _ _ _ hxo]
    by_cases hxc : x = c
    · subst hxc; simp [hocap, hosz, hod, hcN, hnull]
    · simp [upd_other _ _ _ _ hxc]

/-- MOVE CONSTRUCTION in a system, every case -/
theorem SysAll.ctorMove {cfg : Cfg} {w : World α} {U A : List Nat} {c o : Nat} (hs : SysAll cfg w U A)
    (hcU : c ∈ U) (hcA : c ∉ A) (ho : o ∈ A)
    (hnull : (w.hdr c).N = 0 → (w.hdr o).N = 0 → (w.hdr c).inl = (w.hdr o).inl) :
    (SvModel.ctorMove cfg c o w).sat
      (fun _ w' => SysAll cfg w' U (c :: A) ∧ (∀ xs, Holds w o xs → Holds w' c xs) ∧ (∃ ys, Holds w' o ys) ∧
                   ∀ d ∈ A, d ≠ o → ∀ xs, Holds w d xs → Holds w' d xs)
      (fun _ w' => SysAll cfg w' U A ∧ w'.live = w.live ∧ (∃ ys, Holds w' o ys) ∧
                   ∀ d ∈ A, d ≠ o → ∀ xs, Holds w d xs → Holds w' d xs) := by
  have hne : c ≠ o := fun e => hcA (e ▸ ho)
  have hvo := hs.ok.vec o ho
  have keep : ∀ {w' : World α} {d : Nat} {xs : List (Val α)}, Holds w d xs → w'.hdr d = w.hdr d →
      w'.mem (w.hdr d).data = w.mem (w.hdr d).data → Holds w' d xs :=
    fun hx hh hm => ⟨by rw [hh]; exact hx.1, fun i hi => by rw [hh, hm]; exact hx.2 i hi⟩
  rcases steal_trichotomy (w.hdr c) (w.hdr o) hvo.cap_ge with hst | hns | ⟨hcN, hoN, hocap⟩
  · obtain ⟨w', hrun, hs', hco, hoe, _, hhd, hm, _, _⟩ := C09.move_ctor_steals_sys cfg w U A c o hs hcU hcA ho hst
    rw [hrun]
    exact ⟨hs', hco, ⟨[], hoe⟩, fun d hd hdo xs hx => keep hx (hhd d hd hdo) (by rw [hm])⟩
  · refine Res.sat_mono (SysAll.ctorMoveElementwise hs hcU hcA ho hns) ?_ ?_
    · intro _ w' ⟨a, b, _, _, e, f⟩
      exact ⟨a, b, e, fun d hd hdo xs hx => keep hx (f d hd hdo).1 (f d hd hdo).2⟩
    · intro _ w' ⟨a, b, _, e, f⟩
      exact ⟨a, b, e, fun d hd hdo xs hx => keep hx (f d hd hdo).1 (f d hd hdo).2⟩
  · have hosz : (w.hdr o).size = 0 := by have := hvo.size_le; omega
    have hod : (w.hdr o).data = (w.hdr o).inl := (hvo.inl_iff).mp (by rw [hocap, hoN])
    rw [ctorMove_null_eq_fill cfg c o hne w hcN hoN hocap hosz hod (hnull hcN hoN)]
    have hext : External ([] : List (Src α)) := fun s hs => by cases hs
    have hfill := SysAll.ctorFill hs hcU hcA (w.hdr o).alloc false ([] : List (Src α)) (fun _ => Nat.zero_le _)
      ⟨hext.nonmoving, hext.live w, fun s hs => by cases hs⟩
    refine Res.sat_mono hfill ?_ ?_
    · intro _ w' ⟨a, b, _, f⟩
      refine ⟨a, fun xs hx => ?_, ⟨[], keep (w' := w') (d := o) ⟨by rw [hosz]; rfl, fun i hi => by simp at hi⟩ (f o ho).1 (f o ho).2⟩,
              fun d hd _ xs hx => keep hx (f d hd).1 (f d hd).2⟩
      have : xs = [] := List.eq_nil_of_length_eq_zero (by rw [hx.1, hosz])
      rw [this]; simpa using b
    · intro _ w' ⟨a, b, f⟩
      exact ⟨a, b, ⟨[], keep (w' := w') (d := o) ⟨by rw [hosz]; rfl, fun i hi => by simp at hi⟩ (f o ho).1 (f o ho).2⟩,
             fun d hd _ xs hx => keep hx (f d hd).1 (f d hd).2⟩

/-! ### allocator-extended move construction `small_vector (std::move (o), a)` -/

/-- supplied allocator equal to the source's: the plain move construction -/
theorem ctorMoveAlloc_equal_eq (cfg : Cfg) (c o : Nat) (w : World α) (hnd : ¬ ctorMoveAllocDelegates cfg.policy = true) :
    ctorMoveAlloc cfg c o (w.hdr o).alloc w = SvModel.ctorMove cfg c o w := by
  unfold ctorMoveAlloc SvModel.ctorMove
  rw [if_neg hnd, bind_run, getV_run]; simp only []
  rw [bind_run (m := getV o), getV_run]; simp only []
  simp only [if_true]

/-- supplied allocator different from the source's: construction by relocation with the supplied allocator -/
theorem ctorMoveAlloc_unequal_eq_fill (cfg : Cfg) (c o a : Nat) (hne : c ≠ o) (w : World α) (hnd : ¬ ctorMoveAllocDelegates cfg.policy = true)
    (ha : (w.hdr o).alloc ≠ a) :
    ctorMoveAlloc cfg c o a w = SvModel.ctorFill cfg c a false (srcsMove (w.hdr o).data 0 (w.hdr o).size) w := by
  have hne' : o ≠ c := fun h => hne h.symm
  unfold ctorMoveAlloc SvModel.ctorFill
  rw [if_neg hnd, bind_run, getV_run]; simp only []
  rw [bind_run, bind_run]
  have hsa : SvModel.setAlloc c a w = .ok () { w with hdr := upd w.hdr c { w.hdr c with alloc := a } } := rfl
  rw [hsa]
  simp only []
  rw [if_neg ha]
  generalize hw1 : ({ w with hdr := upd w.hdr c { w.hdr c with alloc := a } } : World α) = w1
  have hc1 : w1.hdr c = { w.hdr c with alloc := a } := by subst hw1; simp
  simp only [bind_run, getV_run, hc1]
  simp only [srcsMove_length, uninitializedMove_false, Bool.false_eq_true, if_false]

/-- ALLOCATOR-EXTENDED MOVE CONSTRUCTION in a system, every case -/
theorem SysAll.ctorMoveAlloc {cfg : Cfg} {w : World α} {U A : List Nat} {c o : Nat} (hs : SysAll cfg w U A)
    (hcU : c ∈ U) (hcA : c ∉ A) (ho : o ∈ A) (a : Nat)
    (hnull : (w.hdr c).N = 0 → (w.hdr o).N = 0 → (w.hdr c).inl = (w.hdr o).inl) :
    (SvModel.ctorMoveAlloc cfg c o a w).sat
      (fun _ w' => SysAll cfg w' U (c :: A) ∧ (∀ xs, Holds w o xs → Holds w' c xs) ∧ (∃ ys, Holds w' o ys) ∧
                   ∀ d ∈ A, d ≠ o → ∀ xs, Holds w d xs → Holds w' d xs)
      (fun _ w' => SysAll cfg w' U A ∧ w'.live = w.live ∧ (∃ ys, Holds w' o ys) ∧
                   ∀ d ∈ A, d ≠ o → ∀ xs, Holds w d xs → Holds w' d xs) := by
  have hne : c ≠ o := fun e => hcA (e ▸ ho)
  have keep : ∀ {w' : World α} {d : Nat} {xs : List (Val α)}, Holds w d xs → w'.hdr d = w.hdr d →
      w'.mem (w.hdr d).data = w.mem (w.hdr d).data → Holds w' d xs :=
    fun hx hh hm => ⟨by rw [hh]; exact hx.1, fun i hi => by rw [hh, hm]; exact hx.2 i hi⟩
  by_cases hdel : ctorMoveAllocDelegates cfg.policy = true
  · have : SvModel.ctorMoveAlloc cfg c o a w = SvModel.ctorMove cfg c o w := by unfold SvModel.ctorMoveAlloc; rw [if_pos hdel]
    rw [this]; exact SysAll.ctorMove hs hcU hcA ho hnull
  · by_cases ha : (w.hdr o).alloc = a
    · rw [← ha, ctorMoveAlloc_equal_eq cfg c o w hdel]; exact SysAll.ctorMove hs hcU hcA ho hnull
    · rw [ctorMoveAlloc_unequal_eq_fill cfg c o a hne w hdel ha]
      refine Res.sat_mono (SysAll.ctorFillMove hs hcU hcA ho a) ?_ ?_
      · intro _ w' ⟨x1, x2, _, _, x5, x6⟩
        exact ⟨x1, x2, x5, fun d hd hdo xs hx => keep hx (x6 d hd hdo).1 (x6 d hd hdo).2⟩
      · intro _ w' ⟨x1, x2, _, x5, x6⟩
        exact ⟨x1, x2, x5, fun d hd hdo xs hx => keep hx (x6 d hd hdo).1 (x6 d hd hdo).2⟩

end SvModel
