/-
assign (n, x) and assign (first, last) over a multi-pass range of outside values: `assign_with_copies` /
`assign_with_range` (forward iterators).  Three branches: reallocate (build in a new block, then reset_data: a throw
leaves the world untouched), grow in place (assign over the live prefix, construct the rest), shrink in place (assign,
destroy the tail).  A throw gives the basic guarantee with the same buffer and capacity.
-/
import SvModel.Proofs.InsertOps
import SvModel.Proofs.GrowCalls

namespace SvModel
open Gen
variable {α : Type}

/-- outcome of a successful assignment of the values `vals` -/
structure Assigned (cfg : Cfg) (w w' : World α) (c : Nat) (vals : List (Val α)) : Prop where
  basic : Basic cfg w w' c
  holds : Holds w' c vals
  alloc : (w'.hdr c).alloc = (w.hdr c).alloc
  inplace : vals.length ≤ (w.hdr c).cap → InsKept w w' c
  grown : (w.hdr c).cap < vals.length →
            (w'.hdr c).data = w.next ∧ (w'.hdr c).cap = newCapacity cfg.maxSize (w.hdr c).cap vals.length

/-- the sources are values from outside every container -/
def External (srcs : List (Src α)) : Prop := ∀ s ∈ srcs, s.loc = none

theorem External.nonmoving {cfg : Cfg} {srcs : List (Src α)} (h : External srcs) : NonMoving cfg srcs := by
  intro s hs
  have := h s hs
  cases s <;> simp [Src.loc] at this <;> rfl

theorem External.live {srcs : List (Src α)} (h : External srcs) (w : World α) : ∀ s ∈ srcs, SrcLive w s := by
  intro s hs b i hl'
  rw [h s hs] at hl'; cases hl'

theorem External.srcVal {srcs : List (Src α)} (h : External srcs) (w w' : World α) : ∀ s ∈ srcs, srcVal w' s = srcVal w s := by
  intro s hs
  exact srcVal_congr w w' s (fun b i hl' => by rw [h s hs] at hl'; cases hl')

theorem External.sub {srcs sub : List (Src α)} (h : External srcs) (hs : ∀ s ∈ sub, s ∈ srcs) : External sub :=
  fun s hm => h s (hs s hm)

/-- sources that are not modified by reading them and do not live in `c`'s own storage: values from outside, or copies of
    live elements of blocks that existed before the call and are neither `c`'s buffer nor its in-object buffer
    (the elements of ANOTHER container: copy assignment) -/
structure Foreign (cfg : Cfg) (w : World α) (c : Nat) (srcs : List (Src α)) : Prop where
  nonmoving : NonMoving cfg srcs
  live  : ∀ s ∈ srcs, SrcLive w s
  apart : ∀ s ∈ srcs, ∀ b i, s.loc = some (b, i) → b ≠ (w.hdr c).data ∧ b ≠ (w.hdr c).inl ∧ b < w.next

theorem External.foreign {cfg : Cfg} {srcs : List (Src α)} (h : External srcs) (w : World α) (c : Nat) : Foreign cfg w c srcs :=
  ⟨h.nonmoving, h.live w, fun s hs b i hl' => by rw [h s hs] at hl'; cases hl'⟩

/-- the sources are still live, with the same values, in any world that agrees with `w` on their slots -/
theorem Foreign.live_of {cfg : Cfg} {w w' : World α} {c : Nat} {srcs : List (Src α)} (h : Foreign cfg w c srcs)
    (hag : ∀ s ∈ srcs, ∀ b i, s.loc = some (b, i) → (w'.mem b)[i]? = (w.mem b)[i]?) : ∀ s ∈ srcs, SrcLive w' s := by
  intro s hs b i hl'
  obtain ⟨v, hv⟩ := h.live s hs b i hl'
  exact ⟨v, by rw [hag s hs b i hl']; exact hv⟩

theorem Foreign.srcVal_of {cfg : Cfg} {w w' : World α} {c : Nat} {srcs : List (Src α)} (h : Foreign cfg w c srcs)
    (hag : ∀ s ∈ srcs, ∀ b i, s.loc = some (b, i) → (w'.mem b)[i]? = (w.mem b)[i]?) : ∀ s ∈ srcs, srcVal w' s = srcVal w s :=
  fun s hs => srcVal_congr w w' s (fun b i hl' => hag s hs b i hl')

theorem Foreign.sub {cfg : Cfg} {w : World α} {c : Nat} {srcs sub : List (Src α)} (h : Foreign cfg w c srcs) (hs : ∀ s ∈ sub, s ∈ srcs) :
    Foreign cfg w c sub :=
  ⟨fun s hm => h.nonmoving s (hs s hm), fun s hm => h.live s (hs s hm), fun s hm => h.apart s (hs s hm)⟩

theorem assignWithRangeFwd_foreign_sat (cfg : Cfg) (c : Nat) (srcs : List (Src α)) (w : World α)
    (hv : VecOK cfg w c) (hl : Ledger w) (hNmax : (w.hdr c).N ≤ cfg.maxSize) (hext : Foreign cfg w c srcs) :
    (assignWithRangeFwd cfg c srcs w).sat
      (fun _ w' => Assigned cfg w w' c (srcs.map (srcVal w)))
      (fun e w' => InsBasic cfg w w' c ∧ (e = .length → w' = w) ∧ ((w.hdr c).cap < srcs.length → Strong w w')) := by
  unfold assignWithRangeFwd
  rw [assignWithRange_calls.1, assignWithRange_calls.2]
  simp only [calcNewCapacity_checked, allocateBy_unchecked]
  rw [bind_run, getV_run]
  simp only []
  have e0 : guard_assignWithRange1_0 { genv cfg (w.hdr c) with count := srcs.length } = decide ((w.hdr c).cap < srcs.length) := rfl
  have e1 : guard_assignWithRange1_1 { genv cfg (w.hdr c) with count := srcs.length } = decide ((w.hdr c).size < srcs.length) := rfl
  rw [e0, e1]
  have hml : (srcs.map (srcVal w)).length = srcs.length := by simp
  have hcls := hv.data_cls hl
  by_cases hgrow : (w.hdr c).cap < srcs.length
  · ------------------------------------------------------------------ reallocate
    rw [if_pos (decide_eq_true hgrow)]
    rw [bind_run, checkedCalc_run]
    by_cases hmx : cfg.maxSize < srcs.length
    · rw [if_pos hmx]
      have hs := Strong.refl (w := w) hl
      exact ⟨hs.insBasic hl hv, fun _ => rfl, fun _ => hs⟩
    rw [if_neg hmx]
    simp only []
    generalize hncap : newCapacity cfg.maxSize (w.hdr c).cap srcs.length = ncap
    obtain ⟨hge, hle⟩ : srcs.length ≤ ncap ∧ ncap ≤ cfg.maxSize := by
      rw [← hncap]; exact newCapacity_bounds _ _ _ hgrow (by omega)
    obtain ⟨hnd, hni⟩ := hv.next_ne hl
    have hN : (w.hdr c).N < ncap := by have := hv.cap_ge; omega
    have strongOut : ∀ (e : Exc) w', Strong w w' → e ≠ .length →
        InsBasic cfg w w' c ∧ (e = .length → w' = w) ∧ ((w.hdr c).cap < srcs.length → Strong w w') :=
      fun e w' h hne => ⟨h.insBasic hl hv, fun he => absurd he hne, fun _ => h⟩
    refine sat_bind (allocate_sat cfg (w.hdr c).alloc ncap w) (fun nb w2 h2 => ?_)
      (fun e w2 h => strongOut e w2 (Strong.of_quiet hl h.2) (by rw [h.1]; intro h'; cases h'))
    obtain ⟨hnb, hm2, ho2, hlv2, hn2, hh2, ht2, hu2⟩ := h2
    subst hnb
    obtain ⟨hb2, hraw2, hoth2⟩ := Built.of_alloc (c := c) hv hl hm2 ho2 hlv2 hn2 hh2 ht2 hu2
    have hag2 : ∀ s ∈ srcs, ∀ b i, s.loc = some (b, i) → (w2.mem b)[i]? = (w.mem b)[i]? := fun s hs b i hl' => by
      rw [hoth2 b (by have := (hext.apart s hs b i hl').2.2; omega)]
    have hfill := uninitGen_nonmoving_sat cfg w.next 0 srcs 0 w2 hext.nonmoving (hext.live_of hag2) (fun j h => by omega)
      (fun k hk => hraw2 _ (by omega))
    refine sat_bind (sat_tryCatch (Q := fun _ w3 => Built cfg w w3 c ncap ∧
        (∀ k (h : k < srcs.length), (w3.mem w.next)[k]? = some (.obj (srcVal w srcs[k]))) ∧
        (∀ i, srcs.length ≤ i → i < ncap → IsRaw w3 w.next i))
        (E := fun e w' => InsBasic cfg w w' c ∧ (e = .length → w' = w) ∧ ((w.hdr c).cap < srcs.length → Strong w w'))
        (Res.sat_mono hfill ?_ (fun _ _ h => h)) ?_) ?_ (fun _ _ h => h)
    · intro _ w3 ⟨hc3, hv3, hrest3⟩
      have hb3 : Built cfg w w3 c ncap := hb2.step hc3
        (fun i hi => isObj_of_eq (hrest3 _ i (by intro ⟨h, _, _⟩; exact hnd h.symm)) (hb2.objs i hi))
        (fun b i hb' _ => hrest3 b i (by intro ⟨h, _, _⟩; exact hb' h))
      refine ⟨hb3, ?_, ?_⟩
      · intro k hk
        have := hv3 k hk
        simp only [Nat.zero_add] at this
        rw [this, hext.srcVal_of hag2 _ (List.getElem_mem hk)]
      · intro i h1 h2
        exact isRaw_of_eq (hrest3 _ i (by intro ⟨_, _, h⟩; omega)) (hraw2 i h2)
    · intro e w3 ⟨⟨he, _⟩, hc3, hr3, hrest3⟩
      have hb3 : Built cfg w w3 c ncap := hb2.step hc3
        (fun i hi => isObj_of_eq (hrest3 _ i (by intro ⟨h, _, _⟩; exact hnd h.symm)) (hb2.objs i hi))
        (fun b i hb' _ => hrest3 b i (by intro ⟨h, _, _⟩; exact hb' h))
      obtain ⟨w6, hd, hs6⟩ := abort_realloc hv hl hb3
        (fun i _ => by rw [hrest3 _ i (by intro ⟨h, _, _⟩; exact hnd h.symm), hoth2 _ (Ne.symm hnd)])
        (fun i hi => by
          by_cases h : 0 ≤ i ∧ i < 0 + 0 + srcs.length
          · exact hr3 i h.1 h.2
          · exact isRaw_of_eq (hrest3 _ i (by intro ⟨_, h1, h2⟩; exact h ⟨h1, h2⟩)) (hraw2 i hi))
      rw [bind_run, hd]
      exact strongOut e w6 hs6 (by rw [he]; intro h'; cases h')
    · intro _ w3 ⟨hb3, hnew3, hraw3⟩
      have hfin := finish_realloc (n' := srcs.length) hv hl hb3 hN hle hge
        (fun i hi => ⟨_, hnew3 i hi⟩) (fun i h1 h2 => hraw3 i h1 h2)
      refine Res.sat_mono hfin ?_ (fun _ _ h => h.elim)
      intro _ w' ⟨hvec, hled, hframe, hub, hhc, hmemn, hnext⟩
      refine ⟨⟨hvec, hled, hub, hframe⟩, ⟨by rw [hhc, hml], ?_⟩, by rw [hhc], fun h => by rw [hml] at h; omega,
              fun _ => ⟨by rw [hhc], by rw [hhc, hml]; exact hncap.symm⟩⟩
      intro i hi
      rw [hhc]; simp only []
      rw [hmemn, hnew3 i (by rw [hml] at hi; exact hi)]
      simp
  rw [if_neg (by simpa using hgrow)]
  have hfits : srcs.length ≤ (w.hdr c).cap := by omega
  generalize hn : (w.hdr c).size = n at *
  generalize hdd : (w.hdr c).data = d at *
  have hnotd : ∀ s ∈ srcs, ∀ b i, s.loc = some (b, i) → b ≠ d := fun s hs b i hl' => by
    have := (hext.apart s hs b i hl').1; rw [hdd] at this; exact this
  by_cases hmore : n < srcs.length
  · ------------------------------------------------------------------ grow in place
    rw [if_pos (decide_eq_true hmore)]
    have htl : (srcs.take n).length = n := by simp; omega
    have hext1 : Foreign cfg w c (srcs.take n) := hext.sub (fun s hs => List.mem_of_mem_take hs)
    have hext2 : Foreign cfg w c (srcs.drop n) := hext.sub (fun s hs => List.mem_of_mem_drop hs)

    have hobj0 : ∀ k, k < (srcs.take n).length → IsObj w d (0 + k) := fun k hk => by
      rw [← hdd]; simpa using hv.objs k (by rw [htl] at hk; omega)
    have hasg := Res.sat_and
      (assignGen_nonmoving_sat cfg d (srcs.take n) 0 w hext1.nonmoving hobj0 hext1.live
        (fun s hs b i hl' h => hnotd s (List.mem_of_mem_take hs) b i hl' h.1))
      (assignGen_touched_nm cfg d (srcs.take n) 0 w hext1.nonmoving hobj0 hext1.live
        (fun s hs b i hl' h => hnotd s (List.mem_of_mem_take hs) b i hl' h.1))
    have hm0 : MidIns w w c 0 srcs.length n := by
      have := MidIns.start hv 0 srcs.length hfits
      rw [hn] at this; exact this
    have failOut : ∀ (e : Exc) w' n', MidIns w w' c 0 srcs.length n' → n' ≤ srcs.length → e ≠ .length →
        InsBasic cfg w w' c ∧ (e = .length → w' = w) ∧ ((w.hdr c).cap < srcs.length → Strong w w') :=
      fun e w' n' hm hn' hne => ⟨(hm.fail hv hl hn' hfits (by omega)).insBasic, fun he => absurd he hne, fun h => by omega⟩
    refine sat_bind hasg (fun _ w1 ⟨⟨hc1, hv1, hrest1⟩, _⟩ => ?_) ?_
    · have hm1 : MidIns w w1 c 0 srcs.length n := hm0.step_data hc1.to0 hc1.hdr
        (fun i hi => by
          rw [hdd]
          have := hv1 i (by rw [htl]; exact hi)
          simp only [Nat.zero_add] at this
          exact ⟨_, this⟩)
        (fun i a b => by rw [hdd]; exact isRaw_of_eq (hrest1 d i (by intro ⟨_, _, h⟩; rw [htl] at h; omega)) (by rw [← hdd]; exact hv.raws i (by omega) (by omega)))
        (fun b i hne _ => hrest1 b i (by rw [hdd] at hne; intro ⟨a1, a2, a3⟩; rw [htl] at a3; exact hne ⟨a1, by omega, by omega⟩))
      have hraw1 : ∀ k, k < (srcs.drop n).length → IsRaw w1 d (n + 0 + k) := by
        intro k hk
        have : k < srcs.length - n := by simpa using hk
        have := hm1.raws (n + k) (by omega) (by omega)
        rw [hdd] at this
        simpa using this
      have hag1 : ∀ s ∈ srcs, ∀ b i, s.loc = some (b, i) → (w1.mem b)[i]? = (w.mem b)[i]? := fun s hs b i hl' =>
        hrest1 b i (fun h => hnotd s hs b i hl' h.1)
      have hcon := uninitGen_nonmoving_sat cfg d n (srcs.drop n) 0 w1 hext2.nonmoving
        (hext2.live_of (fun s hs => hag1 s (List.mem_of_mem_drop hs))) (fun j h => by omega) hraw1
      refine sat_bind hcon (fun _ w2 ⟨hc2, hv2, hrest2⟩ => ?_) ?_
      · have hss : setSize c srcs.length w2 = .ok () { w2 with hdr := upd w2.hdr c { w2.hdr c with size := srcs.length } } := rfl
        rw [hss]
        generalize hw3 : ({ w2 with hdr := upd w2.hdr c { w2.hdr c with size := srcs.length } } : World α) = w3
        have hmem3 : w3.mem = w2.mem := by subst hw3; rfl
        have hval3 : ∀ k (h : k < srcs.length), (w3.mem d)[k]? = some (.obj (srcVal w srcs[k])) := by
          intro k hk
          rw [hmem3]
          by_cases hkn : k < n
          · rw [hrest2 d k (by intro ⟨_, a, _⟩; omega)]
            have := hv1 k (by rw [htl]; exact hkn)
            simp only [Nat.zero_add] at this
            rw [this]
            simp
          · have hk2 : k - n < (srcs.drop n).length := by simp; omega
            have := hv2 (k - n) hk2
            rw [show n + 0 + (k - n) = k by omega] at this
            rw [this, hext.srcVal_of hag1 _ (List.mem_of_mem_drop (List.getElem_mem hk2))]
            simp [show n + (k - n) = k by omega]
        have hm3 : MidIns w w3 c 0 srcs.length srcs.length := by
          have hc03 : Ctl0 w1 w3 := by
            have h1 := hc2.to0
            subst hw3
            exact ⟨h1.owner, h1.live, h1.next, h1.ub, h1.ntmp, h1.len⟩
          refine ⟨hm1.ctl0.trans hc03, ?_, fun i hi => by rw [hdd]; exact ⟨_, hval3 i hi⟩, fun i a b => by omega, ?_⟩
          · subst hw3
            show upd w2.hdr c _ = _
            rw [hc2.hdr, hm1.hdr]
            funext x
            by_cases hx : x = c
            · subst hx; simp
            · simp [upd, hx]
          · intro b i hne hc'
            rw [hmem3, hrest2 b i (by rw [hdd] at hne; intro ⟨a1, a2, a3⟩; simp at a3; exact hne ⟨a1, by omega, by omega⟩)]
            exact hm1.rest b i hne hc'
        have hb3 := hm3.basic hv hl (Nat.le_refl _) hfits (by omega)
        have hhc3 := hm3.hdr_c
        show Assigned cfg w w3 c _
        refine ⟨hb3, ⟨by rw [hhc3, hml], ?_⟩, by rw [hhc3], fun _ => ⟨by rw [hhc3], by rw [hhc3], hm3.ctl0.live, hm3.ctl0.next⟩,
                fun h => by rw [hml] at h; omega⟩
        intro i hi
        rw [hhc3]; simp only []
        rw [hdd, hval3 i (by rw [hml] at hi; exact hi)]
        simp
      · -- constructing the extra elements threw: they were cleaned up
        intro e w2 ⟨⟨he, _⟩, hc2, hr2, hrest2⟩
        refine failOut e w2 n (hm1.step_data hc2.to0 hc2.hdr
          (fun i hi => by rw [hdd]; exact isObj_of_eq (hrest2 d i (by intro ⟨_, a, _⟩; omega)) (by rw [← hdd]; exact hm1.objs i hi))
          (fun i a b => by
            rw [hdd]
            have := hr2 i (by omega) (by simp; omega)
            exact this)
          (fun b i hne _ => hrest2 b i (by rw [hdd] at hne; intro ⟨a1, a2, a3⟩; simp at a3; exact hne ⟨a1, by omega, by omega⟩)))
          (by omega) (by rw [he]; intro h; cases h)
    · -- an assignment over the live prefix threw
      intro e w1 ⟨_, he, ht1⟩
      refine failOut e w1 n (hm0.step_data ht1.ctl.to0 ht1.ctl.hdr
        (fun i hi => by rw [hdd]; exact ht1.isObj (by rw [← hdd]; exact hv.objs i (by omega)))
        (fun i a b => by
          rw [hdd]
          exact isRaw_of_eq (ht1.same d i (by
            intro ⟨_, _, a3⟩
            rw [htl] at a3; omega)) (by rw [← hdd]; exact hv.raws i (by omega) (by omega)))
        (fun b i hne _ => ht1.same b i (by
          rw [hdd] at hne
          intro ⟨a1, a2, a3⟩
          rw [htl] at a3; exact hne ⟨a1, by omega, by omega⟩)))
        (by omega) (by rw [he]; intro h; cases h)
  · ------------------------------------------------------------------ shrink in place
    rw [if_neg (by simpa using hmore)]
    have hobj0 : ∀ k, k < srcs.length → IsObj w d (0 + k) := fun k hk => by
      rw [← hdd]; simpa using hv.objs k (by omega)
    have hasg := Res.sat_and
      (assignGen_nonmoving_sat cfg d srcs 0 w hext.nonmoving hobj0 hext.live
        (fun s hs b i hl' h => hnotd s hs b i hl' h.1))
      (assignGen_touched_nm cfg d srcs 0 w hext.nonmoving hobj0 hext.live
        (fun s hs b i hl' h => hnotd s hs b i hl' h.1))
    have hP : ∀ b i, (b = d ∧ 0 ≤ i ∧ i < 0 + srcs.length) → b = (w.hdr c).data ∧ i < (w.hdr c).size := by
      intro b i ⟨a1, _, a3⟩
      exact ⟨by rw [hdd]; exact a1, by omega⟩
    refine sat_bind hasg (fun _ w1 ⟨⟨hc1, hv1, hrest1⟩, ht1⟩ => ?_) ?_
    · have hb1 : Basic cfg w w1 c := basic_of_touched cfg hv hl ht1 hP
      have hh1 : w1.hdr = w.hdr := hc1.hdr
      have her := eraseRange_end_sat cfg c srcs.length w1 hb1.vec hb1.led (by rw [hh1]; omega)
      rw [hh1, hn] at her
      rw [bind_run]
      cases hr : eraseRange cfg c srcs.length n w1 with
      | thrown e w2 => rw [hr] at her; exact her.elim
      | ok r w2 =>
        rw [hr] at her
        have her : Shrunk cfg w1 w2 c (List.take srcs.length) := her
        show Assigned cfg w w2 c _
        obtain ⟨ys, hys⟩ := hb1.vec.holds_exists
        have hy2 := her.holds ys hys
        have hyl : ys.length = n := by rw [hys.1, hh1, hn]
        have heq : ys.take srcs.length = srcs.map (srcVal w) := by
          apply List.ext_getElem (by simp; omega)
          intro i h1 h2
          have hi : i < srcs.length := by simpa using h2
          have a := hys.2 i (by omega)
          rw [hh1, hdd] at a
          have b := hv1 i hi
          simp only [Nat.zero_add] at b
          rw [a] at b
          simp only [List.getElem_take, List.getElem_map]
          injection b with b; injection b with b
        rw [heq] at hy2
        have hfr : Frame1 w w2 c := Frame1.trans hl hv hb1.frame her.basic.frame
        refine ⟨⟨her.basic.vec, her.basic.led, by rw [her.basic.ub, hb1.ub], hfr⟩, hy2, by rw [her.alloc, hh1],
                fun _ => ⟨by rw [her.data, hh1], by rw [her.cap, hh1], by rw [her.noalloc.2, hc1.live], by rw [her.noalloc.1, hc1.next]⟩,
                fun h => by rw [hml] at h; omega⟩
    · intro e w1 ⟨_, he, ht1⟩
      have hb1 : Basic cfg w w1 c := basic_of_touched cfg hv hl ht1 hP
      exact ⟨⟨hb1, by rw [ht1.ctl.hdr], by rw [ht1.ctl.hdr], ht1.ctl.live⟩, (fun h => by rw [he] at h; cases h), (fun h => by omega)⟩

theorem assignWithRangeFwd_sat (cfg : Cfg) (c : Nat) (srcs : List (Src α)) (w : World α)
    (hv : VecOK cfg w c) (hl : Ledger w) (hNmax : (w.hdr c).N ≤ cfg.maxSize) (hext : External srcs) :
    (assignWithRangeFwd cfg c srcs w).sat
      (fun _ w' => Assigned cfg w w' c (srcs.map (srcVal w)))
      (fun e w' => InsBasic cfg w w' c ∧ (e = .length → w' = w) ∧ ((w.hdr c).cap < srcs.length → Strong w w')) :=
  assignWithRangeFwd_foreign_sat cfg c srcs w hv hl hNmax (hext.foreign w c)

theorem replicate_take {β : Type} (n k : Nat) (x : β) (h : k ≤ n) : (List.replicate n x).take k = List.replicate k x := by
  simp [List.take_replicate, Nat.min_eq_left h]

theorem replicate_drop {β : Type} (n k : Nat) (x : β) : (List.replicate n x).drop k = List.replicate (n - k) x := by
  simp [List.drop_replicate]

/-- assign (n, x) is assign over the range of n copies of x: the two member functions have the same body -/
theorem assignWithCopies_eq (cfg : Cfg) (c count : Nat) (s : Src α) (w : World α) :
    assignWithCopies cfg c count s w = assignWithRangeFwd cfg c (List.replicate count s) w := by
  unfold assignWithCopies assignWithRangeFwd
  rw [assignWithRange_calls.1, assignWithRange_calls.2, assignWithCopies_calls.1, assignWithCopies_calls.2]
  simp only [calcNewCapacity_checked, allocateBy_unchecked]
  rw [bind_run, bind_run, getV_run]
  simp only [List.length_replicate]
  have e0 : guard_assignWithCopies_0 { genv cfg (w.hdr c) with count := count } = guard_assignWithRange1_0 { genv cfg (w.hdr c) with count := count } := rfl
  have e1 : guard_assignWithCopies_1 { genv cfg (w.hdr c) with count := count } = guard_assignWithRange1_1 { genv cfg (w.hdr c) with count := count } := rfl
  rw [e0, e1]
  split
  · rfl
  · split
    · rename_i h
      have h' : (w.hdr c).size < count := by
        have e : guard_assignWithRange1_1 { genv cfg (w.hdr c) with count := count } = decide ((w.hdr c).size < count) := rfl
        rw [e] at h; simpa using h
      rw [replicate_take _ _ _ (Nat.le_of_lt h'), replicate_drop]
    · rfl

theorem assignWithCopies_sat (cfg : Cfg) (c count : Nat) (a : α) (w : World α)
    (hv : VecOK cfg w c) (hl : Ledger w) (hNmax : (w.hdr c).N ≤ cfg.maxSize) :
    (assignWithCopies cfg c count (.ext a) w).sat
      (fun _ w' => Assigned cfg w w' c (List.replicate count (.val a)))
      (fun e w' => InsBasic cfg w w' c ∧ (e = .length → w' = w) ∧ ((w.hdr c).cap < count → Strong w w')) := by
  rw [assignWithCopies_eq]
  have hext : External (List.replicate count (Src.ext a)) := fun s hs => by
    rw [List.eq_of_mem_replicate hs]; rfl
  have := assignWithRangeFwd_sat cfg c (List.replicate count (.ext a)) w hv hl hNmax hext
  simp only [List.map_replicate, List.length_replicate] at this
  exact this

end SvModel
