/-
The insert family, reallocating branch: `insertRealloc` (shared by emplace_into_reallocation, insert_copies,
insert_range_helper): allocate, build the inserted elements at new[pos …), relocate the prefix, relocate the suffix,
reset_data; every stage rolls back on a throw.  Relocation is NOT under the strong policy here (elements may be moved), so
a throw leaves a valid container with the same header, possibly holding moved-from values: basic guarantee.
-/
import SvModel.Proofs.AppendN

namespace SvModel
open Gen
variable {α : Type}

/-- outcome of a successful insertion of the values `vals` before position `pos` -/
structure Inserted (cfg : Cfg) (w w' : World α) (c pos : Nat) (vals : List (Val α)) : Prop where
  basic : Basic cfg w w' c
  holds : ∀ xs, Holds w c xs → Holds w' c (xs.take pos ++ vals ++ xs.drop pos)
  size  : (w'.hdr c).size = (w.hdr c).size + vals.length
  alloc : (w'.hdr c).alloc = (w.hdr c).alloc

theorem ins_getElem? {β : Type} (xs vals : List β) (pos i : Nat) (hpos : pos ≤ xs.length) :
    (xs.take pos ++ vals ++ xs.drop pos)[i]? =
      if i < pos then xs[i]? else if i < pos + vals.length then vals[i - pos]? else xs[i - vals.length]? := by
  have hA : (xs.take pos).length = pos := by simp; omega
  by_cases h1 : i < pos
  · rw [if_pos h1, List.getElem?_append_left (by simp; omega), List.getElem?_append_left (by omega)]
    simp [h1]
  · rw [if_neg h1]
    by_cases h2 : i < pos + vals.length
    · rw [if_pos h2, List.getElem?_append_left (by simp; omega), List.getElem?_append_right (by omega), hA]
    · rw [if_neg h2, List.getElem?_append_right (by simp; omega)]
      simp only [List.length_append, hA, List.getElem?_drop]
      congr 1; omega

theorem getElem_of_getElem? {β : Type} {l : List β} {i : Nat} {v : β} (hi : i < l.length) (h : l[i]? = some v) : l[i] = v := by
  rw [List.getElem?_eq_getElem hi] at h; exact Option.some.inj h

theorem holds_insert_of_slots {w w' : World α} {c : Nat} {xs vals : List (Val α)} {d n pos : Nat}
    (hx : Holds w c xs) (hn : n = (w.hdr c).size) (hpos : pos ≤ n)
    (hsize : (w'.hdr c).size = n + vals.length) (hdata : (w'.hdr c).data = d)
    (hpre : ∀ i, i < pos → (w'.mem d)[i]? = (w.mem (w.hdr c).data)[i]?)
    (hnew : ∀ k (h : k < vals.length), (w'.mem d)[pos + k]? = some (.obj vals[k]))
    (hsuf : ∀ i, pos ≤ i → i < n → (w'.mem d)[i + vals.length]? = (w.mem (w.hdr c).data)[i]?) :
    Holds w' c (xs.take pos ++ vals ++ xs.drop pos) := by
  obtain ⟨hxl, hxv⟩ := hx
  have hlen : (xs.take pos ++ vals ++ xs.drop pos).length = n + vals.length := by
    simp only [List.length_append, List.length_take, List.length_drop]; omega
  refine ⟨by rw [hlen, hsize], ?_⟩
  intro i hi
  have hi' : i < n + vals.length := by rw [hlen] at hi; exact hi
  have hkey := ins_getElem? xs vals pos i (by omega)
  rw [hdata]
  by_cases h1 : i < pos
  · rw [if_pos h1, List.getElem?_eq_getElem (show i < xs.length by omega)] at hkey
    rw [hpre i h1, hxv i (by omega), getElem_of_getElem? hi hkey]
  · rw [if_neg h1] at hkey
    by_cases h2 : i < pos + vals.length
    · rw [if_pos h2, List.getElem?_eq_getElem (show i - pos < vals.length by omega)] at hkey
      have := hnew (i - pos) (by omega)
      rw [show pos + (i - pos) = i by omega] at this
      rw [this, getElem_of_getElem? hi hkey]
    · rw [if_neg h2, List.getElem?_eq_getElem (show i - vals.length < xs.length by omega)] at hkey
      have := hsuf (i - vals.length) (by omega) (by omega)
      rw [show i - vals.length + vals.length = i by omega] at this
      rw [this, hxv (i - vals.length) (by omega), getElem_of_getElem? hi hkey]

/-- the reallocating insert kernel -/
theorem insertRealloc_sat (cfg : Cfg) (c pos : Nat) (srcs : List (Src α)) (w : World α)
    (hv : VecOK cfg w c) (hl : Ledger w) (hNmax : (w.hdr c).N ≤ cfg.maxSize) (hpos : pos ≤ (w.hdr c).size)
    (hgrow : (w.hdr c).cap < (w.hdr c).size + srcs.length) (hmax : (w.hdr c).size + srcs.length ≤ cfg.maxSize)
    (ha : ArgsOK cfg w c srcs) :
    (insertRealloc cfg c pos srcs w).sat
      (fun r w' => r = pos ∧ Inserted cfg w w' c pos (srcs.map (srcVal w)) ∧ (w'.hdr c).data = w.next ∧
                   (w'.hdr c).cap = newCapacity cfg.maxSize (w.hdr c).cap ((w.hdr c).size + srcs.length))
      (fun _ w' => Basic cfg w w' c ∧ w'.hdr c = w.hdr c ∧ w'.live = w.live) := by
  unfold insertRealloc
  rw [bind_run, getV_run]
  simp only []
  generalize hncap : newCapacity cfg.maxSize (w.hdr c).cap ((w.hdr c).size + srcs.length) = ncap
  obtain ⟨hge, hle⟩ : (w.hdr c).size + srcs.length ≤ ncap ∧ ncap ≤ cfg.maxSize := by
    rw [← hncap]; exact newCapacity_bounds _ _ _ hgrow hmax
  obtain ⟨hnd, hni⟩ := hv.next_ne hl
  have hN : (w.hdr c).N < ncap := by have := hv.cap_ge; omega
  have strongOut : ∀ w', Strong w w' → Basic cfg w w' c ∧ w'.hdr c = w.hdr c ∧ w'.live = w.live :=
    fun w' h => ⟨h.basic hl hv, by rw [h.hdr], h.live⟩
  refine sat_bind (allocate_sat cfg (w.hdr c).alloc ncap w) (fun nb w2 h2 => ?_) (fun e w2 h => strongOut _ (Strong.of_quiet hl h.2))
  obtain ⟨hnb, hm2, ho2, hlv2, hn2, hh2, ht2, hu2⟩ := h2
  subst hnb
  obtain ⟨hb2, hraw2, hoth2⟩ := Built.of_alloc (c := c) hv hl hm2 ho2 hlv2 hn2 hh2 ht2 hu2
  have hdata2 : w2.mem (w.hdr c).data = w.mem (w.hdr c).data := hoth2 _ (Ne.symm hnd)
  have hlive2 : ∀ s ∈ srcs, SrcLive w2 s := by
    intro s hs b i hl'
    obtain ⟨hb', _⟩ := ha.inside s hs b i hl'
    obtain ⟨v, hv'⟩ := ha.live s hs b i hl'
    exact ⟨v, by rw [hoth2 b (by rw [hb']; exact Ne.symm hnd)]; exact hv'⟩
  have hsv2 : ∀ s ∈ srcs, srcVal w2 s = srcVal w s := fun s hs =>
    srcVal_congr w w2 s (fun b i hl' => by rw [hoth2 b (by rw [(ha.inside s hs b i hl').1]; exact Ne.symm hnd)])
  -- 1. build the inserted elements at new[pos, pos + k)
  have hfill := uninitGen_nonmoving_sat cfg w.next pos srcs 0 w2 ha.nonmoving hlive2 (fun j h => by omega)
    (fun k hk => hraw2 _ (by omega))
  refine sat_bind (sat_tryCatch (Q := fun _ w3 => Built cfg w w3 c ncap ∧
      (∀ k (h : k < srcs.length), (w3.mem w.next)[pos + k]? = some (.obj (srcVal w srcs[k]))) ∧
      (∀ i, i < ncap → ¬ (pos ≤ i ∧ i < pos + srcs.length) → IsRaw w3 w.next i) ∧
      (∀ i : Nat, (w3.mem (w.hdr c).data)[i]? = (w.mem (w.hdr c).data)[i]?))
      (E := fun _ w' => Basic cfg w w' c ∧ w'.hdr c = w.hdr c ∧ w'.live = w.live)
      (Res.sat_mono hfill ?_ (fun _ _ h => h)) ?_) ?_ (fun _ _ h => h)
  · intro _ w3 ⟨hc3, hv3, hrest3⟩
    have hb3 : Built cfg w w3 c ncap := hb2.step hc3
      (fun i hi => isObj_of_eq (hrest3 _ i (by intro ⟨h, _, _⟩; exact hnd h.symm)) (hb2.objs i hi))
      (fun b i hb' _ => hrest3 b i (by intro ⟨h, _, _⟩; exact hb' h))
    refine ⟨hb3, ?_, ?_, ?_⟩
    · intro k hk
      have := hv3 k hk
      simp only [Nat.add_zero] at this
      rw [this, hsv2 _ (List.getElem_mem hk)]
    · intro i hi hn
      exact isRaw_of_eq (hrest3 _ i (by intro ⟨_, h1, h2⟩; exact hn ⟨by omega, by omega⟩)) (hraw2 i hi)
    · intro i
      rw [hrest3 _ i (by intro ⟨h, _, _⟩; exact hnd h.symm), hdata2]
  · -- building threw: everything is raw again
    intro e w3 ⟨_, hc3, hr3, hrest3⟩
    have hb3 : Built cfg w w3 c ncap := hb2.step hc3
      (fun i hi => isObj_of_eq (hrest3 _ i (by intro ⟨h, _, _⟩; exact hnd h.symm)) (hb2.objs i hi))
      (fun b i hb' _ => hrest3 b i (by intro ⟨h, _, _⟩; exact hb' h))
    obtain ⟨w6, hd, hs6⟩ := abort_realloc hv hl hb3
      (fun i _ => by rw [hrest3 _ i (by intro ⟨h, _, _⟩; exact hnd h.symm), hdata2])
      (fun i hi => by
        by_cases h : pos ≤ i ∧ i < pos + 0 + srcs.length
        · exact hr3 i h.1 h.2
        · exact isRaw_of_eq (hrest3 _ i (by intro ⟨_, h1, h2⟩; exact h ⟨h1, h2⟩)) (hraw2 i hi))
    rw [bind_run, hd]
    exact strongOut _ hs6
  -- 2. relocate the prefix [0, pos)
  intro _ w3 ⟨hb3, hnew3, hraw3, hdata3⟩
  have hmv := uninitializedMove_sat cfg false (w.hdr c).data 0 pos w.next 0 w3
    (fun k hk => by simpa using hb3.objs k (by omega))
    (fun k hk => by simpa using hraw3 k (by omega) (by intro ⟨h, _⟩; omega))
  refine sat_bind (sat_tryCatch (Q := fun _ w4 => Built cfg w w4 c ncap ∧
      (∀ i, i < pos → (w4.mem w.next)[i]? = (w.mem (w.hdr c).data)[i]?) ∧
      (∀ k (h : k < srcs.length), (w4.mem w.next)[pos + k]? = some (.obj (srcVal w srcs[k]))) ∧
      (∀ i, pos + srcs.length ≤ i → i < ncap → IsRaw w4 w.next i) ∧
      (∀ i, pos ≤ i → (w4.mem (w.hdr c).data)[i]? = (w.mem (w.hdr c).data)[i]?))
      (E := fun _ w' => Basic cfg w w' c ∧ w'.hdr c = w.hdr c ∧ w'.live = w.live)
      (Res.sat_mono hmv ?_ (fun _ _ h => h)) ?_) ?_ (fun _ _ h => h)
  · intro _ w4 hr
    have hb4 : Built cfg w w4 c ncap := hb3.step hr.ctl
      (fun i hi => by
        by_cases h : i < pos
        · simpa using hr.src i h
        · exact isObj_of_eq (hr.rest _ i (by intro ⟨h', _, _⟩; exact hnd h'.symm) (by intro ⟨_, _, h'⟩; omega)) (hb3.objs i hi))
      (fun b i hb' hn' => hr.rest b i (by intro ⟨h, _, _⟩; exact hb' h) (by intro ⟨h1, _, h3⟩; exact hn' ⟨h1, by omega⟩))
    refine ⟨hb4, ?_, ?_, ?_, ?_⟩
    · intro i hi
      have := hr.dst i hi
      simp only [Nat.zero_add] at this
      rw [this, hdata3]
    · intro k hk
      rw [hr.rest _ _ (by intro ⟨_, _, h⟩; omega) (by intro ⟨h, _, _⟩; exact hnd h)]; exact hnew3 k hk
    · intro i h1 h2
      exact isRaw_of_eq (hr.rest _ i (by intro ⟨_, _, h⟩; omega) (by intro ⟨h, _, _⟩; exact hnd h)) (hraw3 i h2 (by intro ⟨_, h⟩; omega))
    · intro i hi
      rw [hr.rest _ i (by intro ⟨h, _, _⟩; exact hnd h.symm) (by intro ⟨_, _, h⟩; omega), hdata3]
  · -- relocation of the prefix threw: destroy the inserted elements, give the block back
    intro e w4 ⟨_, hf⟩
    have hb4 : Built cfg w w4 c ncap := hb3.step hf.ctl
      (fun i hi => by
        by_cases h : i < pos
        · simpa using hf.src i h
        · exact isObj_of_eq (hf.rest _ i (by intro ⟨h', _, _⟩; exact hnd h'.symm) (by intro ⟨_, _, h'⟩; omega)) (hb3.objs i hi))
      (fun b i hb' hn' => hf.rest b i (by intro ⟨h, _, _⟩; exact hb' h) (by intro ⟨h1, _, h3⟩; exact hn' ⟨h1, by omega⟩))
    have hobj4 : ∀ i, pos ≤ i → i < pos + srcs.length → IsObj w4 w.next i := by
      intro i h1 h2
      have := hnew3 (i - pos) (by omega)
      rw [show pos + (i - pos) = i by omega] at this
      exact ⟨_, by rw [hf.rest _ i (by intro ⟨_, _, h⟩; omega) (by intro ⟨h, _, _⟩; exact hnd h)]; exact this⟩
    refine sat_bind (destroyRange_sat cfg w.next srcs.length pos w4 hobj4) (fun _ w5 h5 => ?_) (fun _ _ h => h.elim)
    obtain ⟨hc5, hr5, hrest5⟩ := h5
    have hb5 : Built cfg w w5 c ncap := hb4.step hc5
      (fun i hi => isObj_of_eq (hrest5 _ i (by intro ⟨h, _, _⟩; exact hnd h.symm)) (hb4.objs i hi))
      (fun b i hb' _ => hrest5 b i (by intro ⟨h, _, _⟩; exact hb' h))
    have hraw5 : ∀ i, i < ncap → IsRaw w5 w.next i := by
      intro i hi
      by_cases h1 : pos ≤ i ∧ i < pos + srcs.length
      · exact hr5 i h1.1 h1.2
      · refine isRaw_of_eq (hrest5 _ i (by intro ⟨_, a, b⟩; exact h1 ⟨a, b⟩)) ?_
        by_cases h2 : i < pos
        · simpa using hf.dst i h2
        · exact isRaw_of_eq (hf.rest _ i (by intro ⟨_, _, h⟩; omega) (by intro ⟨h, _, _⟩; exact hnd h)) (hraw3 i hi h1)
    obtain ⟨w6, hd, hbs, hh6, hlv6⟩ := abort_realloc_basic hv hl hb5 hraw5
    rw [bind_run, hd]
    exact ⟨hbs, by rw [hh6], hlv6⟩
  -- 3. relocate the suffix [pos, size)
  intro _ w4 ⟨hb4, hpre4, hnew4, hraw4, hdata4⟩
  have hmv2 := uninitializedMove_sat cfg false (w.hdr c).data pos ((w.hdr c).size - pos) w.next (pos + srcs.length) w4
    (fun k hk => hb4.objs (pos + k) (by omega))
    (fun k hk => hraw4 _ (by omega) (by omega))
  refine sat_bind (sat_tryCatch (Q := fun _ w5 => Built cfg w w5 c ncap ∧
      (∀ i, i < pos → (w5.mem w.next)[i]? = (w.mem (w.hdr c).data)[i]?) ∧
      (∀ k (h : k < srcs.length), (w5.mem w.next)[pos + k]? = some (.obj (srcVal w srcs[k]))) ∧
      (∀ i, pos ≤ i → i < (w.hdr c).size → (w5.mem w.next)[i + srcs.length]? = (w.mem (w.hdr c).data)[i]?) ∧
      (∀ i, (w.hdr c).size + srcs.length ≤ i → i < ncap → IsRaw w5 w.next i))
      (E := fun _ w' => Basic cfg w w' c ∧ w'.hdr c = w.hdr c ∧ w'.live = w.live)
      (Res.sat_mono hmv2 ?_ (fun _ _ h => h)) ?_) ?_ (fun _ _ h => h)
  · intro _ w5 hr
    have hb5 : Built cfg w w5 c ncap := hb4.step hr.ctl
      (fun i hi => by
        by_cases h : pos ≤ i
        · have := hr.src (i - pos) (by omega)
          rw [show pos + (i - pos) = i by omega] at this
          exact this
        · exact isObj_of_eq (hr.rest _ i (by intro ⟨h', _, _⟩; exact hnd h'.symm) (by intro ⟨_, h', _⟩; omega)) (hb4.objs i hi))
      (fun b i hb' hn' => hr.rest b i (by intro ⟨h, _, _⟩; exact hb' h) (by intro ⟨h1, _, h3⟩; exact hn' ⟨h1, by omega⟩))
    refine ⟨hb5, ?_, ?_, ?_, ?_⟩
    · intro i hi
      rw [hr.rest _ i (by intro ⟨_, h, _⟩; omega) (by intro ⟨h, _, _⟩; exact hnd h)]; exact hpre4 i hi
    · intro k hk
      rw [hr.rest _ _ (by intro ⟨_, h, _⟩; omega) (by intro ⟨h, _, _⟩; exact hnd h)]; exact hnew4 k hk
    · intro i h1 h2
      have := hr.dst (i - pos) (by omega)
      rw [show pos + srcs.length + (i - pos) = i + srcs.length by omega, show pos + (i - pos) = i by omega] at this
      rw [this, hdata4 i h1]
    · intro i h1 h2
      exact isRaw_of_eq (hr.rest _ i (by intro ⟨_, _, h⟩; omega) (by intro ⟨h, _, _⟩; exact hnd h)) (hraw4 i (by omega) h2)
  · -- relocation of the suffix threw: destroy prefix and inserted elements in the new block, give it back
    intro e w5 ⟨_, hf⟩
    have hb5 : Built cfg w w5 c ncap := hb4.step hf.ctl
      (fun i hi => by
        by_cases h : pos ≤ i
        · have := hf.src (i - pos) (by omega)
          rw [show pos + (i - pos) = i by omega] at this
          exact this
        · exact isObj_of_eq (hf.rest _ i (by intro ⟨h', _, _⟩; exact hnd h'.symm) (by intro ⟨_, h', _⟩; omega)) (hb4.objs i hi))
      (fun b i hb' hn' => hf.rest b i (by intro ⟨h, _, _⟩; exact hb' h) (by intro ⟨h1, _, h3⟩; exact hn' ⟨h1, by omega⟩))
    have hobj5 : ∀ i, 0 ≤ i → i < 0 + (pos + srcs.length) → IsObj w5 w.next i := by
      intro i _ h2
      by_cases h : i < pos
      · have hsrc : IsObj w (w.hdr c).data i := hv.objs i (by omega)
        exact isObj_of_eq ((hf.rest _ i (by intro ⟨_, h', _⟩; omega) (by intro ⟨h', _, _⟩; exact hnd h')).trans (hpre4 i h)) hsrc
      · have := hnew4 (i - pos) (by omega)
        rw [show pos + (i - pos) = i by omega] at this
        exact ⟨_, by rw [hf.rest _ i (by intro ⟨_, h', _⟩; omega) (by intro ⟨h', _, _⟩; exact hnd h')]; exact this⟩
    refine sat_bind (destroyRange_sat cfg w.next (pos + srcs.length) 0 w5 hobj5) (fun _ w6 h6 => ?_) (fun _ _ h => h.elim)
    obtain ⟨hc6, hr6, hrest6⟩ := h6
    have hb6 : Built cfg w w6 c ncap := hb5.step hc6
      (fun i hi => isObj_of_eq (hrest6 _ i (by intro ⟨h, _, _⟩; exact hnd h.symm)) (hb5.objs i hi))
      (fun b i hb' _ => hrest6 b i (by intro ⟨h, _, _⟩; exact hb' h))
    have hraw6 : ∀ i, i < ncap → IsRaw w6 w.next i := by
      intro i hi
      by_cases h1 : i < pos + srcs.length
      · exact hr6 i (Nat.zero_le _) (by omega)
      · refine isRaw_of_eq (hrest6 _ i (by intro ⟨_, _, b⟩; omega)) ?_
        by_cases h2 : i < (w.hdr c).size + srcs.length
        · have := hf.dst (i - (pos + srcs.length)) (by omega)
          rw [show pos + srcs.length + (i - (pos + srcs.length)) = i by omega] at this
          exact this
        · exact isRaw_of_eq (hf.rest _ i (by intro ⟨_, _, h⟩; omega) (by intro ⟨h, _, _⟩; exact hnd h)) (hraw4 i (by omega) hi)
    obtain ⟨w7, hd, hbs, hh7, hlv7⟩ := abort_realloc_basic hv hl hb6 hraw6
    rw [bind_run, hd]
    exact ⟨hbs, by rw [hh7], hlv7⟩
  -- 4. reset_data
  intro _ w5 ⟨hb5, hpre5, hnew5, hsuf5, hraw5⟩
  have hfin := finish_realloc (n' := (w.hdr c).size + srcs.length) hv hl hb5 hN hle hge
    (fun i hi => by
      by_cases h1 : i < pos
      · exact isObj_of_eq (hpre5 i h1) (hv.objs i (by omega))
      · by_cases h2 : i < pos + srcs.length
        · have := hnew5 (i - pos) (by omega)
          rw [show pos + (i - pos) = i by omega] at this
          exact ⟨_, this⟩
        · have := hsuf5 (i - srcs.length) (by omega) (by omega)
          rw [show i - srcs.length + srcs.length = i by omega] at this
          exact isObj_of_eq this (hv.objs _ (by omega)))
    (fun i h1 h2 => hraw5 i h1 h2)
  refine sat_bind hfin (fun _ w' h' => ?_) (fun _ _ h => h.elim)
  obtain ⟨hvec, hled, hframe, hub, hhc, hmemn, hnext⟩ := h'
  show pos = pos ∧ _
  refine ⟨rfl, ⟨⟨hvec, hled, hub, hframe⟩, ?_, by rw [hhc]; simp, by rw [hhc]⟩, by rw [hhc], by rw [hhc]⟩
  intro xs hx
  have hml : (srcs.map (srcVal w)).length = srcs.length := by simp
  refine holds_insert_of_slots (d := w.next) (n := (w.hdr c).size) hx rfl hpos (by rw [hhc, hml]) (by rw [hhc]) ?_ ?_ ?_
  · intro i hi; rw [hmemn]; exact hpre5 i hi
  · intro k hk
    rw [hmemn]
    have hk' : k < srcs.length := by rw [hml] at hk; exact hk
    rw [hnew5 k hk']
    simp
  · intro i h1 h2; rw [hmemn, hml]; exact hsuf5 i h1 h2

end SvModel
