/-
swap inside a system of containers.

`SysAll.exchange`     — the O(1) path (`swap_allocation`): the two headers exchange (data, capacity, size) and, when the
                        allocator propagates on swap, the allocators; no element is touched (C09: iterators into a heap
                        buffer stay valid and now belong to the other container).
-/
import SvModel.Proofs.SysStep2
import SvModel.Proofs.Swap
import SvModel.Proofs.MoveAssignSys

namespace SvModel
open Gen
variable {α : Type}

/-- the two-header rewrite of `swap_allocation` followed by the allocator exchange -/
def exchW (w : World α) (c o a1 a2 : Nat) : World α :=
  { w with hdr := upd (upd w.hdr c { w.hdr c with data := (w.hdr o).data, cap := (w.hdr o).cap, size := (w.hdr o).size, alloc := a1 }) o { w.hdr o with data := (w.hdr c).data, cap := (w.hdr c).cap, size := (w.hdr c).size, alloc := a2 } }

theorem SysAll.exchange {cfg : Cfg} {w : World α} {U A : List Nat} {c o : Nat} (hs : SysAll cfg w U A)
    (hc : c ∈ A) (ho : o ∈ A) (hco : c ≠ o) (hN : (w.hdr c).N = (w.hdr o).N)
    (hoi : (w.hdr o).data = (w.hdr o).inl → (w.hdr o).inl = (w.hdr c).inl)
    (hci : (w.hdr c).data = (w.hdr c).inl → (w.hdr c).inl = (w.hdr o).inl)
    (a1 a2 : Nat) (ha1 : (w.hdr o).data ≠ (w.hdr o).inl → a1 = (w.hdr o).alloc)
    (ha2 : (w.hdr c).data ≠ (w.hdr c).inl → a2 = (w.hdr c).alloc) :
    SysAll cfg (exchW w c o a1 a2) U A ∧
    (∀ xs, Holds w o xs → Holds (exchW w c o a1 a2) c xs) ∧ (∀ xs, Holds w c xs → Holds (exchW w c o a1 a2) o xs) ∧
    (∀ d ∈ A, d ≠ c → d ≠ o → ∀ xs, Holds w d xs → Holds (exchW w c o a1 a2) d xs) ∧
    (exchW w c o a1 a2).mem = w.mem ∧ (exchW w c o a1 a2).live = w.live := by
  have hoc : o ≠ c := fun h => hco h.symm
  have hvc := hs.ok.vec c hc
  have hvo := hs.ok.vec o ho
  have hl := hs.ok.led
  have hn5 := hl.next_ok.2
  have hci5 := hvc.inl_lt
  have hoi5 := hvo.inl_lt
  generalize hw' : exchW w c o a1 a2 = w'
  have hhc : w'.hdr c = { w.hdr c with data := (w.hdr o).data, cap := (w.hdr o).cap, size := (w.hdr o).size, alloc := a1 } := by
    subst hw'; unfold exchW; simp [upd_other _ _ _ _ hco]
  have hho : w'.hdr o = { w.hdr o with data := (w.hdr c).data, cap := (w.hdr c).cap, size := (w.hdr c).size, alloc := a2 } := by
    subst hw'; unfold exchW; simp
  have hhd : ∀ d, d ≠ c → d ≠ o → w'.hdr d = w.hdr d := by
    intro d h1 h2; subst hw'; unfold exchW; simp [upd_other _ _ _ _ h1, upd_other _ _ _ _ h2]
  have hmem : w'.mem = w.mem := by subst hw'; rfl
  have hlive : w'.live = w.live := by subst hw'; rfl
  have hown : w'.owner = w.owner := by subst hw'; rfl
  have hnext : w'.next = w.next := by subst hw'; rfl
  have hled : Ledger w' := by
    subst hw'
    exact ⟨hl.next_ok, hl.ntmp_ok, hl.live_ok, hl.nodup, hl.freed, hl.tmpfresh⟩
  -- a data pointer that is the OTHER container's in-object buffer means "inline"
  have o_inl_of : (w.hdr o).data = (w.hdr c).inl → (w.hdr o).data = (w.hdr o).inl := by
    intro h
    by_cases hh : (w.hdr o).data = (w.hdr o).inl
    · exact hh
    · have := (hvo.data_odd hl hh).1; omega
  have c_inl_of : (w.hdr c).data = (w.hdr o).inl → (w.hdr c).data = (w.hdr c).inl := by
    intro h
    by_cases hh : (w.hdr c).data = (w.hdr c).inl
    · exact hh
    · have := (hvc.data_odd hl hh).1; omega
  -- one side of the exchange (stated for the pair (x, y) = (c, o) and (o, c))
  have side : ∀ (x y : Nat) (a : Nat), VecOK cfg w x → VecOK cfg w y → (w.hdr x).N = (w.hdr y).N →
      ((w.hdr y).data = (w.hdr y).inl → (w.hdr y).inl = (w.hdr x).inl) →
      ((w.hdr x).data = (w.hdr x).inl → (w.hdr x).inl = (w.hdr y).inl) →
      ((w.hdr y).data = (w.hdr x).inl → (w.hdr y).data = (w.hdr y).inl) →
      ((w.hdr y).data ≠ (w.hdr y).inl → a = (w.hdr y).alloc) →
      w'.hdr x = { w.hdr x with data := (w.hdr y).data, cap := (w.hdr y).cap, size := (w.hdr y).size, alloc := a } →
      VecOK cfg w' x := by
    intro x y a hvx hvy hNxy hyi hxi hy_of hax hhx
    refine ⟨?_, ?_, ?_, ?_, ?_, ?_, ?_, ?_, ?_, ?_⟩ <;> rw [hhx] <;> simp only []
    · exact hvy.size_le
    · rw [hNxy]; exact hvy.cap_ge
    · rw [hNxy]; exact hvy.cap_max
    · rw [hNxy]
      exact ⟨fun h => (hyi ((hvy.inl_iff).mp h)) ▸ (hvy.inl_iff).mp h, fun h => (hvy.inl_iff).mpr (hy_of h)⟩
    · exact hvx.inl_lt
    · rw [hmem]; exact hvy.len
    · intro i hi; unfold IsObj; rw [hmem]; exact hvy.objs i hi
    · intro i h1 h2; unfold IsRaw; rw [hmem]; exact hvy.raws i h1 h2
    · intro hne
      have hyh : (w.hdr y).data ≠ (w.hdr y).inl := fun h => hne (by rw [h]; exact hyi h)
      rw [hlive, hown]; exact ⟨(hvy.heap hyh).1, by rw [(hvy.heap hyh).2, hax hyh]⟩
    · intro hne
      have hyh : (w.hdr y).data ≠ (w.hdr y).inl := fun h => hne (by rw [h]; exact hyi h)
      by_cases hxh : (w.hdr x).data = (w.hdr x).inl
      · obtain ⟨h1, h2⟩ := hvy.idle hyh
        rw [hxi hxh, hNxy]
        exact ⟨by rw [hmem]; exact h1, fun i hi => by unfold IsRaw; rw [hmem]; exact h2 i hi⟩
      · obtain ⟨h1, h2⟩ := hvx.idle hxh
        exact ⟨by rw [hmem]; exact h1, fun i hi => by unfold IsRaw; rw [hmem]; exact h2 i hi⟩
  have hvc' : VecOK cfg w' c := side c o a1 hvc hvo hN hoi hci o_inl_of ha1 hhc
  have hvo' : VecOK cfg w' o := side o c a2 hvo hvc hN.symm hci hoi c_inl_of ha2 hho
  have hf : Frame2 w w' c o := by
    refine ⟨hhd, by rw [hhc]; exact ⟨rfl, rfl⟩, by rw [hho]; exact ⟨rfl, rfl⟩, fun b _ _ _ _ _ _ => by rw [hmem],
            fun b _ => by rw [hown], by rw [hnext]; exact Nat.le_refl _, ?_, ?_, ?_, fun b hb _ _ => by rw [hlive]; exact hb, ?_⟩
    · rw [hhc]; simp only []
      intro hne
      exact Or.inr (Or.inl ⟨trivial, fun h => hne (by rw [h]; exact hoi h)⟩)
    · rw [hho]; simp only []
      intro hne
      exact Or.inl ⟨trivial, fun h => hne (by rw [h]; exact hci h)⟩
    · rw [hhc, hho]; simp only []
      intro h1 h2
      have hoh : (w.hdr o).data ≠ (w.hdr o).inl := fun h => h1 (by rw [h]; exact hoi h)
      exact (hs.ok.sep o ho c hc hoc).data hoh
    · intro b hb
      rw [hlive] at hb
      rw [hhc, hho]; simp only []
      by_cases h1 : b = (w.hdr o).data
      · exact Or.inl h1
      · by_cases h2 : b = (w.hdr c).data
        · exact Or.inr (Or.inl h2)
        · exact Or.inr (Or.inr ⟨hb, h2, h1⟩)
  have hub : w'.ub = w.ub := by subst hw'; rfl
  refine ⟨hs.step2 hc ho hco hf hvc' hvo' hled hub, ?_, ?_, ?_, hmem, hlive⟩
  · intro xs hx
    exact ⟨by rw [hhc]; exact hx.1, fun i hi => by rw [hhc, hmem]; exact hx.2 i hi⟩
  · intro xs hx
    exact ⟨by rw [hho]; exact hx.1, fun i hi => by rw [hho, hmem]; exact hx.2 i hi⟩
  · intro d hd hdc hdo xs hx
    exact hs.ok.holds_other2 hc ho hf hvc' hvo' hd hdc hdo hx

/-- the model program of the O(1) swap is exactly the two-header rewrite -/
theorem swapAllocation_run (cfg : Cfg) (c o : Nat) (hco : c ≠ o) (w : World α) :
    (swapAllocation c o >>= fun _ => maybeSwapAlloc cfg c o) w =
      .ok () (exchW w c o (maybeSwap cfg.policy (w.hdr c).alloc (w.hdr o).alloc).1 (maybeSwap cfg.policy (w.hdr c).alloc (w.hdr o).alloc).2) := by
  have hoc : o ≠ c := fun h => hco h.symm
  show Res.ok () _ = Res.ok () _
  congr 1
  unfold exchW
  apply world_hdr_ext
  intro x
  by_cases hxc : x = c
  · subst hxc; simp [upd_other _ _ _ _ hco, upd_other _ _ _ _ hoc]
  · by_cases hxo : x = o
    · subst hxo; simp [upd_other _ _ _ _ hco, upd_other _ _ _ _ hoc]
    · simp [upd_other _ _ _ _ hxc, upd_other _ _ _ _ hxo]

/-! ### the mixed path of `swap_default`: `c` is in its in-object buffer, `o` owns a heap buffer -/

/-- the memory part and the header part of the hand-over, before the allocators are exchanged -/
theorem handover_sat (cfg : Cfg) (c o : Nat) (hco : c ≠ o) (w : World α) (cd cs oi : Nat) (od ocap oN : Nat)
    (hcd : (w.hdr c).data = cd) (hcs : (w.hdr c).size = cs)
    (hobj : ∀ k, k < cs → IsObj w cd k) (hraw : ∀ k, k < cs → IsRaw w oi k) :
    ((uninitializedMove cfg false cd 0 cs oi 0 >>= fun _ =>
      destroyRange cfg cd 0 cs >>= fun _ =>
      setDataPtr c od >>= fun _ => setCapacity c ocap >>= fun _ =>
      setDataPtr o oi >>= fun _ => setCapacity o oN >>= fun _ =>
      swapSize c o) w).sat
      (fun _ w1 => Ctl0 w w1 ∧
          w1.hdr = upd (upd w.hdr c { w.hdr c with data := od, cap := ocap, size := (w.hdr o).size }) o { w.hdr o with data := oi, cap := oN, size := cs } ∧
          (∀ k, k < cs → (w1.mem oi)[k]? = (w.mem cd)[k]?) ∧ (∀ k, k < cs → IsRaw w1 cd k) ∧
          (∀ (b i : Nat), ¬ (b = cd ∧ i < cs) → ¬ (b = oi ∧ i < cs) → (w1.mem b)[i]? = (w.mem b)[i]?))
      (fun e w1 => e = .elem ∧ Touched w w1 (fun b i => b = cd ∧ i < cs)) := by
  have hoc : o ≠ c := fun h => hco h.symm
  have hmv := uninitializedMove_sat cfg false cd 0 cs oi 0 w (fun k hk => by simpa using hobj k hk) (fun k hk => by simpa using hraw k hk)
  rw [bind_run]
  cases h1 : uninitializedMove cfg false cd 0 cs oi 0 w with
  | thrown e w1 =>
    obtain ⟨he, hf⟩ := sat_of_thrown hmv h1
    try simp only []
    refine ⟨he, hf.ctl, fun b i hn => ?_, fun b i hp _ => ?_⟩
    · by_cases hd : b = oi ∧ i < cs
      · have r1 := hf.dst i hd.2
        have r0 := hraw i hd.2
        simp only [Nat.zero_add] at r1
        rw [hd.1]; unfold IsRaw at r1 r0; rw [r1, r0]
      · exact hf.rest b i (by intro ⟨x, _, y⟩; exact hd ⟨x, by omega⟩) (by intro ⟨x, _, y⟩; exact hn ⟨x, by omega⟩)
    · have := hf.src i hp.2; simp only [Nat.zero_add] at this; rw [hp.1]; exact this
  | ok u1 w1 =>
    have hr := sat_of_ok hmv h1
    try simp only []
    have hds := destroyRange_sat cfg cd cs 0 w1 (fun i _ y => by have := hr.src i (by omega); simpa using this)
    rw [bind_run]
    cases h2 : destroyRange cfg cd 0 cs w1 with
    | thrown e w2 => exact (sat_of_thrown hds h2).elim
    | ok u2 w2 =>
      obtain ⟨hc12, hraw2, hrest2⟩ := sat_of_ok hds h2
      try simp only []
      have hh2 : w2.hdr = w.hdr := by rw [hc12.hdr, hr.ctl.hdr]
      have hc2 : Ctl0 w w2 := (hr.ctl.trans hc12).to0
      -- cd ≠ oi when there is anything to move
      have hne : ∀ k, k < cs → cd ≠ oi := fun k hk h => by
        obtain ⟨v, hv⟩ := hobj k hk
        have := hraw k hk
        rw [IsRaw, ← h, hv] at this; cases this
      have tail : (setDataPtr c od >>= fun _ => setCapacity c ocap >>= fun _ =>
          setDataPtr o oi >>= fun _ => setCapacity o oN >>= fun _ => swapSize c o) w2 =
          .ok () { w2 with hdr := upd (upd w.hdr c { w.hdr c with data := od, cap := ocap, size := (w.hdr o).size }) o { w.hdr o with data := oi, cap := oN, size := cs } } := by
        show Res.ok () _ = Res.ok () _
        congr 1
        apply world_hdr_ext
        intro x
        rw [hh2]
        by_cases hxc : x = c
        · subst hxc; simp [upd_other _ _ _ _ hco, upd_other _ _ _ _ hoc]
        · by_cases hxo : x = o
          · subst hxo; simp [upd_other _ _ _ _ hco, upd_other _ _ _ _ hoc, hcs]
          · simp [upd_other _ _ _ _ hxc, upd_other _ _ _ _ hxo]
      rw [tail]
      refine ⟨⟨hc2.owner, hc2.live, hc2.next, hc2.ub, hc2.ntmp, hc2.len⟩, rfl, ?_, ?_, ?_⟩
      · intro k hk
        show (w2.mem oi)[k]? = _
        rw [hrest2 oi k (by intro ⟨x, _, _⟩; exact hne k hk x.symm)]
        have := hr.dst k hk; simpa using this
      · intro k hk; exact hraw2 k (Nat.zero_le _) (by omega)
      · intro b i n1 n2
        show (w2.mem b)[i]? = _
        rw [hrest2 b i (by intro ⟨x, _, y⟩; exact n1 ⟨x, by omega⟩)]
        exact hr.rest b i (by intro ⟨x, _, y⟩; exact n2 ⟨x, by omega⟩) (by intro ⟨x, _, y⟩; exact n1 ⟨x, by omega⟩)

theorem maybeSwapAlloc_run (cfg : Cfg) (c o : Nat) (hco : c ≠ o) (w : World α) :
    maybeSwapAlloc cfg c o w = .ok () { w with hdr := upd (upd w.hdr c { w.hdr c with alloc := (maybeSwap cfg.policy (w.hdr c).alloc (w.hdr o).alloc).1 }) o { w.hdr o with alloc := (maybeSwap cfg.policy (w.hdr c).alloc (w.hdr o).alloc).2 } } := by
  have hoc : o ≠ c := fun h => hco h.symm
  show Res.ok () _ = Res.ok () _
  congr 1
  apply world_hdr_ext
  intro x
  by_cases hxc : x = c
  · subst hxc; simp [upd_other _ _ _ _ hco]
  · by_cases hxo : x = o
    · subst hxo; simp [upd_other _ _ _ _ hoc]
    · simp [upd_other _ _ _ _ hxc, upd_other _ _ _ _ hxo]

/-- what the allocators must satisfy for a buffer to change hands in a swap: they are exchanged too, or they are equal -/
def SwapAllocOK (cfg : Cfg) (w : World α) (c o : Nat) : Prop :=
  cfg.policy.pocs = true ∨ (w.hdr c).alloc = (w.hdr o).alloc

theorem SwapAllocOK.fst {cfg : Cfg} {w : World α} {c o : Nat} (h : SwapAllocOK cfg w c o) :
    (maybeSwap cfg.policy (w.hdr c).alloc (w.hdr o).alloc).1 = (w.hdr o).alloc := by
  unfold maybeSwap
  rcases h with h | h
  · simp [h]
  · by_cases hp : cfg.policy.pocs = true <;> simp [hp, h]

theorem SwapAllocOK.snd {cfg : Cfg} {w : World α} {c o : Nat} (h : SwapAllocOK cfg w c o) :
    (maybeSwap cfg.policy (w.hdr c).alloc (w.hdr o).alloc).2 = (w.hdr c).alloc := by
  unfold maybeSwap
  rcases h with h | h
  · simp [h]
  · by_cases hp : cfg.policy.pocs = true <;> simp [hp, h]

/-- MIXED SWAP in a system: `c` inline, `o` on the heap, same inline capacity -/
theorem SysAll.swapHandover {cfg : Cfg} {w : World α} {U A : List Nat} {c o : Nat} (hs : SysAll cfg w U A)
    (hc : c ∈ A) (ho : o ∈ A) (hco : c ≠ o) (hN : (w.hdr c).N = (w.hdr o).N)
    (hcin : (w.hdr c).data = (w.hdr c).inl) (hoh : (w.hdr o).data ≠ (w.hdr o).inl) (hal : SwapAllocOK cfg w c o) :
    (((uninitializedMove cfg false (w.hdr c).data 0 (w.hdr c).size (w.hdr o).inl 0 >>= fun _ =>
      destroyRange cfg (w.hdr c).data 0 (w.hdr c).size >>= fun _ =>
      setDataPtr c (w.hdr o).data >>= fun _ => setCapacity c (w.hdr o).cap >>= fun _ =>
      setDataPtr o (w.hdr o).inl >>= fun _ => setCapacity o (w.hdr o).N >>= fun _ =>
      swapSize c o) >>= fun _ => maybeSwapAlloc cfg c o) w).sat
      (fun _ w' => SysAll cfg w' U A ∧ (∀ xs, Holds w o xs → Holds w' c xs) ∧ (∀ xs, Holds w c xs → Holds w' o xs) ∧
          (∀ d ∈ A, d ≠ c → d ≠ o → ∀ xs, Holds w d xs → Holds w' d xs) ∧ w'.live = w.live ∧
          (w'.hdr c).data = (w.hdr o).data)
      (fun e w' => e = .elem ∧ SysAll cfg w' U A ∧ (∃ ys, Holds w' c ys) ∧ (∀ xs, Holds w o xs → Holds w' o xs) ∧
          (∀ d ∈ A, d ≠ c → ∀ xs, Holds w d xs → Holds w' d xs) ∧ w'.live = w.live) := by
  have hoc : o ≠ c := fun h => hco h.symm
  have hvc := hs.ok.vec c hc
  have hvo := hs.ok.vec o ho
  have hl := hs.ok.led
  have hn5 := hl.next_ok.2
  have hci5 := hvc.inl_lt
  have hoi5 := hvo.inl_lt
  have hccap : (w.hdr c).cap = (w.hdr c).N := (hvc.inl_iff).mpr hcin
  have hodd := hvo.data_odd hl hoh
  obtain ⟨hoidle_len, hoidle_raw⟩ := hvo.idle hoh
  have hcsN : (w.hdr c).size ≤ (w.hdr o).N := by have := hvc.size_le; omega
  have hsat := handover_sat cfg c o hco w (w.hdr c).data (w.hdr c).size (w.hdr o).inl (w.hdr o).data (w.hdr o).cap (w.hdr o).N rfl rfl
    (fun k hk => hvc.objs k hk) (fun k hk => hoidle_raw k (by omega))
  refine sat_bind hsat (fun _ w1 ⟨hc1, hh1, hval1, hraw1, hrest1⟩ => ?_) (fun e w1 ⟨he, ht⟩ => ?_)
  · rw [maybeSwapAlloc_run cfg c o hco]
    have hac : (w1.hdr c).alloc = (w.hdr c).alloc := by rw [hh1]; simp [upd_other _ _ _ _ hco]
    have hao : (w1.hdr o).alloc = (w.hdr o).alloc := by rw [hh1]; simp
    rw [hac, hao, hal.fst, hal.snd]
    generalize hw' : ({ w1 with hdr := upd (upd w1.hdr c { w1.hdr c with alloc := (w.hdr o).alloc }) o { w1.hdr o with alloc := (w.hdr c).alloc } } : World α) = w'
    have hhc : w'.hdr c = { w.hdr c with data := (w.hdr o).data, cap := (w.hdr o).cap, size := (w.hdr o).size, alloc := (w.hdr o).alloc } := by
      subst hw'; simp [hh1, upd_other _ _ _ _ hco]
    have hho : w'.hdr o = { w.hdr o with data := (w.hdr o).inl, cap := (w.hdr o).N, size := (w.hdr c).size, alloc := (w.hdr c).alloc } := by
      subst hw'; simp [hh1]
    have hhd : ∀ d, d ≠ c → d ≠ o → w'.hdr d = w.hdr d := by
      intro d h1 h2; subst hw'; simp [hh1, upd_other _ _ _ _ h1, upd_other _ _ _ _ h2]
    have hmem : w'.mem = w1.mem := by subst hw'; rfl
    have hlive : w'.live = w.live := by subst hw'; exact hc1.live
    have hown : w'.owner = w.owner := by subst hw'; exact hc1.owner
    have hnext : w'.next = w.next := by subst hw'; exact hc1.next
    have hub : w'.ub = w.ub := by subst hw'; exact hc1.ub
    have hc' : Ctl0 w w' := by subst hw'; exact ⟨hc1.owner, hc1.live, hc1.next, hc1.ub, hc1.ntmp, hc1.len⟩
    have hled : Ledger w' := hl.of_ctl0 hc'
    -- block facts
    have hod_cd : (w.hdr o).data ≠ (w.hdr c).data := by rw [hcin]; omega
    have hod_oi : (w.hdr o).data ≠ (w.hdr o).inl := hoh
    have hmem_od : ∀ i, (w'.mem (w.hdr o).data)[i]? = (w.mem (w.hdr o).data)[i]? := fun i => by
      rw [hmem]; exact hrest1 _ i (by intro ⟨x, _⟩; exact hod_cd x) (by intro ⟨x, _⟩; exact hod_oi x)
    have hlen : ∀ b, (b % 2 = 1 ∨ b < 6) → (w'.mem b).length = (w.mem b).length := fun b hb =>
      hc'.len b (by rcases hb with h | h; exact Or.inl h; exact Or.inr (Or.inl h))
    have hvc' : VecOK cfg w' c := by
      refine ⟨?_, ?_, ?_, ?_, ?_, ?_, ?_, ?_, ?_, ?_⟩ <;> rw [hhc] <;> simp only []
      · exact hvo.size_le
      · rw [hN]; exact hvo.cap_ge
      · rw [hN]; exact hvo.cap_max
      · have := (hvo.heap_iff).mpr hoh
        exact ⟨fun h => by omega, fun h => by omega⟩
      · exact hci5
      · rw [hlen _ (Or.inl hodd.2.1)]; exact hvo.len
      · intro i hi; exact isObj_of_eq (hmem_od i) (hvo.objs i hi)
      · intro i h1 h2; exact isRaw_of_eq (hmem_od i) (hvo.raws i h1 h2)
      · intro _; rw [hlive, hown]; exact hvo.heap hoh
      · intro _
        refine ⟨by rw [hlen _ (Or.inr (by omega))]; rw [← hcin, hvc.len, hccap], fun i hi => ?_⟩
        by_cases h : i < (w.hdr c).size
        · rw [← hcin]; exact isRaw_of_eq (by rw [hmem]) (hraw1 i h)
        · rw [← hcin]
          refine isRaw_of_eq ?_ (hvc.raws i (by omega) (by omega))
          rw [hmem]
          refine hrest1 _ i (by intro ⟨_, y⟩; exact h y) (by intro ⟨_, y⟩; exact h y)
    have hvo' : VecOK cfg w' o :=
      { size_le := by rw [hho]; exact hcsN
        cap_ge := by rw [hho]; exact Nat.le_refl _
        cap_max := by rw [hho]; exact Nat.le_max_right _ _
        inl_iff := by rw [hho]; exact ⟨fun _ => rfl, fun _ => rfl⟩
        inl_lt := by rw [hho]; exact hoi5
        len := by rw [hho]; simp only []; rw [hlen _ (Or.inr (by omega))]; exact hoidle_len
        objs := by
          rw [hho]; intro i hi
          obtain ⟨v, hv⟩ := hvc.objs i hi
          exact ⟨v, by rw [hmem, hval1 i hi]; exact hv⟩
        raws := by
          rw [hho]; intro i h1 h2
          refine isRaw_of_eq ?_ (hoidle_raw i h2)
          rw [hmem]
          exact hrest1 _ i (by intro ⟨_, y⟩; exact absurd y (Nat.not_lt.mpr h1)) (by intro ⟨_, y⟩; exact absurd y (Nat.not_lt.mpr h1))
        heap := by rw [hho]; intro h; exact absurd rfl h
        idle := by rw [hho]; intro h; exact absurd rfl h }
    have hf : Frame2 w w' c o := by
      refine ⟨hhd, by rw [hhc]; exact ⟨rfl, rfl⟩, by rw [hho]; exact ⟨rfl, rfl⟩, ?_,
              fun b _ => by rw [hown], by rw [hnext]; exact Nat.le_refl _, ?_, ?_, ?_, fun b hb _ _ => by rw [hlive]; exact hb, ?_⟩
      · intro b h1 _ _ h4 _ _
        apply List.ext_getElem?
        intro i
        rw [hmem]
        exact hrest1 b i (by intro ⟨x, _⟩; exact h1 x) (by intro ⟨x, _⟩; exact h4 x)
      · rw [hhc]; simp only []
        intro _
        exact Or.inr (Or.inl ⟨trivial, hoh⟩)
      · rw [hho]; simp only []
        intro h; exact absurd rfl h
      · rw [hho]; simp only []
        intro _ h; exact absurd rfl h
      · intro b hb
        rw [hlive] at hb
        rw [hhc, hho]; simp only []
        by_cases h1 : b = (w.hdr o).data
        · exact Or.inl h1
        · have := (hl.live_ok b hb).1
          exact Or.inr (Or.inr ⟨hb, by rw [hcin]; omega, h1⟩)
    refine ⟨hs.step2 hc ho hco hf hvc' hvo' hled hub, ?_, ?_, ?_, hlive, by rw [hhc]⟩
    · intro xs hx
      exact ⟨by rw [hhc]; exact hx.1, fun i hi => by rw [hhc]; simp only []; rw [hmem_od i]; exact hx.2 i hi⟩
    · intro xs hx
      refine ⟨by rw [hho]; exact hx.1, fun i hi => ?_⟩
      rw [hho, hmem]; simp only []
      rw [hval1 i (by rw [← hx.1]; exact hi)]; exact hx.2 i hi
    · intro d hd hdc hdo xs hx
      exact hs.ok.holds_other2 hc ho hf hvc' hvo' hd hdc hdo hx
  · have hb := basic_of_touched cfg (P := fun b i => b = (w.hdr c).data ∧ i < (w.hdr c).size) hvc hl ht (fun b i h => h)
    have hs1 := hs.step hc hb
    refine ⟨he, hs1, (hs1.ok.vec c hc).holds_exists, fun xs hx => hs.ok.holds_other hc hb ho hoc hx,
            fun d hd hdc xs hx => hs.ok.holds_other hc hb hd hdc hx, ht.ctl.live⟩

/-! ### the element-wise path inside a system: both containers are in their in-object buffers -/

theorem Holds.of_same {w w' : World α} {c d : Nat} {xs : List (Val α)} (hx : Holds w d xs)
    (hm : w'.mem (w.hdr d).data = w.mem (w.hdr d).data) (hd : (w'.hdr c).data = (w.hdr d).data) (hs : (w'.hdr c).size = (w.hdr d).size) :
    Holds w' c xs :=
  ⟨by rw [hs]; exact hx.1, fun i hi => by rw [hd, hm]; exact hx.2 i hi⟩

/-- exchanging / keeping the allocators of two containers that own no block, or keeping them when they do not propagate -/
theorem SysAll.maybeSwapAlloc_inline {cfg : Cfg} {w : World α} {U A : List Nat} {c o : Nat} (hs : SysAll cfg w U A)
    (hc : c ∈ A) (ho : o ∈ A) (hco : c ≠ o)
    (hok : ((w.hdr c).data = (w.hdr c).inl ∧ (w.hdr o).data = (w.hdr o).inl) ∨ cfg.policy.pocs = false) :
    ∃ w', maybeSwapAlloc cfg c o w = .ok () w' ∧ SysAll cfg w' U A ∧ w'.mem = w.mem ∧ w'.live = w.live ∧
      ∀ d, (w'.hdr d).data = (w.hdr d).data ∧ (w'.hdr d).size = (w.hdr d).size ∧ (w'.hdr d).cap = (w.hdr d).cap := by
  have hoc : o ≠ c := fun h => hco h.symm
  refine ⟨_, maybeSwapAlloc_run cfg c o hco w, ?_, rfl, rfl, ?_⟩
  · have hk1 : (w.hdr c).data = (w.hdr c).inl ∨ (maybeSwap cfg.policy (w.hdr c).alloc (w.hdr o).alloc).1 = (w.hdr c).alloc := by
      rcases hok with h | h
      · exact Or.inl h.1
      · right; unfold maybeSwap; simp [h]
    have hk2 : (w.hdr o).data = (w.hdr o).inl ∨ (maybeSwap cfg.policy (w.hdr c).alloc (w.hdr o).alloc).2 = (w.hdr o).alloc := by
      rcases hok with h | h
      · exact Or.inl h.2
      · right; unfold maybeSwap; simp [h]
    have h1 := hs.setAlloc hc (maybeSwap cfg.policy (w.hdr c).alloc (w.hdr o).alloc).1 hk1
    have e : (upd w.hdr c { w.hdr c with alloc := (maybeSwap cfg.policy (w.hdr c).alloc (w.hdr o).alloc).1 }) o = w.hdr o := upd_other _ _ _ _ hoc
    have h2 := h1.setAlloc ho (maybeSwap cfg.policy (w.hdr c).alloc (w.hdr o).alloc).2 (by
      show (upd w.hdr c _ o).data = (upd w.hdr c _ o).inl ∨ _ = (upd w.hdr c _ o).alloc
      rw [e]; exact hk2)
    simp only [] at h2
    rw [e] at h2
    exact h2
  · intro d
    by_cases hdc : d = c
    · subst hdc; simp [upd_other _ _ _ _ hco]
    · by_cases hdo : d = o
      · subst hdo; simp
      · simp [upd_other _ _ _ _ hdc, upd_other _ _ _ _ hdo]

/-- nothing to exchange -/
theorem swapElements_nil (cfg : Cfg) (c o : Nat) (hco : c ≠ o) (w : World α) (h1 : (w.hdr c).size = 0) (h2 : (w.hdr o).size = 0) :
    swapElements cfg c o w = .ok () w := by
  unfold swapElements
  rw [bind_run, getV_run]; simp only []
  rw [bind_run, getV_run]; simp only []
  rw [h1, h2]
  show swapSize c o w = _
  show Res.ok () _ = Res.ok () w
  congr 1
  have : ∀ x, (upd (upd w.hdr c { w.hdr c with size := (w.hdr o).size }) o
      { ((upd w.hdr c { w.hdr c with size := (w.hdr o).size }) o) with size := (w.hdr c).size }) x = w.hdr x := by
    intro x
    by_cases hxo : x = o
    · subst hxo
      have hxc : x ≠ c := fun h => hco h.symm
      simp [upd_other _ _ _ _ hxc, h1, ← h2]
    · by_cases hxc : x = c
      · subst hxc; simp [upd_other _ _ _ _ hxo, h2, ← h1]
      · simp [upd_other _ _ _ _ hxc, upd_other _ _ _ _ hxo]
  exact (world_hdr_ext this).trans rfl

/-- ELEMENT-WISE SWAP in a system: `size c ≤ size o ≤ capacity c`; both containers inline, or non-propagating allocators -/
theorem SysAll.swapElements {cfg : Cfg} {w : World α} {U A : List Nat} {c o : Nat} (hs : SysAll cfg w U A)
    (hc : c ∈ A) (ho : o ∈ A) (hco : c ≠ o)
    (hok : ((w.hdr c).data = (w.hdr c).inl ∧ (w.hdr o).data = (w.hdr o).inl) ∨ cfg.policy.pocs = false)
    (hle : (w.hdr c).size ≤ (w.hdr o).size) (hfit : (w.hdr o).size ≤ (w.hdr c).cap) :
    ((swapElements cfg c o >>= fun _ => maybeSwapAlloc cfg c o) w).sat
      (fun _ w' => SysAll cfg w' U A ∧ (∀ xs, Holds w o xs → Holds w' c xs) ∧ (∀ xs, Holds w c xs → Holds w' o xs) ∧
          (∀ d ∈ A, d ≠ c → d ≠ o → ∀ xs, Holds w d xs → Holds w' d xs) ∧ w'.live = w.live ∧
          (w'.hdr c).data = (w.hdr c).data ∧ (w'.hdr o).data = (w.hdr o).data)
      (fun e w' => e = .elem ∧ SysAll cfg w' U A ∧ (∃ ys, Holds w' c ys) ∧ (∃ ys, Holds w' o ys) ∧
          (∀ d ∈ A, d ≠ c → d ≠ o → ∀ xs, Holds w d xs → Holds w' d xs) ∧ w'.live = w.live) := by
  have hoc : o ≠ c := fun h => hco h.symm
  have hvc := hs.ok.vec c hc
  have hvo := hs.ok.vec o ho
  have hl := hs.ok.led
  by_cases hz : (w.hdr o).size = 0
  · -- nothing to exchange
    have hzc : (w.hdr c).size = 0 := by omega
    rw [bind_run, swapElements_nil cfg c o hco w hzc hz]
    simp only []
    obtain ⟨w', hrun, hs', hm, hlv, hh⟩ := hs.maybeSwapAlloc_inline hc ho hco hok
    rw [hrun]
    refine ⟨hs', ?_, ?_, ?_, hlv, (hh c).1, (hh o).1⟩
    · intro xs hx
      have : xs = [] := List.eq_nil_of_length_eq_zero (by rw [hx.1, hz])
      rw [this]; exact ⟨by rw [(hh c).2.1, hzc]; rfl, fun i hi => by simp at hi⟩
    · intro xs hx
      have : xs = [] := List.eq_nil_of_length_eq_zero (by rw [hx.1, hzc])
      rw [this]; exact ⟨by rw [(hh o).2.1, hz]; rfl, fun i hi => by simp at hi⟩
    · intro d _ _ _ xs hx
      exact hx.of_same (by rw [hm]) (hh d).1 (hh d).2.1
  · -- the buffers are different blocks
    obtain ⟨hd, hi⟩ := hs.ok.apart hc ho hoc hz
    have hsat := swapElements_sat cfg c o w hvc hl hvo hco hle hfit hd hi
    refine sat_bind hsat (fun _ w1 ⟨hb1, hb2, hhc1, hho1, hvalc, hvalo, hlv1, hn1⟩ => ?_) (fun e w1 ⟨he, hb1, hb2, hh1, hlv1, hn1⟩ => ?_)
    · have hs_h := hs.step ho hb1
      have hs1 := hs_h.step hc hb2
      have hother1 : ∀ d ∈ A, d ≠ c → d ≠ o → ∀ xs, Holds w d xs → Holds w1 d xs := by
        intro d hd' hdc hdo xs hx
        exact hs_h.ok.holds_other hc hb2 hd' hdc (hs.ok.holds_other ho hb1 hd' hdo hx)
      obtain ⟨w', hrun, hs', hm, hlv, hh⟩ := hs1.maybeSwapAlloc_inline hc ho hco (by rw [hhc1, hho1]; exact hok)
      rw [hrun]
      refine ⟨hs', ?_, ?_, ?_, by rw [hlv, hlv1], by rw [(hh c).1, hhc1], by rw [(hh o).1, hho1]⟩
      · intro xs hx
        refine ⟨by rw [(hh c).2.1, hhc1]; exact hx.1, fun i hi' => ?_⟩
        rw [(hh c).1, hhc1, hm]; simp only []
        rw [hvalc i (by rw [← hx.1]; exact hi')]; exact hx.2 i hi'
      · intro xs hx
        refine ⟨by rw [(hh o).2.1, hho1]; exact hx.1, fun i hi' => ?_⟩
        rw [(hh o).1, hho1, hm]; simp only []
        rw [hvalo i (by rw [← hx.1]; exact hi')]; exact hx.2 i hi'
      · intro d hd' hdc hdo xs hx
        exact (hother1 d hd' hdc hdo xs hx).of_same (by rw [hm]) (hh d).1 (hh d).2.1
    · have hs_h := hs.step ho hb1
      have hs1 := hs_h.step hc hb2
      refine ⟨he, hs1, (hs1.ok.vec c hc).holds_exists, (hs1.ok.vec o ho).holds_exists, ?_, hlv1⟩
      intro d hd' hdc hdo xs hx
      exact hs_h.ok.holds_other hc hb2 hd' hdc (hs.ok.holds_other ho hb1 hd' hdo hx)

theorem maybeSwapAlloc_comm (cfg : Cfg) (c o : Nat) (hco : c ≠ o) (w : World α) :
    maybeSwapAlloc cfg c o w = maybeSwapAlloc cfg o c w := by
  have hoc : o ≠ c := fun h => hco h.symm
  rw [maybeSwapAlloc_run cfg c o hco, maybeSwapAlloc_run cfg o c hoc]
  congr 1
  apply world_hdr_ext
  intro x
  unfold maybeSwap
  by_cases hp : cfg.policy.pocs = true
  · by_cases hxc : x = c
    · subst hxc; simp [upd_other _ _ _ _ hco, hp]
    · by_cases hxo : x = o
      · subst hxo; simp [upd_other _ _ _ _ hoc, hp]
      · simp [upd_other _ _ _ _ hxc, upd_other _ _ _ _ hxo]
  · by_cases hxc : x = c
    · subst hxc; simp [upd_other _ _ _ _ hco, hp]
    · by_cases hxo : x = o
      · subst hxo; simp [upd_other _ _ _ _ hoc, hp]
      · simp [upd_other _ _ _ _ hxc, upd_other _ _ _ _ hxo]

/-- the outcome of a swap of `c` and `o` in a system, both ways -/
def SwapPost (cfg : Cfg) (w : World α) (U A : List Nat) (c o : Nat) (w' : World α) : Prop :=
  SysAll cfg w' U A ∧ (∀ xs, Holds w o xs → Holds w' c xs) ∧ (∀ xs, Holds w c xs → Holds w' o xs) ∧
    (∀ d ∈ A, d ≠ c → d ≠ o → ∀ xs, Holds w d xs → Holds w' d xs) ∧ w'.live = w.live

def SwapFail (cfg : Cfg) (w : World α) (U A : List Nat) (c o : Nat) (e : Exc) (w' : World α) : Prop :=
  e = .elem ∧ SysAll cfg w' U A ∧ (∃ ys, Holds w' c ys) ∧ (∃ ys, Holds w' o ys) ∧
    (∀ d ∈ A, d ≠ c → d ≠ o → ∀ xs, Holds w d xs → Holds w' d xs) ∧ w'.live = w.live

theorem SwapPost.symm {cfg : Cfg} {w w' : World α} {U A : List Nat} {c o : Nat} (h : SwapPost cfg w U A o c w') : SwapPost cfg w U A c o w' :=
  ⟨h.1, h.2.2.1, h.2.1, fun d hd h1 h2 => h.2.2.2.1 d hd h2 h1, h.2.2.2.2⟩

theorem SwapFail.symm {cfg : Cfg} {w w' : World α} {U A : List Nat} {c o : Nat} {e : Exc} (h : SwapFail cfg w U A o c e w') : SwapFail cfg w U A c o e w' :=
  ⟨h.1, h.2.1, h.2.2.2.1, h.2.2.1, fun d hd h1 h2 => h.2.2.2.2.1 d hd h2 h1, h.2.2.2.2.2⟩

/-- `swap_default (c, o)` (equal or propagating allocators), `capacity c ≤ capacity o` -/
theorem SysAll.swapDefault {cfg : Cfg} {w : World α} {U A : List Nat} {c o : Nat} (hs : SysAll cfg w U A)
    (hc : c ∈ A) (ho : o ∈ A) (hco : c ≠ o) (hN : (w.hdr c).N = (w.hdr o).N) (hcap : (w.hdr c).cap ≤ (w.hdr o).cap)
    (hal : SwapAllocOK cfg w c o) :
    (swapDefault cfg c o w).sat (fun _ w' => SwapPost cfg w U A c o w') (fun e w' => SwapFail cfg w U A c o e w') := by
  have hoc : o ≠ c := fun h => hco h.symm
  have hvc := hs.ok.vec c hc
  have hvo := hs.ok.vec o ho
  have hl := hs.ok.led
  unfold SvModel.swapDefault
  rw [bind_run, getV_run]; simp only []
  rw [bind_run, getV_run]; simp only []
  have e0 : guard_swapDefault_0 (genv2 cfg (w.hdr c) (w.hdr o)) = decide ((w.hdr c).N < (w.hdr c).cap) := by
    unfold guard_swapDefault_0 hasAllocation genv2 genv; simp only [Bool.false_eq_true, if_false]
  have e1 : guard_swapDefault_1 (genv2 cfg (w.hdr c) (w.hdr o)) = decide ((w.hdr o).N < (w.hdr o).cap) := by
    unfold guard_swapDefault_1 hasAllocation genv2 genv; simp only [Bool.false_eq_true, if_false]
  have e2 : guard_swapDefault_2 (genv2 cfg (w.hdr c) (w.hdr o)) = decide ((w.hdr c).size < (w.hdr o).size) := rfl
  rw [e0, e1, e2]
  by_cases hch : (w.hdr c).N < (w.hdr c).cap
  · -- both on the heap: O(1)
    rw [if_pos (decide_eq_true hch)]
    have hcheap := (hvc.heap_iff).mp hch
    have hoheap := (hvo.heap_iff).mp (by omega)
    rw [swapAllocation_run cfg c o hco, hal.fst, hal.snd]
    obtain ⟨a, b, c', d, _, f⟩ := hs.exchange hc ho hco hN (fun h => absurd h hoheap) (fun h => absurd h hcheap) (w.hdr o).alloc (w.hdr c).alloc
      (fun _ => rfl) (fun _ => rfl)
    exact ⟨a, b, c', d, f⟩
  · rw [if_neg (by simpa using hch)]
    have hcin : (w.hdr c).data = (w.hdr c).inl := (hvc.inl_iff).mp (by have := hvc.cap_ge; omega)
    by_cases hoh : (w.hdr o).N < (w.hdr o).cap
    · rw [if_pos (decide_eq_true hoh)]
      have hoheap := (hvo.heap_iff).mp hoh
      refine Res.sat_mono (hs.swapHandover hc ho hco hN hcin hoheap hal) ?_ ?_
      · intro _ w' ⟨a, b, c', d, e, _⟩; exact ⟨a, b, c', d, e⟩
      · intro e w' ⟨a, b, c', d, f, g⟩
        obtain ⟨ys, hy⟩ := hvo.holds_exists
        exact ⟨a, b, c', ⟨ys, d ys hy⟩, fun x hx h1 _ => f x hx h1, g⟩
    · rw [if_neg (by simpa using hoh)]
      have hoin : (w.hdr o).data = (w.hdr o).inl := (hvo.inl_iff).mp (by have := hvo.cap_ge; omega)
      by_cases hlt : (w.hdr c).size < (w.hdr o).size
      · rw [if_pos (decide_eq_true hlt)]
        refine Res.sat_mono (SysAll.swapElements hs hc ho hco (Or.inl ⟨hcin, hoin⟩) (Nat.le_of_lt hlt) (by have := hvo.size_le; have : (w.hdr o).cap = (w.hdr o).N := (hvo.inl_iff).mpr hoin; have : (w.hdr c).cap = (w.hdr c).N := (hvc.inl_iff).mpr hcin; omega)) ?_ ?_
        · intro _ w' ⟨a, b, c', d, e, _⟩; exact ⟨a, b, c', d, e⟩
        · intro e w' h; exact h
      · rw [if_neg (by simpa using hlt)]
        have hge : (w.hdr o).size ≤ (w.hdr c).size := by omega
        have hcomm : (SvModel.swapElements cfg o c >>= fun _ => maybeSwapAlloc cfg c o) w = (SvModel.swapElements cfg o c >>= fun _ => maybeSwapAlloc cfg o c) w := by
          rw [bind_run, bind_run]
          cases SvModel.swapElements cfg o c w with
          | ok u w1 => exact maybeSwapAlloc_comm cfg c o hco w1
          | thrown e w1 => rfl
        rw [hcomm]
        refine Res.sat_mono (SysAll.swapElements hs ho hc hoc (Or.inl ⟨hoin, hcin⟩) hge (by have := hvc.size_le; have : (w.hdr o).cap = (w.hdr o).N := (hvo.inl_iff).mpr hoin; have : (w.hdr c).cap = (w.hdr c).N := (hvc.inl_iff).mpr hcin; omega)) ?_ ?_
        · intro _ w' ⟨a, b, c', d, e, _⟩; exact SwapPost.symm ⟨a, b, c', d, e⟩
        · intro e w' h; exact SwapFail.symm h

/-- SWAP (member `swap`) of two constructed containers of the same type whose allocators propagate on swap or are equal
    (the case the standard defines): every path except `swap_unequal_no_propagate` -/
theorem SysAll.swap {cfg : Cfg} {w : World α} {U A : List Nat} {c o : Nat} (hs : SysAll cfg w U A)
    (hc : c ∈ A) (ho : o ∈ A) (hco : c ≠ o) (hN : (w.hdr c).N = (w.hdr o).N)
    (hnull : (w.hdr c).N = 0 → (w.hdr c).inl = (w.hdr o).inl)
    (hal : SwapAllocOK cfg w c o) :
    (SvModel.swap cfg c o w).sat (fun _ w' => SwapPost cfg w U A c o w') (fun e w' => SwapFail cfg w U A c o e w') := by
  have hoc : o ≠ c := fun h => hco h.symm
  have hal' : SwapAllocOK cfg w o c := by
    rcases hal with h | h
    · exact Or.inl h
    · exact Or.inr h.symm
  have e10 : guard_swap1_0 (genv2 cfg (w.hdr c) (w.hdr o)) = decide ((w.hdr c).cap < (w.hdr o).cap) := rfl
  have e20 : guard_swap2_0 (genv2 cfg (w.hdr c) (w.hdr o)) = decide ((w.hdr c).cap < (w.hdr o).cap) := rfl
  have e21 : guard_swap2_1 (genv2 cfg (w.hdr c) (w.hdr o)) = ((w.hdr o).alloc == (w.hdr c).alloc) := rfl
  have e22 : guard_swap2_2 (genv2 cfg (w.hdr c) (w.hdr o)) = ((w.hdr o).alloc == (w.hdr c).alloc) := rfl
  -- the two orders of swap_default
  have fwd : (w.hdr c).cap ≤ (w.hdr o).cap → (SvModel.swapDefault cfg c o w).sat (fun _ w' => SwapPost cfg w U A c o w') (fun e w' => SwapFail cfg w U A c o e w') :=
    fun h => SysAll.swapDefault hs hc ho hco hN h hal
  have bwd : (w.hdr o).cap ≤ (w.hdr c).cap → (SvModel.swapDefault cfg o c w).sat (fun _ w' => SwapPost cfg w U A c o w') (fun e w' => SwapFail cfg w U A c o e w') :=
    fun h => Res.sat_mono (SysAll.swapDefault hs ho hc hoc hN.symm h hal') (fun _ _ h => SwapPost.symm h) (fun _ _ h => SwapFail.symm h)
  unfold SvModel.swap
  rw [bind_run, getV_run]; simp only []
  rw [bind_run, getV_run]; simp only []
  rw [e10, e20, e21, e22]
  by_cases hsw : allocationsAreSwappable cfg.policy = true
  · rw [if_pos hsw]
    by_cases hz : (w.hdr c).N = 0
    · rw [if_pos hz]
      rw [swapAllocation_run cfg c o hco, hal.fst, hal.snd]
      obtain ⟨a, b, c', d, _, f⟩ := hs.exchange hc ho hco hN (fun _ => (hnull hz).symm) (fun _ => hnull hz) (w.hdr o).alloc (w.hdr c).alloc
        (fun _ => rfl) (fun _ => rfl)
      exact ⟨a, b, c', d, f⟩
    · rw [if_neg hz]
      by_cases hlt : (w.hdr c).cap < (w.hdr o).cap
      · rw [if_pos (decide_eq_true hlt)]; exact fwd (Nat.le_of_lt hlt)
      · rw [if_neg (by simpa using hlt)]; exact bwd (by omega)
  · rw [if_neg hsw]
    -- not swappable: pocs is false, so the allocators are equal
    have hp : cfg.policy.pocs = false := by
      unfold allocationsAreSwappable at hsw
      cases h : cfg.policy.pocs
      · rfl
      · rw [h] at hsw; simp at hsw
    have heq : (w.hdr c).alloc = (w.hdr o).alloc := by
      rcases hal with h | h
      · rw [hp] at h; cases h
      · exact h
    have hb : ((w.hdr o).alloc == (w.hdr c).alloc) = true := by rw [heq]; exact beq_self_eq_true _
    rw [hb]
    simp only [if_true]
    by_cases hlt : (w.hdr c).cap < (w.hdr o).cap
    · rw [if_pos (decide_eq_true hlt)]; exact fwd (Nat.le_of_lt hlt)
    · rw [if_neg (by simpa using hlt)]; exact bwd (by omega)

end SvModel
